/-
C04 — Index queries are complete: every added record that overlaps a query is covered by a returned
chunk.  PROPERTY THEOREMS ONLY (helper lemmas live in Hts.Lemmas.Index*).

Everything is stated for ALL coordinate-sorted record sequences (`SortedInput`: any length, any number
of references incl. skipped ids, unplaced records anywhere), ALL query intervals in the indexable
range and ALL merge strategies that satisfy `EncLaw` (proved below for Adjacent, Squash and every
CompressorStrategy(n)).  The models mirror the code with the repairs fixes/C04-1..3 applied.
"Covered" is the strong reading: ONE returned chunk encloses the record's whole chunk.
-/
import Hts.Lemmas.IndexMerge
import Hts.Lemmas.IndexCsi
import Hts.Lemmas.IndexTabix
import Hts.Props.C16
namespace Hts.Props.C04
open Hts.Model Hts.Model.Index

/-! ### Add never fails on sorted input; what the index then knows -/

/-- `add_never_fails`: on every coordinate-sorted in-range sequence every `Add` returns nil
(no error, no panic) -/
theorem add_never_fails (recs : List Rec) (h : SortedInput recs) :
    ∀ x, x ∈ (addAll {} recs).2 → x = AddRes.ok :=
  (addAll_sorted recs h).1

/-- `bins_inv`: after the whole sequence the chunk of every placed record is stored under the
record's bin in the record's reference, and bin numbers are pairwise distinct -/
theorem bins_inv (recs : List Rec) (h : SortedInput recs) (r : Rec) (hr : r ∈ recs) (hp : r.placed = true) :
    ∃ ref, (addAll {} recs).1.refs[r.rid.toNat]? = some ref ∧ (ref.bins.map (·.bin)).Nodup ∧
      ∃ bn, bn ∈ ref.bins ∧ bn.bin = r.bin ∧ r.chunk ∈ bn.chunks := by
  have inv := (addAll_sorted recs h).2
  have hmem : r ∈ (recs.filter (·.placed)).reverse := by
    rw [List.mem_reverse, List.mem_filter]; exact ⟨hr, hp⟩
  obtain ⟨h0, hlt⟩ := inv.ridLt r hmem
  have hlt' : r.rid.toNat < (addAll {} recs).1.refs.length := by omega
  refine ⟨_, (List.getElem?_eq_some_iff).2 ⟨hlt', rfl⟩, ?_⟩
  have ri := inv.refInv _ _ ((List.getElem?_eq_some_iff).2 ⟨hlt', rfl⟩)
  refine ⟨ri.nodup, ri.bins r ?_⟩
  unfold onRef; rw [List.mem_filter]; exact ⟨hmem, by simp; omega⟩

/-- `tiles_inv`: the tile array of the record's reference reaches the last tile the record overlaps,
and no entry up to that tile lies behind the record's chunk begin -/
theorem tiles_inv (recs : List Rec) (h : SortedInput recs) (r : Rec) (hr : r ∈ recs) (hp : r.placed = true) :
    ∃ ref, (addAll {} recs).1.refs[r.rid.toNat]? = some ref ∧
      lastTile r.start r.stop < ref.intervals.length ∧
      ∀ k v, k ≤ lastTile r.start r.stop → ref.intervals[k]? = some v → v ≤ r.chunk.b := by
  have inv := (addAll_sorted recs h).2
  have hmem : r ∈ (recs.filter (·.placed)).reverse := by
    rw [List.mem_reverse, List.mem_filter]; exact ⟨hr, hp⟩
  obtain ⟨h0, hlt⟩ := inv.ridLt r hmem
  have hlt' : r.rid.toNat < (addAll {} recs).1.refs.length := by omega
  refine ⟨_, (List.getElem?_eq_some_iff).2 ⟨hlt', rfl⟩, ?_⟩
  have ri := inv.refInv _ _ ((List.getElem?_eq_some_iff).2 ⟨hlt', rfl⟩)
  have hm : r ∈ onRef (recs.filter (·.placed)).reverse r.rid.toNat := by
    unfold onRef; rw [List.mem_filter]; exact ⟨hmem, by simp; omega⟩
  exact ⟨ri.tilesLen r hm, ri.tilesLe r hm⟩

/-- `sorted_tiles_le`: sorting the tile array (as `sort()` does) never makes the entry at a position
larger than a bound that held for the whole prefix up to that position -/
theorem sorted_tiles_le (l : List Int) (k : Nat) (B : Int) (hk : k < l.length)
    (hpre : ∀ j v, j ≤ k → l[j]? = some v → v ≤ B) :
    ∀ v, (l.mergeSort leOff)[k]? = some v → v ≤ B :=
  Index.sorted_tiles_le l k B hk hpre

/-! ### the merge strategies lose no chunk -/

theorem adjacent_encloses : EncLaw Local.adjacent := Local.encLaw_adjacent
theorem squash_encloses : EncLaw Local.squash := Local.encLaw_squash
theorem compressor_encloses (near : Int) : EncLaw (Local.compressor near) := Local.encLaw_compressor near
theorem identity_encloses : EncLaw id := encLaw_id

/-- the strategies of the index model ARE C17's models (`Hts.Model.Merge`), carried over to integer
virtual offsets by `v ↦ (v / 65536, v % 65536)` and back by `vOff` -/
theorem strategies_are_C17 :
    Local.adjacent = Local.lift Hts.Model.Merge.adjacent ∧ Local.squash = Local.lift Hts.Model.Merge.squash ∧
      ∀ near, Local.compressor near = Local.lift (Hts.Model.Merge.compressor near) :=
  ⟨rfl, rfl, fun _ => rfl⟩

/-- the bridge: a strategy of C17's model that loses no chunk (`enclosedBy`, proved for Adjacent, Squash
and every Compressor in Hts.Lemmas.MergeEnc) satisfies `EncLaw` after the carry-over -/
theorem encLaw_of_C17 (s : List Hts.Model.Merge.Chunk → List Hts.Model.Merge.Chunk)
    (hs : ∀ ms, Hts.Model.Merge.SortedB ms → ∀ m, m ∈ ms → Hts.Model.Merge.enclosedBy (s ms) m) :
    EncLaw (Local.lift s) := Local.encLaw_lift s hs

/-- the two laws are different.  Losing no CHUNK (what C04 needs) implies losing no POSITION (C17's
`*_covers`) … -/
theorem enclosure_implies_coverage (s : List Hts.Model.Merge.Chunk → List Hts.Model.Merge.Chunk)
    (cs : List Hts.Model.Merge.Chunk) (h : ∀ c, c ∈ cs → Hts.Model.Merge.enclosedBy (s cs) c) (p : Int)
    (hp : Hts.Model.Merge.covers cs p) : Hts.Model.Merge.covers (s cs) p :=
  Hts.Model.Merge.enclosed_covers s cs h p hp

/-- … but not conversely: a function that cuts a chunk in two keeps every position and loses the chunk -/
theorem coverage_does_not_imply_enclosure :
    ∃ (s : List Hts.Model.Merge.Chunk → List Hts.Model.Merge.Chunk) (cs : List Hts.Model.Merge.Chunk),
      Hts.Model.Merge.SortedB cs ∧ (∀ p, Hts.Model.Merge.covers cs p → Hts.Model.Merge.covers (s cs) p) ∧
      ¬ ∀ c, c ∈ cs → Hts.Model.Merge.enclosedBy (s cs) c :=
  Hts.Model.Merge.covers_not_enclosed

/-! ### completeness of `internal.Index.Chunks` -/

/-- the index after the sequence, optionally after `MergeChunks pre` -/
def built (recs : List Rec) : Index := (addAll {} recs).1

/-- `chunks_complete` for `internal.Index`: for every query `[beg, stop)` with `0 ≤ beg < stop` and
every placed record with a non-empty reference interval (an empty one — `End() = Pos`, a CIGAR without
reference-consuming operation — overlaps nothing; such records are still covered by `add_never_fails`,
`bins_inv`, `tiles_inv` and `stats_true`) overlapping it whose bin is among the candidate bins, `Chunks` succeeds and, after
any strategy `s` with `EncLaw`, one returned chunk encloses the record's chunk; the same after
`MergeChunks pre` for any `pre` with `EncLaw` -/
theorem chunks_complete (recs : List Rec) (h : SortedInput recs) (r : Rec) (hr : r ∈ recs)
    (hp : r.placed = true) (hne : r.start < r.stop) (beg stop : Int) (bins : List Nat) (hb : 0 ≤ beg) (hq : beg < stop)
    (hov : beg < r.stop) (hbin : r.bin ∈ bins)
    (pre s : List Chunk → List Chunk) (hpre : EncLaw pre) (hs : EncLaw s) :
    (∃ cs, chunks (built recs) r.rid beg stop bins = .ok cs ∧ coveredBy (s cs) r.chunk) ∧
    (∃ cs, chunks (mergeChunks pre (built recs)) r.rid beg stop bins = .ok cs ∧ coveredBy (s cs) r.chunk) := by
  have inv := (addAll_sorted recs h).2
  have hmem : r ∈ (recs.filter (·.placed)).reverse := by
    rw [List.mem_reverse, List.mem_filter]; exact ⟨hr, hp⟩
  have hok := h.ok r hr
  constructor
  · obtain ⟨cs, h1, h2, c, hc, hce⟩ := chunks_complete_cover _ _ inv.cover r hmem hok.ce ⟨(hok.pos hp).1, hne⟩ beg stop bins hb hq hov hbin
    exact ⟨cs, h1, coveredBy_trans (hs cs h2 c hc) hce⟩
  · obtain ⟨cs, h1, h2, c, hc, hce⟩ := chunks_complete_cover _ _ (mergeChunks_cover pre hpre _ _ inv.cover) r hmem
      hok.ce ⟨(hok.pos hp).1, hne⟩ beg stop bins hb hq hov hbin
    exact ⟨cs, h1, coveredBy_trans (hs cs h2 c hc) hce⟩

/-! ### BAI: `bam.Index` -/

/-- the internal record `bam.Index.Add` derives from a `sam.Record` -/
abbrev baiRec (r : Bai.BaiRec) : Rec := Bai.toRec Coord.binFor r

/-- the BAI index after adding the records -/
def baiBuilt (recs : List Bai.BaiRec) : Index := built (recs.map baiRec)

/-- the bin law of C16 in the form needed here: the bin `Record.Bin` files a placed record under is
listed by `OverlappingBinsFor` for every overlapping query in range -/
theorem bai_bin_law (r : Rec) (hok : RecOK r) (hp : r.placed = true) (hlt : r.start < r.stop)
    (hbin : r.bin = Coord.binFor r.start r.stop)
    (beg stop : Int) (hb : 0 ≤ beg) (hq : beg < stop) (hs : stop ≤ 536870912)
    (hov1 : r.start < stop) (hov2 : beg < r.stop) : r.bin ∈ Coord.overlappingBinsFor beg stop := by
  obtain ⟨h0, _⟩ := hok.pos hp
  have hv := hok.vstop
  simp only [validPos, Bool.and_eq_true, decide_eq_true_eq] at hv
  have := Hts.Props.C16.bai_bin_in_bins r.start.toNat r.stop.toNat beg.toNat stop.toNat
    (by omega) (by omega) (by omega) (by omega) (by omega) (by omega)
  rw [hbin]
  have e1 : ((r.start.toNat : Nat) : Int) = r.start := by omega
  have e2 : ((r.stop.toNat : Nat) : Int) = r.stop := by omega
  have e3 : ((beg.toNat : Nat) : Int) = beg := by omega
  have e4 : ((stop.toNat : Nat) : Int) = stop := by omega
  rw [e1, e2, e3, e4] at this
  exact this

/-- `chunks_complete` for BAI: for every coordinate-sorted sequence of `sam.Record`s, every query
`[beg, stop)` with `0 ≤ beg < stop ≤ 2^29` on any reference and every placed record overlapping it,
`bam.Index.Chunks` returns no error and one returned chunk encloses the record's chunk — with the
default strategy or any `MergeStrategy` satisfying `EncLaw`, and also after `MergeChunks pre` -/
theorem bai_chunks_complete (recs : List Bai.BaiRec) (h : SortedInput (recs.map baiRec))
    (r : Bai.BaiRec) (hr : r ∈ recs) (hp : (baiRec r).placed = true) (hne : r.pos < r.stop)
    (beg stop : Int) (hb : 0 ≤ beg) (hq : beg < stop) (hs29 : stop ≤ 536870912)
    (hov1 : r.pos < stop) (hov2 : beg < r.stop)
    (pre s : List Chunk → List Chunk) (hpre : EncLaw pre) (hs : EncLaw s) :
    (∃ cs, Bai.chunks Coord.overlappingBinsFor s (baiBuilt recs) (baiRec r).rid beg stop = .ok cs ∧
        coveredBy cs r.chunk) ∧
    (∃ cs, Bai.chunks Coord.overlappingBinsFor s (mergeChunks pre (baiBuilt recs)) (baiRec r).rid beg stop = .ok cs ∧
        coveredBy cs r.chunk) := by
  have hmem : baiRec r ∈ recs.map baiRec := List.mem_map.2 ⟨r, hr, rfl⟩
  have hbinEq : (baiRec r).bin = Coord.binFor (baiRec r).start (baiRec r).stop := by
    show Coord.binFor r.pos (if r.stop = r.pos then r.stop + 1 else r.stop) = Coord.binFor r.pos r.stop
    have : ¬ r.stop = r.pos := by omega
    simp [this]
  have hbin := bai_bin_law (baiRec r) (h.ok _ hmem) hp hne hbinEq beg stop hb hq hs29 hov1 hov2
  obtain ⟨⟨cs, h1, h2⟩, ⟨cs', h1', h2'⟩⟩ := chunks_complete (recs.map baiRec) h (baiRec r) hmem hp hne beg stop
    (Coord.overlappingBinsFor beg stop) hb hq hov2 hbin pre s hpre hs
  constructor
  · refine ⟨s cs, ?_, h2⟩
    unfold Bai.chunks baiBuilt
    rw [h1]
  · refine ⟨s cs', ?_, h2'⟩
    unfold Bai.chunks baiBuilt
    rw [h1']

/-- the bin law for a query whose end is ANY `int` (repair C04-5 cuts it at 2^29) -/
theorem bai_bin_law_any_end (r : Rec) (hok : RecOK r) (hp : r.placed = true) (hlt : r.start < r.stop)
    (hbin : r.bin = Coord.binFor r.start r.stop)
    (beg stop : Int) (hb : 0 ≤ beg) (hq : beg < stop)
    (hov1 : r.start < stop) (hov2 : beg < r.stop) : r.bin ∈ Coord.overlappingBinsFor beg stop := by
  obtain ⟨h0, _⟩ := hok.pos hp
  have hv := hok.vstop
  simp only [validPos, Bool.and_eq_true, decide_eq_true_eq] at hv
  have := Hts.Props.C16.bai_bin_in_bins_any_end r.start.toNat r.stop.toNat beg.toNat stop
    (by omega) (by omega) (by omega) (by omega) (by omega)
  rw [hbin]
  have e1 : ((r.start.toNat : Nat) : Int) = r.start := by omega
  have e2 : ((r.stop.toNat : Nat) : Int) = r.stop := by omega
  have e3 : ((beg.toNat : Nat) : Int) = beg := by omega
  rw [e1, e2, e3] at this
  exact this

/-- `bai_chunks_complete` without the bound on the query's end: **every** query `[beg, stop)` with
`0 ≤ beg < stop` (e.g. `stop = math.MaxInt` for "to the end of the reference"; before repair C04-5 such a
query returned no chunks, theorem `Hts.Props.C16.unrepaired_bai_bins_huge_end_witness`) -/
theorem bai_chunks_complete_any_end (recs : List Bai.BaiRec) (h : SortedInput (recs.map baiRec))
    (r : Bai.BaiRec) (hr : r ∈ recs) (hp : (baiRec r).placed = true) (hne : r.pos < r.stop)
    (beg stop : Int) (hb : 0 ≤ beg) (hq : beg < stop)
    (hov1 : r.pos < stop) (hov2 : beg < r.stop)
    (pre s : List Chunk → List Chunk) (hpre : EncLaw pre) (hs : EncLaw s) :
    (∃ cs, Bai.chunks Coord.overlappingBinsFor s (baiBuilt recs) (baiRec r).rid beg stop = .ok cs ∧
        coveredBy cs r.chunk) ∧
    (∃ cs, Bai.chunks Coord.overlappingBinsFor s (mergeChunks pre (baiBuilt recs)) (baiRec r).rid beg stop = .ok cs ∧
        coveredBy cs r.chunk) := by
  have hmem : baiRec r ∈ recs.map baiRec := List.mem_map.2 ⟨r, hr, rfl⟩
  have hbinEq : (baiRec r).bin = Coord.binFor (baiRec r).start (baiRec r).stop := by
    show Coord.binFor r.pos (if r.stop = r.pos then r.stop + 1 else r.stop) = Coord.binFor r.pos r.stop
    have : ¬ r.stop = r.pos := by omega
    simp [this]
  have hbin := bai_bin_law_any_end (baiRec r) (h.ok _ hmem) hp hne hbinEq beg stop hb hq hov1 hov2
  obtain ⟨⟨cs, h1, h2⟩, ⟨cs', h1', h2'⟩⟩ := chunks_complete (recs.map baiRec) h (baiRec r) hmem hp hne beg stop
    (Coord.overlappingBinsFor beg stop) hb hq hov2 hbin pre s hpre hs
  constructor
  · refine ⟨s cs, ?_, h2⟩
    unfold Bai.chunks baiBuilt
    rw [h1]
  · refine ⟨s cs', ?_, h2'⟩
    unfold Bai.chunks baiBuilt
    rw [h1']

/-- the last clause for BAI and every query end -/
theorem bai_error_or_empty_means_no_overlap_any_end (recs : List Bai.BaiRec) (h : SortedInput (recs.map baiRec))
    (rid beg stop : Int) (hb : 0 ≤ beg) (hq : beg < stop)
    (s : List Chunk → List Chunk) (hs : EncLaw s)
    (hans : (∃ e, Bai.chunks Coord.overlappingBinsFor s (baiBuilt recs) rid beg stop = .error e) ∨
            Bai.chunks Coord.overlappingBinsFor s (baiBuilt recs) rid beg stop = .ok []) :
    ¬ ∃ r, r ∈ recs ∧ (baiRec r).placed = true ∧ (baiRec r).rid = rid ∧ r.pos < r.stop ∧ r.pos < stop ∧
      beg < r.stop := by
  rintro ⟨r, hr, hp, hrid, hne, hov1, hov2⟩
  obtain ⟨⟨cs, h1, c, hc, _⟩, _⟩ := bai_chunks_complete_any_end recs h r hr hp hne beg stop hb hq hov1 hov2 id s encLaw_id hs
  rw [hrid] at h1
  rcases hans with ⟨e, he⟩ | he
  · rw [he] at h1; cases h1
  · rw [he] at h1
    cases h1
    cases hc

/-- the last clause of the property for BAI: an error or an empty answer implies that no added placed
record overlaps the query -/
theorem bai_error_or_empty_means_no_overlap (recs : List Bai.BaiRec) (h : SortedInput (recs.map baiRec))
    (rid beg stop : Int) (hb : 0 ≤ beg) (hq : beg < stop) (hs29 : stop ≤ 536870912)
    (s : List Chunk → List Chunk) (hs : EncLaw s)
    (hans : (∃ e, Bai.chunks Coord.overlappingBinsFor s (baiBuilt recs) rid beg stop = .error e) ∨
            Bai.chunks Coord.overlappingBinsFor s (baiBuilt recs) rid beg stop = .ok []) :
    ¬ ∃ r, r ∈ recs ∧ (baiRec r).placed = true ∧ (baiRec r).rid = rid ∧ r.pos < r.stop ∧ r.pos < stop ∧
      beg < r.stop := by
  rintro ⟨r, hr, hp, hrid, hne, hov1, hov2⟩
  obtain ⟨⟨cs, h1, c, hc, _⟩, _⟩ := bai_chunks_complete recs h r hr hp hne beg stop hb hq hs29 hov1 hov2 id s encLaw_id hs
  rw [hrid] at h1
  rcases hans with ⟨e, he⟩ | he
  · rw [he] at h1; cases h1
  · rw [he] at h1
    cases h1
    cases hc

/-! ### CSI: `csi.Index`, every geometry (minShift, depth) with depth ≤ 10 -/
section csi
open Hts.Model.Csi

/-- `csi.New(minShift, depth)` (version and auxiliary data play no role for Add and Chunks) -/
def csiNew (ms d : Nat) : CIndex := { minShift := ms, depth := d }

def csiBuilt (ms d : Nat) (recs : List CRec) : CIndex := (Csi.addAll Coord.reg2bin (csiNew ms d) recs).1

theorem csi_inv (ms d : Nat) (recs : List CRec) (h : CSortedInput ms d recs) :
    allOk (Csi.addAll Coord.reg2bin (csiNew ms d) recs).2 ∧ (csiBuilt ms d recs).minShift = ms ∧
      (csiBuilt ms d recs).depth = d ∧
      CIdxInv (fun x => Coord.reg2bin x.start x.stop ms d) (csiBuilt ms d recs) (recs.filter (·.placed)).reverse := by
  have init : CIdxInv (fun x => Coord.reg2bin x.start x.stop ms d) (csiNew ms d) [] :=
    { flag := rfl
      len0 := fun _ => rfl
      last := by intro a rest h; cases h
      ridLt := by intro a h; cases h
      refInv := by intro j ref h; simp [csiNew] at h }
  have := Csi.addAll_inv Coord.reg2bin ms d recs (csiNew ms d) [] rfl rfl init (by intro a ha; cases ha)
    h.ok h.sorted (by intro a ha; cases ha)
  simpa [csiBuilt] using this

/-- `add_never_fails` for CSI, for the geometries Go's 64-bit position arithmetic supports
(`minShift + 3·depth ≤ 62`, the same range `csi.ReadFrom` accepts) -/
theorem csi_add_never_fails (ms d : Nat) (_hgeom : ms + 3 * d ≤ 62) (recs : List CRec) (h : CSortedInput ms d recs) :
    ∀ x, x ∈ (Csi.addAll Coord.reg2bin (csiNew ms d) recs).2 → x = AddRes.ok :=
  (csi_inv ms d recs h).1

/-- beyond that range the code is unusable rather than wrong: for `minShift + 3·depth ≥ 64` (`csi.New(14,17)`,
`csi.New(40,10)`) `1 << (minShift+3·depth)` is 0 on a 64-bit `int`, no position is valid and EVERY `Add`
returns the "outside indexable range" error, leaving the index unchanged -/
theorem csi_add_rejects_all_beyond_int64 (ms d : Nat) (hgeom : ms + 3 * d ≥ 64) (i : CIndex)
    (hms : i.minShift = ms) (hd : i.depth = d) (r : CRec) :
    Csi.add Coord.reg2bin i r = (i, AddRes.errRange) := by
  have hb : Csi.posBound i.minShift i.depth = -2 := by
    unfold Csi.posBound
    have : ¬ (i.minShift + 3 * i.depth < 64) := by rw [hms, hd]; omega
    simp [this]
  have hv : (Csi.validPos i.minShift i.depth r.start && Csi.validPos i.minShift i.depth r.stop) = false := by
    unfold Csi.validPos
    rw [hb]
    by_cases h1 : -1 ≤ r.start
    · have : ¬ r.start ≤ -2 := by omega
      simp [this]
    · simp [h1]
  unfold Csi.add
  simp [hv]

/-- the bin law of C16 for CSI in the form needed here -/
theorem csi_bin_law (ms d : Nat) (hd : d ≤ 10) (hgeom : ms + 3 * d ≤ 62) (r : CRec) (hok : CRecOK ms d r)
    (hp : r.placed = true)
    (beg stop : Int) (hb : 0 ≤ beg) (hq : beg < stop) (hs : stop ≤ (2 : Int) ^ (ms + 3 * d))
    (hov1 : r.start < stop) (hov2 : beg < r.stop) :
    Coord.reg2bin r.start r.stop ms d ∈ Coord.reg2bins beg stop ms d := by
  obtain ⟨h0, hlt⟩ := hok.pos hp
  have hv := hok.vstop
  simp only [Csi.validPos, Csi.posBound_of_le (show ms + 3 * d ≤ 63 by omega), Bool.and_eq_true,
    decide_eq_true_eq] at hv
  have e : ((2 ^ (ms + 3 * d) : Nat) : Int) = (2 : Int) ^ (ms + 3 * d) := by
    rw [Int.natCast_pow]; rfl
  have := Hts.Props.C16.csi_bin_in_bins r.start.toNat r.stop.toNat beg.toNat stop.toNat ms d hd
    (by omega) (by omega) (by omega) (by omega) (by omega) (by omega)
  have e1 : ((r.start.toNat : Nat) : Int) = r.start := by omega
  have e2 : ((r.stop.toNat : Nat) : Int) = r.stop := by omega
  have e3 : ((beg.toNat : Nat) : Int) = beg := by omega
  have e4 : ((stop.toNat : Nat) : Int) = stop := by omega
  rw [e1, e2, e3, e4] at this
  exact this

/-- `chunks_complete` for CSI: for every geometry with depth ≤ 10, every coordinate-sorted sequence,
every query `[beg, stop)` with `0 ≤ beg < stop ≤ 2^(minShift+3·depth)` and every placed record
overlapping it, one chunk returned by `csi.Index.Chunks` encloses the record's chunk; also after
`MergeChunks pre` for every `pre` with `EncLaw` -/
theorem csi_chunks_complete (ms d : Nat) (hd : d ≤ 10) (hgeom : ms + 3 * d ≤ 62) (recs : List CRec)
    (h : CSortedInput ms d recs)
    (r : CRec) (hr : r ∈ recs) (hp : r.placed = true)
    (beg stop : Int) (hb : 0 ≤ beg) (hq : beg < stop) (hs : stop ≤ (2 : Int) ^ (ms + 3 * d))
    (hov1 : r.start < stop) (hov2 : beg < r.stop)
    (pre : List Chunk → List Chunk) (hpre : EncLaw pre) :
    coveredBy (Csi.chunks Coord.reg2bins Local.adjacent (csiBuilt ms d recs) r.rid beg stop) r.chunk ∧
    coveredBy (Csi.chunks Coord.reg2bins Local.adjacent (Csi.mergeChunks pre (csiBuilt ms d recs)) r.rid beg stop)
      r.chunk := by
  obtain ⟨_, hms, hdp, inv⟩ := csi_inv ms d recs h
  have hmem : r ∈ (recs.filter (·.placed)).reverse := by
    rw [List.mem_reverse, List.mem_filter]; exact ⟨hr, hp⟩
  have hbin := csi_bin_law ms d hd hgeom r (h.ok r hr) hp beg stop hb hq hs hov1 hov2
  constructor
  · exact Csi.chunks_complete_cover Coord.reg2bins Local.adjacent Local.encLaw_adjacent _ _ _ inv.cover r hmem
      beg stop (by rw [hms, hdp]; exact hbin)
  · exact Csi.chunks_complete_cover Coord.reg2bins Local.adjacent Local.encLaw_adjacent _ _ _
      (Csi.mergeChunks_cover pre hpre _ _ _ inv.cover) r hmem beg stop
      (by show _ ∈ Coord.reg2bins beg stop (csiBuilt ms d recs).minShift (csiBuilt ms d recs).depth
          rw [hms, hdp]; exact hbin)

/-- the bin law for ANY query over `int64`: negative begin, end beyond the range (repair C04-6) -/
theorem csi_bin_law_any_query (ms d : Nat) (hd : d ≤ 10) (hgeom : ms + 3 * d ≤ 62) (r : CRec) (hok : CRecOK ms d r)
    (hp : r.placed = true)
    (beg stop : Int) (hq : beg < stop)
    (hov1 : r.start < stop) (hov2 : beg < r.stop) :
    Coord.reg2bin r.start r.stop ms d ∈ Coord.reg2bins beg stop ms d := by
  obtain ⟨h0, hlt⟩ := hok.pos hp
  have hv := hok.vstop
  simp only [Csi.validPos, Csi.posBound_of_le (show ms + 3 * d ≤ 63 by omega), Bool.and_eq_true,
    decide_eq_true_eq] at hv
  have e : ((2 ^ (ms + 3 * d) : Nat) : Int) = (2 : Int) ^ (ms + 3 * d) := by
    rw [Int.natCast_pow]; rfl
  have := Hts.Props.C16.csi_bin_in_bins_any_query r.start.toNat r.stop.toNat beg stop ms d hd hgeom
    (by omega) (by omega) hq (by omega) (by omega)
  have e1 : ((r.start.toNat : Nat) : Int) = r.start := by omega
  have e2 : ((r.stop.toNat : Nat) : Int) = r.stop := by omega
  rw [e1, e2] at this
  exact this

/-- `csi_chunks_complete` for **every** query `[beg, stop)` with `beg < stop` over all of `int64` -/
theorem csi_chunks_complete_any_query (ms d : Nat) (hd : d ≤ 10) (hgeom : ms + 3 * d ≤ 62) (recs : List CRec)
    (h : CSortedInput ms d recs)
    (r : CRec) (hr : r ∈ recs) (hp : r.placed = true)
    (beg stop : Int) (hq : beg < stop)
    (hov1 : r.start < stop) (hov2 : beg < r.stop)
    (pre : List Chunk → List Chunk) (hpre : EncLaw pre) :
    coveredBy (Csi.chunks Coord.reg2bins Local.adjacent (csiBuilt ms d recs) r.rid beg stop) r.chunk ∧
    coveredBy (Csi.chunks Coord.reg2bins Local.adjacent (Csi.mergeChunks pre (csiBuilt ms d recs)) r.rid beg stop)
      r.chunk := by
  obtain ⟨_, hms, hdp, inv⟩ := csi_inv ms d recs h
  have hmem : r ∈ (recs.filter (·.placed)).reverse := by
    rw [List.mem_reverse, List.mem_filter]; exact ⟨hr, hp⟩
  have hbin := csi_bin_law_any_query ms d hd hgeom r (h.ok r hr) hp beg stop hq hov1 hov2
  constructor
  · exact Csi.chunks_complete_cover Coord.reg2bins Local.adjacent Local.encLaw_adjacent _ _ _ inv.cover r hmem
      beg stop (by rw [hms, hdp]; exact hbin)
  · exact Csi.chunks_complete_cover Coord.reg2bins Local.adjacent Local.encLaw_adjacent _ _ _
      (Csi.mergeChunks_cover pre hpre _ _ _ inv.cover) r hmem beg stop
      (by show _ ∈ Coord.reg2bins beg stop (csiBuilt ms d recs).minShift (csiBuilt ms d recs).depth
          rw [hms, hdp]; exact hbin)

/-- **every call of `csi.Index.Chunks` returns**: for every built index and every `beg`, `stop` (empty,
reversed, negative, beyond the range) the bin enumeration of the query terminates (before repair C04-6
`Chunks(rid, 0, 0)` did not: `Hts.Props.C16.unrepaired_csi_reg2bins_empty_query_diverges_witness`), and an
empty or reversed query lists no bin -/
theorem csi_chunks_query_returns (ms d : Nat) (hd : d ≤ 10) (hgeom : ms + 3 * d ≤ 62) (beg stop : Int) :
    Coord.reg2binsGo beg stop ms d = some (Coord.reg2bins beg stop ms d) ∧
    (stop ≤ beg → Coord.reg2bins beg stop ms d = []) := by
  refine ⟨Hts.Props.C16.csi_reg2bins_returns beg stop ms d hd hgeom, ?_⟩
  intro hle
  have hp : (0 : Int) < (2 : Int) ^ (ms + d * 3) := Int.pow_pos (by decide)
  unfold Coord.reg2bins Coord.csiClampBeg Coord.csiClampEnd
  simp only
  rw [if_pos]
  split <;> split <;> omega

/-- an empty answer (also the answer for an unknown reference) implies that no added placed record
overlaps the query -/
theorem csi_empty_means_no_overlap (ms d : Nat) (hd : d ≤ 10) (hgeom : ms + 3 * d ≤ 62) (recs : List CRec)
    (h : CSortedInput ms d recs)
    (rid beg stop : Int) (hb : 0 ≤ beg) (hq : beg < stop) (hs : stop ≤ (2 : Int) ^ (ms + 3 * d))
    (hans : Csi.chunks Coord.reg2bins Local.adjacent (csiBuilt ms d recs) rid beg stop = []) :
    ¬ ∃ r, r ∈ recs ∧ r.placed = true ∧ r.rid = rid ∧ r.start < stop ∧ beg < r.stop := by
  rintro ⟨r, hr, hp, hrid, hov1, hov2⟩
  obtain ⟨⟨c, hc, _⟩, _⟩ := csi_chunks_complete ms d hd hgeom recs h r hr hp beg stop hb hq hs hov1 hov2 id encLaw_id
  rw [hrid, hans] at hc
  cases hc

end csi

/-! ### tabix: `tabix.Index` (reference names in front of the internal index) -/
section tabix
open Hts.Model.Tabix

/-- `tabix.New()` with any header fields -/
def tbxNew (hdr : Header) : TIndex := { hdr := hdr }

/-- the internal records (with the reference ids assigned by the name table) a tabix input turns into -/
def tbxTrace (hdr : Header) (recs : List TRec) : List Rec := Tabix.trace Coord.binFor (tbxNew hdr) recs

def tbxBuilt (hdr : Header) (recs : List TRec) : TIndex := (Tabix.addAll Coord.binFor (tbxNew hdr) recs).1

/-- `add_never_fails` for tabix; "sorted" means: the internal records are coordinate-sorted, i.e. the
records of one name are contiguous (ids are given in order of first placed appearance) -/
theorem tabix_add_never_fails (hdr : Header) (recs : List TRec) (h : SortedInput (tbxTrace hdr recs)) :
    ∀ x, x ∈ (Tabix.addAll Coord.binFor (tbxNew hdr) recs).2 → x = AddRes.ok := by
  rw [(Tabix.addAll_idx Coord.binFor recs (tbxNew hdr)).2]
  exact (addAll_sorted _ h).1

/-- `chunks_complete` for tabix: the `k`-th record, if placed, is covered by one chunk of the answer
to every overlapping in-range query on its reference NAME; also after `MergeChunks pre` -/
theorem tabix_chunks_complete (hdr : Header) (recs : List TRec) (h : SortedInput (tbxTrace hdr recs))
    (k : Nat) (r : TRec) (hk : recs[k]? = some r) (hp : r.placed = true) (hne : r.start < r.stop)
    (beg stop : Int) (hb : 0 ≤ beg) (hq : beg < stop) (hs29 : stop ≤ 536870912)
    (hov1 : r.start < stop) (hov2 : beg < r.stop)
    (pre : List Chunk → List Chunk) (hpre : EncLaw pre) :
    (∃ cs, Tabix.chunks Coord.overlappingBinsFor Local.adjacent (tbxBuilt hdr recs) r.name beg stop = .ok cs ∧
        coveredBy cs r.chunk) ∧
    (∃ cs, Tabix.chunks Coord.overlappingBinsFor Local.adjacent (Tabix.mergeChunks pre (tbxBuilt hdr recs))
        r.name beg stop = .ok cs ∧ coveredBy cs r.chunk) := by
  obtain ⟨x, hx, hxs, hxe, hxc, hxp, _, hxb⟩ := Tabix.trace_get Coord.binFor recs (tbxNew hdr) k r hk
  have hxmem : x ∈ tbxTrace hdr recs := List.mem_of_getElem? hx
  have hpx : x.placed = true := by rw [hxp]; exact hp
  have hname : Tabix.mapGet (tbxBuilt hdr recs).nameMap r.name = some x.rid.toNat :=
    (Tabix.names_final Coord.binFor recs (tbxNew hdr) [] idxInv_empty (by intro a ha; cases ha)
      h.ok h.sorted (by intro a ha; cases ha)).2 k r x hk hx hp
  have hidx : (tbxBuilt hdr recs).idx = built (tbxTrace hdr recs) :=
    (Tabix.addAll_idx Coord.binFor recs (tbxNew hdr)).1
  have hokx := h.ok x hxmem
  have hrid := hokx.rid hpx
  have hnex : x.start < x.stop := by rw [hxs, hxe]; exact hne
  have hbin := bai_bin_law x hokx hpx hnex (by rw [hxb, hxs, hxe]) beg stop hb hq hs29 (by omega) (by omega)
  obtain ⟨⟨cs, h1, h2⟩, ⟨cs', h1', h2'⟩⟩ := chunks_complete (tbxTrace hdr recs) h x hxmem hpx hnex beg stop
    (Coord.overlappingBinsFor beg stop) hb hq (by omega) hbin pre Local.adjacent hpre Local.encLaw_adjacent
  have hcast : ((x.rid.toNat : Nat) : Int) = x.rid := by omega
  constructor
  · refine ⟨Local.adjacent cs, ?_, by rw [← hxc]; exact h2⟩
    unfold Tabix.chunks
    rw [hname]
    simp only [hidx, hcast, h1]
  · refine ⟨Local.adjacent cs', ?_, by rw [← hxc]; exact h2'⟩
    unfold Tabix.chunks Tabix.mergeChunks
    simp only [hname, hidx, hcast, h1']

/-- `tabix_chunks_complete` without the bound on the query's end -/
theorem tabix_chunks_complete_any_end (hdr : Header) (recs : List TRec) (h : SortedInput (tbxTrace hdr recs))
    (k : Nat) (r : TRec) (hk : recs[k]? = some r) (hp : r.placed = true) (hne : r.start < r.stop)
    (beg stop : Int) (hb : 0 ≤ beg) (hq : beg < stop)
    (hov1 : r.start < stop) (hov2 : beg < r.stop)
    (pre : List Chunk → List Chunk) (hpre : EncLaw pre) :
    (∃ cs, Tabix.chunks Coord.overlappingBinsFor Local.adjacent (tbxBuilt hdr recs) r.name beg stop = .ok cs ∧
        coveredBy cs r.chunk) ∧
    (∃ cs, Tabix.chunks Coord.overlappingBinsFor Local.adjacent (Tabix.mergeChunks pre (tbxBuilt hdr recs))
        r.name beg stop = .ok cs ∧ coveredBy cs r.chunk) := by
  obtain ⟨x, hx, hxs, hxe, hxc, hxp, _, hxb⟩ := Tabix.trace_get Coord.binFor recs (tbxNew hdr) k r hk
  have hxmem : x ∈ tbxTrace hdr recs := List.mem_of_getElem? hx
  have hpx : x.placed = true := by rw [hxp]; exact hp
  have hname : Tabix.mapGet (tbxBuilt hdr recs).nameMap r.name = some x.rid.toNat :=
    (Tabix.names_final Coord.binFor recs (tbxNew hdr) [] idxInv_empty (by intro a ha; cases ha)
      h.ok h.sorted (by intro a ha; cases ha)).2 k r x hk hx hp
  have hidx : (tbxBuilt hdr recs).idx = built (tbxTrace hdr recs) :=
    (Tabix.addAll_idx Coord.binFor recs (tbxNew hdr)).1
  have hokx := h.ok x hxmem
  have hrid := hokx.rid hpx
  have hnex : x.start < x.stop := by rw [hxs, hxe]; exact hne
  have hbin := bai_bin_law_any_end x hokx hpx hnex (by rw [hxb, hxs, hxe]) beg stop hb hq (by omega) (by omega)
  obtain ⟨⟨cs, h1, h2⟩, ⟨cs', h1', h2'⟩⟩ := chunks_complete (tbxTrace hdr recs) h x hxmem hpx hnex beg stop
    (Coord.overlappingBinsFor beg stop) hb hq (by omega) hbin pre Local.adjacent hpre Local.encLaw_adjacent
  have hcast : ((x.rid.toNat : Nat) : Int) = x.rid := by omega
  constructor
  · refine ⟨Local.adjacent cs, ?_, by rw [← hxc]; exact h2⟩
    unfold Tabix.chunks
    rw [hname]
    simp only [hidx, hcast, h1]
  · refine ⟨Local.adjacent cs', ?_, by rw [← hxc]; exact h2'⟩
    unfold Tabix.chunks Tabix.mergeChunks
    simp only [hname, hidx, hcast, h1']

/-- an error or an empty answer for a name implies that no placed record of that name overlaps -/
theorem tabix_error_or_empty_means_no_overlap (hdr : Header) (recs : List TRec)
    (h : SortedInput (tbxTrace hdr recs)) (name : Name) (beg stop : Int) (hb : 0 ≤ beg) (hq : beg < stop)
    (hs29 : stop ≤ 536870912)
    (hans : (∃ e, Tabix.chunks Coord.overlappingBinsFor Local.adjacent (tbxBuilt hdr recs) name beg stop = .error e) ∨
            Tabix.chunks Coord.overlappingBinsFor Local.adjacent (tbxBuilt hdr recs) name beg stop = .ok []) :
    ¬ ∃ (k : Nat) (r : TRec), recs[k]? = some r ∧ r.placed = true ∧ r.name = name ∧ r.start < r.stop ∧
      r.start < stop ∧ beg < r.stop := by
  rintro ⟨k, r, hk, hp, hn, hne, hov1, hov2⟩
  obtain ⟨⟨cs, h1, c, hc, _⟩, _⟩ := tabix_chunks_complete hdr recs h k r hk hp hne beg stop hb hq hs29 hov1 hov2 id encLaw_id
  rw [hn] at h1
  rcases hans with ⟨e, he⟩ | he
  · rw [he] at h1; cases h1
  · rw [he] at h1
    cases h1
    cases hc

end tabix

/-! ### non-vacuity: a sorted BAI input with a tile-straddling record, a record spanning three tiles,
a skipped reference id, a placed-unmapped and an unplaced record (tests) -/

def exBai : List Bai.BaiRec :=
  [ ⟨true, 0, 100, 200, false, false, ⟨100, 150⟩⟩,
    ⟨true, 0, 16000, 16500, false, false, ⟨150, 200⟩⟩,
    ⟨false, -1, -1, 0, true, true, ⟨200, 250⟩⟩,
    ⟨true, 2, 5, 40000, false, true, ⟨250, 300⟩⟩,
    ⟨true, 2, 20000, 20001, true, true, ⟨300, 65536⟩⟩,
    ⟨true, 2, 32768, 32768, false, false, ⟨65536, 65600⟩⟩ ]   -- CIGAR `5I`: End() = Pos, at a tile edge

example : SortedInput (exBai.map baiRec) := by decide
example : (addAll {} (exBai.map baiRec)).2 = [.ok, .ok, .ok, .ok, .ok, .ok] := by decide
/-- the theorem applied: the tile-straddling record is found by a query inside its second tile -/
example : ∃ cs, Bai.chunks Coord.overlappingBinsFor Local.adjacent (baiBuilt exBai) 0 16400 16450 = .ok cs ∧
    coveredBy cs ⟨150, 200⟩ :=
  (bai_chunks_complete exBai (by decide) ⟨true, 0, 16000, 16500, false, false, ⟨150, 200⟩⟩ (by decide) (by decide)
    (by decide) 16400 16450 (by decide) (by decide) (by decide) (by decide) (by decide) id Local.adjacent encLaw_id
    adjacent_encloses).1
example : EncLaw (Local.compressor (-1)) := compressor_encloses (-1)
/-- `bai_chunks_complete_any_end` applied: the query "from 16400 to the largest int" finds the record -/
example : ∃ cs, Bai.chunks Coord.overlappingBinsFor Local.adjacent (baiBuilt exBai) 0 16400 9223372036854775807 = .ok cs ∧
    coveredBy cs ⟨150, 200⟩ :=
  (bai_chunks_complete_any_end exBai (by decide) ⟨true, 0, 16000, 16500, false, false, ⟨150, 200⟩⟩ (by decide) (by decide)
    (by decide) 16400 9223372036854775807 (by decide) (by decide) (by decide) (by decide) id Local.adjacent encLaw_id
    adjacent_encloses).1

/-- a tabix input: two names, an unplaced line naming a third one in between -/
def exTbx : List Tabix.TRec :=
  [ ⟨[99, 104, 114, 49], 100, 200, ⟨0, 150⟩, true, true⟩,
    ⟨[99, 104, 114, 49], 16000, 16500, ⟨150, 200⟩, true, true⟩,
    ⟨[42], -1, 0, ⟨200, 250⟩, false, false⟩,
    ⟨[99, 104, 114, 50], 5, 40000, ⟨250, 300⟩, true, false⟩ ]
example : SortedInput (tbxTrace {} exTbx) := by decide
example : (tbxBuilt {} exTbx).names = [[99, 104, 114, 49], [99, 104, 114, 50]] := by decide
example : ∃ cs, Tabix.chunks Coord.overlappingBinsFor Local.adjacent (tbxBuilt {} exTbx) [99, 104, 114, 50] 39000 39500
    = .ok cs ∧ coveredBy cs ⟨250, 300⟩ :=
  (tabix_chunks_complete {} exTbx (by decide) 3 _ rfl (by decide) (by decide) 39000 39500 (by decide) (by decide) (by decide)
    (by decide) (by decide) id encLaw_id).1

/-- a small CSI geometry (minShift 4, depth 2: positions below 1024) with a record over two finest bins -/
def exCsi : List Csi.CRec :=
  [ ⟨0, 0, 17, ⟨2309, 524288⟩, true, true⟩, ⟨1, -1, 0, ⟨524288, 524300⟩, false, false⟩,
    ⟨0, 128, 290, ⟨524300, 600000⟩, true, false⟩, ⟨3, 1021, 1022, ⟨600000, 600001⟩, true, true⟩ ]
example : Csi.CSortedInput 4 2 exCsi := by decide
example : coveredBy (Csi.chunks Coord.reg2bins Local.adjacent (csiBuilt 4 2 exCsi) 0 2 3) ⟨2309, 524288⟩ :=
  (csi_chunks_complete 4 2 (by decide) (by decide) exCsi (by decide) ⟨0, 0, 17, ⟨2309, 524288⟩, true, true⟩ (by decide)
    (by decide) 2 3 (by decide) (by decide) (by decide) (by decide) (by decide) id encLaw_id).1

/-- `csi_chunks_complete_any_query` applied: a query from -7 to the largest int64 finds the record -/
example : coveredBy (Csi.chunks Coord.reg2bins Local.adjacent (csiBuilt 4 2 exCsi) 0 (-7) 9223372036854775807) ⟨2309, 524288⟩ :=
  (csi_chunks_complete_any_query 4 2 (by decide) (by decide) exCsi (by decide) ⟨0, 0, 17, ⟨2309, 524288⟩, true, true⟩ (by decide)
    (by decide) (-7) 9223372036854775807 (by decide) (by decide) (by decide) id encLaw_id).1
example : Coord.reg2bins 0 0 4 2 = [] ∧ Coord.reg2binsGo 0 0 4 2 = some [] := (csi_chunks_query_returns 4 2 (by decide) (by decide) 0 0).symm.imp (· (by decide)) (by intro h; rw [h]; congr 1)

end Hts.Props.C04
