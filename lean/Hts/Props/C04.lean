/-
C04 — property theorems (stub: no theorem stated yet, so no obligation is counted).
-/
namespace Hts.Props.C04
end Hts.Props.C04
