/-
C04 — Index queries are complete: every added record that overlaps a query is covered by a returned
chunk.  PROPERTY THEOREMS ONLY (helper lemmas live in Hts.Lemmas.Index*).

Everything is stated for ALL coordinate-sorted record sequences (`SortedInput`: any length, any number
of references incl. skipped ids, unplaced records anywhere), ALL query intervals in the indexable
range and ALL merge strategies that satisfy `EncLaw` (proved below for Adjacent, Squash and every
CompressorStrategy(n)).  The models mirror the code with the repairs fixes/C04-1..3 applied.
"Covered" is the strong reading: ONE returned chunk encloses the record's whole chunk.
-/
import Hts.Lemmas.IndexMerge
import Hts.Props.C16
namespace Hts.Props.C04
open Hts.Model Hts.Model.Index

/-! ### Add never fails on sorted input; what the index then knows -/

/-- `add_never_fails`: on every coordinate-sorted in-range sequence every `Add` returns nil
(no error, no panic) -/
theorem add_never_fails (recs : List Rec) (h : SortedInput recs) :
    ∀ x, x ∈ (addAll {} recs).2 → x = AddRes.ok :=
  (addAll_sorted recs h).1

/-- `bins_inv`: after the whole sequence the chunk of every placed record is stored under the
record's bin in the record's reference, and bin numbers are pairwise distinct -/
theorem bins_inv (recs : List Rec) (h : SortedInput recs) (r : Rec) (hr : r ∈ recs) (hp : r.placed = true) :
    ∃ ref, (addAll {} recs).1.refs[r.rid.toNat]? = some ref ∧ (ref.bins.map (·.bin)).Nodup ∧
      ∃ bn, bn ∈ ref.bins ∧ bn.bin = r.bin ∧ r.chunk ∈ bn.chunks := by
  have inv := (addAll_sorted recs h).2
  have hmem : r ∈ (recs.filter (·.placed)).reverse := by
    rw [List.mem_reverse, List.mem_filter]; exact ⟨hr, hp⟩
  obtain ⟨h0, hlt⟩ := inv.ridLt r hmem
  have hlt' : r.rid.toNat < (addAll {} recs).1.refs.length := by omega
  refine ⟨_, (List.getElem?_eq_some_iff).2 ⟨hlt', rfl⟩, ?_⟩
  have ri := inv.refInv _ _ ((List.getElem?_eq_some_iff).2 ⟨hlt', rfl⟩)
  refine ⟨ri.nodup, ri.bins r ?_⟩
  unfold onRef; rw [List.mem_filter]; exact ⟨hmem, by simp; omega⟩

/-- `tiles_inv`: the tile array of the record's reference reaches the last tile the record overlaps,
and no entry up to that tile lies behind the record's chunk begin -/
theorem tiles_inv (recs : List Rec) (h : SortedInput recs) (r : Rec) (hr : r ∈ recs) (hp : r.placed = true) :
    ∃ ref, (addAll {} recs).1.refs[r.rid.toNat]? = some ref ∧
      lastTile r.start r.stop < ref.intervals.length ∧
      ∀ k v, k ≤ lastTile r.start r.stop → ref.intervals[k]? = some v → v ≤ r.chunk.b := by
  have inv := (addAll_sorted recs h).2
  have hmem : r ∈ (recs.filter (·.placed)).reverse := by
    rw [List.mem_reverse, List.mem_filter]; exact ⟨hr, hp⟩
  obtain ⟨h0, hlt⟩ := inv.ridLt r hmem
  have hlt' : r.rid.toNat < (addAll {} recs).1.refs.length := by omega
  refine ⟨_, (List.getElem?_eq_some_iff).2 ⟨hlt', rfl⟩, ?_⟩
  have ri := inv.refInv _ _ ((List.getElem?_eq_some_iff).2 ⟨hlt', rfl⟩)
  have hm : r ∈ onRef (recs.filter (·.placed)).reverse r.rid.toNat := by
    unfold onRef; rw [List.mem_filter]; exact ⟨hmem, by simp; omega⟩
  exact ⟨ri.tilesLen r hm, ri.tilesLe r hm⟩

/-- `sorted_tiles_le`: sorting the tile array (as `sort()` does) never makes the entry at a position
larger than a bound that held for the whole prefix up to that position -/
theorem sorted_tiles_le (l : List Int) (k : Nat) (B : Int) (hk : k < l.length)
    (hpre : ∀ j v, j ≤ k → l[j]? = some v → v ≤ B) :
    ∀ v, (l.mergeSort leOff)[k]? = some v → v ≤ B :=
  Index.sorted_tiles_le l k B hk hpre

/-! ### the merge strategies lose no chunk -/

theorem adjacent_encloses : EncLaw Local.adjacent := Local.encLaw_adjacent
theorem squash_encloses : EncLaw Local.squash := Local.encLaw_squash
theorem compressor_encloses (near : Int) : EncLaw (Local.compressor near) := Local.encLaw_compressor near
theorem identity_encloses : EncLaw id := encLaw_id

/-! ### completeness of `internal.Index.Chunks` -/

/-- the index after the sequence, optionally after `MergeChunks pre` -/
def built (recs : List Rec) : Index := (addAll {} recs).1

/-- `chunks_complete` for `internal.Index`: for every query `[beg, stop)` with `0 ≤ beg < stop` and
every placed record overlapping it whose bin is among the candidate bins, `Chunks` succeeds and, after
any strategy `s` with `EncLaw`, one returned chunk encloses the record's chunk; the same after
`MergeChunks pre` for any `pre` with `EncLaw` -/
theorem chunks_complete (recs : List Rec) (h : SortedInput recs) (r : Rec) (hr : r ∈ recs)
    (hp : r.placed = true) (beg stop : Int) (bins : List Nat) (hb : 0 ≤ beg) (hq : beg < stop)
    (hov : beg < r.stop) (hbin : r.bin ∈ bins)
    (pre s : List Chunk → List Chunk) (hpre : EncLaw pre) (hs : EncLaw s) :
    (∃ cs, chunks (built recs) r.rid beg stop bins = .ok cs ∧ coveredBy (s cs) r.chunk) ∧
    (∃ cs, chunks (mergeChunks pre (built recs)) r.rid beg stop bins = .ok cs ∧ coveredBy (s cs) r.chunk) := by
  have inv := (addAll_sorted recs h).2
  have hmem : r ∈ (recs.filter (·.placed)).reverse := by
    rw [List.mem_reverse, List.mem_filter]; exact ⟨hr, hp⟩
  have hok := h.ok r hr
  constructor
  · obtain ⟨cs, h1, h2, c, hc, hce⟩ := chunks_complete_cover _ _ inv.cover r hmem hok.ce (hok.pos hp) beg stop bins hb hq hov hbin
    exact ⟨cs, h1, coveredBy_trans (hs cs h2 c hc) hce⟩
  · obtain ⟨cs, h1, h2, c, hc, hce⟩ := chunks_complete_cover _ _ (mergeChunks_cover pre hpre _ _ inv.cover) r hmem
      hok.ce (hok.pos hp) beg stop bins hb hq hov hbin
    exact ⟨cs, h1, coveredBy_trans (hs cs h2 c hc) hce⟩

/-! ### BAI: `bam.Index` -/

/-- the internal record `bam.Index.Add` derives from a `sam.Record` -/
abbrev baiRec (r : Bai.BaiRec) : Rec := Bai.toRec Coord.binFor r

/-- the BAI index after adding the records -/
def baiBuilt (recs : List Bai.BaiRec) : Index := built (recs.map baiRec)

/-- the bin law of C16 in the form needed here: the bin `Record.Bin` files a placed record under is
listed by `OverlappingBinsFor` for every overlapping query in range -/
theorem bai_bin_law (r : Rec) (hok : RecOK r) (hp : r.placed = true) (hbin : r.bin = Coord.binFor r.start r.stop)
    (beg stop : Int) (hb : 0 ≤ beg) (hq : beg < stop) (hs : stop ≤ 536870912)
    (hov1 : r.start < stop) (hov2 : beg < r.stop) : r.bin ∈ Coord.overlappingBinsFor beg stop := by
  obtain ⟨h0, hlt⟩ := hok.pos hp
  have hv := hok.vstop
  simp only [validPos, Bool.and_eq_true, decide_eq_true_eq] at hv
  have := Hts.Props.C16.bai_bin_in_bins r.start.toNat r.stop.toNat beg.toNat stop.toNat
    (by omega) (by omega) (by omega) (by omega) (by omega) (by omega)
  rw [hbin]
  have e1 : ((r.start.toNat : Nat) : Int) = r.start := by omega
  have e2 : ((r.stop.toNat : Nat) : Int) = r.stop := by omega
  have e3 : ((beg.toNat : Nat) : Int) = beg := by omega
  have e4 : ((stop.toNat : Nat) : Int) = stop := by omega
  rw [e1, e2, e3, e4] at this
  exact this

/-- `chunks_complete` for BAI: for every coordinate-sorted sequence of `sam.Record`s, every query
`[beg, stop)` with `0 ≤ beg < stop ≤ 2^29` on any reference and every placed record overlapping it,
`bam.Index.Chunks` returns no error and one returned chunk encloses the record's chunk — with the
default strategy or any `MergeStrategy` satisfying `EncLaw`, and also after `MergeChunks pre` -/
theorem bai_chunks_complete (recs : List Bai.BaiRec) (h : SortedInput (recs.map baiRec))
    (r : Bai.BaiRec) (hr : r ∈ recs) (hp : (baiRec r).placed = true)
    (beg stop : Int) (hb : 0 ≤ beg) (hq : beg < stop) (hs29 : stop ≤ 536870912)
    (hov1 : r.pos < stop) (hov2 : beg < r.stop)
    (pre s : List Chunk → List Chunk) (hpre : EncLaw pre) (hs : EncLaw s) :
    (∃ cs, Bai.chunks Coord.overlappingBinsFor s (baiBuilt recs) (baiRec r).rid beg stop = .ok cs ∧
        coveredBy cs r.chunk) ∧
    (∃ cs, Bai.chunks Coord.overlappingBinsFor s (mergeChunks pre (baiBuilt recs)) (baiRec r).rid beg stop = .ok cs ∧
        coveredBy cs r.chunk) := by
  have hmem : baiRec r ∈ recs.map baiRec := List.mem_map.2 ⟨r, hr, rfl⟩
  have hbin := bai_bin_law (baiRec r) (h.ok _ hmem) hp rfl beg stop hb hq hs29 hov1 hov2
  obtain ⟨⟨cs, h1, h2⟩, ⟨cs', h1', h2'⟩⟩ := chunks_complete (recs.map baiRec) h (baiRec r) hmem hp beg stop
    (Coord.overlappingBinsFor beg stop) hb hq hov2 hbin pre s hpre hs
  constructor
  · refine ⟨s cs, ?_, h2⟩
    unfold Bai.chunks baiBuilt
    rw [h1]
  · refine ⟨s cs', ?_, h2'⟩
    unfold Bai.chunks baiBuilt
    rw [h1']

/-- the last clause of the property for BAI: an error or an empty answer implies that no added placed
record overlaps the query -/
theorem bai_error_or_empty_means_no_overlap (recs : List Bai.BaiRec) (h : SortedInput (recs.map baiRec))
    (rid beg stop : Int) (hb : 0 ≤ beg) (hq : beg < stop) (hs29 : stop ≤ 536870912)
    (s : List Chunk → List Chunk) (hs : EncLaw s)
    (hans : (∃ e, Bai.chunks Coord.overlappingBinsFor s (baiBuilt recs) rid beg stop = .error e) ∨
            Bai.chunks Coord.overlappingBinsFor s (baiBuilt recs) rid beg stop = .ok []) :
    ¬ ∃ r, r ∈ recs ∧ (baiRec r).placed = true ∧ (baiRec r).rid = rid ∧ r.pos < stop ∧ beg < r.stop := by
  rintro ⟨r, hr, hp, hrid, hov1, hov2⟩
  obtain ⟨⟨cs, h1, c, hc, _⟩, _⟩ := bai_chunks_complete recs h r hr hp beg stop hb hq hs29 hov1 hov2 id s encLaw_id hs
  rw [hrid] at h1
  rcases hans with ⟨e, he⟩ | he
  · rw [he] at h1; cases h1
  · rw [he] at h1
    cases h1
    cases hc

/-! ### non-vacuity: a sorted BAI input with a tile-straddling record, a record spanning three tiles,
a skipped reference id, a placed-unmapped and an unplaced record (tests) -/

def exBai : List Bai.BaiRec :=
  [ ⟨true, 0, 100, 200, false, false, ⟨100, 150⟩⟩,
    ⟨true, 0, 16000, 16500, false, false, ⟨150, 200⟩⟩,
    ⟨false, -1, -1, 0, true, true, ⟨200, 250⟩⟩,
    ⟨true, 2, 5, 40000, false, true, ⟨250, 300⟩⟩,
    ⟨true, 2, 20000, 20001, true, true, ⟨300, 65536⟩⟩ ]

example : SortedInput (exBai.map baiRec) := by decide
example : (addAll {} (exBai.map baiRec)).2 = [.ok, .ok, .ok, .ok, .ok] := by decide
/-- the theorem applied: the tile-straddling record is found by a query inside its second tile -/
example : ∃ cs, Bai.chunks Coord.overlappingBinsFor Local.adjacent (baiBuilt exBai) 0 16400 16450 = .ok cs ∧
    coveredBy cs ⟨150, 200⟩ :=
  (bai_chunks_complete exBai (by decide) ⟨true, 0, 16000, 16500, false, false, ⟨150, 200⟩⟩ (by decide) (by decide)
    16400 16450 (by decide) (by decide) (by decide) (by decide) (by decide) id Local.adjacent encLaw_id
    adjacent_encloses).1
example : EncLaw (Local.compressor (-1)) := compressor_encloses (-1)

end Hts.Props.C04
