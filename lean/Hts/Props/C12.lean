/-
C12 — property theorems (stub: no theorem stated yet, so no obligation is counted).
-/
namespace Hts.Props.C12
end Hts.Props.C12
