/-
C12 — the BGZF writer emits whole blocks in write order; Flush+Wait (and Close) make written data durable.
PROPERTY THEOREMS ONLY.

Every statement is about the labelled transition system `Hts.Model.WriterLTS` of the (repaired, fixes/C09-1)
writer protocol and holds for EVERY writer concurrency `cfg.wc` (the code's `wc++; if wc < 2 { wc = 2 }`
normalisation included, so wc = 0 and wc = 1 give the same two compressors), EVERY script of API calls, EVERY
interleaving of the API goroutine, the emitter and the compressor goroutines (= every completion order) and
EVERY fault oracle of the underlying writer.  `out` is the list of blocks whose underlying `Write` returned
success; a block is its submission number.  Traces are newest-event-first.
-/
import Hts.Lemmas.WriterLTSAcc
import Hts.Lemmas.WriterLTSWitness
import Hts.Lemmas.WriterLTSOwn
import Hts.Lemmas.WriterLTSComp
import Hts.Lemmas.WriterCompose
namespace Hts.Props.C12
open Hts.Model.WriterLTS

variable {cfg : Cfg} {s : State}

/-- Whenever the underlying writer has returned from a write (indeed in every reachable state), the blocks
    delivered so far are complete blocks forming a prefix, in submission order, of the blocks submitted so far. -/
theorem out_is_prefix (hr : cfg.repaired = true) (h : Reachable cfg s) :
    s.out = (List.range s.submitted).take s.out.length := by
  have hi := reachable_inv hr h
  have := List.take_range (i := s.out.length) (n := s.submitted)
  rw [this, Nat.min_eq_left hi.le]
  exact hi.pref

/-- Once `Flush` and then `Wait` have returned nil, every block submitted before the `Flush` returned
    (`m` of them — the `Flush` has submitted the partial block) has been delivered, in order. -/
theorem flush_wait_durable (hr : cfg.repaired = true) {tr post pre : List Ev} {b : Bool} {m m' : Nat}
    (h : Run cfg tr s)
    (htr : tr.filter isApiEv = post ++ .ret .wait .ok m' :: .call .wait :: .ret (.flush b) .ok m :: pre) :
    s.out.take m = List.range m := by
  have := wait_durable hr h (post := post) (mid := [.call .wait]) (pre := pre) (op := .flush b) (r := .ok)
    (m := m) (m' := m') (by simpa using htr)
  exact take_of_prefix (run_inv hr h).1.pref (by omega)

/-- `Wait` returning nil makes everything submitted before it durable, whatever call preceded it. -/
theorem wait_durable_all (hr : cfg.repaired = true) {tr : List Ev} {m : Nat} (h : Run cfg tr s)
    (hmem : .ret .wait .ok m ∈ tr) : s.out.take m = List.range m :=
  take_of_prefix (run_inv hr h).1.pref ((run_inv hr h).2.waitOK m hmem)

/-- Once `Close` has returned nil, everything ever submitted has been delivered, followed by the EOF marker,
    and nothing is submitted afterwards. -/
theorem close_durable (hr : cfg.repaired = true) {tr : List Ev} {m : Nat} (h : Run cfg tr s)
    (hmem : .ret .close .ok m ∈ tr) :
    s.out = List.range m ∧ s.eof = true ∧ s.submitted = m := by
  obtain ⟨hi, hR⟩ := run_inv hr h
  obtain ⟨h1, h2⟩ := hR.closeOK m hmem
  obtain ⟨-, -, h3⟩ := hR.closeRet .ok m hmem
  have hle := hi.le
  have : s.out.length = m := by omega
  exact ⟨this ▸ hi.pref, h2, h3.symm⟩

/-- Without faults, when everything has come to rest the delivered output is the sequential writer's:
    independent of the schedule, of the completion order of the compressors and of `wc`. -/
theorem lts_output_deterministic (hr : cfg.repaired = true) (hnf : ∀ i, cfg.fault i = false)
    (hcf : ∀ b, cfg.cfault b = false) (h : Reachable cfg s) (hidle : AllIdle s) :
    (s.out, s.eof) = sequentialWriter cfg.script := by
  obtain ⟨h1, h2⟩ := output_of_idle hr hnf hcf h hidle
  simp [sequentialWriter, h1, h2]

/-- `bam.NewWriter` = `Write(header)` (completing `k` blocks), `Flush`, `Wait`: if that `Wait` — the third call to
    return — returns nil, the header's `k+1` blocks are exactly what has been submitted and all of them have been
    delivered to the underlying writer, in order, whatever follows. -/
theorem bam_header_durable (hr : cfg.repaired = true) {k : Nat} {rest : List Op}
    (hs : cfg.script = .write k :: .flush true :: .wait :: rest) {tr post mid : List Ev} {m : Nat}
    (h : Run cfg tr s) (htr : tr = post ++ .ret .wait .ok m :: mid) (hmid : nrets mid = 2) :
    m = k + 1 ∧ s.out.take (k + 1) = List.range (k + 1) := by
  have hm := third_ret_count hr hs h htr hmid
  refine ⟨hm, ?_⟩
  rw [← hm]
  exact wait_durable_all hr h (by rw [htr]; simp)

/-- The same with compression failures (`cfg.cfault b`: `writeBlock` of block `b` sets `c.err`), still without
    I/O faults: at rest the delivered blocks are exactly the blocks before the first one whose compression fails
    (all of them if none fails), and the EOF marker is written iff the script closes the writer and none fails —
    independent of the schedule, of the completion order and of `wc`. -/
theorem lts_output_with_compression_failures (hr : cfg.repaired = true) (hnf : ∀ i, cfg.fault i = false)
    (h : Reachable cfg s) (hidle : AllIdle s) :
    s.out = List.range (firstFail cfg.cfault (seqBlocks cfg.script false)) ∧
    s.eof = (hasClose cfg.script &&
      decide (firstFail cfg.cfault (seqBlocks cfg.script false) = seqBlocks cfg.script false)) :=
  output_of_idle_cf hr hnf h hidle

/-- Every compressor — its 64 KiB block buffer and its gzip output buffer — has at most one holder among the API
    goroutine (active compressor), the `waiting` channel, the `queue` channel (whose `writeBlock` goroutine fills
    it) and the emitter, in every reachable state of either protocol variant: a block being compressed or written
    is never overwritten by a later `Write`. -/
theorem compressor_exclusive (h : Reachable cfg s) (c : Nat) : holders c s ≤ 1 :=
  reachable_holders h c

/-! ### durability in data and in bytes (composition with the sequential byte-level writer model)

`Hts.Model.WriterCompose.cfgOf wc c h wops` is the LTS configuration of the CONCRETE script `wops` (payloads):
abstract script `absScript wops` (each `Write` completes as many blocks as in `Hts.Model.BgzfWriter`, each `Flush`
finds the active block non-empty iff it is so there), `wc` compressors requested, no I/O faults, compression of
block `i` failing iff `Member.writeBlock` refuses `(after wops).emitted[i]`, repaired protocol.  Block `i`'s
payload is `(after wops).emitted[i]`, its bytes `blockBytes c h … i`. -/

open Hts.Model Hts.Model.Member Hts.Model.WriterCompose in
/-- If the `(j+1)`-th call to return is a `Wait` returning nil (no `Close` among the first `j+1` calls) then, from
    then on, the first `m` delivered blocks are exactly the blocks the sequential writer has queued after those
    calls — as payloads and as bytes (`render` of that prefix: the file starts with exactly the sequential
    writer's output for the calls made so far) — for every `wc`, every interleaving. -/
theorem wait_durable_bytes (wc : Nat) (c : CodecFns) (h : Header) (wops : List (BgzfWriter.Op Byte)) (j : Nat)
    (hnc : BgzfWriter.hasClose (wops.take (j + 1)) = false) {tr post mid : List Ev} {m : Nat}
    (hrun : Run (cfgOf wc c h wops) tr s) (htr : tr = post ++ .ret .wait .ok m :: mid) (hmid : nrets mid = j) :
    m = (BgzfWriter.after (wops.take (j + 1))).emitted.length ∧ s.out.take m = List.range m ∧
    (s.out.take m).map (fun i => (BgzfWriter.after wops).emitted.getD i []) = (BgzfWriter.after (wops.take (j + 1))).emitted ∧
    ((s.out.take m).map (blockBytes c h (BgzfWriter.after wops).emitted)).flatten =
      (render c h (BgzfWriter.after (wops.take (j + 1))).emitted).1 :=
  WriterCompose.wait_durable_bytes wc c h wops j hnc hrun htr hmid

open Hts.Model Hts.Model.Member Hts.Model.WriterCompose in
/-- `Flush` then `Wait` returning nil: the payloads of the delivered blocks recorded by that `Wait` are, concatenated,
    exactly the data accepted by the calls before the `Flush` — everything written before the Flush is in the file,
    whatever the block boundaries, `wc` and schedule. -/
theorem flush_wait_durable_data (wc : Nat) (c : CodecFns) (h : Header) (pre rest : List (BgzfWriter.Op Byte))
    (hnc : BgzfWriter.hasClose pre = false) {tr post mid : List Ev} {m : Nat}
    (hrun : Run (cfgOf wc c h (pre ++ .flush :: .wait :: rest)) tr s)
    (htr : tr = post ++ .ret .wait .ok m :: mid) (hmid : nrets mid = pre.length + 1) :
    ((s.out.take m).map (fun i => (BgzfWriter.after (pre ++ .flush :: .wait :: rest)).emitted.getD i [])).flatten =
      BgzfWriter.accepted pre := by
  have htk : (pre ++ .flush :: .wait :: rest).take (pre.length + 1 + 1) = pre ++ [.flush, .wait] := by
    have : pre ++ BgzfWriter.Op.flush :: .wait :: rest = (pre ++ [.flush, .wait]) ++ rest := by simp
    rw [this, List.take_left' (by simp)]
  have hnc' : BgzfWriter.hasClose ((pre ++ .flush :: .wait :: rest).take (pre.length + 1 + 1)) = false := by
    rw [htk]
    have : ∀ (a : List (BgzfWriter.Op Byte)), BgzfWriter.hasClose a = false →
        BgzfWriter.hasClose (a ++ [.flush, .wait]) = false := by
      intro a; induction a with
      | nil => intro _; rfl
      | cons o a ih => intro hc; cases o <;> simp_all [BgzfWriter.hasClose]
    exact this pre hnc
  have := WriterCompose.wait_durable_data wc c h _ (pre.length + 1) hnc' hrun htr hmid
  rw [htk, after_flush_wait_active pre hnc, List.append_nil, accepted_append_noclose pre _ hnc] at this
  simpa [BgzfWriter.accepted] using this

open Hts.Model Hts.Model.Member Hts.Model.WriterCompose in
/-- `bam.NewWriter` = `Write(header)`, `Flush`, `Wait`, for a header of ANY length (also an exact multiple of the
    block size, where the `Flush` finds nothing to do): if that `Wait` — the third call to return — returns nil,
    the delivered blocks it records carry exactly the header bytes. -/
theorem newwriter_header_durable_data (wc : Nat) (c : CodecFns) (h : Header) (hdr : List Byte)
    (rest : List (BgzfWriter.Op Byte)) {tr post mid : List Ev} {m : Nat}
    (hrun : Run (cfgOf wc c h (.write hdr :: .flush :: .wait :: rest)) tr s)
    (htr : tr = post ++ .ret .wait .ok m :: mid) (hmid : nrets mid = 2) :
    ((s.out.take m).map (fun i => (BgzfWriter.after (.write hdr :: .flush :: .wait :: rest)).emitted.getD i [])).flatten = hdr := by
  have := flush_wait_durable_data wc c h [.write hdr] rest rfl (tr := tr) (post := post) (mid := mid) (m := m)
    (by simpa using hrun) htr (by simpa using hmid)
  simpa [BgzfWriter.accepted] using this

/-! ### non-vacuity: the hypotheses are satisfiable and the conclusions are not trivial -/

/-- a concrete run with four compressors in which two blocks are in flight at once -/
def exCfg : Cfg := { wc := 3, script := [.write 2, .flush true, .wait, .close], fault := fun _ => false, repaired := true }

def exSchedule : List Label :=
  [.api, .api, .api, .api, .api, .api, .api, .api,        -- Write: blocks 0 and 1 queued, returns
   .finQ 1,                                               -- block 1 finishes compressing FIRST
   .api, .api, .api, .api,                                -- Flush: block 2 queued, returns
   .api, .api,                                            -- Wait: called, blocks
   .em, .finE, .em, .em, .em,                             -- emitter: block 0
   .em, .em, .em, .em,                                    -- emitter: block 1
   .em, .finE, .em, .em, .em,                             -- emitter: block 2
   .api]                                                  -- Wait returns nil

example : ∃ tr s, runTrace exCfg [] (init exCfg) exSchedule = some (tr, s) ∧
    tr.filter isApiEv = [.ret .wait .ok 3, .call .wait, .ret (.flush true) .ok 3, .call (.flush true),
      .ret (.write 2) .ok 2, .call (.write 2)] ∧ s.out = [0, 1, 2] := by
  refine ⟨_, _, rfl, ?_, ?_⟩ <;> decide

example : (∀ i, exCfg.fault i = false) ∧ exCfg.repaired = true := ⟨fun _ => rfl, rfl⟩

example : sequentialWriter exCfg.script = ([0, 1, 2, 3], true) := by decide

end Hts.Props.C12
