/-
C14 — property theorems (stub: no theorem stated yet, so no obligation is counted).
-/
namespace Hts.Props.C14
end Hts.Props.C14
