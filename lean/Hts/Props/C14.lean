/-
C14 — the caches of bgzf/cache honour the Cache contract, sequentially and concurrently.
PROPERTY THEOREMS ONLY (models: Hts.Model.Cache; specifications: Hts.Spec.CacheContract; lemmas: Hts.Lemmas.Cache*).

Every statement quantifies over ALL capacities ≥ 1, ALL block heaps and ALL operation histories (no bound on
length, number of blocks or number of threads).  `LCache` is LRU (`Kind.lru`) and FIFO (`Kind.fifo`),
`RCache` is Random (its victims are the ones the implementation chose, validated), a StatsRecorder is
`recorderOps`.  The model mirrors the code with `drop` repaired (fixes/C14-1-…: on the unrepaired tree
`Drop`/`Resize` never return) and with `FIFO.Get` as coded (a used block stays indexed): that defect is a
recorded finding, visible here as `fifo_get_returns_requested_base_full` / `_partial` / `_witness`.
-/
import Hts.Lemmas.CacheHist
import Hts.Lemmas.CachePolicy
import Hts.Lemmas.CacheClient
import Hts.Lemmas.CacheLinInst
import Hts.Lemmas.CachePost
namespace Hts.Props.C14
open Hts.Model.Cache Hts.Spec.CacheContract Hts.Spec.Lin

/-! ### never more blocks than the capacity (all histories, all capacities ≥ 1) -/

/-- LRU and FIFO: after every history of Put/Get/Peek/Drop/Resize(≥1)/Free from `New(n)`, `n ≥ 1`, with
arbitrary changes to the blocks between calls: `Len ≤ Cap`, `Cap ≥ 1`, one table entry per key -/
theorem len_le_cap_lru_fifo (kind : Kind) (n : Int) (hn : 1 ≤ n) (hist : List (Heap × LOp))
    (ok : ∀ x ∈ hist, x.2.ok) :
    ((LCache.new n).run kind hist).len ≤ ((LCache.new n).run kind hist).cap ∧
    1 ≤ ((LCache.new n).run kind hist).cap ∧ KeysNodup ((LCache.new n).run kind hist).items := by
  have w := LCache.run_wf (kind := kind) (LCache.wf_new hn) hist ok
  exact ⟨w.len_le, w.cap_pos, w.nodup⟩

/-- Random: the same, for every sequence of victim choices the code can make -/
theorem len_le_cap_random (n : Int) (hn : 1 ≤ n) (hist : List (Heap × RCache.ROp))
    (ok : ∀ x ∈ hist, x.2.ok) (c : RCache) (hr : (RCache.new n).run hist = some c) :
    c.len ≤ c.cap ∧ 1 ≤ c.cap ∧ KeysNodup c.items := by
  have w := RCache.run_wf (RCache.wf_new hn) hist ok hr
  exact ⟨w.len_le, w.cap_pos, w.nodup⟩

/-- with capacity ≥ 1 `Put` never dereferences the list sentinel (the model's `panic` outcome) -/
theorem put_never_panics (h : Heap) (c : LCache) (w : c.WF) (id : Nat) : (c.put h id).2 ≠ .panic :=
  LCache.put_no_panic w id

/-! ### a full cache refuses unused blocks -/

theorem full_refuses_unused_lru_fifo (h : Heap) (c : LCache) (id : Nat)
    (hfull : c.len = c.cap) (hu : (h id).used = false) : c.put h id = (c, .refused) :=
  LCache.full_refuses_unused h c id hfull hu

theorem full_refuses_unused_random (h : Heap) (c : RCache) (id : Nat) (hint : Option Nat)
    (hfull : c.len = c.cap) (hu : (h id).used = false) : c.put h id hint = some (c, .refused) :=
  RCache.full_refuses_unused h c id hint hfull hu

/-! ### eviction follows the stated policy -/

/-- LRU/FIFO `Put` on the linked list is `Put` of the stated policy (`PolicyQ`: two arrival-ordered queues,
victim = newest unused block if any, else oldest used block): same answer, corresponding successor -/
theorem lru_fifo_put_follows_policy (h : Heap) (q : PolicyQ) (id : Nat) :
    q.abs.put h id = ((q.put h id).1.abs, (q.put h id).2) :=
  PolicyQ.abs_put h q id

/-- … and so does every history: the list the code maintains is the image of the policy's queues after any
sequence of Put/Get/Peek/Drop/Resize/Free (`Drop(n)` = evict n times, `Resize` = evict down to n) -/
theorem lru_fifo_history_follows_policy (kind : Kind) (n : Int) (hist : List (Heap × LOp)) :
    (LCache.new n).run kind hist = ((PolicyQ.new n).run kind hist).abs := by
  rw [PolicyQ.abs_run, PolicyQ.abs_new]

/-- the victim the policy names: newest unused, else oldest used -/
theorem policy_victim (q : PolicyQ) (v : Entry) (q' : PolicyQ) (he : q.evict = some (v, q')) :
    (q.unused ≠ [] → q.unused.getLast? = some v) ∧ (q.unused = [] → q.used.head? = some v) := by
  unfold PolicyQ.evict at he
  constructor
  · intro hne
    cases hl : q.unused.getLast? with
    | none => simp at hl; exact absurd hl hne
    | some x => simp [hl] at he; rw [he.1]
  · intro hnil
    simp [hnil] at he
    cases hu : q.used with
    | nil => simp [hu] at he
    | cons a t => simp [hu] at he; simp [he.1]

/-- Random evicts only from a full cache, only a block it holds, and a used block only if no unused one is held -/
theorem random_evicts_unused_first (h : Heap) (c c' : RCache) (id v : Nat) (hint : Option Nat)
    (hp : c.put h id hint = some (c', .kept (some v))) :
    (∃ e ∈ c.items, e.id = v) ∧ (c.items.length : Int) = c.cap ∧
    ((∃ e ∈ c.items, (h e.id).used = false) → (h v).used = false) :=
  RCache.put_evicts_unused_first hp

/-! ### Peek / Len / Cap agree with Get -/

/-- `Peek(k)` is true exactly when `Get(k)` returns a block, and then reports that block's `NextBase()`;
`Len` is the number of distinct keys for which that is the case -/
theorem peek_len_consistent_lru_fifo (kind : Kind) (h : Heap) (c : LCache) (w : c.WF) (k : Int) :
    ((c.peek h k).1 = true ↔ ∃ id, (c.get kind h k).2 = some id) ∧
    (∀ id, (c.get kind h k).2 = some id → (c.peek h k) = (true, (h id).next)) ∧
    ((c.peek h k).1 = true ↔ k ∈ c.items.map (·.key)) ∧
    c.len = (c.items.map (·.key)).length ∧ (c.items.map (·.key)).Nodup := by
  refine ⟨?_, ?_, ?_, by simp [LCache.len], ?_⟩
  · unfold LCache.peek LCache.get
    cases hl : lookup c.items k with
    | none => simp
    | some e => simp only; split <;> simp
  · intro id
    unfold LCache.peek LCache.get
    cases hl : lookup c.items k with
    | none => simp
    | some e => simp only; split <;> (simp; intro h1; rw [h1])
  · unfold LCache.peek
    cases hl : lookup c.items k with
    | none =>
      have := lookup_none hl
      simp only [List.mem_map, Bool.false_eq_true, false_iff, not_exists, not_and]
      exact fun e he => this e he
    | some e =>
      obtain ⟨hm, hk⟩ := lookup_some hl
      simp only [List.mem_map, true_iff]
      exact ⟨e, hm, hk⟩
  · have := w.nodup
    unfold KeysNodup at this
    rw [List.Nodup, List.pairwise_map]
    exact this

theorem peek_len_consistent_random (h : Heap) (c : RCache) (w : c.WF) (k : Int) :
    ((c.peek h k).1 = true ↔ ∃ id, (c.get k).2 = some id) ∧
    (∀ id, (c.get k).2 = some id → (c.peek h k) = (true, (h id).next)) ∧
    c.len = (c.items.map (·.key)).length ∧ (c.items.map (·.key)).Nodup := by
  refine ⟨?_, ?_, by simp [RCache.len], ?_⟩
  · unfold RCache.peek RCache.get
    cases hl : lookup c.items k <;> simp
  · intro id
    unfold RCache.peek RCache.get
    cases hl : lookup c.items k with
    | none => simp
    | some e => simp; intro h1; rw [h1]
  · have := w.nodup
    unfold KeysNodup at this
    rw [List.Nodup, List.pairwise_map]
    exact this

/-! ### reader-style use: Get and Peek answer with the requested base -/

/-- **for every cache satisfying the contract**, in every state reachable by reader-style use (owned blocks
may be overwritten; blocks are owned when allocated, handed over by `Get`, refused or evicted by `Put`):
`Get(k)` returns a block whose base is `k`, `Peek(k)` answers for a held block whose base is `k` -/
theorem get_returns_requested_base {σ : Type} (o : CacheOps σ) (wf : σ → Prop) (c : Contract o wf)
    (init : σ) (h0 : Heap) (hwf : wf init) (hempty : o.held init = [])
    (s : Client σ) (r : Reach o wf init h0 s) (k : Int) :
    (∀ c' id, o.get s.heap s.cache k = (c', some id) → (s.heap id).base = k) ∧
    (∀ nx, o.peek s.heap s.cache k = (true, nx) →
      ∃ id, (⟨k, id⟩ : Entry) ∈ o.held s.cache ∧ (s.heap id).base = k ∧ nx = (s.heap id).next) :=
  coherent_get_base c (reach_coherent c hwf hempty r) k

/-- the contract holds for LRU, Random and a StatsRecorder around either (or around any conforming cache) -/
theorem lru_satisfies_contract : Contract lruOps LCache.WF := lru_contract
theorem random_satisfies_contract : Contract randomOps RCache.WF := random_contract
theorem recorder_satisfies_contract {σ : Type} (o : CacheOps σ) (wf : σ → Prop) (c : Contract o wf) :
    Contract (recorderOps o) (fun s => wf s.1) := recorder_contract c

theorem lru_get_returns_requested_base (n : Int) (hn : 1 ≤ n) (h0 : Heap) (s : Client LCache)
    (r : Reach lruOps LCache.WF (LCache.new n) h0 s) (k : Int) (c' : LCache) (id : Nat)
    (hg : LCache.get .lru s.heap s.cache k = (c', some id)) : (s.heap id).base = k :=
  (get_returns_requested_base lruOps LCache.WF lru_contract _ h0 (LCache.wf_new hn) rfl s r k).1 c' id hg

theorem random_get_returns_requested_base (n : Int) (hn : 1 ≤ n) (h0 : Heap) (s : Client RCache)
    (r : Reach randomOps RCache.WF (RCache.new n) h0 s) (k : Int) (c' : RCache) (id : Nat)
    (hg : s.cache.get k = (c', some id)) : (s.heap id).base = k :=
  (get_returns_requested_base randomOps RCache.WF random_contract _ h0 (RCache.wf_new hn) rfl s r k).1 c' id hg

theorem recorder_lru_get_returns_requested_base (n : Int) (hn : 1 ≤ n) (h0 : Heap) (s : Client (LCache × Stats))
    (r : Reach (recorderOps lruOps) (fun s => LCache.WF s.1) (LCache.new n, {}) h0 s) (k : Int)
    (c' : LCache × Stats) (id : Nat)
    (hg : (recorderOps lruOps).get s.heap s.cache k = (c', some id)) : (s.heap id).base = k :=
  (get_returns_requested_base (recorderOps lruOps) _ (recorder_contract lru_contract) _ h0
    (LCache.wf_new hn) rfl s r k).1 c' id hg

/-- FIFO, full statement (FALSE on the current code: recorded finding) -/
def fifo_get_returns_requested_base_full : Prop :=
  ∀ (n : Int), 1 ≤ n → ∀ (h0 : Heap) (s : Client LCache),
    Reach fifoOps LCache.WF (LCache.new n) h0 s →
    ∀ (k : Int) (c' : LCache) (id : Nat), LCache.get .fifo s.heap s.cache k = (c', some id) → (s.heap id).base = k

/-- FIFO with the excluding hypothesis explicit: as long as no `Get` hits a block that is `Used()` -/
theorem fifo_get_returns_requested_base_partial (n : Int) (hn : 1 ≤ n) (h0 : Heap) (s : Client LCache)
    (r : ReachP fifoOps LCache.WF FifoSafe (LCache.new n) h0 s) (k : Int) (c' : LCache) (id : Nat)
    (hs : FifoSafe (.get k) s)
    (hg : LCache.get .fifo s.heap s.cache k = (c', some id)) : (s.heap id).base = k := by
  have inv := (coherent_fifo_iff_lru s).1 (fifo_reach_coherent_partial hn r)
  have e : LCache.get .fifo s.heap s.cache k = LCache.get .lru s.heap s.cache k := fifo_get_eq_lru hs
  rw [e] at hg
  exact (coherent_get_base lru_contract inv k).1 c' id hg

/-- the counterexample: alloc b (base 0, used); Put b; Get 0 (= b, still indexed); Put b (refused);
the owner recycles b for base 100; Get 0 returns b, whose base is 100 -/
theorem fifo_get_returns_requested_base_witness : ¬ fifo_get_returns_requested_base_full := by
  intro hfull
  obtain ⟨c', id, hg, hb⟩ := fifo_witness_wrong_base
  exact hb (hfull 1 (by decide) _ fifoS4 fifo_witness_reach 0 c' id hg)

/-- FIFO does not satisfy the contract (`Get` must remove) -/
theorem fifo_violates_contract : ¬ Contract fifoOps LCache.WF := fifo_not_contract

/-! ### Resize, Drop, Free leave the stated capacity and free slots -/

theorem drop_post_lru_fifo (c : LCache) (n : Int) :
    (c.drop n).cap = c.cap ∧ (c.drop n).len = c.len - min (max n 0) c.len :=
  LCache.drop_post c n

theorem resize_post_lru_fifo (c : LCache) (n : Int) (hn : 0 ≤ n) :
    (c.resize n).cap = n ∧ (c.resize n).len = min c.len n :=
  LCache.resize_post c n hn

theorem free_post_lru_fifo (c : LCache) (w : c.WF) (n : Int) :
    (c.free n).1.cap = c.cap ∧
    ((c.free n).2 = true ↔ n ≤ c.cap) ∧
    ((c.free n).2 = true → n ≤ (c.free n).1.cap - (c.free n).1.len) ∧
    (c.free n).1.len = c.len - min (max (n - (c.cap - c.len)) 0) c.len :=
  LCache.free_post w n

/-- Random `Drop`: capacity unchanged, at least `min n len` blocks leave, only chosen victims leave, and
either only unused blocks left or no unused block stayed -/
theorem drop_post_random (h : Heap) (c c' : RCache) (n : Int) (vs : List Nat)
    (hd : c.drop h n vs = some c') :
    c'.cap = c.cap ∧ c'.len ≤ c.len - min (max n 0) c.len ∧
    (∀ e ∈ c.items, e ∉ c'.items → e.id ∈ vs) ∧
    ((∀ v ∈ vs, (h v).used = false) ∨ (∀ e ∈ c'.items, (h e.id).used = true)) := by
  simp only [RCache.drop, Option.map_eq_some_iff] at hd
  obtain ⟨it, h1, h2⟩ := hd
  subst h2
  obtain ⟨_, hl, hv, hp⟩ := RCache.dropItems_facts h1
  exact ⟨rfl, hl, hv, hp⟩

theorem resize_post_random (h : Heap) (c c' : RCache) (n : Int) (vs : List Nat) (hn : 0 ≤ n)
    (hd : c.resize h n vs = some c') : c'.cap = n ∧ c'.len ≤ min c.len n := by
  unfold RCache.resize at hd
  split at hd
  · simp only [Option.map_eq_some_iff] at hd
    obtain ⟨it, h1, h2⟩ := hd
    subst h2
    obtain ⟨_, hl, _⟩ := RCache.dropItems_facts h1
    refine ⟨rfl, ?_⟩
    simp only [RCache.len]
    omega
  · split at hd
    · cases hd
      exact ⟨rfl, by simp only [RCache.len]; omega⟩
    · cases hd

/-- Random `Drop(n)`, exact count: when no block is indexed twice (true in every state reached by
reader-style use, `random_reader_style_ids_distinct`) exactly `min (max n 0) Len` blocks leave -/
theorem drop_post_random_exact (h : Heap) (c c' : RCache) (n : Int) (vs : List Nat) (hid : c.IdsNodup)
    (hd : c.drop h n vs = some c') :
    c'.cap = c.cap ∧ c'.len = c.len - min (max n 0) c.len ∧ c'.IdsNodup :=
  RCache.drop_post_exact hid hd

/-- Random `Resize(n)`, exact count -/
theorem resize_post_random_exact (h : Heap) (c c' : RCache) (n : Int) (vs : List Nat) (hn : 0 ≤ n)
    (hid : c.IdsNodup) (hd : c.resize h n vs = some c') :
    c'.cap = n ∧ c'.len = min c.len n ∧ c'.IdsNodup :=
  RCache.resize_post_exact hn hid hd

/-- `cache.Free(n, c)` on Random: the same post-condition as for LRU/FIFO (`free_post_lru_fifo`) -/
theorem free_post_random (h : Heap) (c c' : RCache) (b : Bool) (n : Int) (vs : List Nat) (w : c.WF)
    (hid : c.IdsNodup) (hd : c.free h n vs = some (c', b)) :
    c'.cap = c.cap ∧ (b = true ↔ n ≤ c.cap) ∧ (b = true → n ≤ c'.cap - c'.len) ∧
    c'.len = c.len - min (max (n - (c.cap - c.len)) 0) c.len ∧ c'.IdsNodup :=
  RCache.free_post w hid hd

/-- the guard of the three theorems above holds in every state reached by reader-style use of a Random cache -/
theorem random_reader_style_ids_distinct (n : Int) (hn : 1 ≤ n) (h0 : Heap) (s : Client RCache)
    (r : Reach randomOps RCache.WF (RCache.new n) h0 s) : s.cache.IdsNodup := by
  have co := reach_coherent random_contract (RCache.wf_new hn) rfl r
  have kn : KeysNodup s.cache.items := co.wf.nodup
  unfold RCache.IdsNodup List.Nodup
  rw [List.pairwise_map]
  exact List.Pairwise.imp_of_mem (fun {a b} ha hb hab hid => hab (congrArg Entry.key (co.ids a ha b hb hid))) kn

/-! ### Get / Peek follow the stated policy too; StatsRecorder counters -/

/-- LRU/FIFO `Get` and `Peek` on the linked list are `PolicyQ.get` / `PolicyQ.peek`, which are written
without reference to the list: same answer, corresponding successor -/
theorem lru_fifo_get_peek_follow_policy (kind : Kind) (h : Heap) (q : PolicyQ) (k : Int) :
    q.abs.get kind h k = ((q.get (kind == .fifo) h k).1.abs, (q.get (kind == .fifo) h k).2) ∧
    q.abs.peek h k = q.peek h k := by
  obtain ⟨h1, h2⟩ := PolicyQ.abs_get_full kind h q k
  exact ⟨Prod.ext h1.symm h2.symm, (PolicyQ.abs_peek h q k).symm⟩

/-- A StatsRecorder over ANY cache, any history of Get/Put/Peek with the heap changing arbitrarily: the
answers and the wrapped cache's final state are those of the bare cache, and the counters are
`Gets` = number of Gets, `Misses` = Gets answered nil, `Puts` = number of Puts, `Retains` = Puts answered
retained, `Evictions` = Puts that handed a block back. -/
theorem recorder_counters_follow_history {σ : Type} (o : CacheOps σ) (s : σ) (hist : List (Heap × RecOp))
    (t : σ) (st : Stats) (as : List RecAns)
    (hr : runAns (recorderOps o) (s, {}) hist = some ((t, st), as)) :
    runAns o s hist = some (t, as) ∧
    st.gets = count RecAns.isGet as ∧
    st.misses = count RecAns.isMiss as ∧
    st.puts = count RecAns.isPut as ∧
    st.retains = count RecAns.isRetain as ∧
    st.evictions = count RecAns.isEvict as := by
  rw [recorder_run] at hr
  cases hb : runAns o s hist with
  | none => rw [hb] at hr; cases hr
  | some p =>
    obtain ⟨t', as'⟩ := p
    rw [hb] at hr
    simp only [Option.map_some, Option.some.injEq, Prod.mk.injEq] at hr
    obtain ⟨⟨ht, hst⟩, has⟩ := hr
    subst ht has
    obtain ⟨h1, h2, h3, h4, h5⟩ := tally_counts {} as'
    rw [hst] at h1 h2 h3 h4 h5
    exact ⟨rfl, by simpa using h1, by simpa using h2, by simpa using h3, by simpa using h4, by simpa using h5⟩

/-! ### concurrent use is linearizable -/

/-- generic: lock; body in any number of small steps; unlock  ⇒  every history (any number of threads, any
schedule) is linearizable w.r.t. the sequential specification -/
theorem lock_linearizable (O : Obj) (L : Laws O) (s0 : O.σ) (g : G O) (w : List (Ev O))
    (r : Hts.Spec.Lin.Reach O s0 g w) : Linearizable O s0 (visible O w) :=
  Hts.Spec.Lin.lock_linearizable O L s0 r

theorem lru_fifo_linearizable (kind : Kind) (h : Heap) (n : Int) (g : G (lObj kind h))
    (w : List (Ev (lObj kind h))) (r : Hts.Spec.Lin.Reach (lObj kind h) (LCache.new n) g w) :
    Linearizable (lObj kind h) (LCache.new n) (visible (lObj kind h) w) :=
  lcache_linearizable kind h n r

theorem random_linearizable (h : Heap) (n : Int) (g : G (rObj h)) (w : List (Ev (rObj h)))
    (r : Hts.Spec.Lin.Reach (rObj h) (RCache.new n) g w) :
    Linearizable (rObj h) (RCache.new n) (visible (rObj h) w) :=
  rcache_linearizable h n r

/-- A call reads the heap only at the blocks the cache holds and at its argument; everything else may be
written by its owner while the call runs (so "the heap a call observes" below is well defined for race-free
clients). -/
theorem lru_fifo_call_reads_held_blocks_only (kind : Kind) (h h' : Heap) (c : LCache) (op : Call)
    (hheld : ∀ e ∈ c.items, h e.id = h' e.id) (harg : ∀ id, op = .put id → h id = h' id) :
    LCache.call kind h c op = LCache.call kind h' c op :=
  LCache.call_frame kind h h' c op hheld harg

/-- linearizability with the heap changing between (and differing for) the operations: every call carries
the heap it observes -/
theorem lru_fifo_linearizable_any_heaps (kind : Kind) (n : Int) (g : G (lObjH kind))
    (w : List (Ev (lObjH kind))) (r : Hts.Spec.Lin.Reach (lObjH kind) (LCache.new n) g w) :
    Linearizable (lObjH kind) (LCache.new n) (visible (lObjH kind) w) :=
  lcacheH_linearizable kind n r

theorem random_linearizable_any_heaps (n : Int) (g : G rObjH) (w : List (Ev rObjH))
    (r : Hts.Spec.Lin.Reach rObjH (RCache.new n) g w) :
    Linearizable rObjH (RCache.new n) (visible rObjH w) :=
  rcacheH_linearizable n r

/-- StatsRecorder `Get`/`Put`/`Stats`/`Reset` with their bodies in small steps (counter, inner call, counter) -/
theorem recorder_linearizable {σ : Type} (o : CacheOps σ) (h : Heap) (c0 : σ) (g : G (recObj o h))
    (w : List (Ev (recObj o h))) (r : Hts.Spec.Lin.Reach (recObj o h) (c0, {}) g w) :
    Linearizable (recObj o h) (c0, {}) (visible (recObj o h) w) :=
  Hts.Spec.Lin.recorder_linearizable o h c0 r

/-! ### non-vacuity -/

/-- heap used in the examples: block i has base 100·i, is used, next base 100·(i+1) -/
def exHeap : Heap := fun i => ⟨100 * i, true, 100 * (i + 1)⟩

/-- a history satisfying the hypotheses of `len_le_cap_lru_fifo` that fills a cache of capacity 2, evicts, shrinks -/
example : ((LCache.new 2).run .lru
    [(exHeap, .put 0), (exHeap, .put 1), (exHeap, .put 2), (exHeap, .get 100), (exHeap, .resize 1)]).items
    = [⟨200, 2⟩] := by decide

example : ∀ x ∈ [(exHeap, LOp.put 0), (exHeap, .put 1), (exHeap, .put 2), (exHeap, .get 100), (exHeap, .resize 1)],
    x.2.ok := by
  intro x hx
  simp at hx
  rcases hx with h | h | h | h | h <;> subst h <;> simp [LOp.ok]

/-- the third Put evicted block 0, the oldest -/
example : ((((LCache.new 2).put exHeap 0).1.put exHeap 1).1.put exHeap 2).2 = .kept (some 0) := by decide

/-- `recorder_counters_follow_history` on a history with a hit, a miss and an eviction:
Gets 2, Misses 1, Puts 3, Retains 3, Evictions 1 -/
example : (runAns (recorderOps lruOps) (LCache.new 1, {})
    [(exHeap, .put 0 none), (exHeap, .get 0), (exHeap, .get 0), (exHeap, .put 1 none), (exHeap, .put 2 none)]).map
      (fun x => x.1.2) = some ⟨2, 1, 3, 3, 1⟩ := by decide

/-- a reachable reader-style state with a non-empty LRU (hypotheses of `get_returns_requested_base`) -/
example : ∃ s, Reach lruOps LCache.WF (LCache.new 1) exHeap s ∧ s.cache.items = [⟨0, 0⟩] := by
  refine ⟨⟨⟨1, [⟨0, 0⟩]⟩, setBlk exHeap 0 ⟨0, true, 100⟩, [], 1⟩, ?_, rfl⟩
  have r1 := Reach.step (Reach.init (o := lruOps) (wf := LCache.WF) (init := LCache.new 1) (h0 := exHeap))
    (Step.alloc _ ⟨0, true, 100⟩)
  have st := Step.putKept (o := lruOps) (wf := LCache.WF) _ 0 none ⟨1, [⟨0, 0⟩]⟩ none
    (by simp) (by decide) |> Reach.step r1
  simpa using st

/-- a run of the lock LTS in which thread 1 invokes while thread 0 is inside its critical section -/
example : ∃ g w, Hts.Spec.Lin.Reach (lObj .lru exHeap) (LCache.new 1) g w ∧ w.length = 3 := by
  have r0 : Hts.Spec.Lin.Reach (lObj .lru exHeap) (LCache.new 1) ⟨LCache.new 1, fun _ => .idle⟩ [] :=
    Hts.Spec.Lin.Reach.init
  have r1 := Hts.Spec.Lin.Reach.step r0 (Hts.Spec.Lin.Step.invoke _ 0 (Call.put 0) rfl)
  have r2 := Hts.Spec.Lin.Reach.step r1 (Hts.Spec.Lin.Step.acquireW _ 0 (Call.put 0) (by simp) rfl
    (by intro u op' l; by_cases hu : u = 0 <;> simp [upd, hu]))
  have r3 := Hts.Spec.Lin.Reach.step r2 (Hts.Spec.Lin.Step.invoke _ 1 (Call.get 0) (by simp [upd]))
  have r4 := Hts.Spec.Lin.Reach.step r3 (Hts.Spec.Lin.Step.finish _ 0 (Call.put 0) () (CRet.put (.kept none))
    (⟨1, [⟨0, 0⟩]⟩ : LCache) (by simp [upd]; rfl)
    (by show LCache.call .lru exHeap (LCache.new 1) (Call.put 0) = _; decide))
  exact ⟨_, _, r4, rfl⟩

end Hts.Props.C14
