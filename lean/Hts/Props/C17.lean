/-
C17 — Chunk merge strategies never lose coverage.
PROPERTY THEOREMS ONLY.  All statements are for every list of chunks (any length, any offsets, including
empty, nested, touching, duplicate, zero-length and inverted chunks) and every threshold (incl. negative).
-/
import Hts.Lemmas.Merge
namespace Hts.Props.C17
open Hts.Model.Merge

/-! ### sortedness of the result -/
theorem adjacent_sorted (cs : List Chunk) (h : SortedB cs) : SortedB (adjacent cs) := by
  cases cs with
  | nil => trivial
  | cons c cs => exact mergeLoop_sorted _ c cs h

theorem compressor_sorted (near : Int) (cs : List Chunk) (h : SortedB cs) : SortedB (compressor near cs) := by
  cases cs with
  | nil => trivial
  | cons c cs => exact mergeLoop_sorted _ c cs h

theorem squash_sorted (cs : List Chunk) : SortedB (squash cs) := by
  cases cs <;> trivial

theorem identity_sorted (cs : List Chunk) (h : SortedB cs) : SortedB (identity cs) := h

/-! ### coverage is never lost -/
theorem adjacent_covers (cs : List Chunk) (p : Int) (h : SortedB cs) (hc : covers cs p) :
    covers (adjacent cs) p := by
  cases cs with
  | nil => exact hc
  | cons c cs => exact mergeLoop_covers _ c cs p h hc

theorem compressor_covers (near : Int) (cs : List Chunk) (p : Int) (h : SortedB cs) (hc : covers cs p) :
    covers (compressor near cs) p := by
  cases cs with
  | nil => exact hc
  | cons c cs => exact mergeLoop_covers _ c cs p h hc

theorem squash_covers (cs : List Chunk) (p : Int) (h : SortedB cs) (hc : covers cs p) :
    covers (squash cs) p := by
  cases cs with
  | nil => exact hc
  | cons c cs =>
    obtain ⟨x, hx, hp⟩ := hc
    refine ⟨_, List.mem_singleton.2 rfl, ?_⟩
    have hm := maxEnd_ge c.e cs
    unfold covers1 at *
    cases hx with
    | head => exact ⟨hp.1, by simp only; omega⟩
    | tail _ hmem =>
      have := sortedB_head_le h x hmem
      have := hm.2 x hmem
      exact ⟨by simp only; omega, by simp only; omega⟩

theorem identity_covers (cs : List Chunk) (p : Int) (hc : covers cs p) : covers (identity cs) p := hc

/-! ### Adjacent covers exactly the input's positions, with separated neighbours -/
theorem adjacent_covers_exactly (cs : List Chunk) (p : Int) (h : SortedB cs) :
    covers (adjacent cs) p ↔ covers cs p := by
  constructor
  · intro hc
    cases cs with
    | nil => exact hc
    | cons c cs => exact mergeLoop_adj_covers_only c cs p hc
  · exact adjacent_covers cs p h

/-- neighbours of the result are strictly separated: `left.End < right.Begin` -/
theorem adjacent_separated (cs : List Chunk) : NoClose adjClose (adjacent cs) := by
  cases cs with
  | nil => trivial
  | cons c cs => exact mergeLoop_noClose _ adjClose_closeB c cs

/-! ### Squash returns the single enclosing chunk -/
theorem squash_enclosing (c : Chunk) (cs : List Chunk) :
    ∃ e, squash (c :: cs) = [{ b := c.b, e := e }] ∧
      (∀ x, x ∈ c :: cs → vOff x.e ≤ vOff e) ∧ (∃ x, x ∈ c :: cs ∧ e = x.e) := by
  refine ⟨maxEnd c.e cs, rfl, ?_, ?_⟩
  · intro x hx
    have hm := maxEnd_ge c.e cs
    cases hx with
    | head => exact hm.1
    | tail _ hmem => exact hm.2 x hmem
  · rcases maxEnd_mem c.e cs with h | ⟨x, hx, hxe⟩
    · exact ⟨c, List.mem_cons_self, h⟩
    · exact ⟨x, List.mem_cons_of_mem _ hx, hxe⟩

theorem squash_empty : squash [] = [] := rfl

/-! ### a Compressor leaves no two neighbours closer than its threshold -/
theorem compressor_gap (near : Int) (cs : List Chunk) : NoClose (nearClose near) (compressor near cs) := by
  cases cs with
  | nil => trivial
  | cons c cs => exact mergeLoop_noClose _ (nearClose_closeB near) c cs

/-- the same in the documentation's own terms (exact integers, no wrap-around), for EVERY threshold: when
the file offsets of the input are valid (`0 ≤ File < 2^63`), no two neighbours of the result have block
starts within `near` of each other -/
theorem compressor_gap_exact (near : Int) (cs : List Chunk)
    (hb : ∀ c, c ∈ cs → 0 ≤ c.b.file ∧ c.b.file < 2 ^ 63 ∧ 0 ≤ c.e.file ∧ c.e.file < 2 ^ 63) :
    NoClose (nearCloseExact near) (compressor near cs) := by
  cases cs with
  | nil => trivial
  | cons c cs =>
    refine noClose_congr (nearClose near) (nearCloseExact near)
      (fun a => 0 ≤ a.b.file ∧ a.b.file < 2 ^ 63 ∧ 0 ≤ a.e.file ∧ a.e.file < 2 ^ 63) ?_ _ ?_
      (compressor_gap near (c :: cs))
    · intro a b ha hb'
      have e : wrap64 (b.b.file - a.e.file) = b.b.file - a.e.file := wrap64_id _ (by omega) (by omega)
      simp only [nearClose, nearCloseExact, e]
      congr 1; apply propext; omega
    · intro x hx
      obtain ⟨y, hy, e⟩ := mergeLoop_ends _ c cs x hx
      obtain ⟨y', hy', e'⟩ := mergeLoop_begins _ c cs x hx
      rw [e, e']; exact ⟨(hb y' hy').1, (hb y' hy').2.1, (hb y hy).2.2.1, (hb y hy).2.2.2⟩

/-- also at the largest threshold: everything merges (before repair 4 of C17 the sum `End.File+near`
wrapped negative and nothing merged) -/
theorem compressor_max_threshold_witness :
    compressor (2 ^ 63 - 1) [⟨⟨0, 0⟩, ⟨1, 0⟩⟩, ⟨⟨1, 0⟩, ⟨2, 0⟩⟩] = [⟨⟨0, 0⟩, ⟨2, 0⟩⟩] := by decide

/-! ### applying a strategy twice changes nothing -/
theorem adjacent_idempotent (cs : List Chunk) : adjacent (adjacent cs) = adjacent cs := by
  cases cs with
  | nil => rfl
  | cons c cs =>
    obtain ⟨hd, tl, e, _⟩ := mergeLoop_head adjClose c cs
    show adjacent (mergeLoop adjClose c cs) = mergeLoop adjClose c cs
    rw [e]
    exact mergeLoop_idem _ adjClose_closeB c cs hd tl e

theorem compressor_idempotent (near : Int) (cs : List Chunk) :
    compressor near (compressor near cs) = compressor near cs := by
  cases cs with
  | nil => rfl
  | cons c cs =>
    obtain ⟨hd, tl, e, _⟩ := mergeLoop_head (nearClose near) c cs
    show compressor near (mergeLoop (nearClose near) c cs) = mergeLoop (nearClose near) c cs
    rw [e]
    exact mergeLoop_idem _ (nearClose_closeB near) c cs hd tl e

theorem squash_idempotent (cs : List Chunk) : squash (squash cs) = squash cs := by
  cases cs with
  | nil => rfl
  | cons c cs => rfl

theorem identity_idempotent (cs : List Chunk) : identity (identity cs) = identity cs := rfl

/-! ### non-vacuity: a sorted list with nested, touching, duplicate, zero-length chunks (tests) -/
def ex : List Chunk :=
  [⟨⟨0, 0⟩, ⟨10, 5⟩⟩, ⟨⟨2, 0⟩, ⟨3, 0⟩⟩, ⟨⟨10, 5⟩, ⟨12, 0⟩⟩, ⟨⟨10, 5⟩, ⟨12, 0⟩⟩, ⟨⟨20, 0⟩, ⟨20, 0⟩⟩, ⟨⟨30, 7⟩, ⟨31, 0⟩⟩]
example : SortedB ex := by simp [SortedB, ex, vOff]
example : adjacent ex = [⟨⟨0, 0⟩, ⟨12, 0⟩⟩, ⟨⟨20, 0⟩, ⟨20, 0⟩⟩, ⟨⟨30, 7⟩, ⟨31, 0⟩⟩] := by decide
example : covers ex (11 * 65536) := ⟨⟨⟨10, 5⟩, ⟨12, 0⟩⟩, by decide, by simp [covers1, vOff]⟩
example : compressor 9 ex = [⟨⟨0, 0⟩, ⟨20, 0⟩⟩, ⟨⟨30, 7⟩, ⟨31, 0⟩⟩] := by decide

end Hts.Props.C17
