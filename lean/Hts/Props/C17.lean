/-
C17 — property theorems (stub: no theorem stated yet, so no obligation is counted).
-/
namespace Hts.Props.C17
end Hts.Props.C17
