/-
C03 — block caches are transparent.
PROPERTY THEOREMS ONLY (model: Hts.Model.CachedReader; contract: Hts.Spec.CacheContract; proofs: Hts.Lemmas.CachedReader).

Scope of the theorems: the sequential reader (`rd = 1`), every file whose members have positive size, every history
of Seek / Read / ReadByte / Blocked / SetCache(new cache | nil | a cache used earlier in the history) of any length, every cache that satisfies the
contract (proved for LRU, Random and StatsRecorder around them in C14; FIFO does not satisfy it — FIFO has its own
invariant and theorems, section "FIFO with the repaired reader: all histories", for the variants with repair C03-5).
The code variant is any one in which a block whose load failed keeps no data (`Cfg.noStale`: repair C03-1
`clearOnRebase` — `setBase` drops the previous data — or repair C09-2 `failReset` — `decompressor.failAt` — or both, as in
the current tree `Cfg.repaired`), with or without repair C03-2 (`peekGuard`).  For the unchanged tree (`Cfg.asIs`) the statements are false:
`stale_block_witness` (LRU) and `fifo_witness`.  Read-ahead (`rd > 1`) is not covered by any theorem here: it is
checked by the correspondence harness only, and has its own recorded finding.
-/
import Hts.Lemmas.CachedReader
import Hts.Lemmas.CacheContract
import Hts.Lemmas.CacheReadAhead
import Hts.Lemmas.CacheSum
import Hts.Lemmas.CachedReaderVsC02
import Hts.Lemmas.CachedReaderC02Sim
import Hts.Lemmas.CachedReaderFifo
import Hts.Lemmas.CacheHom
namespace Hts.Props.C03
open Hts.Model.Cache Hts.Spec.CacheContract Hts.Model.CachedReader

variable {σ : Type}

/-- the outputs of a whole run from `NewReader` (empty when `NewReader` or a call does not return normally) -/
def outputs (cfg : Cfg) (o : CacheOps σ) (f : File) (ops : List (Op σ)) : Except Fault (List Out) :=
  match newReader o cfg f with
  | .error e => .error e
  | .ok (r, e) =>
    if e ≠ .none then .ok []
    else match run cfg o f r ops with
      | .error e => .error e
      | .ok (_, outs) => .ok outs

/-! ### cache_inv -/

/-- **cache_inv**: after every history (including `SetCache` of new caches, `SetCache(nil)` and re-attaching a
cache used earlier, at arbitrary points) every entry `(k, id)` of the attached cache **and of every detached cache**
refers to an allocated block that is not the current block, whose base is `k` and whose data, header size and
file offset are those of the member at `k`; block identities are pairwise distinct within and across these caches;
the current block, if it claims to hold data, holds the member of its base. -/
theorem cache_inv (o : CacheOps σ) (wf : σ → Prop) (ct : Contract o wf) (cfg : Cfg)
    (hcfg : cfg.noStale) (f : File) (hf : FileOK f) (ops : List (Op σ))
    (ok : ∀ op ∈ ops, OpOK o wf op) (r0 r : Reader σ) (outs : List Out)
    (h0 : newReader o cfg f = .ok (r0, .none)) (hr : run cfg o f r0 ops = .ok (r, outs)) :
    Inv o wf f r := by
  have s0 : S o wf f r0 r0 := newReader_S hcfg h0
  have h := run_sim ct hcfg hf ops ok s0
  rcases h.cases with e1 | ⟨a, b, e1, _, r1⟩ | ⟨e, e1, _⟩
  · rw [hr] at e1; cases e1
  · rw [hr] at e1; cases e1; exact r1.2.w.invC
  · rw [hr] at e1; cases e1

/-! ### cached_refines_uncached -/

/-- **cached_refines_uncached**: for every cache satisfying the contract, whatever the history, every call of
the cached reader returns the same bytes, the same error class (nil / io.EOF / other) and the same LastChunk as
the uncached reader running the same history without the SetCache calls. -/
theorem cached_refines_uncached (o : CacheOps σ) (wf : σ → Prop) (ct : Contract o wf) (cfg : Cfg)
    (hcfg : cfg.noStale) (f : File) (hf : FileOK f) (ops : List (Op σ))
    (ok : ∀ op ∈ ops, OpOK o wf op) (outs : List Out)
    (hr : outputs cfg o f ops = .ok outs) :
    outputs cfg o f (ops.map Op.uncached) = .ok outs := by
  unfold outputs at hr ⊢
  cases h0 : newReader o cfg f with
  | error e => rw [h0] at hr; cases hr
  | ok v =>
    obtain ⟨r0, e⟩ := v
    rw [h0] at hr
    simp only at hr ⊢
    by_cases he : e = .none
    · subst he
      simp only [ne_eq, not_true_eq_false, if_false] at hr ⊢
      have s0 : S o wf f r0 r0 := newReader_S hcfg h0
      have h := run_sim ct hcfg hf ops ok s0
      rcases h.cases with e1 | ⟨a, b, e1, e2, r1⟩ | ⟨e', e1, _⟩
      · rw [e1] at hr; cases hr
      · rw [e1] at hr
        rw [e2]
        obtain ⟨C1, o1⟩ := a
        obtain ⟨U1, o2⟩ := b
        simp only [Except.ok.injEq] at hr ⊢
        rw [← hr]
        exact r1.1.symm
      · rw [e1] at hr; cases hr
    · simp only [ne_eq, he, not_false_eq_true, if_true] at hr ⊢
      exact hr

/-- … and a cached run stops abnormally (a call that panics or never returns) only when the uncached run of
the same history stops in the same way — or because the recorded choice of Random's victim was rejected,
which is not a behaviour of the code -/
theorem cached_faults_only_as_uncached (o : CacheOps σ) (wf : σ → Prop) (ct : Contract o wf) (cfg : Cfg)
    (hcfg : cfg.noStale) (f : File) (hf : FileOK f) (ops : List (Op σ))
    (ok : ∀ op ∈ ops, OpOK o wf op) (e : Fault)
    (hr : outputs cfg o f ops = .error e) :
    e = .badHint ∨ outputs cfg o f (ops.map Op.uncached) = .error e := by
  unfold outputs at hr ⊢
  cases h0 : newReader o cfg f with
  | error e' => rw [h0] at hr; simp only at hr ⊢; exact Or.inr hr
  | ok v =>
    obtain ⟨r0, e0⟩ := v
    rw [h0] at hr
    simp only at hr ⊢
    by_cases he : e0 = .none
    · subst he
      simp only [ne_eq, not_true_eq_false, if_false] at hr ⊢
      have s0 : S o wf f r0 r0 := newReader_S hcfg h0
      have h := run_sim ct hcfg hf ops ok s0
      rcases h.cases with e1 | ⟨a, b, e1, e2, r1⟩ | ⟨e', e1, e2⟩
      · rw [e1] at hr; simp only [Except.error.injEq] at hr; exact Or.inl hr.symm
      · rw [e1] at hr; cases hr
      · rw [e1] at hr
        rw [e2]
        simp only [Except.error.injEq] at hr ⊢
        exact Or.inr hr
    · simp only [ne_eq, he, not_false_eq_true, if_true] at hr
      cases hr

/-- `Cfg.repaired` — the variant the harness's probe histories identify the checked tree with (all of C03-1,
C03-2, C09-2, C03-5 observed as applied; the probe result is printed in the run's histogram and a tree that
probes as anything else is run against that other variant) — is a variant the theorems speak about; so is the
variant with `failAt` alone.  This is a statement about the model's `Cfg`, not about the Go tree: which `Cfg`
the Go tree is, is established by the probe and the correspondence runs only. -/
theorem current_tree_noStale : Cfg.repaired.noStale := Or.inl rfl

example : (⟨false, false, true, false⟩ : Cfg).noStale := Or.inr rfl

/-! ### instances -/

theorem lru_setCache_ok (n : Int) (hn : 1 ≤ n) (hints : List Int) :
    OpOK lruOps LCache.WF (.setCache (some (LCache.new n)) hints) := ⟨LCache.wf_new hn, rfl⟩

theorem random_setCache_ok (n : Int) (hn : 1 ≤ n) (hints : List Int) :
    OpOK randomOps RCache.WF (.setCache (some (RCache.new n)) hints) := ⟨RCache.wf_new hn, rfl⟩

/-- LRU caches of any capacity ≥ 1, attached at any points of the history, are transparent -/
theorem lru_transparent (cfg : Cfg) (hcfg : cfg.noStale) (f : File) (hf : FileOK f)
    (ops : List (Op LCache)) (ok : ∀ op ∈ ops, OpOK lruOps LCache.WF op) (outs : List Out)
    (hr : outputs cfg lruOps f ops = .ok outs) : outputs cfg lruOps f (ops.map Op.uncached) = .ok outs :=
  cached_refines_uncached lruOps LCache.WF lru_contract cfg hcfg f hf ops ok outs hr

/-- Random caches, for every sequence of victims the code can choose -/
theorem random_transparent (cfg : Cfg) (hcfg : cfg.noStale) (f : File) (hf : FileOK f)
    (ops : List (Op RCache)) (ok : ∀ op ∈ ops, OpOK randomOps RCache.WF op) (outs : List Out)
    (hr : outputs cfg randomOps f ops = .ok outs) :
    outputs cfg randomOps f (ops.map Op.uncached) = .ok outs :=
  cached_refines_uncached randomOps RCache.WF random_contract cfg hcfg f hf ops ok outs hr

/-- a StatsRecorder around any conforming cache -/
theorem recorder_transparent (o : CacheOps σ) (wf : σ → Prop) (ct : Contract o wf) (cfg : Cfg)
    (hcfg : cfg.noStale) (f : File) (hf : FileOK f) (ops : List (Op (σ × Stats)))
    (ok : ∀ op ∈ ops, OpOK (recorderOps o) (fun s => wf s.1) op) (outs : List Out)
    (hr : outputs cfg (recorderOps o) f ops = .ok outs) :
    outputs cfg (recorderOps o) f (ops.map Op.uncached) = .ok outs :=
  cached_refines_uncached (recorderOps o) _ (recorder_contract ct) cfg hcfg f hf ops ok outs hr

/-! ### one history, several kinds of cache

A cache object of kind "LRU or Random or StatsRecorder(LRU) or StatsRecorder(Random)": `SetCache` may attach a
different kind each time, detached objects of any kind may be attached again. -/

abbrev AnyCache := LCache ⊕ (RCache ⊕ ((LCache × Stats) ⊕ (RCache × Stats)))

def anyOps : CacheOps AnyCache :=
  sumOps lruOps (sumOps randomOps (sumOps (recorderOps lruOps) (recorderOps randomOps)))

def anyWF : AnyCache → Prop :=
  sumWF LCache.WF (sumWF RCache.WF (sumWF (fun s => LCache.WF s.1) (fun s => RCache.WF s.1)))

theorem any_contract : Contract anyOps anyWF :=
  sum_contract lru_contract
    (sum_contract random_contract (sum_contract (recorder_contract lru_contract) (recorder_contract random_contract)))

/-- generic: if two kinds of cache are transparent-by-contract, histories that mix them are transparent -/
theorem sum_transparent {σ₁ σ₂ : Type} (o₁ : CacheOps σ₁) (o₂ : CacheOps σ₂) (wf₁ : σ₁ → Prop)
    (wf₂ : σ₂ → Prop) (c₁ : Contract o₁ wf₁) (c₂ : Contract o₂ wf₂) (cfg : Cfg) (hcfg : cfg.noStale)
    (f : File) (hf : FileOK f) (ops : List (Op (σ₁ ⊕ σ₂)))
    (ok : ∀ op ∈ ops, OpOK (sumOps o₁ o₂) (sumWF wf₁ wf₂) op) (outs : List Out)
    (hr : outputs cfg (sumOps o₁ o₂) f ops = .ok outs) :
    outputs cfg (sumOps o₁ o₂) f (ops.map Op.uncached) = .ok outs :=
  cached_refines_uncached _ _ (sum_contract c₁ c₂) cfg hcfg f hf ops ok outs hr

/-- histories that switch between LRU, Random and StatsRecorder-wrapped caches (any capacities ≥ 1, any order, any
number of switches, re-attaching allowed) return what the uncached reader returns -/
theorem mixed_kinds_transparent (cfg : Cfg) (hcfg : cfg.noStale) (f : File) (hf : FileOK f)
    (ops : List (Op AnyCache)) (ok : ∀ op ∈ ops, OpOK anyOps anyWF op) (outs : List Out)
    (hr : outputs cfg anyOps f ops = .ok outs) : outputs cfg anyOps f (ops.map Op.uncached) = .ok outs :=
  cached_refines_uncached anyOps anyWF any_contract cfg hcfg f hf ops ok outs hr

def anyLRU (n : Int) : AnyCache := .inl (LCache.new n)
def anyRandom (n : Int) : AnyCache := .inr (.inl (RCache.new n))
def anyStatsLRU (n : Int) : AnyCache := .inr (.inr (.inl (LCache.new n, {})))
def anyStatsRandom (n : Int) : AnyCache := .inr (.inr (.inr (RCache.new n, {})))

theorem any_setCache_ok (n : Int) (hn : 1 ≤ n) (hints : List Int) :
    OpOK anyOps anyWF (.setCache (some (anyLRU n)) hints) ∧
    OpOK anyOps anyWF (.setCache (some (anyRandom n)) hints) ∧
    OpOK anyOps anyWF (.setCache (some (anyStatsLRU n)) hints) ∧
    OpOK anyOps anyWF (.setCache (some (anyStatsRandom n)) hints) :=
  ⟨⟨LCache.wf_new hn, rfl⟩, ⟨RCache.wf_new hn, rfl⟩, ⟨LCache.wf_new hn, rfl⟩, ⟨RCache.wf_new hn, rfl⟩⟩

/-! ### the unchanged tree: witnesses -/

/-- members "AAAAAA" (0..35), "BBBBBB" (35..70), "CCCC" (70..106), no EOF marker -/
def file3 : File := [⟨0, 35, [65, 65, 65, 65, 65, 65]⟩, ⟨35, 35, [66, 66, 66, 66, 66, 66]⟩, ⟨70, 36, [67, 67, 67, 67]⟩]

theorem file3_ok : FileOK file3 := by
  intro m hm
  simp [file3] at hm
  rcases hm with h | h | h <;> subst h <;> decide

/-- what a run returns, for comparison by `decide` -/
def bytesOf (x : Except Fault (List Out)) : List (List Nat × ErrClass) :=
  match x with
  | .ok outs => outs.map (fun o => (o.bytes, o.err))
  | .error _ => []

/-- SetCache(LRU(1)); Seek b1; Seek (b2,4); Read 1; Seek b0; Seek b2; Read 3; Read 3; Read 3 -/
def staleOps : List (Op LCache) :=
  [.setCache (some (LCache.new 1)) [], .seek 35 0, .seek 70 4, .read 1, .seek 0 0, .seek 70 0, .read 3, .read 3, .read 3]

/-- full statement for the unchanged tree (FALSE: defect C03-1, repaired by fixes/C03-1) -/
def lru_transparent_asIs_full : Prop :=
  ∀ (f : File), FileOK f → ∀ (ops : List (Op LCache)), (∀ op ∈ ops, OpOK lruOps LCache.WF op) →
    ∀ outs, outputs Cfg.asIs lruOps f ops = .ok outs → outputs Cfg.asIs lruOps f (ops.map Op.uncached) = .ok outs

/-- on the unchanged tree the block recycled at the failed read past the last member keeps "CCCC", is cached
under the end-of-file offset and is read again: cached "CCC","CCC","CC"+EOF, uncached "CCC","C"+EOF,""+EOF -/
theorem stale_block_witness :
    bytesOf (outputs Cfg.asIs lruOps file3 staleOps) ≠
      bytesOf (outputs Cfg.asIs lruOps file3 (staleOps.map Op.uncached)) := by decide

theorem lru_transparent_asIs_witness : ¬ lru_transparent_asIs_full := by
  intro h
  have hok : ∀ op ∈ staleOps, OpOK lruOps LCache.WF op := by
    intro op hop
    simp only [staleOps, List.mem_cons, List.mem_nil_iff, or_false] at hop
    rcases hop with h1 | h1 | h1 | h1 | h1 | h1 | h1 | h1 | h1 <;> subst h1 <;>
      first | exact lru_setCache_ok 1 (by decide) [] | trivial
  cases hc : outputs Cfg.asIs lruOps file3 staleOps with
  | error e => have : bytesOf (outputs Cfg.asIs lruOps file3 staleOps) ≠ [] := by decide
               rw [hc] at this; exact this rfl
  | ok outs =>
    have := h file3 file3_ok staleOps hok outs hc
    apply stale_block_witness
    rw [hc, this]

/-- with repair C03-1 the same history is transparent (instance of the theorem, checked by evaluation too) -/
example : bytesOf (outputs Cfg.repaired lruOps file3 staleOps) =
    bytesOf (outputs Cfg.repaired lruOps file3 (staleOps.map Op.uncached)) := by decide

/-- SetCache(FIFO(2)); Read 2; Seek b1; Read 2; Seek b0; Read 6; Seek b2; Read 4; Seek (b0,1); Read 5 -/
def fifoOpsHist : List (Op LCache) :=
  [.setCache (some (LCache.new 2)) [], .read 2, .seek 35 0, .read 2, .seek 0 0, .read 6, .seek 70 0, .read 4,
    .seek 0 1, .read 5]

/-- FIFO on the unchanged tree: the last Read returns "CCC"+EOF instead of "AAAAA" -/
theorem fifo_witness :
    bytesOf (outputs Cfg.asIs fifoOps file3 fifoOpsHist) ≠
      bytesOf (outputs Cfg.asIs fifoOps file3 (fifoOpsHist.map Op.uncached)) := by decide

/-- with repair C03-2 (`cacheSwap` does not recycle a block the cache still Peeks) that history is transparent.
(All histories: `fifo_repaired_transparent` below.) -/
theorem fifo_witness_repaired :
    bytesOf (outputs Cfg.repaired fifoOps file3 fifoOpsHist) =
      bytesOf (outputs Cfg.repaired fifoOps file3 (fifoOpsHist.map Op.uncached)) := by decide

/-- the full statement for FIFO with the repaired reader (proved below: `fifo_transparent_repaired_full_holds`) -/
def fifo_transparent_repaired_full : Prop :=
  ∀ (f : File), FileOK f → ∀ (ops : List (Op LCache)), (∀ op ∈ ops, OpOK fifoOps LCache.WF op) →
    ∀ outs, outputs Cfg.repaired fifoOps f ops = .ok outs →
      outputs Cfg.repaired fifoOps f (ops.map Op.uncached) = .ok outs

/-! ### attaching again a cache that was used before (`SetCache(nil)` … `SetCache(the same cache)`)

`Op.reattach i` attaches the `i`-th cache object that was replaced earlier in the history, with the blocks it holds
(`Reader.parked` is the list of those objects).  `cache_inv` covers them: every detached cache stays intact and shares
no block with the attached one, so `cached_refines_uncached` holds for histories with `reattach` too (`OpOK` puts no
condition on it).  For FIFO it fails on a tree without repair C03-5: -/

/-- FIFO(4): Read 8 (b0 and part of b1); Seek b0 (hit: the used block stays in the FIFO); SetCache(nil); Seek b2
(the block is recycled for "CCCC"); SetCache(the same FIFO); Seek b0; Read 2. -/
def reattachHist : List (Op LCache) :=
  [.setCache (some (LCache.new 4)) [], .read 8, .seek 0 0, .setCache none [], .seek 70 0, .reattach 0 [],
    .seek 0 0, .read 2]

/-- without repair C03-5 (variant ⟨…, lentGuard := false⟩) the last Read returns "CC" … -/
theorem fifo_reattach_witness :
    (bytesOf (outputs ⟨true, true, true, false⟩ fifoOps file3 reattachHist)).getLast? = some ([67, 67], .ok) := by
  decide

/-- … with repair C03-5 it returns "AA", as the uncached reader does -/
theorem fifo_reattach_repaired :
    bytesOf (outputs Cfg.repaired fifoOps file3 reattachHist) =
      bytesOf (outputs Cfg.repaired fifoOps file3 (reattachHist.map Op.uncached)) := by decide

/-- the same history with an LRU is an instance of `lru_transparent` (hypotheses satisfied, run `ok`) -/
example : (∀ op ∈ reattachHist, OpOK lruOps LCache.WF op) ∧
    (bytesOf (outputs Cfg.repaired lruOps file3 reattachHist)).getLast? = some ([65, 65], .ok) := by
  refine ⟨?_, by decide⟩
  intro op hop
  simp only [reattachHist, List.mem_cons, List.mem_nil_iff, or_false] at hop
  rcases hop with h1 | h1 | h1 | h1 | h1 | h1 | h1 | h1 <;> subst h1 <;>
    first | exact lru_setCache_ok 4 (by decide) [] | trivial

/-! ### FIFO with the repaired reader: all histories (extension round 4)

`FIFO.Get` leaves a block that has been read from in its table, so FIFO is outside `Contract` and `cache_inv` is false
for it (the current block can be a cache entry; after `SetCache(nil)` + another cache, two cache objects can reference
one block).  What makes it safe on a tree with repair C03-5 (`lentGuard`; `Cfg.repaired` is one) is the invariant
`Hts.Model.CachedReaderFifo.FInv`: every base ↦ block entry of every cache object (attached or detached) maps to a
block whose content is the member at that base; a current block that some table references is the block on loan
(`bg.lent`) and has been read from; a block referenced by two tables has been read from.  `nextBlockAt` decompresses
only into a new block or a current block that no table references (`loadAt_spec`, `cacheSwap_spec` there).
Capacities: every `NewFIFO(n)`, `n ≥ 1` (`n < 1` gives the nil cache, i.e. `SetCache(nil)`). -/

section Fifo
open Hts.Model.CachedReaderFifo

theorem fifo_setCache_ok (n : Int) (hn : 1 ≤ n) (hints : List Int) :
    OpOK fifoOps LCache.WF (.setCache (some (LCache.new n)) hints) := ⟨LCache.wf_new hn, rfl⟩

/-- **fifo_inv**: after every history of Seek / Read / ReadByte / Blocked / SetCache(new FIFO of any capacity ≥ 1 |
nil | a FIFO used earlier in the history) the invariant `FInv` holds (code variants: `noStale` and repair C03-5) -/
theorem fifo_inv (cfg : Cfg) (hcfg : cfg.noStale) (hlg : cfg.lentGuard = true) (f : File) (hf : FileOK f)
    (ops : List (Op LCache)) (ok : ∀ op ∈ ops, OpOK fifoOps LCache.WF op) (r0 r : Reader LCache) (outs : List Out)
    (h0 : newReader fifoOps cfg f = .ok (r0, .none)) (hr : run cfg fifoOps f r0 ops = .ok (r, outs)) :
    FInv f r := by
  have s0 := Hts.Model.CachedReaderFifo.newReader_S hcfg h0
  have h := Hts.Model.CachedReaderFifo.run_sim hcfg hlg hf ops ok s0
  rcases h.cases with e1 | ⟨a, b, e1, _, r1⟩ | ⟨e, e1, _⟩
  · exact e1.elim
  · rw [hr] at e1; cases e1; exact r1.2.w.invC
  · rw [hr] at e1; cases e1

/-- … spelled out: no indexed block is ever overwritten — every table entry `(k, id)` of the attached FIFO and of
every detached one refers to an allocated block whose base, data, header size and file offset are those of the member
at `k`; and if the current block is such a block, it is the one remembered in `bg.lent` (never recycled) -/
theorem fifo_indexed_blocks_intact (cfg : Cfg) (hcfg : cfg.noStale) (hlg : cfg.lentGuard = true) (f : File)
    (hf : FileOK f) (ops : List (Op LCache)) (ok : ∀ op ∈ ops, OpOK fifoOps LCache.WF op) (r0 r : Reader LCache)
    (outs : List Out) (h0 : newReader fifoOps cfg f = .ok (r0, .none))
    (hr : run cfg fifoOps f r0 ops = .ok (r, outs)) :
    ∀ c ∈ r.cache.toList ++ r.parked, ∀ e ∈ c.items,
      e.id < r.fresh ∧ Good f e.key (r.heap e.id) ∧ (r.cur = some e.id → r.lent = some e.id) := by
  have inv := fifo_inv cfg hcfg hlg f hf ops ok r0 r outs h0 hr
  intro c hc e he
  obtain ⟨a1, a2⟩ := inv.ents c hc e he
  exact ⟨a1, a2, fun hcur => (inv.loan e.id hcur ⟨c, hc, e, he, rfl⟩).1⟩

/-- **fifo_repaired_transparent**: with FIFO caches of any capacity ≥ 1 attached, replaced, detached and re-attached
at arbitrary points, every call of the cached reader returns the same bytes, error class (nil / io.EOF / other) and
LastChunk as the uncached reader on the same history — for every file with positive member sizes, every history,
every code variant with `noStale` and repair C03-5 (`Cfg.repaired` in particular) -/
theorem fifo_repaired_transparent (cfg : Cfg) (hcfg : cfg.noStale) (hlg : cfg.lentGuard = true) (f : File)
    (hf : FileOK f) (ops : List (Op LCache)) (ok : ∀ op ∈ ops, OpOK fifoOps LCache.WF op) (outs : List Out)
    (hr : outputs cfg fifoOps f ops = .ok outs) :
    outputs cfg fifoOps f (ops.map Op.uncached) = .ok outs := by
  unfold outputs at hr ⊢
  cases h0 : newReader fifoOps cfg f with
  | error e => rw [h0] at hr; cases hr
  | ok v =>
    obtain ⟨r0, e⟩ := v
    rw [h0] at hr
    simp only at hr ⊢
    by_cases he : e = .none
    · subst he
      simp only [ne_eq, not_true_eq_false, if_false] at hr ⊢
      have s0 := Hts.Model.CachedReaderFifo.newReader_S hcfg h0
      have h := Hts.Model.CachedReaderFifo.run_sim hcfg hlg hf ops ok s0
      rcases h.cases with e1 | ⟨a, b, e1, e2, r1⟩ | ⟨e', e1, _⟩
      · exact e1.elim
      · rw [e1] at hr
        rw [e2]
        obtain ⟨C1, o1⟩ := a
        obtain ⟨U1, o2⟩ := b
        simp only [Except.ok.injEq] at hr ⊢
        rw [← hr]
        exact r1.1.symm
      · rw [e1] at hr; cases hr
    · simp only [ne_eq, he, not_false_eq_true, if_true] at hr ⊢
      exact hr

/-- … and a FIFO-cached run stops abnormally only when the uncached run of the same history stops in the same way
(no `badHint` alternative: FIFO's `Put` ignores the recorded victim and never fails) -/
theorem fifo_repaired_faults_only_as_uncached (cfg : Cfg) (hcfg : cfg.noStale) (hlg : cfg.lentGuard = true)
    (f : File) (hf : FileOK f) (ops : List (Op LCache)) (ok : ∀ op ∈ ops, OpOK fifoOps LCache.WF op) (e : Fault)
    (hr : outputs cfg fifoOps f ops = .error e) :
    outputs cfg fifoOps f (ops.map Op.uncached) = .error e := by
  unfold outputs at hr ⊢
  cases h0 : newReader fifoOps cfg f with
  | error e' => rw [h0] at hr; simp only at hr ⊢; exact hr
  | ok v =>
    obtain ⟨r0, e0⟩ := v
    rw [h0] at hr
    simp only at hr ⊢
    by_cases he : e0 = .none
    · subst he
      simp only [ne_eq, not_true_eq_false, if_false] at hr ⊢
      have s0 := Hts.Model.CachedReaderFifo.newReader_S hcfg h0
      have h := Hts.Model.CachedReaderFifo.run_sim hcfg hlg hf ops ok s0
      rcases h.cases with e1 | ⟨a, b, e1, e2, r1⟩ | ⟨e', e1, e2⟩
      · exact e1.elim
      · rw [e1] at hr; cases hr
      · rw [e1] at hr
        rw [e2]
        simp only [Except.error.injEq] at hr ⊢
        exact hr
    · simp only [ne_eq, he, not_false_eq_true, if_true] at hr
      cases hr

/-- the statement left open so far holds -/
theorem fifo_transparent_repaired_full_holds : fifo_transparent_repaired_full :=
  fun f hf ops ok outs hr => fifo_repaired_transparent Cfg.repaired current_tree_noStale rfl f hf ops ok outs hr

/-- the variant without repair C03-5 is excluded for a reason: there the statement is false
(`fifo_reattach_witness` is the history) -/
theorem fifo_needs_lentGuard :
    ¬ (∀ (f : File), FileOK f → ∀ (ops : List (Op LCache)), (∀ op ∈ ops, OpOK fifoOps LCache.WF op) →
      ∀ outs, outputs ⟨true, true, true, false⟩ fifoOps f ops = .ok outs →
        outputs ⟨true, true, true, false⟩ fifoOps f (ops.map Op.uncached) = .ok outs) := by
  intro h
  have hok : ∀ op ∈ reattachHist, OpOK fifoOps LCache.WF op := by
    intro op hop
    simp only [reattachHist, List.mem_cons, List.mem_nil_iff, or_false] at hop
    rcases hop with h1 | h1 | h1 | h1 | h1 | h1 | h1 | h1 <;> subst h1 <;>
      first | exact fifo_setCache_ok 4 (by decide) [] | trivial
  cases hc : outputs ⟨true, true, true, false⟩ fifoOps file3 reattachHist with
  | error e =>
    have := fifo_reattach_witness
    rw [hc] at this
    simp [bytesOf] at this
  | ok outs =>
    have h2 := h file3 file3_ok reattachHist hok outs hc
    have h3 : bytesOf (outputs ⟨true, true, true, false⟩ fifoOps file3 reattachHist) ≠
        bytesOf (outputs ⟨true, true, true, false⟩ fifoOps file3 (reattachHist.map Op.uncached)) := by decide
    apply h3
    rw [hc, h2]

/-- non-vacuity: the hypotheses of `fifo_repaired_transparent` hold for the two FIFO witness histories (a `Get` that
leaves the used block indexed; `SetCache(nil)`, a decompressing Seek, re-attachment), the cached runs are `ok` with 10
and 8 answers -/
example : (∀ op ∈ fifoOpsHist, OpOK fifoOps LCache.WF op) ∧ (∀ op ∈ reattachHist, OpOK fifoOps LCache.WF op) ∧
    (bytesOf (outputs Cfg.repaired fifoOps file3 fifoOpsHist)).length = 10 ∧
    (bytesOf (outputs Cfg.repaired fifoOps file3 reattachHist)).length = 8 := by
  refine ⟨?_, ?_, by decide, by decide⟩
  · intro op hop
    simp only [fifoOpsHist, List.mem_cons, List.mem_nil_iff, or_false] at hop
    rcases hop with h1 | h1 | h1 | h1 | h1 | h1 | h1 | h1 | h1 | h1 <;> subst h1 <;>
      first | exact fifo_setCache_ok 2 (by decide) [] | trivial
  · intro op hop
    simp only [reattachHist, List.mem_cons, List.mem_nil_iff, or_false] at hop
    rcases hop with h1 | h1 | h1 | h1 | h1 | h1 | h1 | h1 <;> subst h1 <;>
      first | exact fifo_setCache_ok 4 (by decide) [] | trivial

/-- non-vacuity of the interesting part of `FInv`: after `SetCache(FIFO(4)); Read 8; Seek b0` the current block (id 0)
IS an entry of the FIFO's table (key 0), it is the block on loan and it has been read from — the state `cache_inv`
excludes and `FInv.loan` describes; after `SetCache(nil)` the detached FIFO still references it -/
example : (match newReader fifoOps Cfg.repaired file3 with
    | .ok (r, _) => (match run Cfg.repaired fifoOps file3 r (reattachHist.take 4) with
        | .ok (r', _) => (r'.cur, r'.lent, r'.cache.map (·.items), r'.parked.map (·.items),
            r'.cur.map (fun i => (r'.heap i).used))
        | .error _ => (none, none, none, [], none))
    | .error _ => (none, none, none, [], none)) =
    (some 0, some 0, none, [[⟨35, 1⟩, ⟨0, 0⟩]], some true) := by decide

end Fifo

/-! ### StatsRecorder around ANY cache (extension round 5)

`StatsRecorder{Cache: c}` forwards `Get`/`Put`/`Peek` to `c` and updates five counters that no result depends on
(bgzf/cache/cache.go: `StatsRecorder.Get/Put`; `Peek`, `Len`, `Cap`, `Resize`, `Drop` are the embedded cache's own).  So the
reader behaves with `StatsRecorder(c)` exactly as with `c` — no contract, no invariant, no hypothesis on `c`, the code
variant or the file is needed: `Hts.Lemmas.CacheHom` (`Hom`, `run_hom`) shows that every function of the reader model
commutes with forgetting the counters. -/

section Stats

/-- forget the counters of every `StatsRecorder` in a history -/
abbrev unwrapOps {σ : Type} (ops : List (Op (σ × Stats))) : List (Op σ) := ops.map (Op.mapC Prod.fst)

/-- generic form: a cache kind that is another kind plus bookkeeping gives the same outputs and the same faults -/
theorem hom_same_behaviour {σ τ : Type} (o' : CacheOps τ) (o : CacheOps σ) (π : τ → σ) (H : Hom o' o π) (cfg : Cfg)
    (f : File) (ops : List (Op τ)) :
    outputs cfg o' f ops = outputs cfg o f (ops.map (Op.mapC π)) := by
  unfold outputs
  rw [newReader_hom H (o := o) cfg f]
  cases newReader o' cfg f with
  | error e => rfl
  | ok v =>
    obtain ⟨r0, e⟩ := v
    simp only [mapR_ok]
    by_cases he : e = .none
    · simp only [he, ne_eq, not_true_eq_false, if_false]
      rw [run_hom H cfg f ops r0]
      cases run cfg o' f r0 ops with
      | error e => rfl
      | ok w => obtain ⟨r1, outs⟩ := w; rfl
    · simp only [ne_eq, he, not_false_eq_true, if_true]

/-- **stats_recorder_same_behaviour**: for EVERY cache kind `o` (LRU, FIFO, Random, a sum of kinds, another
StatsRecorder …), every code variant, every file and every history, the reader with `StatsRecorder(c)` objects returns
exactly what the reader with the bare `c` objects returns on the same history (same bytes, error classes, LastChunks;
same fault if a call does not return) -/
theorem stats_recorder_same_behaviour {σ : Type} (o : CacheOps σ) (cfg : Cfg) (f : File)
    (ops : List (Op (σ × Stats))) :
    outputs cfg (recorderOps o) f ops = outputs cfg o f (unwrapOps ops) :=
  hom_same_behaviour (recorderOps o) o Prod.fst (recorder_hom o) cfg f ops

/-- … hence transparency of a cache kind (in the form of `cached_refines_uncached` / `fifo_repaired_transparent`, for
whatever condition `ok` on histories it has been proved) carries over to its StatsRecorder -/
theorem stats_recorder_preserves_transparency {σ : Type} (o : CacheOps σ) (cfg : Cfg) (f : File)
    (ops : List (Op (σ × Stats)))
    (inner : ∀ outs, outputs cfg o f (unwrapOps ops) = .ok outs →
      outputs cfg o f ((unwrapOps ops).map Op.uncached) = .ok outs)
    (outs : List Out) (hr : outputs cfg (recorderOps o) f ops = .ok outs) :
    outputs cfg (recorderOps o) f (ops.map Op.uncached) = .ok outs := by
  rw [stats_recorder_same_behaviour] at hr ⊢
  unfold unwrapOps
  rw [uncached_mapC]
  exact inner outs hr

theorem opOK_unwrap {σ : Type} (o : CacheOps σ) (wf : σ → Prop) (ops : List (Op (σ × Stats)))
    (ok : ∀ op ∈ ops, OpOK (recorderOps o) (fun s => wf s.1) op) : ∀ op ∈ unwrapOps ops, OpOK o wf op := by
  intro op hop
  obtain ⟨op0, h1, h2⟩ := List.mem_map.1 hop
  subst h2
  have := ok op0 h1
  cases op0 with
  | setCache c h => cases c with
    | none => trivial
    | some c => exact this
  | _ => trivial

/-- **stats_fifo_repaired_transparent**: `StatsRecorder(FIFO)` caches of any capacity ≥ 1, attached, replaced, detached
and re-attached at arbitrary points: every call returns what the uncached reader returns (code variants as in
`fifo_repaired_transparent`) -/
theorem stats_fifo_repaired_transparent (cfg : Cfg) (hcfg : cfg.noStale) (hlg : cfg.lentGuard = true) (f : File)
    (hf : FileOK f) (ops : List (Op (LCache × Stats)))
    (ok : ∀ op ∈ ops, OpOK (recorderOps fifoOps) (fun s => LCache.WF s.1) op) (outs : List Out)
    (hr : outputs cfg (recorderOps fifoOps) f ops = .ok outs) :
    outputs cfg (recorderOps fifoOps) f (ops.map Op.uncached) = .ok outs :=
  stats_recorder_preserves_transparency fifoOps cfg f ops
    (fun outs' h => fifo_repaired_transparent cfg hcfg hlg f hf _ (opOK_unwrap fifoOps LCache.WF ops ok) outs' h)
    outs hr

/-- … and a `StatsRecorder(FIFO)` run stops abnormally only when the uncached run stops in the same way -/
theorem stats_fifo_repaired_faults_only_as_uncached (cfg : Cfg) (hcfg : cfg.noStale) (hlg : cfg.lentGuard = true)
    (f : File) (hf : FileOK f) (ops : List (Op (LCache × Stats)))
    (ok : ∀ op ∈ ops, OpOK (recorderOps fifoOps) (fun s => LCache.WF s.1) op) (e : Fault)
    (hr : outputs cfg (recorderOps fifoOps) f ops = .error e) :
    outputs cfg (recorderOps fifoOps) f (ops.map Op.uncached) = .error e := by
  rw [stats_recorder_same_behaviour] at hr ⊢
  unfold unwrapOps
  rw [uncached_mapC]
  exact fifo_repaired_faults_only_as_uncached cfg hcfg hlg f hf _ (opOK_unwrap fifoOps LCache.WF ops ok) e hr

theorem stats_fifo_setCache_ok (n : Int) (hn : 1 ≤ n) (hints : List Int) :
    OpOK (recorderOps fifoOps) (fun s => LCache.WF s.1) (.setCache (some (LCache.new n, {})) hints) :=
  ⟨LCache.wf_new hn, rfl⟩

/-- `recorder_transparent` (StatsRecorder over a contract cache, by the contract) is also an instance of the general
lemma: here it is re-derived for LRU without `recorder_contract` -/
theorem stats_lru_transparent (cfg : Cfg) (hcfg : cfg.noStale) (f : File) (hf : FileOK f)
    (ops : List (Op (LCache × Stats))) (ok : ∀ op ∈ ops, OpOK (recorderOps lruOps) (fun s => LCache.WF s.1) op)
    (outs : List Out) (hr : outputs cfg (recorderOps lruOps) f ops = .ok outs) :
    outputs cfg (recorderOps lruOps) f (ops.map Op.uncached) = .ok outs :=
  stats_recorder_preserves_transparency lruOps cfg f ops
    (fun outs' h => lru_transparent cfg hcfg f hf _ (opOK_unwrap lruOps LCache.WF ops ok) outs' h) outs hr

theorem stats_random_transparent (cfg : Cfg) (hcfg : cfg.noStale) (f : File) (hf : FileOK f)
    (ops : List (Op (RCache × Stats))) (ok : ∀ op ∈ ops, OpOK (recorderOps randomOps) (fun s => RCache.WF s.1) op)
    (outs : List Out) (hr : outputs cfg (recorderOps randomOps) f ops = .ok outs) :
    outputs cfg (recorderOps randomOps) f (ops.map Op.uncached) = .ok outs :=
  stats_recorder_preserves_transparency randomOps cfg f ops
    (fun outs' h => random_transparent cfg hcfg f hf _ (opOK_unwrap randomOps RCache.WF ops ok) outs' h) outs hr

/-- the re-attachment history of `fifo_reattach_witness` with a StatsRecorder around the FIFO -/
def statsReattachHist : List (Op (LCache × Stats)) :=
  [.setCache (some (LCache.new 4, {})) [], .read 8, .seek 0 0, .setCache none [], .seek 70 0, .reattach 0 [],
    .seek 0 0, .read 2]

/-- non-vacuity: the hypotheses of `stats_fifo_repaired_transparent` hold for it, forgetting the counters gives
`reattachHist`, the run is `ok` with 8 answers equal to the uncached ones, and the counters really moved (the detached
recorder saw 2 Gets, 1 miss, 2 Puts, both retained, before it was parked) -/
example : (∀ op ∈ statsReattachHist, OpOK (recorderOps fifoOps) (fun s => LCache.WF s.1) op) ∧
    unwrapOps statsReattachHist = reattachHist ∧
    (bytesOf (outputs Cfg.repaired (recorderOps fifoOps) file3 statsReattachHist)).length = 8 ∧
    bytesOf (outputs Cfg.repaired (recorderOps fifoOps) file3 statsReattachHist) =
      bytesOf (outputs Cfg.repaired (recorderOps fifoOps) file3 (statsReattachHist.map Op.uncached)) := by
  refine ⟨?_, rfl, by decide, by decide⟩
  intro op hop
  simp only [statsReattachHist, List.mem_cons, List.mem_nil_iff, or_false] at hop
  rcases hop with h1 | h1 | h1 | h1 | h1 | h1 | h1 | h1 <;> subst h1 <;>
    first | exact stats_fifo_setCache_ok 4 (by decide) [] | trivial

example : (match newReader (recorderOps fifoOps) Cfg.repaired file3 with
    | .ok (r, _) => (match run Cfg.repaired (recorderOps fifoOps) file3 r (statsReattachHist.take 4) with
        | .ok (r', _) => r'.parked.map (fun s => (s.2.gets, s.2.misses, s.2.puts, s.2.retains))
        | .error _ => [])
    | .error _ => []) = [(2, 1, 2, 2)] := by decide

end Stats

/-! ### histories that mix kinds of cache objects, FIFO included (extension round 5)

`AllCache` = a cache object of any provided kind: FIFO | StatsRecorder(FIFO) | LRU | Random | StatsRecorder(LRU) |
StatsRecorder(Random).  The full statement (`all_kinds_transparent_full`: any sequence of SetCache of new objects of any
of these kinds, nil, or objects used earlier) is FALSE on the repaired tree — `all_kinds_transparent_full_false`, history
`crossDefectHist`, reproduced on the Go code (finding C03 round 5): `bg.lent` remembers only the LAST block on loan; a block
that a detached FIFO still indexes can be `Put` into an LRU, come back from the LRU's `Get` as the reader's own while
`bg.lent` points elsewhere, and be recycled.  What is proved: (1) histories that mix bare FIFOs and StatsRecorder(FIFO)s freely (`fifo_family_transparent`); (2) histories
over `AllCache` whose objects all come from the FIFO family or all from the contract family
(`all_kinds_transparent_partial`). -/

section AllKinds

abbrev FifoFamily := LCache ⊕ (LCache × Stats)
def fifoFamilyOps : CacheOps FifoFamily := sumOps fifoOps (recorderOps fifoOps)
def fifoFamilyWF : FifoFamily → Prop := sumWF LCache.WF (fun s => LCache.WF s.1)

theorem fifoFamily_hom : Hom fifoFamilyOps fifoOps (Sum.elim id Prod.fst) :=
  sum_hom (id_hom fifoOps) (recorder_hom fifoOps)

/-- histories that attach, replace, detach and re-attach bare FIFOs and StatsRecorder(FIFO)s in any order -/
theorem fifo_family_transparent (cfg : Cfg) (hcfg : cfg.noStale) (hlg : cfg.lentGuard = true) (f : File)
    (hf : FileOK f) (ops : List (Op FifoFamily)) (ok : ∀ op ∈ ops, OpOK fifoFamilyOps fifoFamilyWF op)
    (outs : List Out) (hr : outputs cfg fifoFamilyOps f ops = .ok outs) :
    outputs cfg fifoFamilyOps f (ops.map Op.uncached) = .ok outs := by
  rw [hom_same_behaviour _ _ _ fifoFamily_hom] at hr ⊢
  rw [uncached_mapC]
  refine fifo_repaired_transparent cfg hcfg hlg f hf _ ?_ outs hr
  intro op hop
  obtain ⟨op0, h1, h2⟩ := List.mem_map.1 hop
  subst h2
  refine opOK_hom fifoFamily_hom ?_ op0 (ok op0 h1)
  intro s hs
  cases s with
  | inl a => exact hs
  | inr b => exact hs

abbrev AllCache := FifoFamily ⊕ AnyCache
def allOps : CacheOps AllCache := sumOps fifoFamilyOps anyOps
def allWF : AllCache → Prop := sumWF fifoFamilyWF anyWF

def allFIFO (n : Int) : AllCache := .inl (.inl (LCache.new n))
def allStatsFIFO (n : Int) : AllCache := .inl (.inr (LCache.new n, {}))
def allOther (c : AnyCache) : AllCache := .inr c

theorem all_setCache_ok (n : Int) (hn : 1 ≤ n) (hints : List Int) :
    OpOK allOps allWF (.setCache (some (allFIFO n)) hints) ∧
    OpOK allOps allWF (.setCache (some (allStatsFIFO n)) hints) ∧
    OpOK allOps allWF (.setCache (some (allOther (anyLRU n))) hints) ∧
    OpOK allOps allWF (.setCache (some (allOther (anyRandom n))) hints) ∧
    OpOK allOps allWF (.setCache (some (allOther (anyStatsLRU n))) hints) ∧
    OpOK allOps allWF (.setCache (some (allOther (anyStatsRandom n))) hints) :=
  ⟨⟨LCache.wf_new hn, rfl⟩, ⟨LCache.wf_new hn, rfl⟩, ⟨LCache.wf_new hn, rfl⟩, ⟨RCache.wf_new hn, rfl⟩,
    ⟨LCache.wf_new hn, rfl⟩, ⟨RCache.wf_new hn, rfl⟩⟩

/-- THE FULL STATEMENT (FALSE, see `all_kinds_transparent_full_false`): SetCache may install a new object of any kind, nil, or any object used earlier -/
def all_kinds_transparent_full : Prop :=
  ∀ (f : File), FileOK f → ∀ (ops : List (Op AllCache)), (∀ op ∈ ops, OpOK allOps allWF op) →
    ∀ outs, outputs Cfg.repaired allOps f ops = .ok outs →
      outputs Cfg.repaired allOps f (ops.map Op.uncached) = .ok outs

/-- all objects of the history are of the FIFO family, or all are of the contract family -/
def OneFamily (ops : List (Op AllCache)) : Prop :=
  (∀ c h, Op.setCache (some c) h ∈ ops → ∃ a, c = Sum.inl a) ∨
  (∀ c h, Op.setCache (some c) h ∈ ops → ∃ b, c = Sum.inr b)

/-- the part of the full statement that is proved: histories over `AllCache` that stay within one family (within the
family every mixture, every re-attachment) -/
theorem all_kinds_transparent_partial (cfg : Cfg) (hcfg : cfg.noStale) (hlg : cfg.lentGuard = true) (f : File)
    (hf : FileOK f) (ops : List (Op AllCache)) (ok : ∀ op ∈ ops, OpOK allOps allWF op) (one : OneFamily ops)
    (outs : List Out) (hr : outputs cfg allOps f ops = .ok outs) :
    outputs cfg allOps f (ops.map Op.uncached) = .ok outs := by
  rcases one with hl | hrr
  · have e := left_inl ops hl
    have ok1 : ∀ op ∈ ops.map Op.left, OpOK fifoFamilyOps fifoFamilyWF op := by
      intro op hop
      obtain ⟨op0, h1, h2⟩ := List.mem_map.1 hop
      subst h2
      have := ok op0 h1
      cases op0 with
      | setCache c h =>
        cases c with
        | none => trivial
        | some c =>
          obtain ⟨a, rfl⟩ := hl c h h1
          exact this
      | _ => trivial
    rw [← e] at hr ⊢
    have Hl : Hom fifoFamilyOps allOps Sum.inl := inl_hom fifoFamilyOps anyOps
    rw [← hom_same_behaviour _ _ _ Hl] at hr
    rw [← uncached_mapC, ← hom_same_behaviour _ _ _ Hl]
    exact fifo_family_transparent cfg hcfg hlg f hf _ ok1 outs hr
  · have e := right_inr ops hrr
    have ok1 : ∀ op ∈ ops.map Op.right, OpOK anyOps anyWF op := by
      intro op hop
      obtain ⟨op0, h1, h2⟩ := List.mem_map.1 hop
      subst h2
      have := ok op0 h1
      cases op0 with
      | setCache c h =>
        cases c with
        | none => trivial
        | some c =>
          obtain ⟨a, rfl⟩ := hrr c h h1
          exact this
      | _ => trivial
    rw [← e] at hr ⊢
    have Hr : Hom anyOps allOps Sum.inr := inr_hom fifoFamilyOps anyOps
    rw [← hom_same_behaviour _ _ _ Hr] at hr
    rw [← uncached_mapC, ← hom_same_behaviour _ _ _ Hr]
    exact mixed_kinds_transparent cfg hcfg f hf _ ok1 outs hr

/-- FIFO(2) → StatsRecorder(FIFO(1)) → nil → the first FIFO again → the StatsRecorder again -/
def familyHist : List (Op AllCache) :=
  [.setCache (some (allFIFO 2)) [], .read 8, .seek 0 0, .setCache (some (allStatsFIFO 1)) [], .seek 70 0, .read 2,
   .seek 35 1, .setCache none [], .seek 0 2, .reattach 0 [], .seek 70 0, .seek 0 0, .read 6, .reattach 0 [],
   .seek 35 0, .read 3]

/-- non-vacuity of `all_kinds_transparent_partial`: hypotheses hold, the run is `ok` (16 answers), cached = uncached -/
example : (∀ op ∈ familyHist, OpOK allOps allWF op) ∧ OneFamily familyHist ∧
    (bytesOf (outputs Cfg.repaired allOps file3 familyHist)).length = 16 ∧
    bytesOf (outputs Cfg.repaired allOps file3 (familyHist.map Op.uncached)) =
      bytesOf (outputs Cfg.repaired allOps file3 familyHist) := by
  refine ⟨?_, Or.inl ?_, by decide, by decide⟩
  · intro op hop
    simp only [familyHist, List.mem_cons, List.mem_nil_iff, or_false] at hop
    rcases hop with h1 | h1 | h1 | h1 | h1 | h1 | h1 | h1 | h1 | h1 | h1 | h1 | h1 | h1 | h1 | h1 <;> subst h1 <;>
      first | exact (all_setCache_ok 2 (by decide) []).1 | exact (all_setCache_ok 1 (by decide) []).2.1 | trivial
  · intro c h hop
    simp only [familyHist, List.mem_cons, List.mem_nil_iff, or_false] at hop
    rcases hop with h1 | h1 | h1 | h1 | h1 | h1 | h1 | h1 | h1 | h1 | h1 | h1 | h1 | h1 | h1 | h1 <;> cases h1 <;>
      exact ⟨_, rfl⟩

/-- a history OUTSIDE the proved part (FIFO, then LRU, then the FIFO again, with the loaned block in play): evaluated
only — cached = uncached on the model, as the harness observes on the code -/
def crossHist : List (Op AllCache) :=
  [.setCache (some (allFIFO 4)) [], .read 8, .seek 0 0, .setCache (some (allOther (anyLRU 1))) [], .seek 70 0, .read 2,
   .seek 35 0, .reattach 0 [], .seek 0 0, .read 2, .reattach 0 [], .seek 70 0, .read 4]

example : (∀ op ∈ crossHist, OpOK allOps allWF op) ∧ ¬ OneFamily crossHist ∧
    bytesOf (outputs Cfg.repaired allOps file3 (crossHist.map Op.uncached)) =
      bytesOf (outputs Cfg.repaired allOps file3 crossHist) := by
  refine ⟨?_, ?_, by decide⟩
  · intro op hop
    simp only [crossHist, List.mem_cons, List.mem_nil_iff, or_false] at hop
    rcases hop with h1 | h1 | h1 | h1 | h1 | h1 | h1 | h1 | h1 | h1 | h1 | h1 | h1 <;> subst h1 <;>
      first | exact (all_setCache_ok 4 (by decide) []).1 | exact (all_setCache_ok 1 (by decide) []).2.2.1 | trivial
  · intro h
    rcases h with h | h
    · obtain ⟨a, ha⟩ := h (allOther (anyLRU 1)) [] (by simp [crossHist])
      cases ha
    · obtain ⟨a, ha⟩ := h (allFIFO 4) [] (by simp [crossHist])
      cases ha

/-- FIFO F(4); Read 8; Seek b0 (hit: block X of member 0 stays in F, `lent = X`); SetCache(LRU L(1)); Seek b2 (X is Put into
L: now F and L index X); Read 1; SetCache(F); Seek b1 (hit, `lent` = the block of member 1); SetCache(L); Seek b0 (L's Get
hands X over and forgets it, `lent` is not X, F — detached — still indexes X); SetCache(nil); Seek b2 (X is recycled for
"CCCC"); SetCache(F); Seek b0 (F returns X); Read 2. -/
def crossDefectHist : List (Op AllCache) :=
  [.setCache (some (allFIFO 4)) [], .read 8, .seek 0 0, .setCache (some (allOther (anyLRU 1))) [], .seek 70 0, .read 1,
   .reattach 0 [], .seek 35 0, .reattach 0 [], .seek 0 0, .setCache none [], .seek 70 0, .reattach 0 [], .seek 0 0,
   .read 2]

/-- **finding (round 5)**: on the repaired tree the last Read of `crossDefectHist` returns "CC"; uncached: "AA" -/
theorem cross_kind_witness :
    (bytesOf (outputs Cfg.repaired allOps file3 crossDefectHist)).getLast? = some ([67, 67], .ok) ∧
    (bytesOf (outputs Cfg.repaired allOps file3 (crossDefectHist.map Op.uncached))).getLast? = some ([65, 65], .ok) := by
  decide

theorem crossDefectHist_ok : ∀ op ∈ crossDefectHist, OpOK allOps allWF op := by
  intro op hop
  simp only [crossDefectHist, List.mem_cons, List.mem_nil_iff, or_false] at hop
  rcases hop with h1 | h1 | h1 | h1 | h1 | h1 | h1 | h1 | h1 | h1 | h1 | h1 | h1 | h1 | h1 <;> subst h1 <;>
    first | exact (all_setCache_ok 4 (by decide) []).1 | exact (all_setCache_ok 1 (by decide) []).2.2.1 | trivial

/-- the full statement over all kinds is false for the repaired tree: mixing FIFO and LRU objects is NOT transparent -/
theorem all_kinds_transparent_full_false : ¬ all_kinds_transparent_full := by
  intro h
  cases hc : outputs Cfg.repaired allOps file3 crossDefectHist with
  | error e =>
    have := cross_kind_witness.1
    rw [hc] at this
    simp [bytesOf] at this
  | ok outs =>
    have h2 := h file3 file3_ok crossDefectHist crossDefectHist_ok outs hc
    have h3 := cross_kind_witness
    rw [h2] at h3
    rw [hc] at h3
    rw [h3.1] at h3
    exact absurd h3.2 (by decide)

end AllKinds

/-! ### read-ahead with a cache (rd > 1): the recorded finding, pinned on an abstract transition system

No refinement theorem is claimed for `rd > 1` with a cache: the worker goroutine skips members the cache holds at the
moment it `Peek`s, and nothing keeps them there until the consumer `Get`s them (DESIGN §6 #28).  The two reachable
bad states of the abstraction in Hts.Lemmas.CacheReadAhead: -/

/-- consumer discards cap(working) delivered members that are not the one it wants → `panic("bgzf: unexpected block")` -/
theorem readahead_with_cache_unexpected_block_witness :
    (Hts.Model.ReadAheadCache.run Hts.Model.ReadAheadCache.start
      (Hts.Model.ReadAheadCache.schedule ++ [.consumerTake])).map (·.cpc) = some .panicked :=
  Hts.Model.ReadAheadCache.unexpected_block_witness

/-- consumer waiting on `working`, worker parked on `control`, no step enabled -/
theorem readahead_with_cache_deadlock_witness :
    ((Hts.Model.ReadAheadCache.run { Hts.Model.ReadAheadCache.start with rd := 3, decs := 2 }
        Hts.Model.ReadAheadCache.schedule).map
      (fun s => (s.cpc, s.wnext, s.working, Hts.Model.ReadAheadCache.stuck s))) =
      some (.scanning 2 2, none, [], true) :=
  Hts.Model.ReadAheadCache.deadlock_witness

/-! ### what the uncached baseline is

The right-hand side of every refinement above is this model run with `cache = none`.  It is a different (heap-based)
model from the one C02 proves to refine the flat-file specification (`Hts.Model.Bgzf.Reader`).  No general theorem
relates the two; their agreement is pinned by kernel evaluation on every history of length ≤ 3 over 12 / 11 calls on
two files, and otherwise rests on both being compared with the Go reader by their harnesses. -/

/-- BOUNDED: on `fileA` (three data members, no EOF marker) and `fileB` (data, empty member, data, EOF marker) the
uncached run of this model and C02's reader model return the same bytes, error class and `LastChunk` for every
history of at most 3 calls out of Read(1/4/7), ReadByte, Seek(member starts, inside a member, end of file, a
non-member offset), Blocked on/off (1728 + 1331 histories), and neither model faults -/
theorem uncached_baseline_agrees_with_c02_model_bounded :
    Hts.Model.CachedReader.VsC02.agreeOver Hts.Model.CachedReader.VsC02.alphabet
      Hts.Model.CachedReader.VsC02.fileA 3 = true ∧
    Hts.Model.CachedReader.VsC02.agreeOver Hts.Model.CachedReader.VsC02.alphabetB
      Hts.Model.CachedReader.VsC02.fileB 3 = true :=
  ⟨Hts.Model.CachedReader.VsC02.agree_fileA, Hts.Model.CachedReader.VsC02.agree_fileB⟩

/-! ### the uncached baseline IS C02's reader, and the cached reader refines the flat-file specification

General (unbounded) version of the bounded agreement above.  `ofB F` is the C03 file (members with absolute offsets)
of a C02 file `F` (members in order); `flatOp` maps a call to the flat specification's operation (cache calls map to
nothing), `Plain` says a call attaches no cache and seeks to a non-negative offset; `simOuts r0 ops` are the outputs
of C02's reader model and `flatOuts (flatOf F) init ops` the outputs `Hts.Spec.Flat` prescribes, both in this
model's vocabulary (bytes as numbers, error class, LastChunk; `ReadByte` returns no byte together with an error).
Hypotheses as in C02: well-formed file (`WF`: positive member sizes, < 2^16 bytes per member), non-empty (the
constructor succeeds), every Seek goes to a member start plus an offset within that member (`ValidOps`).
Code variants: every `Cfg` with `failReset` (repair C09-2; `Cfg.repaired` is one). -/

section Flat
open Hts.Model.CachedReader.C02

/-- **Simulation.**  For every well-formed file and every valid history without cache calls, this model run with no
cache attached returns exactly the bytes, error class and `LastChunk` of C02's reader model `Hts.Model.Bgzf.Reader`
(any number of calls; the two models' different loop bounds are related inside the proof). -/
theorem uncached_baseline_is_c02_reader (cfg : Cfg) (hcfg : cfg.failReset = true) (o : CacheOps σ)
    (F : Hts.Model.Bgzf.File) (hwf : Hts.Model.Bgzf.WF F) (r0 : Hts.Model.Bgzf.Reader)
    (h0 : Hts.Model.Bgzf.Reader.new F = .ok r0) (ops : List (Op σ)) (hp : ∀ op ∈ ops, Plain op)
    (hv : Hts.Spec.Flat.ValidOps (Hts.Model.Bgzf.layoutOf F) (ops.filterMap flatOp)) :
    outputs cfg o (ofB F) ops = .ok (simOuts r0 ops) := by
  obtain ⟨C0, n1, n2⟩ := newReader_sim (cfg := cfg) o hwf h0
  obtain ⟨C', hrun⟩ := run_sim hcfg o hwf ops C0 r0 _ n2 (Hts.Model.Bgzf.sim_new h0) hp hv
  simp only [outputs, n1, hrun]
  simp

/-- … hence the uncached baseline returns what the flat-file specification prescribes -/
theorem uncached_baseline_refines_flat (cfg : Cfg) (hcfg : cfg.failReset = true) (o : CacheOps σ)
    (F : Hts.Model.Bgzf.File) (hwf : Hts.Model.Bgzf.WF F) (r0 : Hts.Model.Bgzf.Reader)
    (h0 : Hts.Model.Bgzf.Reader.new F = .ok r0) (ops : List (Op σ)) (hp : ∀ op ∈ ops, Plain op)
    (hv : Hts.Spec.Flat.ValidOps (Hts.Model.Bgzf.layoutOf F) (ops.filterMap flatOp)) :
    outputs cfg o (ofB F) ops = .ok (flatOuts (Hts.Model.Bgzf.flatOf F) Hts.Spec.Flat.init ops) := by
  rw [uncached_baseline_is_c02_reader cfg hcfg o F hwf r0 h0 ops hp hv,
    simOuts_eq_flatOuts hwf ops r0 _ (Hts.Model.Bgzf.sim_new h0) hv]

/-- **The cached reader refines the flat-file specification.**  For every cache satisfying the contract (LRU, Random,
StatsRecorder, mixtures — see above), attached, detached and re-attached at arbitrary points, every well-formed file and
every valid history: whatever the CACHED reader returns is what `Hts.Spec.Flat` prescribes for the history with the
cache calls removed — the bytes of the flat copy at the logical position, `io.EOF` exactly at the end of the data,
`LastChunk` = the virtual offsets around the bytes.  (Composition of `cached_refines_uncached`, the simulation above
and C02's `read_refines_flat`/`sim_step`.) -/
theorem cached_refines_flat (o : CacheOps σ) (wf : σ → Prop) (ct : Contract o wf) (cfg : Cfg)
    (hcfg : cfg.failReset = true) (F : Hts.Model.Bgzf.File) (hwf : Hts.Model.Bgzf.WF F)
    (r0 : Hts.Model.Bgzf.Reader) (h0 : Hts.Model.Bgzf.Reader.new F = .ok r0) (ops : List (Op σ))
    (ok : ∀ op ∈ ops, OpOK o wf op) (hseek : ∀ f b, Op.seek f b ∈ ops → 0 ≤ f)
    (hv : Hts.Spec.Flat.ValidOps (Hts.Model.Bgzf.layoutOf F) (ops.filterMap flatOp)) (outs : List Out)
    (hr : outputs cfg o (ofB F) ops = .ok outs) :
    outs = flatOuts (Hts.Model.Bgzf.flatOf F) Hts.Spec.Flat.init ops := by
  have hu := cached_refines_uncached o wf ct cfg (Or.inr hcfg) (ofB F) (fileOK_ofB hwf 0) ops ok outs hr
  have hp : ∀ op ∈ ops.map Op.uncached, Plain op := by
    intro op hop
    obtain ⟨op0, h1, h2⟩ := List.mem_map.1 hop
    subst h2
    exact plain_uncached op0 (fun f b e => hseek f b (e ▸ h1))
  have hv' : Hts.Spec.Flat.ValidOps (Hts.Model.Bgzf.layoutOf F) ((ops.map Op.uncached).filterMap flatOp) := by
    rw [filterMap_flatOp_uncached]; exact hv
  have := uncached_baseline_refines_flat cfg hcfg o F hwf r0 h0 (ops.map Op.uncached) hp hv'
  rw [hu, flatOuts_uncached] at this
  exact (Except.ok.inj this)

/-- … and it never panics or hangs: a cached run that does not return normally can only be one whose recorded
Random victim the model rejects (`badHint`, an artefact of replaying recorded choices, not a behaviour of the code) -/
theorem cached_never_faults (o : CacheOps σ) (wf : σ → Prop) (ct : Contract o wf) (cfg : Cfg)
    (hcfg : cfg.failReset = true) (F : Hts.Model.Bgzf.File) (hwf : Hts.Model.Bgzf.WF F)
    (r0 : Hts.Model.Bgzf.Reader) (h0 : Hts.Model.Bgzf.Reader.new F = .ok r0) (ops : List (Op σ))
    (ok : ∀ op ∈ ops, OpOK o wf op) (hseek : ∀ f b, Op.seek f b ∈ ops → 0 ≤ f)
    (hv : Hts.Spec.Flat.ValidOps (Hts.Model.Bgzf.layoutOf F) (ops.filterMap flatOp)) (e : Fault)
    (hr : outputs cfg o (ofB F) ops = .error e) : e = .badHint := by
  rcases cached_faults_only_as_uncached o wf ct cfg (Or.inr hcfg) (ofB F) (fileOK_ofB hwf 0) ops ok e hr with h | h
  · exact h
  · have hp : ∀ op ∈ ops.map Op.uncached, Plain op := by
      intro op hop
      obtain ⟨op0, h1, h2⟩ := List.mem_map.1 hop
      subst h2
      exact plain_uncached op0 (fun f b e => hseek f b (e ▸ h1))
    have hv' : Hts.Spec.Flat.ValidOps (Hts.Model.Bgzf.layoutOf F) ((ops.map Op.uncached).filterMap flatOp) := by
      rw [filterMap_flatOp_uncached]; exact hv
    have := uncached_baseline_refines_flat cfg hcfg o F hwf r0 h0 (ops.map Op.uncached) hp hv'
    rw [h] at this
    cases this

/-- **FIFO refines the flat-file specification** (composition of `fifo_repaired_transparent` with the simulation above):
whatever the reader with FIFO caches returns is what `Hts.Spec.Flat` prescribes for the history without the cache calls -/
theorem fifo_refines_flat (cfg : Cfg) (hcfg : cfg.failReset = true) (hlg : cfg.lentGuard = true)
    (F : Hts.Model.Bgzf.File) (hwf : Hts.Model.Bgzf.WF F)
    (r0 : Hts.Model.Bgzf.Reader) (h0 : Hts.Model.Bgzf.Reader.new F = .ok r0) (ops : List (Op LCache))
    (ok : ∀ op ∈ ops, OpOK fifoOps LCache.WF op) (hseek : ∀ f b, Op.seek f b ∈ ops → 0 ≤ f)
    (hv : Hts.Spec.Flat.ValidOps (Hts.Model.Bgzf.layoutOf F) (ops.filterMap flatOp)) (outs : List Out)
    (hr : outputs cfg fifoOps (ofB F) ops = .ok outs) :
    outs = flatOuts (Hts.Model.Bgzf.flatOf F) Hts.Spec.Flat.init ops := by
  have hu := fifo_repaired_transparent cfg (Or.inr hcfg) hlg (ofB F) (fileOK_ofB hwf 0) ops ok outs hr
  have hp : ∀ op ∈ ops.map Op.uncached, Plain op := by
    intro op hop
    obtain ⟨op0, h1, h2⟩ := List.mem_map.1 hop
    subst h2
    exact plain_uncached op0 (fun f b e => hseek f b (e ▸ h1))
  have hv' : Hts.Spec.Flat.ValidOps (Hts.Model.Bgzf.layoutOf F) ((ops.map Op.uncached).filterMap flatOp) := by
    rw [filterMap_flatOp_uncached]; exact hv
  have := uncached_baseline_refines_flat cfg hcfg fifoOps F hwf r0 h0 (ops.map Op.uncached) hp hv'
  rw [hu, flatOuts_uncached] at this
  exact (Except.ok.inj this)

/-- … and it never panics or hangs on valid histories: every FIFO-cached run returns normally -/
theorem fifo_never_faults (cfg : Cfg) (hcfg : cfg.failReset = true) (hlg : cfg.lentGuard = true)
    (F : Hts.Model.Bgzf.File) (hwf : Hts.Model.Bgzf.WF F)
    (r0 : Hts.Model.Bgzf.Reader) (h0 : Hts.Model.Bgzf.Reader.new F = .ok r0) (ops : List (Op LCache))
    (ok : ∀ op ∈ ops, OpOK fifoOps LCache.WF op) (hseek : ∀ f b, Op.seek f b ∈ ops → 0 ≤ f)
    (hv : Hts.Spec.Flat.ValidOps (Hts.Model.Bgzf.layoutOf F) (ops.filterMap flatOp)) (e : Fault)
    (hr : outputs cfg fifoOps (ofB F) ops = .error e) : False := by
  have h := fifo_repaired_faults_only_as_uncached cfg (Or.inr hcfg) hlg (ofB F) (fileOK_ofB hwf 0) ops ok e hr
  · have hp : ∀ op ∈ ops.map Op.uncached, Plain op := by
      intro op hop
      obtain ⟨op0, h1, h2⟩ := List.mem_map.1 hop
      subst h2
      exact plain_uncached op0 (fun f b e => hseek f b (e ▸ h1))
    have hv' : Hts.Spec.Flat.ValidOps (Hts.Model.Bgzf.layoutOf F) ((ops.map Op.uncached).filterMap flatOp) := by
      rw [filterMap_flatOp_uncached]; exact hv
    have := uncached_baseline_refines_flat cfg hcfg fifoOps F hwf r0 h0 (ops.map Op.uncached) hp hv'
    rw [h] at this
    cases this

/-- `file3` as a C02 file -/
def file3B : Hts.Model.Bgzf.File :=
  [⟨[65, 65, 65, 65, 65, 65], 35⟩, ⟨[66, 66, 66, 66, 66, 66], 35⟩, ⟨[67, 67, 67, 67], 36⟩]

example : ofB file3B = file3 := by decide

/-- `cached_refines_flat` is not vacuous: its hypotheses hold for `file3` and the LRU(1) history `staleOps` (cache
hits and an eviction), the cached run is `ok`, and what the flat specification prescribes is the literal list -/
example : Hts.Model.Bgzf.WF file3B ∧ (∃ r0, Hts.Model.Bgzf.Reader.new file3B = .ok r0) ∧
    (∀ f b, Op.seek f b ∈ staleOps → 0 ≤ f) ∧
    Hts.Spec.Flat.ValidOps (Hts.Model.Bgzf.layoutOf file3B) (staleOps.filterMap flatOp) ∧
    (flatOuts (Hts.Model.Bgzf.flatOf file3B) Hts.Spec.Flat.init staleOps).map (fun o => (o.bytes, o.err)) =
      [([], .ok), ([], .ok), ([], .ok), ([], .eof), ([], .ok), ([], .ok), ([67, 67, 67], .ok), ([67], .eof),
        ([], .eof)] ∧
    bytesOf (outputs Cfg.repaired lruOps (ofB file3B) staleOps) =
      (flatOuts (Hts.Model.Bgzf.flatOf file3B) Hts.Spec.Flat.init staleOps).map (fun o => (o.bytes, o.err)) := by
  refine ⟨?_, ⟨_, rfl⟩, ?_, ?_, by decide, by decide⟩
  · intro m hm
    simp only [file3B, List.mem_cons, List.mem_nil_iff, or_false] at hm
    rcases hm with h | h | h <;> subst h <;> decide
  · intro f b h
    simp only [staleOps, List.mem_cons, List.mem_nil_iff, or_false] at h
    rcases h with h | h | h | h | h | h | h | h | h <;> cases h <;> decide
  · have e : staleOps.filterMap flatOp =
        [.seek ⟨35, 0⟩, .seek ⟨70, 4⟩, .read 1, .seek ⟨0, 0⟩, .seek ⟨70, 0⟩, .read 3, .read 3, .read 3] := rfl
    rw [e]
    simp [Hts.Spec.Flat.ValidOps, Hts.Spec.Flat.seekTarget, Hts.Model.Bgzf.layoutOf, file3B]

end Flat

/-! ### non-vacuity -/

/-- the hypotheses of `lru_transparent` hold for a history with cache hits and an eviction, and the run is `ok` -/
example : ∃ outs, outputs Cfg.repaired lruOps file3 staleOps = .ok outs ∧ outs.length = 9 := by
  cases h : outputs Cfg.repaired lruOps file3 staleOps with
  | error e => have : bytesOf (outputs Cfg.repaired lruOps file3 staleOps) ≠ [] := by decide
               rw [h] at this; exact absurd rfl this
  | ok outs =>
    refine ⟨outs, rfl, ?_⟩
    have : (bytesOf (outputs Cfg.repaired lruOps file3 staleOps)).length = 9 := by decide
    rw [h] at this
    simpa [bytesOf] using this

/-- `random_transparent` is not vacuous: Random(1), victim hint "key 0"; the Put at the second Seek finds the cache
full with the used block of member 0 and evicts it (the hint is consumed), the third Seek is a cache hit.
Hypotheses hold, the run is `ok`, cached = uncached (an instance of the theorem, also checked by evaluation). -/
def randomHist : List (Op RCache) :=
  [.setCache (some (RCache.new 1)) [0], .read 1, .seek 35 0, .read 1, .seek 70 0, .read 4, .seek 35 0, .read 6]

example : (∀ op ∈ randomHist, OpOK randomOps RCache.WF op) ∧
    bytesOf (outputs Cfg.repaired randomOps file3 randomHist) =
      [([], .ok), ([65], .ok), ([], .ok), ([66], .ok), ([], .ok), ([67, 67, 67, 67], .ok), ([], .ok),
        ([66, 66, 66, 66, 66, 66], .ok)] ∧
    bytesOf (outputs Cfg.repaired randomOps file3 (randomHist.map Op.uncached)) =
      bytesOf (outputs Cfg.repaired randomOps file3 randomHist) := by
  refine ⟨?_, by decide, by decide⟩
  intro op hop
  simp only [randomHist, List.mem_cons, List.mem_nil_iff, or_false] at hop
  rcases hop with h1 | h1 | h1 | h1 | h1 | h1 | h1 | h1 <;> subst h1 <;>
    first | exact random_setCache_ok 1 (by decide) [0] | trivial

/-- … the eviction really happened: after the run the hint is used up and the cache holds member 35's block only
after handing it out and getting member 70's back -/
example : (match newReader randomOps Cfg.repaired file3 with
    | .ok (r, _) => (match run Cfg.repaired randomOps file3 r (randomHist.take 5) with
        | .ok (r', _) => (r'.hints, r'.cache.map (fun c => c.items.map (·.key)))
        | .error _ => ([1], none))
    | .error _ => ([2], none)) = ([], some [35]) := by decide

/-- a history that goes LRU → Random (with an eviction) → StatsRecorder(LRU) → nil → the first LRU again;
hypotheses of `mixed_kinds_transparent` hold, run `ok`, cached = uncached -/
def mixedHist : List (Op AnyCache) :=
  [.setCache (some (anyLRU 1)) [], .read 1, .seek 35 0, .read 1,
   .setCache (some (anyRandom 1)) [35], .seek 70 0, .read 4, .seek 0 0, .read 2,
   .setCache (some (anyStatsLRU 2)) [], .seek 35 0, .read 6, .seek 0 3, .read 3,
   .setCache none [], .seek 70 1, .read 3, .reattach 0 [], .seek 0 0, .read 6]

example : (∀ op ∈ mixedHist, OpOK anyOps anyWF op) ∧
    (bytesOf (outputs Cfg.repaired anyOps file3 mixedHist)).length = 20 ∧
    bytesOf (outputs Cfg.repaired anyOps file3 (mixedHist.map Op.uncached)) =
      bytesOf (outputs Cfg.repaired anyOps file3 mixedHist) := by
  refine ⟨?_, by decide, by decide⟩
  intro op hop
  simp only [mixedHist, List.mem_cons, List.mem_nil_iff, or_false] at hop
  rcases hop with h1 | h1 | h1 | h1 | h1 | h1 | h1 | h1 | h1 | h1 | h1 | h1 | h1 | h1 | h1 | h1 | h1 | h1 | h1 | h1 <;>
    subst h1 <;>
    first | exact (any_setCache_ok 1 (by decide) []).1 | exact (any_setCache_ok 1 (by decide) [35]).2.1
          | exact (any_setCache_ok 2 (by decide) []).2.2.1 | trivial

end Hts.Props.C03
