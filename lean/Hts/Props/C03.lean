/-
C03 — property theorems (stub: no theorem stated yet, so no obligation is counted).
-/
namespace Hts.Props.C03
end Hts.Props.C03
