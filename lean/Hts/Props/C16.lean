/-
C16 — Coordinate arithmetic (End, Len, Bin, CIGAR lengths, bin lists) matches the specification.
PROPERTY THEOREMS ONLY.  Every statement is for all positions, all CIGARs (any number of operations,
any lengths), all overlapping interval pairs and all CSI geometries with depth ≤ 10 (deeper schemes
have bin numbers that do not fit the `uint32` the format stores).
-/
import Hts.Lemmas.Coord
import Hts.Lemmas.Cigar
namespace Hts.Props.C16
open Hts.Model.Coord
open Hts.Spec.Coord (refLen queryLen maxReach posAfter)

/-- only the nine standard operations M I D N S H P = X (types 0..8) -/
def Standard (c : List CigarOp) : Prop := ∀ co, co ∈ c → co.typ ≤ 8
/-- the standard operations and the `B` extension (type 9) -/
def StandardB (c : List CigarOp) : Prop := ∀ co, co ∈ c → co.typ ≤ 9

theorem standard_standardB {c} (h : Standard c) : StandardB c := fun co hc => Nat.le_succ_of_le (h co hc)

/-! ### CIGAR lengths -/

/-- `Cigar.Lengths` = (Σ reference-consuming lengths, Σ query-consuming lengths), never a panic -/
theorem lengths_spec (c : List CigarOp) (h : StandardB c) :
    cigarLengths c = some (refLen c, queryLen c) := by
  have := lengthsLoop_spec c 0 0 h
  simpa [cigarLengths] using this

/-! ### End and Len -/

/-- a mapped read with a CIGAR over the standard operations ends at `pos + reference length` -/
theorem end_spec (pos : Int) (c : List CigarOp) (hne : c ≠ []) (h : Standard c) :
    recordEnd false pos c = some (pos + refLen c) := by
  have hb := standard_standardB h
  unfold recordEnd
  have : c.isEmpty = false := by cases c <;> simp_all
  simp only [this, Bool.false_or, Bool.false_eq_true, if_false]
  rw [endLoop_spec c pos pos (Int.le_refl _) hb, maxReach_noB c pos h]
  have hnn : pos ≤ pos + refLen c := by rw [← maxReach_noB c pos h]; exact maxReach_ge c pos
  split <;> congr 1 <;> omega

/-- with the `B` extension: the highest coordinate reached by any prefix of the CIGAR -/
theorem end_spec_B (pos : Int) (c : List CigarOp) (hne : c ≠ []) (h : StandardB c) :
    recordEnd false pos c = some (maxReach pos c) ∧
      (∀ k, posAfter pos (c.take k) ≤ maxReach pos c) ∧ (∃ k, maxReach pos c = posAfter pos (c.take k)) := by
  refine ⟨?_, maxReach_is_max c pos⟩
  unfold recordEnd
  have : c.isEmpty = false := by cases c <;> simp_all
  simp only [this, Bool.false_or, Bool.false_eq_true, if_false]
  rw [endLoop_spec c pos pos (Int.le_refl _) h]
  have := maxReach_ge c pos
  split <;> congr 1 <;> omega

/-- unmapped reads and reads without a CIGAR are one base long (SAM §4.2.1) -/
theorem end_unmapped (pos : Int) (c : List CigarOp) : recordEnd true pos c = some (pos + 1) := by
  simp [recordEnd]

theorem end_no_cigar (u : Bool) (pos : Int) : recordEnd u pos [] = some (pos + 1) := by
  simp [recordEnd]

theorem len_spec (pos : Int) (c : List CigarOp) (hne : c ≠ []) (h : Standard c) :
    recordLen false pos c = some (refLen c) := by
  unfold recordLen
  rw [end_spec pos c hne h]
  simp only [Option.map_some]
  congr 1; omega

/-! ### bins: model = specification on the indexable range -/

theorem binFor_is_spec (beg end_ : Nat) (h1 : beg < end_) (h2 : end_ ≤ 2 ^ 29) :
    binFor beg end_ = Hts.Spec.Coord.reg2bin beg end_ 14 5 := binFor_spec beg end_ h1 h2

theorem overlappingBinsFor_is_spec (beg end_ : Nat) (h1 : beg < end_) (h2 : end_ ≤ 2 ^ 29) :
    overlappingBinsFor beg end_ = Hts.Spec.Coord.reg2bins beg end_ 14 5 :=
  overlappingBinsFor_spec beg end_ h1 h2

/-- the running `uint32` level offset of csi.reg2bin equals (8^level - 1)/7 at every level -/
theorem csi_reg2bin_is_spec (beg end_ ms d : Nat) (hd : d ≤ 10) (h1 : beg < end_)
    (h2 : end_ ≤ 2 ^ (ms + 3 * d)) : reg2bin beg end_ ms d = Hts.Spec.Coord.reg2bin beg end_ ms d :=
  reg2bin_spec beg end_ ms d hd h1 h2

theorem csi_reg2bins_is_spec (beg end_ ms d : Nat) (hd : d ≤ 10) (h1 : beg < end_)
    (h2 : end_ ≤ 2 ^ (ms + 3 * d)) : reg2bins beg end_ ms d = Hts.Spec.Coord.reg2bins beg end_ ms d :=
  reg2bins_spec beg end_ ms d hd h1 h2

/-- the record's bin is the specification's bin of [pos, end) -/
theorem bin_spec (u mu : Bool) (pos : Nat) (c : List CigarOp) (e : Nat)
    (hend : recordEnd u pos c = some (e : Int)) (h1 : pos < e) (h2 : e ≤ 2 ^ 29) :
    recordBin u mu pos c = some (Hts.Spec.Coord.reg2bin pos e 14 5) := by
  unfold recordBin
  rw [hend]
  simp only [Option.map_some]
  rw [binFor_spec pos e h1 h2]

/-! ### the bin of an interval is listed for every overlapping interval -/

/-- for every scheme (specification level) -/
theorem spec_bin_in_bins (beg1 end1 beg2 end2 ms d : Nat) (h1 : beg1 < end1) (h2 : beg2 < end2)
    (hov1 : beg1 < end2) (hov2 : beg2 < end1) (hr : beg2 < 2 ^ (ms + 3 * d)) :
    Hts.Spec.Coord.reg2bin beg1 end1 ms d ∈ Hts.Spec.Coord.reg2bins beg2 end2 ms d :=
  Hts.Spec.Coord.bin_in_bins beg1 end1 beg2 end2 ms d h1 h2 hov1 hov2 hr

/-- BAI: `BinFor` of one interval is in `OverlappingBinsFor` of every overlapping one -/
theorem bai_bin_in_bins (beg1 end1 beg2 end2 : Nat) (h1 : beg1 < end1) (h2 : beg2 < end2)
    (hov1 : beg1 < end2) (hov2 : beg2 < end1) (hr1 : end1 ≤ 2 ^ 29) (hr2 : end2 ≤ 2 ^ 29) :
    binFor beg1 end1 ∈ overlappingBinsFor beg2 end2 := by
  rw [binFor_spec beg1 end1 h1 hr1, overlappingBinsFor_spec beg2 end2 h2 hr2]
  exact Hts.Spec.Coord.bin_in_bins beg1 end1 beg2 end2 14 5 h1 h2 hov1 hov2 (by omega)

/-- CSI: `reg2bin` of one interval is in `reg2bins` of every overlapping one, for every geometry -/
theorem csi_bin_in_bins (beg1 end1 beg2 end2 ms d : Nat) (hd : d ≤ 10) (h1 : beg1 < end1) (h2 : beg2 < end2)
    (hov1 : beg1 < end2) (hov2 : beg2 < end1) (hr1 : end1 ≤ 2 ^ (ms + 3 * d)) (hr2 : end2 ≤ 2 ^ (ms + 3 * d)) :
    reg2bin beg1 end1 ms d ∈ reg2bins beg2 end2 ms d := by
  rw [reg2bin_spec beg1 end1 ms d hd h1 hr1, reg2bins_spec beg2 end2 ms d hd h2 hr2]
  exact Hts.Spec.Coord.bin_in_bins beg1 end1 beg2 end2 ms d h1 h2 hov1 hov2 (by omega)

/-! ### non-vacuity (tests) -/
example : Standard [⟨0, 10⟩, ⟨2, 5⟩, ⟨1, 3⟩] := by intro co h; simp at h; rcases h with h | h | h <;> subst h <;> decide
example : recordEnd false 100 [⟨0, 10⟩, ⟨2, 5⟩, ⟨1, 3⟩] = some 115 := by decide
example : recordEnd false 100 [⟨0, 10⟩, ⟨9, 3⟩, ⟨0, 11⟩] = some 118 := by decide
example : binFor 16000 16500 = 585 ∧ 585 ∈ overlappingBinsFor 16400 16401 := by decide
example : reg2bin 0 2 0 2 = 1 ∧ 1 ∈ reg2bins 1 2 0 2 := by decide

end Hts.Props.C16
