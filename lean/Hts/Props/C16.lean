/-
C16 — Coordinate arithmetic (End, Len, Bin, CIGAR lengths, bin lists) matches the specification.
PROPERTY THEOREMS ONLY.  Every statement is for all positions, all CIGARs (any number of operations,
any lengths), all overlapping interval pairs and all CSI geometries with depth ≤ 10 (deeper schemes
have bin numbers that do not fit the `uint32` the format stores).
-/
import Hts.Lemmas.Coord
import Hts.Lemmas.CoordQuery
import Hts.Lemmas.Cigar
namespace Hts.Props.C16
open Hts.Model.Coord
open Hts.Spec.Coord (refLen queryLen maxReach posAfter)

/-- only the nine standard operations M I D N S H P = X (types 0..8) -/
def Standard (c : List CigarOp) : Prop := ∀ co, co ∈ c → co.typ ≤ 8
/-- the standard operations and the `B` extension (type 9) -/
def StandardB (c : List CigarOp) : Prop := ∀ co, co ∈ c → co.typ ≤ 9

theorem standard_standardB {c} (h : Standard c) : StandardB c := fun co hc => Nat.le_succ_of_le (h co hc)

/-! ### CIGAR lengths -/

/-- `Cigar.Lengths` = (Σ reference-consuming lengths, Σ query-consuming lengths), never a panic -/
theorem lengths_spec (c : List CigarOp) (h : StandardB c) :
    cigarLengths c = some (refLen c, queryLen c) := by
  have := lengthsLoop_spec c 0 0 h
  simpa [cigarLengths] using this

/-! ### End and Len -/

/-- a mapped read with a CIGAR over the standard operations ends at `pos + reference length` -/
theorem end_spec (pos : Int) (c : List CigarOp) (hne : c ≠ []) (h : Standard c) :
    recordEnd false pos c = some (pos + refLen c) := by
  have hb := standard_standardB h
  unfold recordEnd
  have : c.isEmpty = false := by cases c <;> simp_all
  simp only [this, Bool.false_or, Bool.false_eq_true, if_false]
  rw [endLoop_spec c pos pos (Int.le_refl _) hb, maxReach_noB c pos h]
  have hnn : pos ≤ pos + refLen c := by rw [← maxReach_noB c pos h]; exact maxReach_ge c pos
  split <;> congr 1 <;> omega

/-- with the `B` extension: the highest coordinate reached by any prefix of the CIGAR -/
theorem end_spec_B (pos : Int) (c : List CigarOp) (hne : c ≠ []) (h : StandardB c) :
    recordEnd false pos c = some (maxReach pos c) ∧
      (∀ k, posAfter pos (c.take k) ≤ maxReach pos c) ∧ (∃ k, maxReach pos c = posAfter pos (c.take k)) := by
  refine ⟨?_, maxReach_is_max c pos⟩
  unfold recordEnd
  have : c.isEmpty = false := by cases c <;> simp_all
  simp only [this, Bool.false_or, Bool.false_eq_true, if_false]
  rw [endLoop_spec c pos pos (Int.le_refl _) h]
  have := maxReach_ge c pos
  split <;> congr 1 <;> omega

/-- unmapped reads and reads without a CIGAR are one base long (SAM §4.2.1) -/
theorem end_unmapped (pos : Int) (c : List CigarOp) : recordEnd true pos c = some (pos + 1) := by
  simp [recordEnd]

theorem end_no_cigar (u : Bool) (pos : Int) : recordEnd u pos [] = some (pos + 1) := by
  simp [recordEnd]

theorem len_spec (pos : Int) (c : List CigarOp) (hne : c ≠ []) (h : Standard c) :
    recordLen false pos c = some (refLen c) := by
  unfold recordLen
  rw [end_spec pos c hne h]
  simp only [Option.map_some]
  congr 1; omega

/-! ### CIGAR validity -/

/-- `Cigar.IsValid(n)` never panics on standard operations and is true exactly when the query-consuming
lengths sum to `n`, every `H` is first or last, and every `S` is first, last or next to an `H`. -/
theorem isvalid_spec (c : List CigarOp) (n : Int) (h : Standard c) :
    ∃ b, cigarIsValid c n = some b ∧
      (b = true ↔ (∀ j, HCond c j ∧ SCond c j) ∧ queryLen c = n) := by
  obtain ⟨b, hb, hiff⟩ := isValidLoop_spec c [] 0 n (Int.le_refl _) (by simpa [Standard] using h)
  refine ⟨b, by simpa [cigarIsValid] using hb, ?_⟩
  rw [hiff]
  simp only [List.nil_append, List.length_nil, Nat.zero_le, forall_const]
  constructor
  · rintro ⟨ha, hq⟩; exact ⟨ha, hq.symm⟩
  · rintro ⟨ha, hq⟩; exact ⟨ha, hq.symm⟩

/-! ### bins: model = specification on the indexable range -/

theorem binFor_is_spec (beg end_ : Nat) (h1 : beg < end_) (h2 : end_ ≤ 2 ^ 29) :
    binFor beg end_ = Hts.Spec.Coord.reg2bin beg end_ 14 5 := binFor_spec beg end_ h1 h2

theorem overlappingBinsFor_is_spec (beg end_ : Nat) (h1 : beg < end_) (h2 : end_ ≤ 2 ^ 29) :
    overlappingBinsFor beg end_ = Hts.Spec.Coord.reg2bins beg end_ 14 5 :=
  overlappingBinsFor_spec beg end_ h1 h2

/-- the running `uint32` level offset of csi.reg2bin equals (8^level - 1)/7 at every level -/
theorem csi_reg2bin_is_spec (beg end_ ms d : Nat) (hd : d ≤ 10) (h1 : beg < end_)
    (h2 : end_ ≤ 2 ^ (ms + 3 * d)) : reg2bin beg end_ ms d = Hts.Spec.Coord.reg2bin beg end_ ms d :=
  reg2bin_spec beg end_ ms d hd h1 h2

theorem csi_reg2bins_is_spec (beg end_ ms d : Nat) (hd : d ≤ 10) (h1 : beg < end_)
    (h2 : end_ ≤ 2 ^ (ms + 3 * d)) : reg2bins beg end_ ms d = Hts.Spec.Coord.reg2bins beg end_ ms d :=
  reg2bins_spec beg end_ ms d hd h1 h2

/-- the record's bin is the specification's bin of [pos, end), an alignment length of 0 wrapped to 1
(SAM v1 §4.2.1): for every placed record on the indexable range, whatever its End is -/
theorem bin_spec (u mu : Bool) (pos : Nat) (c : List CigarOp) (e : Nat)
    (hend : recordEnd u pos c = some (e : Int)) (h1 : pos ≤ e) (h2 : e ≤ 2 ^ 29) (h3 : pos < 2 ^ 29) :
    recordBin u mu pos c = some (Hts.Spec.Coord.reg2bin pos (if e = pos then pos + 1 else e) 14 5) := by
  unfold recordBin
  rw [hend]
  simp only [Option.map_some]
  by_cases he : e = pos
  · subst he
    simp only [if_true]
    have := binFor_spec e (e + 1) (by omega) (by omega)
    simpa using this
  · have hne : ¬ ((e : Int) = (pos : Int)) := by omega
    simp only [he, hne, if_false]
    rw [binFor_spec pos e (by omega) h2]

/-- a mapped read over the standard operations: the bin of [pos, pos + max(1, reference length)) -/
theorem bin_spec_mapped (mu : Bool) (pos : Nat) (c : List CigarOp) (hne : c ≠ []) (h : Standard c)
    (h2 : (pos : Int) + refLen c ≤ 2 ^ 29) (h3 : pos < 2 ^ 29) :
    recordBin false mu pos c =
      some (Hts.Spec.Coord.reg2bin pos (if refLen c = 0 then pos + 1 else pos + (refLen c).toNat) 14 5) := by
  have hend := end_spec pos c hne h
  have hnn : 0 ≤ refLen c := by
    have h0 := maxReach_ge c (pos : Int)
    rw [maxReach_noB c pos h] at h0; omega
  have hcast : ((pos : Int) + refLen c) = ((pos + (refLen c).toNat : Nat) : Int) := by omega
  rw [hcast] at hend
  have := bin_spec false mu pos c (pos + (refLen c).toNat) hend (by omega) (by omega) h3
  rw [this]
  by_cases h0 : refLen c = 0
  · rw [if_pos h0, if_pos (by omega)]
  · rw [if_neg h0, if_neg (by omega)]

/-- an unplaced read (no position: 0-based -1), unmapped or without CIGAR, has bin 4680 = reg2bin(-1, 0) -/
theorem bin_unplaced (u mu : Bool) (c : List CigarOp) (h : u = true ∨ c = []) :
    recordBin u mu (-1) c = some 4680 := by
  rcases h with h | h <;> subst h <;> simp [recordBin, recordEnd] <;> decide

/-! ### the bin of an interval is listed for every overlapping interval -/

/-- for every scheme (specification level) -/
theorem spec_bin_in_bins (beg1 end1 beg2 end2 ms d : Nat) (h1 : beg1 < end1) (h2 : beg2 < end2)
    (hov1 : beg1 < end2) (hov2 : beg2 < end1) (hr : beg2 < 2 ^ (ms + 3 * d)) :
    Hts.Spec.Coord.reg2bin beg1 end1 ms d ∈ Hts.Spec.Coord.reg2bins beg2 end2 ms d :=
  Hts.Spec.Coord.bin_in_bins beg1 end1 beg2 end2 ms d h1 h2 hov1 hov2 hr

/-- BAI: `BinFor` of one interval is in `OverlappingBinsFor` of every overlapping one -/
theorem bai_bin_in_bins (beg1 end1 beg2 end2 : Nat) (h1 : beg1 < end1) (h2 : beg2 < end2)
    (hov1 : beg1 < end2) (hov2 : beg2 < end1) (hr1 : end1 ≤ 2 ^ 29) (hr2 : end2 ≤ 2 ^ 29) :
    binFor beg1 end1 ∈ overlappingBinsFor beg2 end2 := by
  rw [binFor_spec beg1 end1 h1 hr1, overlappingBinsFor_spec beg2 end2 h2 hr2]
  exact Hts.Spec.Coord.bin_in_bins beg1 end1 beg2 end2 14 5 h1 h2 hov1 hov2 (by omega)

/-- CSI: `reg2bin` of one interval is in `reg2bins` of every overlapping one, for every geometry -/
theorem csi_bin_in_bins (beg1 end1 beg2 end2 ms d : Nat) (hd : d ≤ 10) (h1 : beg1 < end1) (h2 : beg2 < end2)
    (hov1 : beg1 < end2) (hov2 : beg2 < end1) (hr1 : end1 ≤ 2 ^ (ms + 3 * d)) (hr2 : end2 ≤ 2 ^ (ms + 3 * d)) :
    reg2bin beg1 end1 ms d ∈ reg2bins beg2 end2 ms d := by
  rw [reg2bin_spec beg1 end1 ms d hd h1 hr1, reg2bins_spec beg2 end2 ms d hd h2 hr2]
  exact Hts.Spec.Coord.bin_in_bins beg1 end1 beg2 end2 ms d h1 h2 hov1 hov2 (by omega)

/-! ### queries of any extent (repairs C04-5 and C04-6): empty, reversed, negative, beyond the range -/

/-- BAI: a query end beyond the indexable range is cut at 2^29 -/
theorem bai_bins_beyond_range (beg end_ : Int) (h : 536870912 < end_) :
    overlappingBinsFor beg end_ = overlappingBinsFor beg 536870912 := overlappingBinsFor_clamp beg end_ h

/-- BAI: `BinFor` of an interval in range is in `OverlappingBinsFor` of every overlapping query, whatever the
query's end (up to any `int`) -/
theorem bai_bin_in_bins_any_end (beg1 end1 beg2 : Nat) (end2 : Int) (h1 : beg1 < end1) (hr1 : end1 ≤ 2 ^ 29)
    (h2 : (beg2 : Int) < end2) (hov1 : (beg1 : Int) < end2) (hov2 : beg2 < end1) :
    binFor beg1 end1 ∈ overlappingBinsFor beg2 end2 := by
  by_cases hb : end2 ≤ 536870912
  · have := bai_bin_in_bins beg1 end1 beg2 end2.toNat h1 (by omega) (by omega) hov2 hr1 (by omega)
    have e : ((end2.toNat : Nat) : Int) = end2 := by omega
    rw [e] at this
    exact this
  · rw [overlappingBinsFor_clamp beg2 end2 (by omega)]
    exact bai_bin_in_bins beg1 end1 beg2 536870912 h1 (by omega) (by omega) hov2 hr1 (by decide)

/-- CSI: **`reg2bins` returns for every query** — no `uint32` loop of the repaired function runs for ever -/
theorem csi_reg2bins_returns (beg end_ : Int) (ms d : Nat) (hd : d ≤ 10) (hs : ms + 3 * d ≤ 62) :
    reg2binsGo beg end_ ms d = some (reg2bins beg end_ ms d) := reg2binsGo_total beg end_ ms d hd hs

/-- CSI: for every query `reg2bins` is the specification's list for the query cut to `[0, 2^(minShift+3·depth))` -/
theorem csi_reg2bins_any_query (beg end_ : Int) (ms d : Nat) (hd : d ≤ 10) (hs : ms + 3 * d ≤ 62) :
    reg2bins beg end_ ms d =
      if csiClampBeg beg ≥ csiClampEnd end_ (ms + d * 3) then []
      else Hts.Spec.Coord.reg2bins (csiClampBeg beg).toNat (csiClampEnd end_ (ms + d * 3)).toNat ms d :=
  reg2bins_any_query beg end_ ms d hd hs

/-- CSI: `reg2bin` of an interval in range is in `reg2bins` of every overlapping query `[beg2, end2)` over all
of `int64` (negative begin, end beyond the range) -/
theorem csi_bin_in_bins_any_query (beg1 end1 : Nat) (beg2 end2 : Int) (ms d : Nat) (hd : d ≤ 10)
    (hs : ms + 3 * d ≤ 62) (h1 : beg1 < end1) (hr1 : end1 ≤ 2 ^ (ms + 3 * d)) (h2 : beg2 < end2)
    (hov1 : (beg1 : Int) < end2) (hov2 : beg2 < end1) :
    reg2bin beg1 end1 ms d ∈ reg2bins beg2 end2 ms d := by
  have e3 : ms + d * 3 = ms + 3 * d := by omega
  have hpow : ((2 ^ (ms + 3 * d) : Nat) : Int) = (2 : Int) ^ (ms + 3 * d) := by rw [Int.natCast_pow]; rfl
  have hp : (0 : Int) < (2 : Int) ^ (ms + 3 * d) := Int.pow_pos (by decide)
  rw [reg2bin_spec beg1 end1 ms d hd h1 hr1, reg2bins_any_query beg2 end2 ms d hd hs, e3]
  have hb : csiClampBeg beg2 = if beg2 < 0 then 0 else beg2 := rfl
  have he : csiClampEnd end2 (ms + 3 * d) =
      if ms + 3 * d < 63 ∧ end2 > (2 : Int) ^ (ms + 3 * d) then (2 : Int) ^ (ms + 3 * d) else end2 := rfl
  have hlt : csiClampBeg beg2 < csiClampEnd end2 (ms + 3 * d) := by
    rw [hb, he]; split <;> split <;> omega
  have hb0 : 0 ≤ csiClampBeg beg2 := by rw [hb]; split <;> omega
  have hb1 : csiClampBeg beg2 < end1 := by rw [hb]; split <;> omega
  have he1 : (beg1 : Int) < csiClampEnd end2 (ms + 3 * d) := by rw [he]; split <;> omega
  rw [if_neg (by omega)]
  exact Hts.Spec.Coord.bin_in_bins beg1 end1 _ _ ms d h1 (by omega) (by omega) (by omega) (by omega)

/-- the unrepaired `csi.reg2bins` on the empty query at the origin: the level-0 loop has the upper bound
`uint32(-1 >> 29) = 2^32-1` and never exits (`csi.Index.Chunks(rid, 0, 0)` did not return) -/
theorem unrepaired_csi_reg2bins_empty_query_diverges_witness : reg2binsCoreGo 0 0 14 5 = none := by decide

/-- the unrepaired `internal.OverlappingBinsFor` on a query reaching to the largest `int`: every level above 0
is lost (`uint32` wrap), so the bin 4681 of a record at [100, 200) is not listed -/
theorem unrepaired_bai_bins_huge_end_witness :
    overlappingBinsForCore 0 9223372036854775807 = [0] ∧ binFor 100 200 = 4681 ∧
    4681 ∈ overlappingBinsFor 0 9223372036854775807 := by
  refine ⟨by decide, by decide, ?_⟩
  exact bai_bin_in_bins_any_end 100 200 0 9223372036854775807 (by decide) (by decide) (by decide) (by decide)
    (by decide)

/-! ### non-vacuity (tests) -/
example : reg2bins 0 0 14 5 = [] ∧ reg2bins (-5) 0 14 5 = [] ∧ reg2bins 7 3 14 5 = [] := by decide
example : reg2bins (-3) 2 1 1 = [0, 1] ∧ reg2bins 0 9223372036854775807 1 1 = [0, 1, 2, 3, 4, 5, 6, 7, 8] := by decide
example : Standard [⟨0, 10⟩, ⟨2, 5⟩, ⟨1, 3⟩] := by intro co h; simp at h; rcases h with h | h | h <;> subst h <;> decide
example : recordEnd false 100 [⟨0, 10⟩, ⟨2, 5⟩, ⟨1, 3⟩] = some 115 := by decide
example : recordEnd false 100 [⟨0, 10⟩, ⟨9, 3⟩, ⟨0, 11⟩] = some 118 := by decide
example : cigarIsValid [⟨5, 1⟩, ⟨4, 2⟩, ⟨0, 8⟩, ⟨5, 3⟩] 10 = some true := by decide
example : cigarIsValid [⟨0, 4⟩, ⟨4, 2⟩, ⟨0, 4⟩] 10 = some false := by decide
example : binFor 16000 16500 = 585 ∧ 585 ∈ overlappingBinsFor 16400 16401 := by decide
example : reg2bin 0 2 0 2 = 1 ∧ 1 ∈ reg2bins 1 2 0 2 := by decide
-- an insertion-only read on a tile boundary: End = Pos, bin of [16384, 16385) = 4682 (not reg2bin(16384,16384) = 585)
example : recordEnd false 16384 [⟨1, 5⟩] = some 16384 ∧ recordBin false false 16384 [⟨1, 5⟩] = some 4682 := by decide
example : Hts.Spec.Coord.reg2bin 16384 16385 14 5 = 4682 := by decide

end Hts.Props.C16
