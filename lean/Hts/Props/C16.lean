/-
C16 — property theorems (stub: no theorem stated yet, so no obligation is counted).
-/
namespace Hts.Props.C16
end Hts.Props.C16
