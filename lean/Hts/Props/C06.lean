/-
C06 — property theorems (stub: no theorem stated yet, so no obligation is counted).
-/
namespace Hts.Props.C06
end Hts.Props.C06
