/-
C06 — SAM text round trip; SAM and BAM views of a record agree; the SAM reader returns every line.
PROPERTY THEOREMS ONLY.  Every statement is for all records / lines / inputs (no bound on lengths).

Model: Hts.Model.SamText (MarshalSAM, UnmarshalSAM, ParseAux, ParseCigar, strconv integer parsing, the
line handling of sam.Reader), with the repairs fixes/C06-1..6 applied.  Specification: Hts.Spec.SamLine.
Float text is the parameter `ft : FloatText` with the assumed laws `L : FloatLaws ft`.
-/
import Hts.Lemmas.SamRecord
import Hts.Lemmas.SamStable
import Hts.Lemmas.SamReader
import Hts.Lemmas.SamNoHeader
import Hts.Lemmas.SamSpec
import Hts.Lemmas.SamBam
import Hts.Lemmas.BamStream
namespace Hts.Props.C06
open Hts.Model.SamText Hts.Model.SamBam
open Hts.Model.Coord (CigarOp)

/-! ### field-level round trips -/

/-- `Atoi(%d of i) = i` for every Go int -/
theorem int_roundtrip (i : Int) (hlo : -9223372036854775808 ≤ i) (hhi : i < 9223372036854775808) :
    atoi (showInt i) = some i := atoi_showInt i hlo hhi

/-- FLAG in decimal and in `0x` hexadecimal reads back (strconv.ParseUint with base 0, 16 bits) -/
theorem flags_roundtrip (fl : UInt16) (f : FlagFmt) (hf : f = .dec ∨ f = .hex) :
    (parseUintGo (formatFlags fl f) 0 16).map UInt16.ofNat = some fl := by
  rw [parse_formatFlags fl f hf]; simp

/-- CIGAR: `ParseCigar(c.String()) = c` for the operations M I D N S H P = X B with 28-bit lengths -/
theorem cigar_roundtrip (c : List CigarOp) (h : ∀ co ∈ c, co.typ ≤ 9 ∧ co.len < 268435456) :
    parseCigar (formatCigar c) = .ok c := parseCigar_formatCigar c h

/-- SEQ: every sequence of base codes, the empty one included -/
theorem seq_roundtrip (s : List (Fin 16)) : parseSeq (formatSeq s) = s := parse_formatSeq s

/-- QUAL: absent or Phred 0..93 (not the single quality 9, whose text is `*`) -/
theorem qual_roundtrip {ft : FloatText} (L : FloatLaws ft) (r : Record) (h : QualOK r) :
    parseQual (formatQual r.qual) r.seq.length = canonQual r ∧ qualView (canonRecord L r) = qualView r :=
  ⟨parseQual_formatQual r h, (qualView_canon L r h).symm⟩

/-- aux fields of every type (A, integers of the six sizes, f, Z incl. empty, H incl. empty, arrays
incl. empty): ParseAux of the printed field is the field with integers narrowed, prints the same, and
is equal as a value -/
theorem aux_roundtrip {ft : FloatText} (L : FloatLaws ft) (a : Aux) (h : AuxRep a) :
    parseAux ft (formatAux ft a) = .ok (canonAux L a) ∧ formatAux ft (canonAux L a) = formatAux ft a ∧
      auxEq a (canonAux L a) :=
  ⟨parseAux_formatAux L a h, formatAux_canonAux L a, auxEq_canonAux L a⟩

/-! ### the record -/

/-- UnmarshalSAM of the line MarshalSAM writes is the canonical form of the record: every field
identical, absent qualities as the 0xff run, numeric aux types narrowed -/
theorem format_parse_canon {ft : FloatText} (L : FloatLaws ft) (h : Header) (hh : HeaderOK h) (f : FlagFmt)
    (hf : f = .dec ∨ f = .hex) (r : Record) (he : Expressible h r) :
    ∃ line, formatRecord ft f r = .ok line ∧ parseRecord ft (some h) line = .ok (canonRecord L r) :=
  ⟨_, formatRecord_ok f r he.2.2.2.2.2.1, parseRecord_format L h hh f hf r he⟩

/-- **round trip**: for every expressible record, with decimal or hexadecimal flags, the line parses
back (against the same header) to a record that formats to the identical line and has equal fields -/
theorem format_parse_format {ft : FloatText} (L : FloatLaws ft) (h : Header) (hh : HeaderOK h) (f : FlagFmt)
    (hf : f = .dec ∨ f = .hex) (r : Record) (he : Expressible h r) :
    ∃ line r', formatRecord ft f r = .ok line ∧ parseRecord ft (some h) line = .ok r' ∧
      formatRecord ft f r' = .ok line ∧ fieldsEq r r' :=
  ⟨_, canonRecord L r, formatRecord_ok f r he.2.2.2.2.2.1, parseRecord_format L h hh f hf r he,
    formatRecord_canon L f r he.2.2.2.2.2.1, fieldsEq_canon L r he.2.2.2.2.2.1⟩

/-- the parsed-back record is itself expressible and is a fixed point: formatting and parsing it again
returns exactly the same record (a second round trip changes nothing) -/
theorem roundtrip_stable {ft : FloatText} (L : FloatLaws ft) (h : Header) (hh : HeaderOK h) (f : FlagFmt)
    (hf : f = .dec ∨ f = .hex) (r : Record) (he : Expressible h r) :
    Expressible h (canonRecord L r) ∧
      parseRecord ft (some h) (joinWith 9 (recordFields ft f (canonRecord L r))) = .ok (canonRecord L r) := by
  have he' := expressible_canon L h r he
  refine ⟨he', ?_⟩
  rw [parseRecord_format L h hh f hf _ he', canonRecord_idem]

/-- parsing the line without a header (`UnmarshalSAM(nil, …)`, `UnmarshalText`) gives the same record
with made-up references carrying the names (id -1, length 0), and that record formats to the same line -/
theorem format_parse_nil_header {ft : FloatText} (L : FloatLaws ft) (h : Header) (hh : HeaderOK h) (f : FlagFmt)
    (hf : f = .dec ∨ f = .hex) (r : Record) (he : Expressible h r) :
    ∃ line, formatRecord ft f r = .ok line ∧ parseRecord ft none line = .ok (fakeRefs (canonRecord L r)) ∧
      formatRecord ft f (fakeRefs (canonRecord L r)) = .ok line := by
  refine ⟨_, formatRecord_ok f r he.2.2.2.2.2.1, parseRecord_format_nil L h hh f hf r he, ?_⟩
  have hq := qualOK_canon L r he.2.2.2.2.2.1
  have h1 : formatRecord ft f (fakeRefs (canonRecord L r)) =
      .ok (joinWith 9 (recordFields ft f (fakeRefs (canonRecord L r)))) := formatRecord_ok f _ hq
  rw [h1, recordFields_fakeRefs h hh f (canonRecord L r) he.2.1 he.2.2.1, recordFields_canon]

/-- the line is the one the specification's formatter produces for the record's abstraction -/
theorem format_is_spec (ft : FloatText) (h : Header) (r : Record) (he : Expressible h r) :
    formatRecord ft .dec r = .ok (Hts.Spec.SamLine.samLine ft.fmt (toSpec r)) := by
  rw [formatRecord_ok .dec r he.2.2.2.2.2.1]
  unfold Hts.Spec.SamLine.samLine
  rw [tabJoin_eq_joinWith, fields_eq ft r he.2.2.2.1 (fun co hco => (he.2.2.2.2.1.1 co hco).1)
    (fun a ha c hc => by
      have := auxRep_of_auxOK a (he.2.2.2.2.2.2 a ha)
      unfold AuxRep at this
      rw [hc] at this
      exact this)]

/-- with hexadecimal flags only the FLAG field differs: `0x` and the lower-case hex digits of the value -/
theorem format_hex_fields (ft : FloatText) (r : Record) :
    recordFields ft .hex r = (recordFields ft .dec r).set 1 (48 :: 120 :: showHex r.flags.toNat) := rfl

/-- SAM and BAM views agree: a record as bam.Reader returns it (absent qualities = a run of 0xff)
formats to the same line, in every flag format -/
theorem bam_then_sam (ft : FloatText) (f : FlagFmt) (r : Record) :
    formatRecord ft f (norm r) = formatRecord ft f r := by
  unfold formatRecord norm recordFields
  cases hq : r.qual with
  | none =>
    have : (List.replicate r.seq.length (255 : UInt8)).any (· != 255) = false := by
      rw [List.any_eq_false]; intro x hx; simp [List.eq_of_mem_replicate hx]
    simp [formatQual, this]
  | some q => simp

/-! ### the bridge to the BAM record model (C05) -/

theorem repOK_of_expressible (h : Header) (r : Record) (he : Expressible h r) (hb : BamRange h r) : RepOK r :=
  ⟨fun co hco => ⟨Nat.lt_of_le_of_lt (he.2.2.2.2.1.1 co hco).1 (by decide), (he.2.2.2.2.1.1 co hco).2⟩,
   fun a ha => ⟨auxRep_of_auxOK a (he.2.2.2.2.2.2 a ha), hb.2.2.2.2.2.1 a ha⟩⟩

/-- **SAM and BAM views agree** (formal bridge between C05's and C06's record models).  For every expressible
record within the ranges of the BAM format (`H` values may hold any bytes, zero included: the writer stores
them as hex digits, repair bfe0bfe): the BAM writer accepts
its memory form `toBam r`; reading the written bytes back (C05's `decode_encode`, used here through its lemma
`readRecord_encodeRecord`) gives a memory form that
`ofBam` decodes to a record, namely `norm r`, and that record formats to the SAM line of `r`, in every flag
format. -/
theorem bam_roundtrip_then_sam (ft : FloatText) (f : FlagFmt) (h : Header) (r : Record) (he : Expressible h r)
    (hb : BamRange h r) :
    ∃ bs, Hts.Model.Bam.encodeRecord (toBam r) = .ok bs ∧
      ∀ rest, ∃ b', Hts.Model.Bam.readRecord .none h.refs.length (bs ++ rest) = .record b' rest ∧
        ofBam h b' = some (norm r) ∧ formatRecord ft f (norm r) = formatRecord ft f r := by
  -- `readRecord_encodeRecord .none` is the lemma C05.decode_encode states (`expected .none = norm`)
  obtain ⟨bs, henc, _, hdec⟩ := Hts.Model.Bam.readRecord_encodeRecord .none (wf_toBam h r he hb)
  refine ⟨bs, henc, fun rest => ⟨_, hdec rest, ?_, bam_then_sam ft f r⟩⟩
  show ofBam h (Hts.Model.Bam.norm (toBam r)) = some (norm r)
  rw [norm_toBam]
  have hrep := repOK_of_expressible h r he hb
  exact ofBam_toBam h (norm r) he.2.1 he.2.2.1 hrep

/-! ### the reader -/

/-- a reader over an input with header returns exactly the lines of the input as records: LF or CRLF
per line, with or without a final newline -/
theorem reader_lines (ft : FloatText) (h : Header) (ls : List (Bytes × Bool)) (final : Bool)
    (hl : ∀ p ∈ ls, (∀ c ∈ p.1, c ≠ 10) ∧ p.1.getLast? ≠ some 13)
    (hlast : final = false → ∀ p, ls.getLast? = some p → p.1 ≠ []) :
    readAll ft h (joinLines ls final) = ls.map fun p => parseRecord ft (some h) p.1 := by
  unfold readAll
  rw [reader_lines_strip ls final hl hlast, List.map_map]
  rfl

/-- **for every input**: the lines the reader parses are the lines of the text as the specification's
splitter `Spec.SamLine.textLines` (written independently: LF ends a line, one CR before it belongs to the
line end, a non-empty unterminated rest is a line) finds them -/
theorem reader_lines_spec (ft : FloatText) (h : Header) (body : Bytes) :
    readAll ft h body = (Hts.Spec.SamLine.textLines body).map (parseRecord ft (some h)) := by
  unfold readAll
  rw [readerLines_textLines]

/-- without header lines, for every input: the per-line step of the no-header mode (`noHeaderLoop`: parse with
a nil header, then give each reference name the id of its first appearance) runs over exactly the
specification's lines of the text.  What the step returns for the lines of expressible records is
`reader_noheader_records`. -/
theorem reader_lines_noheader (ft : FloatText) (body : Bytes) :
    readAllNoHeader ft body = noHeaderLoop ft (Hts.Spec.SamLine.textLines body) [] := by
  unfold readAllNoHeader
  rw [readerLines_textLines]

/-- no-header mode at record level: for a text made of the lines of expressible records (any line ends, final
newline or not), every `Read` succeeds, and the i-th record returned prints the i-th line again, equals the
canonical form of the i-th record in every field except the references, and its references carry the
names of the original ones -/
theorem reader_noheader_records {ft : FloatText} (L : FloatLaws ft) (h : Header) (hh : HeaderOK h) (f : FlagFmt)
    (hf : f = .dec ∨ f = .hex) (rs : List Record) (he : ∀ r ∈ rs, Expressible h r) (body : Bytes)
    (hbody : Hts.Spec.SamLine.textLines body = rs.map fun r => joinWith 9 (recordFields ft f r)) :
    ∃ outs, readAllNoHeader ft body = outs.map .ok ∧
      listRel (fun r out => formatRecord ft f out = formatRecord ft f r ∧
        eraseRefs out = eraseRefs (canonRecord L r) ∧ refName out.ref = refName r.ref ∧
        refName out.mateRef = refName r.mateRef) rs outs := by
  rw [reader_lines_noheader, hbody]
  obtain ⟨outs, h1, h2⟩ := noHeaderLoop_records L h hh f hf rs he [] List.nodup_nil
  refine ⟨outs, h1, ?_⟩
  clear h1 hbody
  induction rs generalizing outs with
  | nil => cases outs <;> simp_all [listRel]
  | cons r rs ih =>
    cases outs with
    | nil => exact h2
    | cons o os =>
      obtain ⟨⟨hf1, he1, hr1, hm1⟩, hrest⟩ := h2
      refine ⟨⟨?_, he1, hr1, hm1⟩, ih (fun x hx => he x (List.mem_cons_of_mem _ hx)) os hrest⟩
      have hq : QualOK r := (he r List.mem_cons_self).2.2.2.2.2.1
      have hqo : QualOK o := by
        have : QualOK (canonRecord L r) := qualOK_canon L r hq
        have hs : o.seq = (canonRecord L r).seq := by
          show (eraseRefs o).seq = (eraseRefs (canonRecord L r)).seq; rw [he1]
        have hqq : o.qual = (canonRecord L r).qual := by
          show (eraseRefs o).qual = (eraseRefs (canonRecord L r)).qual; rw [he1]
        unfold QualOK at this ⊢
        rw [hs, hqq]; exact this
      rw [formatRecord_ok f o hqo, formatRecord_ok f r hq, hf1]

/-- writing expressible records as lines and reading them returns every record (in canonical form),
whatever the line ends and whether or not the last line is terminated -/
theorem write_then_read {ft : FloatText} (L : FloatLaws ft) (h : Header) (hh : HeaderOK h) (f : FlagFmt)
    (hf : f = .dec ∨ f = .hex) (rs : List (Record × Bool)) (final : Bool) (he : ∀ p ∈ rs, Expressible h p.1) :
    readAll ft h (joinLines (rs.map fun p => (joinWith 9 (recordFields ft f p.1), p.2)) final) =
      rs.map fun p => .ok (canonRecord L p.1) := by
  have hline : ∀ p ∈ rs, (∀ c ∈ joinWith 9 (recordFields ft f p.1), c ≠ 10 ∧ c ≠ 13) ∧
      joinWith 9 (recordFields ft f p.1) ≠ [] := by
    intro p hp
    have hsep := recordFields_no_sep L h hh f hf p.1 (he p hp)
    have hname := (he p hp).1
    constructor
    · intro c hc
      have key : ∀ (fs : List Bytes), (∀ fld ∈ fs, ∀ c ∈ fld, c ≠ 9 ∧ c ≠ 10 ∧ c ≠ 13) →
          ∀ c ∈ joinWith 9 fs, c ≠ 10 ∧ c ≠ 13 := by
        intro fs
        induction fs with
        | nil => intro _ c hc; simp [joinWith] at hc
        | cons x xs ih =>
          intro hx c hc
          cases xs with
          | nil => simp only [joinWith] at hc; exact (hx x List.mem_cons_self c hc).2
          | cons y ys =>
            simp only [joinWith, List.mem_append, List.mem_cons] at hc
            rcases hc with hc | rfl | hc
            · exact (hx x List.mem_cons_self c hc).2
            · decide
            · exact ih (fun fld hf => hx fld (List.mem_cons_of_mem _ hf)) c hc
      exact key _ hsep c hc
    · intro hnil
      have hn : p.1.name ≠ [] := by
        intro e; have := hname.1; rw [e] at this; simp at this
      simp only [recordFields, List.cons_append, List.nil_append, joinWith] at hnil
      cases hnm : p.1.name with
      | nil => exact hn hnm
      | cons c cs => rw [hnm] at hnil; simp at hnil
  rw [reader_lines]
  · simp only [List.map_map]
    apply List.map_congr_left
    intro p hp
    exact parseRecord_format L h hh f hf p.1 (he p hp)
  · intro p hp
    simp only [List.mem_map] at hp
    obtain ⟨q, hq, rfl⟩ := hp
    refine ⟨fun c hc => ((hline q hq).1 c hc).1, ?_⟩
    intro hlast
    have hmem := List.mem_of_getLast? hlast
    exact ((hline q hq).1 13 hmem).2 rfl
  · intro _ p hp
    have hmem := List.mem_of_getLast? hp
    simp only [List.mem_map] at hmem
    obtain ⟨q, hq, rfl⟩ := hmem
    exact (hline q hq).2

/-- the whole reader on a text with header lines: NewReader hands exactly the header lines (each starting
with `@`, newline-terminated) to the header parser `ph` (`Header.UnmarshalText`, C07: a parameter here), and
the records are parsed against the header `ph` returns for that text, one per line of the rest — for every
rest that does not start with `@` -/
theorem reader_header_then_lines (ft : FloatText) (ph : Bytes → Option Header) (hls : List Bytes) (body : Bytes)
    (hne : hls ≠ [])
    (hh : ∀ l ∈ hls, (∃ rest, l = 64 :: rest) ∧ ∀ c ∈ l, c ≠ 10)
    (hb : ∀ c rest, body = c :: rest → c ≠ 64) :
    readFile ft ph (headerText hls ++ body) =
      (ph (headerText hls)).map fun h => (Hts.Spec.SamLine.textLines body).map (parseRecord ft (some h)) := by
  have hlen : hls.length < (headerText hls ++ body).length + 1 := by
    have : hls.length ≤ (headerText hls).length := by
      clear hh hne
      induction hls with
      | nil => simp
      | cons x xs ih => simp [headerText] at ih ⊢; omega
    simp; omega
  have hs := splitHeader_spec hls body hh hb ((headerText hls ++ body).length + 1) [] hlen
    (fun e _ => absurd e hne)
  have hnonempty : (headerText hls).isEmpty = false := by
    cases hls with
    | nil => exact absurd rfl hne
    | cons l ls => simp [headerText]
  unfold readFile
  simp only [List.nil_append] at hs
  rw [hs]
  simp only [hnonempty, Bool.false_eq_true, if_false]
  congr 1
  funext h
  exact reader_lines_spec ft h body

/-- … and without header lines (a text that does not start with `@`): the no-header mode over the whole text -/
theorem reader_no_header_lines (ft : FloatText) (ph : Bytes → Option Header) (c : UInt8) (rest : Bytes) (hc : c ≠ 64) :
    readFile ft ph (c :: rest) = some (noHeaderLoop ft (Hts.Spec.SamLine.textLines (c :: rest)) []) := by
  unfold readFile
  simp only [List.length_cons, splitHeader, ne_eq, hc, not_false_eq_true, if_true, List.isEmpty_nil]
  rw [reader_lines_noheader]

/-! ### non-vacuity -/

/-- a header and a record with every kind of field: a placed, paired read with CIGAR, qualities and aux
fields of the types A, c, I, f, Z (empty), H (empty), B:s and B:f (empty) -/
def exHeader : Header := ⟨[([99, 104, 114, 49], 1000), ([99, 104, 114, 50], 500)]⟩
def exRecord : Record :=
  { name := [114, 48, 48, 49], flags := 99, ref := some ⟨0, [99, 104, 114, 49], 1000⟩, pos := 6, mapq := 30,
    cigar := [⟨4, 1⟩, ⟨0, 2⟩, ⟨2, 268435455⟩, ⟨0, 1⟩], mateRef := some ⟨1, [99, 104, 114, 50], 500⟩, matePos := 36,
    tempLen := -2147483648, seq := [1, 2, 4, 8], qual := some [0, 93, 9, 40],
    aux := [⟨88, 65, .char 33⟩, ⟨88, 66, .int .c (-128)⟩, ⟨88, 67, .int .I 4294967295⟩, ⟨88, 68, .float 2139095040⟩,
            ⟨88, 69, .text []⟩, ⟨88, 70, .hex []⟩, ⟨88, 71, .ints .s [-32768, 32767]⟩, ⟨88, 72, .floats []⟩] }

example : HeaderOK exHeader := by decide
example : Expressible exHeader exRecord := by decide
/-- the single quality 9 is the one value the text cannot carry: it prints as `*` -/
example : formatQual (some [9]) = formatQual none := by decide


example : BamRange exHeader exRecord := by
  refine ⟨by decide, by decide, by decide, by decide, by decide, ?_, by decide⟩
  intro a ha
  simp only [exRecord, List.mem_cons, List.not_mem_nil, or_false] at ha
  rcases ha with rfl | rfl | rfl | rfl | rfl | rfl | rfl | rfl <;> simp [AuxCountOK]
/-- a record with the aux field `XH:H:9F0068` (an `H` value holding a zero byte) -/
def hexRecord : Record :=
  { name := [114], flags := 4, ref := none, pos := -1, mapq := 0, cigar := [], mateRef := none, matePos := -1,
    tempLen := 0, seq := [], qual := none, aux := [⟨88, 72, .hex [159, 0, 104]⟩] }

/-- an `H` value holding a zero byte goes through BAM unchanged (evaluated on the codec model: the bytes written
hold the digits `9F0068`, and what is read back decodes to the record written) -/
theorem bam_hex_nul_roundtrip :
    Expressible exHeader hexRecord ∧ BamRange exHeader hexRecord ∧
    ∃ bs b', Hts.Model.Bam.encodeRecord (toBam hexRecord) = .ok bs ∧
      Hts.Model.Bam.readRecord .none 2 bs = .record b' [] ∧ ofBam exHeader b' = some (norm hexRecord) ∧
      bs.drop (bs.length - 10) = [88#8, 72#8, 72#8, 57#8, 70#8, 48#8, 48#8, 54#8, 56#8, 0#8] := by
  refine ⟨by decide, ⟨by decide, by decide, by decide, by decide, by decide, ?_, by decide⟩, ?_⟩
  · intro a ha; simp [hexRecord] at ha; subst ha; trivial
  · exact ⟨_, Hts.Model.Bam.norm (toBam hexRecord), rfl, by decide +kernel, by decide +kernel, by decide +kernel⟩

/-- the float laws are satisfiable (a toy float text: the bit pattern in decimal) -/
def exFloatText : FloatText where
  fmt := fun b => showNat b.toNat
  parse := fun s => (parseUintGo s 10 32).map UInt32.ofNat

def exFloatLaws : FloatLaws exFloatText where
  canon := id
  parse_fmt := fun b => by
    show (parseUintGo (showNat b.toNat) 10 32).map UInt32.ofNat = some b
    rw [parseUintGo_showNat_10 b.toNat 32 b.toNat_lt]; simp
  fmt_canon := fun _ => rfl
  canon_eq := fun _ => Or.inl rfl
  no_sep := fun b c hc => showNat_no_sep b.toNat c hc

end Hts.Props.C06
