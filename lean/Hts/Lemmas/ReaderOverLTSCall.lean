/-
Read-ahead protocol without faults, one call of the consumer at a time: whatever the interleaving, when the
consumer is back between calls the current block is the one the sequential reader would have (`seqNext`).
-/
import Hts.Model.ReaderOverLTS
import Hts.Lemmas.ReaderLTSExact
import Hts.Lemmas.ReaderLTSFile
import Hts.Lemmas.ReaderOverLTS
namespace Hts.Model.ReadAhead

variable {cfg : Cfg}

theorem blk_eq_of_exact {chain : Chain} {b : Blk} {e : Nat} (h1 : b.base = some e) (h2 : Exact chain b) :
    b = ⟨some e, chain e⟩ := by
  obtain ⟨base, nx⟩ := b
  simp only at h1
  subst h1
  simp only [Exact] at h2
  simp [h2]

theorem doLoad_base {s : State} {t : Nat} {fail : Bool} {b : Blk} {h : Option Nat} {e : Ev}
    (hl : doLoad cfg s (some t) fail = some (b, h, e)) : b.base = some t := by
  unfold doLoad at hl
  by_cases hfl : fail = true
  · simp only [hfl, if_true] at hl
    by_cases hcf : cfg.faults = true
    · simp only [hcf, if_true, Option.some.injEq, Prod.mk.injEq] at hl
      obtain ⟨rfl, -, -⟩ := hl; rfl
    · simp [hcf] at hl
  · simp only [hfl, if_false, Bool.false_eq_true] at hl
    cases hc : cfg.chain t with
    | none =>
      simp only [hc, Option.some.injEq, Prod.mk.injEq] at hl
      obtain ⟨rfl, -, -⟩ := hl; rfl
    | some nx =>
      simp only [hc, Option.some.injEq, Prod.mk.injEq] at hl
      obtain ⟨rfl, -, -⟩ := hl; rfl

/-- Where the consumer stands relative to the call `cl` it makes from a state with current block `c0` and
script `cl :: rest`: not started / inside, fetching base `e` / returning / returned / (trap states). -/
def Ph (cfg : Cfg) (c0 : Blk) (cl : Call) (rest : List Op) (u : State) : Prop :=
  (u.cons = .idle ∧ u.script = cl.op :: rest ∧ u.cur = c0) ∨
  (u.script = rest ∧ ∃ e, seqNext cfg.chain c0 cl = ⟨some e, cfg.chain e⟩ ∧
      ((∃ i, u.cons = .scan e i) ∨ u.cons = .fetch e ∨ u.cons = .sel e ∨ u.cons = .sync e ∨
       ((u.cons = .drain e ∨ u.cons = .send e) ∧ u.cur.base = some e))) ∨
  (u.script = rest ∧ (∃ ok, u.cons = .ret ok) ∧ u.cur = seqNext cfg.chain c0 cl) ∨
  (u.script = rest ∧ u.cons = .idle ∧ u.cur = seqNext cfg.chain c0 cl) ∨
  u.cons = .panicked ∨
  u.script.length < rest.length

theorem script_len_le {s t : State} {l : Label} {e : Option Ev} (h : next cfg s l = some (e, t)) :
    t.script.length ≤ s.script.length := by
  cases l with
  | wk f => rw [(wk_frame h).2.2.2.2.1]; exact Nat.le_refl _
  | api c f =>
    by_cases hc : s.cons = .idle
    · have h' : apiStep cfg s c f = some (e, t) := h
      unfold apiStep at h'
      simp only [hc] at h'
      cases hs : s.script with
      | nil => simp [hs] at h'
      | cons op rest =>
        simp only [hs] at h'
        cases op <;> simp only at h' <;> (step_cases h' <;> simp)
    · rw [script_same h hc]; exact Nat.le_refl _

theorem ph_wk {c0 : Blk} {cl : Call} {rest : List Op} {u v : State} {f : Bool} {e : Option Ev}
    (hp : Ph cfg c0 cl rest u) (h : wkStep cfg u f = some (e, v)) : Ph cfg c0 cl rest v := by
  obtain ⟨hc, hcur, -, -, hs, -⟩ := wk_frame h
  unfold Ph at *
  rw [hc, hcur, hs]; exact hp

theorem ph_api {c0 : Blk} {cl : Call} {rest : List Op} {u v : State} {c f : Bool} {e : Option Ev}
    (hx : ExactInv cfg u) (hn : Op.nexts ∉ rest)
    (hp : Ph cfg c0 cl rest u) (h : apiStep cfg u c f = some (e, v)) : Ph cfg c0 cl rest v := by
  have hlen := script_len_le (l := .api c f) h
  rcases hp with ⟨hc, hs, hcur⟩ | ⟨hs, e0, htgt, hcons⟩ | ⟨hs, ⟨ok, hc⟩, hcur⟩ | ⟨hs, hc, hcur⟩ | hc | hl
  · -- not started
    unfold apiStep at h
    simp only [hc, hs] at h
    by_cases hff : f = true
    · simp [hff] at h
    simp only [hff, if_false, Bool.false_eq_true] at h
    by_cases hch : c = true
    · cases cl <;> simp [Call.op, hch] at h
    cases cl with
    | next =>
      simp only [Call.op, hch, if_false, Bool.false_eq_true] at h
      cases hnx : u.cur.next with
      | some b =>
        simp only [hnx, Option.some.injEq, Prod.mk.injEq] at h
        obtain ⟨-, rfl⟩ := h
        exact Or.inr (Or.inl ⟨rfl, b, by simp [seqNext, ← hcur, hnx], Or.inl ⟨0, rfl⟩⟩)
      | none =>
        simp only [hnx, Option.some.injEq, Prod.mk.injEq] at h
        obtain ⟨-, rfl⟩ := h
        exact Or.inr (Or.inr (Or.inl ⟨rfl, ⟨false, rfl⟩, by simp [seqNext, ← hcur, hnx]⟩))
    | seek off =>
      simp only [Call.op, hch, if_false, Bool.false_eq_true] at h
      by_cases hfast : u.cur.base = some off ∧ good u.cur = true
      · simp only [hfast, and_self, if_true, Option.some.injEq, Prod.mk.injEq] at h
        obtain ⟨-, rfl⟩ := h
        exact Or.inr (Or.inr (Or.inl ⟨rfl, ⟨true, rfl⟩, by simp [seqNext, ← hcur, hfast]⟩))
      · simp only [hfast, if_false, Option.some.injEq, Prod.mk.injEq] at h
        obtain ⟨-, rfl⟩ := h
        exact Or.inr (Or.inl ⟨rfl, off, by simp only [seqNext, ← hcur, hfast, if_false],
          Or.inr (Or.inr (Or.inl rfl))⟩)
  · -- inside the call
    have hs' : v.script = rest := by
      have hne : u.cons ≠ .idle := by
        rcases hcons with ⟨i, h1⟩ | h1 | h1 | h1 | ⟨h1 | h1, _⟩ <;> rw [h1] <;> simp
      rw [script_same h hne, hs]
    unfold apiStep at h
    rcases hcons with ⟨i, hc⟩ | hc | hc | hc | ⟨hc | hc, hb⟩
    · -- scan
      simp only [hc] at h
      by_cases hcf : (c || f) = true
      · simp [hcf] at h
      simp only [hcf, if_false, Bool.false_eq_true] at h
      cases hw : u.working with
      | nil => simp [hw] at h
      | cons b wr =>
        simp only [hw] at h
        by_cases hbe : b.base = some e0
        · simp only [hbe, if_true, Option.some.injEq, Prod.mk.injEq] at h
          obtain ⟨-, rfl⟩ := h
          refine Or.inr (Or.inr (Or.inl ⟨hs', ⟨_, rfl⟩, ?_⟩))
          rw [htgt]
          exact blk_eq_of_exact hbe (hx.working b (by simp [hw]))
        · simp only [hbe, if_false] at h
          by_cases hbn : b.next = none
          · simp only [hbn, if_true, Option.some.injEq, Prod.mk.injEq] at h
            obtain ⟨-, rfl⟩ := h
            exact Or.inr (Or.inl ⟨hs', e0, htgt, Or.inr (Or.inl rfl)⟩)
          · simp only [hbn, if_false] at h
            by_cases hi : i + 1 = cfg.rd
            · simp only [hi, if_true, Option.some.injEq, Prod.mk.injEq] at h
              obtain ⟨-, rfl⟩ := h
              exact Or.inr (Or.inr (Or.inr (Or.inr (Or.inl rfl))))
            · simp only [hi, if_false, Option.some.injEq, Prod.mk.injEq] at h
              obtain ⟨-, rfl⟩ := h
              exact Or.inr (Or.inl ⟨hs', e0, htgt, Or.inl ⟨i + 1, rfl⟩⟩)
    · -- fetch
      simp only [hc] at h
      by_cases hch : c = true
      · simp [hch] at h
      simp only [hch, if_false, Bool.false_eq_true] at h
      cases hl : doLoad cfg u (some e0) f with
      | none => simp [hl] at h
      | some r =>
        obtain ⟨b, hd, ev'⟩ := r
        simp only [hl, Option.some.injEq, Prod.mk.injEq] at h
        obtain ⟨-, rfl⟩ := h
        exact Or.inr (Or.inl ⟨hs', e0, htgt, Or.inr (Or.inr (Or.inr (Or.inr ⟨Or.inl rfl, doLoad_base hl⟩)))⟩)
    · -- sel
      simp only [hc] at h
      by_cases hff : f = true
      · simp [hff] at h
      simp only [hff, if_false, Bool.false_eq_true] at h
      by_cases hch : c = true
      · simp only [hch, if_true] at h
        cases hw : u.working with
        | nil => simp [hw] at h
        | cons b wr =>
          simp only [hw] at h
          by_cases hg : good b = true ∧ b.base = some e0
          · simp only [hg, and_self, if_true, Option.some.injEq, Prod.mk.injEq] at h
            obtain ⟨-, rfl⟩ := h
            exact Or.inr (Or.inl ⟨hs', e0, htgt, Or.inr (Or.inr (Or.inr (Or.inr ⟨Or.inl rfl, hg.2⟩)))⟩)
          · simp only [hg, if_false, Option.some.injEq, Prod.mk.injEq] at h
            obtain ⟨-, rfl⟩ := h
            exact Or.inr (Or.inl ⟨hs', e0, htgt, Or.inr (Or.inr (Or.inr (Or.inl rfl)))⟩)
      · simp only [hch, if_false, Bool.false_eq_true] at h
        by_cases hwt : 0 < u.waiting
        · simp only [hwt, if_true, Option.some.injEq, Prod.mk.injEq] at h
          obtain ⟨-, rfl⟩ := h
          exact Or.inr (Or.inl ⟨hs', e0, htgt, Or.inr (Or.inr (Or.inr (Or.inl rfl)))⟩)
        · simp [hwt] at h
    · -- sync
      simp only [hc] at h
      by_cases hch : c = true
      · simp [hch] at h
      simp only [hch, if_false, Bool.false_eq_true] at h
      cases hl : doLoad cfg u (some e0) f with
      | none => simp [hl] at h
      | some r =>
        obtain ⟨b, hd, ev'⟩ := r
        simp only [hl, Option.some.injEq, Prod.mk.injEq] at h
        obtain ⟨-, rfl⟩ := h
        exact Or.inr (Or.inl ⟨hs', e0, htgt, Or.inr (Or.inr (Or.inr (Or.inr ⟨Or.inl rfl, doLoad_base hl⟩)))⟩)
    · -- drain
      simp only [hc] at h
      by_cases hcf : (c || f) = true
      · simp [hcf] at h
      simp only [hcf, if_false, Bool.false_eq_true, Option.some.injEq, Prod.mk.injEq] at h
      obtain ⟨-, rfl⟩ := h
      exact Or.inr (Or.inl ⟨hs', e0, htgt, Or.inr (Or.inr (Or.inr (Or.inr ⟨Or.inr rfl, hb⟩)))⟩)
    · -- send
      simp only [hc] at h
      by_cases hcf : (c || f) = true
      · simp [hcf] at h
      simp only [hcf, if_false, Bool.false_eq_true] at h
      cases hctl : u.control with
      | some x => simp [hctl] at h
      | none =>
        simp only [hctl, Option.some.injEq, Prod.mk.injEq] at h
        obtain ⟨-, rfl⟩ := h
        refine Or.inr (Or.inr (Or.inl ⟨hs', ⟨_, rfl⟩, ?_⟩))
        rw [htgt]
        exact blk_eq_of_exact hb hx.cur
  · -- returning
    have hs' : v.script = rest := by rw [script_same h (by rw [hc]; simp), hs]
    unfold apiStep at h
    simp only [hc] at h
    by_cases hcf : (c || f) = true
    · simp [hcf] at h
    simp only [hcf, if_false, Bool.false_eq_true, Option.some.injEq, Prod.mk.injEq] at h
    obtain ⟨-, rfl⟩ := h
    exact Or.inr (Or.inr (Or.inr (Or.inl ⟨hs', rfl, hcur⟩)))
  · -- returned: the next step of the consumer starts the next call
    refine Or.inr (Or.inr (Or.inr (Or.inr (Or.inr ?_))))
    unfold apiStep at h
    simp only [hc] at h
    by_cases hff : f = true
    · simp [hff] at h
    simp only [hff, if_false, Bool.false_eq_true] at h
    cases hr : rest with
    | nil => simp [hs, hr] at h
    | cons op rest' =>
      rw [hr] at hn
      simp only [hs, hr] at h
      cases op with
      | nexts => exact absurd (by simp) hn
      | _ => simp only at h; step_cases h <;> simp
  · -- trap: panicked
    unfold apiStep at h
    simp [hc] at h
  · exact Or.inr (Or.inr (Or.inr (Or.inr (Or.inr (Nat.lt_of_le_of_lt hlen hl)))))

theorem path_reachable {s t : State} (hr : Reachable cfg s) (h : Path cfg s t) : Reachable cfg t := by
  induction h with
  | refl => exact hr
  | tail _ hst ih => exact .step ih hst

theorem ph_path {c0 : Blk} {cl : Call} {rest : List Op} {s t : State} (hf : cfg.faults = false)
    (hr : Reachable cfg s) (hn : Op.nexts ∉ rest) (hp : Ph cfg c0 cl rest s) (h : Path cfg s t) :
    Ph cfg c0 cl rest t := by
  induction h with
  | refl => exact hp
  | tail hsu hst ih =>
    obtain ⟨l, e, hnx⟩ := hst
    cases l with
    | api c f => exact ph_api (exact_reachable hf (path_reachable hr hsu)) hn ih hnx
    | wk f => exact ph_wk ih hnx

/-- **One call, every interleaving.**  From a reachable state where the consumer is between calls and `cl` is
its next operation, along any path of the fault-free protocol to a state where the consumer is between calls
again with exactly that operation consumed: the current block is the one the sequential reader would have. -/
theorem call_installs {cl : Call} {rest : List Op} {s t : State} (hf : cfg.faults = false)
    (hr : Reachable cfg s) (hc : s.cons = .idle) (hs : s.script = cl.op :: rest) (hn : Op.nexts ∉ rest)
    (hp : Path cfg s t) (htc : t.cons = .idle) (hts : t.script = rest) :
    t.cur = seqNext cfg.chain s.cur cl := by
  have := ph_path hf hr hn (Or.inl ⟨hc, hs, rfl⟩) hp
  rcases this with ⟨_, h2, _⟩ | ⟨_, e0, _, hcons⟩ | ⟨_, ⟨ok, h2⟩, _⟩ | ⟨_, _, h3⟩ | h2 | h2
  · rw [hts] at h2
    have := congrArg List.length h2
    simp at this
  · rcases hcons with ⟨i, h1⟩ | h1 | h1 | h1 | ⟨h1 | h1, _⟩ <;> rw [htc] at h1 <;> cases h1
  · rw [htc] at h2; cases h2
  · exact h3
  · rw [htc] at h2; cases h2
  · rw [hts] at h2; exact absurd h2 (Nat.lt_irrefl _)

/-- **Every program, every path.**  Run over the fault-free protocol whose chain is the file's, a byte-level
program returns what it returns with the sequential blocks. -/
theorem over_eq_seq {α : Type} {F : Bgzf.File} (hf : cfg.faults = false) (hch : cfg.chain = chainOf F)
    {p : Prog α} {s t : State} {a : α} (h : Over cfg F p s a t) (hr : Reachable cfg s)
    (hn : Op.nexts ∉ s.script) : a = (p.seq F s.cur).1 := by
  induction h with
  | done => rfl
  | @call cl k rest s t u a hc hs hp htc hts _ ih =>
    rw [hs] at hn
    have hn' : Op.nexts ∉ rest := fun hh => hn (by simp [hh])
    have hcur := call_installs hf hr hc hs hn' hp htc hts
    rw [hch] at hcur
    have := ih (path_reachable hr hp) (by rw [hts]; exact hn')
    rw [this, hcur]
    rfl

/-! ### Executions exist: every call returns -/

theorem script_len_ge {s t : State} {l : Label} {e : Option Ev} (h : next cfg s l = some (e, t)) :
    s.script.length ≤ t.script.length + 1 := by
  cases l with
  | wk f => rw [(wk_frame h).2.2.2.2.1]; exact Nat.le_succ _
  | api c f =>
    by_cases hc : s.cons = .idle
    · have h' : apiStep cfg s c f = some (e, t) := h
      unfold apiStep at h'
      simp only [hc] at h'
      cases hs : s.script with
      | nil => simp [hs] at h'
      | cons op rest =>
        simp only [hs] at h'
        cases op <;> simp only at h' <;> (step_cases h' <;> simp)
    · rw [script_same h hc]; exact Nat.le_succ _

theorem Path.head {s u t : State} (hsu : Step cfg s u) (h : Path cfg u t) : Path cfg s t := by
  induction h with
  | refl => exact .tail .refl hsu
  | tail _ hst ih => exact .tail ih hst

/-- From a state before or inside the call, some continuation brings the consumer back between calls with the
call's operation consumed (dead-lock freedom + the global measure; no fairness needed). -/
theorem call_returns_from {c0 : Blk} {cl : Call} {rest : List Op} (hc : cfg.OK) (hf : cfg.faults = false) :
    ∀ (u : State), Reachable cfg u → Op.nexts ∉ u.script → Op.nexts ∉ rest →
    ((u.cons = .idle ∧ u.script = cl.op :: rest ∧ u.cur = c0) ∨
     (u.script = rest ∧ ∃ e, seqNext cfg.chain c0 cl = ⟨some e, cfg.chain e⟩ ∧
        ((∃ i, u.cons = .scan e i) ∨ u.cons = .fetch e ∨ u.cons = .sel e ∨ u.cons = .sync e ∨
         ((u.cons = .drain e ∨ u.cons = .send e) ∧ u.cur.base = some e))) ∨
     (u.script = rest ∧ (∃ ok, u.cons = .ret ok) ∧ u.cur = seqNext cfg.chain c0 cl)) →
    ∃ t, Path cfg u t ∧ t.cons = .idle ∧ t.script = rest := by
  intro u
  generalize hm : gmu cfg u = m
  induction m using Nat.strongRecOn generalizing u with
  | _ m ih =>
    intro hr hn hnr hmid
    have hlen : rest.length ≤ u.script.length ∧ (u.cons ≠ .idle → u.script = rest) := by
      rcases hmid with ⟨_, h2, _⟩ | ⟨h1, e0, _, hcons⟩ | ⟨h1, ⟨ok, h2⟩, _⟩
      · rw [h2]; exact ⟨by simp, fun h => absurd ‹u.cons = .idle› h⟩
      · exact ⟨by rw [h1]; exact Nat.le_refl _, fun _ => h1⟩
      · exact ⟨by rw [h1]; exact Nat.le_refl _, fun _ => h1⟩
    have hnd : ¬ ApiDone u := by
      rintro (⟨h1, h2⟩ | h1)
      · rcases hmid with ⟨_, h3, _⟩ | ⟨_, e0, _, hcons⟩ | ⟨_, ⟨ok, h3⟩, _⟩
        · rw [h2] at h3; cases h3
        · rcases hcons with ⟨i, h4⟩ | h4 | h4 | h4 | ⟨h4 | h4, _⟩ <;> rw [h1] at h4 <;> cases h4
        · rw [h1] at h3; cases h3
      · rcases hmid with ⟨h3, _, _⟩ | ⟨_, e0, _, hcons⟩ | ⟨_, ⟨ok, h3⟩, _⟩
        · rw [h1] at h3; cases h3
        · rcases hcons with ⟨i, h4⟩ | h4 | h4 | h4 | ⟨h4 | h4, _⟩ <;> rw [h1] at h4 <;> cases h4
        · rw [h1] at h3; cases h3
    rcases inv_progress (inv_reachable hc hr) with ⟨l, e, v, hst⟩ | hdone
    · have hd := gmu_decreases (inv_reachable hc hr) hst hn
      have hrv : Reachable cfg v := .step hr ⟨l, e, hst⟩
      have hph : Ph cfg c0 cl rest v := by
        have hpu : Ph cfg c0 cl rest u := by
          rcases hmid with h | h | h
          · exact Or.inl h
          · exact Or.inr (Or.inl h)
          · exact Or.inr (Or.inr (Or.inl h))
        cases l with
        | api c f => exact ph_api (exact_reachable hf hr) hnr hpu hst
        | wk f => exact ph_wk hpu hst
      rcases hph with h | h | h | ⟨h1, h2, _⟩ | h | h
      · obtain ⟨t, hp, h1, h2⟩ := ih (gmu cfg v) (hm ▸ hd.1) v rfl hrv hd.2 hnr (Or.inl h)
        exact ⟨t, Path.head ⟨l, e, hst⟩ hp, h1, h2⟩
      · obtain ⟨t, hp, h1, h2⟩ := ih (gmu cfg v) (hm ▸ hd.1) v rfl hrv hd.2 hnr (Or.inr (Or.inl h))
        exact ⟨t, Path.head ⟨l, e, hst⟩ hp, h1, h2⟩
      · obtain ⟨t, hp, h1, h2⟩ := ih (gmu cfg v) (hm ▸ hd.1) v rfl hrv hd.2 hnr (Or.inr (Or.inr h))
        exact ⟨t, Path.head ⟨l, e, hst⟩ hp, h1, h2⟩
      · exact ⟨v, .tail .refl ⟨l, e, hst⟩, h2, h1⟩
      · exact absurd h (inv_reachable hc hrv).nopanic
      · exfalso
        by_cases hci : u.cons = .idle
        · -- before the call: one step consumes at most the call's operation
          have h1 := script_len_ge hst
          rcases hmid with ⟨_, h2, _⟩ | ⟨_, e0, _, hcons⟩ | ⟨_, ⟨ok, h2⟩, _⟩
          · rw [h2] at h1; simp at h1; omega
          · rcases hcons with ⟨i, h4⟩ | h4 | h4 | h4 | ⟨h4 | h4, _⟩ <;> rw [hci] at h4 <;> cases h4
          · rw [hci] at h2; cases h2
        · have hs := hlen.2 hci
          have : v.script = u.script := by
            cases l with
            | api c f => exact script_same hst hci
            | wk f => exact (wk_frame hst).2.2.2.2.1
          rw [this, hs] at h; exact Nat.lt_irrefl _ h
    · exact absurd hdone hnd

theorem calls_no_nexts {α : Type} (F : Bgzf.File) (p : Prog α) (c : Blk) : Op.nexts ∉ p.calls F c := by
  induction p generalizing c with
  | done a => simp [Prog.calls]
  | call cl k ih =>
    simp only [Prog.calls, List.mem_cons, not_or]
    exact ⟨by cases cl <;> simp [Call.op], ih _ _⟩

/-- **Executions exist.**  With the calls the program makes as the consumer's script (followed by anything
without `nexts`), the program runs over the protocol to its end, for every rd ≥ 2. -/
theorem over_exists {α : Type} {F : Bgzf.File} (hc : cfg.OK) (hf : cfg.faults = false)
    (hch : cfg.chain = chainOf F) (p : Prog α) : ∀ (s : State) (tl : List Op), Reachable cfg s →
    s.cons = .idle → s.script = p.calls F s.cur ++ tl → Op.nexts ∉ tl → ∃ a t, Over cfg F p s a t := by
  induction p with
  | done a => intro s tl _ _ _ _; exact ⟨a, s, .done⟩
  | call cl k ih =>
    intro s tl hr hci hs hn
    simp only [Prog.calls, List.cons_append] at hs
    have hnr : Op.nexts ∉ (k (blockOf F (seqNext (chainOf F) s.cur cl))).calls F (seqNext (chainOf F) s.cur cl) ++ tl := by
      simp only [List.mem_append, not_or]; exact ⟨calls_no_nexts F _ _, hn⟩
    have hns : Op.nexts ∉ s.script := by
      rw [hs]; simp only [List.mem_cons, not_or]
      exact ⟨by cases cl <;> simp [Call.op], hnr⟩
    obtain ⟨t, hp, h1, h2⟩ := call_returns_from (c0 := s.cur) (cl := cl) hc hf s hr hns hnr (Or.inl ⟨hci, hs, rfl⟩)
    have hcur := call_installs hf hr hci hs hnr hp h1 h2
    rw [hch] at hcur
    obtain ⟨a, u, ho⟩ := ih (blockOf F t.cur) t tl (path_reachable hr hp) h1 (by rw [h2, hcur]) hn
    exact ⟨a, u, .call hci hs hp h1 h2 ho⟩

open Hts.Model.Bgzf in
theorem tracks_new {F : File} (hwf : WF F) {r0 : Reader} (h0 : Reader.new F = .ok r0) :
    Tracks F r0 ∧ blkOf r0.cur = ⟨some 0, chainOf F 0⟩ := by
  unfold Reader.new at h0
  cases hm : memberAt F 0 with
  | ok m =>
    simp only [hm, Except.ok.injEq] at h0
    subst h0
    have hpos := memberAt_ok_lt hwf hm
    have hb : blkOf (⟨0, m.csize, m.data, 0, ⟨0, 0⟩⟩ : Block) = ⟨some 0, chainOf F 0⟩ := by
      simp [blkOf, chainOf, hm, Block.hasData, Block.nextBase]; omega
    exact ⟨⟨rfl, by unfold IdOK; rw [hb]; simp [Exact]⟩, hb⟩
  | eof => simp [hm] at h0
  | bad => simp [hm] at h0

open Hts.Model.Bgzf in
/-- **Histories.**  Over the fault-free protocol on the file's chain, from `NewReader`, along every path: the
program of a history returns, per operation, what the sequential reader returns (output and reader state,
hence `LastChunk`, `BlockLen`). -/
theorem over_history_eq_sequential {F : File} (hwf : WF F) {r0 : Reader} (h0 : Reader.new F = .ok r0)
    (ops : List Hts.Spec.Flat.Op) (rd : Nat) (script : List Op) (hn : Op.nexts ∉ script)
    (outs : List (Out × Reader)) (t : State)
    (h : Over ⟨rd, chainOf F, script, false⟩ F (gRun r0 ops) (init ⟨rd, chainOf F, script, false⟩) outs t) :
    outs = r0.run ops := by
  have ht := tracks_new hwf h0
  have := over_eq_seq (cfg := ⟨rd, chainOf F, script, false⟩) rfl rfl h .init hn
  rw [this]
  have hi : (init ⟨rd, chainOf F, script, false⟩).cur = blkOf r0.cur := by rw [ht.2]; rfl
  rw [hi]
  exact gRun_seq hwf ops r0 ht.1

end Hts.Model.ReadAhead
