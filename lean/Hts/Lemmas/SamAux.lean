/-
Aux fields: `ParseAux` reads back what the SAM formatter prints, for every type.  Core only.
-/
import Hts.Lemmas.SamFields
namespace Hts.Model.SamText
open Hts.Spec.SamLine (PrintChar PrintOrSpace TagOK isAlpha isAlnum)

/-! ### helpers -/

theorem showInt_chars (i : Int) : ∀ c ∈ showInt i, c = 45 ∨ ∃ d, d < 10 ∧ c = digitChar d := by
  intro c hc
  unfold showInt at hc
  split at hc
  · simp only [List.mem_cons] at hc
    rcases hc with rfl | hc
    · exact Or.inl rfl
    · exact Or.inr (showNat_digits _ c hc)
  · exact Or.inr (showNat_digits _ c hc)

theorem showInt_no_sep (i : Int) : ∀ c ∈ showInt i, c ≠ 9 ∧ c ≠ 44 ∧ c ≠ 10 ∧ c ≠ 13 := by
  intro c hc
  rcases showInt_chars i c hc with rfl | ⟨d, hd, rfl⟩
  · decide
  · have := digitChar_facts d hd
    exact ⟨this.2.2.2.1, this.2.2.2.2.1, this.2.2.2.2.2.2.2.1, this.2.2.2.2.2.2.2.2.1⟩

theorem showNat_no_sep (n : Nat) : ∀ c ∈ showNat n, c ≠ 9 ∧ c ≠ 44 ∧ c ≠ 10 ∧ c ≠ 13 := by
  intro c hc
  obtain ⟨d, hd, rfl⟩ := showNat_digits n c hc
  have := digitChar_facts d hd
  exact ⟨this.2.2.2.1, this.2.2.2.2.1, this.2.2.2.2.2.2.2.1, this.2.2.2.2.2.2.2.2.1⟩

theorem flatMap_sep (sep : UInt8) (x : Bytes) (xs : List Bytes) :
    (x :: xs).flatMap (fun y => sep :: y) = sep :: joinWith sep (x :: xs) := by
  induction xs generalizing x with
  | nil => simp [joinWith]
  | cons y ys ih =>
    rw [List.flatMap_cons, ih y, joinWith]
    simp

theorem mapM_map_some {α β : Type} (f : α → β) (g : β → Option α) (l : List α) (h : ∀ x ∈ l, g (f x) = some x) :
    (l.map f).mapM g = some l := by
  induction l with
  | nil => rfl
  | cons x l ih =>
    simp only [List.map_cons, List.mapM_cons, h x List.mem_cons_self,
      ih (fun y hy => h y (List.mem_cons_of_mem _ hy))]
    rfl

theorem mapM_map_some' {α β γ : Type} (f : α → β) (g : β → Option γ) (k : α → γ) (l : List α)
    (h : ∀ x ∈ l, g (f x) = some (k x)) : (l.map f).mapM g = some (l.map k) := by
  induction l with
  | nil => rfl
  | cons x l ih =>
    simp only [List.map_cons, List.mapM_cons, h x List.mem_cons_self,
      ih (fun y hy => h y (List.mem_cons_of_mem _ hy))]
    rfl

/-- the element list of a printed array: nothing for the empty array, else the comma-separated texts -/
theorem array_elems (xs : List Bytes) (h : ∀ x ∈ xs, ∀ c ∈ x, c ≠ 44) :
    arrayElems (xs.flatMap (fun y => 44 :: y)) = some xs := by
  cases xs with
  | nil => rfl
  | cons x xs =>
    rw [flatMap_sep]
    simp only [arrayElems, if_true]
    rw [splitOn_joinWith 44 (x :: xs) (by simp) h]

/-! ### hex -/

theorem hexDigitUpper_facts : ∀ d, d < 16 → fromHexChar (hexDigitUpper d) = some d ∧ hexDigitUpper d ≠ 9 ∧
    hexDigitUpper d ≠ 10 ∧ hexDigitUpper d ≠ 13 := by decide

theorem hexDecode_hexEncode (b : Bytes) : hexDecode (hexEncode b) = some b := by
  induction b with
  | nil => rfl
  | cons x b ih =>
    unfold hexEncode at ih ⊢
    simp only [List.flatMap_cons, List.cons_append, List.nil_append]
    rw [hexDecode, (hexDigitUpper_facts (x.toNat / 16) (by have := x.toNat_lt; omega)).1,
      (hexDigitUpper_facts (x.toNat % 16) (by omega)).1, ih]
    simp only
    have : x.toNat / 16 * 16 + x.toNat % 16 = x.toNat := by omega
    rw [this]
    simp

theorem hexEncode_no_sep (b : Bytes) : ∀ c ∈ hexEncode b, c ≠ 9 ∧ c ≠ 10 ∧ c ≠ 13 := by
  intro c hc
  unfold hexEncode at hc
  simp only [List.mem_flatMap, List.mem_cons, List.not_mem_nil, or_false] at hc
  obtain ⟨x, _, rfl | rfl⟩ := hc
  · exact (hexDigitUpper_facts _ (by have := x.toNat_lt; omega)).2
  · exact (hexDigitUpper_facts _ (by omega)).2

/-! ### integers -/

theorem intTy_letter (ty : IntTy) : ty.letter ≠ 102 ∧ IntTy.ofLetter ty.letter = some ty ∧ ty.letter ≠ 9 ∧
    ty.letter ≠ 10 ∧ ty.letter ≠ 13 := by
  cases ty <;> decide

theorem narrowInt_eq (v : Int) (h1 : -2147483648 ≤ v) (h2 : v ≤ 4294967295) :
    narrowInt v = some (.int (narrowTy v) v) := by
  unfold narrowInt narrowTy
  repeat' split
  all_goals first | rfl | omega

theorem intTy_range (ty : IntTy) (v : Int) (h : ty.lo ≤ v ∧ v ≤ ty.hi) : -2147483648 ≤ v ∧ v ≤ 4294967295 := by
  cases ty <;> simp [IntTy.lo, IntTy.hi] at h <;> omega

/-- one array element: ParseInt/ParseUint with base 0 and the element's size read back `%v` -/
theorem parseElem_showInt (ty : IntTy) (v : Int) (h : ty.lo ≤ v ∧ v ≤ ty.hi) : parseElem ty (showInt v) = some v := by
  unfold parseElem
  cases ty <;> simp only [IntTy.signed, IntTy.bits, IntTy.lo, IntTy.hi, if_true, Bool.false_eq_true, if_false] at h ⊢
  · exact parseIntGo_showInt v 0 8 (Or.inr rfl) (by omega) (by simp; omega) (by simp; omega)
  · rw [parseUintGo_showInt v 8 (by omega) (by simp; omega)]; simp; omega
  · exact parseIntGo_showInt v 0 16 (Or.inr rfl) (by omega) (by simp; omega) (by simp; omega)
  · rw [parseUintGo_showInt v 16 (by omega) (by simp; omega)]; simp; omega
  · exact parseIntGo_showInt v 0 32 (Or.inr rfl) (by omega) (by simp; omega) (by simp; omega)
  · rw [parseUintGo_showInt v 32 (by omega) (by simp; omega)]; simp; omega

/-! ### ParseAux of the printed field -/

theorem parseArray_ints {ft : FloatText} (ty : IntTy) (vs : List Int) (h : ∀ v ∈ vs, ty.lo ≤ v ∧ v ≤ ty.hi) :
    parseArray ft (ty.letter :: vs.flatMap fun v => 44 :: showInt v) = some (.ints ty vs) := by
  unfold parseArray
  simp only
  have hf : (vs.flatMap fun v => 44 :: showInt v) = (vs.map showInt).flatMap (fun y => 44 :: y) := by
    rw [List.flatMap_map]
  rw [hf, array_elems (vs.map showInt) (by
    intro x hx c hc
    simp only [List.mem_map] at hx
    obtain ⟨v, _, rfl⟩ := hx
    exact (showInt_no_sep v c hc).2.1)]
  simp only [(intTy_letter ty).1, if_false, (intTy_letter ty).2.1]
  rw [mapM_map_some showInt (parseElem ty) vs (fun v hv => parseElem_showInt ty v (h v hv))]
  rfl

theorem parseArray_floats {ft : FloatText} (L : FloatLaws ft) (bs : List UInt32) :
    parseArray ft (102 :: bs.flatMap fun b => 44 :: ft.fmt b) = some (.floats (bs.map L.canon)) := by
  unfold parseArray
  simp only
  have hf : (bs.flatMap fun b => 44 :: ft.fmt b) = (bs.map ft.fmt).flatMap (fun y => 44 :: y) := by
    rw [List.flatMap_map]
  rw [hf, array_elems (bs.map ft.fmt) (by
    intro x hx c hc
    simp only [List.mem_map] at hx
    obtain ⟨b, _, rfl⟩ := hx
    exact (L.no_sep b c hc).2.1)]
  simp only [if_true]
  rw [mapM_map_some' ft.fmt ft.parse L.canon bs (fun b _ => L.parse_fmt b)]
  rfl

/-- representation invariant of an aux field: integers inside their type, an `A` character in ASCII -/
def AuxRep (a : Aux) : Prop :=
  match a.val with
  | .char c => c < 128
  | .int ty v => ty.lo ≤ v ∧ v ≤ ty.hi
  | .ints ty vs => ∀ v ∈ vs, ty.lo ≤ v ∧ v ≤ ty.hi
  | _ => True

/-- aux round trip, every type: `ParseAux(text of a) = canonAux a` -/
theorem parseAux_formatAux {ft : FloatText} (L : FloatLaws ft) (a : Aux) (h : AuxRep a) :
    parseAux ft (formatAux ft a) = .ok (canonAux L a) := by
  obtain ⟨t0, t1, v⟩ := a
  unfold AuxRep at h
  unfold formatAux canonAux canonVal
  cases v with
  | char c =>
    simp only at h
    have : utf8OfByte c = [c] := by unfold utf8OfByte; simp [h]
    simp [parseAux, this]
  | int ty w =>
    simp only at h
    have hr := intTy_range ty w h
    have ha := atoi_showInt w (by omega) (by omega)
    simp [parseAux, ha, narrowInt_eq w hr.1 hr.2]
  | float b => simp [parseAux, L.parse_fmt]
  | text s => simp [parseAux]
  | hex b => simp [parseAux, hexDecode_hexEncode]
  | ints ty vs =>
    simp only at h
    have := parseArray_ints (ft := ft) ty vs h
    simp only [List.cons_append, List.nil_append] at this ⊢
    simp [parseAux, this]
  | floats bs =>
    have := parseArray_floats L bs
    simp only [List.cons_append, List.nil_append] at this ⊢
    simp [parseAux, this]

theorem auxRep_of_auxOK (a : Aux) (h : AuxOK a) : AuxRep a := by
  obtain ⟨t0, t1, v⟩ := a
  unfold AuxOK at h
  unfold AuxRep
  cases v with
  | char c =>
    simp only at h ⊢
    have := h.2; unfold PrintChar at this
    have h2 : c.toNat ≤ 126 := by simpa using UInt8.le_iff_toNat_le.mp this.2
    exact UInt8.lt_iff_toNat_lt.mpr (by simp; omega)
  | int ty w => exact h.2
  | ints ty vs => exact h.2
  | float b => trivial
  | text s => trivial
  | hex b => trivial
  | floats bs => trivial

/-- re-formatting: the parsed-back aux prints like the original -/
theorem formatAux_canonAux {ft : FloatText} (L : FloatLaws ft) (a : Aux) :
    formatAux ft (canonAux L a) = formatAux ft a := by
  obtain ⟨t0, t1, v⟩ := a
  unfold formatAux canonAux canonVal
  cases v <;> simp only [L.fmt_canon]
  · simp only [List.flatMap_map, L.fmt_canon]

theorem listRel_floatEq_canon {ft : FloatText} (L : FloatLaws ft) (bs : List UInt32) :
    listRel floatEq bs (bs.map L.canon) := by
  induction bs with
  | nil => trivial
  | cons b bs ih => exact ⟨L.canon_eq b, ih⟩

theorem auxEq_canonAux {ft : FloatText} (L : FloatLaws ft) (a : Aux) : auxEq a (canonAux L a) := by
  obtain ⟨t0, t1, v⟩ := a
  refine ⟨rfl, rfl, ?_⟩
  unfold canonAux canonVal
  cases v <;> simp only [auxValEq, and_self]
  · exact L.canon_eq _
  · exact listRel_floatEq_canon L _

theorem tag_no_sep (t0 t1 : UInt8) (h : TagOK t0 t1) :
    (t0 ≠ 9 ∧ t0 ≠ 10 ∧ t0 ≠ 13) ∧ (t1 ≠ 9 ∧ t1 ≠ 10 ∧ t1 ≠ 13) := by
  unfold TagOK isAlnum isAlpha at h
  have key : ∀ c : UInt8, (65 ≤ c ∨ 48 ≤ c) → c ≠ 9 ∧ c ≠ 10 ∧ c ≠ 13 := by
    intro c hc
    refine ⟨?_, ?_, ?_⟩ <;> intro e <;> subst e <;> revert hc <;> decide
  constructor
  · apply key; rcases h.1 with h | h
    · exact Or.inl h.1
    · exact Or.inl (UInt8.le_trans (by decide) h.1)
  · apply key; rcases h.2 with (h | h) | h
    · exact Or.inl h.1
    · exact Or.inl (UInt8.le_trans (by decide) h.1)
    · exact Or.inr h.1

theorem ge32_no_sep (c : UInt8) (h : 32 ≤ c) : c ≠ 9 ∧ c ≠ 10 ∧ c ≠ 13 := by
  refine ⟨?_, ?_, ?_⟩ <;> intro e <;> subst e <;> revert h <;> decide

theorem mem_sep_flatMap {α} (f : α → Bytes) (l : List α) (c : UInt8)
    (hc : c ∈ l.flatMap (fun v => 44 :: f v)) (h : ∀ v ∈ l, ∀ x ∈ f v, x ≠ 9 ∧ x ≠ 10 ∧ x ≠ 13) :
    c ≠ 9 ∧ c ≠ 10 ∧ c ≠ 13 := by
  simp only [List.mem_flatMap, List.mem_cons] at hc
  obtain ⟨v, hv, rfl | hc⟩ := hc
  · decide
  · exact h v hv c hc

/-- the text of an expressible aux field contains no TAB, LF or CR -/
theorem formatAux_no_sep {ft : FloatText} (L : FloatLaws ft) (a : Aux) (h : AuxOK a) :
    ∀ c ∈ formatAux ft a, c ≠ 9 ∧ c ≠ 10 ∧ c ≠ 13 := by
  have hrep := auxRep_of_auxOK a h
  obtain ⟨t0, t1, v⟩ := a
  unfold AuxOK at h
  have htag := tag_no_sep t0 t1 h.1
  have h2 := h.2
  unfold AuxRep at hrep
  intro c hc
  unfold formatAux at hc
  simp only [List.cons_append, List.nil_append, List.mem_cons] at hc
  rcases hc with rfl | rfl | rfl | hc
  · exact htag.1
  · exact htag.2
  · decide
  cases v with
  | char x =>
    simp only [List.mem_cons] at hc h2 hrep
    have hu : utf8OfByte x = [x] := by unfold utf8OfByte; simp [hrep]
    rw [hu] at hc
    simp only [List.mem_cons, List.not_mem_nil, or_false] at hc
    rcases hc with rfl | rfl | rfl
    · decide
    · decide
    · exact ge32_no_sep _ (UInt8.le_trans (by decide) h2.1)
  | int ty w =>
    simp only [List.mem_cons] at hc
    rcases hc with rfl | rfl | hc
    · decide
    · decide
    · have := showInt_no_sep _ c hc; exact ⟨this.1, this.2.2⟩
  | float b =>
    simp only [List.mem_cons] at hc
    rcases hc with rfl | rfl | hc
    · decide
    · decide
    · have := L.no_sep _ c hc; exact ⟨this.1, this.2.2⟩
  | text s =>
    simp only [List.mem_cons] at hc h2
    rcases hc with rfl | rfl | hc
    · decide
    · decide
    · exact ge32_no_sep _ (h2 c hc).1
  | hex b =>
    simp only [List.mem_cons] at hc
    rcases hc with rfl | rfl | hc
    · decide
    · decide
    · exact hexEncode_no_sep _ c hc
  | ints ty vs =>
    simp only [List.mem_cons] at hc
    rcases hc with rfl | rfl | rfl | hc
    · decide
    · decide
    · exact (intTy_letter _).2.2
    · exact mem_sep_flatMap showInt vs c hc (fun v _ x hx => by
        have := showInt_no_sep v x hx; exact ⟨this.1, this.2.2⟩)
  | floats bs =>
    simp only [List.mem_cons] at hc
    rcases hc with rfl | rfl | rfl | hc
    · decide
    · decide
    · decide
    · exact mem_sep_flatMap ft.fmt bs c hc (fun v _ x hx => by
        have := L.no_sep v x hx; exact ⟨this.1, this.2.2⟩)

end Hts.Model.SamText
