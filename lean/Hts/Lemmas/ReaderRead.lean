/-
Results of the unblocked copy loop (`LoopRes`) and of `Reader.read` on a split file.
-/
import Hts.Lemmas.ReaderLoop
namespace Hts.Model.Bgzf
open Hts.Spec.Flat

/-- Outcome of the unblocked copy loop: `avail` are the bytes from the current position to the end of the
data, `p` the logical position. -/
structure LoopRes (F : File) (r : Reader) (p : Nat) (avail : List UInt8) (n : Nat)
    (res : Reader × List UInt8 × Option Err) : Prop where
  bytes : res.2.1 = avail.take n
  frame : res.1.blocked = r.blocked ∧ res.1.file = r.file ∧ res.1.lastChunk.bgn = r.lastChunk.bgn
  ok : n ≤ avail.length → res.2.2 = none ∧ ∃ pre' m' post' k', At F res.1 pre' m' post' k' ∧
        flatLen pre' + k' = p + n ∧ 0 < k' ∧ res.1.lastChunk.fin = ⟨csum pre', k'⟩
  eof : avail.length < n → res.2.2 = some .eof ∧ AtEOF F res.1 ∧ res.1.lastChunk.fin = ⟨csum F, 0⟩

theorem LoopRes.prepend {F : File} {r r2 : Reader} {p : Nat} {avail : List UInt8} {n' : Nat}
    {res : Reader × List UInt8 × Option Err} (x : List UInt8)
    (h : LoopRes F r2 (p + x.length) avail n' res)
    (hfr : r2.blocked = r.blocked ∧ r2.file = r.file ∧ r2.lastChunk.bgn = r.lastChunk.bgn) :
    LoopRes F r p (x ++ avail) (x.length + n') (res.1, x ++ res.2.1, res.2.2) := by
  refine ⟨?_, ⟨h.frame.1.trans hfr.1, h.frame.2.1.trans hfr.2.1, h.frame.2.2.trans hfr.2.2⟩, ?_, ?_⟩
  · have : List.take (x.length + n') x = x := List.take_of_length_le (by omega)
    simp [h.bytes, List.take_append, this]
  · intro hle
    have : n' ≤ avail.length := by simp at hle; omega
    obtain ⟨he, pre', m', post', k', hat, hpos, hk, hfin⟩ := h.ok this
    exact ⟨he, pre', m', post', k', hat, by omega, hk, hfin⟩
  · intro hlt
    have : avail.length < n' := by simp at hlt; omega
    exact h.eof this

/-- From inside a member with `0 < n ≤ avail in the member`. -/
theorem readLoop_within {F : File} (hwf : WF F) {r : Reader} {pre : File} {m : Member} {post : File}
    {k : Nat} (h : At F r pre m post k) (n fuel : Nat) (hn : 0 < n) (hle : k + n ≤ m.data.length) :
    r.readLoop (fuel + 2) n = ((r.adv n).setEnd, (m.data.drop k).take n, none) := by
  have hk : k < m.data.length := by omega
  rw [readLoop_step hwf h hk n (fuel + 1) hn]
  have hmin : min n (m.data.length - k) = n := by omega
  simp only [hmin, Nat.sub_self, readLoop_zero]
  simp [Reader.adv, h.err, Reader.setEnd]

theorem At.setEnd {F : File} {r : Reader} {pre : File} {m : Member} {post : File} {k : Nat}
    (h : At F r pre m post k) : At F r.setEnd pre m post k :=
  ⟨h.file, h.split, h.cur, h.le, h.err⟩

/-- Unblocked loop started at the end of a member with `n > 0` bytes wanted. -/
theorem readLoop_unblocked_end {F : File} (hwf : WF F) :
    ∀ (post pre : File) (m : Member) (r : Reader) (n fuel : Nat),
      At F r pre m post m.data.length → r.blocked = false → 0 < n → 2 * post.length + 1 ≤ fuel →
      LoopRes F r (flatLen pre + m.data.length) (flatBytes post) n (r.readLoop fuel n) := by
  intro post
  induction post with
  | nil =>
    intro pre m r n fuel h hb hn hfuel
    obtain ⟨fuel, rfl⟩ : ∃ f, fuel = f + 1 := ⟨fuel - 1, by omega⟩
    rw [readLoop_end_nil hwf h hb n fuel hn]
    refine ⟨by simp [flatBytes], ⟨rfl, rfl, rfl⟩, fun hle => ?_, fun _ => ⟨rfl, ⟨h.file, rfl, rfl, rfl⟩, rfl⟩⟩
    simp [flatBytes] at hle; omega
  | cons m' post ih =>
    intro pre m r n fuel h hb hn hfuel
    obtain ⟨fuel, rfl⟩ : ∃ f, fuel = f + 1 := ⟨fuel - 1, by omega⟩
    rw [readLoop_end_cons hwf h hb n fuel hn]
    let r1 : Reader := { r with cur := ⟨csum (pre ++ [m]), m'.csize, m'.data, 0, ⟨csum (pre ++ [m]), 0⟩⟩ }
    have h1 : At F r1 (pre ++ [m]) m' post 0 :=
      ⟨h.file, by rw [h.split]; simp, rfl, Nat.zero_le _, h.err⟩
    have hb1 : r1.blocked = false := hb
    have hfuel' : 2 * post.length + 2 ≤ fuel := by simp at hfuel; omega
    show LoopRes F r _ _ n (r1.readLoop fuel n)
    have hp : flatLen (pre ++ [m]) = flatLen pre + m.data.length := by simp [flatLen]
    by_cases hz : m'.data.length = 0
    · -- an empty member: the loop moves on at once
      have h1' : At F r1 (pre ++ [m]) m' post m'.data.length := by rw [hz]; exact h1
      have := ih (pre ++ [m]) m' r1 n fuel h1' hb1 hn (by omega)
      have hd : m'.data = [] := List.length_eq_zero_iff.mp hz
      rw [hp, hz] at this
      refine ⟨by simpa [flatBytes, hd] using this.bytes, this.frame, ?_, ?_⟩
      · intro hle; simpa [flatBytes, hd] using this.ok (by simpa [flatBytes, hd] using hle)
      · intro hlt; exact this.eof (by simpa [flatBytes, hd] using hlt)
    · by_cases hle : n ≤ m'.data.length
      · obtain ⟨fuel, rfl⟩ : ∃ f, fuel = f + 2 := ⟨fuel - 2, by omega⟩
        rw [readLoop_within hwf h1 n fuel hn (by omega)]
        have hat : At F (r1.adv n).setEnd (pre ++ [m]) m' post (0 + n) := (h1.adv n (by omega)).setEnd
        refine ⟨by simp [flatBytes, List.take_append, Nat.sub_eq_zero_of_le hle], ⟨rfl, rfl, rfl⟩, ?_, ?_⟩
        · intro _
          refine ⟨rfl, pre ++ [m], m', post, 0 + n, hat, by omega, by omega, ?_⟩
          simp [Reader.setEnd, Reader.adv, r1]
        · intro hlt; simp [flatBytes] at hlt; omega
      · obtain ⟨fuel, rfl⟩ : ∃ f, fuel = f + 1 := ⟨fuel - 1, by omega⟩
        rw [readLoop_step hwf h1 (by omega) n fuel hn]
        have hmin : min n m'.data.length = m'.data.length := by omega
        simp only [Nat.sub_zero, hmin]
        have h2 : At F (r1.adv m'.data.length) (pre ++ [m]) m' post m'.data.length := by
          simpa using h1.adv m'.data.length (by omega)
        have := ih (pre ++ [m]) m' (r1.adv m'.data.length) (n - m'.data.length) fuel h2 hb1 (by omega) (by omega)
        have hpre := LoopRes.prepend (r := r) (r2 := r1.adv m'.data.length) (p := flatLen pre + m.data.length) m'.data (by rw [hp] at this; exact this) ⟨rfl, rfl, rfl⟩
        have hn2 : m'.data.length + (n - m'.data.length) = n := by omega
        rw [hn2] at hpre
        have ht : List.take n m'.data = m'.data := List.take_of_length_le (by omega)
        simpa [flatBytes, ht] using hpre


/-! ### `Reader.read` unfolded -/

theorem read_err (r : Reader) (n : Nat) (e : Err) (h : r.err = some e) : r.read n = (r, [], some e) := by
  simp [Reader.read, h]

theorem read_skip_err (r : Reader) (n : Nat) (e : Err) (h : r.err = none)
    (h2 : (r.skipEmpty r.skipFuel).err = some e) : r.read n = (r.skipEmpty r.skipFuel, [], some e) := by
  simp [Reader.read, h, h2]

theorem read_skip_ok (r : Reader) (n : Nat) (h : r.err = none)
    (h2 : (r.skipEmpty r.skipFuel).err = none) :
    r.read n = ({ r.skipEmpty r.skipFuel with
        lastChunk := ⟨(r.skipEmpty r.skipFuel).cur.tx, (r.skipEmpty r.skipFuel).lastChunk.fin⟩ } : Reader).readLoop
          (2 * (r.skipEmpty r.skipFuel).file.length + 3) n := by
  simp [Reader.read, h, h2, Reader.loopFuel]

theorem flatLen_empty (es : File) (h : ∀ e ∈ es, e.data = []) : flatLen es = 0 := by
  induction es with
  | nil => rfl
  | cons e es ih =>
    simp only [flatLen, h e (by simp), List.length_nil, Nat.zero_add]
    exact ih (fun x hx => h x (by simp [hx]))

theorem flatBytes_empty (es : File) (h : ∀ e ∈ es, e.data = []) : flatBytes es = [] := by
  have := flatLen_empty es h
  rw [← flatBytes_length] at this
  exact List.length_eq_zero_iff.mp this

/-- After the skip loop the reader stands at a byte (`k1 < len`), at the same logical position, or the
data has ended. -/
theorem skip_canon {F : File} (hwf : WF F) {r : Reader} {pre : File} {m : Member} {post : File} {k : Nat}
    (h : At F r pre m post k) :
    Frame r (r.skipEmpty r.skipFuel) ∧
    ((∃ pre1 m1 post1 k1, At F (r.skipEmpty r.skipFuel) pre1 m1 post1 k1 ∧ k1 < m1.data.length ∧
        flatLen pre1 + k1 = flatLen pre + k ∧
        m1.data.drop k1 ++ flatBytes post1 = m.data.drop k ++ flatBytes post) ∨
     (AtEOF F (r.skipEmpty r.skipFuel) ∧ flatLen pre + k = flatLen F ∧ m.data.drop k ++ flatBytes post = [])) := by
  have hfuel : post.length < r.skipFuel := by
    simp only [Reader.skipFuel, h.file, h.split, List.length_append, List.length_cons]; omega
  have ⟨hA, hB⟩ := skipEmpty_at hwf post pre m k r r.skipFuel h hfuel
  by_cases hk : k < m.data.length
  · rw [hA hk]
    exact ⟨Frame.refl r, Or.inl ⟨pre, m, post, k, h, hk, rfl, rfl⟩⟩
  · have hk' : k = m.data.length := by have := h.le; omega
    have ⟨hfr, hres⟩ := hB hk'
    refine ⟨hfr, ?_⟩
    have hd : m.data.drop k = [] := by rw [hk']; simp
    rcases hres with ⟨es, m', post', hp, hes, hm', hat⟩ | ⟨hall, heof⟩
    · refine Or.inl ⟨pre ++ m :: es, m', post', 0, hat, hm', ?_, ?_⟩
      · simp [flatLen, flatLen_empty es hes, hk']
      · simp [hd, hp, flatBytes, flatBytes_empty es hes]
    · refine Or.inr ⟨heof, ?_, ?_⟩
      · rw [h.split]; simp [flatLen, flatLen_empty post hall, hk']
      · simp [hd, flatBytes_empty post hall]

end Hts.Model.Bgzf
