/-
C07 helper lemmas, part 22: parsing clean lines keeps the data invariant; the clean sub-language `CleanOp`.
-/
import Hts.Lemmas.HeaderClean2
namespace Hts.Model.Header

/-! ### the line parsers keep the data invariant when what they parse is well-formed -/

theorem dh_readGroupLine {E : Ext} {k : KW RgD} (h : DH (WFRg E) k.heap) (hn : Nat) (l : Bytes)
    (hp : ∀ (t : Tab) (hd x : Bytes) (xs : List Bytes) (acc : FAcc RgV), k.tabs[hn]? = some t → splitOn 9 l = hd :: x :: xs →
      fieldLoop (rgAssign E fun n => (lookup t.seen n).isSome) ⟨{}, []⟩ (x :: xs) = .ok acc →
      WFRg E acc.val.name acc.val.d) : DH (WFRg E) (readGroupLine E k hn l).1.heap := by
  unfold readGroupLine
  split
  · next hd x xs t hs ht =>
    split
    · exact h
    · exact h
    · next acc hacc =>
      dsimp only
      split
      · exact h
      · exact dh_addNewU (dh_alloc h _ (hp t hd x xs acc ht hs hacc)) _ _
  · exact h
  · exact h

theorem dh_programLine {k : KW PgD} (h : DH WFPg k.heap) (hn : Nat) (l : Bytes)
    (hp : ∀ (t : Tab) (hd x : Bytes) (xs : List Bytes) (acc : FAcc PgV), k.tabs[hn]? = some t → splitOn 9 l = hd :: x :: xs →
      fieldLoop (pgAssign fun n => (lookup t.seen n).isSome) ⟨{}, []⟩ (x :: xs) = .ok acc →
      WFPg acc.val.name acc.val.d) : DH WFPg (programLine k hn l).1.heap := by
  unfold programLine
  split
  · next hd x xs t hs ht =>
    split
    · exact h
    · exact h
    · next acc hacc =>
      dsimp only
      split
      · exact h
      · exact dh_addNewU (dh_alloc h _ (hp t hd x xs acc ht hs hacc)) _ _
  · exact h
  · exact h

theorem dh_referenceLine {E : Ext} {k : KW RefD} (h : DH (WFRef E) k.heap) (p hn : Nat) (l : Bytes)
    (hp : ∀ (hd x y : Bytes) (xs : List Bytes) (acc : FAcc RefV), splitOn 9 l = hd :: x :: y :: xs →
      fieldLoop (refAssign E p) ⟨{}, []⟩ (x :: y :: xs) = .ok acc → WFRef E acc.val.name acc.val.d) :
    DH (WFRef E) (referenceLine E k p hn l).1.heap := by
  unfold referenceLine
  split
  case h_2 => exact h
  next hd x y xs hs =>
  split
  · exact h
  · exact h
  next acc hacc =>
  have wf := hp hd x y xs acc hs hacc
  dsimp only
  split
  · exact h
  split
  · exact h
  split
  · split
    · exact h
    split
    · exact h
    split
    · exact h
    split
    · exact h
    refine dh_replace (dh_alloc h _ wf) _ _ _ _ _ ?_
    intro r hr
    rw [alloc_heap] at hr; cases hr
    exact wf
  · exact dh_addNewU (dh_alloc h _ wf) _ _

/-- a line written from a well-formed item (or a comment without LF/CR) -/
inductive CleanLine (E : Ext) : Bytes → Prop where
  | sq (name : Bytes) (d : RefD) (wf : WFRef E name d) : CleanLine E (lineB "@SQ" (refTags name d))
  | rg (name : Bytes) (d : RgD) (wf : WFRg E name d) : CleanLine E (lineB "@RG" (rgTags name d))
  | pg (name : Bytes) (d : PgD) (wf : WFPg name d) : CleanLine E (lineB "@PG" (pgTags name d))
  | co (c : Bytes) (h10 : 10 ∉ c) (h13 : 13 ∉ c) : CleanLine E (str "@CO\t" ++ c)

theorem cleanLine_no10 {E : Ext} {l : Bytes} (c : CleanLine E l) : 10 ∉ l := by
  cases c with
  | sq name d wf => exact lineB_no 10 (Or.inl rfl) _ (notin_str_at 10 (Or.inr (Or.inl rfl)) _ (Or.inl rfl)) _ (refTags_clean wf)
  | rg name d wf => exact lineB_no 10 (Or.inl rfl) _ (notin_str_at 10 (Or.inr (Or.inl rfl)) _ (Or.inr (Or.inl rfl))) _ (rgTags_clean wf)
  | pg name d wf => exact lineB_no 10 (Or.inl rfl) _ (notin_str_at 10 (Or.inr (Or.inl rfl)) _ (Or.inr (Or.inr (Or.inl rfl)))) _ (pgTags_clean wf)
  | co c h10 h13 =>
    intro hm; rcases List.mem_append.1 hm with hm | hm
    · revert hm; decide
    · exact h10 hm

theorem dinv_parseLine_clean {E : Ext} {w : World} (d : DInv E w) (h : Nat) {l : Bytes} (c : CleanLine E l) :
    DInv E (parseLine E w h l).1 := by
  cases hf : w.hdrs[h]? with
  | none =>
    have : parseLine E w h l = (w, .skip) := by
      unfold parseLine; cases c <;> simp [hf, lineB, str]
    rw [this]; exact d
  | some f =>
  cases c with
  | sq name dd wf =>
    have hl : lineB "@SQ" (refTags name dd) = 64 :: 83 :: 81 :: (refTags name dd).flatMap fieldBytes := rfl
    have hsplit := lineB_split "@SQ" (notin_str_at 9 (Or.inl rfl) _ (Or.inl rfl)) _ (refTags_clean wf)
    obtain ⟨seen', hloop⟩ := fieldLoop_fields (refAssign E w.nextUri) (refTags name dd) {} _ []
      (refTags_nodup wf) (fun _ _ h => by cases h) (ref_loop E w.nextUri name dd wf)
    have hk := dh_referenceLine d.refs w.nextUri h (lineB "@SQ" (refTags name dd)) (by
      intro hd x y xs acc hs hacc
      rw [hsplit] at hs
      have e : (refTags name dd).map fieldOf = x :: y :: xs := (List.cons.inj hs).2
      rw [← e, hloop] at hacc
      cases hacc
      exact wfRef_uri_map (fun u => (w.nextUri, u.2)) (fun _ => rfl) wf)
    unfold parseLine
    rw [hl]
    simp only [hf]
    rw [← hl]
    simp only [TAG_HD, TAG_SQ, Prod.mk.injEq, show ¬ ((83 : Nat) = 72 ∧ (81 : Nat) = 68) by decide, if_false, and_self, if_true]
    exact ⟨hk, d.rgs, d.pgs, d.hdrs⟩
  | rg name dd wf =>
    have hl : lineB "@RG" (rgTags name dd) = 64 :: 82 :: 71 :: (rgTags name dd).flatMap fieldBytes := rfl
    have hsplit := lineB_split "@RG" (notin_str_at 9 (Or.inl rfl) _ (Or.inr (Or.inl rfl))) _ (rgTags_clean wf)
    have hcons : rgTags name dd = (TAG "ID", name) :: (rgTags name dd).tail := by simp [rgTags]
    have hk := dh_readGroupLine d.rgs h (lineB "@RG" (rgTags name dd)) (by
      intro t hd x xs acc _ hs hacc
      rw [hsplit] at hs
      have e : (rgTags name dd).map fieldOf = x :: xs := (List.cons.inj hs).2
      rw [← e] at hacc
      by_cases hkn : (lookup t.seen name).isSome = true
      · rw [hcons] at hacc
        simp [fieldLoop, parseField_fieldOf, rgAssign, hkn] at hacc
      · obtain ⟨seen', hloop⟩ := fieldLoop_fields (rgAssign E (fun n => (lookup t.seen n).isSome)) (rgTags name dd) {} _ []
          (rgTags_nodup wf) (fun _ _ h => by cases h) (rg_loop E _ name dd wf (by simpa using hkn))
        rw [hloop] at hacc; cases hacc; exact wf)
    unfold parseLine
    rw [hl]
    simp only [hf]
    rw [← hl]
    simp only [TAG_HD, TAG_SQ, TAG_RG, Prod.mk.injEq, show ¬ ((82 : Nat) = 72 ∧ (71 : Nat) = 68) by decide,
      show ¬ ((82 : Nat) = 83 ∧ (71 : Nat) = 81) by decide, if_false, and_self, if_true]
    exact ⟨d.refs, hk, d.pgs, d.hdrs⟩
  | pg name dd wf =>
    have hl : lineB "@PG" (pgTags name dd) = 64 :: 80 :: 71 :: (pgTags name dd).flatMap fieldBytes := rfl
    have hsplit := lineB_split "@PG" (notin_str_at 9 (Or.inl rfl) _ (Or.inr (Or.inr (Or.inl rfl)))) _ (pgTags_clean wf)
    have hcons : pgTags name dd = (TAG "ID", name) :: (pgTags name dd).tail := by simp [pgTags]
    have hk := dh_programLine d.pgs h (lineB "@PG" (pgTags name dd)) (by
      intro t hd x xs acc _ hs hacc
      rw [hsplit] at hs
      have e : (pgTags name dd).map fieldOf = x :: xs := (List.cons.inj hs).2
      rw [← e] at hacc
      by_cases hkn : (lookup t.seen name).isSome = true
      · rw [hcons] at hacc
        simp [fieldLoop, parseField_fieldOf, pgAssign, hkn] at hacc
      · obtain ⟨seen', hloop⟩ := fieldLoop_fields (pgAssign (fun n => (lookup t.seen n).isSome)) (pgTags name dd) {} _ []
          (pgTags_nodup wf) (fun _ _ h => by cases h) (pg_loop _ name dd wf (by simpa using hkn))
        rw [hloop] at hacc; cases hacc; exact wf)
    unfold parseLine
    rw [hl]
    simp only [hf]
    rw [← hl]
    simp only [TAG_HD, TAG_SQ, TAG_RG, TAG_PG, Prod.mk.injEq, show ¬ ((80 : Nat) = 72 ∧ (71 : Nat) = 68) by decide,
      show ¬ ((80 : Nat) = 83 ∧ (71 : Nat) = 81) by decide, show ¬ ((80 : Nat) = 82 ∧ (71 : Nat) = 71) by decide,
      if_false, and_self, if_true]
    exact ⟨d.refs, d.rgs, hk, d.hdrs⟩
  | co c h10 h13 =>
    rw [parseLine_co E hf c]
    have ok := d.hdrs h f hf
    refine dinv_setHdr d _ _ ⟨ok.hd, ok.ver, ok.so, ok.go, ok.other, ?_⟩
    intro c' hc'
    rcases List.mem_append.1 hc' with h1 | h1
    · exact ok.comments c' h1
    · simp only [List.mem_singleton] at h1; subst h1; exact ⟨h10, h13⟩

theorem dinv_parseLines_clean {E : Ext} (h : Nat) : ∀ (ls : List Bytes) (w : World), DInv E w →
    (∀ l ∈ ls, dropCR l = [] ∨ CleanLine E (dropCR l)) → DInv E (parseLines E w h ls).1 := by
  intro ls
  induction ls with
  | nil => intro w d _; exact d
  | cons l ls ih =>
    intro w d hc
    rw [parseLines]
    have hrest := fun l' hl' => hc l' (List.mem_cons_of_mem _ hl')
    split
    · exact ih w d hrest
    · next hne =>
      rcases hc l List.mem_cons_self with e | c
      · exact absurd e hne
      · have d1 := dinv_parseLine_clean d h c
        generalize parseLine E w h (dropCR l) = r at d1
        obtain ⟨w', r'⟩ := r
        cases r'
        case ok => exact ih w' d1 hrest
        all_goals exact d1

/-- a text made of clean lines, each ended by a line feed -/
def CleanText (E : Ext) (text : Bytes) : Prop := ∃ ls : List Bytes, (∀ l ∈ ls, CleanLine E l) ∧ text = ls.flatMap (· ++ [10])

theorem cleanLine_no13 {E : Ext} {l : Bytes} (c : CleanLine E l) : 13 ∉ l := by
  cases c with
  | sq name d wf => exact lineB_no 13 (Or.inr rfl) _ (notin_str_at 13 (Or.inr (Or.inr rfl)) _ (Or.inl rfl)) _ (refTags_clean wf)
  | rg name d wf => exact lineB_no 13 (Or.inr rfl) _ (notin_str_at 13 (Or.inr (Or.inr rfl)) _ (Or.inr (Or.inl rfl))) _ (rgTags_clean wf)
  | pg name d wf => exact lineB_no 13 (Or.inr rfl) _ (notin_str_at 13 (Or.inr (Or.inr rfl)) _ (Or.inr (Or.inr (Or.inl rfl)))) _ (pgTags_clean wf)
  | co c h10 h13 =>
    intro hm; rcases List.mem_append.1 hm with hm | hm
    · revert hm; decide
    · exact h13 hm

theorem dinv_unmarshalText_clean {E : Ext} {w : World} (d : DInv E w) (h : Nat) {text : Bytes} (c : CleanText E text) :
    DInv E (unmarshalText E w h text).1 := by
  obtain ⟨ls, hls, rfl⟩ := c
  unfold unmarshalText
  rw [splitOn_lines ls (fun l hl => cleanLine_no10 (hls l hl))]
  apply dinv_parseLines_clean h _ w d
  intro l hl
  rcases List.mem_append.1 hl with hl | hl
  · right; rw [dropCR_id (cleanLine_no13 (hls l hl))]; exact hls l hl
  · simp only [List.mem_singleton] at hl; subst hl; left; rfl

theorem dinv_newHeader_clean {E : Ext} {w : World} (d : DInv E w) {text : Bytes} (c : CleanText E text) (refs : List Nat) :
    DInv E (newHeader E w text refs).1 := by
  unfold newHeader
  dsimp only
  have d1 := dinv_pushHeader d {} hdOk_empty
  split
  · exact dinv_markDead d1 _
  · have d2 : DInv E { pushHeader w {} with refs := refs.foldl (fun k o => k.addNewU w.hdrs.length o) (pushHeader w {}).refs } :=
      ⟨dh_foldl_addNewU _ refs _ d1.refs, d1.rgs, d1.pgs, d1.hdrs⟩
    have d3 := dinv_unmarshalText_clean d2 w.hdrs.length c
    generalize unmarshalText E _ w.hdrs.length text = res at d3
    obtain ⟨w', r⟩ := res
    cases r
    case ok => exact d3
    all_goals exact dinv_markDead d3 _

theorem cleanText_nil (E : Ext) : CleanText E [] := ⟨[], forall_nil, rfl⟩

/-- the clean operations: construction and editing through the API with well-formed arguments.  Parsing is covered for texts
made of clean lines (@SQ/@RG/@PG lines as the serialisers write them from well-formed items, @CO lines without LF/CR).
Left out: `de` (DecodeBinary), @HD lines and lines in any other form, and `Header.Set` (`hs`). -/
def CleanOp (E : Ext) : Op → Prop
  | .h0 => True
  | .hd text _ => CleanText E text
  | .pa text => CleanText E text
  | .um _ text => CleanText E text
  | .co _ c => 10 ∉ c ∧ 13 ∉ c
  | .sh _ ver so go => ver ≠ [] ∧ Clean ver ∧ (0 ≤ so ∧ so ≤ 3) ∧ (0 ≤ go ∧ go ≤ 3)
  | .nr name d => WFRef E name d
  | .ng name d => WFRg E name d
  | .np name d => WFPg name d
  | .sr _ n => Clean n
  | .sg _ n => Clean n
  | .sp _ n => Clean n
  | .ar _ _ | .rr _ _ | .gr _ _ | .cr _ => True
  | .ag _ _ | .rg _ _ | .gg _ _ | .cg _ => True
  | .ap _ _ | .rp _ _ | .gp _ _ | .cp _ => True
  | .cl _ => True
  | .mg _ => True
  | .de _ | .hs _ _ _ => False

/-- every clean operation keeps the data invariant -/
theorem dinv_step (E : Ext) {w : World} (d : DInv E w) (op : Op) (hc : CleanOp E op) : DInv E (step E w op).w := by
  cases op with
  | h0 => exact dinv_pushHeader d _ hdOk_empty
  | hd text ps =>
    simp only [CleanOp] at hc
    simp only [step]; split
    · exact dinv_newHeader_clean d hc _
    · exact dinv_pushHeader d _ hdOk_dead
  | pa text =>
    simp only [CleanOp] at hc
    exact dinv_unmarshalText_clean (dinv_pushHeader d _ hdOk_empty) _ hc
  | de b => exact absurd hc (by simp [CleanOp])
  | um h text =>
    simp only [CleanOp] at hc
    simp only [step]; split
    · exact dinv_unmarshalText_clean d _ hc
    · exact d
  | hs h t v => exact absurd hc (by simp [CleanOp])
  | co h c =>
    simp only [CleanOp] at hc
    simp only [step]; split
    · next f hf _ =>
      have := d.hdrs h f hf
      refine dinv_setHdr d _ _ ⟨this.hd, this.ver, this.so, this.go, this.other, ?_⟩
      intro c' hc'
      rcases List.mem_append.1 hc' with h1 | h1
      · exact this.comments c' h1
      · simp only [List.mem_singleton] at h1; subst h1; exact hc
    · exact d
  | sh h v so go =>
    simp only [CleanOp] at hc
    simp only [step]; split
    · next f hf _ =>
      have := d.hdrs h f hf
      exact dinv_setHdr d _ _ ⟨fun e => absurd e hc.1, hc.2.1, hc.2.2.1, hc.2.2.2, this.other, this.comments⟩
    · exact d
  | nr name dd =>
    simp only [CleanOp] at hc
    exact dinv_refs d _ (dh_alloc d.refs _ (wfRef_uri_map (fun u => (w.nextUri, u.2)) (fun _ => rfl) hc)) _ _ _ _
  | ng name dd =>
    simp only [CleanOp] at hc
    exact dinv_rgs d _ (dh_alloc d.rgs { owner := none, id := -1, name := name, dat := dd } hc) _ _ _ _
  | np name dd =>
    simp only [CleanOp] at hc
    exact dinv_pgs d _ (dh_alloc d.pgs { owner := none, id := -1, name := name, dat := dd } hc) _ _ _ _
  | ar h p =>
    simp only [step]; split
    · exact dinv_refs d _ (dh_addReference d.refs _ _) _ _ _ _
    · exact d
  | rr h p =>
    simp only [step]; split
    · exact dinv_refs d _ (dh_remove d.refs _ _) _ _ _ _
    · exact d
  | sr p n =>
    simp only [CleanOp] at hc
    simp only [step]; split
    · exact dinv_refs d _ (dh_setName d.refs _ _ (fun _ _ h => wfRef_rename hc h)) _ _ _ _
    · exact d
  | gr h i => simp only [step]; split <;> exact dinv_pools d _ _ _ _
  | cr p =>
    simp only [step]; split
    · exact dinv_refs d _ (dh_cloneObj d.refs _ (freshUri w.nextUri) (fun _ _ h => wfRef_uri_map (fun u => (w.nextUri, u.2)) (fun _ => rfl) h)) _ _ _ _
    · exact dinv_pools d _ _ _ _
  | ag h p =>
    simp only [step]; split
    · exact dinv_rgs d _ (dh_addUniq d.rgs _ _) _ _ _ _
    · exact d
  | rg h p =>
    simp only [step]; split
    · exact dinv_rgs d _ (dh_remove d.rgs _ _) _ _ _ _
    · exact d
  | sg p n =>
    simp only [CleanOp] at hc
    simp only [step]; split
    · exact dinv_rgs d _ (dh_setName d.rgs _ _ (fun _ _ h => wfRg_rename hc h)) _ _ _ _
    · exact d
  | gg h i => simp only [step]; split <;> exact dinv_pools d _ _ _ _
  | cg p =>
    simp only [step]; split
    · exact dinv_rgs d _ (dh_cloneObj d.rgs _ _ (fun _ _ h => h)) _ _ _ _
    · exact dinv_pools d _ _ _ _
  | ap h p =>
    simp only [step]; split
    · exact dinv_pgs d _ (dh_addUniq d.pgs _ _) _ _ _ _
    · exact d
  | rp h p =>
    simp only [step]; split
    · exact dinv_pgs d _ (dh_remove d.pgs _ _) _ _ _ _
    · exact d
  | sp p n =>
    simp only [CleanOp] at hc
    simp only [step]; split
    · exact dinv_pgs d _ (dh_setName d.pgs _ _ (fun _ _ h => wfPg_rename hc h)) _ _ _ _
    · exact d
  | gp h i => simp only [step]; split <;> exact dinv_pools d _ _ _ _
  | cp p =>
    simp only [step]; split
    · exact dinv_pgs d _ (dh_cloneObj d.pgs _ _ (fun _ _ h => h)) _ _ _ _
    · exact dinv_pools d _ _ _ _
  | cl h =>
    simp only [step]; split
    · exact dinv_cloneHeader d _
    · exact dinv_pushHeader d _ hdOk_dead
  | mg hs =>
    simp only [step]; split
    · exact dinv_mergeHeaders d _
    · exact dinv_pushHeader d _ hdOk_dead

theorem dinv_run (E : Ext) : ∀ (ops : List Op) (w : World), DInv E w → (∀ op ∈ ops, CleanOp E op) → DInv E (run E w ops) := by
  intro ops
  induction ops with
  | nil => intro w d _; exact d
  | cons op ops ih =>
    intro w d hc
    exact ih _ (dinv_step E d op (hc op List.mem_cons_self)) (fun o ho => hc o (List.mem_cons_of_mem _ ho))

/-- a clean history: references, read groups and programs added, removed and renamed, additional lines parsed, a
comment with a TAB, a clone and a merge; its last header (the merge) has two items of each kind -/
def exCleanText : Bytes :=
  [lineB "@SQ" (refTags (str "d") { len := 40 }), lineB "@RG" (rgTags (str "g3") {}), str "@CO\t" ++ str "x\ty"].flatMap (· ++ [10])

theorem exCleanText_clean : CleanText goExt exCleanText := by
  refine ⟨_, ?_, rfl⟩
  intro l hl
  simp only [List.mem_cons, List.not_mem_nil, or_false] at hl
  rcases hl with rfl | rfl | rfl
  · exact .sq _ _ (wfRef_bare _ _ _ (by decide) (by decide))
  · exact .rg _ _ (wfRg_bare _ _ (by decide))
  · exact .co _ (by decide) (by decide)

def exClean : List Op :=
  [.h0, .sh 0 (str "1.6") 3 1,
   .nr (str "a") { len := 10 }, .nr (str "b") { len := 20 }, .nr (str "c") { len := 30 },
   .ar 0 0, .ar 0 1, .ar 0 2, .rr 0 1, .um 0 exCleanText,
   .ng (str "g1") {}, .ng (str "g2") {}, .ag 0 0, .ag 0 1, .sg 0 (str "x"),
   .np (str "p1") {}, .np (str "p2") {}, .ap 0 0, .ap 0 1,
   .co 0 (str "a\tb"), .cl 0, .mg [0, 1]]

theorem exClean_clean : ∀ op ∈ exClean, CleanOp goExt op := by
  intro op hop
  simp only [exClean, List.mem_cons, List.not_mem_nil, or_false] at hop
  rcases hop with rfl | rfl | rfl | rfl | rfl | rfl | rfl | rfl | rfl | rfl | rfl | rfl | rfl | rfl | rfl | rfl | rfl |
    rfl | rfl | rfl | rfl | rfl
  all_goals first
    | trivial
    | exact exCleanText_clean
    | exact wfRef_bare _ _ _ (by decide) (by decide)
    | exact wfRg_bare _ _ (by decide)
    | exact wfPg_bare _ (by decide)
    | (show _ ∧ _; decide)
    | (show Clean _; decide)

end Hts.Model.Header
