/-
The linked-list code of LRU/FIFO (model `LCache`) implements the stated eviction policy (`PolicyQ`):
`abs q = q.used.reverse ++ q.unused` is a refinement map under which `Put` (result and successor state),
`Get`, `Drop`, `Resize` commute.
-/
import Hts.Lemmas.CacheHist
import Hts.Spec.CacheContract
namespace Hts.Spec.CacheContract
open Hts.Model.Cache

namespace PolicyQ

/-- list order of the implementation: newest used … oldest used, oldest unused … newest unused -/
def abs (q : PolicyQ) : LCache := ⟨q.cap, q.used.reverse ++ q.unused⟩

theorem abs_hasKey (q : PolicyQ) (k : Int) : hasKey q.abs.items k = q.holds k := by
  simp [abs, holds, hasKey, List.any_append, List.any_reverse]

theorem abs_len (q : PolicyQ) : (q.abs.items.length : Int) = q.len := by
  simp [abs, len]

/-- the back of the implementation's list is the policy's victim -/
theorem abs_evict (q : PolicyQ) :
    (match q.evict with
      | none => q.abs.items.getLast? = none
      | some (v, q') => q.abs.items.getLast? = some v ∧ q'.abs = ⟨q.cap, q.abs.items.dropLast⟩) := by
  unfold evict
  cases hu : q.unused.getLast? with
  | some v =>
    simp only
    have hne : q.unused ≠ [] := by intro h0; simp [h0] at hu
    refine ⟨by simp [abs, List.getLast?_append, hu], ?_⟩
    simp [abs, List.dropLast_append_of_ne_nil hne]
  | none =>
    have h0 : q.unused = [] := by simpa using hu
    cases hq : q.used with
    | nil => simp [abs, h0, hq]
    | cons v t =>
      simp only
      refine ⟨by simp [abs, h0, hq], ?_⟩
      simp [abs, h0, hq]

theorem abs_put (h : Heap) (q : PolicyQ) (id : Nat) :
    q.abs.put h id = ((q.put h id).1.abs, (q.put h id).2) := by
  unfold LCache.put put
  simp only [abs_hasKey, abs_len]
  have hcap : q.abs.cap = q.cap := rfl
  rw [hcap]
  split
  · rfl
  · split
    · split
      · rfl
      · have := abs_evict q
        cases he : q.evict with
        | none =>
          rw [he] at this
          simp only at this
          simp [this]
        | some p =>
          obtain ⟨v, q'⟩ := p
          rw [he] at this
          simp only at this
          obtain ⟨h1, h2⟩ := this
          simp only [h1]
          have h3 : q'.used.reverse ++ q'.unused = q.abs.items.dropLast := by
            have := congrArg LCache.items h2
            simpa [abs] using this
          have h4 : q'.cap = q.cap := by
            have := congrArg LCache.cap h2
            simpa [abs] using this
          simp [abs, h3, h4]
    · split
      · simp [abs]
      · simp [abs]

/-- the policy's own look-up is the list's -/
theorem abs_lookup (q : PolicyQ) (k : Int) : lookup q.abs.items k = q.find k := by
  simp [abs, lookup, find, List.find?_append]

/-- `Get` and `Peek` of the list are the policy's `get` / `peek` (answer and successor) -/
theorem abs_get_full (kind : Kind) (h : Heap) (q : PolicyQ) (k : Int) :
    ((q.get (kind == .fifo) h k).1.abs = (q.abs.get kind h k).1) ∧
    (q.get (kind == .fifo) h k).2 = (q.abs.get kind h k).2 := by
  simp only [PolicyQ.get, LCache.get, abs_lookup]
  cases hl : q.find k with
  | none => exact ⟨rfl, rfl⟩
  | some e =>
    simp only
    cases kind <;> cases hu : (h e.id).used <;>
      simp [abs, removeKeyQ, removeKey, List.filter_append, List.filter_reverse]

theorem abs_peek (h : Heap) (q : PolicyQ) (k : Int) : q.peek h k = q.abs.peek h k := by
  simp only [PolicyQ.peek, LCache.peek, abs_lookup]
  cases q.find k <;> rfl

theorem abs_get (kind : Kind) (h : Heap) (q : PolicyQ) (k : Int) :
    (q.abs.get kind h k).2 = (lookup q.abs.items k).map (·.id) ∧
    ((q.abs.get kind h k).1 = q.abs ∨ (q.abs.get kind h k).1 = (q.removeKeyQ k).abs) := by
  unfold LCache.get
  cases hl : lookup q.abs.items k with
  | none => simp
  | some e =>
    simp only
    split
    · simp
    · refine ⟨rfl, Or.inr ?_⟩
      simp [abs, removeKeyQ, removeKey, List.filter_append, List.filter_reverse]

/-- LRU `Get` of a held key removes exactly that key from both queues -/
theorem abs_get_lru (h : Heap) (q : PolicyQ) (k : Int) (hk : q.holds k = true) :
    (q.abs.get .lru h k).1 = (q.removeKeyQ k).abs := by
  unfold LCache.get
  cases hl : lookup q.abs.items k with
  | none =>
    have := lookup_none hl
    rw [← abs_hasKey, hasKey_true] at hk
    obtain ⟨e, he, hek⟩ := hk
    exact absurd hek (this e he)
  | some e =>
    simp [abs, removeKeyQ, removeKey, List.filter_append, List.filter_reverse]

theorem dropBack_succ (items : List Entry) (n : Nat) :
    dropBack items ((n : Int) + 1) = (dropBack items n).dropLast := by
  unfold dropBack
  have h1 : ¬ ((n : Int) + 1 ≤ 0) := by omega
  rw [if_neg h1]
  by_cases h0 : (n : Int) ≤ 0
  · have : n = 0 := by omega
    subst this
    simp [List.dropLast_eq_take]
  · rw [if_neg h0]
    have e1 : ((n : Int) + 1).toNat = n + 1 := by omega
    have e2 : (n : Int).toNat = n := by omega
    rw [e1, e2, List.dropLast_eq_take, List.take_take, List.length_take]
    congr 1
    omega

theorem dropBack_dropLast (items : List Entry) (n : Nat) :
    dropBack items.dropLast n = (dropBack items n).dropLast := by
  unfold dropBack
  by_cases h0 : (n : Int) ≤ 0
  · rw [if_pos h0, if_pos h0]
  · rw [if_neg h0, if_neg h0]
    have e2 : (n : Int).toNat = n := by omega
    rw [e2, List.dropLast_eq_take, List.dropLast_eq_take, List.take_take, List.take_take,
      List.length_take, List.length_take]
    congr 1
    omega

theorem abs_dropN (q : PolicyQ) (n : Nat) : (q.dropN n).abs = q.abs.drop n := by
  induction n generalizing q with
  | zero => simp [dropN, LCache.drop, dropBack]
  | succ n ih =>
    unfold dropN
    have hev := abs_evict q
    cases he : q.evict with
    | none =>
      rw [he] at hev
      simp only at hev
      have : q.abs.items = [] := by simpa using hev
      simp [LCache.drop, dropBack, this]
      cases q; simp_all [abs]
    | some p =>
      obtain ⟨v, q'⟩ := p
      rw [he] at hev
      simp only at hev
      simp only
      rw [ih q', hev.2]
      simp only [LCache.drop]
      congr 1
      rw [Int.natCast_succ, dropBack_succ, dropBack_dropLast]

/-! ### whole histories -/

def resize (q : PolicyQ) (n : Int) : PolicyQ :=
  if n < q.len then { q.dropN (q.len - n).toNat with cap := n } else { q with cap := n }

def free (q : PolicyQ) (n : Int) : PolicyQ :=
  if n ≤ q.cap - q.len then q else q.dropN (n - (q.cap - q.len)).toNat

/-- the policy-level meaning of each call.  `Get` removes the key from its queue (FIFO: unless the block
found is `Used()`, as coded), see `PolicyQ.get`; nothing here refers to the linked list. -/
def step (kind : Kind) (h : Heap) (q : PolicyQ) : LOp → PolicyQ
  | .put id => (q.put h id).1
  | .get k => (q.get (kind == .fifo) h k).1
  | .peek _ => q
  | .drop n => q.dropN n.toNat
  | .resize n => q.resize n
  | .free n => q.free n

def run (kind : Kind) (q : PolicyQ) : List (Heap × LOp) → PolicyQ
  | [] => q
  | (h, op) :: rest => run kind (q.step kind h op) rest

theorem dropN_cap (q : PolicyQ) (n : Nat) : (q.dropN n).cap = q.cap := by
  have := congrArg LCache.cap (abs_dropN q n)
  simpa [abs, LCache.drop] using this

theorem abs_drop_int (q : PolicyQ) (n : Int) : (q.dropN n.toNat).abs = q.abs.drop n := by
  rw [abs_dropN]
  by_cases h : 0 ≤ n
  · rw [Int.toNat_of_nonneg h]
  · have h0 : n.toNat = 0 := by omega
    rw [h0]
    simp only [LCache.drop, dropBack]
    rw [if_pos (by omega), if_pos (by omega)]

theorem abs_step (kind : Kind) (h : Heap) (q : PolicyQ) (op : LOp) :
    (q.step kind h op).abs = q.abs.step kind h op := by
  cases op with
  | put id => simp only [step, LCache.step, abs_put]
  | get k =>
    simp only [step, LCache.step]
    exact (abs_get_full kind h q k).1
  | peek k => rfl
  | drop n => exact abs_drop_int q n
  | resize n =>
    simp only [step, LCache.step, resize, LCache.resize, ← abs_len]
    split
    · rename_i hlt
      have := abs_drop_int q (q.abs.items.length - n)
      generalize q.dropN ((q.abs.items.length : Int) - n).toNat = q' at *
      simp only [abs, LCache.drop, LCache.mk.injEq] at this ⊢
      exact ⟨trivial, this.2⟩
    · rfl
  | free n =>
    show (q.free n).abs = (q.abs.free n).1
    unfold PolicyQ.free LCache.free
    simp only
    rw [show q.abs.len = q.len from abs_len q, show q.abs.cap = q.cap from rfl]
    by_cases hle : n ≤ q.cap - q.len
    · rw [if_pos hle, if_pos hle]
    · rw [if_neg hle, if_neg hle]
      exact abs_drop_int q _

theorem abs_run (kind : Kind) (q : PolicyQ) (hist : List (Heap × LOp)) :
    (q.run kind hist).abs = q.abs.run kind hist := by
  induction hist generalizing q with
  | nil => rfl
  | cons x rest ih =>
    obtain ⟨h, op⟩ := x
    simp only [run, LCache.run]
    rw [ih, abs_step]

theorem abs_new (n : Int) : (PolicyQ.new n).abs = LCache.new n := rfl

end PolicyQ

end Hts.Spec.CacheContract
