/-
The output of the sorted mode does not depend on which minimal element the heap returns: for a strict
weak order `less` and distinct source ids the heap order is total on the heads, so the minimal element
is unique.  (This is what makes the exact-sequence comparison of the correspondence check meaningful:
the executable heap of the driver stands for any implementation satisfying the `Heap` laws.)
-/
import Hts.Lemmas.MergerSorted
namespace Hts.Model.Merger

theorem eq_of_id_eq : ∀ {l : List Live}, (l.map (·.id)).Nodup → ∀ {a b : Live}, a ∈ l → b ∈ l → a.id = b.id → a = b
  | [], _, _, _, ha, _, _ => by cases ha
  | c :: cs, hnd, a, b, ha, hb, h => by
    simp only [List.map_cons, List.nodup_cons, List.mem_map, not_exists, not_and] at hnd
    cases ha with
    | head =>
      cases hb with
      | head => rfl
      | tail _ hb => exact absurd h.symm (hnd.1 b hb)
    | tail _ ha =>
      cases hb with
      | head => exact absurd h (hnd.1 a ha)
      | tail _ hb => exact eq_of_id_eq hnd.2 ha hb h

/-- two heads neither of which is below the other in the heap order come from the same source -/
theorem heapLess_total (less : Less) (a b : Live) (h1 : heapLess less a b = false) (h2 : heapLess less b a = false) :
    a.id = b.id := by
  unfold heapLess at h1 h2
  cases hab : less a.head b.head <;> cases hba : less b.head a.head <;> simp [hab, hba] at h1 h2
  omega

def stepHeap (links : Option LinkFn) (x : Live) (rest : List Live) : List Live :=
  match x.src.rest with
  | r :: rs => { id := x.id, head := relink links x.id r, src := { x.src with rest := rs } } :: rest
  | [] => rest

def stepErr (x : Live) (err : Option Nat) : Option Nat :=
  match x.src.rest, x.src.term with
  | [], .err e => (match err with | none => some e | some _ => err)
  | _, _ => err

theorem StepFacts.eq {links : Option LinkFn} {x : Live} {rest heap' : List Live} {err err' : Option Nat}
    (hs : StepFacts links x rest err heap' err') : heap' = stepHeap links x rest ∧ err' = stepErr x err := by
  cases hs with
  | refill r rs h => simp [stepHeap, stepErr, h]
  | endEof h ht => simp [stepHeap, stepErr, h, ht]
  | endErr e h ht => cases err <;> simp [stepHeap, stepErr, h, ht]

theorem stepHeap_perm (links : Option LinkFn) (x : Live) {r1 r2 : List Live} (h : r1.Perm r2) :
    (stepHeap links x r1).Perm (stepHeap links x r2) := by
  unfold stepHeap
  cases x.src.rest with
  | nil => exact h
  | cons r rs => exact List.Perm.cons _ h

theorem stepHeap_nodup (links : Option LinkFn) (x : Live) (rest : List Live)
    (h : ((x :: rest).map (·.id)).Nodup) : ((stepHeap links x rest).map (·.id)).Nodup := by
  unfold stepHeap
  cases x.src.rest with
  | nil => exact (List.nodup_cons.1 h).2
  | cons r rs => exact h

theorem drainS_heap_independent (H1 H2 : Heap) (links : Option LinkFn) (less : Less) (sw : StrictWeak less) :
    ∀ n heap1 heap2 err, heap1.Perm heap2 → (heap1.map (·.id)).Nodup →
      drainS H1 links less n heap1 err = drainS H2 links less n heap2 err
  | 0, _, _, _, _, _ => rfl
  | n + 1, heap1, heap2, err, hperm, hnd => by
    cases heap1 with
    | nil =>
      have : heap2 = [] := hperm.symm.eq_nil
      subst this
      rw [drainS_nil, drainS_nil]
    | cons z zs =>
      have hne2 : heap2 ≠ [] := by
        intro h; subst h; exact absurd hperm.eq_nil (by simp)
      obtain ⟨x1, rest1, h1', e1', hp1, hperm1, hs1, hd1⟩ := drainS_cons H1 links less n (z :: zs) err (by simp)
      obtain ⟨x2, rest2, h2', e2', hp2, hperm2, hs2, hd2⟩ := drainS_cons H2 links less n heap2 err hne2
      have hsw := heapLess_strictWeak less sw
      have hmin1 := H1.pop_min _ _ _ _ hsw hp1
      have hmin2 := H2.pop_min _ _ _ _ hsw hp2
      have hx1 : x1 ∈ z :: zs := hperm1.mem_iff.1 List.mem_cons_self
      have hx2 : x2 ∈ z :: zs := hperm.mem_iff.2 (hperm2.mem_iff.1 List.mem_cons_self)
      have hx2' : x2 ∈ x1 :: rest1 := hperm1.mem_iff.2 hx2
      have hx1' : x1 ∈ x2 :: rest2 := hperm2.mem_iff.2 (hperm.mem_iff.1 hx1)
      have hxx : x1 = x2 := by
        cases hx2' with
        | head => rfl
        | tail _ h21 =>
          cases hx1' with
          | head => rfl
          | tail _ h12 =>
            exact eq_of_id_eq hnd hx1 hx2 (heapLess_total less x1 x2 (hmin2 x1 h12) (hmin1 x2 h21))
      subst hxx
      have hrest : rest1.Perm rest2 := (hperm1.trans (hperm.trans hperm2.symm)).cons_inv
      obtain ⟨rfl, rfl⟩ := hs1.eq
      obtain ⟨rfl, rfl⟩ := hs2.eq
      rw [hd1, hd2]
      have hnd1 : ((x1 :: rest1).map (·.id)).Nodup := (hperm1.map (·.id)).nodup_iff.2 hnd
      rw [drainS_heap_independent H1 H2 links less sw n _ _ _ (stepHeap_perm links x1 hrest)
        (stepHeap_nodup links x1 rest1 hnd1)]

/-- a second heap instance: the same scan over the reversed slice (prefers the right-most minimal element) -/
def scanHeapR : Heap where
  pop := fun lt l => popMin lt l.reverse
  pop_nil := fun _ => rfl
  pop_perm := fun lt l h => by
    obtain ⟨x, rest, hp, hperm⟩ := popMin_perm lt l.reverse (by simpa using h)
    exact ⟨x, rest, hp, hperm.trans (List.reverse_perm l)⟩
  pop_min := fun lt l x rest sw h => popMin_min lt sw l.reverse x rest h

/-! ### sorted + per-input order determine the list -/

theorem pairLess_total (less : Less) (p q : Nat × Rec) (h1 : pairLess less p q = false) (h2 : pairLess less q p = false) :
    p.1 = q.1 := by
  unfold pairLess at h1 h2
  cases hab : less p.2 q.2 <;> cases hba : less q.2 p.2 <;> simp [hab, hba] at h1 h2
  omega

/-- two lists of tagged records that are both sorted by (less, id) and contain, for every id, the same
records in the same order are equal -/
theorem sorted_stable_unique (less : Less) :
    ∀ (l1 l2 : List (Nat × Rec)), SortedBy (pairLess less) l1 → SortedBy (pairLess less) l2 →
      (∀ i : Nat, l1.filter (fun p => p.1 == i) = l2.filter (fun p => p.1 == i)) → l1 = l2
  | [], l2, _, _, hf => by
    cases l2 with
    | nil => rfl
    | cons b l2' =>
      have := hf b.1
      simp at this
  | a :: l1', l2, hs1, hs2, hf => by
    cases l2 with
    | nil =>
      have := hf a.1
      simp at this
    | cons b l2' =>
      have hab : a = b := by
        by_cases hid : b.1 = a.1
        · have := hf a.1
          simp only [List.filter_cons, beq_self_eq_true, if_true, hid] at this
          exact (List.cons.inj this).1
        · exfalso
          have hb1 : b ∈ l1' := by
            have hb : b ∈ (a :: l1').filter (fun p => p.1 == b.1) := by
              rw [hf b.1]; simp
            have := (List.mem_filter.1 hb).1
            cases this with
            | head => exact absurd rfl hid
            | tail _ h => exact h
          have ha2 : a ∈ l2' := by
            have ha : a ∈ (b :: l2').filter (fun p => p.1 == a.1) := by
              rw [← hf a.1]; simp
            have := (List.mem_filter.1 ha).1
            cases this with
            | head => exact absurd rfl hid
            | tail _ h => exact h
          have h1 : pairLess less b a = false := (List.pairwise_cons.1 hs1).1 b hb1
          have h2 : pairLess less a b = false := (List.pairwise_cons.1 hs2).1 a ha2
          exact hid (pairLess_total less b a h1 h2)
      subst hab
      congr 1
      refine sorted_stable_unique less l1' l2' (List.pairwise_cons.1 hs1).2 (List.pairwise_cons.1 hs2).2 ?_
      intro i
      have := hf i
      simp only [List.filter_cons] at this
      by_cases hi : (a.1 == i) = true
      · simp only [hi, if_true] at this
        exact (List.cons.inj this).2
      · have hi' : (a.1 == i) = false := by cases h : (a.1 == i) <;> simp_all
        simpa only [hi', Bool.false_eq_true, if_false] using this

end Hts.Model.Merger
