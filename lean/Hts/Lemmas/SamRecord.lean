/-
Record level: `UnmarshalSAM` of the line `MarshalSAM` prints is the canonical form of the record, for
every expressible record, with decimal or hexadecimal flags.  Core only.
-/
import Hts.Lemmas.SamAux
import Hts.Lemmas.SamCigar
namespace Hts.Model.SamText
open Hts.Model.Coord (CigarOp cigarIsValid)
open Hts.Spec.SamLine (QNameChar RNameOK RNameChar)

@[simp] theorem except_ok_bind {α β : Type} (a : α) (f : α → Except Fault β) : (Except.ok a >>= f) = f a := rfl
@[simp] theorem ofOpt_some {α : Type} (a : α) : ofOpt (some a) = .ok a := rfl

theorem wrap64_id (x : Int) (h1 : -9223372036854775808 ≤ x) (h2 : x < 9223372036854775808) : wrap64 x = x := by
  unfold wrap64; omega

/-! ### references -/

theorem findRef_spec (refs : List (Bytes × Nat)) : ∀ (i j : Nat) (name : Bytes) (len : Nat),
    refs[j]? = some (name, len) → (refs.map (·.1)).Nodup →
    findRef refs name i = some ⟨((i + j : Nat) : Int), name, len⟩ := by
  induction refs with
  | nil => intro i j name len h; simp at h
  | cons p rest ih =>
    intro i j name len h hnd
    rw [findRef]
    cases j with
    | zero =>
      simp only [List.getElem?_cons_zero, Option.some.injEq] at h
      subst h
      simp
    | succ j =>
      simp only [List.getElem?_cons_succ] at h
      simp only [List.map_cons, List.nodup_cons] at hnd
      have hne : p.1 ≠ name := by
        intro e
        apply hnd.1
        rw [e]
        have := List.mem_of_getElem? h
        exact List.mem_map.mpr ⟨(name, len), this, rfl⟩
      simp only [hne, if_false]
      rw [ih (i + 1) j name len h hnd.2]
      congr 2
      omega

theorem rnameOK_ne (n : Bytes) (h : RNameOK n) : n ≠ [42] ∧ n ≠ [61] := by
  unfold RNameOK at h
  cases n with
  | nil => exact absurd h (by simp)
  | cons c rest =>
    simp only at h
    constructor <;> intro e <;> injection e with e1 _
    · exact h.1 e1
    · exact h.2.1 e1

theorem refIn_name (h : Header) (hh : HeaderOK h) (x : Ref) (hx : RefIn h x) : RNameOK x.name := by
  unfold RefIn Header.refAt at hx
  obtain ⟨_, hx⟩ := hx
  cases hg : h.refs[x.id.toNat]? with
  | none => rw [hg] at hx; simp at hx
  | some p =>
    rw [hg] at hx
    simp only [Option.map_some, Option.some.injEq] at hx
    have := hh.1 p (List.mem_of_getElem? hg)
    rw [← hx]; exact this

/-- `referenceForName` finds the header's reference of that name -/
theorem referenceForName_refIn (h : Header) (hh : HeaderOK h) (x : Ref) (hx : RefIn h x) :
    referenceForName (some h) x.name = .ok (some x) := by
  have hn := rnameOK_ne x.name (refIn_name h hh x hx)
  unfold RefIn Header.refAt at hx
  obtain ⟨h0, hx⟩ := hx
  cases hg : h.refs[x.id.toNat]? with
  | none => rw [hg] at hx; simp at hx
  | some p =>
    rw [hg] at hx
    simp only [Option.map_some, Option.some.injEq] at hx
    have hp : p = (x.name, x.len) := by rw [← hx]
    rw [hp] at hg
    have := findRef_spec h.refs 0 x.id.toNat x.name x.len hg hh.2
    unfold referenceForName
    simp only [hn.1, if_false, this]
    have hid : ((0 + x.id.toNat : Nat) : Int) = x.id := by omega
    rw [hid]

theorem referenceForName_opt (h : Header) (hh : HeaderOK h) (x : Option Ref) (hx : OptRefIn h x) :
    referenceForName (some h) (refName x) = .ok x := by
  cases x with
  | none => simp [referenceForName, refName]
  | some x => exact referenceForName_refIn h hh x hx

/-- two references of one header with the same name are the same reference -/
theorem refIn_unique (h : Header) (hh : HeaderOK h) (x y : Ref) (hx : RefIn h x) (hy : RefIn h y)
    (hn : x.name = y.name) : x = y := by
  have h1 := referenceForName_refIn h hh x hx
  have h2 := referenceForName_refIn h hh y hy
  rw [hn, h2] at h1
  injection h1 with h1
  injection h1 with h1
  exact h1.symm

/-- RNEXT round trip -/
theorem parseMateRef_format (h : Header) (hh : HeaderOK h) (ref mate : Option Ref)
    (hr : OptRefIn h ref) (hm : OptRefIn h mate) :
    parseMateRef (some h) ref (refName ref) (formatMate ref mate) = .ok mate := by
  unfold parseMateRef formatMate
  cases mate with
  | none =>
    cases ref with
    | none => simp [refName]
    | some x =>
      have := rnameOK_ne x.name (refIn_name h hh x hr)
      simp only [refName, this.1, false_or]
      rw [if_neg (by decide)]
      simp [referenceForName]
  | some m =>
    have hmn := rnameOK_ne m.name (refIn_name h hh m hm)
    by_cases he : ref = some m
    · simp [he]
    · simp only [he, if_false]
      cases ref with
      | none =>
        simp only [refName]
        have hcond : ¬ (([42] : Bytes) = m.name ∨ m.name = [61]) := by
          intro hc
          rcases hc with hc | hc
          · exact hmn.1 hc.symm
          · exact hmn.2 hc
        simp only [hcond, if_false]
        exact referenceForName_refIn h hh m hm
      | some x =>
        simp only [refName]
        by_cases hxm : x.name = m.name
        · exact absurd (by rw [refIn_unique h hh x m hr hm hxm]) he
        · have hcond : ¬ (x.name = m.name ∨ m.name = [61]) := by
            intro hc
            rcases hc with hc | hc
            · exact hxm hc
            · exact hmn.2 hc
          simp only [hcond, if_false]
          exact referenceForName_refIn h hh m hm

theorem refName_no_sep (h : Header) (hh : HeaderOK h) (x : Option Ref) (hx : OptRefIn h x) :
    ∀ c ∈ refName x, c ≠ 9 ∧ c ≠ 10 ∧ c ≠ 13 := by
  intro c hc
  cases x with
  | none => simp [refName] at hc; subst hc; decide
  | some x =>
    have hn := refIn_name h hh x hx
    unfold RNameOK at hn
    simp only [refName] at hc
    cases hxn : x.name with
    | nil => rw [hxn] at hn; exact absurd hn (by simp)
    | cons d rest =>
      rw [hxn] at hn hc
      simp only at hn
      have hch : RNameChar c := by
        simp only [List.mem_cons] at hc
        rcases hc with rfl | hc
        · exact hn.2.2.1
        · exact hn.2.2.2 c hc
      exact ge32_no_sep c (UInt8.le_trans (by decide) hch.1)

theorem formatMate_no_sep (h : Header) (hh : HeaderOK h) (ref mate : Option Ref) (hm : OptRefIn h mate) :
    ∀ c ∈ formatMate ref mate, c ≠ 9 ∧ c ≠ 10 ∧ c ≠ 13 := by
  intro c hc
  unfold formatMate at hc
  cases mate with
  | none => simp at hc; subst hc; decide
  | some m =>
    simp only at hc
    split at hc
    · simp at hc; subst hc; decide
    · exact refName_no_sep h hh (some m) hm c hc

/-! ### flags, MAPQ -/

theorem parse_formatFlags (fl : UInt16) (f : FlagFmt) (hf : f = .dec ∨ f = .hex) :
    parseUintGo (formatFlags fl f) 0 16 = some fl.toNat := by
  have : fl.toNat < 2 ^ 16 := fl.toNat_lt
  rcases hf with rfl | rfl
  · exact parseUintGo_showNat_0 _ _ this
  · exact parseUintGo_hex _ _ this

theorem formatFlags_no_sep (fl : UInt16) (f : FlagFmt) (hf : f = .dec ∨ f = .hex) :
    ∀ c ∈ formatFlags fl f, c ≠ 9 ∧ c ≠ 10 ∧ c ≠ 13 := by
  intro c hc
  rcases hf with rfl | rfl
  · have := showNat_no_sep _ c hc; exact ⟨this.1, this.2.2⟩
  · simp only [formatFlags, List.mem_cons] at hc
    rcases hc with rfl | rfl | hc
    · decide
    · decide
    · obtain ⟨d, hd, rfl⟩ := showHex_digits _ c hc
      have key : ∀ d, d < 16 → hexDigitLower d ≠ 9 ∧ hexDigitLower d ≠ 10 ∧ hexDigitLower d ≠ 13 := by decide
      exact key d hd

/-! ### the whole record -/

theorem mapM_except_map {α β : Type} (f : α → β) (g : β → Except Fault α) (k : α → α) (l : List α)
    (h : ∀ x ∈ l, g (f x) = .ok (k x)) : (l.map f).mapM g = .ok (l.map k) := by
  induction l with
  | nil => rfl
  | cons x l ih =>
    simp only [List.map_cons, List.mapM_cons, h x List.mem_cons_self,
      ih (fun y hy => h y (List.mem_cons_of_mem _ hy))]
    rfl

/-- no field of an expressible record's line contains TAB, LF or CR -/
theorem recordFields_no_sep {ft : FloatText} (L : FloatLaws ft) (h : Header) (hh : HeaderOK h) (f : FlagFmt)
    (hf : f = .dec ∨ f = .hex) (r : Record) (he : Expressible h r) :
    ∀ fld ∈ recordFields ft f r, ∀ c ∈ fld, c ≠ 9 ∧ c ≠ 10 ∧ c ≠ 13 := by
  obtain ⟨hname, href, hmate, hints, hcig, hqual, haux⟩ := he
  intro fld hfld c hc
  simp only [recordFields, List.cons_append, List.nil_append, List.mem_cons, List.mem_map] at hfld
  have hsi : ∀ i : Int, ∀ c ∈ showInt i, c ≠ 9 ∧ c ≠ 10 ∧ c ≠ 13 := fun i c hc => by
    have := showInt_no_sep i c hc; exact ⟨this.1, this.2.2⟩
  rcases hfld with rfl | rfl | rfl | rfl | rfl | rfl | rfl | rfl | rfl | rfl | rfl | hfld
  · have := hname.2.2 c hc
    unfold QNameChar at this
    rcases this with this | this
    · exact ge32_no_sep c (UInt8.le_trans (by decide) this.1)
    · exact ge32_no_sep c (UInt8.le_trans (by decide) this.1)
  · exact formatFlags_no_sep _ f hf c hc
  · exact refName_no_sep h hh _ href c hc
  · exact hsi _ c hc
  · have := showNat_no_sep _ c hc; exact ⟨this.1, this.2.2⟩
  · have hc9 : ∀ co ∈ r.cigar, co.typ ≤ 9 := fun co hco => Nat.le_succ_of_le (hcig.1 co hco).1
    unfold formatCigar at hc
    split at hc
    · simp at hc; subst hc; decide
    · simp only [List.mem_flatMap, List.mem_append, List.mem_singleton] at hc
      obtain ⟨co, hco, hc | hc⟩ := hc
      · have := showNat_no_sep _ c hc; exact ⟨this.1, this.2.2⟩
      · subst hc
        have := opLetter_facts co.typ (hc9 co hco)
        exact ⟨this.2.2.1, this.2.2.2.2, by
          have key : ∀ t, t ≤ 9 → opLetter t ≠ 13 := by decide
          exact key _ (hc9 co hco)⟩
  · exact formatMate_no_sep h hh _ _ hmate c hc
  · exact hsi _ c hc
  · exact hsi _ c hc
  · exact formatSeq_no_sep _ c hc
  · exact formatQual_no_sep r hqual c hc
  · obtain ⟨a, ha, rfl⟩ := hfld
    exact formatAux_no_sep L a (haux a ha) c hc

theorem checkCigar_ok (r : Record) (h : CigarOK r) :
    checkCigar (formatSeq r.seq != [42]) r.cigar r.seq.length = .ok () := by
  unfold checkCigar
  rcases h.2 with h2 | h2 | h2
  · simp [h2]
  · simp [h2, formatSeq]
  · split
    · rw [h2]
    · rfl

theorem checkQualLen_ok (r : Record) (h : QualOK r) : checkQualLen (canonQual r) r.seq.length = .ok () := by
  unfold checkQualLen
  split
  · rename_i q hq
    have := canonQual_length r q h hq
    simp [this]
  · rfl

/-- UnmarshalSAM of the fields MarshalSAM prints, for any way `ho` of resolving reference names that
returns `g x` for the name of `x`: the canonical form of the record with those references -/
theorem parseRecord_format_gen {ft : FloatText} (L : FloatLaws ft) (ho : Option Header) (g : Ref → Ref)
    (h : Header) (hh : HeaderOK h) (f : FlagFmt) (hf : f = .dec ∨ f = .hex) (r : Record) (he : Expressible h r)
    (H1 : referenceForName ho (refName r.ref) = .ok (r.ref.map g))
    (H2 : parseMateRef ho (r.ref.map g) (refName r.ref) (formatMate r.ref r.mateRef) = .ok (r.mateRef.map g)) :
    parseRecord ft ho (joinWith 9 (recordFields ft f r)) =
      .ok { canonRecord L r with ref := r.ref.map g, mateRef := r.mateRef.map g } := by
  have hsep := recordFields_no_sep L h hh f hf r he
  have hsplit : splitOn 9 (joinWith 9 (recordFields ft f r)) = recordFields ft f r :=
    splitOn_joinWith 9 _ (by simp [recordFields]) (fun fld hfld c hc => (hsep fld hfld c hc).1)
  obtain ⟨hname, href, hmate, hints, hcig, hqual, haux⟩ := he
  obtain ⟨hp1, hp2, hm1, hm2, ht1, ht2⟩ := hints
  unfold parseRecord
  rw [hsplit]
  simp only [recordFields, List.cons_append, List.nil_append]
  rw [parse_formatFlags r.flags f hf]
  rw [H1]
  rw [wrap64_id (r.pos + 1) (by omega) (by omega), atoi_showInt (r.pos + 1) (by omega) (by omega)]
  rw [parseUintGo_showNat_10 r.mapq.toNat 8 r.mapq.toNat_lt]
  rw [parseCigar_formatCigar r.cigar (fun co hco => ⟨Nat.le_succ_of_le (hcig.1 co hco).1, (hcig.1 co hco).2⟩)]
  simp only [ofOpt_some, except_ok_bind]
  rw [H2]
  rw [wrap64_id (r.matePos + 1) (by omega) (by omega), atoi_showInt (r.matePos + 1) (by omega) (by omega)]
  rw [atoi_showInt r.tempLen (by omega) (by omega)]
  simp only [ofOpt_some, except_ok_bind]
  have hseq : parseSeq (formatSeq r.seq) = r.seq := parse_formatSeq r.seq
  rw [hseq, checkCigar_ok r hcig, parseQual_formatQual r hqual, checkQualLen_ok r hqual]
  simp only [except_ok_bind]
  rw [mapM_except_map (formatAux ft) (parseAux ft) (canonAux L) r.aux
    (fun a ha => parseAux_formatAux L a (auxRep_of_auxOK a (haux a ha)))]
  simp only [except_ok_bind]
  have e1 : r.pos + 1 - 1 = r.pos := by omega
  have e2 : r.matePos + 1 - 1 = r.matePos := by omega
  rw [e1, e2, wrap64_id r.pos hp1 (by omega), wrap64_id r.matePos hm1 (by omega)]
  show Except.ok _ = Except.ok _
  congr 1
  unfold canonRecord
  cases r
  simp

/-- against the record's own header: the canonical form of the record -/
theorem parseRecord_format {ft : FloatText} (L : FloatLaws ft) (h : Header) (hh : HeaderOK h) (f : FlagFmt)
    (hf : f = .dec ∨ f = .hex) (r : Record) (he : Expressible h r) :
    parseRecord ft (some h) (joinWith 9 (recordFields ft f r)) = .ok (canonRecord L r) := by
  have := parseRecord_format_gen L (some h) id h hh f hf r he
    (by rw [Option.map_id]; exact referenceForName_opt h hh r.ref he.2.1)
    (by simp only [Option.map_id, id]; exact parseMateRef_format h hh r.ref r.mateRef he.2.1 he.2.2.1)
  rw [this]
  simp only [Option.map_id, id]
  rfl

/-! ### without a header: fake references carrying the names -/

/-- the reference UnmarshalSAM makes up for a name when it has no header -/
def fakeRef (x : Ref) : Ref := ⟨-1, x.name, 0⟩

def fakeRefs (r : Record) : Record := { r with ref := r.ref.map fakeRef, mateRef := r.mateRef.map fakeRef }

theorem referenceForName_nil (h : Header) (hh : HeaderOK h) (x : Option Ref) (hx : OptRefIn h x) :
    referenceForName none (refName x) = .ok (x.map fakeRef) := by
  cases x with
  | none => simp [referenceForName, refName]
  | some x =>
    have hn := rnameOK_ne x.name (refIn_name h hh x hx)
    simp [referenceForName, refName, hn.1, fakeRef]

theorem parseMateRef_nil (h : Header) (hh : HeaderOK h) (ref mate : Option Ref)
    (hr : OptRefIn h ref) (hm : OptRefIn h mate) :
    parseMateRef none (ref.map fakeRef) (refName ref) (formatMate ref mate) = .ok (mate.map fakeRef) := by
  unfold parseMateRef formatMate
  cases mate with
  | none =>
    cases ref with
    | none => simp [refName]
    | some x =>
      have := rnameOK_ne x.name (refIn_name h hh x hr)
      have hcond : ¬ (x.name = ([42] : Bytes) ∨ ([42] : Bytes) = [61]) := by
        intro hc; rcases hc with hc | hc
        · exact this.1 hc
        · exact absurd hc (by decide)
      simp only [refName, hcond, if_false]
      simp [referenceForName]
  | some m =>
    have hmn := rnameOK_ne m.name (refIn_name h hh m hm)
    by_cases he : ref = some m
    · simp [he]
    · simp only [he, if_false]
      cases ref with
      | none =>
        have hcond : ¬ (([42] : Bytes) = m.name ∨ m.name = [61]) := by
          intro hc; rcases hc with hc | hc
          · exact hmn.1 hc.symm
          · exact hmn.2 hc
        simp only [refName, hcond, if_false]
        simp [referenceForName, hmn.1, fakeRef]
      | some x =>
        by_cases hxm : x.name = m.name
        · exact absurd (by rw [refIn_unique h hh x m hr hm hxm]) he
        · have hcond : ¬ (x.name = m.name ∨ m.name = [61]) := by
            intro hc; rcases hc with hc | hc
            · exact hxm hc
            · exact hmn.2 hc
          simp only [refName, hcond, if_false]
          simp [referenceForName, hmn.1, fakeRef]

/-- UnmarshalSAM with a nil header: the same record with fake references for the names -/
theorem parseRecord_format_nil {ft : FloatText} (L : FloatLaws ft) (h : Header) (hh : HeaderOK h) (f : FlagFmt)
    (hf : f = .dec ∨ f = .hex) (r : Record) (he : Expressible h r) :
    parseRecord ft none (joinWith 9 (recordFields ft f r)) = .ok (fakeRefs (canonRecord L r)) :=
  parseRecord_format_gen L none fakeRef h hh f hf r he
    (referenceForName_nil h hh r.ref he.2.1) (parseMateRef_nil h hh r.ref r.mateRef he.2.1 he.2.2.1)

/-- fake references print like the header's: same names, and `=` exactly when read and mate share the
reference (names are unique in the header) -/
theorem recordFields_fakeRefs {ft : FloatText} (h : Header) (hh : HeaderOK h) (f : FlagFmt) (r : Record)
    (hr : OptRefIn h r.ref) (hm : OptRefIn h r.mateRef) :
    recordFields ft f (fakeRefs r) = recordFields ft f r := by
  have h1 : refName (r.ref.map fakeRef) = refName r.ref := by cases r.ref <;> rfl
  have h2 : formatMate (r.ref.map fakeRef) (r.mateRef.map fakeRef) = formatMate r.ref r.mateRef := by
    unfold formatMate
    cases hmr : r.mateRef with
    | none => rfl
    | some m =>
      rw [hmr] at hm
      cases hrr : r.ref with
      | none => simp [fakeRef]
      | some x =>
        rw [hrr] at hr
        simp only [Option.map_some, Option.some.injEq]
        by_cases hxm : x = m
        · subst hxm; simp
        · have hne : x.name ≠ m.name := fun e => hxm (refIn_unique h hh x m hr hm e)
          simp [hxm, hne, fakeRef]
  unfold recordFields fakeRefs
  simp only [h1, h2]

/-! ### formatting the parsed-back record, field equality -/

theorem formatRecord_ok {ft : FloatText} (f : FlagFmt) (r : Record) (h : QualOK r) :
    formatRecord ft f r = .ok (joinWith 9 (recordFields ft f r)) := by
  unfold formatRecord
  unfold QualOK at h
  cases hq : r.qual with
  | none => rfl
  | some q => rw [hq] at h; simp [h.1]

theorem recordFields_canon {ft : FloatText} (L : FloatLaws ft) (f : FlagFmt) (r : Record) :
    recordFields ft f (canonRecord L r) = recordFields ft f r := by
  unfold recordFields canonRecord
  simp only [formatQual_canonQual, List.map_map]
  congr 2
  funext a
  exact formatAux_canonAux L a

theorem formatRecord_canon {ft : FloatText} (L : FloatLaws ft) (f : FlagFmt) (r : Record) (h : QualOK r) :
    formatRecord ft f (canonRecord L r) = .ok (joinWith 9 (recordFields ft f r)) := by
  rw [← recordFields_canon L f r]
  unfold formatRecord
  cases hq : (canonRecord L r).qual with
  | none => rfl
  | some q =>
    have : q.length = r.seq.length := canonQual_length r q h hq
    have hs : (canonRecord L r).seq = r.seq := rfl
    simp [this, hs]

theorem eq_replicate_of_all (q : Bytes) (n : Nat) (hl : q.length = n) (h : ∀ v ∈ q, v = 255) :
    q = List.replicate n 255 := by
  rw [List.eq_replicate_iff]; exact ⟨hl, h⟩

theorem qualView_canon {ft : FloatText} (L : FloatLaws ft) (r : Record) (h : QualOK r) :
    qualView r = qualView (canonRecord L r) := by
  unfold QualOK at h
  unfold qualView canonRecord canonQual
  simp only
  cases hq : r.qual with
  | none =>
    simp only
    split
    · rename_i heq; split at heq
      · exact absurd heq (by simp)
      · rename_i hn; simp at hn; simp [hn]
    · rename_i q' heq
      split at heq
      · injection heq with e
      · exact absurd heq (by simp)
  | some q =>
    rw [hq] at h
    simp only
    by_cases hany : q.any (· != 255) = true
    · simp [hany]
    · have hany' : q.any (· != 255) = false := by simpa using hany
      have hq255 := eq_replicate_of_all q r.seq.length h.1 (any_ne_false q hany')
      simp only [hany', Bool.false_eq_true, if_false]
      split
      · rename_i heq
        split at heq
        · exact absurd heq (by simp)
        · rename_i hn; simp at hn; rw [hq255, hn]
      · rename_i q' heq
        split at heq
        · injection heq with e; rw [← e]; exact hq255
        · exact absurd heq (by simp)

theorem listRel_auxEq_canon {ft : FloatText} (L : FloatLaws ft) (l : List Aux) :
    listRel auxEq l (l.map (canonAux L)) := by
  induction l with
  | nil => trivial
  | cons a l ih => exact ⟨auxEq_canonAux L a, ih⟩

theorem fieldsEq_canon {ft : FloatText} (L : FloatLaws ft) (r : Record) (h : QualOK r) :
    fieldsEq r (canonRecord L r) :=
  ⟨rfl, rfl, rfl, rfl, rfl, rfl, rfl, rfl, rfl, rfl, qualView_canon L r h, listRel_auxEq_canon L r.aux⟩

end Hts.Model.SamText
