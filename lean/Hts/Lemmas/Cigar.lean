/-
CIGAR arithmetic of the model equals the specification (SAM §1.4.6), for every CIGAR.  Core only.
-/
import Hts.Lemmas.Coord
namespace Hts.Model.Coord
open Hts.Spec.Coord (refLen queryLen refConsuming queryConsuming refMove posAfter maxReach)

theorem typ_cases (t : Nat) (h : t ≤ 9) :
    t = 0 ∨ t = 1 ∨ t = 2 ∨ t = 3 ∨ t = 4 ∨ t = 5 ∨ t = 6 ∨ t = 7 ∨ t = 8 ∨ t = 9 := by omega

/-- the table row of a standard (or B) operation, in the specification's terms -/
theorem consumes_spec (t : Nat) (h : t ≤ 9) :
    consumes t = some ((if queryConsuming t then 1 else 0),
      (if refConsuming t then 1 else if t = 9 then -1 else 0)) := by
  rcases typ_cases t h with h | h | h | h | h | h | h | h | h | h <;> subst h <;> rfl

theorem refLen_cons (co : CigarOp) (rest : List CigarOp) :
    refLen (co :: rest) = (if refConsuming co.typ then (co.len : Int) else 0) + refLen rest := rfl
theorem queryLen_cons (co : CigarOp) (rest : List CigarOp) :
    queryLen (co :: rest) = (if queryConsuming co.typ then (co.len : Int) else 0) + queryLen rest := rfl
theorem maxReach_cons (pos : Int) (co : CigarOp) (rest : List CigarOp) :
    maxReach pos (co :: rest) =
      if pos < maxReach (pos + refMove co) rest then maxReach (pos + refMove co) rest else pos := rfl

theorem lengthsLoop_spec (c : List CigarOp) : ∀ ref read, (∀ co, co ∈ c → co.typ ≤ 9) →
    lengthsLoop ref read c = some (ref + refLen c, read + queryLen c) := by
  induction c with
  | nil => intro ref read _; simp [lengthsLoop, refLen, queryLen]
  | cons co rest ih =>
    intro ref read h
    have ht := h co List.mem_cons_self
    unfold lengthsLoop
    rw [consumes_spec co.typ ht]
    simp only
    rw [ih _ _ (fun x hx => h x (List.mem_cons_of_mem _ hx))]
    rw [refLen_cons, queryLen_cons]
    rcases typ_cases co.typ ht with e | e | e | e | e | e | e | e | e | e <;>
      simp [e, typB, refConsuming, queryConsuming] <;> omega

theorem maxReach_ge (c : List CigarOp) : ∀ pos, pos ≤ maxReach pos c := by
  induction c with
  | nil => intro pos; exact Int.le_refl _
  | cons co rest ih => intro pos; rw [maxReach_cons]; split <;> omega

theorem endLoop_spec (c : List CigarOp) : ∀ pos e, pos ≤ e → (∀ co, co ∈ c → co.typ ≤ 9) →
    endLoop pos e c = some (if e < maxReach pos c then maxReach pos c else e) := by
  induction c with
  | nil => intro pos e h _; simp [endLoop, maxReach]; omega
  | cons co rest ih =>
    intro pos e hpe h
    have ht := h co List.mem_cons_self
    unfold endLoop
    rw [consumes_spec co.typ ht]
    simp only
    have hm : pos + (co.len : Int) * (if refConsuming co.typ then 1 else if co.typ = 9 then -1 else 0)
        = pos + refMove co := by
      unfold refMove
      split
      · omega
      · split <;> omega
    simp only [hm]
    rw [ih _ _ (by split <;> omega) (fun x hx => h x (List.mem_cons_of_mem _ hx))]
    have := maxReach_ge rest (pos + refMove co)
    rw [maxReach_cons]
    congr 1
    repeat' split
    all_goals omega

/-- without `B` the walk only moves right: the highest coordinate is the last one, pos + refLen -/
theorem maxReach_noB (c : List CigarOp) : ∀ pos, (∀ co, co ∈ c → co.typ ≤ 8) →
    maxReach pos c = pos + refLen c := by
  induction c with
  | nil => intro pos _; simp [maxReach, refLen]
  | cons co rest ih =>
    intro pos h
    have ht := h co List.mem_cons_self
    rw [maxReach_cons, refLen_cons]
    rw [ih _ (fun x hx => h x (List.mem_cons_of_mem _ hx))]
    have hnn : 0 ≤ refLen rest := by
      clear ih
      induction rest with
      | nil => simp [refLen]
      | cons a r ih2 =>
        rw [refLen_cons]
        have := ih2 (fun x hx => h x (by
          cases hx with
          | head => exact List.mem_cons_self
          | tail _ hm => exact List.mem_cons_of_mem _ (List.mem_cons_of_mem _ hm)))
        split <;> omega
    have hmv : refMove co = if refConsuming co.typ then (co.len : Int) else 0 := by
      unfold refMove
      split
      · rfl
      · have : co.typ ≠ 9 := by omega
        simp [this]
    rw [hmv]
    split <;> split <;> omega

/-- every prefix position is below the reach, and the reach is a prefix position -/
theorem maxReach_is_max (c : List CigarOp) : ∀ pos,
    (∀ k, posAfter pos (c.take k) ≤ maxReach pos c) ∧ (∃ k, maxReach pos c = posAfter pos (c.take k)) := by
  induction c with
  | nil => intro pos; exact ⟨fun k => by simp [posAfter, maxReach], ⟨0, rfl⟩⟩
  | cons co rest ih =>
    intro pos
    obtain ⟨h1, k, hk⟩ := ih (pos + refMove co)
    have hge := maxReach_ge rest (pos + refMove co)
    constructor
    · intro k'
      cases k' with
      | zero => simp only [List.take_zero, posAfter]; rw [maxReach_cons]; split <;> omega
      | succ k' =>
        simp only [List.take_succ_cons, posAfter]
        have := h1 k'
        rw [maxReach_cons]; split <;> omega
    · rw [maxReach_cons]
      split
      · exact ⟨k + 1, by simp only [List.take_succ_cons, posAfter]; exact hk⟩
      · exact ⟨0, rfl⟩

/-! ### Cigar.IsValid: the loop equals the declarative validity conditions -/

/-- operation type at index `i` of the CIGAR, if any -/
def typAt (c : List CigarOp) (i : Nat) : Option Nat := (c[i]?).map (·.typ)

/-- SAM §1.4.6: `H` can only be present as the first and/or last operation -/
def HCond (c : List CigarOp) (i : Nat) : Prop :=
  typAt c i = some typH → i = 0 ∨ i = c.length - 1

/-- `S` may only have `H` operations between it and the ends of the CIGAR string
(as the library reads it: an inner `S` must be adjacent to an `H`) -/
def SCond (c : List CigarOp) (i : Nat) : Prop :=
  typAt c i = some typS → i = 0 ∨ i = c.length - 1 ∨ typAt c (i - 1) = some typH ∨ typAt c (i + 1) = some typH

theorem typAt_mid (pre : List CigarOp) (co : CigarOp) (rest : List CigarOp) :
    typAt (pre ++ co :: rest) pre.length = some co.typ := by
  simp [typAt]

theorem typAt_next (pre : List CigarOp) (co : CigarOp) (rest : List CigarOp) :
    typAt (pre ++ co :: rest) (pre.length + 1) = rest.head?.map (·.typ) := by
  unfold typAt
  rw [List.getElem?_append_right (by omega)]
  have : pre.length + 1 - pre.length = 1 := by omega
  rw [this]
  cases rest <;> simp

theorem typAt_prev (pre : List CigarOp) (co : CigarOp) (rest : List CigarOp) (h : pre ≠ []) :
    typAt (pre ++ co :: rest) (pre.length - 1) = pre.getLast?.map (·.typ) := by
  unfold typAt
  have hl : 0 < pre.length := List.length_pos_iff.mpr h
  rw [List.getElem?_append_left (by omega)]
  rw [List.getLast?_eq_getElem?]

theorem isValidLoop_spec (suf : List CigarOp) : ∀ (pre : List CigarOp) (pos length : Int), 0 ≤ pos →
    (∀ co, co ∈ pre ++ suf → co.typ ≤ 8) →
    ∃ b, isValidLoop (pre ++ suf).length pre.length pre.getLast? pos length suf = some b ∧
      (b = true ↔ (∀ j, pre.length ≤ j → HCond (pre ++ suf) j ∧ SCond (pre ++ suf) j) ∧ length = queryLen suf) := by
  induction suf with
  | nil =>
    intro pre pos length _ _
    refine ⟨length == 0, by simp [isValidLoop], ?_⟩
    simp only [beq_iff_eq, List.append_nil, queryLen]
    have hall : ∀ j, pre.length ≤ j → HCond pre j ∧ SCond pre j := by
      intro j hj
      have : typAt pre j = none := by
        unfold typAt; rw [List.getElem?_eq_none (by omega)]; rfl
      simp [HCond, SCond, this]
    exact ⟨fun h => ⟨hall, h⟩, fun h => h.2⟩
  | cons co rest ih =>
    intro pre pos length hpos hstd
    have hco : co.typ ≤ 8 := hstd co (by simp)
    have hcons := consumes_spec co.typ (by omega)
    have hmid := typAt_mid pre co rest
    have hnext := typAt_next pre co rest
    have hprev := typAt_prev pre co rest
    have hassoc : (pre ++ [co]) ++ rest = pre ++ co :: rest := by simp
    generalize hc : pre ++ co :: rest = c at *
    unfold isValidLoop
    simp only []
    by_cases hH : co.typ = typH ∧ (pre.length ≠ 0 ∧ pre.length ≠ c.length - 1)
    · -- inner H: rejected
      rw [if_pos hH]
      refine ⟨false, rfl, ?_⟩
      simp only [Bool.false_eq_true, false_iff, not_and]
      intro hall
      exfalso
      have := (hall pre.length (Nat.le_refl _)).1
      unfold HCond at this
      rw [hmid, hH.1] at this
      rcases this rfl with h | h
      · exact hH.2.1 h
      · exact hH.2.2 h
    · rw [if_neg hH]
      by_cases hS : co.typ = typS ∧ (pre.length ≠ 0 ∧ pre.length ≠ c.length - 1) ∧
          (pre.getLast?.map (·.typ)) ≠ some typH ∧ (rest.head?.map (·.typ)) ≠ some typH
      · rw [if_pos hS]
        refine ⟨false, rfl, ?_⟩
        simp only [Bool.false_eq_true, false_iff, not_and]
        intro hall
        exfalso
        have := (hall pre.length (Nat.le_refl _)).2
        unfold SCond at this
        rw [hmid, hS.1] at this
        have hpre : pre ≠ [] := by
          intro h; exact hS.2.1.1 (by simp [h])
        rcases this rfl with h | h | h | h
        · exact hS.2.1.1 h
        · exact hS.2.1.2 h
        · rw [hprev hpre] at h; exact hS.2.2.1 h
        · rw [hnext] at h; exact hS.2.2.2 h
      · rw [if_neg hS, hcons]
        simp only []
        have hq : ¬ (pos < 0 ∧ (if queryConsuming co.typ = true then (1 : Int) else 0) ≠ 0) := by omega
        rw [if_neg hq]
        have hpos' : 0 ≤ pos + (co.len : Int) * (if refConsuming co.typ = true then 1 else if co.typ = 9 then -1 else 0) := by
          have : co.typ ≠ 9 := by omega
          simp only [this, if_false]
          split <;> omega
        obtain ⟨b, hb, hiff⟩ := ih (pre ++ [co]) _ (length - (co.len : Int) * (if queryConsuming co.typ = true then 1 else 0))
          hpos' (by rw [hassoc]; exact hstd)
        rw [hassoc] at hb hiff
        have hl1 : (pre ++ [co]).length = pre.length + 1 := by simp
        have hg : (pre ++ [co]).getLast? = some co := by simp
        rw [hl1, hg] at hb
        rw [hl1] at hiff
        refine ⟨b, hb, ?_⟩
        rw [hiff]
        -- the conditions at index pre.length hold (no early exit)
        have hHere : HCond c pre.length := by
          intro ht
          rw [hmid] at ht
          have : co.typ = typH := by injection ht
          by_cases h0 : pre.length = 0
          · exact Or.inl h0
          · by_cases h1 : pre.length = c.length - 1
            · exact Or.inr h1
            · exact absurd ⟨this, h0, h1⟩ hH
        have hSere : SCond c pre.length := by
          intro ht
          rw [hmid] at ht
          have hts : co.typ = typS := by injection ht
          by_cases h0 : pre.length = 0
          · exact Or.inl h0
          · by_cases h1 : pre.length = c.length - 1
            · exact Or.inr (Or.inl h1)
            · have hpre : pre ≠ [] := by intro h; exact h0 (by simp [h])
              by_cases hp : (pre.getLast?.map (·.typ)) = some typH
              · exact Or.inr (Or.inr (Or.inl (by rw [hprev hpre]; exact hp)))
              · by_cases hn : (rest.head?.map (·.typ)) = some typH
                · exact Or.inr (Or.inr (Or.inr (by rw [hnext]; exact hn)))
                · exact absurd ⟨hts, ⟨h0, h1⟩, hp, hn⟩ hS
        rw [queryLen_cons]
        constructor
        · rintro ⟨hall, hlenq⟩
          refine ⟨?_, by split at hlenq <;> split <;> simp_all <;> omega⟩
          intro j hj
          by_cases hje : j = pre.length
          · subst hje; exact ⟨hHere, hSere⟩
          · exact hall j (by omega)
        · rintro ⟨hall, hlenq⟩
          refine ⟨fun j hj => hall j (by omega), by split at hlenq <;> split <;> simp_all <;> omega⟩

end Hts.Model.Coord
