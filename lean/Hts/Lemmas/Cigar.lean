/-
CIGAR arithmetic of the model equals the specification (SAM §1.4.6), for every CIGAR.  Core only.
-/
import Hts.Lemmas.Coord
namespace Hts.Model.Coord
open Hts.Spec.Coord (refLen queryLen refConsuming queryConsuming refMove posAfter maxReach)

theorem typ_cases (t : Nat) (h : t ≤ 9) :
    t = 0 ∨ t = 1 ∨ t = 2 ∨ t = 3 ∨ t = 4 ∨ t = 5 ∨ t = 6 ∨ t = 7 ∨ t = 8 ∨ t = 9 := by omega

/-- the table row of a standard (or B) operation, in the specification's terms -/
theorem consumes_spec (t : Nat) (h : t ≤ 9) :
    consumes t = some ((if queryConsuming t then 1 else 0),
      (if refConsuming t then 1 else if t = 9 then -1 else 0)) := by
  rcases typ_cases t h with h | h | h | h | h | h | h | h | h | h <;> subst h <;> rfl

theorem refLen_cons (co : CigarOp) (rest : List CigarOp) :
    refLen (co :: rest) = (if refConsuming co.typ then (co.len : Int) else 0) + refLen rest := rfl
theorem queryLen_cons (co : CigarOp) (rest : List CigarOp) :
    queryLen (co :: rest) = (if queryConsuming co.typ then (co.len : Int) else 0) + queryLen rest := rfl
theorem maxReach_cons (pos : Int) (co : CigarOp) (rest : List CigarOp) :
    maxReach pos (co :: rest) =
      if pos < maxReach (pos + refMove co) rest then maxReach (pos + refMove co) rest else pos := rfl

theorem lengthsLoop_spec (c : List CigarOp) : ∀ ref read, (∀ co, co ∈ c → co.typ ≤ 9) →
    lengthsLoop ref read c = some (ref + refLen c, read + queryLen c) := by
  induction c with
  | nil => intro ref read _; simp [lengthsLoop, refLen, queryLen]
  | cons co rest ih =>
    intro ref read h
    have ht := h co List.mem_cons_self
    unfold lengthsLoop
    rw [consumes_spec co.typ ht]
    simp only
    rw [ih _ _ (fun x hx => h x (List.mem_cons_of_mem _ hx))]
    rw [refLen_cons, queryLen_cons]
    rcases typ_cases co.typ ht with e | e | e | e | e | e | e | e | e | e <;>
      simp [e, typB, refConsuming, queryConsuming] <;> omega

theorem maxReach_ge (c : List CigarOp) : ∀ pos, pos ≤ maxReach pos c := by
  induction c with
  | nil => intro pos; exact Int.le_refl _
  | cons co rest ih => intro pos; rw [maxReach_cons]; split <;> omega

theorem endLoop_spec (c : List CigarOp) : ∀ pos e, pos ≤ e → (∀ co, co ∈ c → co.typ ≤ 9) →
    endLoop pos e c = some (if e < maxReach pos c then maxReach pos c else e) := by
  induction c with
  | nil => intro pos e h _; simp [endLoop, maxReach]; omega
  | cons co rest ih =>
    intro pos e hpe h
    have ht := h co List.mem_cons_self
    unfold endLoop
    rw [consumes_spec co.typ ht]
    simp only
    have hm : pos + (co.len : Int) * (if refConsuming co.typ then 1 else if co.typ = 9 then -1 else 0)
        = pos + refMove co := by
      unfold refMove
      split
      · omega
      · split <;> omega
    simp only [hm]
    rw [ih _ _ (by split <;> omega) (fun x hx => h x (List.mem_cons_of_mem _ hx))]
    have := maxReach_ge rest (pos + refMove co)
    rw [maxReach_cons]
    congr 1
    repeat' split
    all_goals omega

/-- without `B` the walk only moves right: the highest coordinate is the last one, pos + refLen -/
theorem maxReach_noB (c : List CigarOp) : ∀ pos, (∀ co, co ∈ c → co.typ ≤ 8) →
    maxReach pos c = pos + refLen c := by
  induction c with
  | nil => intro pos _; simp [maxReach, refLen]
  | cons co rest ih =>
    intro pos h
    have ht := h co List.mem_cons_self
    rw [maxReach_cons, refLen_cons]
    rw [ih _ (fun x hx => h x (List.mem_cons_of_mem _ hx))]
    have hnn : 0 ≤ refLen rest := by
      clear ih
      induction rest with
      | nil => simp [refLen]
      | cons a r ih2 =>
        rw [refLen_cons]
        have := ih2 (fun x hx => h x (by
          cases hx with
          | head => exact List.mem_cons_self
          | tail _ hm => exact List.mem_cons_of_mem _ (List.mem_cons_of_mem _ hm)))
        split <;> omega
    have hmv : refMove co = if refConsuming co.typ then (co.len : Int) else 0 := by
      unfold refMove
      split
      · rfl
      · have : co.typ ≠ 9 := by omega
        simp [this]
    rw [hmv]
    split <;> split <;> omega

/-- every prefix position is below the reach, and the reach is a prefix position -/
theorem maxReach_is_max (c : List CigarOp) : ∀ pos,
    (∀ k, posAfter pos (c.take k) ≤ maxReach pos c) ∧ (∃ k, maxReach pos c = posAfter pos (c.take k)) := by
  induction c with
  | nil => intro pos; exact ⟨fun k => by simp [posAfter, maxReach], ⟨0, rfl⟩⟩
  | cons co rest ih =>
    intro pos
    obtain ⟨h1, k, hk⟩ := ih (pos + refMove co)
    have hge := maxReach_ge rest (pos + refMove co)
    constructor
    · intro k'
      cases k' with
      | zero => simp only [List.take_zero, posAfter]; rw [maxReach_cons]; split <;> omega
      | succ k' =>
        simp only [List.take_succ_cons, posAfter]
        have := h1 k'
        rw [maxReach_cons]; split <;> omega
    · rw [maxReach_cons]
      split
      · exact ⟨k + 1, by simp only [List.take_succ_cons, posAfter]; exact hk⟩
      · exact ⟨0, rfl⟩

end Hts.Model.Coord
