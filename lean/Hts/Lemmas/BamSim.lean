/-
The record framing of `bam.Reader` over the flat specification: `io.ReadFull`, `newBuffer`, the
sequential pass and its chunks.
-/
import Hts.Lemmas.ReaderProps
import Hts.Model.BamChunks
namespace Hts.Model.Bgzf
open Hts.Spec.Flat

theorem leInt32_le32 (n : Nat) (h : n < 2147483648) : leInt32 (le32 n) = (n : Int) := by
  simp only [leInt32, le32, List.getD_cons_zero, List.getD_cons_succ]
  have e0 : (UInt8.ofNat (n % 256)).toNat = n % 256 := by simp
  have e1 : (UInt8.ofNat (n / 256 % 256)).toNat = n / 256 % 256 := by simp
  have e2 : (UInt8.ofNat (n / 65536 % 256)).toNat = n / 65536 % 256 := by simp
  have e3 : (UInt8.ofNat (n / 16777216 % 256)).toNat = n / 16777216 % 256 := by simp
  rw [e0, e1, e2, e3]
  have : n % 256 + 256 * (n / 256 % 256) + 65536 * (n / 65536 % 256) + 16777216 * (n / 16777216 % 256) = n := by omega
  rw [this]; simp [h]

theorem flat_read_enough (FF : FlatFile) (s : State) (n : Nat) (hb : s.blocked = false) (hn : 0 < n)
    (h : s.pos + n ≤ total FF.layout) :
    Hts.Spec.Flat.read FF s n = ⟨(FF.bytes.drop s.pos).take n, false,
      ⟨s.pos + n, false, ⟨offBefore FF.layout s.pos, offAfter FF.layout (s.pos + n)⟩⟩⟩ := by
  have h1 : ¬ (total FF.layout ≤ s.pos) := by omega
  have h2 : min n (total FF.layout - s.pos) = n := by omega
  have h3 : ¬ (total FF.layout - s.pos < n) := by omega
  have h4 : ¬ (n = 0) := by omega
  simp [Hts.Spec.Flat.read, h1, hb, h2, h3, h4]

/-- `io.ReadFull` with enough data left. -/
theorem sim_readFull_ok {F : File} (hwf : WF F) {r : Reader} {s : State} (h : Sim F r s)
    (hb : s.blocked = false) (n : Nat) (hn : 0 < n) (hle : s.pos + n ≤ flatLen F) :
    (readFull r n).2.1 = ((flatBytes F).drop s.pos).take n ∧ (readFull r n).2.2 = none ∧
    Sim F (readFull r n).1 ⟨s.pos + n, false, ⟨offBefore (layoutOf F) s.pos, offAfter (layoutOf F) (s.pos + n)⟩⟩ := by
  have ⟨h1, h2, h3⟩ := sim_read hwf h n
  rw [flat_read_enough (flatOf F) s n hb hn (by simpa [flatOf] using hle)] at h1 h2 h3
  simp only [flatOf] at h1 h2 h3
  have hlen : (r.read n).2.1.length = n := by rw [h1]; simp; omega
  rcases hrd : r.read n with ⟨r', out, e⟩
  rw [hrd] at h1 h2 h3 hlen
  simp only at h1 h2 h3 hlen
  have hn0 : ¬ (n = 0) := by omega
  simp only [readFull, hn0, if_false, hrd, hlen, Nat.le_refl, if_true]
  exact ⟨h1, trivial, h3⟩

/-- `io.ReadFull` at the end of the data. -/
theorem sim_readFull_eof {F : File} (hwf : WF F) {r : Reader} {s : State} (h : Sim F r s)
    (n : Nat) (hn : 0 < n) (hle : flatLen F ≤ s.pos) :
    (readFull r n).2.1 = [] ∧ (readFull r n).2.2 = some .eof ∧ Sim F (readFull r n).1 s := by
  have ⟨h1, h2, h3⟩ := sim_read hwf h n
  rw [flat_read_eof (flatOf F) s n (by simpa [flatOf] using hle)] at h1 h2 h3
  rcases hrd : r.read n with ⟨r', out, e⟩
  rw [hrd] at h1 h2 h3
  simp only [errOf, if_true] at h1 h2 h3
  subst h1 h2
  have hn0 : ¬ (n = 0) := by omega
  have : ¬ (n ≤ 0) := by omega
  simp [readFull, hn0, hrd, this, h3]

/-- Total encoded size of a list of records. -/
def recSize : List (List UInt8) → Nat
  | [] => 0
  | b :: bs => 4 + b.length + recSize bs

@[simp] theorem frames_length (bs : List (List UInt8)) : (frames bs).length = recSize bs := by
  induction bs with
  | nil => rfl
  | cons b bs ih => simp [frames, frame, le32, recSize, ih]; omega

/-- From logical position `p` to the end of the data the flat stream consists of the records `bs`. -/
structure RecAt (F : File) (p : Nat) (bs : List (List UInt8)) : Prop where
  data : (flatBytes F).drop p = frames bs
  sizes : ∀ b ∈ bs, 0 < b.length ∧ b.length < 2147483648

theorem RecAt.total {F : File} {p : Nat} {bs : List (List UInt8)} (h : RecAt F p bs) (hp : p ≤ flatLen F) :
    p + recSize bs = flatLen F := by
  have := congrArg List.length h.data
  simp at this; omega

theorem RecAt.tail {F : File} {p : Nat} {b : List UInt8} {bs : List (List UInt8)} (h : RecAt F p (b :: bs)) :
    RecAt F (p + (4 + b.length)) bs := by
  refine ⟨?_, fun x hx => h.sizes x (by simp [hx])⟩
  rw [← List.drop_drop, h.data]
  simp only [frames, frame, le32, List.cons_append, List.nil_append]
  rw [show 4 + b.length = b.length + 4 by omega, ← List.drop_drop]
  simp

/-- The bgzf reader under a `bam.Reader` represents the flat state `s`; bam never sets Blocked. -/
structure BSim (F : File) (br : BamReader) (s : State) : Prop where
  sim : Sim F br.r s
  unblocked : s.blocked = false

/-- `newBuffer` on a complete record. -/
theorem newBuffer_record {F : File} (hwf : WF F) {br : BamReader} {s : State} (h : BSim F br s)
    {b : List UInt8} {bs : List (List UInt8)} (hr : RecAt F s.pos (b :: bs)) (hp : s.pos ≤ flatLen F) :
    br.newBuffer.2 = .ok b ∧ br.newBuffer.1.c = br.c ∧
    br.newBuffer.1.lastChunk = ⟨offBefore (layoutOf F) s.pos, offAfter (layoutOf F) (s.pos + (4 + b.length))⟩ ∧
    BSim F br.newBuffer.1 ⟨s.pos + (4 + b.length), false,
      ⟨offBefore (layoutOf F) (s.pos + 4), offAfter (layoutOf F) (s.pos + (4 + b.length))⟩⟩ := by
  have htot := hr.total hp
  have ⟨hb0, hb1⟩ := hr.sizes b (by simp)
  simp only [recSize] at htot
  have ⟨a1, a2, a3⟩ := sim_readFull_ok hwf h.sim h.unblocked 4 (by omega) (by omega)
  have ha1 : (readFull br.r 4).2.1 = le32 b.length := by
    rw [a1, hr.data]; simp [frames, frame, le32]
  have ⟨c1, c2, c3⟩ := sim_readFull_ok hwf a3 rfl b.length hb0 (by simp only []; omega)
  have hc1 : (readFull (readFull br.r 4).1 b.length).2.1 = b := by
    rw [c1]
    have : (flatBytes F).drop (s.pos + 4) = b ++ frames bs := by
      rw [← List.drop_drop, hr.data]; simp [frames, frame, le32]
    simp only []; rw [this]; simp
  rcases hq1 : readFull br.r 4 with ⟨r1, szb, e1⟩
  rw [hq1] at a2 a3 ha1 c1 c2 c3 hc1
  simp only at a2 a3 ha1 c2 c3 hc1
  subst a2 ha1
  rcases hq2 : readFull r1 b.length with ⟨r2, body, e2⟩
  rw [hq2] at c2 c3 hc1
  simp only at c2 c3 hc1
  subst c2 hc1
  have hsz : leInt32 (le32 body.length) = (body.length : Int) := leInt32_le32 _ hb1
  have hne : ¬ ((body.length : Int) = 0) := by omega
  have hnn : ¬ ((body.length : Int) < 0) := by omega
  simp only [BamReader.newBuffer, hq1, hsz, hne, hnn, if_false, Int.toNat_natCast, hq2]
  refine ⟨trivial, trivial, ?_, ⟨?_, rfl⟩⟩
  · rw [a3.last, c3.last]
    have : s.pos + 4 + body.length = s.pos + (4 + body.length) := by omega
    rw [this]
  · have : s.pos + 4 + body.length = s.pos + (4 + body.length) := by omega
    rw [← this]; exact c3

/-- `newBuffer` at the end of the data. -/
theorem newBuffer_eof {F : File} (hwf : WF F) {br : BamReader} {s : State} (h : BSim F br s)
    (hp : flatLen F ≤ s.pos) :
    br.newBuffer.2 = .error .eof ∧ br.newBuffer.1.c = br.c ∧ BSim F br.newBuffer.1 s := by
  have ⟨a1, a2, a3⟩ := sim_readFull_eof hwf h.sim 4 (by omega) hp
  rcases hq1 : readFull br.r 4 with ⟨r1, szb, e1⟩
  rw [hq1] at a1 a2 a3
  simp only at a1 a2 a3
  subst a1 a2
  simp only [BamReader.newBuffer, hq1]
  exact ⟨trivial, trivial, ⟨a3, h.unblocked⟩⟩

/-- The chunks the sequential pass reports for the records `bs` starting at logical position `p`. -/
def recChunks (L : Layout) : Nat → List (List UInt8) → List Chunk
  | _, [] => []
  | p, b :: bs => ⟨offBefore L p, offAfter L (p + (4 + b.length))⟩ :: recChunks L (p + (4 + b.length)) bs

/-- `Read` of a record when the chunk limit (if any) is not reached. -/
theorem read_record {F : File} (hwf : WF F) {br : BamReader} {s : State} (h : BSim F br s)
    {b : List UInt8} {bs : List (List UInt8)} (hr : RecAt F s.pos (b :: bs)) (hp : s.pos ≤ flatLen F)
    (hlim : ∀ c, br.c = some c → vOffset s.last.fin < vOffset c.fin) :
    br.read.2 = .ok b ∧ br.read.1.c = br.c ∧
    br.read.1.lastChunk = ⟨offBefore (layoutOf F) s.pos, offAfter (layoutOf F) (s.pos + (4 + b.length))⟩ ∧
    BSim F br.read.1 ⟨s.pos + (4 + b.length), false,
      ⟨offBefore (layoutOf F) (s.pos + 4), offAfter (layoutOf F) (s.pos + (4 + b.length))⟩⟩ := by
  have hnb := newBuffer_record hwf h hr hp
  unfold BamReader.read
  cases hc : br.c with
  | none => simpa [hc] using hnb
  | some c =>
    have := hlim c hc
    rw [← h.sim.last] at this
    have hn : ¬ (vOffset c.fin ≤ vOffset br.r.lastChunk.fin) := by omega
    simp only [hn, if_false]
    simpa [hc] using hnb

/-- `Read` at the chunk limit. -/
theorem read_limit {F : File} {br : BamReader} {s : State} (h : BSim F br s) (c : Chunk)
    (hc : br.c = some c) (hlim : vOffset c.fin ≤ vOffset s.last.fin) :
    br.read = (br, .error .eof) := by
  rw [← h.sim.last] at hlim
  simp [BamReader.read, hc, hlim]

/-- `Read` at the end of the data without a limit. -/
theorem read_eof {F : File} (hwf : WF F) {br : BamReader} {s : State} (h : BSim F br s)
    (hc : br.c = none) (hp : flatLen F ≤ s.pos) :
    br.read.2 = .error .eof ∧ br.read.1.c = none ∧ BSim F br.read.1 s := by
  have := newBuffer_eof hwf h hp
  simp only [BamReader.read, hc]
  rw [hc] at this; exact this

theorem readN_succ_ok {br br' : BamReader} {body : List UInt8} (k : Nat) (h : br.read = (br', .ok body)) :
    br.readN (k + 1) = ((br'.readN k).1, (body, br'.lastChunk) :: (br'.readN k).2.1, (br'.readN k).2.2) := by
  simp [BamReader.readN, h]

theorem readN_succ_err {br br' : BamReader} {e : Err} (k : Nat) (h : br.read = (br', .error e)) :
    br.readN (k + 1) = (br', [], some e) := by
  simp [BamReader.readN, h]

/-- **Sequential pass.**  Reading the records `bs` one after the other reports exactly `recChunks`. -/
theorem readN_sequential {F : File} (hwf : WF F) :
    ∀ (bs : List (List UInt8)) (br : BamReader) (s : State), BSim F br s → br.c = none →
      RecAt F s.pos bs → s.pos ≤ flatLen F →
      (br.readN (bs.length + 1)).2 = (bs.zip (recChunks (layoutOf F) s.pos bs), some .eof) ∧
      (br.readN (bs.length + 1)).1.c = none ∧
      ∃ s', BSim F (br.readN (bs.length + 1)).1 s' ∧ s'.pos = flatLen F := by
  intro bs
  induction bs with
  | nil =>
    intro br s h hc hr hp
    have htot := hr.total hp
    simp only [recSize] at htot
    have ⟨e1, e2, e3⟩ := read_eof hwf h hc (by omega)
    rcases hrd : br.read with ⟨br', res⟩
    rw [hrd] at e1 e2 e3
    simp only at e1 e2 e3
    subst e1
    rw [List.length_nil, readN_succ_err 0 hrd]
    exact ⟨rfl, e2, s, e3, by omega⟩
  | cons b bs ih =>
    intro br s h hc hr hp
    have htot := hr.total hp
    simp only [recSize] at htot
    have ⟨e1, e2, e3, e4⟩ := read_record hwf h hr hp (by intro c hcc; rw [hc] at hcc; cases hcc)
    rcases hrd : br.read with ⟨br', res⟩
    rw [hrd] at e1 e2 e3 e4
    simp only at e1 e2 e3 e4
    subst e1
    have ⟨i1, i2, i3⟩ := ih br' _ e4 (e2.trans hc) hr.tail (by simp only []; omega)
    rw [List.length_cons, readN_succ_ok _ hrd]
    rcases hrn : br'.readN (bs.length + 1) with ⟨br'', rs, e⟩
    rw [hrn] at i1 i2 i3
    simp only at i1 i2 i3
    simp only [Prod.mk.injEq] at i1
    obtain ⟨rfl, rfl⟩ := i1
    exact ⟨by simp [recChunks, e3], i2, i3⟩

end Hts.Model.Bgzf
