/-
Lemmas for C10: BAM record framing (`newBuffer`) over a flat byte stream that ends with an error `e`
(`eof` = the BGZF layer ended cleanly), on prefixes of well-formed record sequences.
-/
import Hts.Model.BgzfBytes
namespace Hts.Lemmas.BgzfBytes
open Hts.Model.BgzfBytes

/-- a BAM record as laid out in the data: the 4-byte `block_size` field and the block -/
structure Rec where
  pre : Bytes
  body : Bytes

namespace Rec

def bytes (r : Rec) : Bytes := r.pre ++ r.body

structure WellFormed (r : Rec) : Prop where
  preLen : r.pre.length = 4
  preVal : leNat r.pre = r.body.length
  pos : 0 < r.body.length
  small : r.body.length < 2147483648

theorem bytes_length {r : Rec} (h : r.WellFormed) : r.bytes.length = 4 + r.body.length := by
  simp [bytes, h.preLen]

end Rec

def recBytes (rs : List Rec) : Bytes := (rs.map Rec.bytes).flatten
/-- data offset (from the first record) of the boundary after the first `i` records -/
def roff (rs : List Rec) (i : Nat) : Nat := ((rs.take i).map fun r => 4 + r.body.length).sum

theorem recBytes_cons (r : Rec) (rs : List Rec) : recBytes (r :: rs) = r.bytes ++ recBytes rs := by
  simp [recBytes]

theorem roff_zero (rs : List Rec) : roff rs 0 = 0 := by simp [roff]

theorem roff_cons_succ (r : Rec) (rs : List Rec) (i : Nat) :
    roff (r :: rs) (i + 1) = 4 + r.body.length + roff rs i := by simp [roff]

/-- the error a short `io.ReadFull` turns the stream's terminal error into -/
def shortErr (e : Err) : Err := if e = .eof then .unexpectedEOF else e

theorem shortErr_ne_eof (e : Err) : shortErr e ≠ .eof := by
  unfold shortErr; split <;> simp_all

/-! ### one record -/

theorem bamNext_record (q : Quirks) {r : Rec} (h : r.WellFormed) (t : Bytes) (e : Err) :
    bamNext q ⟨r.bytes ++ t, e⟩ = .ok (r.body, ⟨t, e⟩) := by
  have h4 : (4 : Nat) ≠ 0 := by decide
  have l1 : (r.bytes ++ t).length ≥ 4 := by simp [Rec.bytes, h.preLen]
  have t1 : (r.bytes ++ t).take 4 = r.pre := by
    rw [Rec.bytes, List.append_assoc]; exact List.take_left' h.preLen
  have d1 : (r.bytes ++ t).drop 4 = r.body ++ t := by
    rw [Rec.bytes, List.append_assoc]; exact List.drop_left' h.preLen
  have hp := h.pos
  have hs := h.small
  have n0 : r.body.length ≠ 0 := by omega
  have l2 : (r.body ++ t).length ≥ r.body.length := by simp
  simp only [bamNext, Flat.readFull, h4, if_false, l1, if_true, t1, d1, h.preVal, n0,
    Nat.not_le.mpr hs, l2, List.take_left, List.drop_left]

theorem bamNext_record_prefix {r : Rec} (h : r.WellFormed) (n : Nat) (hn : n < 4 + r.body.length) (e : Err) :
    bamNext .repaired ⟨r.bytes.take n, e⟩ = .error (if n = 0 then e else shortErr e) := by
  have h4 : (4 : Nat) ≠ 0 := by decide
  have hp := h.pos
  have hs := h.small
  have n0 : r.body.length ≠ 0 := by omega
  have hbl := Rec.bytes_length h
  by_cases hn4 : n < 4
  · have l1 : ¬ (r.bytes.take n).length ≥ 4 := by rw [List.length_take, hbl]; omega
    by_cases hz : n = 0
    · subst hz
      simp [bamNext, Flat.readFull]
    · have ne : r.bytes.take n ≠ [] := by
        intro hc
        have := congrArg List.length hc
        rw [List.length_take, hbl] at this
        simp at this; omega
      simp only [bamNext, Flat.readFull, h4, if_false, l1, ne, hz, shortErr]
  · have hz : ¬ n = 0 := by omega
    have e1 : r.bytes.take n = r.pre ++ r.body.take (n - 4) := by
      rw [Rec.bytes, List.take_append, h.preLen, List.take_of_length_le (by rw [h.preLen]; omega)]
    have l1 : (r.pre ++ r.body.take (n - 4)).length ≥ 4 := by simp [h.preLen]
    have t1 : (r.pre ++ r.body.take (n - 4)).take 4 = r.pre := List.take_left' h.preLen
    have d1 : (r.pre ++ r.body.take (n - 4)).drop 4 = r.body.take (n - 4) := List.drop_left' h.preLen
    have l2 : ¬ (r.body.take (n - 4)).length ≥ r.body.length := by rw [List.length_take]; omega
    rw [e1]
    simp only [bamNext, Flat.readFull, h4, if_false, l1, if_true, t1, d1, h.preVal, n0,
      Nat.not_le.mpr hs, l2, hz]
    by_cases hem : r.body.take (n - 4) = []
    · simp only [hem, if_true, Quirks.repaired, Bool.not_false, and_true, shortErr]
    · have := shortErr_ne_eof e
      simp only [hem, if_false, shortErr] at this ⊢
      simp [this]

/-! ### a sequence of records and its prefixes -/

theorem bamRecords_of_error {q : Quirks} {sem : BamSem} {f : Flat} {e : Err} (h : bamNext q f = .error e) :
    bamRecords q sem f = ([], e) := by
  rw [bamRecords, h]

theorem bamRecords_record (q : Quirks) (sem : BamSem) {r : Rec} (h : r.WellFormed) (hok : sem.recOk r.body = true)
    (t : Bytes) (e : Err) :
    bamRecords q sem ⟨r.bytes ++ t, e⟩ =
      (r.body :: (bamRecords q sem ⟨t, e⟩).1, (bamRecords q sem ⟨t, e⟩).2) := by
  have hl : t.length < (r.bytes ++ t).length := by
    rw [List.length_append, Rec.bytes_length h]; omega
  rw [bamRecords, bamNext_record q h t e]
  simp only [hok, Bool.not_true, Bool.false_eq_true, if_false, hl, dite_true]

/-- Reading the first `n` bytes of a sequence of well-formed records from a stream that then ends with
`e` (repaired reader): exactly the complete records, and the end is `e` itself iff `n` is a record
boundary; otherwise it is `shortErr e`, which is never the clean end. -/
theorem bamRecords_take (sem : BamSem) {rs : List Rec} (hwf : ∀ r ∈ rs, r.WellFormed)
    (hok : ∀ r ∈ rs, sem.recOk r.body = true) (n : Nat) (hn : n ≤ (recBytes rs).length) (e : Err) :
    ∃ i, i ≤ rs.length ∧ roff rs i ≤ n ∧ (i < rs.length → n < roff rs (i + 1)) ∧
      bamRecords .repaired sem ⟨(recBytes rs).take n, e⟩ =
        ((rs.take i).map Rec.body, if n = roff rs i then e else shortErr e) := by
  induction rs generalizing n with
  | nil =>
    have : n = 0 := by simpa [recBytes] using hn
    subst this
    refine ⟨0, Nat.le_refl _, by simp [roff], by simp, ?_⟩
    rw [bamRecords_of_error (e := e)]
    · simp [roff]
    · simp [recBytes, bamNext, Flat.readFull]
  | cons r rs ih =>
    have hr := hwf r (by simp)
    have hrs : ∀ x ∈ rs, x.WellFormed := fun x hx => hwf x (by simp [hx])
    have hoks : ∀ x ∈ rs, sem.recOk x.body = true := fun x hx => hok x (by simp [hx])
    have hbl := Rec.bytes_length hr
    by_cases hlt : n < 4 + r.body.length
    · refine ⟨0, Nat.zero_le _, by simp [roff], ?_, ?_⟩
      · intro _; rw [roff_cons_succ, roff_zero]; omega
      · rw [recBytes_cons, List.take_append_of_le_length (by omega),
          bamRecords_of_error (bamNext_record_prefix hr n hlt e)]
        simp [roff]
    · have hn' : n - (4 + r.body.length) ≤ (recBytes rs).length := by
        rw [recBytes_cons, List.length_append, hbl] at hn; omega
      obtain ⟨i, hi, hlo, hhi, hres⟩ := ih hrs hoks (n - (4 + r.body.length)) hn'
      refine ⟨i + 1, by simpa using hi, ?_, ?_, ?_⟩
      · rw [roff_cons_succ]; omega
      · intro hil
        have := hhi (by simpa using hil)
        rw [roff_cons_succ]; omega
      · have e1 : (recBytes (r :: rs)).take n = r.bytes ++ (recBytes rs).take (n - (4 + r.body.length)) := by
          rw [recBytes_cons, List.take_append, hbl, List.take_of_length_le (by omega)]
        rw [e1, bamRecords_record .repaired sem hr (hok r (by simp)), hres, roff_cons_succ]
        have : (n = 4 + r.body.length + roff rs i) ↔ (n - (4 + r.body.length) = roff rs i) := by omega
        simp [this]

/-! ### the BAM header, abstractly: a byte string `DecodeBinary` accepts, and rejects when cut -/

structure HdrOk (sem : BamSem) (h : Bytes) : Prop where
  accepts : ∀ t e, bamHeader sem ⟨h ++ t, e⟩ = .ok ⟨t, e⟩
  rejects : ∀ n, n < h.length → ∀ e, ∃ e', bamHeader sem ⟨h.take n, e⟩ = .error e'

/-- header + records, first `n` bytes, then the stream ends with `e` -/
theorem bam_flat_take (sem : BamSem) {h : Bytes} (hh : HdrOk sem h) {rs : List Rec}
    (hwf : ∀ r ∈ rs, r.WellFormed) (hok : ∀ r ∈ rs, sem.recOk r.body = true)
    (n : Nat) (hn : n ≤ (h ++ recBytes rs).length) (e : Err) :
    (n < h.length → ∃ e', bamHeader sem ⟨(h ++ recBytes rs).take n, e⟩ = .error e') ∧
    (h.length ≤ n → ∃ i, i ≤ rs.length ∧ roff rs i ≤ n - h.length ∧
        (i < rs.length → n - h.length < roff rs (i + 1)) ∧
        ∃ f, bamHeader sem ⟨(h ++ recBytes rs).take n, e⟩ = .ok f ∧
          bamRecords .repaired sem f =
            ((rs.take i).map Rec.body, if n - h.length = roff rs i then e else shortErr e)) := by
  constructor
  · intro hlt
    rw [List.take_append_of_le_length (by omega)]
    exact hh.rejects n hlt e
  · intro hge
    have hn' : n - h.length ≤ (recBytes rs).length := by
      rw [List.length_append] at hn; omega
    obtain ⟨i, hi, hlo, hhi, hres⟩ := bamRecords_take sem hwf hok (n - h.length) hn' e
    refine ⟨i, hi, hlo, hhi, ⟨(recBytes rs).take (n - h.length), e⟩, ?_, hres⟩
    rw [List.take_append, List.take_of_length_le hge]
    exact hh.accepts _ e

end Hts.Lemmas.BgzfBytes
