/-
Lemmas for C10: BAM record framing (`newBuffer`) over a flat byte stream that ends with an error `e`
(`eof` = the BGZF layer ended cleanly), on prefixes of well-formed record sequences.
-/
import Hts.Model.BgzfBytes
namespace Hts.Lemmas.BgzfBytes
open Hts.Model.BgzfBytes

/-- a BAM record as laid out in the data: the 4-byte `block_size` field and the block -/
structure Rec where
  pre : Bytes
  body : Bytes

namespace Rec

def bytes (r : Rec) : Bytes := r.pre ++ r.body

structure WellFormed (r : Rec) : Prop where
  preLen : r.pre.length = 4
  preVal : leNat r.pre = r.body.length
  pos : 0 < r.body.length
  small : r.body.length < 2147483648

theorem bytes_length {r : Rec} (h : r.WellFormed) : r.bytes.length = 4 + r.body.length := by
  simp [bytes, h.preLen]

end Rec

def recBytes (rs : List Rec) : Bytes := (rs.map Rec.bytes).flatten
/-- data offset (from the first record) of the boundary after the first `i` records -/
def roff (rs : List Rec) (i : Nat) : Nat := ((rs.take i).map fun r => 4 + r.body.length).sum

theorem recBytes_cons (r : Rec) (rs : List Rec) : recBytes (r :: rs) = r.bytes ++ recBytes rs := by
  simp [recBytes]

theorem roff_zero (rs : List Rec) : roff rs 0 = 0 := by simp [roff]

theorem roff_cons_succ (r : Rec) (rs : List Rec) (i : Nat) :
    roff (r :: rs) (i + 1) = 4 + r.body.length + roff rs i := by simp [roff]

/-- the error a short `io.ReadFull` turns the stream's terminal error into -/
def shortErr (e : Err) : Err := if e = .eof then .unexpectedEOF else e

theorem shortErr_ne_eof (e : Err) : shortErr e ≠ .eof := by
  unfold shortErr; split <;> simp_all

/-! ### one record -/

theorem bamNext_record (q : Quirks) {r : Rec} (h : r.WellFormed) (t : Bytes) (e : Err) :
    bamNext q ⟨r.bytes ++ t, e⟩ = .ok (r.body, ⟨t, e⟩) := by
  have h4 : (4 : Nat) ≠ 0 := by decide
  have l1 : (r.bytes ++ t).length ≥ 4 := by simp [Rec.bytes, h.preLen]
  have t1 : (r.bytes ++ t).take 4 = r.pre := by
    rw [Rec.bytes, List.append_assoc]; exact List.take_left' h.preLen
  have d1 : (r.bytes ++ t).drop 4 = r.body ++ t := by
    rw [Rec.bytes, List.append_assoc]; exact List.drop_left' h.preLen
  have hp := h.pos
  have hs := h.small
  have n0 : r.body.length ≠ 0 := by omega
  have l2 : (r.body ++ t).length ≥ r.body.length := by simp
  simp only [bamNext, Flat.readFull, h4, if_false, l1, if_true, t1, d1, h.preVal, n0,
    Nat.not_le.mpr hs, l2, List.take_left, List.drop_left]

theorem bamNext_record_prefix {r : Rec} (h : r.WellFormed) (n : Nat) (hn : n < 4 + r.body.length) (e : Err) :
    bamNext .repaired ⟨r.bytes.take n, e⟩ = .error (if n = 0 then e else shortErr e) := by
  have h4 : (4 : Nat) ≠ 0 := by decide
  have hp := h.pos
  have hs := h.small
  have n0 : r.body.length ≠ 0 := by omega
  have hbl := Rec.bytes_length h
  by_cases hn4 : n < 4
  · have l1 : ¬ (r.bytes.take n).length ≥ 4 := by rw [List.length_take, hbl]; omega
    by_cases hz : n = 0
    · subst hz
      simp [bamNext, Flat.readFull]
    · have ne : r.bytes.take n ≠ [] := by
        intro hc
        have := congrArg List.length hc
        rw [List.length_take, hbl] at this
        simp at this; omega
      simp only [bamNext, Flat.readFull, h4, if_false, l1, ne, hz, shortErr]
  · have hz : ¬ n = 0 := by omega
    have e1 : r.bytes.take n = r.pre ++ r.body.take (n - 4) := by
      rw [Rec.bytes, List.take_append, h.preLen, List.take_of_length_le (by rw [h.preLen]; omega)]
    have l1 : (r.pre ++ r.body.take (n - 4)).length ≥ 4 := by simp [h.preLen]
    have t1 : (r.pre ++ r.body.take (n - 4)).take 4 = r.pre := List.take_left' h.preLen
    have d1 : (r.pre ++ r.body.take (n - 4)).drop 4 = r.body.take (n - 4) := List.drop_left' h.preLen
    have l2 : ¬ (r.body.take (n - 4)).length ≥ r.body.length := by rw [List.length_take]; omega
    rw [e1]
    simp only [bamNext, Flat.readFull, h4, if_false, l1, if_true, t1, d1, h.preVal, n0,
      Nat.not_le.mpr hs, l2, hz]
    by_cases hem : r.body.take (n - 4) = []
    · simp only [hem, if_true, Quirks.repaired, Bool.not_false, and_true, shortErr]
    · have := shortErr_ne_eof e
      simp only [hem, if_false, shortErr] at this ⊢
      simp [this]

/-! ### a sequence of records and its prefixes -/

theorem bamRecords_of_error {q : Quirks} {sem : BamSem} {f : Flat} {e : Err} (h : bamNext q f = .error e) :
    bamRecords q sem f = ([], e) := by
  rw [bamRecords, h]

theorem bamRecords_record (q : Quirks) (sem : BamSem) {r : Rec} (h : r.WellFormed) (hok : sem.recOk r.body = true)
    (t : Bytes) (e : Err) :
    bamRecords q sem ⟨r.bytes ++ t, e⟩ =
      (r.body :: (bamRecords q sem ⟨t, e⟩).1, (bamRecords q sem ⟨t, e⟩).2) := by
  have hl : t.length < (r.bytes ++ t).length := by
    rw [List.length_append, Rec.bytes_length h]; omega
  rw [bamRecords, bamNext_record q h t e]
  simp only [hok, Bool.not_true, Bool.false_eq_true, if_false, hl, dite_true]

/-- Reading the first `n` bytes of a sequence of well-formed records from a stream that then ends with
`e` (repaired reader): exactly the complete records, and the end is `e` itself iff `n` is a record
boundary; otherwise it is `shortErr e`, which is never the clean end. -/
theorem bamRecords_take (sem : BamSem) {rs : List Rec} (hwf : ∀ r ∈ rs, r.WellFormed)
    (hok : ∀ r ∈ rs, sem.recOk r.body = true) (n : Nat) (hn : n ≤ (recBytes rs).length) (e : Err) :
    ∃ i, i ≤ rs.length ∧ roff rs i ≤ n ∧ (i < rs.length → n < roff rs (i + 1)) ∧
      bamRecords .repaired sem ⟨(recBytes rs).take n, e⟩ =
        ((rs.take i).map Rec.body, if n = roff rs i then e else shortErr e) := by
  induction rs generalizing n with
  | nil =>
    have : n = 0 := by simpa [recBytes] using hn
    subst this
    refine ⟨0, Nat.le_refl _, by simp [roff], by simp, ?_⟩
    rw [bamRecords_of_error (e := e)]
    · simp [roff]
    · simp [recBytes, bamNext, Flat.readFull]
  | cons r rs ih =>
    have hr := hwf r (by simp)
    have hrs : ∀ x ∈ rs, x.WellFormed := fun x hx => hwf x (by simp [hx])
    have hoks : ∀ x ∈ rs, sem.recOk x.body = true := fun x hx => hok x (by simp [hx])
    have hbl := Rec.bytes_length hr
    by_cases hlt : n < 4 + r.body.length
    · refine ⟨0, Nat.zero_le _, by simp [roff], ?_, ?_⟩
      · intro _; rw [roff_cons_succ, roff_zero]; omega
      · rw [recBytes_cons, List.take_append_of_le_length (by omega),
          bamRecords_of_error (bamNext_record_prefix hr n hlt e)]
        simp [roff]
    · have hn' : n - (4 + r.body.length) ≤ (recBytes rs).length := by
        rw [recBytes_cons, List.length_append, hbl] at hn; omega
      obtain ⟨i, hi, hlo, hhi, hres⟩ := ih hrs hoks (n - (4 + r.body.length)) hn'
      refine ⟨i + 1, by simpa using hi, ?_, ?_, ?_⟩
      · rw [roff_cons_succ]; omega
      · intro hil
        have := hhi (by simpa using hil)
        rw [roff_cons_succ]; omega
      · have e1 : (recBytes (r :: rs)).take n = r.bytes ++ (recBytes rs).take (n - (4 + r.body.length)) := by
          rw [recBytes_cons, List.take_append, hbl, List.take_of_length_le (by omega)]
        rw [e1, bamRecords_record .repaired sem hr (hok r (by simp)), hres, roff_cons_succ]
        have : (n = 4 + r.body.length + roff rs i) ↔ (n - (4 + r.body.length) = roff rs i) := by omega
        simp [this]

/-! ### the BAM header, abstractly: a byte string `DecodeBinary` accepts, and rejects when cut -/

structure HdrOk (sem : BamSem) (h : Bytes) : Prop where
  accepts : ∀ t e, bamHeader sem ⟨h ++ t, e⟩ = .ok ⟨t, e⟩
  rejects : ∀ n, n < h.length → ∀ e, ∃ e', bamHeader sem ⟨h.take n, e⟩ = .error e'

/-- header + records, first `n` bytes, then the stream ends with `e` -/
theorem bam_flat_take (sem : BamSem) {h : Bytes} (hh : HdrOk sem h) {rs : List Rec}
    (hwf : ∀ r ∈ rs, r.WellFormed) (hok : ∀ r ∈ rs, sem.recOk r.body = true)
    (n : Nat) (hn : n ≤ (h ++ recBytes rs).length) (e : Err) :
    (n < h.length → ∃ e', bamHeader sem ⟨(h ++ recBytes rs).take n, e⟩ = .error e') ∧
    (h.length ≤ n → ∃ i, i ≤ rs.length ∧ roff rs i ≤ n - h.length ∧
        (i < rs.length → n - h.length < roff rs (i + 1)) ∧
        ∃ f, bamHeader sem ⟨(h ++ recBytes rs).take n, e⟩ = .ok f ∧
          bamRecords .repaired sem f =
            ((rs.take i).map Rec.body, if n - h.length = roff rs i then e else shortErr e)) := by
  constructor
  · intro hlt
    rw [List.take_append_of_le_length (by omega)]
    exact hh.rejects n hlt e
  · intro hge
    have hn' : n - h.length ≤ (recBytes rs).length := by
      rw [List.length_append] at hn; omega
    obtain ⟨i, hi, hlo, hhi, hres⟩ := bamRecords_take sem hwf hok (n - h.length) hn' e
    refine ⟨i, hi, hlo, hhi, ⟨(recBytes rs).take (n - h.length), e⟩, ?_, hres⟩
    rw [List.take_append, List.take_of_length_le hge]
    exact hh.accepts _ e

/-! ### the BAM header, concretely: every header laid out as the SAM specification says is `HdrOk` -/

theorem readFull_append {a : Bytes} {n : Nat} (ha : a.length = n) (hn : n ≠ 0) (t : Bytes) (e : Err) :
    (⟨a ++ t, e⟩ : Flat).readFull n = .ok (a, ⟨t, e⟩) := by
  have l : (a ++ t).length ≥ n := by simp [ha]
  simp only [Flat.readFull, hn, if_false, l, if_true, List.take_left' ha, List.drop_left' ha]

theorem readFull_short {d : Bytes} {n : Nat} (h : d.length < n) (e : Err) :
    ∃ e', (⟨d, e⟩ : Flat).readFull n = .error e' := by
  have hn : n ≠ 0 := by omega
  have l : ¬ d.length ≥ n := by omega
  simp only [Flat.readFull, hn, if_false, l]
  split
  · exact ⟨_, rfl⟩
  · exact ⟨_, rfl⟩

theorem read_append {a : Bytes} {n : Nat} (ha : a.length = n) (t : Bytes) (hne : a ++ t ≠ []) (e : Err) :
    (⟨a ++ t, e⟩ : Flat).read n = .ok (a, ⟨t, e⟩) := by
  have l : (a ++ t).length ≥ n := by simp [ha]
  simp only [Flat.read, hne, if_false, l, if_true, List.take_left' ha, List.drop_left' ha]

theorem read_short {d : Bytes} {n : Nat} (h : d.length < n) (e : Err) :
    ∃ e', (⟨d, e⟩ : Flat).read n = .error e' := by
  have l : ¬ d.length ≥ n := by omega
  simp only [Flat.read, l, if_false]
  split
  · exact ⟨_, rfl⟩
  · exact ⟨_, rfl⟩

/-- take of an append, by cases on where the cut falls -/
theorem take_append_cases (a b : Bytes) (n : Nat) :
    (n < a.length ∧ (a ++ b).take n = a.take n) ∨
    (a.length ≤ n ∧ (a ++ b).take n = a ++ b.take (n - a.length)) := by
  by_cases h : n < a.length
  · exact Or.inl ⟨h, List.take_append_of_le_length (by omega)⟩
  · exact Or.inr ⟨by omega, by rw [List.take_append, List.take_of_length_le (by omega)]⟩

/-- a reference entry of the binary header: `l_name`, the NUL-terminated name, `l_ref` -/
structure Ref where
  ln : Bytes
  name : Bytes
  lref : Bytes

namespace Ref

def bytes (r : Ref) : Bytes := r.ln ++ (r.name ++ r.lref)

structure WellFormed (r : Ref) : Prop where
  lnLen : r.ln.length = 4
  lnVal : leNat r.ln = r.name.length
  namePos : 1 ≤ r.name.length
  nameSmall : r.name.length < 2147483648
  nul : r.name.getLast? = some 0
  lrefLen : r.lref.length = 4

theorem bytes_length {r : Ref} (h : r.WellFormed) : r.bytes.length = 4 + (r.name.length + 4) := by
  simp [bytes, h.lnLen, h.lrefLen]

end Ref

def refsBytes (rs : List Ref) : Bytes := (rs.map Ref.bytes).flatten

theorem refsBytes_cons (r : Ref) (rs : List Ref) : refsBytes (r :: rs) = r.bytes ++ refsBytes rs := by
  simp [refsBytes]

/-- one reference entry followed by anything -/
theorem bamRefs_step (k : Nat) {r : Ref} (h : r.WellFormed) (t : Bytes) (e : Err) :
    bamRefs (k + 1) ⟨r.bytes ++ t, e⟩ = bamRefs k ⟨t, e⟩ := by
  have h4 : (4 : Nat) ≠ 0 := by decide
  have hp := h.namePos
  have hs := h.nameSmall
  have e1 : r.bytes ++ t = r.ln ++ (r.name ++ (r.lref ++ t)) := by simp [Ref.bytes]
  have ne : r.name ++ (r.lref ++ t) ≠ [] := by
    intro hc
    have := congrArg List.length hc
    simp only [List.length_append, List.length_nil] at this; omega
  have c1 : ¬ (r.name.length ≥ 2147483648 ∨ r.name.length < 1) := by omega
  rw [bamRefs, e1, readFull_append h.lnLen h4]
  simp only [h.lnVal, c1, if_false]
  rw [read_append rfl _ ne]
  simp only [h.nul, ne_eq, not_true_eq_false, if_false]
  rw [readFull_append h.lrefLen h4]

theorem bamRefs_refs {rs : List Ref} (hwf : ∀ r ∈ rs, r.WellFormed) (t : Bytes) (e : Err) :
    bamRefs rs.length ⟨refsBytes rs ++ t, e⟩ = .ok ⟨t, e⟩ := by
  induction rs with
  | nil => simp [refsBytes, bamRefs]
  | cons r rs ih =>
    rw [List.length_cons, refsBytes_cons, List.append_assoc, bamRefs_step _ (hwf r (by simp))]
    exact ih (fun x hx => hwf x (by simp [hx]))

theorem bamRefs_refs_prefix {rs : List Ref} (hwf : ∀ r ∈ rs, r.WellFormed) (n : Nat)
    (hn : n < (refsBytes rs).length) (e : Err) :
    ∃ e', bamRefs rs.length ⟨(refsBytes rs).take n, e⟩ = .error e' := by
  induction rs generalizing n with
  | nil => simp [refsBytes] at hn
  | cons r rs ih =>
    have hr := hwf r (by simp)
    have h4 : (4 : Nat) ≠ 0 := by decide
    have hp := hr.namePos
    have hs := hr.nameSmall
    have c1 : ¬ (r.name.length ≥ 2147483648 ∨ r.name.length < 1) := by omega
    have lnl := hr.lnLen
    have lrl := hr.lrefLen
    rw [refsBytes_cons] at hn ⊢
    rw [List.length_cons]
    rcases take_append_cases r.bytes (refsBytes rs) n with ⟨hlt, ht⟩ | ⟨hge, ht⟩
    · -- the cut is inside this entry
      rw [ht, Ref.bytes]
      rw [Ref.bytes_length hr] at hlt
      rcases take_append_cases r.ln (r.name ++ r.lref) n with ⟨h1, t1⟩ | ⟨h1, t1⟩
      · rw [t1, bamRefs]
        obtain ⟨e', he'⟩ := readFull_short (d := r.ln.take n) (n := 4) (by rw [List.length_take]; omega) e
        exact ⟨e', by rw [he']⟩
      · rw [t1, bamRefs, readFull_append hr.lnLen h4]
        simp only [hr.lnVal, c1, if_false]
        rw [hr.lnLen] at h1 ⊢
        rcases take_append_cases r.name r.lref (n - 4) with ⟨h2, t2⟩ | ⟨h2, t2⟩
        · rw [t2]
          obtain ⟨e', he'⟩ := read_short (d := r.name.take (n - 4)) (n := r.name.length)
            (by rw [List.length_take]; omega) e
          exact ⟨e', by rw [he']⟩
        · have ne : r.name ++ r.lref.take (n - 4 - r.name.length) ≠ [] := by
            intro hc
            have := congrArg List.length hc
            simp only [List.length_append, List.length_nil] at this; omega
          rw [t2, read_append rfl _ ne]
          simp only [hr.nul, ne_eq, not_true_eq_false, if_false]
          obtain ⟨e', he'⟩ := readFull_short (d := r.lref.take (n - 4 - r.name.length)) (n := 4)
            (by rw [List.length_take]; omega) e
          exact ⟨e', by rw [he']⟩
    · -- this entry is intact
      rw [ht, bamRefs_step _ hr]
      apply ih (fun x hx => hwf x (by simp [hx]))
      rw [List.length_append] at hn
      omega

/-- a binary BAM header: magic, `l_text`, text, `n_ref`, reference entries -/
structure Hdr where
  lt : Bytes
  text : Bytes
  nr : Bytes
  refs : List Ref

namespace Hdr

def bytes (h : Hdr) : Bytes := bamMagic ++ (h.lt ++ (h.text ++ (h.nr ++ refsBytes h.refs)))

structure WellFormed (sem : BamSem) (h : Hdr) : Prop where
  ltLen : h.lt.length = 4
  ltVal : leNat h.lt = h.text.length
  textSmall : h.text.length < 2147483648
  textOk : sem.textOk h.text = true
  nrLen : h.nr.length = 4
  nrVal : leNat h.nr = h.refs.length
  refsSmall : h.refs.length < 2147483648
  refs : ∀ r ∈ h.refs, r.WellFormed

end Hdr

theorem hdrOk_of_wellFormed (sem : BamSem) (h : Hdr) (hw : h.WellFormed sem) : HdrOk sem h.bytes := by
  have h4 : (4 : Nat) ≠ 0 := by decide
  have hml : bamMagic.length = 4 := rfl
  have ts := hw.textSmall
  have rsm := hw.refsSmall
  have c1 : ¬ h.text.length ≥ 2147483648 := by omega
  have c2 : ¬ h.refs.length ≥ 2147483648 := by omega
  have ltl := hw.ltLen
  have nrl := hw.nrLen
  constructor
  · intro t e
    have e1 : h.bytes ++ t = bamMagic ++ (h.lt ++ (h.text ++ (h.nr ++ (refsBytes h.refs ++ t)))) := by
      simp [Hdr.bytes]
    have ne : h.text ++ (h.nr ++ (refsBytes h.refs ++ t)) ≠ [] := by
      intro hc
      have := congrArg List.length hc
      simp [hw.nrLen] at this
    rw [bamHeader, e1, readFull_append hml h4]
    simp only [ne_eq, not_true_eq_false, if_false]
    rw [readFull_append hw.ltLen h4]
    simp only [hw.ltVal, c1, if_false]
    rw [read_append rfl _ ne]
    simp only [hw.textOk, Bool.not_true, Bool.false_eq_true, if_false]
    rw [readFull_append hw.nrLen h4]
    simp only [hw.nrVal, c2, if_false]
    exact bamRefs_refs hw.refs t e
  · intro n hn e
    rw [Hdr.bytes] at hn ⊢
    simp only [List.length_append, hml, hw.ltLen, hw.nrLen] at hn
    rcases take_append_cases bamMagic (h.lt ++ (h.text ++ (h.nr ++ refsBytes h.refs))) n with ⟨h1, t1⟩ | ⟨h1, t1⟩
    · rw [t1, bamHeader]
      obtain ⟨e', he'⟩ := readFull_short (d := bamMagic.take n) (n := 4) (by rw [List.length_take]; omega) e
      exact ⟨e', by rw [he']⟩
    · rw [t1, bamHeader, readFull_append hml h4]
      simp only [ne_eq, not_true_eq_false, if_false]
      rw [hml] at h1 ⊢
      rcases take_append_cases h.lt (h.text ++ (h.nr ++ refsBytes h.refs)) (n - 4) with ⟨h2, t2⟩ | ⟨h2, t2⟩
      · rw [t2]
        obtain ⟨e', he'⟩ := readFull_short (d := h.lt.take (n - 4)) (n := 4) (by rw [List.length_take]; omega) e
        exact ⟨e', by rw [he']⟩
      · rw [t2, readFull_append hw.ltLen h4]
        simp only [hw.ltVal, c1, if_false]
        rw [hw.ltLen] at h2 ⊢
        rcases take_append_cases h.text (h.nr ++ refsBytes h.refs) (n - 4 - 4) with ⟨h3, t3⟩ | ⟨h3, t3⟩
        · rw [t3]
          obtain ⟨e', he'⟩ := read_short (d := h.text.take (n - 4 - 4)) (n := h.text.length)
            (by rw [List.length_take]; omega) e
          exact ⟨e', by rw [he']⟩
        · rw [t3]
          rcases take_append_cases h.nr (refsBytes h.refs) (n - 4 - 4 - h.text.length) with ⟨h5, t5⟩ | ⟨h5, t5⟩
          · -- the cut is inside n_ref: the text may be read (or, if everything after l_text is
            -- missing, the single Read already fails), then n_ref is short
            rw [t5]
            by_cases hem : h.text ++ h.nr.take (n - 4 - 4 - h.text.length) = []
            · rw [hem]
              exact ⟨e, by simp [Flat.read]⟩
            · rw [read_append rfl _ hem]
              simp only [hw.textOk, Bool.not_true, Bool.false_eq_true, if_false]
              obtain ⟨e', he'⟩ := readFull_short (d := h.nr.take (n - 4 - 4 - h.text.length)) (n := 4)
                (by rw [List.length_take]; omega) e
              exact ⟨e', by rw [he']⟩
          · have ne : h.text ++ (h.nr ++ (refsBytes h.refs).take (n - 4 - 4 - h.text.length - h.nr.length)) ≠ [] := by
              intro hc
              have := congrArg List.length hc
              simp [hw.nrLen] at this
            rw [t5, read_append rfl _ ne]
            simp only [hw.textOk, Bool.not_true, Bool.false_eq_true, if_false]
            rw [readFull_append hw.nrLen h4]
            simp only [hw.nrVal, c2, if_false]
            apply bamRefs_refs_prefix hw.refs
            rw [hw.nrLen] at h5 ⊢
            omega

end Hts.Lemmas.BgzfBytes
