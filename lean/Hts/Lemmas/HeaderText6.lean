/-
C07 helper lemmas, part 15: text round trip of a whole view.
-/
import Hts.Lemmas.HeaderText5
namespace Hts.Model.Header

theorem lines_no10 {E : Ext} {v : View} (wf : WFView E v) : ∀ l ∈ allLines v, 10 ∉ l := by
  intro l hl
  unfold allLines at hl
  simp only [List.mem_append, List.mem_map] at hl
  rcases hl with (((hl | ⟨x, hx, rfl⟩) | ⟨x, hx, rfl⟩) | ⟨x, hx, rfl⟩) | ⟨c, hc, rfl⟩
  · split at hl
    · cases hl
    · simp only [List.mem_singleton] at hl; subst hl
      exact lineB_no 10 (Or.inl rfl) _ (notin_str_at 10 (Or.inr (Or.inl rfl)) _ (Or.inr (Or.inr (Or.inr rfl)))) _ (hdTags_clean wf.hd)
  · exact lineB_no 10 (Or.inl rfl) _ (notin_str_at 10 (Or.inr (Or.inl rfl)) _ (Or.inl rfl)) _ (refTags_clean (wf.refs x hx).1)
  · exact lineB_no 10 (Or.inl rfl) _ (notin_str_at 10 (Or.inr (Or.inl rfl)) _ (Or.inr (Or.inl rfl))) _ (rgTags_clean (wf.rgs x hx))
  · exact lineB_no 10 (Or.inl rfl) _ (notin_str_at 10 (Or.inr (Or.inl rfl)) _ (Or.inr (Or.inr (Or.inl rfl)))) _ (pgTags_clean (wf.pgs x hx))
  · intro hm; rcases List.mem_append.1 hm with hm | hm
    · revert hm; decide
    · exact (wf.hd.comments c hc).1 hm

theorem map_ids {β γ : Type} (l : List (Int × β)) (g : β → γ) (hid : ∀ (i : Nat) x, l[i]? = some x → x.1 = (i : Int)) :
    ∀ (i : Nat) x, (l.map fun x => (x.1, g x.2))[i]? = some x → x.1 = ((0 + i : Nat) : Int) := by
  intro i x hx
  rw [List.getElem?_map] at hx
  cases hl : l[i]? with
  | none => simp [hl] at hx
  | some y => simp [hl] at hx; subst hx; simpa using hid i y hl

theorem ids0 {β : Type} (l : List (Int × β)) (hid : ∀ (i : Nat) x, l[i]? = some x → x.1 = (i : Int)) :
    ∀ (i : Nat) x, l[i]? = some x → x.1 = ((0 + i : Nat) : Int) := by
  intro i x hx; simpa using hid i x hx

/-- serialising a well-formed view and parsing the text into a fresh header gives a header with that view -/
theorem text_roundtrip_view (E : Ext) (w : World) (hw : WInv w) (v : View) (wf : WFView E v) :
    ∃ w', unmarshalText E (pushHeader w {}) w.hdrs.length (marshalView v) = (w', .ok) ∧ WInv w' ∧
      view w' w.hdrs.length = v ∧ w'.hdrs.length = w.hdrs.length + 1 := by
  unfold unmarshalText
  rw [marshalView_lines, splitOn_lines _ (lines_no10 wf)]
  obtain ⟨i1, i2, i3, hf1, hlt1⟩ := pushHeader_items w hw
  have hw1 := winv_pushHeader hw {}
  have hlen1 : (pushHeader w {}).hdrs.length = w.hdrs.length + 1 := by simp [pushHeader]
  generalize pushHeader w {} = w1 at i1 i2 i3 hf1 hlt1 hw1 hlen1
  generalize w.hdrs.length = hn at *
  unfold allLines
  simp only [List.append_assoc]
  -- @HD
  obtain ⟨w2, p2, hw2, r2, g2, q2, hf2, hlt2⟩ : ∃ w2, (∀ R, parseLines E w1 hn
      ((if v.f.version = [] then [] else [lineB "@HD" (hdTags v.f)]) ++ R) = parseLines E w2 hn R) ∧ WInv w2 ∧
      w2.refs = w1.refs ∧ w2.rgs = w1.rgs ∧ w2.pgs = w1.pgs ∧
      w2.hdrs[hn]? = some { v.f with comments := [] } ∧ w2.hdrs.length = w1.hdrs.length := by
    by_cases hv : v.f.version = []
    · refine ⟨w1, fun R => by simp [hv], hw1, rfl, rfl, rfl, ?_, rfl⟩
      rw [hf1]
      obtain ⟨h1, h2, h3⟩ := wf.hd.hd hv
      have h4 := wf.hd.live
      cases hvf : v.f with
      | mk ver so go other comments dead => rw [hvf] at hv h1 h2 h3 h4; simp_all
    · have hp := parseLine_hd E hf1 v.f wf.hd hv
      refine ⟨setHdr w1 hn { version := v.f.version, so := v.f.so, go := v.f.go, other := v.f.other }, fun R => ?_, winv_setHdr hw1 _ _, rfl, rfl, rfl, ?_, by simp [setHdr]⟩
      · simp only [hv, if_false, List.cons_append, List.nil_append]
        exact parseLines_cons_ok E _ (lineB_no 13 (Or.inr rfl) _ (notin_str_at 13 (Or.inr (Or.inr rfl)) _ (Or.inr (Or.inr (Or.inr rfl)))) _ (hdTags_clean wf.hd))
          (lineB_ne_nil _ _ (by decide)) hp
      · simp only [setHdr]; rw [set_get _ _ _ _ _ hf1, if_pos rfl]
        have h4 := wf.hd.live
        cases hvf : v.f with
        | mk ver so go other comments dead => rw [hvf] at h4; simp_all
  rw [p2]
  have hlt2' : hn < w2.hdrs.length := by rw [hlt2]; exact hlt1
  -- @SQ
  have e3 : v.refs.map (fun x => lineB "@SQ" (refTags x.2.1 x.2.2)) =
      (v.refs.map (fun x => (x.2.1, x.2.2))).map (fun r => lineB "@SQ" (refTags r.1 r.2)) := by
    rw [List.map_map]; rfl
  rw [e3]
  obtain ⟨w3, p3, hw3, h3, g3, q3, it3⟩ := parse_refs E hn _ (v.refs.map (fun x => (x.2.1, x.2.2))) w2 hw2 hlt2'
    (by intro r hr; obtain ⟨x, hx, rfl⟩ := List.mem_map.1 hr; exact (wf.refs x hx).1)
    (by rw [List.map_map]; exact wf.ndr) (by intro r _; rw [r2, i1]; simp)
  rw [p3]
  -- @RG
  have e4 : v.rgs.map (fun x => lineB "@RG" (rgTags x.2.1 x.2.2)) =
      (v.rgs.map (fun x => x.2)).map (fun r => lineB "@RG" (rgTags r.1 r.2)) := by
    rw [List.map_map]; rfl
  rw [e4]
  obtain ⟨w4, p4, hw4, h4, r4, q4, it4⟩ := parse_rgs E hn _ (v.rgs.map (fun x => x.2)) w3 hw3 (by rw [h3]; exact hlt2')
    (by intro r hr; obtain ⟨x, hx, rfl⟩ := List.mem_map.1 hr; exact wf.rgs x hx)
    (by rw [List.map_map]; exact wf.ndg) (by intro r _; rw [g3, g2, i2]; simp)
  rw [p4]
  -- @PG
  have e5 : v.pgs.map (fun x => lineB "@PG" (pgTags x.2.1 x.2.2)) =
      (v.pgs.map (fun x => x.2)).map (fun r => lineB "@PG" (pgTags r.1 r.2)) := by
    rw [List.map_map]; rfl
  rw [e5]
  obtain ⟨w5, p5, hw5, h5, r5, g5, it5⟩ := parse_pgs E hn _ (v.pgs.map (fun x => x.2)) w4 hw4 (by rw [h4, h3]; exact hlt2')
    (by intro r hr; obtain ⟨x, hx, rfl⟩ := List.mem_map.1 hr; exact wf.pgs x hx)
    (by rw [List.map_map]; exact wf.ndp) (by intro r _; rw [q4, q3, q2, i3]; simp)
  rw [p5]
  -- @CO
  have hf5 : w5.hdrs[hn]? = some { v.f with comments := [] } := by rw [h5, h4, h3]; exact hf2
  rw [parse_cos E hn _ v.f.comments w5 _ hf5 (fun c hc => (wf.hd.comments c hc).2)]
  have hfin : ∀ w6, parseLines E w6 hn [[]] = (w6, .ok) := by
    intro w6
    rw [parseLines]
    have : dropCR ([] : Bytes) = [] := rfl
    simp only [this, if_true, parseLines]
  rw [hfin]
  refine ⟨_, rfl, winv_setHdr hw5 _ _, ?_, by simp [setHdr, h5, h4, h3, hlt2, hlen1]⟩
  -- the view
  obtain ⟨tr, htr⟩ : ∃ t, w3.refs.tabs[hn]? = some t := ⟨w3.refs.tabs[hn]'(by rw [hw3.lr, h3]; exact hlt2'), by simp [hw3.lr, h3, hlt2']⟩
  obtain ⟨tg, htg⟩ : ∃ t, w4.rgs.tabs[hn]? = some t := ⟨w4.rgs.tabs[hn]'(by rw [hw4.lg, h4, h3]; exact hlt2'), by simp [hw4.lg, h4, h3, hlt2']⟩
  obtain ⟨tp, htp⟩ : ∃ t, w5.pgs.tabs[hn]? = some t := ⟨w5.pgs.tabs[hn]'(by rw [hw5.lp, h5, h4, h3]; exact hlt2'), by simp [hw5.lp, h5, h4, h3, hlt2']⟩
  have vf : (((setHdr w5 hn { v.f with comments := ([] : List Bytes) ++ v.f.comments }).hdrs[hn]?).getD {}) = v.f := by
    simp only [setHdr]; rw [set_get _ _ _ _ _ hf5, if_pos rfl]; simp
  have vr : (items w3.refs hn).map (fun x => (x.1, x.2.1, normRef x.2.2)) = v.refs := by
    apply ids_ext _ _ 0 (map_ids _ (fun (y : Bytes × RefD) => (y.1, normRef y.2)) (items_ids htr (hw3.refs.tab hn tr htr))) (ids0 _ wf.idr)
    rw [List.map_map]
    have : ((fun (x : Int × Bytes × RefD) => x.2) ∘ fun (x : Int × Bytes × RefD) => (x.1, (fun (y : Bytes × RefD) => (y.1, normRef y.2)) x.2)) =
        fun (x : Int × Bytes × RefD) => (x.2.1, normRef x.2.2) := rfl
    rw [this, it3, r2, i1]
    simp only [List.map_nil, List.nil_append, List.map_map]
    apply List.map_congr_left
    intro x hx
    show (x.2.1, normRef x.2.2) = x.2
    rw [(wf.refs x hx).2]
  have vg : items w4.rgs hn = v.rgs := by
    apply ids_ext _ _ 0 (ids0 _ (items_ids htg (hw4.rgs.tab hn tg htg))) (ids0 _ wf.idg)
    rw [it4, g3, g2, i2]; simp
  have vp : items w5.pgs hn = v.pgs := by
    apply ids_ext _ _ 0 (ids0 _ (items_ids htp (hw5.pgs.tab hn tp htp))) (ids0 _ wf.idp)
    rw [it5, q4, q3, q2, i3]; simp
  unfold view
  rw [vf]
  have a1 : (setHdr w5 hn { v.f with comments := ([] : List Bytes) ++ v.f.comments }).refs = w3.refs := by
    simp only [setHdr]; rw [r5, r4]
  have a2 : (setHdr w5 hn { v.f with comments := ([] : List Bytes) ++ v.f.comments }).rgs = w4.rgs := by
    simp only [setHdr]; rw [g5]
  have a3 : (setHdr w5 hn { v.f with comments := ([] : List Bytes) ++ v.f.comments }).pgs = w5.pgs := rfl
  rw [a1, a2, a3, vr, vg, vp]

end Hts.Model.Header
