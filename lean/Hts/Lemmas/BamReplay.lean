/-
Chunk-restricted reading (`SetChunk`, the limit test, `Iterator`) over the flat specification.
-/
import Hts.Lemmas.BamSim
namespace Hts.Model.Bgzf
open Hts.Spec.Flat

/-- A chunk request: the records `M` (at least one) that start at logical position `p`, followed by `B`. -/
structure ChunkSpec where
  p : Nat
  M : List (List UInt8)
  B : List (List UInt8)

/-- `[Begin of the first record of M, End of its last record]`, as the sequential pass reports them. -/
def ChunkSpec.chunk (L : Layout) (cs : ChunkSpec) : Chunk :=
  ⟨offBefore L cs.p, offAfter L (cs.p + recSize cs.M)⟩

structure ChunkSpec.Valid (F : File) (cs : ChunkSpec) : Prop where
  nonempty : cs.M ≠ []
  recs : RecAt F cs.p (cs.M ++ cs.B)
  le : cs.p ≤ flatLen F

/-- The reader is restricted to chunk `c` and stands before the records `R` of it (`B` follow the chunk). -/
structure InChunk (F : File) (br : BamReader) (s : State) (c : Chunk) (R B : List (List UInt8)) : Prop where
  bsim : BSim F br s
  hc : br.c = some c
  recs : RecAt F s.pos (R ++ B)
  le : s.pos ≤ flatLen F
  fin : c.fin = offAfter (layoutOf F) (s.pos + recSize R)
  last : (R ≠ [] ∧ s.last.fin = offBefore (layoutOf F) s.pos) ∨
         (0 < s.pos ∧ s.last.fin = offAfter (layoutOf F) s.pos)

theorem recSize_append (R B : List (List UInt8)) : recSize (R ++ B) = recSize R + recSize B := by
  induction R with
  | nil => simp [recSize]
  | cons x R ih => simp [recSize, ih]; omega

theorem recSize_pos {b : List UInt8} {R : List (List UInt8)} : 0 < recSize (b :: R) := by
  simp [recSize]; omega

theorem inchunk_read_record {F : File} (hwf : WF F) {br : BamReader} {s : State} {c : Chunk}
    {b : List UInt8} {R B : List (List UInt8)} (h : InChunk F br s c (b :: R) B) :
    br.read.2 = .ok b ∧
    br.read.1.lastChunk = ⟨offBefore (layoutOf F) s.pos, offAfter (layoutOf F) (s.pos + (4 + b.length))⟩ ∧
    InChunk F br.read.1 ⟨s.pos + (4 + b.length), false,
      ⟨offBefore (layoutOf F) (s.pos + 4), offAfter (layoutOf F) (s.pos + (4 + b.length))⟩⟩ c R B := by
  have hL := lwf_of_wf hwf
  have hrec : RecAt F s.pos (b :: (R ++ B)) := by simpa using h.recs
  have htot := hrec.total h.le
  have hsz : recSize (b :: (R ++ B)) = 4 + b.length + recSize (R ++ B) := rfl
  have hszR : recSize (b :: R) = 4 + b.length + recSize R := rfl
  have hRB : recSize R ≤ recSize (R ++ B) := by rw [recSize_append]; omega
  have hlim : ∀ c', br.c = some c' → vOffset s.last.fin < vOffset c'.fin := by
    intro c' hc'
    rw [h.hc] at hc'; cases hc'
    rw [h.fin]
    rcases h.last with ⟨_, hl⟩ | ⟨hp0, hl⟩
    · rw [hl]; exact vOffset_before_lt_after hL (by omega) (by simp; omega)
    · rw [hl]; exact vOffset_after_lt_after hL (by omega) (by simp; omega)
  have ⟨e1, e2, e3, e4⟩ := read_record hwf h.bsim hrec h.le hlim
  refine ⟨e1, e3, e4, e2.trans h.hc, ?_, by simp only []; omega, ?_, Or.inr ⟨by simp only []; omega, rfl⟩⟩
  · have := hrec.tail; simpa using this
  · rw [h.fin, hszR]; simp only []; congr 1; omega

theorem inchunk_read_end {F : File} {br : BamReader} {s : State} {c : Chunk} {B : List (List UInt8)}
    (h : InChunk F br s c [] B) : br.read = (br, .error .eof) := by
  apply read_limit h.bsim c h.hc
  rw [h.fin]
  rcases h.last with ⟨hne, _⟩ | ⟨_, hl⟩
  · exact absurd rfl hne
  · rw [hl]; simp [recSize]

theorem inchunk_setChunk {F : File} (hwf : WF F) {br : BamReader} {s : State} (h : BSim F br s)
    (cs : ChunkSpec) (hv : cs.Valid F) :
    (br.setChunk (some (cs.chunk (layoutOf F)))).2 = none ∧
    InChunk F (br.setChunk (some (cs.chunk (layoutOf F)))).1
      ⟨cs.p, false, ⟨offBefore (layoutOf F) cs.p, offBefore (layoutOf F) cs.p⟩⟩ (cs.chunk (layoutOf F)) cs.M cs.B := by
  have hL := lwf_of_wf hwf
  obtain ⟨b, M', hM⟩ : ∃ b M', cs.M = b :: M' := by
    cases hm : cs.M with
    | nil => exact absurd hm hv.nonempty
    | cons b M' => exact ⟨b, M', rfl⟩
  have htot := hv.recs.total hv.le
  have hlt : cs.p < total (layoutOf F) := by
    rw [hM] at htot; simp [recSize] at htot ⊢; omega
  have hst := seekTarget_offBefore hL hlt
  have ⟨k1, k2⟩ := sim_seek hwf h.sim _ _ hst
  rcases hsk : br.r.seek (offBefore (layoutOf F) cs.p) with ⟨r', e⟩
  rw [hsk] at k1 k2
  simp only at k1 k2
  subst k1
  simp only [BamReader.setChunk, ChunkSpec.chunk, hsk]
  refine ⟨trivial, ⟨?_, rfl⟩, rfl, hv.recs, hv.le, rfl, Or.inl ⟨hv.nonempty, rfl⟩⟩
  have := h.unblocked
  rw [← this]; exact k2

/-- **Replay inside a chunk**: the remaining records of the chunk, with the chunks of the sequential
pass, then `io.EOF`. -/
theorem readN_inchunk {F : File} (hwf : WF F) :
    ∀ (R : List (List UInt8)) (br : BamReader) (s : State) (c : Chunk) (B : List (List UInt8)),
      InChunk F br s c R B →
      (br.readN (R.length + 1)).2 = (R.zip (recChunks (layoutOf F) s.pos R), some .eof) := by
  intro R
  induction R with
  | nil =>
    intro br s c B h
    rw [List.length_nil, readN_succ_err 0 (inchunk_read_end h)]; rfl
  | cons b R ih =>
    intro br s c B h
    have ⟨e1, e2, e3⟩ := inchunk_read_record hwf h
    rcases hrd : br.read with ⟨br', res⟩
    rw [hrd] at e1 e2 e3
    simp only at e1 e2 e3
    subst e1
    have := ih br' _ c B e3
    rw [List.length_cons, readN_succ_ok _ hrd, this]
    simp [recChunks, e2]

/-! ### Iterator -/

theorem nextAux_ok {br br' : BamReader} {rec : List UInt8} (chunks : List Chunk)
    (h : br.read = (br', .ok rec)) :
    Iterator.nextAux br chunks = (⟨br', chunks, none⟩, some rec) := by
  cases chunks <;> simp [Iterator.nextAux, h]

theorem nextAux_eof_nil {br br' : BamReader} (h : br.read = (br', .error .eof)) :
    Iterator.nextAux br [] = (⟨br', [], some .eof⟩, none) := by
  simp [Iterator.nextAux, h]

theorem nextAux_eof_cons {br br' br'' : BamReader} {c : Chunk} (rest : List Chunk)
    (h : br.read = (br', .error .eof)) (hs : br'.setChunk (some c) = (br'', none)) :
    Iterator.nextAux br (c :: rest) = Iterator.nextAux br'' rest := by
  simp [Iterator.nextAux, h, hs]

def specRecords : List ChunkSpec → List (List UInt8)
  | [] => []
  | cs :: rest => cs.M ++ specRecords rest

theorem collect_succ_some {it it' : Iterator} {rec : List UInt8} (k : Nat) (h : it.next = (it', some rec)) :
    it.collect (k + 1) = ((it'.collect k).1, rec :: (it'.collect k).2) := by
  simp [Iterator.collect, h]

theorem collect_succ_none {it it' : Iterator} (k : Nat) (h : it.next = (it', none)) :
    it.collect (k + 1) = (it', []) := by
  simp [Iterator.collect, h]

/-- **Iterator.**  Standing inside a chunk before its remaining records `R`, with further chunk requests
queued: the client loop sees `R`, then the records of every queued chunk in the order queued, then stops
without an error. -/
theorem collect_inchunk {F : File} (hwf : WF F) :
    ∀ (specs : List ChunkSpec), (∀ cs ∈ specs, cs.Valid F) →
    ∀ (R : List (List UInt8)) (br : BamReader) (s : State) (c : Chunk) (B : List (List UInt8)) (fuel : Nat),
      InChunk F br s c R B → R.length + (specRecords specs).length < fuel →
      ((Iterator.mk br (specs.map (·.chunk (layoutOf F))) none).collect fuel).2 = R ++ specRecords specs ∧
      ((Iterator.mk br (specs.map (·.chunk (layoutOf F))) none).collect fuel).1.error = none := by
  intro specs
  induction specs with
  | nil =>
    intro _ R
    induction R with
    | nil =>
      intro br s c B fuel h hf
      obtain ⟨fuel, rfl⟩ : ∃ f, fuel = f + 1 := ⟨fuel - 1, by omega⟩
      have hn : (Iterator.mk br [] none).next = (⟨br, [], some .eof⟩, none) := by
        simp only [Iterator.next]; exact nextAux_eof_nil (inchunk_read_end h)
      rw [List.map_nil, collect_succ_none _ hn]
      exact ⟨rfl, rfl⟩
    | cons b R ih =>
      intro br s c B fuel h hf
      obtain ⟨fuel, rfl⟩ : ∃ f, fuel = f + 1 := ⟨fuel - 1, by omega⟩
      have ⟨e1, _, e3⟩ := inchunk_read_record hwf h
      rcases hrd : br.read with ⟨br', res⟩
      rw [hrd] at e1 e3
      simp only at e1 e3
      subst e1
      have hn : (Iterator.mk br [] none).next = (⟨br', [], none⟩, some b) := by
        simp only [Iterator.next]; exact nextAux_ok [] hrd
      have := ih br' _ c B fuel e3 (by simp at hf ⊢; omega)
      rw [List.map_nil] at this ⊢
      rw [collect_succ_some _ hn]
      exact ⟨congrArg (b :: ·) this.1, this.2⟩
  | cons cs rest ihs =>
    intro hv R
    have hvr : ∀ x ∈ rest, x.Valid F := fun x hx => hv x (by simp [hx])
    induction R with
    | nil =>
      intro br s c B fuel h hf
      obtain ⟨fuel, rfl⟩ : ∃ f, fuel = f + 1 := ⟨fuel - 1, by omega⟩
      have ⟨k1, k2⟩ := inchunk_setChunk hwf h.bsim cs (hv cs (by simp))
      rcases hsc : br.setChunk (some (cs.chunk (layoutOf F))) with ⟨br1, e⟩
      rw [hsc] at k1 k2
      simp only at k1 k2
      subst k1
      -- the first step of the loop is the first step of the loop on the next chunk
      have hstep : (Iterator.mk br ((cs :: rest).map (·.chunk (layoutOf F))) none).collect (fuel + 1) =
          (Iterator.mk br1 (rest.map (·.chunk (layoutOf F))) none).collect (fuel + 1) := by
        have : (Iterator.mk br ((cs :: rest).map (·.chunk (layoutOf F))) none).next =
            (Iterator.mk br1 (rest.map (·.chunk (layoutOf F))) none).next := by
          simp only [Iterator.next, List.map_cons]
          exact nextAux_eof_cons _ (inchunk_read_end h) hsc
        simp only [Iterator.collect, this]
      rw [hstep]
      have := ihs hvr cs.M br1 _ _ cs.B (fuel + 1) k2 (by simp [specRecords] at hf ⊢; omega)
      simpa [specRecords] using this
    | cons b R ih =>
      intro br s c B fuel h hf
      obtain ⟨fuel, rfl⟩ : ∃ f, fuel = f + 1 := ⟨fuel - 1, by omega⟩
      have ⟨e1, _, e3⟩ := inchunk_read_record hwf h
      rcases hrd : br.read with ⟨br', res⟩
      rw [hrd] at e1 e3
      simp only at e1 e3
      subst e1
      have hn : (Iterator.mk br ((cs :: rest).map (·.chunk (layoutOf F))) none).next =
          (⟨br', (cs :: rest).map (·.chunk (layoutOf F)), none⟩, some b) := by
        simp only [Iterator.next]; exact nextAux_ok _ hrd
      have := ih br' _ c B fuel e3 (by simp at hf ⊢; omega)
      rw [collect_succ_some _ hn]
      exact ⟨congrArg (b :: ·) this.1, this.2⟩

/-- `NewIterator` over at least one chunk request, from any reader state. -/
theorem iterator_new {F : File} (hwf : WF F) {br : BamReader} {s : State} (h : BSim F br s)
    (cs : ChunkSpec) (rest : List ChunkSpec) (hv : ∀ x ∈ cs :: rest, x.Valid F) (fuel : Nat)
    (hf : (specRecords (cs :: rest)).length < fuel) :
    ∃ it, Iterator.new br ((cs :: rest).map (·.chunk (layoutOf F))) = .ok it ∧
      (it.collect fuel).2 = specRecords (cs :: rest) ∧ (it.collect fuel).1.error = none := by
  have ⟨k1, k2⟩ := inchunk_setChunk hwf h cs (hv cs (by simp))
  rcases hsc : br.setChunk (some (cs.chunk (layoutOf F))) with ⟨br1, e⟩
  rw [hsc] at k1 k2
  simp only at k1 k2
  subst k1
  refine ⟨⟨br1, rest.map (·.chunk (layoutOf F)), none⟩, by simp [Iterator.new, hsc], ?_⟩
  have := collect_inchunk hwf rest (fun x hx => hv x (by simp [hx])) cs.M br1 _ _ cs.B fuel k2
    (by simpa [specRecords] using hf)
  simpa [specRecords] using this

end Hts.Model.Bgzf
