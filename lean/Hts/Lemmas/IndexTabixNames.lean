/-
The tabix name table: after any sequence of Adds the name map is exactly `names.zipIdx` with
pairwise distinct names, which is also the map `ReadFrom` rebuilds from the name block — so the
re-read index resolves every name to the same reference id.
-/
import Hts.Lemmas.IndexTabix
namespace Hts.Model.Tabix
open Hts.Model.Index

theorem mapSet_absent (m : List (Name × Nat)) (k : Name) (v : Nat) (h : mapGet m k = none) :
    mapSet m k v = m ++ [(k, v)] := by
  induction m with
  | nil => rfl
  | cons p m ih =>
    obtain ⟨k', v'⟩ := p
    unfold mapSet
    by_cases hk : k' = k
    · subst hk
      simp [mapGet, List.lookup] at h
    · simp only [hk, if_false, List.cons_append]
      have hne : (k == k') = false := by simpa using fun h' => hk h'.symm
      have : mapGet m k = none := by simpa [mapGet, List.lookup, hne] using h
      rw [ih this]

theorem mapGet_zipIdx_none (names : List Name) (k : Nat) (n : Name) :
    mapGet (names.zipIdx k) n = none ↔ n ∉ names := by
  induction names generalizing k with
  | nil => simp [mapGet]
  | cons a as ih =>
    simp only [List.zipIdx_cons, mapGet, List.lookup_cons, List.mem_cons, not_or]
    by_cases hna : n = a
    · subst hna; simp
    · have : (n == a) = false := by simpa using hna
      simp only [this]
      have := ih (k + 1)
      unfold mapGet at this
      rw [this]
      exact ⟨fun h => ⟨hna, h⟩, fun h => h.2⟩

/-- the name table `Add` maintains -/
structure NameInv (t : TIndex) : Prop where
  map : t.nameMap = t.names.zipIdx
  nodup : t.names.Nodup

theorem nameInv_empty (hdr : Header) : NameInv { hdr := hdr } := ⟨rfl, List.nodup_nil⟩

theorem add_nameInv (binOf : Int → Int → Nat) (t : TIndex) (r : TRec) (h : NameInv t) :
    NameInv (add binOf t r).1 := by
  unfold add
  cases hk : mapGet t.nameMap r.name with
  | some id =>
    simp only [Option.isNone_some, Bool.false_and, Bool.false_eq_true, if_false]
    exact ⟨h.map, h.nodup⟩
  | none =>
    simp only [Option.isNone_none, Bool.true_and]
    split
    · refine ⟨?_, ?_⟩
      · simp only
        rw [mapSet_absent _ _ _ hk, h.map, List.zipIdx_append]
        simp
      · simp only
        have hnot : r.name ∉ t.names := by
          rw [h.map] at hk
          exact (mapGet_zipIdx_none t.names 0 r.name).1 hk
        rw [List.nodup_append]
        refine ⟨h.nodup, by simp, ?_⟩
        intro a ha b hb
        simp only [List.mem_singleton] at hb
        subst hb
        intro hab; subst hab; exact hnot ha
    · exact ⟨h.map, h.nodup⟩

theorem addAll_nameInv (binOf : Int → Int → Nat) : ∀ (recs : List TRec) (t : TIndex), NameInv t →
    NameInv (addAll binOf t recs).1 := by
  intro recs
  induction recs with
  | nil => intro t h; exact h
  | cons r rs ih => intro t h; exact ih _ (add_nameInv binOf t r h)

/-- the map `ReadFrom` rebuilds is the same association list when the names are pairwise distinct -/
theorem buildMap_nodup (names : List Name) (h : names.Nodup) : buildMap names = names.zipIdx := by
  unfold buildMap
  suffices H : ∀ (pre suf : List Name), (pre ++ suf).Nodup →
      (suf.zipIdx pre.length).foldl (fun m (p : Name × Nat) => mapSet m p.1 p.2) (pre.zipIdx) =
        (pre ++ suf).zipIdx by
    have := H [] names (by simpa using h)
    simpa using this
  intro pre suf
  induction suf generalizing pre with
  | nil => intro _; simp
  | cons a as ih =>
    intro hnd
    simp only [List.zipIdx_cons, List.foldl_cons]
    have hnot : a ∉ pre := by
      intro ha
      rw [List.nodup_append] at hnd
      exact hnd.2.2 a ha a List.mem_cons_self rfl
    have hk : mapGet (pre.zipIdx) a = none := (mapGet_zipIdx_none pre 0 a).2 hnot
    rw [mapSet_absent _ _ _ hk]
    have e1 : pre.zipIdx ++ [(a, pre.length)] = (pre ++ [a]).zipIdx := by
      rw [List.zipIdx_append]; simp
    have e2 : pre.length + 1 = (pre ++ [a]).length := by simp
    rw [e1, e2]
    have := ih (pre ++ [a]) (by simpa [List.append_assoc] using hnd)
    simpa [List.append_assoc] using this

/-- for every index built by `Add`: the re-read index resolves every name as the original does -/
theorem built_map_agrees (binOf : Int → Int → Nat) (hdr : Header) (recs : List TRec) (name : Name) :
    mapGet (buildMap (addAll binOf { hdr := hdr } recs).1.names) name =
      mapGet (addAll binOf { hdr := hdr } recs).1.nameMap name := by
  have inv := addAll_nameInv binOf recs { hdr := hdr } (nameInv_empty hdr)
  rw [buildMap_nodup _ inv.nodup, inv.map]

end Hts.Model.Tabix

namespace Hts.Model.Tabix
open Hts.Model.Index

/-- the reference list after any `Add` (whatever the result): unchanged in length, or grown to
`rid + 1` when `rid` was not yet present -/
theorem add_refs_length (i : Index) (r : Rec) :
    (Index.add i r).1.refs.length = i.refs.length ∨
      (i.refs.length ≤ r.rid.toNat ∧ 0 ≤ r.rid ∧ (Index.add i r).1.refs.length = r.rid.toNat + 1) := by
  unfold Index.add
  by_cases hv : (validPos r.start && validPos r.stop) = true
  · by_cases hp : r.placed = true
    · by_cases h2 : r.rid < 0
      · left; simp [hv, hp, h2]
      · by_cases h1 : r.rid < (i.refs.length : Int) - 1
        · left; simp [hv, hp, h1, h2]
        · simp only [hv, hp, h1, h2, Bool.not_true, Bool.false_eq_true, if_false]
          split
          · left; rfl
          · simp only [List.length_set]
            by_cases hg : r.rid.toNat ≥ i.refs.length
            · right
              refine ⟨hg, by omega, ?_⟩
              simp only [hg, decide_true, if_true, List.length_append, List.length_replicate]
              omega
            · left
              simp [hg]
    · left
      have : r.placed = false := by simpa using hp
      simp [hv, this]
  · left
    have : (validPos r.start && validPos r.stop) = false := by simpa using hv
    simp [this]

/-- `len(Names()) == NumRefs()` after any sequence of Adds (the point of fixes/C04-3) -/
theorem add_count (binOf : Int → Int → Nat) (t : TIndex) (r : TRec)
    (hm : ∀ n id, mapGet t.nameMap n = some id → id < t.names.length)
    (h : t.names.length = t.idx.refs.length) :
    (add binOf t r).1.names.length = (add binOf t r).1.idx.refs.length := by
  unfold add
  cases hk : mapGet t.nameMap r.name with
  | some id =>
    simp only [Option.isNone_some, Bool.false_and, Bool.false_eq_true, if_false]
    have hid := hm _ _ hk
    rcases add_refs_length t.idx
      { rid := (id : Int), start := r.start, stop := r.stop, bin := binOf r.start r.stop, chunk := r.chunk,
        placed := r.placed, mapped := r.mapped } with h1 | ⟨h1, _, _⟩
    · rw [h1]; exact h
    · simp only [Int.toNat_natCast] at h1; omega
  | none =>
    simp only [Option.isNone_none, Bool.true_and]
    rcases add_refs_length t.idx
      { rid := ((t.names.length : Nat) : Int), start := r.start, stop := r.stop, bin := binOf r.start r.stop,
        chunk := r.chunk, placed := r.placed, mapped := r.mapped } with h1 | ⟨_, _, h1⟩
    · have : ¬ ((Index.add t.idx
          { rid := ((t.names.length : Nat) : Int), start := r.start, stop := r.stop, bin := binOf r.start r.stop,
            chunk := r.chunk, placed := r.placed, mapped := r.mapped }).1.refs.length > t.names.length) := by
        rw [h1]; omega
      simp only [this, decide_false, Bool.false_eq_true, if_false]
      rw [h1]; exact h
    · simp only [Int.toNat_natCast] at h1
      have : (Index.add t.idx
          { rid := ((t.names.length : Nat) : Int), start := r.start, stop := r.stop, bin := binOf r.start r.stop,
            chunk := r.chunk, placed := r.placed, mapped := r.mapped }).1.refs.length > t.names.length := by
        rw [h1]; omega
      simp only [this, decide_true, if_true, List.length_append, List.length_cons, List.length_nil]
      rw [h1]

theorem mem_of_mapGet (m : List (Name × Nat)) (k : Name) (v : Nat) (h : mapGet m k = some v) : (k, v) ∈ m := by
  induction m with
  | nil => simp [mapGet] at h
  | cons p m ih =>
    obtain ⟨k', v'⟩ := p
    unfold mapGet at h
    rw [List.lookup_cons] at h
    by_cases hk : k = k'
    · subst hk
      simp only [beq_self_eq_true, Option.some.injEq] at h
      subst h
      exact List.mem_cons_self
    · have : (k == k') = false := by simpa using hk
      simp only [this] at h
      exact List.mem_cons_of_mem _ (ih h)

theorem nameInv_ids (t : TIndex) (h : NameInv t) : ∀ n id, mapGet t.nameMap n = some id → id < t.names.length := by
  intro n id hn
  rw [h.map] at hn
  have hmem : (n, id) ∈ t.names.zipIdx := mem_of_mapGet _ _ _ hn
  have := List.mem_zipIdx hmem
  omega

theorem addAll_count (binOf : Int → Int → Nat) : ∀ (recs : List TRec) (t : TIndex), NameInv t →
    t.names.length = t.idx.refs.length →
    (addAll binOf t recs).1.names.length = (addAll binOf t recs).1.idx.refs.length := by
  intro recs
  induction recs with
  | nil => intro t _ h; exact h
  | cons r rs ih =>
    intro t hn h
    exact ih _ (add_nameInv binOf t r hn) (add_count binOf t r (nameInv_ids t hn) h)

end Hts.Model.Tabix
