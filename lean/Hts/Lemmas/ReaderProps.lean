/-
Bridging facts used by the property files C02/C13.
-/
import Hts.Lemmas.ReaderSteps
import Hts.Lemmas.FlatSpec
namespace Hts.Model.Bgzf
open Hts.Spec.Flat

theorem lwf_of_wf {F : File} (h : WF F) : LWF (layoutOf F) := by
  induction F with
  | nil => intro b hb; simp [layoutOf] at hb
  | cons m F ih =>
    have ⟨hc, hl, hw⟩ := WF.cons h
    intro b hb
    simp only [layoutOf, List.mem_cons] at hb
    rcases hb with rfl | hb
    · exact ⟨hc, hl⟩
    · exact ih hw b hb

theorem flatOf_wf {F : File} (h : WF F) : (flatOf F).WF :=
  ⟨by simp [flatOf], lwf_of_wf h⟩

theorem flat_read_congr (F : FlatFile) (s s' : State) (n : Nat) (hp : s.pos = s'.pos)
    (hb : s.blocked = s'.blocked) (hlt : s.pos < total F.layout) :
    Hts.Spec.Flat.read F s n = Hts.Spec.Flat.read F s' n := by
  have h1 : ¬ (total F.layout ≤ s.pos) := by omega
  simp only [Hts.Spec.Flat.read, h1, if_false, ← hp, ← hb]

theorem flat_read_blocked (F : FlatFile) (s : State) (n : Nat) :
    (Hts.Spec.Flat.read F s n).st.blocked = s.blocked := by
  simp only [Hts.Spec.Flat.read]; split <;> rfl

/-- Example file for the non-vacuity statements: empty members in the middle and at the end. -/
def exFile : File := [⟨[1, 2, 3], 30⟩, ⟨[], 28⟩, ⟨[4, 5], 31⟩, ⟨[], 28⟩]

theorem exFile_wf : WF exFile := by
  intro m hm; simp [exFile] at hm; rcases hm with rfl | rfl | rfl | rfl <;> simp

end Hts.Model.Bgzf
