/-
Read-ahead protocol: a measure that every step decreases while the consumer is inside a call.
-/
import Hts.Lemmas.ReaderLTSMain
namespace Hts.Model.ReadAhead

variable {cfg : Cfg} {s t : State} {ev : Option Ev}

/-- consumer steps still to go in the current call (an upper bound) -/
def consWeight (rd : Nat) : Cons → Nat
  | .idle => 0
  | .ret _ => 1
  | .send _ => 2
  | .drain _ => 3
  | .fetch _ => 4
  | .sync _ => 4
  | .sel _ => 5
  | .scan _ i => 6 + (rd - i)
  | .closeW => 2
  | .join => 1
  | .closed => 0
  | .panicked => 0

def workerWeight : Worker → Nat
  | .exited _ => 0
  | .idle _ => 1
  | .push _ => 2
  | .load _ => 3
  | .have _ => 4

/-- **Termination measure.** -/
def mu (cfg : Cfg) (s : State) : Nat :=
  7 * consWeight cfg.rd s.cons + 5 * s.waiting + workerWeight s.worker + (if s.control.isSome then 1 else 0)

theorem wk_mu {f : Bool} (h : wkStep cfg s f = some (ev, t)) : mu cfg t < mu cfg s := by
  have hfr := wk_frame h
  unfold wkStep at h
  cases hw : s.worker with
  | load x =>
    simp only [hw] at h
    cases hl : doLoad cfg s x f with
    | none => simp [hl] at h
    | some r =>
      obtain ⟨b, hd, ev'⟩ := r
      simp only [hl, Option.some.injEq, Prod.mk.injEq] at h
      obtain ⟨-, rfl⟩ := h
      simp [mu, hw, workerWeight]
  | idle nx =>
    simp only [hw] at h
    step_cases h <;> simp only [mu, hw, workerWeight] <;> omega
  | «have» nx =>
    simp only [hw] at h
    cases hc : s.control with
    | some v => simp only [hc] at h; step_cases h <;> simp [mu, hw, hc, workerWeight]
    | none => simp only [hc] at h; step_cases h <;> simp [mu, hw, hc, workerWeight]
  | push b =>
    simp only [hw] at h
    step_cases h
    simp [mu, hw, workerWeight]
  | exited hh => simp [hw] at h

theorem ctl_le (o : Option (Option Nat)) : (if o.isSome then 1 else 0) ≤ 1 := by
  split <;> omega

theorem api_mu {c f : Bool} (hi : Inv cfg s) (h : apiStep cfg s c f = some (ev, t)) (hne : s.cons ≠ .idle) :
    mu cfg t < mu cfg s := by
  have hb1 := ctl_le s.control
  unfold apiStep at h
  cases hc : s.cons with
  | idle => exact absurd hc hne
  | scan e i =>
    obtain ⟨old, new, d, T, _, _, _, hbound⟩ := hi.expScan e i hc
    simp only [hc] at h
    step_cases h <;> simp only [mu, hc, consWeight] <;> omega
  | fetch e =>
    simp only [hc] at h
    by_cases hcf : c = true
    · simp [hcf] at h
    · simp only [hcf, if_false, Bool.false_eq_true] at h
      cases hl : doLoad cfg s (some e) f with
      | none => simp [hl] at h
      | some r =>
        obtain ⟨b, hd, ev'⟩ := r
        simp only [hl, Option.some.injEq, Prod.mk.injEq] at h
        obtain ⟨-, rfl⟩ := h
        simp only [mu, hc, consWeight]; omega
  | sync off =>
    simp only [hc] at h
    by_cases hcf : c = true
    · simp [hcf] at h
    · simp only [hcf, if_false, Bool.false_eq_true] at h
      cases hl : doLoad cfg s (some off) f with
      | none => simp [hl] at h
      | some r =>
        obtain ⟨b, hd, ev'⟩ := r
        simp only [hl, Option.some.injEq, Prod.mk.injEq] at h
        obtain ⟨-, rfl⟩ := h
        simp only [mu, hc, consWeight]; omega
  | sel off =>
    simp only [hc] at h
    step_cases h <;> simp only [mu, hc, consWeight] <;> omega
  | drain w =>
    simp only [hc] at h
    step_cases h
    simp only [mu, hc, consWeight, Option.isSome_none, Bool.false_eq_true, if_false]; omega
  | send w =>
    simp only [hc] at h
    step_cases h
    simp only [mu, hc, consWeight, Option.isSome_some, if_true]
    rename_i hctl
    simp only [hctl, Option.isSome_none, Bool.false_eq_true, if_false]; omega
  | ret ok =>
    simp only [hc] at h
    step_cases h
    simp only [mu, hc, consWeight]; omega
  | closeW =>
    simp only [hc] at h
    step_cases h
    simp only [mu, hc, consWeight]; omega
  | join =>
    simp only [hc] at h
    step_cases h
    simp only [mu, hc, consWeight]; omega
  | closed => simp [hc] at h
  | panicked => simp [hc] at h

/-- **Every API call returns.** While the consumer is inside a call, every step of either thread decreases
`mu`; together with dead-lock freedom: no infinite run and no stuck state inside a call, under any scheduler. -/
theorem mu_decreases {l : Label} (hi : Inv cfg s) (h : next cfg s l = some (ev, t)) (hne : s.cons ≠ .idle) :
    mu cfg t < mu cfg s := by
  cases l with
  | api c f => exact api_mu hi h hne
  | wk f => exact wk_mu h

end Hts.Model.ReadAhead
