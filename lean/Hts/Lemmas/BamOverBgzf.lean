/-
The BAM record stream under the BGZF layer, with C01's models: the script `bam.NewWriter`/`Write`/`Close` runs on the
BGZF writer (`Write(header)`, `Flush`, one `Write` per record, `Close`) is put through C01's writer, member and reader
models; `Props.C01.roundtrip_default` gives the decoded blocks, whose concatenation is the header section followed by
the record frames; `readAll_encodeAll` reads the records back.  Byte types: C01 works on `UInt8`, this model on
`BitVec 8`; `toU8`/`ofU8` are the two directions of the same wrapping.
-/
import Hts.Lemmas.BamStream
import Hts.Props.C01
namespace Hts.Model.Bam
open Hts.Model Hts.Model.BgzfWriter

def toU8 (b : Byte) : UInt8 := ⟨b⟩
def ofU8 (b : UInt8) : Byte := b.toBitVec

theorem ofU8_toU8_map (bs : List Byte) : (bs.map toU8).map ofU8 = bs := by
  induction bs with
  | nil => rfl
  | cons b bs ih => simp only [List.map_cons, ih]; rfl

/-- the frames `Writer.Write` hands to the BGZF writer, one per record -/
def frames : List Record → Except Fault (List (List Byte))
  | [] => .ok []
  | r :: rs =>
    match encodeRecord r with
    | .error f => .error f
    | .ok bs =>
      match frames rs with
      | .error f => .error f
      | .ok more => .ok (bs :: more)

theorem encodeAll_frames : ∀ (rs : List Record) (s : List Byte), encodeAll rs = .ok s →
    ∃ fs, frames rs = .ok fs ∧ fs.flatten = s
  | [], s, h => by
    simp only [encodeAll, Except.ok.injEq] at h
    exact ⟨[], rfl, by simp [← h]⟩
  | r :: rs, s, h => by
    simp only [encodeAll] at h
    split at h
    · cases h
    · rename_i bs hb
      split at h
      · cases h
      · rename_i more hm
        simp only [Except.ok.injEq] at h
        obtain ⟨fs, hfs, hfl⟩ := encodeAll_frames rs more hm
        exact ⟨bs :: fs, by simp [frames, hb, hfs], by simp [hfl, ← h]⟩

/-- the operations `bam.NewWriter(w, h, wc)`, `Write(r)` for every record and `Close` perform on the BGZF writer -/
def bamScript (hdrBytes : List Byte) (fs : List (List Byte)) : List (Op UInt8) :=
  Op.write (hdrBytes.map toU8) :: Op.flush :: (fs.map (fun f => Op.write (f.map toU8)) ++ [Op.close])

theorem hasClose_script (hdrBytes : List Byte) (fs : List (List Byte)) : hasClose (bamScript hdrBytes fs) = true := by
  simp only [bamScript, hasClose]
  induction fs with
  | nil => rfl
  | cons f fs ih => simpa [hasClose] using ih

theorem accepted_writes (fs : List (List Byte)) :
    accepted (fs.map (fun f => Op.write (f.map toU8)) ++ [Op.close]) = (fs.flatten).map toU8 := by
  induction fs with
  | nil => rfl
  | cons f fs ih => simp [accepted, ih]

theorem accepted_script (hdrBytes : List Byte) (fs : List (List Byte)) :
    accepted (bamScript hdrBytes fs) = (hdrBytes ++ fs.flatten).map toU8 := by
  simp [bamScript, accepted, accepted_writes]

open Member in
/-- BAM OVER BGZF (C01's sequential models; concurrency is C12's and C02's): for every lawful DEFLATE/CRC codec within
the bound, every header section and every list of representable records, `Close` returns nil, the BGZF reader decodes
the file into blocks whose concatenation is the header section followed by the record frames, and — once the header
section has been consumed — `Read` returns the records in order and then io.EOF, in every Omit mode. -/
theorem bam_over_bgzf (c : Codec) (hb : Bounded c.toCodecFns) (hdrBytes : List Byte) (om : Omit) {n : Nat}
    (rs : List Record) (hwf : ∀ r ∈ rs, WF n r) :
    ∃ fs s, frames rs = .ok fs ∧ encodeAll rs = .ok s ∧
      (closeOutput c.toCodecFns {} (after (bamScript hdrBytes fs)).emitted).2 = none ∧
      ∃ blocks, readStream c.toCodecFns (closeOutput c.toCodecFns {} (after (bamScript hdrBytes fs)).emitted).1
          = some blocks ∧
        blocks.flatten.map ofU8 = hdrBytes ++ s ∧
        readAll om n ((blocks.flatten.map ofU8).drop hdrBytes.length) = (rs.map (expected om), none) := by
  obtain ⟨s, hs, hr⟩ := readAll_encodeAll om rs hwf
  obtain ⟨fs, hfs, hfl⟩ := encodeAll_frames rs s hs
  obtain ⟨hok, blocks, r0, hrd, _, hflat, _⟩ :=
    Hts.Props.C01.roundtrip_default c hb (bamScript hdrBytes fs) (hasClose_script hdrBytes fs)
  have hbytes : blocks.flatten.map ofU8 = hdrBytes ++ s := by
    rw [hflat, accepted_script, ofU8_toU8_map, hfl]
  refine ⟨fs, s, hfs, hs, hok, blocks, hrd, hbytes, ?_⟩
  rw [hbytes, List.drop_left, hr]

end Hts.Model.Bam
