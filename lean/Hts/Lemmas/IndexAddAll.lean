/-
`internal.Index.Add` over a whole coordinate-sorted sequence: the index-level invariant, its
preservation by one accepted `Add`, and the induction over the sequence (`addAll_inv`).
-/
import Hts.Lemmas.IndexAdd
namespace Hts.Model.Index

/-- the records of `hist` that went to reference `j` -/
def onRef (hist : List Rec) (j : Nat) : List Rec := hist.filter (fun a => decide (a.rid = (j : Int)))

/-- what the index knows after the placed records `hist` (newest first) were added to the empty index -/
structure IdxInv (i : Index) (hist : List Rec) : Prop where
  flag : i.isSorted = false
  len0 : hist = [] → i.refs = []
  last : ∀ a rest, hist = a :: rest → (i.refs.length : Int) = a.rid + 1 ∧ i.lastRecord = a.start
  ridLt : ∀ a, a ∈ hist → 0 ≤ a.rid ∧ a.rid < (i.refs.length : Int)
  refInv : ∀ j ref, i.refs[j]? = some ref → RefInv ref (onRef hist j)

theorem idxInv_empty : IdxInv {} [] :=
  { flag := rfl
    len0 := fun _ => rfl
    last := by intro a rest h; cases h
    ridLt := by intro a h; cases h
    refInv := by intro j ref h; simp at h }

/-- the padded reference list of `Add` -/
def padded (refs : List RefIndex) (rid : Nat) : List RefIndex :=
  if decide (rid ≥ refs.length) then refs ++ List.replicate (rid + 1 - refs.length) emptyRef else refs

theorem padded_get (refs : List RefIndex) (rid j : Nat) (ref : RefIndex)
    (h : (padded refs rid)[j]? = some ref) :
    (j < refs.length ∧ refs[j]? = some ref) ∨ (refs.length ≤ j ∧ j ≤ rid ∧ ref = emptyRef) := by
  unfold padded at h
  split at h
  · rw [List.getElem?_append] at h
    split at h
    · left; exact ⟨by assumption, h⟩
    · rw [List.getElem?_replicate] at h
      split at h
      · right; exact ⟨by omega, by omega, by simpa using h.symm⟩
      · cases h
  · left
    have : j < refs.length := by
      rcases Nat.lt_or_ge j refs.length with h' | h'
      · exact h'
      · rw [List.getElem?_eq_none h'] at h; cases h
    exact ⟨this, h⟩

theorem padded_length (refs : List RefIndex) (rid : Nat) :
    (padded refs rid).length = max refs.length (rid + 1) := by
  unfold padded
  split
  · rename_i h; simp only [decide_eq_true_eq] at h
    simp only [List.length_append, List.length_replicate]; omega
  · rename_i h; simp only [decide_eq_true_eq] at h; omega

theorem onRef_cons_eq (hist : List Rec) (r : Rec) (j : Nat) (h : r.rid = (j : Int)) :
    onRef (r :: hist) j = r :: onRef hist j := by
  simp [onRef, h]

theorem onRef_cons_ne (hist : List Rec) (r : Rec) (j : Nat) (h : r.rid ≠ (j : Int)) :
    onRef (r :: hist) j = onRef hist j := by
  simp [onRef, h]

theorem onRef_nil_of_ge (i : Index) (hist : List Rec) (inv : IdxInv i hist) (j : Nat) (hj : i.refs.length ≤ j) :
    onRef hist j = [] := by
  unfold onRef
  rw [List.filter_eq_nil_iff]
  intro a ha
  have := (inv.ridLt a ha).2
  simp only [decide_eq_true_eq]
  omega

theorem mem_onRef {hist : List Rec} {j : Nat} {a : Rec} (h : a ∈ onRef hist j) : a ∈ hist ∧ a.rid = (j : Int) := by
  unfold onRef at h
  rw [List.mem_filter] at h
  exact ⟨h.1, by simpa using h.2⟩

/-- an unplaced record only bumps the counter -/
theorem add_unplaced (i : Index) (r : Rec) (hok : RecOK r) (hp : r.placed = false) :
    (add i r).2 = .ok ∧ (add i r).1.refs = i.refs ∧ (add i r).1.isSorted = i.isSorted ∧
      (add i r).1.lastRecord = i.lastRecord ∧
      (add i r).1.unmapped = some (umCount i.unmapped + 1) := by
  unfold add
  simp [hok.vstart, hok.vstop, hp]

/-- the state after an accepted `Add` of a placed record, in terms of `addRef` -/
theorem add_placed (i : Index) (hist : List Rec) (r : Rec) (inv : IdxInv i hist) (hok : RecOK r)
    (hp : r.placed = true) (hle : ∀ a, a ∈ hist → RecLe a r) :
    ∃ ref0 last0, (padded i.refs r.rid.toNat)[r.rid.toNat]? = some ref0 ∧
      RefInv ref0 (onRef hist r.rid.toNat) ∧ last0 ≤ r.start ∧
      add i r = ({ refs := (padded i.refs r.rid.toNat).set r.rid.toNat (addRef ref0 last0 r).1,
                   unmapped := some (umCount i.unmapped),
                   isSorted := i.isSorted && (addRef ref0 last0 r).2.2.1,
                   lastRecord := (addRef ref0 last0 r).2.1 }, (addRef ref0 last0 r).2.2.2) := by
  have hrid := hok.rid hp
  have hpos := hok.pos hp
  have h1 : ¬ r.rid < (i.refs.length : Int) - 1 := by
    cases hist with
    | nil => rw [inv.len0 rfl]; simp; omega
    | cons a rest =>
      have := (inv.last a rest rfl).1
      have := (hle a List.mem_cons_self).1
      omega
  have h2 : ¬ r.rid < 0 := by omega
  by_cases hg : r.rid.toNat ≥ i.refs.length
  · -- a new reference
    have hget : (padded i.refs r.rid.toNat)[r.rid.toNat]? = some emptyRef := by
      unfold padded
      simp only [hg, decide_true, if_true]
      rw [List.getElem?_append_right hg, List.getElem?_replicate]
      simp; omega
    refine ⟨emptyRef, 0, hget, ?_, hpos.1, ?_⟩
    · rw [onRef_nil_of_ge i hist inv _ hg]; exact refInv_empty
    · unfold add
      simp only [hok.vstart, hok.vstop, hp, h1, h2, Bool.and_self, Bool.not_true, Bool.false_eq_true,
        if_false]
      have hp' : (if decide (r.rid.toNat ≥ i.refs.length) = true then
            i.refs ++ List.replicate (r.rid.toNat + 1 - i.refs.length) emptyRef else i.refs)
          = padded i.refs r.rid.toNat := rfl
      rw [hp', hget]
      simp [hg]
  · -- the current (last) reference
    have hlt : r.rid.toNat < i.refs.length := by omega
    obtain ⟨ref, href⟩ : ∃ ref, i.refs[r.rid.toNat]? = some ref :=
      ⟨i.refs[r.rid.toNat], (List.getElem?_eq_some_iff).2 ⟨hlt, rfl⟩⟩
    have hpad : padded i.refs r.rid.toNat = i.refs := by
      unfold padded; simp [hg]
    have hlast : i.lastRecord ≤ r.start := by
      cases hist with
      | nil => have := inv.len0 rfl; rw [this] at hlt; simp at hlt
      | cons a rest =>
        obtain ⟨hl, hs⟩ := inv.last a rest rfl
        have hle' := hle a List.mem_cons_self
        rw [hs]
        exact hle'.2.1 (by omega)
    refine ⟨ref, i.lastRecord, by rw [hpad]; exact href, inv.refInv _ _ href, hlast, ?_⟩
    unfold add
    simp only [hok.vstart, hok.vstop, hp, h1, h2, Bool.and_self, Bool.not_true, Bool.false_eq_true,
      if_false]
    have hp' : (if decide (r.rid.toNat ≥ i.refs.length) = true then
          i.refs ++ List.replicate (r.rid.toNat + 1 - i.refs.length) emptyRef else i.refs)
        = padded i.refs r.rid.toNat := rfl
    rw [hp', hpad, href]
    simp [hg]

/-- one accepted `Add` of a placed record preserves the invariant -/
theorem idxInv_step (i : Index) (hist : List Rec) (r : Rec) (inv : IdxInv i hist) (hok : RecOK r)
    (hall : ∀ a, a ∈ hist → RecOK a) (hp : r.placed = true) (hle : ∀ a, a ∈ hist → RecLe a r) :
    (add i r).2 = .ok ∧ IdxInv (add i r).1 (r :: hist) ∧
      (add i r).1.unmapped = some (umCount i.unmapped) := by
  obtain ⟨ref0, last0, hget, hinv0, hlast0, hadd⟩ := add_placed i hist r inv hok hp hle
  have hrid := hok.rid hp
  have hstep := refInv_step ref0 (onRef hist r.rid.toNat) last0 r hinv0 hok
    (fun a ha => hall a (mem_onRef ha).1)
    (fun a ha => (hle a (mem_onRef ha).1).2.2) hlast0
  obtain ⟨hres, hlastr, hnew⟩ := hstep
  rw [hadd]
  refine ⟨hres, ?_, rfl⟩
  have hlenpad := padded_length i.refs r.rid.toNat
  have hlen_le : i.refs.length ≤ r.rid.toNat + 1 := by
    cases hist with
    | nil => rw [inv.len0 rfl]; simp
    | cons a rest =>
      have := (inv.last a rest rfl).1
      have := (hle a List.mem_cons_self).1
      omega
  have hlen : ((padded i.refs r.rid.toNat).set r.rid.toNat (addRef ref0 last0 r).1).length = r.rid.toNat + 1 := by
    rw [List.length_set, hlenpad]; omega
  refine { flag := ?_, len0 := (by intro h; cases h), last := ?_, ridLt := ?_, refInv := ?_ }
  · simp [inv.flag]
  · intro a rest h
    cases h
    simp only
    rw [hlen]
    exact ⟨by omega, hlastr⟩
  · intro a ha
    simp only
    rw [hlen]
    rcases List.mem_cons.1 ha with rfl | ha
    · omega
    · have := inv.ridLt a ha; omega
  · intro j ref hj
    simp only at hj
    rw [List.getElem?_set] at hj
    by_cases hjr : r.rid.toNat = j
    · subst hjr
      simp only [if_true] at hj
      split at hj
      · cases hj
        rw [onRef_cons_eq _ _ _ (by omega)]
        exact hnew
      · cases hj
    · simp only [hjr, if_false] at hj
      rw [onRef_cons_ne _ _ _ (by omega)]
      rcases padded_get _ _ _ _ hj with ⟨_, h⟩ | ⟨h1, _, h3⟩
      · exact inv.refInv j ref h
      · rw [h3, onRef_nil_of_ge i hist inv j h1]; exact refInv_empty

/-- every call returned ok -/
def allOk (rs : List AddRes) : Prop := ∀ x, x ∈ rs → x = .ok

/-- `add_never_fails` and the invariant, by induction over the sequence (generalised over the
records `hist` already added) -/
theorem addAll_inv : ∀ (recs : List Rec) (i : Index) (hist : List Rec),
    IdxInv i hist → (∀ a, a ∈ hist → RecOK a) → (∀ r, r ∈ recs → RecOK r) →
    (recs.filter (·.placed)).Pairwise RecLe →
    (∀ a, a ∈ hist → ∀ r, r ∈ recs → r.placed = true → RecLe a r) →
    allOk (addAll i recs).2 ∧ IdxInv (addAll i recs).1 ((recs.filter (·.placed)).reverse ++ hist) := by
  intro recs
  induction recs with
  | nil => intro i hist inv _ _ _ _; exact ⟨(by intro x hx; cases hx), (by simpa [addAll] using inv)⟩
  | cons r rs ih =>
    intro i hist inv hhist hok hsorted hcross
    have hokr := hok r List.mem_cons_self
    have hokrs : ∀ x, x ∈ rs → RecOK x := fun x hx => hok x (List.mem_cons_of_mem _ hx)
    by_cases hp : r.placed = true
    · have hstep := idxInv_step i hist r inv hokr hhist hp (fun a ha => hcross a ha r List.mem_cons_self hp)
      obtain ⟨hres, hinv', _⟩ := hstep
      have hfilter : (r :: rs).filter (·.placed) = r :: rs.filter (·.placed) := by
        simp [hp]
      rw [hfilter, List.pairwise_cons] at hsorted
      have := ih (add i r).1 (r :: hist) hinv'
        (by intro a ha; rcases List.mem_cons.1 ha with rfl | ha; exact hokr; exact hhist a ha)
        hokrs hsorted.2
        (by
          intro a ha x hx hxp
          rcases List.mem_cons.1 ha with rfl | ha
          · exact hsorted.1 x (List.mem_filter.2 ⟨hx, hxp⟩)
          · exact hcross a ha x (List.mem_cons_of_mem _ hx) hxp)
      obtain ⟨h1, h2⟩ := this
      refine ⟨?_, ?_⟩
      · intro x hx
        simp only [addAll] at hx
        rcases List.mem_cons.1 hx with rfl | hx
        · exact hres
        · exact h1 x hx
      · simp only [addAll]
        rw [hfilter, List.reverse_cons, List.append_assoc]
        exact h2
    · have hp' : r.placed = false := by simpa using hp
      obtain ⟨hres, hrefs, hflag, hlast, _⟩ := add_unplaced i r hokr hp'
      have hinv' : IdxInv (add i r).1 hist :=
        { flag := by rw [hflag]; exact inv.flag
          len0 := by intro h; rw [hrefs]; exact inv.len0 h
          last := by intro a rest h; rw [hrefs, hlast]; exact inv.last a rest h
          ridLt := by intro a ha; rw [hrefs]; exact inv.ridLt a ha
          refInv := by intro j ref hj; rw [hrefs] at hj; exact inv.refInv j ref hj }
      have hfilter : (r :: rs).filter (·.placed) = rs.filter (·.placed) := by
        simp [hp']
      rw [hfilter] at hsorted
      obtain ⟨h1, h2⟩ := ih (add i r).1 hist hinv' hhist hokrs hsorted
        (fun a ha x hx hxp => hcross a ha x (List.mem_cons_of_mem _ hx) hxp)
      refine ⟨?_, ?_⟩
      · intro x hx
        simp only [addAll] at hx
        rcases List.mem_cons.1 hx with rfl | hx
        · exact hres
        · exact h1 x hx
      · simp only [addAll]
        rw [hfilter]
        exact h2

/-- from the empty index -/
theorem addAll_sorted (recs : List Rec) (h : SortedInput recs) :
    allOk (addAll {} recs).2 ∧ IdxInv (addAll {} recs).1 (recs.filter (·.placed)).reverse := by
  have := addAll_inv recs {} [] idxInv_empty (by intro a ha; cases ha) h.ok h.sorted
    (by intro a ha; cases ha)
  simpa using this

end Hts.Model.Index
