/-
Lemmas about the scanner model of `fai.NewIndex` (Model/FaiScan.lean): the tokens of `split` over every
delivery are `lines data`; `Hts.Model.Fai.scan` is `stepAll` over `lines`.
-/
import Hts.Model.FaiScan
set_option linter.unusedVariables false
set_option linter.unusedSimpArgs false
namespace Hts.Lemmas.FaiScanner
open Hts.Model.Fai

/-- shape of a byte string relative to its first LF -/
theorem tw_dw (bs : Bytes) :
    (bs.dropWhile notLF = [] ∧ bs.takeWhile notLF = bs ∧ ∀ x ∈ bs, notLF x = true) ∨
    (∃ nl rest, bs.dropWhile notLF = nl :: rest ∧ notLF nl = false ∧
       bs = bs.takeWhile notLF ++ nl :: rest ∧ ∀ x ∈ bs.takeWhile notLF, notLF x = true) := by
  induction bs with
  | nil => left; simp
  | cons b bs ih =>
    by_cases hb : notLF b = true
    · rcases ih with ⟨h1, h2, h3⟩ | ⟨nl, rest, h1, h2, h3, h4⟩
      · left
        simp [List.dropWhile_cons, List.takeWhile_cons, hb, h1, h2]
        exact h3
      · right
        refine ⟨nl, rest, ?_, h2, ?_, ?_⟩
        · simp [List.dropWhile_cons, hb, h1]
        · simp only [List.takeWhile_cons, hb, if_true, List.cons_append]
          exact congrArg _ h3
        · simp only [List.takeWhile_cons, hb, if_true, List.mem_cons]
          rintro x (rfl | hx)
          · exact hb
          · exact h4 x hx
    · right
      have hb' : notLF b = false := by simpa using hb
      exact ⟨b, bs, by simp [List.dropWhile_cons, hb'], hb', by simp [List.takeWhile_cons, hb'],
        by simp [List.takeWhile_cons, hb']⟩

theorem lines_terminated (l : Bytes) (nl : UInt8) (rest : Bytes) (hl : ∀ x ∈ l, notLF x = true)
    (hnl : notLF nl = false) : lines (l ++ nl :: rest) = (l ++ [nl]) :: lines rest := by
  induction l with
  | nil => simp [lines, hnl]
  | cons a l ih =>
    have ha : notLF a = true := hl a (by simp)
    have := ih (fun x hx => hl x (by simp [hx]))
    simp [lines, ha, this]

theorem lines_unterminated (l : Bytes) (hne : l ≠ []) (hl : ∀ x ∈ l, notLF x = true) : lines l = [l] := by
  induction l with
  | nil => exact absurd rfl hne
  | cons a l ih =>
    have ha : notLF a = true := hl a (by simp)
    by_cases hl0 : l = []
    · subst hl0; simp [lines, ha]
    · have := ih hl0 (fun x hx => hl x (by simp [hx]))
      simp [lines, ha, this]

theorem lines_append_terminated (l : Bytes) (nl : UInt8) (rest : Bytes) (hl : ∀ x ∈ l, notLF x = true)
    (hnl : notLF nl = false) (more : Bytes) :
    lines (l ++ nl :: rest ++ more) = (l ++ [nl]) :: lines (rest ++ more) := by
  have := lines_terminated l nl (rest ++ more) hl hnl
  simpa using this

/-! ### split -/

theorem indexLF_none (bs : Bytes) (h : bs.dropWhile notLF = []) (h2 : bs.takeWhile notLF = bs) :
    indexLF bs = none := by
  simp [indexLF, h2]

theorem indexLF_some (bs : Bytes) (nl : UInt8) (rest : Bytes)
    (h3 : bs = bs.takeWhile notLF ++ nl :: rest) :
    indexLF bs = some (bs.takeWhile notLF).length := by
  have : (bs.takeWhile notLF).length < bs.length := by
    have := congrArg List.length h3
    simp at this; omega
  simp [indexLF, this]

theorem take_drop_at (l : Bytes) (nl : UInt8) (rest : Bytes) :
    (l ++ nl :: rest).take (l.length + 1) = l ++ [nl] ∧ (l ++ nl :: rest).drop (l.length + 1) = rest := by
  constructor
  · rw [show l ++ nl :: rest = (l ++ [nl]) ++ rest by simp]
    rw [List.take_append_of_le_length (by simp)]
    rw [List.take_of_length_le (by simp)]
  · rw [show l ++ nl :: rest = (l ++ [nl]) ++ rest by simp]
    rw [List.drop_append_of_le_length (by simp)]
    rw [List.drop_of_length_le (by simp)]
    simp

/-- split on a buffer that contains an LF: the first line, whatever `atEOF`. -/
theorem split_line (bs : Bytes) (nl : UInt8) (rest : Bytes) (e : Bool)
    (h3 : bs = bs.takeWhile notLF ++ nl :: rest) :
    split bs e = ((bs.takeWhile notLF).length + 1, some (bs.takeWhile notLF ++ [nl])) ∧
    bs.drop ((bs.takeWhile notLF).length + 1) = rest := by
  have hne : bs.isEmpty = false := by
    cases bs with
    | nil => simp at h3
    | cons _ _ => rfl
  have hi := indexLF_some bs nl rest h3
  have ht := take_drop_at (bs.takeWhile notLF) nl rest
  rw [← h3] at ht
  constructor
  · simp only [split, hne, Bool.and_false, hi]
    simp [ht.1]
  · exact ht.2

theorem split_noLF_false (bs : Bytes) (h : bs.dropWhile notLF = []) (h2 : bs.takeWhile notLF = bs) :
    split bs false = (0, none) := by
  simp [split, indexLF_none bs h h2]

theorem split_noLF_true (bs : Bytes) (hne : bs ≠ []) (h : bs.dropWhile notLF = [])
    (h2 : bs.takeWhile notLF = bs) : split bs true = (bs.length, some bs) := by
  have : bs.isEmpty = false := by cases bs <;> simp_all
  simp [split, indexLF_none bs h h2, this]

/-! ### drain -/

/-- After EOF: the buffered bytes come out as `lines buf`. -/
theorem drainF_true (fuel : Nat) : ∀ (buf : Bytes), buf.length < fuel →
    (drainF split true fuel buf).1 = lines buf := by
  induction fuel with
  | zero => intro buf h; omega
  | succ fuel ih =>
    intro buf hlen
    by_cases hb : buf = []
    · subst hb; simp [drainF, split, lines]
    · rcases tw_dw buf with ⟨h1, h2, h3⟩ | ⟨nl, rest, h1, h2, h3, h4⟩
      · have hs := split_noLF_true buf hb h1 h2
        have hpos : 0 < buf.length := List.length_pos_iff.mpr hb
        have hf : (drainF split true fuel []).1 = [] := by
          cases fuel with
          | zero => rfl
          | succ n => simp [drainF, split]
        simp [drainF, hs, hpos, hf, lines_unterminated buf hb h3]
      · obtain ⟨hs, hd⟩ := split_line buf nl rest true h3
        have hlen' : (buf.takeWhile notLF).length + 1 ≤ buf.length := by
          have := congrArg List.length h3
          simp at this; omega
        have hrest : rest.length < fuel := by
          have := congrArg List.length h3
          simp at this; omega
        have hl : lines buf = (buf.takeWhile notLF ++ [nl]) :: lines rest := by
          conv => lhs; rw [h3]
          exact lines_terminated _ nl rest h4 h2
        simp only [drainF, hs, hd, hlen', ih rest hrest, hl]
        simp

/-- Before EOF: the complete lines come out, the LF-free rest stays; together with whatever arrives later
this is `lines` of the whole. -/
theorem drainF_false (fuel : Nat) : ∀ (buf more : Bytes), buf.length < fuel →
    (drainF split false fuel buf).1 ++ lines ((drainF split false fuel buf).2 ++ more) = lines (buf ++ more) := by
  induction fuel with
  | zero => intro buf more h; omega
  | succ fuel ih =>
    intro buf more hlen
    by_cases hb : buf = []
    · subst hb; simp [drainF]
    · have hne : buf.isEmpty = false := by cases buf <;> simp_all
      rcases tw_dw buf with ⟨h1, h2, h3⟩ | ⟨nl, rest, h1, h2, h3, h4⟩
      · have hs := split_noLF_false buf h1 h2
        simp [drainF, hs, hne]
      · obtain ⟨hs, hd⟩ := split_line buf nl rest false h3
        have hlen' : (buf.takeWhile notLF).length + 1 ≤ buf.length := by
          have := congrArg List.length h3
          simp at this; omega
        have hrest : rest.length < fuel := by
          have := congrArg List.length h3
          simp at this; omega
        have hl : lines (buf ++ more) = (buf.takeWhile notLF ++ [nl]) :: lines (rest ++ more) := by
          conv => lhs; rw [h3]
          exact lines_append_terminated _ nl rest h4 h2 more
        simp only [drainF, hs, hd, hlen', hne, hl]
        simp [ih rest more hrest]

theorem drain_true (buf : Bytes) : (drain split true buf).1 = lines buf :=
  drainF_true _ buf (by omega)

theorem drain_false (buf more : Bytes) :
    (drain split false buf).1 ++ lines ((drain split false buf).2 ++ more) = lines (buf ++ more) :=
  drainF_false _ buf more (by omega)

/-! ### the whole scanner -/

theorem scanFrom_split (e : Bool) : ∀ (chunks : List Bytes) (buf : Bytes),
    scanFrom split e chunks buf = lines (buf ++ chunks.flatten) := by
  intro chunks
  induction chunks with
  | nil => intro buf; simp [scanFrom, drain_true]
  | cons c cs ih =>
    intro buf
    by_cases h : (cs.isEmpty && e) = true
    · have hcs : cs = [] := by
        cases cs <;> simp_all
      subst hcs
      have he : e = true := by simpa using h
      subst he
      simp [scanFrom, drain_true]
    · simp only [scanFrom, h]
      rw [ih]
      have := drain_false (buf ++ c) cs.flatten
      simpa using this

/-! ### the existing NewIndex model is `stepAll` over `lines` -/

theorem lines_takeLine (bs : Bytes) (hne : bs ≠ []) :
    lines bs = (takeLine bs).1 :: lines (takeLine bs).2 := by
  rcases tw_dw bs with ⟨h1, h2, h3⟩ | ⟨nl, rest, h1, h2, h3, h4⟩
  · simp [takeLine, h1, h2, lines_unterminated bs hne h3, lines]
  · have hl : lines bs = (bs.takeWhile notLF ++ [nl]) :: lines rest := by
      conv => lhs; rw [h3]
      exact lines_terminated _ nl rest h4 h2
    simp [takeLine, h1, hl]

theorem scan_eq_stepAll : ∀ (n : Nat) (bs : Bytes) (st : ScanState), bs.length ≤ n →
    scan st bs = stepAll st (lines bs) := by
  intro n
  induction n with
  | zero =>
    intro bs st h
    have : bs = [] := List.length_eq_zero_iff.mp (by omega)
    subst this; simp [scan, lines, stepAll]
  | succ n ih =>
    intro bs st h
    cases bs with
    | nil => simp [scan, lines, stepAll]
    | cons b bs' =>
      rw [lines_takeLine (b :: bs') (by simp), scan, stepAll]
      cases hstep : step st (takeLine (b :: bs')).1 with
      | error e => rfl
      | ok st' =>
        simp only []
        apply ih
        have := takeLine_snd_length_lt b bs'
        simp at this h; omega

theorem newIndex_eq_tokens (fasta : Bytes) : newIndex fasta = newIndexTokens (lines fasta) := by
  unfold newIndex newIndexTokens
  rw [scan_eq_stepAll fasta.length fasta {} (Nat.le_refl _)]
  cases stepAll {} (lines fasta) <;> rfl

end Hts.Lemmas.FaiScanner
