/-
The record UnmarshalSAM returns for an expressible record's line is itself expressible and is a fixed
point: formatting and parsing it again returns exactly the same record.  Core only.
-/
import Hts.Lemmas.SamRecord
namespace Hts.Model.SamText

theorem canon_idem {ft : FloatText} (L : FloatLaws ft) (b : UInt32) : L.canon (L.canon b) = L.canon b := by
  have h1 := L.parse_fmt (L.canon b)
  rw [L.fmt_canon b, L.parse_fmt b] at h1
  injection h1 with h1
  exact h1.symm

theorem narrowTy_range (v : Int) (h1 : -2147483648 ≤ v) (h2 : v ≤ 4294967295) :
    (narrowTy v).lo ≤ v ∧ v ≤ (narrowTy v).hi := by
  unfold narrowTy
  repeat' split
  all_goals simp only [IntTy.lo, IntTy.hi]; omega

theorem auxOK_canon {ft : FloatText} (L : FloatLaws ft) (a : Aux) (h : AuxOK a) : AuxOK (canonAux L a) := by
  obtain ⟨t0, t1, v⟩ := a
  unfold AuxOK at h ⊢
  unfold canonAux canonVal
  refine ⟨h.1, ?_⟩
  cases v with
  | int ty w =>
    have := intTy_range ty w h.2
    exact narrowTy_range w this.1 this.2
  | char c => exact h.2
  | float b => trivial
  | text s => exact h.2
  | hex b => trivial
  | ints ty vs => exact h.2
  | floats bs => trivial

theorem canonAux_idem {ft : FloatText} (L : FloatLaws ft) (a : Aux) : canonAux L (canonAux L a) = canonAux L a := by
  obtain ⟨t0, t1, v⟩ := a
  unfold canonAux canonVal
  cases v <;> simp only [canon_idem, List.map_map]
  · congr 2
    apply List.map_congr_left
    intro b _
    exact canon_idem L b

theorem replicate_any (n : Nat) : (List.replicate n (255 : UInt8)).any (· != 255) = false := by
  rw [List.any_eq_false]; intro x hx; simp [List.eq_of_mem_replicate hx]

theorem qualOK_canon {ft : FloatText} (L : FloatLaws ft) (r : Record) (h : QualOK r) : QualOK (canonRecord L r) := by
  unfold QualOK
  cases hq : (canonRecord L r).qual with
  | none => trivial
  | some q' =>
    have hlen := canonQual_length r q' h hq
    refine ⟨hlen, ?_⟩
    have hq2 : canonQual r = some q' := hq
    unfold canonQual at hq2
    unfold QualOK at h
    have habs : (if r.seq.length ≠ 0 then some (List.replicate r.seq.length (255 : UInt8)) else none) = some q' →
        ∀ v ∈ q', v = 255 := by
      intro he
      split at he
      · injection he with e; subst e; intro v hv; exact List.eq_of_mem_replicate hv
      · exact absurd he (by simp)
    cases hr : r.qual with
    | none => rw [hr] at hq2; exact Or.inl (habs hq2)
    | some q =>
      rw [hr] at hq2 h
      simp only at hq2
      split at hq2
      · rename_i hany
        injection hq2 with e; subst e
        rcases h.2 with hv | hv
        · exact absurd hv (any_ne_true_not_all q hany)
        · exact Or.inr hv
      · exact Or.inl (habs hq2)

theorem canonQual_idem {ft : FloatText} (L : FloatLaws ft) (r : Record) :
    canonQual (canonRecord L r) = canonQual r := by
  have hs : (canonRecord L r).seq = r.seq := rfl
  have hq : (canonRecord L r).qual = canonQual r := rfl
  generalize hc : canonQual r = cq
  unfold canonQual
  rw [hs, hq, hc]
  unfold canonQual at hc
  cases hr : r.qual with
  | none =>
    rw [hr] at hc; simp only at hc
    split at hc
    · rename_i hn; subst hc; simp only [replicate_any, Bool.false_eq_true, if_false]; exact if_pos hn
    · subst hc; rename_i hn; simp at hn; simp [hn]
  | some q =>
    rw [hr] at hc; simp only at hc
    split at hc
    · rename_i hany; subst hc; simp [hany]
    · split at hc
      · rename_i hn; subst hc; simp only [replicate_any, Bool.false_eq_true, if_false]; exact if_pos hn
      · subst hc; rename_i hn; simp at hn; simp [hn]

/-- the parsed-back record is expressible -/
theorem expressible_canon {ft : FloatText} (L : FloatLaws ft) (h : Header) (r : Record) (he : Expressible h r) :
    Expressible h (canonRecord L r) := by
  obtain ⟨hname, href, hmate, hints, hcig, hqual, haux⟩ := he
  refine ⟨hname, href, hmate, hints, hcig, qualOK_canon L r hqual, ?_⟩
  intro a ha
  have : a ∈ r.aux.map (canonAux L) := ha
  simp only [List.mem_map] at this
  obtain ⟨a0, ha0, rfl⟩ := this
  exact auxOK_canon L a0 (haux a0 ha0)

/-- and it is a fixed point of canonicalisation -/
theorem canonRecord_idem {ft : FloatText} (L : FloatLaws ft) (r : Record) :
    canonRecord L (canonRecord L r) = canonRecord L r := by
  have h1 := canonQual_idem L r
  unfold canonRecord at h1 ⊢
  simp only [h1, List.map_map]
  congr 1
  apply List.map_congr_left
  intro a _
  exact canonAux_idem L a

end Hts.Model.SamText
