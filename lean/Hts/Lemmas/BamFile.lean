/-
Chunk lists of the sequential pass, the header decoder, and invariance of the representation relation
under arbitrary use of a `bam.Reader`.
-/
import Hts.Lemmas.BamReplay
namespace Hts.Model.Bgzf
open Hts.Spec.Flat

/-- The chunk from the `Begin` of the first to the `End` of the last of a run of reported chunks. -/
def spanChunk (cs : List Chunk) : Chunk := ⟨(cs.headD default).bgn, (cs.getLastD default).fin⟩

theorem recChunks_append (L : Layout) (p : Nat) (A M : List (List UInt8)) :
    recChunks L p (A ++ M) = recChunks L p A ++ recChunks L (p + recSize A) M := by
  induction A generalizing p with
  | nil => simp [recChunks, recSize]
  | cons a A ih =>
    simp only [List.cons_append, recChunks, recSize, ih]
    have : p + (4 + a.length) + recSize A = p + (4 + a.length + recSize A) := by omega
    rw [this]

theorem recChunks_length (L : Layout) (p : Nat) (bs : List (List UInt8)) :
    (recChunks L p bs).length = bs.length := by
  induction bs generalizing p with
  | nil => rfl
  | cons b bs ih => simp [recChunks, ih]

theorem recChunks_head (L : Layout) (p : Nat) (b : List UInt8) (M : List (List UInt8)) :
    ((recChunks L p (b :: M)).headD default).bgn = offBefore L p := by
  simp [recChunks]

theorem recChunks_last (L : Layout) (p : Nat) (b : List UInt8) (M : List (List UInt8)) :
    ((recChunks L p (b :: M)).getLastD default).fin = offAfter L (p + recSize (b :: M)) := by
  induction M generalizing p b with
  | nil => simp [recChunks, recSize]
  | cons b' M ih =>
    have := ih (p + (4 + b.length)) b'
    simp only [recChunks, recSize, List.getLastD_cons] at this ⊢
    rw [show p + (4 + b.length + (4 + b'.length + recSize M)) = p + (4 + b.length) + (4 + b'.length + recSize M) by omega]
    rw [← this]

/-- The chunks the sequential pass reports for the run `M` inside `A ++ M ++ B`, spanned, are the chunk
request of `M`. -/
theorem spanChunk_run (L : Layout) (p0 : Nat) (A M B : List (List UInt8)) (hM : M ≠ []) :
    spanChunk (((recChunks L p0 (A ++ M ++ B)).drop A.length).take M.length) =
      ChunkSpec.chunk L ⟨p0 + recSize A, M, B⟩ := by
  rw [List.append_assoc, recChunks_append, recChunks_append]
  rw [List.drop_left' (recChunks_length L p0 A)]
  rw [List.take_left' (recChunks_length L (p0 + recSize A) M)]
  cases M with
  | nil => exact absurd rfl hM
  | cons b M =>
    simp only [spanChunk, ChunkSpec.chunk, recChunks_head, recChunks_last]

/-- The reported chunks are ordered: `Begin < End` for every record and `End ≤` the next `Begin`. -/
def ChunksMonotone : List Chunk → Prop
  | [] => True
  | [c] => vOffset c.bgn < vOffset c.fin
  | c :: c' :: rest => vOffset c.bgn < vOffset c.fin ∧ vOffset c.fin ≤ vOffset c'.bgn ∧ ChunksMonotone (c' :: rest)

theorem recChunks_monotone {L : Layout} (hL : LWF L) (p : Nat) (bs : List (List UInt8))
    (h : p + recSize bs ≤ total L) : ChunksMonotone (recChunks L p bs) := by
  induction bs generalizing p with
  | nil => trivial
  | cons b bs ih =>
    simp only [recSize] at h
    have hlt : vOffset (offBefore L p) < vOffset (offAfter L (p + (4 + b.length))) :=
      vOffset_before_lt_after hL (by omega) (by omega)
    cases bs with
    | nil => simpa [recChunks, ChunksMonotone] using hlt
    | cons b' bs =>
      have := ih (p + (4 + b.length)) (by simp only [recSize] at h ⊢; omega)
      simp only [recChunks, ChunksMonotone] at this ⊢
      refine ⟨hlt, ?_, this⟩
      simp only [recSize] at h
      exact vOffset_after_le_before hL (Nat.le_refl _) (by omega)

/-- The header decoder's reads stay inside the data (a zero-length read not at its very end). -/
def HdrOk (tot : Nat) : Nat → List Nat → Prop
  | _, [] => True
  | q, n :: ns => q + n ≤ tot ∧ q < tot ∧ HdrOk tot (q + n) ns

def sumNat : List Nat → Nat
  | [] => 0
  | n :: ns => n + sumNat ns

theorem flat_read_zero (FF : FlatFile) (s : State) (h : s.pos < total FF.layout) :
    Hts.Spec.Flat.read FF s 0 = ⟨[], false,
      ⟨s.pos, s.blocked, ⟨offBefore FF.layout s.pos, offBefore FF.layout s.pos⟩⟩⟩ := by
  have h1 : ¬ (total FF.layout ≤ s.pos) := by omega
  simp [Hts.Spec.Flat.read, h1]

theorem consumeHeader_ok {F : File} (hwf : WF F) :
    ∀ (hs : List Nat) (r : Reader) (s : State), Sim F r s → s.blocked = false →
      HdrOk (flatLen F) s.pos hs →
      (BamReader.consumeHeader r hs).2 = none ∧
      ∃ s', Sim F (BamReader.consumeHeader r hs).1 s' ∧ s'.blocked = false ∧ s'.pos = s.pos + sumNat hs := by
  intro hs
  induction hs with
  | nil => intro r s h hb _; exact ⟨rfl, s, h, hb, by simp [sumNat]⟩
  | cons n hs ih =>
    intro r s h hb hok
    obtain ⟨h1, h2, h3⟩ := hok
    have ⟨a1, a2, a3⟩ := sim_read hwf h n
    have hspec : (Hts.Spec.Flat.read (flatOf F) s n).bytes.length = n ∧
        (Hts.Spec.Flat.read (flatOf F) s n).eof = false ∧
        (Hts.Spec.Flat.read (flatOf F) s n).st.pos = s.pos + n ∧
        (Hts.Spec.Flat.read (flatOf F) s n).st.blocked = false := by
      by_cases hn : n = 0
      · subst hn
        rw [flat_read_zero _ _ (by simpa [flatOf] using h2)]
        exact ⟨rfl, rfl, rfl, hb⟩
      · rw [flat_read_enough _ _ _ hb (by omega) (by simpa [flatOf] using h1)]
        refine ⟨?_, rfl, rfl, rfl⟩
        simp [flatOf]; omega
    rcases hrd : r.read n with ⟨r', out, e⟩
    rw [hrd] at a1 a2 a3
    simp only at a1 a2 a3
    have hlen : out.length = n := by rw [a1]; exact hspec.1
    have he : e = none := by rw [a2, hspec.2.1]; rfl
    subst he
    have hne : ¬ (out.length ≠ n) := by omega
    simp only [BamReader.consumeHeader, hrd, hne, if_false]
    have ⟨i1, s', i2, i3, i4⟩ := ih r' _ a3 hspec.2.2.2 (by rw [hspec.2.2.1]; exact h3)
    exact ⟨i1, s', i2, i3, by rw [i4, hspec.2.2.1]; simp [sumNat]; omega⟩

/-- `bam.NewReader` on a file whose header reads are in order: the reader stands after the header. -/
theorem bam_new {F : File} (hwf : WF F) (hs : List Nat) (br0 : BamReader)
    (h0 : BamReader.new F hs = .ok br0) (hok : HdrOk (flatLen F) 0 hs) :
    br0.c = none ∧ ∃ s, BSim F br0 s ∧ s.pos = sumNat hs := by
  unfold BamReader.new at h0
  cases hn : Reader.new F with
  | error e => simp [hn] at h0
  | ok r =>
    simp only [hn] at h0
    have hsim := sim_new hn
    have ⟨c1, s', c2, c3, c4⟩ := consumeHeader_ok hwf hs r init hsim rfl hok
    rcases hch : BamReader.consumeHeader r hs with ⟨r', e⟩
    rw [hch] at h0 c1 c2
    simp only at c1 c2
    subst c1
    simp only [Except.ok.injEq] at h0
    subst h0
    exact ⟨rfl, s', ⟨c2, c3⟩, by rw [c4]; simp [init]⟩

theorem frames_append (A R : List (List UInt8)) : frames (A ++ R) = frames A ++ frames R := by
  induction A with
  | nil => rfl
  | cons a A ih => simp [frames, ih]

/-- Skipping the records `A`. -/
theorem RecAt.skip {F : File} {p : Nat} {A R : List (List UInt8)} (h : RecAt F p (A ++ R)) :
    RecAt F (p + recSize A) R := by
  refine ⟨?_, fun x hx => h.sizes x (by simp [hx])⟩
  rw [← List.drop_drop, h.data, frames_append, List.drop_left' (frames_length A)]

/-! ### Any use of the reader keeps it a representation of a flat state -/

theorem sim_readFull_any {F : File} (hwf : WF F) {r : Reader} {s : State} (h : Sim F r s) (n : Nat) :
    ∃ s', Sim F (readFull r n).1 s' ∧ s'.blocked = s.blocked := by
  have ⟨_, _, h3⟩ := sim_read hwf h n
  have hb := flat_read_blocked (flatOf F) s n
  unfold readFull
  by_cases hn : n = 0
  · simp only [hn, if_true]; exact ⟨s, h, rfl⟩
  · simp only [hn, if_false]
    rcases hrd : r.read n with ⟨r', out, e⟩
    rw [hrd] at h3
    simp only
    split
    · exact ⟨_, h3, hb⟩
    · split <;> exact ⟨_, h3, hb⟩

theorem bsim_newBuffer {F : File} (hwf : WF F) {br : BamReader} {s : State} (h : BSim F br s) :
    ∃ s', BSim F br.newBuffer.1 s' := by
  have ⟨s1, a1, a2⟩ := sim_readFull_any hwf h.sim 4
  unfold BamReader.newBuffer
  rcases hq1 : readFull br.r 4 with ⟨r1, szb, e1⟩
  rw [hq1] at a1
  simp only at a1 ⊢
  have hb1 : s1.blocked = false := a2.trans h.unblocked
  cases e1 with
  | some e => exact ⟨s1, ⟨a1, hb1⟩⟩
  | none =>
    simp only
    split
    · exact ⟨s1, ⟨a1, hb1⟩⟩
    · split
      · exact ⟨s1, ⟨a1, hb1⟩⟩
      · have ⟨s2, c1, c2⟩ := sim_readFull_any hwf a1 (leInt32 szb).toNat
        rcases hq2 : readFull r1 (leInt32 szb).toNat with ⟨r2, body, e2⟩
        rw [hq2] at c1
        simp only at c1 ⊢
        cases e2 <;> exact ⟨s2, ⟨c1, c2.trans hb1⟩⟩

/-- `Read` from any state (also mid-record or at an arbitrary seek target) leaves a representable state. -/
theorem bsim_read {F : File} (hwf : WF F) {br : BamReader} {s : State} (h : BSim F br s) :
    ∃ s', BSim F br.read.1 s' := by
  unfold BamReader.read
  cases hc : br.c with
  | none => simpa using bsim_newBuffer hwf h
  | some c =>
    simp only
    split
    · exact ⟨s, h⟩
    · exact bsim_newBuffer hwf h

/-- `SetChunk` to a chunk whose `Begin` is a seek target (or to nil). -/
theorem bsim_setChunk {F : File} (hwf : WF F) {br : BamReader} {s : State} (h : BSim F br s)
    (c : Option Chunk) (hv : ∀ c', c = some c' → (seekTarget (layoutOf F) c'.bgn).isSome) :
    ∃ s', BSim F (br.setChunk c).1 s' := by
  cases c with
  | none => exact ⟨s, ⟨h.sim, h.unblocked⟩⟩
  | some c' =>
    have := hv c' rfl
    obtain ⟨p, hp⟩ := Option.isSome_iff_exists.mp this
    have ⟨k1, k2⟩ := sim_seek hwf h.sim _ _ hp
    rcases hsk : br.r.seek c'.bgn with ⟨r', e⟩
    rw [hsk] at k1 k2
    simp only at k1 k2
    subst k1
    simp only [BamReader.setChunk, hsk]
    exact ⟨_, ⟨k2, h.unblocked⟩⟩

/-- A BAM-shaped file: 4 header bytes, records `[9]` and `[7, 8]`; the first record ends exactly on a block
end, an empty block follows, the second record's size field spans two blocks. -/
def exBam : File :=
  [⟨[66, 65, 77, 1, 1, 0, 0, 0, 9], 40⟩, ⟨[], 28⟩, ⟨[2, 0, 0], 33⟩, ⟨[0, 7, 8], 33⟩, ⟨[], 28⟩]

theorem exBam_wf : WF exBam := by
  intro m hm; simp [exBam] at hm; rcases hm with rfl | rfl | rfl | rfl | rfl <;> simp

end Hts.Model.Bgzf
