/-
Helper lemmas for C11 (decoders are total).  Core Lean only.
-/
import Hts.Model.Decoders
namespace Hts.Model.Decoders
open Outcome (ok err)
open Hts.Model.Coord (CigarOp consumeTab)

/-! ### outcomes and the partial operations -/

@[simp] theorem isPanic_ok {α} (v : α) : (ok v : Outcome α).isPanic = false := rfl
@[simp] theorem isPanic_err {α} : (err : Outcome α).isPanic = false := rfl
@[simp] theorem isPanic_panic {α} (s : String) : (Outcome.panic s : Outcome α).isPanic = true := rfl

theorem index_of_lt {α} (site : String) (l : List α) (i : Nat) (h : i < l.length) :
    index site l i = ok l[i] := by
  unfold index
  rw [List.getElem?_eq_getElem h]

theorem index_total {α} (site : String) (l : List α) (i : Nat) (h : i < l.length) :
    (index site l i).isPanic = false := by
  rw [index_of_lt site l i h]; rfl

theorem index_mem {α} (site : String) (l : List α) (i : Nat) (x : α) (h : index site l i = ok x) : x ∈ l := by
  unfold index at h
  split at h
  · rename_i y hy
    cases h
    exact List.mem_of_getElem? hy
  · cases h

theorem sliceFrom_of_le {α} (site : String) (l : List α) (lo : Nat) (h : lo ≤ l.length) :
    sliceFrom site l lo = ok (l.drop lo) := by
  unfold sliceFrom; rw [if_pos h]

theorem sliceTo_of_le {α} (site : String) (l : List α) (hi : Nat) (h : hi ≤ l.length) :
    sliceTo site l hi = ok (l.take hi) := by
  unfold sliceTo; rw [if_pos h]

theorem slice_of_le {α} (site : String) (l : List α) (lo hi : Nat) (h1 : lo ≤ hi) (h2 : hi ≤ l.length) :
    slice site l lo hi = ok ((l.take hi).drop lo) := by
  unfold slice; rw [if_pos ⟨h1, h2⟩]

/-! ### atoi -/

theorem powers_nonneg : ∀ p ∈ powers, (0 : Int) ≤ p := by decide

theorem indexInt_powers (site : String) (j : Int) (h0 : 0 ≤ j) (h1 : j ≤ 12) :
    ∃ p, indexInt site powers j = ok p ∧ 0 ≤ p := by
  unfold indexInt
  rw [if_neg (by omega)]
  have hl : j.toNat < powers.length := by
    have : powers.length = 13 := rfl
    omega
  refine ⟨powers[j.toNat], index_of_lt _ _ _ hl, powers_nonneg _ (List.getElem_mem hl)⟩

theorem atoiLoop_spec (k : Int) (hk : k ≤ 12) : ∀ (b : Bytes) (i n : Int), 0 ≤ i → i + b.length ≤ k + 1 → 0 ≤ n →
    ∃ r, atoiLoop k i b n = ok r ∧ 0 ≤ r := by
  intro b
  induction b with
  | nil => intro i n _ _ hn; exact ⟨n, rfl, hn⟩
  | cons v rest ih =>
    intro i n hi hlen hn
    simp only [List.length_cons] at hlen
    obtain ⟨p, hp, hp0⟩ := indexInt_powers "sam.atoi:powers[k-i]" (k - i) (by omega) (by omega)
    unfold atoiLoop
    rw [hp]
    simp only
    apply ih
    · omega
    · omega
    · have : (0 : Int) ≤ ((v - 48).toNat : Int) * p := Int.mul_nonneg (Int.natCast_nonneg _) hp0
      omega

/-- `sam.atoi` never panics, and a successful result is not negative -/
theorem atoi_spec (b : Bytes) : atoi b = err ∨ ∃ r, atoi b = ok r ∧ 0 ≤ r := by
  unfold atoi
  split
  · exact Or.inl rfl
  · rename_i h
    have hl : powers.length = 13 := rfl
    right
    exact atoiLoop_spec _ (by omega) b 0 0 (Int.le_refl _) (by omega) (Int.le_refl _)

/-! ### the splitting loop and ParseCigar -/

theorem newCigarOp_ok (t : Nat) (n : Int) (h0 : 0 ≤ n) (h1 : n ≤ maxOpLen) :
    newCigarOp t n = ok ⟨t, n.toNat⟩ := by
  unfold newCigarOp
  rw [if_neg (by omega)]

theorem splitOp_total (t : Nat) : ∀ (m : Nat) (n : Int) (acc : List CigarOp), n.toNat ≤ m → 0 ≤ n →
    ∃ r, splitOp t n acc = ok r := by
  intro m
  induction m with
  | zero =>
    intro n acc hm hn
    have h0 : n = 0 := by omega
    subst h0
    unfold splitOp
    rw [newCigarOp_ok t _ (by simp [maxOpLen]) (by simp [maxOpLen])]
    simp [maxOpLen]
  | succ m ih =>
    intro n acc hm hn
    unfold splitOp
    have hmin : newCigarOp t (if n < maxOpLen then n else maxOpLen) = ok ⟨t, (if n < maxOpLen then n else maxOpLen).toNat⟩ := by
      apply newCigarOp_ok
      · split <;> simp [maxOpLen] at * <;> omega
      · split <;> simp [maxOpLen] at * <;> omega
    rw [hmin]
    simp only
    split
    · exact ⟨_, rfl⟩
    · rename_i h
      apply ih
      · simp only [maxOpLen] at h ⊢; omega
      · simp only [maxOpLen] at h ⊢; omega

theorem scanOp_spec (b : Bytes) : ∀ (fuel j : Nat), b.length ≤ fuel + j →
    scanOp b (fuel + 1) j = ok none ∨ ∃ k, scanOp b (fuel + 1) j = ok (some k) ∧ j ≤ k ∧ k < b.length := by
  intro fuel
  induction fuel with
  | zero => intro j h; unfold scanOp; exact Or.inl (by rw [if_pos (by omega)])
  | succ fuel ih =>
    intro j h
    unfold scanOp
    split
    · exact Or.inl rfl
    · rename_i hj
      rw [index_of_lt _ b j (by omega)]
      simp only
      split
      · rcases ih (j + 1) (by omega) with h1 | ⟨k, h1, h2, h3⟩
        · exact Or.inl h1
        · exact Or.inr ⟨k, h1, by omega, h3⟩
      · exact Or.inr ⟨j, rfl, Nat.le_refl _, by omega⟩

theorem parseOpsFrom_total (b : Bytes) : ∀ (fuel i : Nat) (acc : List CigarOp), b.length ≤ fuel + i →
    (parseOpsFrom b (fuel + 1) i acc).isPanic = false := by
  intro fuel
  induction fuel with
  | zero => intro i acc h; unfold parseOpsFrom; rw [if_pos (by omega)]; rfl
  | succ fuel ih =>
    intro i acc h
    unfold parseOpsFrom
    split
    · rfl
    · rename_i hi
      rcases scanOp_spec b b.length i (by omega) with h1 | ⟨j, h1, h2, h3⟩
      · rw [h1]; rfl
      · rw [h1]
        simp only
        rw [slice_of_le _ b i j h2 (by omega)]
        simp only
        rcases atoi_spec ((b.take j).drop i) with he | ⟨n, hn, hn0⟩
        · rw [he]; rfl
        · rw [hn]
          simp only
          rw [index_of_lt _ b j h3]
          simp only
          split
          · rfl
          · obtain ⟨r, hr⟩ := splitOp_total (opLookup (b[j]'h3)) n.toNat n acc (Nat.le_refl _) hn0
            rw [hr]
            simp only
            exact ih (j + 1) r (by omega)

/-! ### binding, aux accessors on well-formed fields -/

theorem bind_total {α β} (x : Outcome α) (f : α → Outcome β) (hx : x.isPanic = false)
    (hf : ∀ v, x = ok v → (f v).isPanic = false) : (x >>= f).isPanic = false := by
  cases x with
  | ok v => exact hf v rfl
  | err => rfl
  | panic s => simp at hx

theorem bind_ok {α β} (x : Outcome α) (f : α → Outcome β) (v : α) (hx : x = ok v) : (x >>= f) = f v := by
  subst hx; rfl

theorem pure_eq_ok {α} (v : α) : (pure v : Outcome α) = ok v := rfl

theorem auxType_of_wf (a : Bytes) (t : UInt8) (ht : a[2]? = some t) : auxType a = ok t ∧ 2 < a.length := by
  obtain ⟨h2, e⟩ := List.getElem?_eq_some_iff.mp ht
  refine ⟨?_, h2⟩
  unfold auxType
  rw [index_of_lt _ _ _ h2, e]

theorem auxValueArray_wf (a : Bytes) (size : Nat) (h8 : 8 ≤ a.length) (hs : elemSize (a.getD 3 0) = some size)
    (hn : u32le ((a.take 8).drop 4) < 2147483648) (hd : u32le ((a.take 8).drop 4) * size + 8 ≤ a.length) :
    auxValueArray a = ok true := by
  unfold auxValueArray
  rw [bind_ok _ _ _ (slice_of_le _ a 4 8 (by omega) h8)]
  rw [bind_ok _ _ _ (index_of_lt _ a 3 (by omega))]
  have e3 : a[3]'(by omega) = a.getD 3 0 := by
    simp [List.getD, List.getElem?_eq_getElem (show 3 < a.length by omega)]
  rw [e3, hs]
  simp only
  have hasn : asInt32 (u32le ((a.take 8).drop 4)) = (u32le ((a.take 8).drop 4) : Int) := by
    unfold asInt32; rw [if_pos hn]
  split
  · rw [bind_ok _ _ _ (sliceFrom_of_le _ a 8 h8)]; rfl
  · rw [hasn]
    have hm : makeLen "sam.Aux.Value:make([]T, length)" ((u32le ((a.take 8).drop 4) : Nat) : Int) = ok (u32le ((a.take 8).drop 4)) := by
      unfold makeLen
      rw [if_neg (by omega), Int.toNat_natCast]
    rw [bind_ok _ _ _ hm, bind_ok _ _ _ (sliceFrom_of_le _ a 8 h8)]
    rw [if_neg]
    · rfl
    · simp only [List.length_drop]; omega


theorem auxValue_wf (a : Bytes) (t : UInt8) (ht : a[2]? = some t) (h : wfAux a = true) :
    ∃ v, auxValue a = ok v ∧ (t = 66 → v = true) := by
  obtain ⟨hty, h2⟩ := auxType_of_wf a t ht
  unfold wfAux at h
  rw [ht] at h
  simp only at h
  unfold auxValue
  rw [bind_ok _ _ _ hty]
  by_cases c1 : t = 65 ∨ t = 99 ∨ t = 67
  · rw [if_pos c1] at h ⊢
    have h4 : 3 < a.length := by have : 4 ≤ a.length := by simpa using h
                                 omega
    rw [bind_ok _ _ _ (index_of_lt _ a 3 h4)]
    exact ⟨false, rfl, by intro e; subst e; simp at c1⟩
  · rw [if_neg c1] at h ⊢
    by_cases c2 : t = 115 ∨ t = 83
    · rw [if_pos c2] at h ⊢
      have h5 : 5 ≤ a.length := by simpa using h
      rw [bind_ok _ _ _ (slice_of_le _ a 3 5 (by omega) h5)]
      exact ⟨false, rfl, by intro e; subst e; simp at c2⟩
    · rw [if_neg c2] at h ⊢
      by_cases c3 : t = 105 ∨ t = 73 ∨ t = 102
      · rw [if_pos c3] at h ⊢
        have h7 : 7 ≤ a.length := by simpa using h
        rw [bind_ok _ _ _ (slice_of_le _ a 3 7 (by omega) h7)]
        exact ⟨false, rfl, by intro e; subst e; simp at c3⟩
      · rw [if_neg c3] at h ⊢
        by_cases c4 : t = 90 ∨ t = 72
        · rw [if_pos c4] at h ⊢
          rw [bind_ok _ _ _ (sliceFrom_of_le _ a 3 (by omega))]
          exact ⟨_, rfl, by intro e; subst e; simp at c4⟩
        · rw [if_neg c4] at h ⊢
          by_cases c5 : t = 66
          · rw [if_pos c5] at h ⊢
            simp only [Bool.and_eq_true, decide_eq_true_eq] at h
            obtain ⟨h8, hrest⟩ := h
            split at hrest
            · simp at hrest
            · rename_i size hs
              simp only [Bool.and_eq_true, decide_eq_true_eq] at hrest
              exact ⟨true, auxValueArray_wf a size h8 hs hrest.1 hrest.2, fun _ => rfl⟩
          · rw [if_neg c5] at h
            simp at h

theorem auxSweep_wf (a : Bytes) (h : wfAux a = true) : auxSweep a = ok () := by
  have h' := h
  unfold wfAux at h'
  split at h'
  · simp at h'
  · rename_i t ht
    obtain ⟨hty, h2⟩ := auxType_of_wf a t ht
    obtain ⟨v, hv, hv66⟩ := auxValue_wf a t ht h
    have htag : auxTag a = ok (a.take 2) := by
      unfold auxTag; exact sliceTo_of_le _ a 2 (by omega)
    have h3 : t = 66 → 3 < a.length := by
      intro e
      subst e
      simp at h'
      omega
    have hstr : auxString a = ok () := by
      unfold auxString
      rw [bind_ok _ _ _ hty, bind_ok _ _ _ htag, bind_ok _ _ _ hv]
      split
      · rename_i e
        rw [bind_ok _ _ _ (index_of_lt _ a 3 (h3 e))]; rfl
      · rfl
    have hsam : samAuxString a = ok () := by
      unfold samAuxString
      rw [bind_ok _ _ _ hty, bind_ok _ _ _ htag, bind_ok _ _ _ hv]
      split
      · rename_i e
        rw [bind_ok _ _ _ (index_of_lt _ a 3 (h3 e)), hv66 e]; rfl
      · rfl
    have hmat : auxMatches a = ok () := by
      unfold auxMatches
      rw [bind_ok _ _ _ (index_of_lt _ a 1 (by omega)), bind_ok _ _ _ (index_of_lt _ a 0 (by omega))]
      rfl
    unfold auxSweep
    rw [bind_ok _ _ _ hmat, bind_ok _ _ _ htag, bind_ok _ _ _ hty, bind_ok _ _ _ hv, bind_ok _ _ _ hstr, hsam]


/-! ### sam.ParseAux -/

theorem ofOption_total {α} (o : Option α) : (ofOption o).isPanic = false := by
  cases o <;> rfl

theorem ofOption_ok {α} (o : Option α) (v : α) (h : ofOption o = ok v) : o = some v := by
  cases o with
  | none => cases h
  | some x => cases h; rfl

theorem newAuxInt_spec (t0 t1 : UInt8) (v : Int) :
    newAuxInt t0 t1 v = err ∨ ∃ a, newAuxInt t0 t1 v = ok a ∧ wfAux a = true := by
  unfold newAuxInt
  split
  · exact Or.inr ⟨_, rfl, by simp [wfAux]⟩
  · split
    · exact Or.inr ⟨_, rfl, by simp [wfAux, le16]⟩
    · split
      · exact Or.inr ⟨_, rfl, by simp [wfAux, le32]⟩
      · exact Or.inl rfl

theorem newAuxUint_spec (t0 t1 : UInt8) (v : Int) :
    newAuxUint t0 t1 v = err ∨ ∃ a, newAuxUint t0 t1 v = ok a ∧ wfAux a = true := by
  unfold newAuxUint
  split
  · exact Or.inr ⟨_, rfl, by simp [wfAux]⟩
  · split
    · exact Or.inr ⟨_, rfl, by simp [wfAux, le16]⟩
    · split
      · exact Or.inr ⟨_, rfl, by simp [wfAux, le32]⟩
      · exact Or.inl rfl

theorem byteOf_toNat (x : Int) : (byteOf x).toNat = (x % 256).toNat := by
  unfold byteOf
  rw [UInt8.toNat_ofNat']
  omega

theorem u32le_le32 (n : Nat) (h : n < 4294967296) : u32le (le32 n) = n := by
  unfold u32le le32
  simp only [List.getD_cons_zero, List.getD_cons_succ, byteOf_toNat]
  omega

theorem splitOn_length (sep : UInt8) (b : Bytes) : (splitOn sep b).length ≤ b.length + 1 := by
  induction b with
  | nil => simp [splitOn]
  | cons c rest ih =>
    unfold splitOn
    split
    · simp only [List.length_cons]; omega
    · split
      · simp
      · rename_i f fs hf
        rw [hf] at ih
        simp only [List.length_cons] at ih ⊢
        omega

theorem parseAll_length (p : Bytes → Option Int) : ∀ (l : List Bytes) (vs : List Int),
    parseAll p l = some vs → vs.length = l.length := by
  intro l
  induction l with
  | nil => intro vs h; simp [parseAll] at h; subst h; rfl
  | cons f fs ih =>
    intro vs h
    unfold parseAll at h
    split at h
    · rename_i v vs' _ hvs
      cases h
      simp [ih vs' hvs]
    · cases h

theorem leN_length (size : Nat) (x : Int) (h : size = 1 ∨ size = 2 ∨ size = 4) : (leN size x).length = size := by
  rcases h with h | h | h <;> subst h <;> simp [leN, le16, le32]

theorem flatMap_leN_length (size : Nat) (h : size = 1 ∨ size = 2 ∨ size = 4) (vs : List Int) :
    (vs.flatMap (leN size)).length = vs.length * size := by
  induction vs with
  | nil => simp
  | cons v rest ih =>
    simp only [List.flatMap_cons, List.length_append, List.length_cons, ih, leN_length size v h]
    rw [Nat.add_mul]; omega

theorem arrayParser_size (P : Parsers) (sub : UInt8) (size : Nat) (p : Bytes → Option Int)
    (h : arrayParser P sub = some (size, p)) : elemSize sub = some size ∧ (size = 1 ∨ size = 2 ∨ size = 4) := by
  unfold arrayParser at h
  unfold elemSize
  repeat' split at h
  all_goals first | (cases h; simp_all) | cases h


theorem newAuxArray_wf (t0 t1 sub : UInt8) (size : Nat) (vs : List Int) (hs : elemSize sub = some size)
    (h124 : size = 1 ∨ size = 2 ∨ size = 4) (hn : vs.length < 2147483648) :
    wfAux (newAuxArray t0 t1 sub size vs) = true := by
  have hl := flatMap_leN_length size h124 vs
  have hu := u32le_le32 vs.length (by omega)
  unfold le32 at hu
  simp only [wfAux, newAuxArray, le32, List.cons_append, List.nil_append, List.getElem?_cons_succ,
    List.getElem?_cons_zero, List.getD_cons_succ, List.getD_cons_zero, List.take_succ_cons, List.take_zero,
    List.drop_succ_cons, List.drop_zero, List.length_cons, hs, hu, hl]
  simp
  omega

theorem parseAuxArray_spec (P : Parsers) (t0 t1 : UInt8) (txt : Bytes) :
    parseAuxArray P t0 t1 txt = err ∨
      ∃ a, parseAuxArray P t0 t1 txt = ok a ∧ (txt.length < 2147483647 → wfAux a = true) := by
  unfold parseAuxArray
  split
  · exact Or.inl rfl
  · rename_i h0
    have h0' : 0 < txt.length := Nat.pos_of_ne_zero h0
    -- the tail after the two `if 1 < txt.length` blocks
    have tail : ∀ nf : List Bytes, nf.length ≤ txt.length →
        ((do
          let sub ← index "sam.ParseAux:txt[0]" txt 0
          let (size, p) ← ofOption (arrayParser P sub)
          let vs ← ofOption (parseAll p nf)
          pure (newAuxArray t0 t1 sub size vs) : Outcome Bytes) = err ∨
        ∃ a, (do
          let sub ← index "sam.ParseAux:txt[0]" txt 0
          let (size, p) ← ofOption (arrayParser P sub)
          let vs ← ofOption (parseAll p nf)
          pure (newAuxArray t0 t1 sub size vs) : Outcome Bytes) = ok a ∧ (txt.length < 2147483647 → wfAux a = true)) := by
      intro nf hnf
      rw [bind_ok _ _ _ (index_of_lt _ txt 0 h0')]
      cases hp : arrayParser P (txt[0]'h0') with
      | none => exact Or.inl rfl
      | some sp =>
        obtain ⟨size, p⟩ := sp
        obtain ⟨hs, h124⟩ := arrayParser_size P _ size p hp
        simp only [ofOption, bind_ok _ _ _ rfl]
        cases hv : parseAll p nf with
        | none => exact Or.inl rfl
        | some vs =>
          right
          refine ⟨_, rfl, ?_⟩
          intro hlen
          apply newAuxArray_wf _ _ _ _ _ hs h124
          rw [parseAll_length p _ vs hv]
          omega
    by_cases h1 : 1 < txt.length
    · simp only [if_pos h1]
      rw [bind_ok _ _ _ (index_of_lt _ txt 1 h1)]
      simp only [pure_eq_ok, bind_ok _ _ _ rfl]
      split
      · exact Or.inl rfl
      · rw [bind_ok _ _ _ (sliceFrom_of_le _ txt 2 (by omega))]
        apply tail
        have := splitOn_length 44 (txt.drop 2)
        simp only [List.length_drop] at this
        omega
    · simp only [if_neg h1]
      simp only [pure_eq_ok, bind_ok _ _ _ rfl]
      split
      · exact Or.inl rfl
      · apply tail
        simp

/-- `sam.ParseAux`: an error, or a well-formed aux field; never a panic -/
theorem parseAux_spec (P : Parsers) (text : Bytes) :
    parseAux P text = err ∨ ∃ a, parseAux P text = ok a ∧ (text.length < 2147483648 → wfAux a = true) := by
  unfold parseAux
  split
  · exact Or.inl rfl
  · rename_i h6
    rw [bind_ok _ _ _ (index_of_lt _ text 2 (by omega)), bind_ok _ _ _ (index_of_lt _ text 4 (by omega))]
    split
    · exact Or.inl rfl
    · rw [bind_ok _ _ _ (sliceFrom_of_le _ text 5 (by omega)), bind_ok _ _ _ (index_of_lt _ text 3 (by omega)),
        bind_ok _ _ _ (index_of_lt _ text 0 (by omega)), bind_ok _ _ _ (index_of_lt _ text 1 (by omega))]
      split
      · split
        · exact Or.inl rfl
        · rename_i h1
          have h1' : (text.drop 5).length = 1 := by
            rcases Nat.lt_or_ge ((text.drop 5).length) 1 with h | h
            · omega
            · rcases Nat.lt_or_ge 1 ((text.drop 5).length) with h' | h'
              · omega
              · omega
          rw [bind_ok _ _ _ (index_of_lt _ (text.drop 5) 0 (by omega))]
          exact Or.inr ⟨_, rfl, fun _ => by simp [wfAux]⟩
      · split
        · cases hi : P.atoi (text.drop 5) with
          | none => exact Or.inl rfl
          | some i =>
            simp only [ofOption, bind_ok _ _ _ rfl]
            split
            · rcases newAuxInt_spec (text[0]'(by omega)) (text[1]'(by omega)) i with h | ⟨a, h1, h2⟩
              · exact Or.inl h
              · exact Or.inr ⟨a, h1, fun _ => h2⟩
            · rcases newAuxUint_spec (text[0]'(by omega)) (text[1]'(by omega)) i with h | ⟨a, h1, h2⟩
              · exact Or.inl h
              · exact Or.inr ⟨a, h1, fun _ => h2⟩
        · split
          · cases hf : P.parseFloat32 (text.drop 5) with
            | none => exact Or.inl rfl
            | some bits => exact Or.inr ⟨_, rfl, fun _ => by simp [wfAux, le32]⟩
          · split
            · exact Or.inr ⟨_, rfl, fun _ => by simp [wfAux]⟩
            · split
              · cases hh : hexDecode (text.drop 5) with
                | none => exact Or.inl rfl
                | some b => exact Or.inr ⟨_, rfl, fun _ => by simp [wfAux]⟩
              · split
                · rcases parseAuxArray_spec P (text[0]'(by omega)) (text[1]'(by omega)) (text.drop 5) with h | ⟨a, h1, h2⟩
                  · exact Or.inl h
                  · refine Or.inr ⟨a, h1, fun hl => h2 ?_⟩
                    simp only [List.length_drop]; omega
                · exact Or.inl rfl


/-! ### bam.parseAux -/

theorem indexZero_lt : ∀ (l : Bytes) (z : Nat), indexZero l = some z → z < l.length := by
  intro l
  induction l with
  | nil => intro z h; cases h
  | cons c rest ih =>
    intro z h
    unfold indexZero at h
    split at h
    · cases h; simp
    · cases hr : indexZero rest with
      | none => rw [hr] at h; cases h
      | some y =>
        rw [hr] at h
        cases h
        have := ih y hr
        simp only [List.length_cons]; omega

theorem elemSize_pos (sub : UInt8) (size : Nat) (h : elemSize sub = some size) : size = 1 ∨ size = 2 ∨ size = 4 := by
  unfold elemSize at h
  repeat' split at h
  all_goals first | (cases h; simp) | cases h

/-- a field cut from the front of `rem` keeps the bytes the well-formedness test looks at -/
theorem take_getElem2 (rem : Bytes) (w : Nat) (h2 : 2 < w) : (rem.take w)[2]? = rem[2]? := by
  rw [List.getElem?_take_of_lt h2]

theorem auxStepArray_spec (rem : Bytes) (h66 : rem[2]? = some 66) :
    auxStepArray rem = err ∨ ∃ f w, auxStepArray rem = ok (f, w) ∧ 1 ≤ w ∧ w ≤ rem.length ∧
      (rem.length < 2147483648 → wfAux f = true) := by
  unfold auxStepArray
  split
  · exact Or.inl rfl
  · rename_i h8
    rw [bind_ok _ _ _ (slice_of_le _ rem 4 8 (by omega) (by omega)), bind_ok _ _ _ (index_of_lt _ rem 3 (by omega))]
    cases hs : elemSize (rem[3]'(by omega)) with
    | none => exact Or.inl rfl
    | some size =>
      simp only [ofOption, bind_ok _ _ _ rfl]
      split
      · exact Or.inl rfl
      · rename_i hw
        rw [bind_ok _ _ _ (sliceTo_of_le _ rem _ (by omega))]
        right
        refine ⟨_, _, rfl, by omega, by omega, ?_⟩
        intro hlen
        have h124 := elemSize_pos _ _ hs
        have hwlen : (rem.take (u32le ((rem.take 8).drop 4) * size + 8)).length = u32le ((rem.take 8).drop 4) * size + 8 := by
          rw [List.length_take]; omega
        unfold wfAux
        rw [take_getElem2 rem _ (by omega), h66]
        simp only [hwlen]
        have e3 : (rem.take (u32le ((rem.take 8).drop 4) * size + 8)).getD 3 0 = rem[3]'(by omega) := by
          rw [List.getD_eq_getElem?_getD, List.getElem?_take_of_lt (by omega), List.getElem?_eq_getElem (by omega)]
          rfl
        have e48 : ((rem.take (u32le ((rem.take 8).drop 4) * size + 8)).take 8).drop 4 = (rem.take 8).drop 4 := by
          rw [List.take_take, Nat.min_eq_left (by omega)]
        rw [e3, hs, e48]
        simp
        rcases h124 with h | h | h <;> subst h <;> omega


theorem wfAux_take_fixed (rem : Bytes) (t : UInt8) (w : Nat) (ht : rem[2]? = some t) (hw : w ≤ rem.length)
    (h : (t = 65 ∨ t = 99 ∨ t = 67) ∧ w = 4 ∨ (t = 115 ∨ t = 83) ∧ w = 5 ∨ (t = 105 ∨ t = 73 ∨ t = 102) ∧ w = 7) :
    wfAux (rem.take w) = true := by
  have hwl : (rem.take w).length = w := by rw [List.length_take]; omega
  have h2 : 2 < w := by rcases h with h | h | h <;> omega
  unfold wfAux
  rw [take_getElem2 rem w h2, ht]
  simp only [hwl]
  rcases h with ⟨ht', hw'⟩ | ⟨ht', hw'⟩ | ⟨ht', hw'⟩
  · rw [if_pos ht']; simp [hw']
  · have n1 : ¬(t = 65 ∨ t = 99 ∨ t = 67) := by rcases ht' with e | e <;> subst e <;> decide
    rw [if_neg n1, if_pos ht']; simp [hw']
  · have n1 : ¬(t = 65 ∨ t = 99 ∨ t = 67) := by rcases ht' with e | e | e <;> subst e <;> decide
    have n2 : ¬(t = 115 ∨ t = 83) := by rcases ht' with e | e | e <;> subst e <;> decide
    rw [if_neg n1, if_neg n2, if_pos ht']; simp [hw']

theorem wfAux_take_text (rem : Bytes) (t : UInt8) (z : Nat) (ht : rem[2]? = some t) (hz : 3 ≤ z)
    (h : t = 90 ∨ t = 72) : wfAux (rem.take z) = true := by
  unfold wfAux
  rw [take_getElem2 rem z (by omega), ht]
  have n1 : ¬(t = 65 ∨ t = 99 ∨ t = 67) := by rcases h with e | e <;> subst e <;> decide
  have n2 : ¬(t = 115 ∨ t = 83) := by rcases h with e | e <;> subst e <;> decide
  have n3 : ¬(t = 105 ∨ t = 73 ∨ t = 102) := by rcases h with e | e <;> subst e <;> decide
  simp only [if_neg n1, if_neg n2, if_neg n3, if_pos h]

theorem wfAux_of_text (a : Bytes) (t : UInt8) (ht : a[2]? = some t) (h : t = 90 ∨ t = 72) : wfAux a = true := by
  unfold wfAux
  rw [ht]
  have n1 : ¬(t = 65 ∨ t = 99 ∨ t = 67) := by rcases h with e | e <;> subst e <;> decide
  have n2 : ¬(t = 115 ∨ t = 83) := by rcases h with e | e <;> subst e <;> decide
  have n3 : ¬(t = 105 ∨ t = 73 ∨ t = 102) := by rcases h with e | e <;> subst e <;> decide
  simp only [if_neg n1, if_neg n2, if_neg n3, if_pos h]

/-- the pair loop of `bam.decodeHex` on an even number of digits, an even `k` and the array that
`decodeHex` makes: an error or a value, never a panic and never out of fuel -/
theorem decodeHexLoop_spec (digits : Bytes) (hev : digits.length % 2 = 0) :
    ∀ (fuel k : Nat) (out : Bytes), k % 2 = 0 → k ≤ digits.length → digits.length + 2 ≤ 2 * fuel + k →
      decodeHexLoop digits (3 + digits.length / 2) fuel k out = err ∨
      ∃ r, decodeHexLoop digits (3 + digits.length / 2) fuel k out = ok r := by
  intro fuel
  induction fuel with
  | zero => intro k out hk hkl hf; omega
  | succ fuel ih =>
    intro k out hk hkl hf
    unfold decodeHexLoop
    split
    · exact Or.inr ⟨out, rfl⟩
    · rename_i hlt
      have h0 : k < digits.length := by omega
      have h1 : k + 1 < digits.length := by omega
      rw [bind_ok _ _ _ (index_of_lt _ digits k h0), bind_ok _ _ _ (index_of_lt _ digits (k + 1) h1)]
      split
      · rw [if_pos (by omega)]
        exact ih (k + 2) _ (by omega) (by omega) (by omega)
      · rw [bind_ok _ _ _ (slice_of_le _ digits k (k + 2) (by omega) (by omega))]
        exact Or.inl rfl

/-- `bam.decodeHex` on a field of at least three bytes: an error, or the three tag and type bytes
followed by the decoded value -/
theorem decodeHexGo_spec (f : Bytes) (h3 : 3 ≤ f.length) :
    decodeHexGo f = err ∨ ∃ body, decodeHexGo f = ok (f.take 3 ++ body) := by
  unfold decodeHexGo
  rw [bind_ok _ _ _ (sliceFrom_of_le _ f 3 h3)]
  split
  · exact Or.inl rfl
  · rename_i hev
    have hev' : (f.drop 3).length % 2 = 0 := by omega
    have hm : makeLen "bam.decodeHex:make(sam.Aux, 3+len(digits)/2)" ((3 + (f.drop 3).length / 2 : Nat) : Int)
        = ok (3 + (f.drop 3).length / 2) := by
      unfold makeLen
      rw [if_neg (by omega), Int.toNat_natCast]
    rw [bind_ok _ _ _ hm, bind_ok _ _ _ (sliceTo_of_le _ f 3 h3)]
    rcases decodeHexLoop_spec (f.drop 3) hev' ((f.drop 3).length / 2 + 1) 0 [] (by omega) (by omega) (by omega)
      with h | ⟨r, h⟩
    · rw [h]; exact Or.inl rfl
    · rw [bind_ok _ _ _ h]; exact Or.inr ⟨r, rfl⟩

/-- one step of the walker: an error, or a well-formed field and a positive number of consumed bytes -/
theorem auxStep_spec (rem : Bytes) (h3 : 2 < rem.length) :
    auxStep rem = err ∨ ∃ f w, auxStep rem = ok (f, w) ∧ 1 ≤ w ∧ w ≤ rem.length ∧
      (rem.length < 2147483648 → wfAux f = true) := by
  have ht : rem[2]? = some (rem[2]'h3) := List.getElem?_eq_getElem h3
  unfold auxStep
  rw [bind_ok _ _ _ (index_of_lt _ rem 2 h3)]
  generalize rem[2]'h3 = t at ht
  simp only
  unfold jumpOf
  by_cases c1 : t = 65 ∨ t = 99 ∨ t = 67
  · simp only [if_pos c1]
    simp only [show (0 : Int) < 1 from by decide, if_true]
    split
    · exact Or.inl rfl
    · rename_i hw
      have hw' : 4 ≤ rem.length := by simp at hw; omega
      rw [bind_ok _ _ _ (sliceTo_of_le _ rem _ (by simpa using hw'))]
      exact Or.inr ⟨_, _, rfl, by simp, by simpa using hw', fun _ => wfAux_take_fixed rem t _ ht (by simpa using hw') (Or.inl ⟨c1, by simp⟩)⟩
  · simp only [if_neg c1]
    by_cases c2 : t = 115 ∨ t = 83
    · simp only [if_pos c2]
      simp only [show (0 : Int) < 2 from by decide, if_true]
      split
      · exact Or.inl rfl
      · rename_i hw
        have hw' : 5 ≤ rem.length := by simp at hw; omega
        rw [bind_ok _ _ _ (sliceTo_of_le _ rem _ (by simpa using hw'))]
        exact Or.inr ⟨_, _, rfl, by simp, by simpa using hw', fun _ => wfAux_take_fixed rem t _ ht (by simpa using hw') (Or.inr (Or.inl ⟨c2, by simp⟩))⟩
    · simp only [if_neg c2]
      by_cases c3 : t = 105 ∨ t = 73 ∨ t = 102
      · simp only [if_pos c3]
        simp only [show (0 : Int) < 4 from by decide, if_true]
        split
        · exact Or.inl rfl
        · rename_i hw
          have hw' : 7 ≤ rem.length := by simp at hw; omega
          rw [bind_ok _ _ _ (sliceTo_of_le _ rem _ (by simpa using hw'))]
          exact Or.inr ⟨_, _, rfl, by simp, by simpa using hw', fun _ => wfAux_take_fixed rem t _ ht (by simpa using hw') (Or.inr (Or.inr ⟨c3, by simp⟩))⟩
      · simp only [if_neg c3]
        by_cases c4 : t = 90 ∨ t = 72 ∨ t = 66
        · simp only [if_pos c4]
          simp only [show ¬((0 : Int) < -1) from by decide, show ((-1 : Int) < 0) from by decide, if_true, if_false]
          by_cases c5 : t = 90 ∨ t = 72
          · rw [if_pos c5]
            cases hz : indexZero rem with
            | none => exact Or.inl rfl
            | some z =>
              simp only [ofOption, bind_ok _ _ _ rfl]
              split
              · exact Or.inl rfl
              · rename_i hz3
                have hzl := indexZero_lt rem z hz
                split
                · rename_i h72
                  rw [bind_ok _ _ _ (sliceTo_of_le _ rem z (by omega))]
                  have hfl : 3 ≤ (rem.take z).length := by rw [List.length_take]; omega
                  rcases decodeHexGo_spec (rem.take z) hfl with he | ⟨body, hb⟩
                  · rw [he]; exact Or.inl rfl
                  · rw [bind_ok _ _ _ hb]
                    refine Or.inr ⟨_, _, rfl, by omega, by omega, fun _ => wfAux_of_text _ t ?_ c5⟩
                    have hl3 : ((rem.take z).take 3).length = 3 := by
                      rw [List.length_take, List.length_take]; omega
                    rw [List.getElem?_append_left (by omega), List.take_take, Nat.min_eq_left (by omega),
                      take_getElem2 rem 3 (by omega), ht]
                · rw [bind_ok _ _ _ (sliceTo_of_le _ rem z (by omega))]
                  exact Or.inr ⟨_, _, rfl, by omega, by omega, fun _ => wfAux_take_text rem t z ht (by omega) c5⟩
          · rw [if_neg c5]
            have e66 : t = 66 := by
              rcases c4 with e | e | e
              · exact absurd (Or.inl e) c5
              · exact absurd (Or.inr e) c5
              · exact e
            subst e66
            exact auxStepArray_spec rem ht
        · simp only [if_neg c4]
          left
          simp


/-- the walker's loop with enough fuel: an error, or (for a block below 2 GiB) only well-formed
fields; never a panic, never out of fuel -/
theorem parseAuxLoop_spec : ∀ (fuel : Nat) (rem : Bytes) (acc : List Bytes), rem.length < fuel →
    parseAuxLoop fuel rem acc = err ∨ ∃ l, parseAuxLoop fuel rem acc = ok l ∧
      (rem.length < 2147483648 → (∀ a ∈ acc, wfAux a = true) → ∀ a ∈ l, wfAux a = true) := by
  intro fuel
  induction fuel with
  | zero => intro rem acc h; omega
  | succ fuel ih =>
    intro rem acc hf
    unfold parseAuxLoop
    split
    · exact Or.inr ⟨acc, rfl, fun _ hacc => hacc⟩
    · rename_i h2
      rcases auxStep_spec rem (by omega) with he | ⟨f, w, hs, hw1, hw2, hwf⟩
      · rw [he]; exact Or.inl rfl
      · rw [hs]
        simp only
        rcases ih (rem.drop w) (acc ++ [f]) (by simp only [List.length_drop]; omega) with h | ⟨l, hl, hwl⟩
        · exact Or.inl h
        · refine Or.inr ⟨l, hl, fun hlen hacc => hwl (by simp only [List.length_drop]; omega) ?_⟩
          intro a ha
          rcases List.mem_append.mp ha with h | h
          · exact hacc a h
          · simp only [List.mem_singleton] at h; subst h; exact hwf hlen

theorem parseAuxBam_spec (aux : Bytes) :
    parseAuxBam aux = err ∨ ∃ l, parseAuxBam aux = ok l ∧ (aux.length < 2147483648 → ∀ a ∈ l, wfAux a = true) := by
  unfold parseAuxBam
  split
  · exact Or.inr ⟨[], rfl, fun _ => by simp⟩
  · rcases parseAuxLoop_spec (aux.length + 1) aux [] (by omega) with h | ⟨l, hl, hw⟩
    · exact Or.inl h
    · exact Or.inr ⟨l, hl, fun hlen => hw hlen (by simp)⟩

/-! ### CIGAR accessors -/

theorem consumesGo_eq (t : Nat) : consumesGo t = ok (consumeTab.getD t (0, 0)) := by
  unfold consumesGo
  split
  · rename_i h
    rw [List.getD_eq_getElem?_getD, List.getElem?_eq_none h]; rfl
  · rename_i h
    rw [index_of_lt _ _ _ (by omega)]
    rw [List.getD_eq_getElem?_getD, List.getElem?_eq_getElem (by omega)]; rfl

theorem opString_total (t : Nat) : ∃ c, opString t = ok c := by
  unfold opString
  have hl : cigarOpsTab.length = 11 := rfl
  refine ⟨_, index_of_lt _ _ _ ?_⟩
  unfold lastCigar
  split <;> omega

/-- the explicit `Lengths` loop computes what the model of C16 computes -/
theorem lengthsGo_eq (c : List CigarOp) : ∀ ref read,
    Hts.Model.Coord.lengthsLoop ref read c = (match lengthsGo ref read c with | ok v => some v | _ => none) ∧
    (lengthsGo ref read c).isPanic = false := by
  induction c with
  | nil => intro ref read; exact ⟨rfl, rfl⟩
  | cons co rest ih =>
    intro ref read
    unfold lengthsGo Hts.Model.Coord.lengthsLoop
    rw [consumesGo_eq]
    simp only [Hts.Model.Coord.consumes, Hts.Model.Coord.typB]
    exact ih _ _

/-- the explicit `End` loop computes what the model of C16 computes -/
theorem endGo_eq (c : List CigarOp) : ∀ pos e,
    Hts.Model.Coord.endLoop pos e c = (match endGo pos e c with | ok v => some v | _ => none) ∧
    (endGo pos e c).isPanic = false := by
  induction c with
  | nil => intro pos e; exact ⟨rfl, rfl⟩
  | cons co rest ih =>
    intro pos e
    unfold endGo Hts.Model.Coord.endLoop
    rw [consumesGo_eq]
    simp only [Hts.Model.Coord.consumes]
    exact ih _ _

theorem clipCheck_total (c : List CigarOp) (i : Nat) (h0 : i ≠ 0) (h1 : i + 1 < c.length) :
    (clipCheck c i).isPanic = false := by
  unfold clipCheck
  rw [bind_ok _ _ _ (index_of_lt _ c (i - 1) (by omega))]
  split
  · rw [bind_ok _ _ _ (index_of_lt _ c (i + 1) h1)]; rfl
  · rfl

theorem isValidGo_total (c : List CigarOp) : ∀ (rest : List CigarOp) (i : Nat) (pos length : Int),
    c.drop i = rest → (isValidGo c i pos length rest).isPanic = false := by
  intro rest
  induction rest with
  | nil => intro i pos length _; rfl
  | cons co rest ih =>
    intro i pos length hd
    have hi : i < c.length := by
      rcases Nat.lt_or_ge i c.length with h | h
      · exact h
      · rw [List.drop_of_length_le h] at hd; cases hd
    have hd' : c.drop (i + 1) = rest := by
      have := List.drop_eq_getElem_cons hi
      rw [this] at hd
      injection hd
    unfold isValidGo
    simp only
    have tail : ∀ bad : Bool, (if bad = true then (pure false : Outcome Bool) else do
            let qr ← consumesGo co.typ
            if pos < 0 ∧ qr.fst ≠ 0 then pure false
              else isValidGo c (i + 1) (pos + ↑co.len * qr.snd) (length - ↑co.len * qr.fst) rest).isPanic = false := by
      intro bad
      split
      · rfl
      · rw [bind_ok _ _ _ (consumesGo_eq co.typ)]
        split
        · rfl
        · exact ih (i + 1) _ _ hd'
    split
    · rfl
    · split
      · rename_i hcl
        have hin := hcl.2
        simp only [Bool.and_eq_true, decide_eq_true_eq] at hin
        apply bind_total
        · exact clipCheck_total c i hin.1 (by omega)
        · intro bad _
          exact tail bad
      · exact tail false

theorem cigarIsValidGo_total (c : List CigarOp) (length : Int) : (cigarIsValidGo c length).isPanic = false :=
  isValidGo_total c c 0 0 length rfl


/-! ### ITF-8 / LTF-8 indexing -/

theorem itf8Width_bounds (b0 : UInt8) : 1 ≤ itf8Width b0 ∧ itf8Width b0 ≤ 5 := by
  unfold itf8Width Hts.Model.Itf8.width
  repeat' split
  all_goals omega

theorem ltf8Width_bounds (b0 : UInt8) : 1 ≤ ltf8Width b0 ∧ ltf8Width b0 ≤ 9 := by
  unfold ltf8Width Hts.Model.Ltf8.width
  repeat' split
  all_goals omega

theorem indexAll_total (site : String) (b : Bytes) : ∀ ks : List Nat, (∀ k ∈ ks, k < b.length) →
    indexAll site b ks = ok () := by
  intro ks
  induction ks with
  | nil => intro _; rfl
  | cons k ks ih =>
    intro h
    unfold indexAll
    rw [index_of_lt site b k (h k List.mem_cons_self)]
    exact ih (fun x hx => h x (List.mem_cons_of_mem _ hx))

theorem decodeIdx_total (site : String) (width : UInt8 → Int) (b : Bytes) :
    (decodeIdx site width b).isPanic = false := by
  unfold decodeIdx
  split
  · rfl
  · rename_i h0
    rw [index_of_lt site b 0 (by omega)]
    simp only
    split
    · rfl
    · rename_i hn
      rw [indexAll_total site b _ (by intro k hk; simp only [List.mem_range] at hk; omega)]
      rfl

theorem streamRead_total (site : String) (width : UInt8 → Int) (bufLen : Nat) (s : Bytes)
    (hw : ∀ b0, 1 ≤ width b0 ∧ width b0 ≤ bufLen) : (streamRead site width bufLen s).isPanic = false := by
  unfold streamRead
  split
  · rfl
  · rename_i b0 rest
    simp only
    have h := hw b0
    split
    · rfl
    · rw [slice_of_le site _ 1 _ (by omega) (by simp only [List.length_replicate]; omega),
        sliceTo_of_le site _ _ (by simp only [List.length_replicate]; omega)]
      simp only
      split <;> rfl

end Hts.Model.Decoders

/-! ### totality of the coordinate accessors of Hts.Model.Coord (after the repair of `Consumes`) -/
namespace Hts.Model.Coord

theorem consumes_some (t : Nat) : ∃ q r, consumes t = some (q, r) := ⟨_, _, rfl⟩

theorem lengthsLoop_total (c : List CigarOp) : ∀ ref read, ∃ v, lengthsLoop ref read c = some v := by
  induction c with
  | nil => intro ref read; exact ⟨_, rfl⟩
  | cons co rest ih =>
    intro ref read
    unfold lengthsLoop
    simp only [consumes]
    exact ih _ _

theorem endLoop_total (c : List CigarOp) : ∀ pos e, ∃ v, endLoop pos e c = some v := by
  induction c with
  | nil => intro pos e; exact ⟨_, rfl⟩
  | cons co rest ih =>
    intro pos e
    unfold endLoop
    simp only [consumes]
    exact ih _ _

theorem recordEnd_total (u : Bool) (pos : Int) (c : List CigarOp) : ∃ v, recordEnd u pos c = some v := by
  unfold recordEnd
  split
  · exact ⟨_, rfl⟩
  · exact endLoop_total c pos pos

theorem isValidLoop_total (n : Nat) (c : List CigarOp) : ∀ i prev pos length, ∃ v, isValidLoop n i prev pos length c = some v := by
  induction c with
  | nil => intro i prev pos length; exact ⟨_, rfl⟩
  | cons co rest ih =>
    intro i prev pos length
    unfold isValidLoop
    simp only [consumes]
    split
    · exact ⟨_, rfl⟩
    · split
      · exact ⟨_, rfl⟩
      · split
        · exact ⟨_, rfl⟩
        · exact ih _ _ _ _


end Hts.Model.Coord
