/-
C07 helper lemmas, part 3: the invariant is kept by Remove* (with the renumbering loop) and SetName.
-/
import Hts.Lemmas.HeaderBase
namespace Hts.Model.Header
variable {α : Type}

def dec1 (x : Obj α) : Obj α := { x with id := x.id - 1 }

theorem nodup_of_inj {β : Type} (l : List β)
    (h : ∀ (a b : Nat) (x : β), l[a]? = some x → l[b]? = some x → a = b) : l.Nodup := by
  rw [List.nodup_iff_pairwise_ne, List.pairwise_iff_getElem]
  intro i j hi hj hij e
  have := h i j l[i] (by simp [hi]) (by simp [hj, e])
  omega

theorem shift_heap (os : List Nat) : ∀ (heap : List (Obj α)) (seen : Seen), os.Nodup →
    ∀ (q : Nat), (KW.shift heap seen os).1[q]? = if q ∈ os then (heap[q]?).map dec1 else heap[q]? := by
  induction os with
  | nil => intro heap seen _ q; simp [KW.shift]
  | cons o os ih =>
    intro heap seen hnd q
    rw [List.nodup_cons] at hnd
    unfold KW.shift
    cases hx : heap[o]? with
    | none =>
      simp only
      rw [ih heap seen hnd.2 q]
      by_cases hq : q = o
      · subst hq; simp [hnd.1, hx]
      · simp [hq]
    | some x =>
      simp only
      rw [ih _ _ hnd.2 q, set_get _ _ _ _ _ hx]
      by_cases hq : o = q
      · subst hq; simp [hnd.1, hx, dec1]
      · have : q ≠ o := fun e => hq e.symm
        simp [hq, this]

theorem shift_seen_other (os : List Nat) : ∀ (heap : List (Obj α)) (seen : Seen) (n : Bytes),
    (∀ o ∈ os, ∀ x, heap[o]? = some x → x.name ≠ n) → lookup (KW.shift heap seen os).2 n = lookup seen n := by
  induction os with
  | nil => intro heap seen n _; simp [KW.shift]
  | cons o os ih =>
    intro heap seen n hno
    unfold KW.shift
    cases hx : heap[o]? with
    | none =>
      simp only
      exact ih heap seen n (fun o' ho' => hno o' (List.mem_cons_of_mem _ ho'))
    | some x =>
      simp only
      rw [ih]
      · rw [lookup_insert]; simp [hno o List.mem_cons_self x hx]
      · intro o' ho' x' hx'
        rw [set_get _ _ _ _ _ hx] at hx'
        split at hx'
        · cases hx'; exact hno o List.mem_cons_self x hx
        · exact hno o' (List.mem_cons_of_mem _ ho') x' hx'

theorem shift_seen_mem (os : List Nat) : ∀ (heap : List (Obj α)) (seen : Seen), os.Nodup →
    (∀ a ∈ os, ∀ b ∈ os, ∀ xa xb, heap[a]? = some xa → heap[b]? = some xb → xa.name = xb.name → a = b) →
    ∀ q ∈ os, ∀ x, heap[q]? = some x → lookup (KW.shift heap seen os).2 x.name = some (x.id - 1) := by
  induction os with
  | nil => intro heap seen _ _ q hq; cases hq
  | cons o os ih =>
    intro heap seen hnd hdist q hq x hx
    rw [List.nodup_cons] at hnd
    unfold KW.shift
    rcases List.mem_cons.1 hq with rfl | hq'
    · simp only [hx]
      rw [shift_seen_other]
      · rw [lookup_insert]; simp
      · intro o' ho' x' hx' e
        rw [set_get _ _ _ _ _ hx] at hx'
        have hne : q ≠ o' := fun e' => hnd.1 (e' ▸ ho')
        simp only [hne, if_false] at hx'
        exact hne (hdist q List.mem_cons_self o' (List.mem_cons_of_mem _ ho') x x' hx hx' e.symm)
    · have hne : o ≠ q := fun e => hnd.1 (e ▸ hq')
      cases hxo : heap[o]? with
      | none =>
        simp only
        exact ih heap seen hnd.2 (fun a ha b hb => hdist a (List.mem_cons_of_mem _ ha) b (List.mem_cons_of_mem _ hb)) q hq' x hx
      | some xo =>
        simp only
        refine ih _ _ hnd.2 ?_ q hq' x (by rw [set_get _ _ _ _ _ hxo]; simp only [hne, if_false]; exact hx)
        intro a ha b hb xa xb hxa hxb e
        have ha' : o ≠ a := fun e' => hnd.1 (e' ▸ ha)
        have hb' : o ≠ b := fun e' => hnd.1 (e' ▸ hb)
        rw [set_get _ _ _ _ _ hxo] at hxa hxb
        simp only [ha', hb', if_false] at hxa hxb
        exact hdist a (List.mem_cons_of_mem _ ha) b (List.mem_cons_of_mem _ hb) xa xb hxa hxb e

theorem kinv_remove {k : KW α} (hk : KInv k) (h o : Nat) : KInv (k.remove h o).1 := by
  unfold KW.remove
  split
  case h_2 => exact hk
  next x t hx ht =>
  split
  · exact hk
  next hg =>
  have T := hk.tab h t ht
  obtain ⟨i0, hid0, hi0⟩ : ∃ i0 : Nat, x.id = (i0 : Int) ∧ t.items[i0]? = some o := by
    refine ⟨x.id.toNat, ?_, ?_⟩
    · have : ¬ x.id < 0 := by intro hc; simp [hc] at hg
      omega
    · cases hc : t.items[x.id.toNat]? with
      | none => simp [hc] at hg
      | some o' =>
        by_cases e : o' = o
        · rw [e]
        · simp [hc, e] at hg
  have hxo := T.listed hi0 hx
  have htn : x.id.toNat = i0 := by omega
  simp only [htn]
  -- the later items
  have hlat : ∀ (j : Nat), (t.items.drop (i0 + 1))[j]? = t.items[i0 + 1 + j]? := fun j => List.getElem?_drop
  have hnd : (t.items.drop (i0 + 1)).Nodup := by
    apply nodup_of_inj
    intro a b y ha hb
    rw [hlat] at ha hb
    have := T.inj ha hb; omega
  have hmem : ∀ q, q ∈ t.items.drop (i0 + 1) ↔ ∃ j, t.items[i0 + 1 + j]? = some q := by
    intro q; rw [List.mem_iff_getElem?]; simp only [hlat]
  have hdist : ∀ a ∈ t.items.drop (i0 + 1), ∀ b ∈ t.items.drop (i0 + 1), ∀ xa xb, k.heap[a]? = some xa →
      k.heap[b]? = some xb → xa.name = xb.name → a = b := by
    intro a ha b hb xa xb hxa hxb e
    obtain ⟨ja, hja⟩ := (hmem a).1 ha
    obtain ⟨jb, hjb⟩ := (hmem b).1 hb
    have := T.name_inj hja hjb hxa hxb e
    have hj : ja = jb := by omega
    subst hj; rw [hja] at hjb; cases hjb; rfl
  have ho_notlat : o ∉ t.items.drop (i0 + 1) := by
    intro hc; obtain ⟨j, hj⟩ := (hmem o).1 hc
    have := T.inj hi0 hj; omega
  -- name the results of the loop
  generalize hsh : KW.shift k.heap (erase t.seen x.name) (t.items.drop (i0 + 1)) = sh
  obtain ⟨heap1, seen1⟩ := sh
  have hH : ∀ q, heap1[q]? = if q ∈ t.items.drop (i0 + 1) then (k.heap[q]?).map dec1 else k.heap[q]? := by
    intro q; have := shift_heap _ k.heap (erase t.seen x.name) hnd q; rw [hsh] at this; exact this
  have hS1 : ∀ n, (∀ o' ∈ t.items.drop (i0 + 1), ∀ x', k.heap[o']? = some x' → x'.name ≠ n) →
      lookup seen1 n = lookup (erase t.seen x.name) n := by
    intro n hn; have := shift_seen_other _ k.heap (erase t.seen x.name) n hn; rw [hsh] at this; exact this
  have hS2 : ∀ q ∈ t.items.drop (i0 + 1), ∀ x', k.heap[q]? = some x' → lookup seen1 x'.name = some (x'.id - 1) := by
    intro q hq x' hx'
    have := shift_seen_mem _ k.heap (erase t.seen x.name) hnd hdist q hq x' hx'; rw [hsh] at this; exact this
  have h1o : heap1[o]? = some x := by rw [hH]; simp only [ho_notlat, if_false]; exact hx
  simp only [h1o]
  have hG : ∀ q, (heap1.set o { x with id := -1, owner := none })[q]? =
      if o = q then some { x with id := -1, owner := none }
      else if q ∈ t.items.drop (i0 + 1) then (k.heap[q]?).map dec1 else k.heap[q]? := by
    intro q; rw [set_get _ _ _ _ _ h1o, hH]
  -- an item before the removed one is untouched
  have hbefore : ∀ (j o' : Nat), j < i0 → t.items[j]? = some o' →
      (heap1.set o { x with id := -1, owner := none })[o']? = k.heap[o']? := by
    intro j o' hj hjo
    have h1 : o ≠ o' := fun e => by have := T.inj hi0 (e ▸ hjo); omega
    have h2 : o' ∉ t.items.drop (i0 + 1) := by
      intro hc; obtain ⟨j', hj'⟩ := (hmem o').1 hc
      have := T.inj hjo hj'; omega
    rw [hG]; simp only [h1, h2, if_false]
  have hafter : ∀ (j o' : Nat), i0 ≤ j → t.items[j + 1]? = some o' →
      (heap1.set o { x with id := -1, owner := none })[o']? = (k.heap[o']?).map dec1 := by
    intro j o' hj hjo
    have h1 : o ≠ o' := fun e => by have := T.inj hi0 (e ▸ hjo); omega
    have h2 : o' ∈ t.items.drop (i0 + 1) := (hmem o').2 ⟨j - i0, by rw [← hjo]; congr 1; omega⟩
    rw [hG]; simp only [h1, h2, if_false, if_true]
  constructor
  · intro h' t' ht'
    simp only [set_get _ _ _ _ _ ht] at ht'
    by_cases hh : h = h'
    · subst hh; simp only [if_true] at ht'; cases ht'
      constructor
      · intro j o' hj
        simp only [List.getElem?_eraseIdx] at hj
        split at hj
        · next hlt => rw [hbefore j o' hlt hj]; exact T.own j o' hj
        · next hge =>
          rw [hafter j o' (by omega) hj]
          obtain ⟨x', hx', ho', hid'⟩ := T.own (j + 1) o' hj
          exact ⟨dec1 x', by simp [hx'], ho', by simp [dec1, hid']⟩
      · intro j o' y hj hy
        simp only [List.getElem?_eraseIdx] at hj
        split at hj
        · next hlt =>
          rw [hbefore j o' hlt hj] at hy
          simp only
          rw [hS1, lookup_erase]
          · have : x.name ≠ y.name := fun e => by have := T.name_inj hi0 hj hx hy e; omega
            simp only [this, if_false]; exact T.known j o' y hj hy
          · intro q hq x' hx' e
            obtain ⟨j', hj'⟩ := (hmem q).1 hq
            have := T.name_inj hj' hj hx' hy e; omega
        · next hge =>
          rw [hafter j o' (by omega) hj] at hy
          obtain ⟨x', hx', _, hid'⟩ := T.own (j + 1) o' hj
          simp [hx'] at hy; subst hy
          simp only
          have : (dec1 x').name = x'.name := rfl
          rw [this, hS2 o' ((hmem o').2 ⟨j - i0, by rw [← hj]; congr 1; omega⟩) x' hx', hid']
          congr 1; omega
      · intro n v hv
        simp only at hv
        by_cases hl : ∃ q ∈ t.items.drop (i0 + 1), ∃ x', k.heap[q]? = some x' ∧ x'.name = n
        · obtain ⟨q, hq, x', hx', hn⟩ := hl
          obtain ⟨a, ha⟩ := (hmem q).1 hq
          have hid' := (T.listed ha hx').2
          rw [← hn, hS2 q hq x' hx'] at hv; cases hv
          refine ⟨i0 + a, q, dec1 x', ?_, ?_, hn, by rw [hid']; omega⟩
          · rw [List.getElem?_eraseIdx]; simp only [show ¬ i0 + a < i0 by omega, if_false]
            rw [← ha]; congr 1; omega
          · rw [hafter (i0 + a) q (by omega) (by rw [← ha]; congr 1; omega)]; simp [hx']
        · have hno : ∀ o' ∈ t.items.drop (i0 + 1), ∀ x', k.heap[o']? = some x' → x'.name ≠ n :=
            fun o' ho' x' hx' e => hl ⟨o', ho', x', hx', e⟩
          rw [hS1 n hno, lookup_erase] at hv
          split at hv
          · cases hv
          · next hne =>
            obtain ⟨i, o', x', hi, hx', hn, hv'⟩ := T.only n v hv
            have hi_ne : i ≠ i0 := by
              intro e; subst e; rw [hi0] at hi; cases hi; rw [hx] at hx'; cases hx'; exact hne hn
            have hi_lt : i < i0 := by
              rcases Nat.lt_or_ge i i0 with h1 | h1
              · exact h1
              · exact absurd hn (hno o' ((hmem o').2 ⟨i - (i0 + 1), by rw [← hi]; congr 1; omega⟩) x' hx')
            refine ⟨i, o', x', ?_, ?_, hn, hv'⟩
            · rw [List.getElem?_eraseIdx]; simp only [hi_lt, if_true]; exact hi
            · rw [hbefore i o' hi_lt hi]; exact hx'
    · simp only [hh, if_false] at ht'
      refine (hk.tab h' t' ht').frame _ ?_
      intro j o' hj
      have h1 : o ≠ o' := fun e => hh (hk.listed_owner hx hxo.1 ht' (e ▸ hj)).symm
      have h2 : o' ∉ t.items.drop (i0 + 1) := by
        intro hc; obtain ⟨a, ha⟩ := (hmem o').1 hc
        obtain ⟨x', hx', ho', _⟩ := T.own _ o' ha
        exact hh (hk.listed_owner hx' ho' ht' hj).symm
      rw [hG]; simp only [h1, h2, if_false]
  · intro q y h' hy hown
    rw [hG] at hy
    simp only [set_get _ _ _ _ _ ht]
    by_cases h1 : o = q
    · subst h1; simp only [if_true] at hy; cases hy; cases hown
    · simp only [h1, if_false] at hy
      by_cases h2 : q ∈ t.items.drop (i0 + 1)
      · simp only [h2, if_true] at hy
        obtain ⟨a, ha⟩ := (hmem q).1 h2
        obtain ⟨x', hx', ho', hid'⟩ := T.own _ q ha
        simp [hx'] at hy; subst hy
        have : h' = h := by simp [dec1] at hown; rw [ho'] at hown; cases hown; rfl
        subst this
        refine ⟨_, i0 + a, if_pos rfl, by simp [dec1, hid']; omega, ?_⟩
        rw [List.getElem?_eraseIdx]; simp only [show ¬ i0 + a < i0 by omega, if_false]
        rw [← ha]; congr 1; omega
      · simp only [h2, if_false] at hy
        obtain ⟨t', i, ht', hid, hi⟩ := hk.obj q y h' hy hown
        by_cases hh : h = h'
        · subst hh; rw [ht] at ht'; cases ht'
          have hi_lt : i < i0 := by
            rcases Nat.lt_or_ge i i0 with h3 | h3
            · exact h3
            · rcases Nat.eq_or_lt_of_le h3 with e | e
              · subst e; rw [hi0] at hi; cases hi; exact absurd rfl h1
              · exact absurd ((hmem q).2 ⟨i - (i0 + 1), by rw [← hi]; congr 1; omega⟩) h2
          refine ⟨_, i, if_pos rfl, hid, ?_⟩
          rw [List.getElem?_eraseIdx]; simp only [hi_lt, if_true]; exact hi
        · exact ⟨t', i, by simp only [hh, if_false]; exact ht', hid, hi⟩

theorem kinv_setName {k : KW α} (hk : KInv k) (o : Nat) (n : Bytes) : KInv (k.setName o n).1 := by
  unfold KW.setName
  split
  · exact hk
  next x hx =>
  split
  · next hown =>
    -- a free object: listed nowhere
    constructor
    · intro h t ht
      refine (hk.tab h t ht).frame _ ?_
      intro i o' hi
      have : o ≠ o' := fun e => hk.free_unlisted hx hown ht (e ▸ hi)
      simp only [set_get _ _ _ _ _ hx, this, if_false]
    · intro q y h hy ho
      simp only [set_get _ _ _ _ _ hx] at hy
      split at hy
      · cases hy; simp only at ho; rw [hown] at ho; cases ho
      · exact hk.obj q y h hy ho
  · next h hown =>
    split
    · exact hk
    next t ht =>
    split
    · split <;> exact hk
    next hl =>
    have T := hk.tab h t ht
    obtain ⟨t', i0, ht', hid0, hi0⟩ := hk.obj o x h hx hown
    rw [ht] at ht'; cases ht'
    constructor
    · intro h' t' ht'
      simp only [set_get _ _ _ _ _ ht] at ht'
      by_cases hh : h = h'
      · subst hh; simp only [if_true] at ht'; cases ht'
        constructor
        · intro j o' hj
          simp only [set_get _ _ _ _ _ hx]
          by_cases e : o = o'
          · subst e; simp only [if_true]
            have := T.listed hj hx
            exact ⟨_, rfl, this.1, this.2⟩
          · simp only [e, if_false]; exact T.own j o' hj
        · intro j o' y hj hy
          simp only [set_get _ _ _ _ _ hx] at hy
          simp only [lookup_insert, lookup_erase]
          by_cases e : o = o'
          · subst e; simp only [if_true] at hy; cases hy
            simp only [if_true]
            have := T.inj hi0 hj; subst this; rw [hid0]
          · simp only [e, if_false] at hy
            have hkn := T.known j o' y hj hy
            have h1 : n ≠ y.name := fun e' => by rw [← e', hl] at hkn; cases hkn
            have h2 : x.name ≠ y.name := fun e' => by
              have := T.name_inj hi0 hj hx hy e'; subst this; rw [hi0] at hj; cases hj; exact e rfl
            simp only [h1, h2, if_false]; exact hkn
        · intro m v hv
          simp only [lookup_insert, lookup_erase] at hv
          simp only [set_get _ _ _ _ _ hx]
          by_cases e : n = m
          · simp only [e, if_true] at hv; cases hv
            exact ⟨i0, o, _, hi0, if_pos rfl, e, hid0⟩
          · simp only [e, if_false] at hv
            split at hv
            · cases hv
            · next hne =>
              obtain ⟨j, o', y, hj, hy, hm, hv'⟩ := T.only m v hv
              have : o ≠ o' := fun e' => by subst e'; rw [hx] at hy; cases hy; exact hne hm
              exact ⟨j, o', y, hj, by simp only [this, if_false]; exact hy, hm, hv'⟩
      · simp only [hh, if_false] at ht'
        refine (hk.tab h' t' ht').frame _ ?_
        intro j o' hj
        have : o ≠ o' := fun e => hh (hk.listed_owner hx hown ht' (e ▸ hj)).symm
        simp only [set_get _ _ _ _ _ hx, this, if_false]
    · intro q y h' hy ho
      simp only [set_get _ _ _ _ _ hx] at hy
      simp only [set_get _ _ _ _ _ ht]
      by_cases e : o = q
      · subst e; simp only [if_true] at hy; cases hy
        simp only at ho; rw [hown] at ho; cases ho
        exact ⟨_, i0, if_pos rfl, hid0, hi0⟩
      · simp only [e, if_false] at hy
        obtain ⟨t', i, ht', hid, hi⟩ := hk.obj q y h' hy ho
        by_cases hh : h = h'
        · subst hh; rw [ht] at ht'; cases ht'
          exact ⟨_, i, if_pos rfl, hid, hi⟩
        · exact ⟨t', i, by simp only [hh, if_false]; exact ht', hid, hi⟩

/-- under the invariant SetName never meets a missing owner table -/
theorem setName_no_panic {k : KW α} (hk : KInv k) (o : Nat) (n : Bytes) : (k.setName o n).2 ≠ .panic := by
  unfold KW.setName
  split
  · simp
  next x hx =>
  split
  · simp
  next h hown =>
  obtain ⟨t, i, ht, _, _⟩ := hk.obj o x h hx hown
  simp only [ht]
  split
  · split <;> simp
  · simp

end Hts.Model.Header
