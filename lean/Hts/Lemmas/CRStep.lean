/-
ChunkReader proofs, part 4: one `Read` (`readCore`) preserves the invariant, hands out a prefix of what is
still to be delivered, and makes progress.
-/
import Hts.Lemmas.CRStepBasic
namespace Hts.Model.Bgzf
open Hts.Spec.Flat

/-- Finishing the first chunk after handing out `out`. -/
theorem step_finish {F : File} (hwf : WF F) {r' : Reader} {pre : File} {m : Member} {post : File} {k : Nat}
    (hat : At F r' pre m post k) (hb : r'.blocked = true) (x : CSpec) (xs : List CSpec)
    (hv : ∀ y ∈ xs, y.Valid F) (ho : Ordered xs) (out : List UInt8) (pos rem n : Nat)
    (htodo : todo F (x :: xs) pos = out ++ expected F xs) :
    StepOK F (x :: xs) pos rem n (ChunkReader.nextChunk r' (xs.map (·.c)) out) := by
  have ⟨f1, f2⟩ := finish_chunk hwf hat hb xs hv ho out
  cases xs with
  | nil =>
    rw [f1 rfl]
    refine ⟨fun h => (by cases h), fun e he => ?_⟩
    simp only [Option.some.injEq] at he
    exact ⟨he.symm, by rw [htodo]; simp [expected]⟩
  | cons y ys =>
    obtain ⟨r'', rem', e1, e2, e3⟩ := f2 y ys rfl
    rw [e1]
    refine ⟨fun _ => ⟨y :: ys, y.p, rem', rfl, e2, by rw [htodo]; rfl, fun _ => ?_⟩, fun e he => by cases he⟩
    exact mu_next x (y :: ys) rem rem' pos y.p out e3 (by rw [htodo]; rfl)

/-- The reader stays inside the first chunk after handing out `a` bytes of member `m`. -/
theorem step_same {F : File} {r r' : Reader} {x : CSpec} {xs : List CSpec} {pos rem : Nat}
    (h : CRInv F r (x :: xs) pos rem) {pre : File} {m : Member} {post : File} {k a : Nat}
    (hF : F = pre ++ m :: post) (hat' : At F r' pre m post (k + a)) (hb' : r'.blocked = true)
    (hl' : r'.lastChunk.fin = ⟨csum pre, k + a⟩) (hxp : x.p ≤ flatLen pre + k)
    (ha : k + a ≤ m.data.length) (hq : flatLen pre + k + a ≤ x.q) (n : Nat)
    (hprog : 0 < n → 0 < a ∨ post.length < rem) (hrem : post.length ≤ rem)
    (htd0 : todo F (x :: xs) pos = todo F (x :: xs) (flatLen pre + k)) :
    StepOK F (x :: xs) pos rem n
      ((⟨r', x.c :: xs.map (·.c)⟩ : ChunkReader), (m.data.drop k).take a, none) := by
  have htd : todo F (x :: xs) pos = (m.data.drop k).take a ++ todo F (x :: xs) (flatLen pre + k + a) := by
    rw [htd0]; exact todo_step hF x xs k a ha hq
  refine ⟨fun _ => ⟨x :: xs, flatLen pre + k + a, post.length, rfl, ?_, htd, ?_⟩, fun e he => by cases he⟩
  · refine ⟨h.valid, h.ordered, hb', ⟨pre, m, post, k + a, hat', by omega, hl', rfl⟩, ?_⟩
    intro w ws hw
    simp only [List.cons.injEq] at hw
    rw [← hw.1]; omega
  · intro hn0
    simp only [mu, htd, List.length_append, List.length_take, List.length_drop]
    have := hprog hn0
    omega

theorem take_min_length (l : List UInt8) (a : Nat) : l.take a = l.take (min a l.length) := by
  rw [List.take_eq_take_iff]; simp

/-- The chunk ends in a later member (or at the end of the file). -/
theorem readCore_later {F : File} (hwf : WF F) {r : Reader} {x : CSpec} {xs : List CSpec} {pos rem : Nat}
    (h : CRInv F r (x :: xs) pos rem) {pre : File} {m : Member} {post : File} {k : Nat}
    (hat : At F r pre m post k) (hpos : pos = flatLen pre + k) (hfin : r.lastChunk.fin = ⟨csum pre, k⟩)
    (hrem : rem = post.length) (hlt : csum pre < x.c.fin.file) (n : Nat) :
    StepOK F (x :: xs) pos rem n (ChunkReader.readCore r x.c (xs.map (·.c)) n) := by
  have hvx := h.valid x (by simp)
  have hvs : ∀ y ∈ xs, y.Valid F := fun y hy => h.valid y (by simp [hy])
  have hos : Ordered xs := h.ordered.tail
  have hrange := h.range x xs rfl
  have hm : m.data.length < 65536 := (WF.mid (hat.split ▸ hwf)).2
  have hb := h.blocked
  have hk := hat.le
  have hq : flatLen pre + m.data.length ≤ x.q ∧ x.c.fin.block < 65536 := by
    rcases finLoc hwf hat.split hvx.fin with ⟨h1, _, _⟩ | ⟨mid, mE, postE, h0, h1, h2, h3⟩ | ⟨h1, h2, h3⟩ | ⟨preE, mE, mid, h0, h1, h2, h3⟩
    · omega
    · have : mE.data.length < 65536 := by
        have := hwf mE (by rw [hat.split, h0]; simp); exact this.2
      rw [h3]; simp [flatLen]; omega
    · rw [h3, hat.split, h2]; simp [flatLen]
    · rw [h0] at hlt; simp [csum] at hlt; omega
  have hwant : (if x.c.fin.block = 0 ∧ r.lastChunk.fin.file < x.c.fin.file then r.blockLen else x.c.fin.block) =
      (if x.c.fin.block = 0 then m.data.length - k else x.c.fin.block) := by
    rw [hfin]; simp [hlt, Reader.blockLen, Block.len, hat.cur]
  have hcur : (if r.lastChunk.fin.file = x.c.fin.file then r.lastChunk.fin.block else 0) = 0 := by
    rw [hfin]; simp; omega
  generalize hW : (if x.c.fin.block = 0 then m.data.length - k else x.c.fin.block) = W at hwant
  simp only [ChunkReader.readCore, hwant, hcur, Nat.not_lt_zero, if_false, Nat.sub_zero]
  by_cases hklen : k < m.data.length
  · -- inside the current member
    have hW0 : 0 < W := by subst hW; split <;> omega
    obtain ⟨r', heq, hat', hb', hl'⟩ := read_blocked_canon hwf hat hklen hb (min n W)
    generalize ha : min (min n W) (m.data.length - k) = a at hat' hl'
    have hout : (m.data.drop k).take (min n W) = (m.data.drop k).take a := by
      rw [take_min_length]; simp [ha]
    have hstep := step_same h hat.split hat' hb' (by rw [hl']) (by omega) (by omega) (by omega) n
      (fun hn0 => Or.inl (by omega)) (by omega) (by rw [hpos])
    rw [heq, hout]
    by_cases herr : m.data.length - k < min n W
    · simp only [herr, if_true]
      have : ((m.data.drop k).take a).length ≠ 0 := by simp; omega
      simp only [this, ne_eq, not_false_eq_true, and_self, if_true]
      exact hstep
    · simp only [herr, if_false]
      have hcond : ¬ (n ≠ 0 ∧ r'.lastChunk = r.lastChunk ∨ vOffset x.c.fin ≤ vOffset r'.lastChunk.fin) := by
        rw [hl']; simp only [vOffset]
        rintro (⟨hn0, heq2⟩ | hv)
        · have := congrArg (fun c => c.fin.block) heq2
          simp [hfin] at this; omega
        · have : (csum pre + 1) * 65536 ≤ x.c.fin.file * 65536 := Nat.mul_le_mul_right _ hlt
          omega
      rw [if_neg hcond]
      exact hstep
  · -- at the end of the current member: the read first moves on to the next member with data
    have hkl : k = m.data.length := by omega
    have hfuel : post.length < r.skipFuel := by
      simp only [Reader.skipFuel, hat.file, hat.split, List.length_append, List.length_cons]; omega
    have ⟨hfr, hres⟩ := (skipEmpty_at hwf post pre m k r r.skipFuel hat hfuel).2 hkl
    have hpos' : pos = flatLen pre + m.data.length := by omega
    rcases hres with ⟨es, m', post', hp, hes, hm', hat1⟩ | ⟨hall, heof⟩
    · -- the next member with data is m'
      rw [read_skip_idem hwf hat1 hm' hat.err hfr]
      have hb1 : (r.skipEmpty r.skipFuel).blocked = true := hfr.2.2.trans hb
      have hlc1 : (r.skipEmpty r.skipFuel).lastChunk = r.lastChunk := hfr.2.1
      generalize r.skipEmpty r.skipFuel = r1 at *
      have hm'len : m'.data.length < 65536 := (WF.mid (hat1.split ▸ hwf)).2
      have hmc : 0 < m.csize := (WF.mid (hat.split ▸ hwf)).1
      have hfl1 : flatLen (pre ++ m :: es) = pos := by
        simp [flatLen, flatLen_empty es hes]; omega
      have hcs1 : csum pre < csum (pre ++ m :: es) := by simp [csum]; omega
      have hremlt : post'.length < rem := by rw [hrem, hp]; simp; omega
      obtain ⟨r', heq, hat', hb', hl'⟩ := read_blocked_canon hwf hat1 hm' hb1 (min n W)
      simp only [Nat.sub_zero, Nat.zero_add, List.drop_zero] at heq hat' hl'
      generalize ha : min (min n W) m'.data.length = a at hat' hl'
      have hout : m'.data.take (min n W) = (m'.data.drop 0).take a := by
        rw [take_min_length]; simp [ha]
      have hdiff : r'.lastChunk ≠ r.lastChunk := by
        intro heq2
        have := congrArg (fun c => c.fin.file) heq2
        simp only [hl', hfin] at this; omega
      have hsame : ∀ (hq2 : flatLen (pre ++ m :: es) + 0 + a ≤ x.q), StepOK F (x :: xs) pos rem n
          ((⟨r', x.c :: xs.map (·.c)⟩ : ChunkReader), (m'.data.drop 0).take a, none) := by
        intro hq2
        exact step_same h hat1.split (by simpa using hat') hb' (by rw [hl']; simp) (by omega) (by omega) hq2 n
          (fun _ => Or.inr hremlt) (by omega) (by rw [hfl1]; rfl)
      rw [heq, hout]
      -- where the chunk ends relative to m'
      have hloc : (x.c.fin.file ≤ csum (pre ++ m :: es) ∧ x.c.fin.block = 0 ∧ x.q = pos) ∨
          (x.c.fin.file = csum (pre ++ m :: es) ∧ 0 < x.c.fin.block ∧ x.c.fin.block ≤ m'.data.length ∧
            x.q = pos + x.c.fin.block) ∨
          (csum (pre ++ m :: es) < x.c.fin.file ∧ pos + m'.data.length ≤ x.q) := by
        rcases finLoc hwf hat1.split hvx.fin with ⟨h1, h2, h3⟩ | ⟨mid, mE, postE, h0, h1, h2, h3⟩ | ⟨h1, h2, h3⟩ | ⟨preE, mE, mid2, h0, h1, h2, h3⟩
        · by_cases hz : x.c.fin.block = 0
          · exact Or.inl ⟨by omega, hz, by rw [h3, hfl1, hz]; rfl⟩
          · exact Or.inr (Or.inl ⟨h1, by omega, h2, by rw [h3, hfl1]⟩)
        · refine Or.inr (Or.inr ⟨?_, ?_⟩)
          · have : 0 < m'.csize := (WF.mid (hat1.split ▸ hwf)).1
            rw [h1]; simp [csum]; omega
          · rw [h3, ← hfl1]; simp [flatLen]; omega
        · refine Or.inr (Or.inr ⟨?_, ?_⟩)
          · rw [h1]; have := csum_lt_of_split _ post' m' (hat1.split ▸ hwf); rw [← hat1.split] at this; exact this
          · rw [h3, ← hfl1, hat1.split]; simp [flatLen]; omega
        · -- the chunk's end offset names one of the skipped empty members
          have hlt' : csum pre < csum preE := by omega
          have hF2 : F = preE ++ mE :: (mid2 ++ m' :: post') := by
            rw [hat1.split, h0]; simp
          obtain ⟨mid', hmid'⟩ := split_lt (hat.split ▸ hwf) (hat.split.symm.trans hF2) hlt'
          have hes2 : es = mid' ++ mE :: mid2 := by
            have := h0
            rw [hmid'] at this
            simp only [List.append_assoc, List.cons_append] at this
            exact (List.cons.inj (List.append_cancel_left this)).2
          have hmE : mE.data = [] := hes mE (by rw [hes2]; simp)
          have hmid0 : flatLen mid' = 0 := flatLen_empty mid' (fun e he => hes e (by rw [hes2]; simp [he]))
          have hz : x.c.fin.block = 0 := by rw [hmE] at h2; simpa using h2
          refine Or.inl ⟨by rw [h1, h0]; simp [csum], hz, ?_⟩
          rw [h3, hz, hmid']; simp [flatLen, hmid0]; omega
      rcases hloc with ⟨e1, e2, e3⟩ | ⟨e1, e2, e3, e4⟩ | ⟨e1, e2⟩
      · -- the chunk ends exactly here: a zero-length read, then the next chunk
        have hW0 : W = 0 := by subst hW; simp [e2]; omega
        have ha0 : a = 0 := by subst ha; simp [hW0]
        have hnoerr : ¬ (m'.data.length < min n W) := by omega
        simp only [hnoerr, if_false]
        have hcond : (n ≠ 0 ∧ r'.lastChunk = r.lastChunk ∨ vOffset x.c.fin ≤ vOffset r'.lastChunk.fin) := by
          right; rw [hl']; simp only [vOffset, e2, ha0]
          exact Nat.add_le_add_right (Nat.mul_le_mul_right _ e1) 0
        rw [if_pos hcond]
        apply step_finish hwf hat' hb' x xs hvs hos _ pos rem n
        simp [todo, ha0, e3, slice_self]
      · -- the chunk ends inside m'
        have hWe : W = x.c.fin.block := by subst hW; simp; omega
        have haa : a = min n x.c.fin.block := by subst ha; rw [hWe]; omega
        have hnoerr : ¬ (m'.data.length < min n W) := by omega
        simp only [hnoerr, if_false]
        by_cases hdone : x.c.fin.block ≤ a
        · have hcond : (n ≠ 0 ∧ r'.lastChunk = r.lastChunk ∨ vOffset x.c.fin ≤ vOffset r'.lastChunk.fin) := by
            right; rw [hl']; simp only [vOffset, e1]; omega
          rw [if_pos hcond]
          apply step_finish hwf hat' hb' x xs hvs hos _ pos rem n
          have := todo_done hat1.split x xs 0 a (by omega) (by omega)
          rw [← this, hfl1]; rfl
        · have hcond : ¬ (n ≠ 0 ∧ r'.lastChunk = r.lastChunk ∨ vOffset x.c.fin ≤ vOffset r'.lastChunk.fin) := by
            rintro (⟨_, heq2⟩ | hv)
            · exact hdiff heq2
            · rw [hl'] at hv; simp only [vOffset, e1] at hv; omega
          rw [if_neg hcond]
          exact hsame (by omega)
      · -- the chunk goes on beyond m'
        have hsm := hsame (by omega)
        by_cases herr : m'.data.length < min n W
        · simp only [herr, if_true]
          have hla : ((m'.data.drop 0).take a).length = a := by
            rw [List.length_take, List.drop_zero]; omega
          have : ((m'.data.drop 0).take a).length ≠ 0 := by rw [hla]; omega
          simp only [this, ne_eq, not_false_eq_true, and_self, if_true]
          exact hsm
        · simp only [herr, if_false]
          have hcond : ¬ (n ≠ 0 ∧ r'.lastChunk = r.lastChunk ∨ vOffset x.c.fin ≤ vOffset r'.lastChunk.fin) := by
            rintro (⟨_, heq2⟩ | hv)
            · exact hdiff heq2
            · rw [hl'] at hv; simp only [vOffset] at hv
              have : (csum (pre ++ m :: es) + 1) * 65536 ≤ x.c.fin.file * 65536 := Nat.mul_le_mul_right _ e1
              omega
          rw [if_neg hcond]
          exact hsm
    · -- nothing but empty members follows: the data has ended
      rw [read_skip_err r _ .eof hat.err heof.err]
      simp only [List.length_nil, ne_eq, not_true_eq_false, false_and, if_false]
      refine ⟨fun hc => (by cases hc), fun e he => ?_⟩
      simp only [Option.some.injEq] at he
      refine ⟨he.symm, ?_⟩
      have htot : flatLen F = pos := by
        rw [hat.split]; simp [flatLen, flatLen_empty post hall]; omega
      simp only [todo]
      rw [slice_beyond F pos x.q (by omega), expected_beyond xs pos (by omega)]
      · rfl
      intro y hy
      have := ordered_ge xs x h.ordered h.valid y hy
      omega

theorem readCore_spec {F : File} (hwf : WF F) {r : Reader} {x : CSpec} {xs : List CSpec} {pos rem : Nat}
    (h : CRInv F r (x :: xs) pos rem) (hne : vOffset r.lastChunk.fin < vOffset x.c.fin) (n : Nat) :
    StepOK F (x :: xs) pos rem n (ChunkReader.readCore r x.c (xs.map (·.c)) n) := by
  obtain ⟨pre, m, post, k, hat, hpos, hfin, hrem⟩ := h.at_
  have hvx := h.valid x (by simp)
  have hvs : ∀ y ∈ xs, y.Valid F := fun y hy => h.valid y (by simp [hy])
  have hos : Ordered xs := h.ordered.tail
  have hrange := h.range x xs rfl
  have hm : m.data.length < 65536 := (WF.mid (hat.split ▸ hwf)).2
  have hmc : 0 < m.csize := (WF.mid (hat.split ▸ hwf)).1
  have hb := h.blocked
  have hk := hat.le
  rw [hfin] at hne
  simp only [vOffset] at hne
  rcases finLoc hwf hat.split hvx.fin with ⟨h1, h2, h3⟩ | ⟨mid, mE, postE, h0, h1, h2, h3⟩ | ⟨h1, h2, h3⟩ | ⟨preE, mE, mid, h0, h1, h2, h3⟩
  · -- the chunk ends in the current member
    have hkeb : k < x.c.fin.block := by rw [h1] at hne; omega
    have hklen : k < m.data.length := by omega
    have hwant : (if x.c.fin.block = 0 ∧ r.lastChunk.fin.file < x.c.fin.file then r.blockLen else x.c.fin.block) = x.c.fin.block := by
      rw [hfin, h1]; simp
    have hcur : (if r.lastChunk.fin.file = x.c.fin.file then r.lastChunk.fin.block else 0) = k := by
      rw [hfin, h1]; simp
    obtain ⟨r', heq, hat', hb', hl'⟩ := read_blocked_canon hwf hat hklen hb (min n (x.c.fin.block - k))
    have hmin : min (min n (x.c.fin.block - k)) (m.data.length - k) = min n (x.c.fin.block - k) := by omega
    have hnoerr : ¬ (m.data.length - k < min n (x.c.fin.block - k)) := by omega
    rw [hmin] at hat' hl'
    simp only [hnoerr, if_false] at heq
    have hlt : ¬ (x.c.fin.block < k) := by omega
    simp only [ChunkReader.readCore, hwant, hcur, hlt, if_false, heq]
    generalize hx : min n (x.c.fin.block - k) = a at *
    have hcond : (n ≠ 0 ∧ r'.lastChunk = r.lastChunk ∨ vOffset x.c.fin ≤ vOffset r'.lastChunk.fin) ↔
        x.c.fin.block ≤ k + a := by
      rw [hl']; simp only [vOffset, h1]
      constructor
      · rintro (⟨hn0, heq2⟩ | hv)
        · have := congrArg (fun c => c.fin.block) heq2
          simp [hfin] at this; omega
        · omega
      · intro hle; right; omega
    by_cases hdone : x.c.fin.block ≤ k + a
    · rw [if_pos (hcond.mpr hdone)]
      apply step_finish hwf hat' hb' x xs hvs hos _ pos rem n
      rw [hpos]; exact todo_done hat.split x xs k a (by omega) (by omega)
    · rw [if_neg (mt hcond.mp hdone)]
      have htd : todo F (x :: xs) pos = (m.data.drop k).take a ++ todo F (x :: xs) (pos + a) := by
        rw [hpos]; exact todo_step hat.split x xs k a (by omega) (by omega)
      refine ⟨fun _ => ⟨x :: xs, pos + a, rem, rfl, ?_, htd, ?_⟩, fun e he => by cases he⟩
      · refine ⟨h.valid, h.ordered, hb', ⟨pre, m, post, k + a, hat', by omega, by rw [hl'], hrem⟩, ?_⟩
        intro w ws hw
        simp only [List.cons.injEq] at hw
        rw [← hw.1]; omega
      · intro hn0
        simp only [mu, htd, List.length_append, List.length_take, List.length_drop]
        omega
  · -- a later member
    apply readCore_later hwf h hat hpos hfin hrem _ n
    rw [h1]; simp [csum]; omega
  · -- the end of the file
    apply readCore_later hwf h hat hpos hfin hrem _ n
    rw [h1, hat.split]; exact csum_lt_of_split pre post m (hat.split ▸ hwf)
  · -- an earlier member: excluded by the loop at the head of `Read`
    exfalso
    have hmE : mE.data.length < 65536 := (hwf mE (by rw [hat.split, h0]; simp)).2
    have hcE : 0 < mE.csize := (hwf mE (by rw [hat.split, h0]; simp)).1
    rw [h1, h0] at hne
    simp only [csum_append, csum] at hne
    have : (csum preE + 1) * 65536 ≤ (csum preE + (mE.csize + csum mid)) * 65536 :=
      Nat.mul_le_mul_right _ (by omega)
    omega

end Hts.Model.Bgzf
