/-
Lemmas for C10, second sentence of the property: a stream in which ONE byte of a member's header or
trailer was altered.  For every position where the outcome does not depend on what DEFLATE makes of
shifted or altered compressed data, the outcome is proved: an error that is not the clean end (and no
data from that member), or exactly the data of the intact stream.

The member has the 18-byte header bgzf.Writer writes by default (`canonHeader`).  The only codec
assumption, where one is needed (BSIZE, CRC-32, ISIZE), is `Codec.PrefixDetermined`: the deflate
decoder's answer depends only on the bytes it used.
-/
import Hts.Lemmas.BgzfBytes
import Hts.Lemmas.BgzfBytesVerify
namespace Hts.Lemmas.BgzfBytes
open Hts.Model.BgzfBytes

/-- The deflate decoder looks only at the bytes it uses: if it decodes `a` using `u` bytes, it gives
the same answer on every input that starts with the same `u` bytes. -/
def PrefixDetermined (c : Codec) : Prop :=
  ∀ (a b p : Bytes) (u : Nat), c.inflate a = .ok p u → u ≤ a.length → u ≤ b.length → a.take u = b.take u →
    c.inflate b = .ok p u

/-! ### preliminaries -/

theorem readAll_stream_append (q : Quirks) (c : Codec) {pre : List Member} (hwf : ∀ m ∈ pre, m.WellFramed c)
    (x : Bytes) :
    readAll q c (stream pre ++ x) = (data pre ++ (readAll q c x).1, (readAll q c x).2) := by
  induction pre with
  | nil => simp [stream, data]
  | cons m ms ih =>
    rw [stream_cons, List.append_assoc, readAll_member_append q c (hwf m (by simp)),
      ih (fun y hy => hwf y (by simp [hy])), data_cons]
    simp

/-- what reading a framed member gives, in terms of its payload only -/
theorem readBlock_framed (q : Quirks) (c : Codec) {m : Member} (h : m.FramedOk c) (t : Bytes) :
    readBlock q c (m.bytes ++ t) =
      match readToEOF q (.ok (m.payload, !m.payload.isEmpty)) with
      | .error e => .error e
      | .ok p => .ok (p, t) := by
  obtain ⟨hd, hr⟩ := readMember_member q c h t
  simp only [readBlock, hr, gzBody_member c h]
  rfl

/-- an error of the gzip reader is never turned into a clean end or into data -/
theorem readBlock_of_gzBody_error (q : Quirks) (c : Codec) {s : Bytes} {f : Framed} {x : Err × Nat}
    (hf : readMember q c s = .ok f) (hg : gzBody c f.body = .error x) :
    ∃ e, e ≠ .eof ∧ readBlock q c s = .error e := by
  simp only [readBlock, hf, hg]
  obtain ⟨e0, n0⟩ := x
  cases hr : readToEOF q (.error (e0, n0)) with
  | ok p =>
    simp only [readToEOF] at hr
    split at hr
    · simp at hr
    · split at hr <;> simp at hr
  | error e =>
    refine ⟨e, ?_, rfl⟩
    intro he
    subst he
    obtain ⟨k, hk⟩ := readToEOF_error_eof hr
    rw [← hg] at hk
    exact gzBody_ne_eof c _ k hk

theorem leNat_set_eq {l : Bytes} {j : Nat} {v : UInt8} (hj : j < l.length) (h : leNat (l.set j v) = leNat l) :
    l[j]? = some v := by
  induction l generalizing j with
  | nil => simp at hj
  | cons b t ih =>
    cases j with
    | zero =>
      simp only [List.set_cons_zero, leNat] at h
      have : v.toNat = b.toNat := by omega
      have : v = b := UInt8.toNat_inj.mp this
      simp [this]
    | succ j =>
      simp only [List.set_cons_succ, leNat] at h
      have : leNat (t.set j v) = leNat t := by omega
      simpa using ih (by simpa using hj) this

/-! ### the 18-byte header with arbitrary FLG and BSIZE bytes -/

def hdr18 (flg m0 m1 m2 m3 xfl os b0 b1 : UInt8) : Bytes :=
  [0x1f, 0x8b, 0x08, flg, m0, m1, m2, m3, xfl, os, 0x06, 0x00, 0x42, 0x43, 0x02, 0x00, b0, b1]

theorem canonHeader_eq (m0 m1 m2 m3 xfl os : UInt8) (size : Nat) :
    canonHeader m0 m1 m2 m3 xfl os size =
      hdr18 4 m0 m1 m2 m3 xfl os (UInt8.ofNat ((size - 1) % 256)) (UInt8.ofNat ((size - 1) / 256)) := rfl

/-- FEXTRA set; FNAME, FCOMMENT, FHCRC clear (FTEXT and the reserved bits are free) -/
structure FlgPlain (flg : UInt8) : Prop where
  extra : flagSet flg 4 = true
  name : flagSet flg 8 = false
  comment : flagSet flg 16 = false
  hcrc : flagSet flg 2 = false

theorem flgPlain_four : FlgPlain 4 := ⟨by decide, by decide, by decide, by decide⟩

theorem hdr18_reads (crc : Bytes → Nat) {flg : UInt8} (hf : FlgPlain flg) (m0 m1 m2 m3 xfl os b0 b1 : UInt8)
    (t : Bytes) :
    readHeader crc (hdr18 flg m0 m1 m2 m3 xfl os b0 b1 ++ t) =
      .ok (⟨flg, leNat [m0, m1, m2, m3], xfl, os, some [0x42, 0x43, 0x02, 0x00, b0, b1], [], []⟩, 18) := by
  have hl : ¬ (t.length + 1 + 1 + 1 + 1 + 1 + 1 < 6) := by omega
  simp [readHeader, readExtra, readHdrCrc, hdr18, readOptString, hf.extra, hf.name, hf.comment, hf.hcrc, hl]

theorem expectedMemberSize_bc (b0 b1 : UInt8) :
    expectedMemberSize (some [0x42, 0x43, 0x02, 0x00, b0, b1]) = some (b0.toNat + 256 * b1.toNat + 1) := by
  simp [expectedMemberSize, findSub, bgzfExtraPrefix, List.isPrefixOf]

theorem hdr18_ok (crc : Bytes → Nat) {flg : UInt8} (hf : FlgPlain flg) (m0 m1 m2 m3 xfl os b0 b1 : UInt8) :
    HeaderOk crc (hdr18 flg m0 m1 m2 m3 xfl os b0 b1) (b0.toNat + 256 * b1.toNat + 1) := by
  constructor
  · intro t
    exact ⟨_, hdr18_reads crc hf m0 m1 m2 m3 xfl os b0 b1 t, expectedMemberSize_bc b0 b1⟩
  · intro k hk
    have hk' : k < 18 := hk
    have : k = 0 ∨ k = 1 ∨ k = 2 ∨ k = 3 ∨ k = 4 ∨ k = 5 ∨ k = 6 ∨ k = 7 ∨ k = 8 ∨ k = 9 ∨ k = 10 ∨ k = 11
        ∨ k = 12 ∨ k = 13 ∨ k = 14 ∨ k = 15 ∨ k = 16 ∨ k = 17 := by omega
    rcases this with rfl | rfl | rfl | rfl | rfl | rfl | rfl | rfl | rfl | rfl | rfl | rfl | rfl | rfl | rfl | rfl | rfl | rfl <;>
      simp [readHeader, readExtra, hdr18, hf.extra]

/-- A member with the default header. -/
structure Canon (m : Member) (m0 m1 m2 m3 xfl os : UInt8) : Prop where
  hdr : m.header = canonHeader m0 m1 m2 m3 xfl os m.size
  small : m.size ≤ 65536

theorem Canon.size_eq {m : Member} {m0 m1 m2 m3 xfl os : UInt8} (hc : Canon m m0 m1 m2 m3 xfl os) :
    m.size = 18 + m.cdata.length + 8 := by
  have := congrArg List.length hc.hdr
  rw [canonHeader_length] at this
  simp [Member.size, this]

theorem Canon.bsize {m : Member} {m0 m1 m2 m3 xfl os : UInt8} (hc : Canon m m0 m1 m2 m3 xfl os) :
    (UInt8.ofNat ((m.size - 1) % 256)).toNat + 256 * (UInt8.ofNat ((m.size - 1) / 256)).toNat + 1 = m.size :=
  bsize_bytes (by rw [hc.size_eq]; omega) hc.small

/-- the bytes of the member with FLG, MTIME, XFL, OS replaced: still a framed member with the same payload -/
theorem readBlock_hdr_fields (q : Quirks) (c : Codec) {m : Member} (hm : m.FramedOk c)
    {m0 m1 m2 m3 xfl os : UInt8} (hc : Canon m m0 m1 m2 m3 xfl os)
    {flg : UInt8} (hf : FlgPlain flg) (a0 a1 a2 a3 x o : UInt8) (t : Bytes) :
    readBlock q c (hdr18 flg a0 a1 a2 a3 x o (UInt8.ofNat ((m.size - 1) % 256)) (UInt8.ofNat ((m.size - 1) / 256))
        ++ (m.body ++ t)) = readBlock q c (m.bytes ++ t) := by
  let m' : Member := { m with header := hdr18 flg a0 a1 a2 a3 x o (UInt8.ofNat ((m.size - 1) % 256)) (UInt8.ofNat ((m.size - 1) / 256)) }
  have hsz : m'.size = m.size := by
    have := hc.size_eq
    simp [m', Member.size, hdr18] at this ⊢
    omega
  have hm' : m'.FramedOk c := by
    refine ⟨?_, hm.crcLen, hm.isizeLen, hm.inflates, hm.crcOk, hm.isizeOk⟩
    have := hdr18_ok c.crc32 hf a0 a1 a2 a3 x o (UInt8.ofNat ((m.size - 1) % 256)) (UInt8.ofNat ((m.size - 1) / 256))
    rw [hc.bsize] at this
    rw [hsz]
    exact this
  have e : hdr18 flg a0 a1 a2 a3 x o (UInt8.ofNat ((m.size - 1) % 256)) (UInt8.ofNat ((m.size - 1) / 256))
      ++ (m.body ++ t) = m'.bytes ++ t := by
    simp [m', Member.bytes, Member.body]
  rw [e, readBlock_framed q c hm', readBlock_framed q c hm]

/-! ### ID1, ID2, CM -/

/-- Altering ID1, ID2 or CM of a member header: `gzip.ErrHeader`. -/
theorem subst_magic (q : Quirks) (c : Codec) {m : Member} {m0 m1 m2 m3 xfl os : UInt8}
    (hc : Canon m m0 m1 m2 m3 xfl os) (o : Nat) (ho : o < 3) (v : UInt8) (hv : m.bytes[o]? ≠ some v) (t : Bytes) :
    readBlock q c (m.bytes.set o v ++ t) = .error .gzHeader := by
  have : o = 0 ∨ o = 1 ∨ o = 2 := by omega
  rcases this with rfl | rfl | rfl <;>
    · simp only [Member.bytes, hc.hdr, canonHeader] at hv ⊢
      simp at hv
      simp [readBlock, readMember, readHeader, Ne.symm hv]

/-! ### FLG -/

/-- Altering FLG so that FEXTRA stays set and FNAME, FCOMMENT, FHCRC stay clear (FTEXT or a reserved bit
changed): exactly the result of the intact member. -/
theorem subst_flg_plain (q : Quirks) (c : Codec) {m : Member} (hm : m.FramedOk c) {m0 m1 m2 m3 xfl os : UInt8}
    (hc : Canon m m0 m1 m2 m3 xfl os) (v : UInt8) (hf : FlgPlain v) (t : Bytes) :
    readBlock q c (m.bytes.set 3 v ++ t) = readBlock q c (m.bytes ++ t) := by
  have e : m.bytes.set 3 v ++ t = hdr18 v m0 m1 m2 m3 xfl os (UInt8.ofNat ((m.size - 1) % 256))
      (UInt8.ofNat ((m.size - 1) / 256)) ++ (m.body ++ t) := by
    simp [Member.bytes, hc.hdr, canonHeader, hdr18]
  rw [e, readBlock_hdr_fields q c hm hc hf]

/-- Altering FLG so that FEXTRA is clear (and FNAME, FCOMMENT, FHCRC clear): no BC subfield is seen,
`ErrNoBlockSize`.  (With FNAME/FCOMMENT/FHCRC set the header parser walks into the following bytes;
the outcome then depends on them and on CRC-32 — enumeration only.) -/
theorem subst_flg_no_extra (q : Quirks) (c : Codec) {m : Member} {m0 m1 m2 m3 xfl os : UInt8}
    (hc : Canon m m0 m1 m2 m3 xfl os) (v : UInt8) (h4 : flagSet v 4 = false) (h8 : flagSet v 8 = false)
    (h16 : flagSet v 16 = false) (h2 : flagSet v 2 = false) (t : Bytes) :
    readBlock q c (m.bytes.set 3 v ++ t) = .error .noBlockSize := by
  simp [Member.bytes, hc.hdr, canonHeader, readBlock, readMember, readHeader, readExtra, readOptString,
    readHdrCrc, h4, h8, h16, h2, expectedMemberSize]

/-! ### MTIME, XFL, OS -/

/-- Altering any byte of MTIME, XFL or OS: exactly the result of the intact member. -/
theorem subst_mtime_xfl_os (q : Quirks) (c : Codec) {m : Member} (hm : m.FramedOk c) {m0 m1 m2 m3 xfl os : UInt8}
    (hc : Canon m m0 m1 m2 m3 xfl os) (o : Nat) (h4 : 4 ≤ o) (h9 : o ≤ 9) (v : UInt8) (t : Bytes) :
    readBlock q c (m.bytes.set o v ++ t) = readBlock q c (m.bytes ++ t) := by
  have : o = 4 ∨ o = 5 ∨ o = 6 ∨ o = 7 ∨ o = 8 ∨ o = 9 := by omega
  rcases this with rfl | rfl | rfl | rfl | rfl | rfl
  · have e : m.bytes.set 4 v ++ t = hdr18 4 v m1 m2 m3 xfl os (UInt8.ofNat ((m.size - 1) % 256))
        (UInt8.ofNat ((m.size - 1) / 256)) ++ (m.body ++ t) := by
      simp [Member.bytes, hc.hdr, canonHeader, hdr18]
    rw [e, readBlock_hdr_fields q c hm hc flgPlain_four]
  · have e : m.bytes.set 5 v ++ t = hdr18 4 m0 v m2 m3 xfl os (UInt8.ofNat ((m.size - 1) % 256))
        (UInt8.ofNat ((m.size - 1) / 256)) ++ (m.body ++ t) := by
      simp [Member.bytes, hc.hdr, canonHeader, hdr18]
    rw [e, readBlock_hdr_fields q c hm hc flgPlain_four]
  · have e : m.bytes.set 6 v ++ t = hdr18 4 m0 m1 v m3 xfl os (UInt8.ofNat ((m.size - 1) % 256))
        (UInt8.ofNat ((m.size - 1) / 256)) ++ (m.body ++ t) := by
      simp [Member.bytes, hc.hdr, canonHeader, hdr18]
    rw [e, readBlock_hdr_fields q c hm hc flgPlain_four]
  · have e : m.bytes.set 7 v ++ t = hdr18 4 m0 m1 m2 v xfl os (UInt8.ofNat ((m.size - 1) % 256))
        (UInt8.ofNat ((m.size - 1) / 256)) ++ (m.body ++ t) := by
      simp [Member.bytes, hc.hdr, canonHeader, hdr18]
    rw [e, readBlock_hdr_fields q c hm hc flgPlain_four]
  · have e : m.bytes.set 8 v ++ t = hdr18 4 m0 m1 m2 m3 v os (UInt8.ofNat ((m.size - 1) % 256))
        (UInt8.ofNat ((m.size - 1) / 256)) ++ (m.body ++ t) := by
      simp [Member.bytes, hc.hdr, canonHeader, hdr18]
    rw [e, readBlock_hdr_fields q c hm hc flgPlain_four]
  · have e : m.bytes.set 9 v ++ t = hdr18 4 m0 m1 m2 m3 xfl v (UInt8.ofNat ((m.size - 1) % 256))
        (UInt8.ofNat ((m.size - 1) / 256)) ++ (m.body ++ t) := by
      simp [Member.bytes, hc.hdr, canonHeader, hdr18]
    rw [e, readBlock_hdr_fields q c hm hc flgPlain_four]

/-! ### XLEN, SI1, SI2, SLEN -/

/-- XLEN (low byte) set to a value below 6: the Extra field no longer holds the whole BC subfield,
`ErrNoBlockSize`.  (A larger XLEN moves the start of the deflate data; the outcome then depends on what
DEFLATE makes of the shifted bytes — enumeration only.) -/
theorem subst_xlen_small (q : Quirks) (c : Codec) {m : Member} {m0 m1 m2 m3 xfl os : UInt8}
    (hc : Canon m m0 m1 m2 m3 xfl os) (n : Nat) (hn : n < 6) (t : Bytes) :
    readBlock q c (m.bytes.set 10 (UInt8.ofNat n) ++ t) = .error .noBlockSize := by
  have f8 : ((4 : UInt8) &&& 8 != 0) = false := by decide
  have f16 : ((4 : UInt8) &&& 16 != 0) = false := by decide
  have f2 : ((4 : UInt8) &&& 2 != 0) = false := by decide
  have l2 : ¬ (m.body.length + t.length + 1 + 1 + 1 + 1 + 1 + 1 < 2) := by omega
  have l3 : ¬ (m.body.length + t.length + 1 + 1 + 1 + 1 + 1 + 1 < 3) := by omega
  have l4 : ¬ (m.body.length + t.length + 1 + 1 + 1 + 1 + 1 + 1 < 4) := by omega
  have l5 : ¬ (m.body.length + t.length + 1 + 1 + 1 + 1 + 1 + 1 < 5) := by omega
  have : n = 0 ∨ n = 1 ∨ n = 2 ∨ n = 3 ∨ n = 4 ∨ n = 5 := by omega
  rcases this with rfl | rfl | rfl | rfl | rfl | rfl <;>
    simp [Member.bytes, hc.hdr, canonHeader, readBlock, readMember, readHeader, readExtra, readOptString,
      readHdrCrc, flagSet, f8, f16, f2, l2, l3, l4, l5, expectedMemberSize, findSub, bgzfExtraPrefix,
      List.isPrefixOf]

/-- Altering SI1, SI2 or either byte of SLEN of the BC subfield: no BC subfield is found,
`ErrNoBlockSize`. -/
theorem subst_subfield (q : Quirks) (c : Codec) {m : Member} {m0 m1 m2 m3 xfl os : UInt8}
    (hc : Canon m m0 m1 m2 m3 xfl os) (o : Nat) (h12 : 12 ≤ o) (h15 : o ≤ 15) (v : UInt8)
    (hv : m.bytes[o]? ≠ some v) (t : Bytes) :
    readBlock q c (m.bytes.set o v ++ t) = .error .noBlockSize := by
  have f8 : ((4 : UInt8) &&& 8 != 0) = false := by decide
  have f16 : ((4 : UInt8) &&& 16 != 0) = false := by decide
  have f2 : ((4 : UInt8) &&& 2 != 0) = false := by decide
  have hl : ¬ (m.body.length + t.length + 1 + 1 + 1 + 1 + 1 + 1 < 6) := by omega
  have : o = 12 ∨ o = 13 ∨ o = 14 ∨ o = 15 := by omega
  rcases this with rfl | rfl | rfl | rfl <;>
    · simp only [Member.bytes, hc.hdr, canonHeader] at hv ⊢
      simp at hv
      simp [readBlock, readMember, readHeader, readExtra, readOptString, readHdrCrc, flagSet, f8, f16, f2, hl,
        expectedMemberSize, findSub, bgzfExtraPrefix, List.isPrefixOf, Ne.symm hv, hv]

/-! ### BSIZE -/

/-- BSIZE altered (either byte, or both) so that it announces FEWER bytes than the member has: the
member is rejected with an error that is not the clean end; no data from it.  (A BSIZE that announces
MORE makes the gzip reader run on into the following members in multistream mode: enumeration only;
there it ends in an error or, when the enlarged block ends exactly at a later member boundary, in the
identical data.) -/
theorem subst_bsize_smaller (c : Codec) (hpd : PrefixDetermined c) {m : Member} (hm : m.FramedOk c)
    {m0 m1 m2 m3 xfl os : UInt8} (hc : Canon m m0 m1 m2 m3 xfl os) (b0 b1 : UInt8)
    (hlt : b0.toNat + 256 * b1.toNat + 1 < m.size) (t : Bytes) :
    ∃ e, e ≠ .eof ∧ readBlock .repaired c (hdr18 4 m0 m1 m2 m3 xfl os b0 b1 ++ (m.body ++ t)) = .error e := by
  have hb := Member.body_length hm
  have hsz := hc.size_eq
  have hr := hdr18_reads c.crc32 flgPlain_four m0 m1 m2 m3 xfl os b0 b1 (m.body ++ t)
  have hdrop : (hdr18 4 m0 m1 m2 m3 xfl os b0 b1 ++ (m.body ++ t)).drop 18 = m.body ++ t :=
    List.drop_left' rfl
  by_cases h18 : b0.toNat + 256 * b1.toNat + 1 ≤ 18
  · -- no room after the header
    refine ⟨.corrupt, by simp, ?_⟩
    rw [readBlock, readMember, hr]
    simp only [expectedMemberSize_bc]
    by_cases he : b0.toNat + 256 * b1.toNat + 1 = 18
    · simp [he, Quirks.repaired]
    · have : b0.toNat + 256 * b1.toNat + 1 < 18 := by omega
      simp [he, this]
  · -- the body is cut short
    have hneed : b0.toNat + 256 * b1.toNat + 1 - 18 < m.body.length := by omega
    have h1 : ¬ b0.toNat + 256 * b1.toNat + 1 = 18 := by omega
    have h2 : ¬ b0.toNat + 256 * b1.toNat + 1 < 18 := by omega
    have hav : (m.body ++ t).length ≥ b0.toNat + 256 * b1.toNat + 1 - 18 := by
      rw [List.length_append]; omega
    have hf : readMember .repaired c (hdr18 4 m0 m1 m2 m3 xfl os b0 b1 ++ (m.body ++ t)) =
        .ok ⟨⟨4, leNat [m0, m1, m2, m3], xfl, os, some [0x42, 0x43, 0x02, 0x00, b0, b1], [], []⟩,
          (m.body ++ t).take (b0.toNat + 256 * b1.toNat + 1 - 18),
          (m.body ++ t).drop (b0.toNat + 256 * b1.toNat + 1 - 18)⟩ := by
      rw [readMember, hr]
      simp only [expectedMemberSize_bc, h1, h2, if_false, hdrop, hav, if_true]
    have htk : (m.body ++ t).take (b0.toNat + 256 * b1.toNat + 1 - 18)
        = m.body.take (b0.toNat + 256 * b1.toNat + 1 - 18) :=
      List.take_append_of_le_length (by omega)
    rw [htk] at hf
    -- the gzip reader fails on the shortened body
    have hg : ∃ x, gzBody c (m.body.take (b0.toNat + 256 * b1.toNat + 1 - 18)) = .error x := by
      generalize hn : b0.toNat + 256 * b1.toNat + 1 - 18 = n at hneed
      rw [gzBody]
      cases hi : c.inflate (m.body.take n) with
      | fail code produced => exact ⟨_, rfl⟩
      | ok p u =>
        simp only
        have hlen : (m.body.take n).length = n := by rw [List.length_take]; omega
        by_cases hu : u ≤ n
        · -- the decoder would give the same answer on the whole body: so it used all of cdata
          have := hpd (m.body.take n) m.body p u hi (by omega) (by omega)
            (by rw [List.take_take]; congr 1; omega)
          rw [hm.inflates] at this
          injection this with _ hu'
          subst hu'
          have : ((m.body.take n).drop m.cdata.length).length < 8 := by
            rw [List.length_drop, hlen]; omega
          simp only [this, dite_true]
          exact ⟨_, rfl⟩
        · have : ((m.body.take n).drop u).length < 8 := by
            rw [List.length_drop, hlen]; omega
          simp only [this, dite_true]
          exact ⟨_, rfl⟩
    obtain ⟨x, hx⟩ := hg
    exact readBlock_of_gzBody_error .repaired c hf hx

/-! ### CRC-32 and ISIZE -/

/-- the header of a framed member followed by ANY body of the right length is framed as that body -/
theorem readMember_header_body (q : Quirks) (c : Codec) {m : Member} (hm : m.FramedOk c) (body' : Bytes)
    (hl : body'.length = m.cdata.length + 8) (t : Bytes) :
    ∃ hd, readMember q c (m.header ++ (body' ++ t)) = .ok ⟨hd, body', t⟩ := by
  obtain ⟨hd, hr, hs⟩ := hm.hdrOk.reads (body' ++ t)
  refine ⟨hd, ?_⟩
  have hdrop : (m.header ++ (body' ++ t)).drop m.header.length = body' ++ t := List.drop_left
  have hsz : m.size - m.header.length = body'.length := by simp [Member.size, hl]; omega
  have h1 : ¬ m.size = m.header.length := by simp [Member.size]; omega
  have h2 : ¬ m.size < m.header.length := by simp [Member.size]; omega
  rw [readMember, hr]
  simp only [hs, h1, h2, if_false, hdrop, hsz]
  simp

/-- The trailer replaced by eight bytes whose CRC-32 field or whose ISIZE field has another value (in
particular: any single byte of the trailer altered): the gzip reader's verification fails; an error
that is not the clean end, no data from the member.  Needs only that the deflate decoder does not look
beyond the bytes it uses. -/
theorem subst_trailer (q : Quirks) (c : Codec) (hpd : PrefixDetermined c) {m : Member} (hm : m.FramedOk c)
    (tr' : Bytes) (hlen : tr'.length = 8)
    (hne : leNat (tr'.take 4) ≠ leNat m.crc ∨ leNat (tr'.drop 4) ≠ leNat m.isize) (t : Bytes) :
    ∃ e, e ≠ .eof ∧ readBlock q c (m.header ++ ((m.cdata ++ tr') ++ t)) = .error e := by
  obtain ⟨hd, hf⟩ := readMember_header_body q c hm (m.cdata ++ tr') (by simp [hlen]) t
  have hinf : c.inflate (m.cdata ++ tr') = .ok m.payload m.cdata.length := by
    apply hpd m.body (m.cdata ++ tr') m.payload m.cdata.length hm.inflates
    · simp [Member.body]
    · simp
    · simp [Member.body]
  have hdrop : (m.cdata ++ tr').drop m.cdata.length = tr' := List.drop_left
  have l8 : ¬ tr'.length < 8 := by omega
  have t44 : (tr'.drop 4).take 4 = tr'.drop 4 := List.take_of_length_le (by rw [List.length_drop]; omega)
  have hck : leNat (tr'.take 4) ≠ c.crc32 m.payload ∨ leNat ((tr'.drop 4).take 4) ≠ m.payload.length % 4294967296 := by
    rw [t44, ← hm.crcOk, ← hm.isizeOk]; exact hne
  have hg : gzBody c (m.cdata ++ tr') = .error (.gzChecksum, m.payload.length) := by
    rw [gzBody, hinf]
    simp only [hdrop, l8, dite_false, hck, if_true]
  exact readBlock_of_gzBody_error q c hf hg

/-- a single byte of the trailer altered -/
theorem subst_trailer_byte (q : Quirks) (c : Codec) (hpd : PrefixDetermined c) {m : Member} (hm : m.FramedOk c)
    (j : Nat) (hj : j < 8) (v : UInt8) (hv : (m.crc ++ m.isize)[j]? ≠ some v) (t : Bytes) :
    ∃ e, e ≠ .eof ∧ readBlock q c (m.header ++ ((m.cdata ++ (m.crc ++ m.isize).set j v) ++ t)) = .error e := by
  apply subst_trailer q c hpd hm _ (by simp [hm.crcLen, hm.isizeLen])
  have hcl := hm.crcLen
  have hil := hm.isizeLen
  by_cases h4 : j < 4
  · left
    have e : ((m.crc ++ m.isize).set j v).take 4 = m.crc.set j v := by
      rw [List.set_append_left _ _ (by omega), List.take_left' (by simp [hcl])]
    rw [e]
    intro hc
    have := leNat_set_eq (by omega) hc
    rw [List.getElem?_append_left (by omega)] at hv
    exact hv this
  · right
    have e : ((m.crc ++ m.isize).set j v).drop 4 = m.isize.set (j - 4) v := by
      rw [List.set_append_right _ _ (by omega), hcl, List.drop_left' hcl]
    rw [e]
    intro hc
    have := leNat_set_eq (by omega) hc
    rw [List.getElem?_append_right (by omega), hcl] at hv
    exact hv this

/-! ### at any place of a stream -/

/-- members before the altered one are read as before; then the altered member's outcome -/
theorem readAll_after_prefix_error (q : Quirks) (c : Codec) {pre : List Member} (hwf : ∀ m ∈ pre, m.WellFramed c)
    {x : Bytes} {e : Err} (h : readBlock q c x = .error e) :
    readAll q c (stream pre ++ x) = (data pre, e) := by
  rw [readAll_stream_append q c hwf, readAll_of_error h]
  simp

/-- an alteration that leaves the member's own result unchanged leaves the whole stream's result unchanged -/
theorem readAll_after_prefix_same (q : Quirks) (c : Codec) {pre : List Member} (hwf : ∀ m ∈ pre, m.WellFramed c)
    {x y : Bytes} (h : readBlock q c x = readBlock q c y) :
    readAll q c (stream pre ++ x) = readAll q c (stream pre ++ y) := by
  rw [readAll_stream_append q c hwf, readAll_stream_append q c hwf, readAll_eq q c x, readAll_eq q c y, h]

/-- the byte at stream position `p` lies in exactly one member: the stream splits around it -/
theorem stream_set_split {c : Codec} {ms : List Member} (hwf : ∀ m ∈ ms, m.WellFramed c) (p : Nat)
    (hp : p < (stream ms).length) (v : UInt8) :
    ∃ pre m post o, ms = pre ++ m :: post ∧ o < m.bytes.length ∧ p = (stream pre).length + o ∧
      (stream ms).set p v = stream pre ++ (m.bytes.set o v ++ stream post) := by
  induction ms generalizing p with
  | nil => simp [stream] at hp
  | cons m ms ih =>
    have hm := hwf m (by simp)
    by_cases hlt : p < m.bytes.length
    · refine ⟨[], m, ms, p, rfl, hlt, by simp [stream], ?_⟩
      rw [stream_cons, List.set_append_left _ _ hlt]
      simp [stream]
    · have hp' : p - m.bytes.length < (stream ms).length := by
        rw [stream_cons, List.length_append] at hp; omega
      obtain ⟨pre, m', post, o, hms, ho, hpo, hset⟩ := ih (fun x hx => hwf x (by simp [hx])) (p - m.bytes.length) hp'
      refine ⟨m :: pre, m', post, o, by rw [hms]; rfl, ho, ?_, ?_⟩
      · rw [stream_cons, List.length_append]; omega
      · rw [stream_cons, List.set_append_right _ _ (by omega), hset, stream_cons, List.append_assoc]

end Hts.Lemmas.BgzfBytes
