/-
The byte-level consumer over the read-ahead protocol WITH faults: every execution is an execution of the
operational fault model of C09 (Model/BgzfReaderFaults.lean) for some fault oracle.
-/
import Hts.Lemmas.ReaderOverLTSCall
import Hts.Model.BgzfReaderFaults
namespace Hts.Model.ReadAhead
variable {cfg : Cfg}

/-! ### With faults: a call installs a block at the base asked for -/

/-- The call loads at base `e`. -/
def Tgt (c0 : Blk) : Call → Nat → Prop
  | .next, e => c0.next = some e
  | .seek off, e => e = off ∧ ¬ (c0.base = some off ∧ good c0 = true)

/-- The call returns without a load (`nextBlock` on a failed block; `Seek` inside the current block). -/
def NoLoad (c0 : Blk) : Call → Prop
  | .next => c0.next = none
  | .seek off => c0.base = some off ∧ good c0 = true

/-- The current block after the call. -/
def Installs (c0 : Blk) (cl : Call) (b : Blk) : Prop := (b = c0 ∧ NoLoad c0 cl) ∨ ∃ e, Tgt c0 cl e ∧ b.base = some e

/-- As `Ph`, for any fault pattern: only the base of the block installed is tracked. -/
def PhB (c0 : Blk) (cl : Call) (rest : List Op) (u : State) : Prop :=
  (u.cons = .idle ∧ u.script = cl.op :: rest ∧ u.cur = c0) ∨
  (u.script = rest ∧ ∃ e, Tgt c0 cl e ∧
      ((∃ i, u.cons = .scan e i) ∨ u.cons = .fetch e ∨ u.cons = .sel e ∨ u.cons = .sync e ∨
       ((u.cons = .drain e ∨ u.cons = .send e) ∧ u.cur.base = some e))) ∨
  (u.script = rest ∧ (∃ ok, u.cons = .ret ok) ∧ Installs c0 cl u.cur) ∨
  (u.script = rest ∧ u.cons = .idle ∧ Installs c0 cl u.cur) ∨
  u.cons = .panicked ∨
  u.script.length < rest.length

theorem phb_wk {c0 : Blk} {cl : Call} {rest : List Op} {u v : State} {f : Bool} {e : Option Ev}
    (hp : PhB c0 cl rest u) (h : wkStep cfg u f = some (e, v)) : PhB c0 cl rest v := by
  obtain ⟨hc, hcur, -, -, hs, -⟩ := wk_frame h
  unfold PhB at *
  rw [hc, hcur, hs]; exact hp

theorem phb_api {c0 : Blk} {cl : Call} {rest : List Op} {u v : State} {c f : Bool} {e : Option Ev}
    (hn : Op.nexts ∉ rest)
    (hp : PhB c0 cl rest u) (h : apiStep cfg u c f = some (e, v)) : PhB c0 cl rest v := by
  have hlen := script_len_le (l := .api c f) h
  rcases hp with ⟨hc, hs, hcur⟩ | ⟨hs, e0, htgt, hcons⟩ | ⟨hs, ⟨ok, hc⟩, hcur⟩ | ⟨hs, hc, hcur⟩ | hc | hl
  · -- not started
    unfold apiStep at h
    simp only [hc, hs] at h
    by_cases hff : f = true
    · simp [hff] at h
    simp only [hff, if_false, Bool.false_eq_true] at h
    by_cases hch : c = true
    · cases cl <;> simp [Call.op, hch] at h
    cases cl with
    | next =>
      simp only [Call.op, hch, if_false, Bool.false_eq_true] at h
      cases hnx : u.cur.next with
      | some b =>
        simp only [hnx, Option.some.injEq, Prod.mk.injEq] at h
        obtain ⟨-, rfl⟩ := h
        exact Or.inr (Or.inl ⟨rfl, b, (by rw [← hcur]; exact hnx : c0.next = some b), Or.inl ⟨0, rfl⟩⟩)
      | none =>
        simp only [hnx, Option.some.injEq, Prod.mk.injEq] at h
        obtain ⟨-, rfl⟩ := h
        exact Or.inr (Or.inr (Or.inl ⟨rfl, ⟨false, rfl⟩, Or.inl ⟨hcur, (by rw [← hcur]; exact hnx : c0.next = none)⟩⟩))
    | seek off =>
      simp only [Call.op, hch, if_false, Bool.false_eq_true] at h
      by_cases hfast : u.cur.base = some off ∧ good u.cur = true
      · simp only [hfast, and_self, if_true, Option.some.injEq, Prod.mk.injEq] at h
        obtain ⟨-, rfl⟩ := h
        exact Or.inr (Or.inr (Or.inl ⟨rfl, ⟨true, rfl⟩, Or.inl ⟨hcur, (by rw [← hcur]; exact hfast : c0.base = some off ∧ good c0 = true)⟩⟩))
      · simp only [hfast, if_false, Option.some.injEq, Prod.mk.injEq] at h
        obtain ⟨-, rfl⟩ := h
        exact Or.inr (Or.inl ⟨rfl, off, (⟨rfl, by rw [← hcur]; exact hfast⟩ : off = off ∧ ¬ (c0.base = some off ∧ good c0 = true)),
          Or.inr (Or.inr (Or.inl rfl))⟩)
  · -- inside the call
    have hs' : v.script = rest := by
      have hne : u.cons ≠ .idle := by
        rcases hcons with ⟨i, h1⟩ | h1 | h1 | h1 | ⟨h1 | h1, _⟩ <;> rw [h1] <;> simp
      rw [script_same h hne, hs]
    unfold apiStep at h
    rcases hcons with ⟨i, hc⟩ | hc | hc | hc | ⟨hc | hc, hb⟩
    · -- scan
      simp only [hc] at h
      by_cases hcf : (c || f) = true
      · simp [hcf] at h
      simp only [hcf, if_false, Bool.false_eq_true] at h
      cases hw : u.working with
      | nil => simp [hw] at h
      | cons b wr =>
        simp only [hw] at h
        by_cases hbe : b.base = some e0
        · simp only [hbe, if_true, Option.some.injEq, Prod.mk.injEq] at h
          obtain ⟨-, rfl⟩ := h
          exact Or.inr (Or.inr (Or.inl ⟨hs', ⟨_, rfl⟩, Or.inr ⟨e0, htgt, hbe⟩⟩))
        · simp only [hbe, if_false] at h
          by_cases hbn : b.next = none
          · simp only [hbn, if_true, Option.some.injEq, Prod.mk.injEq] at h
            obtain ⟨-, rfl⟩ := h
            exact Or.inr (Or.inl ⟨hs', e0, htgt, Or.inr (Or.inl rfl)⟩)
          · simp only [hbn, if_false] at h
            by_cases hi : i + 1 = cfg.rd
            · simp only [hi, if_true, Option.some.injEq, Prod.mk.injEq] at h
              obtain ⟨-, rfl⟩ := h
              exact Or.inr (Or.inr (Or.inr (Or.inr (Or.inl rfl))))
            · simp only [hi, if_false, Option.some.injEq, Prod.mk.injEq] at h
              obtain ⟨-, rfl⟩ := h
              exact Or.inr (Or.inl ⟨hs', e0, htgt, Or.inl ⟨i + 1, rfl⟩⟩)
    · -- fetch
      simp only [hc] at h
      by_cases hch : c = true
      · simp [hch] at h
      simp only [hch, if_false, Bool.false_eq_true] at h
      cases hl : doLoad cfg u (some e0) f with
      | none => simp [hl] at h
      | some r =>
        obtain ⟨b, hd, ev'⟩ := r
        simp only [hl, Option.some.injEq, Prod.mk.injEq] at h
        obtain ⟨-, rfl⟩ := h
        exact Or.inr (Or.inl ⟨hs', e0, htgt, Or.inr (Or.inr (Or.inr (Or.inr ⟨Or.inl rfl, doLoad_base hl⟩)))⟩)
    · -- sel
      simp only [hc] at h
      by_cases hff : f = true
      · simp [hff] at h
      simp only [hff, if_false, Bool.false_eq_true] at h
      by_cases hch : c = true
      · simp only [hch, if_true] at h
        cases hw : u.working with
        | nil => simp [hw] at h
        | cons b wr =>
          simp only [hw] at h
          by_cases hg : good b = true ∧ b.base = some e0
          · simp only [hg, and_self, if_true, Option.some.injEq, Prod.mk.injEq] at h
            obtain ⟨-, rfl⟩ := h
            exact Or.inr (Or.inl ⟨hs', e0, htgt, Or.inr (Or.inr (Or.inr (Or.inr ⟨Or.inl rfl, hg.2⟩)))⟩)
          · simp only [hg, if_false, Option.some.injEq, Prod.mk.injEq] at h
            obtain ⟨-, rfl⟩ := h
            exact Or.inr (Or.inl ⟨hs', e0, htgt, Or.inr (Or.inr (Or.inr (Or.inl rfl)))⟩)
      · simp only [hch, if_false, Bool.false_eq_true] at h
        by_cases hwt : 0 < u.waiting
        · simp only [hwt, if_true, Option.some.injEq, Prod.mk.injEq] at h
          obtain ⟨-, rfl⟩ := h
          exact Or.inr (Or.inl ⟨hs', e0, htgt, Or.inr (Or.inr (Or.inr (Or.inl rfl)))⟩)
        · simp [hwt] at h
    · -- sync
      simp only [hc] at h
      by_cases hch : c = true
      · simp [hch] at h
      simp only [hch, if_false, Bool.false_eq_true] at h
      cases hl : doLoad cfg u (some e0) f with
      | none => simp [hl] at h
      | some r =>
        obtain ⟨b, hd, ev'⟩ := r
        simp only [hl, Option.some.injEq, Prod.mk.injEq] at h
        obtain ⟨-, rfl⟩ := h
        exact Or.inr (Or.inl ⟨hs', e0, htgt, Or.inr (Or.inr (Or.inr (Or.inr ⟨Or.inl rfl, doLoad_base hl⟩)))⟩)
    · -- drain
      simp only [hc] at h
      by_cases hcf : (c || f) = true
      · simp [hcf] at h
      simp only [hcf, if_false, Bool.false_eq_true, Option.some.injEq, Prod.mk.injEq] at h
      obtain ⟨-, rfl⟩ := h
      exact Or.inr (Or.inl ⟨hs', e0, htgt, Or.inr (Or.inr (Or.inr (Or.inr ⟨Or.inr rfl, hb⟩)))⟩)
    · -- send
      simp only [hc] at h
      by_cases hcf : (c || f) = true
      · simp [hcf] at h
      simp only [hcf, if_false, Bool.false_eq_true] at h
      cases hctl : u.control with
      | some x => simp [hctl] at h
      | none =>
        simp only [hctl, Option.some.injEq, Prod.mk.injEq] at h
        obtain ⟨-, rfl⟩ := h
        exact Or.inr (Or.inr (Or.inl ⟨hs', ⟨_, rfl⟩, Or.inr ⟨e0, htgt, hb⟩⟩))
  · -- returning
    have hs' : v.script = rest := by rw [script_same h (by rw [hc]; simp), hs]
    unfold apiStep at h
    simp only [hc] at h
    by_cases hcf : (c || f) = true
    · simp [hcf] at h
    simp only [hcf, if_false, Bool.false_eq_true, Option.some.injEq, Prod.mk.injEq] at h
    obtain ⟨-, rfl⟩ := h
    exact Or.inr (Or.inr (Or.inr (Or.inl ⟨hs', rfl, hcur⟩)))
  · -- returned: the next step of the consumer starts the next call
    refine Or.inr (Or.inr (Or.inr (Or.inr (Or.inr ?_))))
    unfold apiStep at h
    simp only [hc] at h
    by_cases hff : f = true
    · simp [hff] at h
    simp only [hff, if_false, Bool.false_eq_true] at h
    cases hr : rest with
    | nil => simp [hs, hr] at h
    | cons op rest' =>
      rw [hr] at hn
      simp only [hs, hr] at h
      cases op with
      | nexts => exact absurd (by simp) hn
      | _ => simp only at h; step_cases h <;> simp
  · -- trap: panicked
    unfold apiStep at h
    simp [hc] at h
  · exact Or.inr (Or.inr (Or.inr (Or.inr (Or.inr (Nat.lt_of_le_of_lt hlen hl)))))


theorem phb_path {c0 : Blk} {cl : Call} {rest : List Op} {s t : State}
    (hn : Op.nexts ∉ rest) (hp : PhB c0 cl rest s) (h : Path cfg s t) : PhB c0 cl rest t := by
  induction h with
  | refl => exact hp
  | tail hsu hst ih =>
    obtain ⟨l, e, hnx⟩ := hst
    cases l with
    | api c f => exact phb_api hn ih hnx
    | wk f => exact phb_wk ih hnx

/-- **One call, every interleaving, every fault pattern.**  When the consumer is back between calls the current
block is the old one (no load was made) or a block at the base asked for. -/
theorem call_installs_base {cl : Call} {rest : List Op} {s t : State}
    (hc : s.cons = .idle) (hs : s.script = cl.op :: rest) (hn : Op.nexts ∉ rest)
    (hp : Path cfg s t) (htc : t.cons = .idle) (hts : t.script = rest) : Installs s.cur cl t.cur := by
  have := phb_path hn (Or.inl ⟨hc, hs, rfl⟩) hp
  rcases this with ⟨_, h2, _⟩ | ⟨_, e0, _, hcons⟩ | ⟨_, ⟨ok, h2⟩, _⟩ | ⟨_, _, h3⟩ | h2 | h2
  · rw [hts] at h2
    have := congrArg List.length h2
    simp at this
  · rcases hcons with ⟨i, h1⟩ | h1 | h1 | h1 | ⟨h1 | h1, _⟩ <;> rw [htc] at h1 <;> cases h1
  · rw [htc] at h2; cases h2
  · exact h3
  · rw [htc] at h2; cases h2
  · rw [hts] at h2; exact absurd h2 (Nat.lt_irrefl _)

/-! ### The program run with an oracle is the operational fault model -/

open Hts.Model.Bgzf
open Hts.Spec.Flat (Offset Chunk)

/-- One load attempt at `e` through the oracle, on identities (as `FReader.loadAt`). -/
def popF (F : File) (e : Nat) (orc : List LoadFault) : (Block × Option Err) × Blk × List LoadFault :=
  match orc with
  | .err :: rest => ((Block.failed e, some .other), ⟨some e, none⟩, rest)
  | .eof :: rest => ((Block.failed e, some .eof), ⟨some e, none⟩, rest)
  | .ok :: rest => (blockOf F ⟨some e, chainOf F e⟩, ⟨some e, chainOf F e⟩, rest)
  | [] => (blockOf F ⟨some e, chainOf F e⟩, ⟨some e, chainOf F e⟩, [])

def respF (F : File) (c : Blk) : Call → List LoadFault → (Block × Option Err) × Blk × List LoadFault
  | .next, orc => popF F (c.next.getD (c.base.getD 0)) orc
  | .seek off, orc => if c.base = some off ∧ good c = true then (blockOf F c, c, orc) else popF F off orc

def Prog.seqF {α : Type} (F : File) : Prog α → Blk → List LoadFault → α × Blk × List LoadFault
  | .done a, c, orc => (a, c, orc)
  | .call cl k, c, orc => (k (respF F c cl orc).1).seqF F (respF F c cl orc).2.1 (respF F c cl orc).2.2

theorem Prog.seqF_bind {α β : Type} (F : File) (p : Prog α) (f : α → Prog β) (c : Blk) (orc : List LoadFault) :
    (p.bind f).seqF F c orc =
      (f (p.seqF F c orc).1).seqF F (p.seqF F c orc).2.1 (p.seqF F c orc).2.2 := by
  induction p generalizing c orc with
  | done a => rfl
  | call cl k ih => simp only [Prog.bind, Prog.seqF]; exact ih _ _ _

theorem tgt_next (b : Block) : (blkOf b).next.getD ((blkOf b).base.getD 0) = b.nextBase := by
  by_cases hd : b.hasData = true
  · simp [blkOf, hd]
  · have hd' : b.hasData = false := by simpa using hd
    have hh : b.hsize = 0 := by simpa [Block.hasData] using hd'
    simp [blkOf, hd', Block.nextBase, hh]

theorem popF_loadAt {F : File} (hwf : WF F) (x : FReader) (hf : x.r.file = F) (e : Nat) :
    popF F e x.oracle =
      (((x.loadAt e).1.r.cur, (x.loadAt e).2), blkOf (x.loadAt e).1.r.cur, (x.loadAt e).1.oracle) ∧
    (x.loadAt e).1.r = { x.r with cur := (x.loadAt e).1.r.cur } := by
  obtain ⟨r, orc⟩ := x
  simp only at hf
  subst hf
  have hb := blockOf_load r.file r.cur e
  have hl := blkOf_load hwf r.cur e
  cases orc with
  | nil => simp only [popF, FReader.loadAt, hb, hl]; constructor <;> first | rfl | trivial
  | cons f rest =>
    cases f with
    | ok => simp only [popF, FReader.loadAt, hb, hl]; constructor <;> first | rfl | trivial
    | err => simp only [popF, FReader.loadAt]; constructor <;> first | rfl | trivial
    | eof => simp only [popF, FReader.loadAt]; constructor <;> first | rfl | trivial

theorem gNextBlock_seqF {F : File} (hwf : WF F) (x : FReader) (hf : x.r.file = F) :
    (gNextBlock x.r).seqF F (blkOf x.r.cur) x.oracle =
      ((x.nextBlock.1.r, x.nextBlock.2), blkOf x.nextBlock.1.r.cur, x.nextBlock.1.oracle) ∧
    x.nextBlock.1.r.file = F := by
  have h := popF_loadAt hwf x hf x.r.cur.nextBase
  simp only [gNextBlock, Prog.seqF, respF, tgt_next, FReader.nextBlock, h.1]
  refine ⟨?_, by rw [h.2]; exact hf⟩
  conv => rhs; rw [h.2]

theorem gSkipEmpty_seqF {F : File} (hwf : WF F) : ∀ (fuel : Nat) (x : FReader), x.r.file = F →
    (gSkipEmpty fuel x.r).seqF F (blkOf x.r.cur) x.oracle =
      ((x.skipEmpty fuel).r, blkOf (x.skipEmpty fuel).r.cur, (x.skipEmpty fuel).oracle) ∧
    (x.skipEmpty fuel).r.file = F := by
  intro fuel
  induction fuel with
  | zero => intro x hf; exact ⟨rfl, hf⟩
  | succ fuel ih =>
    intro x hf
    simp only [gSkipEmpty, FReader.skipEmpty]
    split
    · have hn := gNextBlock_seqF hwf x hf
      rw [Prog.seqF_bind, hn.1]
      rcases hnb : x.nextBlock with ⟨x', e⟩
      rw [hnb] at hn
      cases e with
      | some e => exact ⟨rfl, hn.2⟩
      | none => exact ih (x'.withR fun r => { r with err := none }) hn.2
    · exact ⟨rfl, hf⟩

theorem gReadLoop_seqF {F : File} (hwf : WF F) : ∀ (fuel : Nat) (x : FReader) (want : Nat), x.r.file = F →
    (gReadLoop fuel x.r want).seqF F (blkOf x.r.cur) x.oracle =
      (((x.readLoop fuel want).1.r, (x.readLoop fuel want).2.1, (x.readLoop fuel want).2.2),
        blkOf (x.readLoop fuel want).1.r.cur, (x.readLoop fuel want).1.oracle) ∧
    (x.readLoop fuel want).1.r.file = F := by
  intro fuel
  induction fuel with
  | zero => intro x want hf; exact ⟨rfl, hf⟩
  | succ fuel ih =>
    intro x want hf
    obtain ⟨⟨rf, rc, rl, re, rb⟩, orc⟩ := x
    simp only at hf
    simp only [gReadLoop, FReader.readLoop]
    split
    · have hb : blkOf (rc.read want).2.2 = blkOf rc := blkOf_read rc want
      rcases hrd : rc.read want with ⟨out, eof, b⟩
      rw [hrd] at hb
      simp only at hb
      cases eof with
      | false =>
        simp only [FReader.withR]
        have := ih ⟨⟨rf, b, rl, re, rb⟩, orc⟩ (want - out.length) hf
        simp only [hb] at this
        rw [Prog.seqF_bind, this.1]
        exact ⟨rfl, this.2⟩
      | true =>
        simp only [FReader.withR]
        by_cases h0 : want - out.length = 0
        · simp only [h0, if_true, Prog.seqF, Reader.setEnd, hb]
          exact ⟨trivial, hf⟩
        · simp only [h0, if_false]
          cases rb with
          | true =>
            simp only [if_true, Prog.seqF, Reader.setEnd, hb]
            exact ⟨trivial, hf⟩
          | false =>
            simp only [Bool.false_eq_true, if_false]
            have hn := gNextBlock_seqF hwf ⟨⟨rf, b, rl, some Err.eof, false⟩, orc⟩ hf
            simp only [hb] at hn
            rw [Prog.seqF_bind, hn.1]
            rcases hnb : (⟨⟨rf, b, rl, some Err.eof, false⟩, orc⟩ : FReader).nextBlock with ⟨x', e⟩
            rw [hnb] at hn
            cases e with
            | some e => exact ⟨rfl, hn.2⟩
            | none =>
              simp only
              have := ih (x'.withR fun r => { r with err := none }) (want - out.length) hn.2
              simp only [FReader.withR] at this
              rw [Prog.seqF_bind, this.1]
              exact ⟨rfl, this.2⟩
    · exact ⟨rfl, hf⟩

theorem gRead_seqF {F : File} (hwf : WF F) (x : FReader) (hf : x.r.file = F) (n : Nat) :
    (gRead x.r n).seqF F (blkOf x.r.cur) x.oracle =
      (((x.read n).1.r, (x.read n).2.1, (x.read n).2.2), blkOf (x.read n).1.r.cur, (x.read n).1.oracle) ∧
    (x.read n).1.r.file = F := by
  simp only [gRead, FReader.read]
  cases he : x.r.err with
  | some e => exact ⟨rfl, hf⟩
  | none =>
    simp only
    have hs := gSkipEmpty_seqF hwf x.r.skipFuel x hf
    rw [Prog.seqF_bind, hs.1]
    simp only
    generalize x.skipEmpty x.r.skipFuel = x1 at hs ⊢
    obtain ⟨⟨rf, rc, rl, re, rb⟩, orc⟩ := x1
    cases re with
    | some e => exact ⟨rfl, hs.2⟩
    | none => exact gReadLoop_seqF hwf _ ⟨⟨rf, rc, ⟨rc.tx, rl.fin⟩, none, rb⟩, orc⟩ n hs.2

theorem gReadByte_seqF {F : File} (hwf : WF F) (x : FReader) (hf : x.r.file = F) :
    (gReadByte x.r).seqF F (blkOf x.r.cur) x.oracle =
      ((x.readByte.1.r, x.readByte.2.1, x.readByte.2.2), blkOf x.readByte.1.r.cur, x.readByte.1.oracle) ∧
    x.readByte.1.r.file = F := by
  simp only [gReadByte, FReader.readByte]
  cases he : x.r.err with
  | some e => exact ⟨rfl, hf⟩
  | none =>
    simp only
    have hs := gSkipEmpty_seqF hwf x.r.skipFuel x hf
    rw [Prog.seqF_bind, hs.1]
    simp only
    generalize x.skipEmpty x.r.skipFuel = x1 at hs ⊢
    obtain ⟨⟨rf, rc, rl, re, rb⟩, orc⟩ := x1
    cases re with
    | some e => exact ⟨rfl, hs.2⟩
    | none =>
      simp only [FReader.withR]
      have hb : blkOf rc.readByte.2.2 = blkOf rc := blkOf_readByte rc
      rcases hrd : rc.readByte with ⟨c, eof, b⟩
      rw [hrd] at hb
      simp only at hb
      cases eof with
      | false => simp only [Prog.seqF, Reader.setEnd, hb]; exact ⟨trivial, hs.2⟩
      | true =>
        simp only
        cases rb with
        | true => simp only [if_true, Prog.seqF, Reader.setEnd, hb]; exact ⟨trivial, hs.2⟩
        | false =>
          simp only [Bool.false_eq_true, if_false]
          have hn := gNextBlock_seqF hwf ⟨⟨rf, b, ⟨rc.tx, rl.fin⟩, some Err.eof, false⟩, orc⟩ hs.2
          simp only [hb] at hn
          rw [Prog.seqF_bind, hn.1]
          exact ⟨rfl, hn.2⟩

theorem gSeek_seqF {F : File} (hwf : WF F) (x : FReader) (hf : x.r.file = F) (off : Offset) :
    (gSeek x.r off).seqF F (blkOf x.r.cur) x.oracle =
      (((x.seek off).1.r, (x.seek off).2), blkOf (x.seek off).1.r.cur, (x.seek off).1.oracle) ∧
    (x.seek off).1.r.file = F := by
  simp only [gSeek, FReader.seek]
  split
  · rename_i h
    have hn : ¬ ((blkOf x.r.cur).base = some off.file ∧ good (blkOf x.r.cur) = true) := by
      rintro ⟨h1, h2⟩
      rcases h with h | h
      · simp [blkOf] at h1; exact h h1.symm
      · simp [blkOf, good, h] at h2
    have hp := popF_loadAt hwf x hf off.file
    simp only [Prog.seqF, respF, hn, if_false, hp.1]
    rcases hl : x.loadAt off.file with ⟨x', e⟩
    rw [hl] at hp
    simp only at hp
    have hf' : x'.r.file = F := by rw [hp.2]; exact hf
    cases e with
    | some e =>
      simp only [Prog.seqF, FReader.withR]
      refine ⟨?_, hf'⟩
      conv => rhs; rw [hp.2]
    | none =>
      simp only [Prog.seqF, FReader.withR]
      refine ⟨?_, hf'⟩
      conv => rhs; rw [hp.2]
      rfl
  · rename_i h
    have h1 : off.file = x.r.cur.base := by
      apply Classical.byContradiction; intro hh; exact h (Or.inl hh)
    have h2 : x.r.cur.hasData = true := by
      cases hd : x.r.cur.hasData with
      | true => rfl
      | false => exact absurd (Or.inr hd) h
    have hy : (blkOf x.r.cur).base = some off.file ∧ good (blkOf x.r.cur) = true := by
      simp [blkOf, good, h1, h2]
    simp only [Prog.seqF, respF, hy, and_self, if_true, FReader.withR]
    exact ⟨rfl, hf⟩

theorem gStepF_seqF {F : File} (hwf : WF F) (x : FReader) (hf : x.r.file = F) (op : Hts.Spec.Flat.Op) :
    (gStepF x.r op).seqF F (blkOf x.r.cur) x.oracle =
      (((x.step op).1.r, (x.step op).2), blkOf (x.step op).1.r.cur, (x.step op).1.oracle) ∧
    (x.step op).1.r.file = F := by
  cases op with
  | read n =>
    have h := gRead_seqF hwf x hf n
    simp only [gStepF, FReader.step, Prog.seqF_bind, h.1]
    exact ⟨rfl, h.2⟩
  | readByte =>
    have h := gReadByte_seqF hwf x hf
    simp only [gStepF, FReader.step, Prog.seqF_bind, h.1]
    exact ⟨rfl, h.2⟩
  | seek o =>
    have h := gSeek_seqF hwf x hf o
    simp only [gStepF, FReader.step, Prog.seqF_bind, h.1]
    exact ⟨rfl, h.2⟩
  | setBlocked b => exact ⟨rfl, hf⟩

/-- Run with an oracle, the program of a history is `FReader.run`. -/
theorem gRunF_seqF {F : File} (hwf : WF F) : ∀ (ops : List Hts.Spec.Flat.Op) (x : FReader), x.r.file = F →
    ((gRunF x.r ops).seqF F (blkOf x.r.cur) x.oracle).1 = (x.run ops).map fun p => (p.1, p.2.r) := by
  intro ops
  induction ops with
  | nil => intro x _; rfl
  | cons op ops ih =>
    intro x hf
    have h := gStepF_seqF hwf x hf op
    simp only [gRunF, FReader.run, Prog.seqF_bind, h.1]
    rw [ih _ h.2]
    rfl

/-! ### Every execution over the faulty protocol is a run of the fault model -/

theorem failErr_of_chain {F : File} {b nx : Nat} (h : chainOf F b = some nx) : failErr F b = .other := by
  simp only [chainOf] at h
  simp only [failErr]
  cases hm : memberAt F b with
  | ok m => rfl
  | eof => simp [hm] at h
  | bad => rfl

theorem popF_choice (F : File) (e : Nat) (nx : Option Nat) (h : nx = chainOf F e ∨ nx = none)
    (orc' : List LoadFault) :
    ∃ f, popF F e (f :: orc') = (blockOf F ⟨some e, nx⟩, ⟨some e, nx⟩, orc') := by
  by_cases hc : nx = chainOf F e
  · exact ⟨.ok, by rw [hc]; rfl⟩
  · have hn : nx = none := by rcases h with h | h; exact absurd h hc; exact h
    subst hn
    cases hch : chainOf F e with
    | none => exact absurd hch.symm hc
    | some m =>
      refine ⟨.err, ?_⟩
      simp only [popF, blockOf, failErr_of_chain hch]

theorem respF_choice (F : File) (c t : Blk) (cl : Call) (hfin : Installs c cl t)
    (hwf : WFBlk (chainOf F) t) (hcb : ∃ b, c.base = some b) (orc' : List LoadFault) :
    ∃ orc, respF F c cl orc = (blockOf F t, t, orc') := by
  rcases hfin with ⟨rfl, hno⟩ | ⟨e, htg, hbase⟩
  · cases cl with
    | seek off =>
      have hno' : t.base = some off ∧ good t = true := hno
      exact ⟨orc', by simp only [respF, hno', and_self, if_true]⟩
    | next =>
      have hno' : t.next = none := hno
      obtain ⟨b, hb⟩ := hcb
      obtain ⟨tb, tn⟩ := t
      simp only at hno' hb
      subst hno' hb
      obtain ⟨f, hf⟩ := popF_choice F b none (Or.inr rfl) orc'
      exact ⟨f :: orc', by simpa [respF] using hf⟩
  · obtain ⟨tb, tn⟩ := t
    simp only at hbase
    subst hbase
    have hw : tn = chainOf F e ∨ tn = none := by simpa [WFBlk] using hwf
    obtain ⟨f, hf⟩ := popF_choice F e tn hw orc'
    cases cl with
    | next =>
      have htg' : c.next = some e := htg
      exact ⟨f :: orc', by simpa [respF, htg'] using hf⟩
    | seek off =>
      have htg' : e = off ∧ ¬ (c.base = some off ∧ good c = true) := htg
      obtain ⟨rfl, hnf⟩ := htg'
      exact ⟨f :: orc', by simp only [respF, hnf, if_false]; exact hf⟩

/-- **Every program, every path, every fault pattern.**  What a byte-level program returns over the protocol
with faults is what it returns with some fault oracle. -/
theorem over_faults_eq_seqF {α : Type} {F : File} (hc : cfg.OK) (hch : cfg.chain = chainOf F)
    {p : Prog α} {s t : State} {a : α} (h : Over cfg F p s a t) (hr : Reachable cfg s)
    (hn : Op.nexts ∉ s.script) (hb : ∃ b, s.cur.base = some b) :
    ∃ orc, (p.seqF F s.cur orc).1 = a := by
  induction h with
  | done => exact ⟨[], rfl⟩
  | @call cl k rest s t u a hci hs hp htc hts _ ih =>
    rw [hs] at hn
    have hn' : Op.nexts ∉ rest := fun hh => hn (by simp [hh])
    have hfin := call_installs_base hci hs hn' hp htc hts
    have hrt := path_reachable hr hp
    have hwf : WFBlk (chainOf F) t.cur := by rw [← hch]; exact (inv_reachable hc hrt).wfCur
    have hbt : ∃ b, t.cur.base = some b := by
      rcases hfin with ⟨h1, _⟩ | ⟨e, _, h1⟩
      · rw [h1]; exact hb
      · exact ⟨e, h1⟩
    obtain ⟨orc', ho⟩ := ih hrt (by rw [hts]; exact hn') hbt
    obtain ⟨orc, hresp⟩ := respF_choice F s.cur t.cur cl hfin hwf hb orc'
    exact ⟨orc, by simp only [Prog.seqF, hresp]; exact ho⟩

/-- **Histories over the faulty protocol.**  From `NewReader`, along every path and for every fault pattern,
what a history returns per operation (output and reader state) is what the operational fault model of C09
returns for some fault oracle. -/
theorem over_history_is_fault_model {F : File} (hwf : WF F) {r0 : Reader} (h0 : Reader.new F = .ok r0)
    (ops : List Hts.Spec.Flat.Op) (rd : Nat) (hrd : 2 ≤ rd) (script : List Op) (hn : Op.nexts ∉ script)
    (outs : List (Out × Reader)) (t : State)
    (h : Over ⟨rd, chainOf F, script, true⟩ F (gRunF r0 ops) (init ⟨rd, chainOf F, script, true⟩) outs t) :
    ∃ oracle, outs = ((FReader.mk r0 oracle).run ops).map fun p => (p.1, p.2.r) := by
  have ht := tracks_new hwf h0
  obtain ⟨orc, ho⟩ := over_faults_eq_seqF (cfg := ⟨rd, chainOf F, script, true⟩) (cfg_ok hwf rd hrd script true)
    rfl h .init hn ⟨0, rfl⟩
  refine ⟨orc, ?_⟩
  have hi : (init ⟨rd, chainOf F, script, true⟩).cur = blkOf r0.cur := by rw [ht.2]; rfl
  rw [hi] at ho
  rw [← ho]
  exact gRunF_seqF hwf ops ⟨r0, orc⟩ ht.1.1

end Hts.Model.ReadAhead
