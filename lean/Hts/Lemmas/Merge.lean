import Hts.Model.Merge
namespace Hts.Model.Merge

/-- `close l r` looks at the right chunk only through its begin offset -/
def CloseB (close : Chunk → Chunk → Bool) : Prop :=
  ∀ l r r', r.b = r'.b → close l r = close l r'

theorem adjClose_closeB : CloseB adjClose := by
  intro l r r' h; simp [adjClose, h]

theorem nearClose_closeB (near : Int) : CloseB (nearClose near) := by
  intro l r r' h; simp [nearClose, h]

/-- no two neighbours are `close` -/
def NoClose (close : Chunk → Chunk → Bool) : List Chunk → Prop
  | [] => True
  | [_] => True
  | a :: b :: rest => close a b = false ∧ NoClose close (b :: rest)

theorem mergeLoop_head (close) (l : Chunk) (rs : List Chunk) :
    ∃ h tl, mergeLoop close l rs = h :: tl ∧ h.b = l.b := by
  induction rs generalizing l with
  | nil => exact ⟨l, [], rfl, rfl⟩
  | cons r rs ih =>
    unfold mergeLoop
    split
    · obtain ⟨h, tl, e, hb⟩ := ih (mergeInto l r)
      exact ⟨h, tl, e, by simpa [mergeInto] using hb⟩
    · exact ⟨l, _, rfl, rfl⟩

theorem sortedB_tail {a : Chunk} {l : List Chunk} (h : SortedB (a :: l)) : SortedB l := by
  cases l with
  | nil => trivial
  | cons b rest => exact h.2

theorem sortedB_cons_of_head {a b : Chunk} {l : List Chunk} (hb : a.b = b.b) (h : SortedB (b :: l)) :
    SortedB (a :: l) := by
  cases l with
  | nil => trivial
  | cons c rest => exact ⟨by rw [hb]; exact h.1, h.2⟩

/-- in a list sorted by begin the head's begin is the least -/
theorem sortedB_head_le {a : Chunk} {l : List Chunk} (h : SortedB (a :: l)) :
    ∀ c, c ∈ l → vOff a.b ≤ vOff c.b := by
  induction l generalizing a with
  | nil => intro c hc; cases hc
  | cons b rest ih =>
    intro c hc
    have h1 : vOff a.b ≤ vOff b.b := h.1
    cases hc with
    | head => exact h1
    | tail _ hm => exact Int.le_trans h1 (ih h.2 c hm)

theorem sortedB_merge {l r : Chunk} {rs : List Chunk} (h : SortedB (l :: r :: rs)) :
    SortedB (mergeInto l r :: rs) := by
  cases rs with
  | nil => trivial
  | cons r2 rest =>
    refine ⟨?_, h.2.2⟩
    have h1 : vOff l.b ≤ vOff r.b := h.1
    have h2 : vOff r.b ≤ vOff r2.b := h.2.1
    simp only [mergeInto]; omega

theorem mergeLoop_sorted (close) (l : Chunk) (rs : List Chunk) (h : SortedB (l :: rs)) :
    SortedB (mergeLoop close l rs) := by
  induction rs generalizing l with
  | nil => trivial
  | cons r rs ih =>
    unfold mergeLoop
    split
    · exact ih _ (sortedB_merge h)
    · obtain ⟨hd, tl, e, hb⟩ := mergeLoop_head close r rs
      have := ih r h.2
      rw [e] at this ⊢
      exact ⟨by rw [hb]; exact h.1, this⟩

theorem covers1_mergeInto_of (l r : Chunk) (p : Int) (hs : vOff l.b ≤ vOff r.b)
    (h : covers1 l p ∨ covers1 r p) : covers1 (mergeInto l r) p := by
  unfold covers1 mergeInto at *
  simp only
  split <;> rcases h with h | h <;> constructor <;> omega

theorem covers_cons (c : Chunk) (cs : List Chunk) (p : Int) :
    covers (c :: cs) p ↔ covers1 c p ∨ covers cs p := by
  unfold covers
  constructor
  · rintro ⟨x, hx, hp⟩
    cases hx with
    | head => exact Or.inl hp
    | tail _ hm => exact Or.inr ⟨x, hm, hp⟩
  · rintro (h | ⟨x, hx, hp⟩)
    · exact ⟨c, List.mem_cons_self, h⟩
    · exact ⟨x, List.mem_cons_of_mem _ hx, hp⟩

/-- every strategy built on `mergeLoop` keeps every covered position, for any `close` -/
theorem mergeLoop_covers (close) (l : Chunk) (rs : List Chunk) (p : Int) (hs : SortedB (l :: rs))
    (h : covers (l :: rs) p) : covers (mergeLoop close l rs) p := by
  induction rs generalizing l with
  | nil => simpa [mergeLoop] using h
  | cons r rs ih =>
    unfold mergeLoop
    rw [covers_cons, covers_cons] at h
    split
    · apply ih _ (sortedB_merge hs)
      rw [covers_cons]
      rcases h with h | h | h
      · exact Or.inl (covers1_mergeInto_of l r p hs.1 (Or.inl h))
      · exact Or.inl (covers1_mergeInto_of l r p hs.1 (Or.inr h))
      · exact Or.inr h
    · rw [covers_cons]
      rcases h with h | h | h
      · exact Or.inl h
      · exact Or.inr (ih r hs.2 ((covers_cons _ _ _).2 (Or.inl h)))
      · exact Or.inr (ih r hs.2 ((covers_cons _ _ _).2 (Or.inr h)))

/-- `adjacent` adds no position: a merged pair covers only what the two covered -/
theorem covers1_mergeInto_adj (l r : Chunk) (p : Int) (hc : adjClose l r = true)
    (h : covers1 (mergeInto l r) p) : covers1 l p ∨ covers1 r p := by
  unfold covers1 mergeInto adjClose at *
  simp only [decide_eq_true_eq] at hc
  simp only at h
  split at h
  · left; omega
  · by_cases hp : p < vOff l.e
    · left; omega
    · right; omega

theorem mergeLoop_adj_covers_only (l : Chunk) (rs : List Chunk) (p : Int)
    (h : covers (mergeLoop adjClose l rs) p) : covers (l :: rs) p := by
  induction rs generalizing l with
  | nil => simpa [mergeLoop] using h
  | cons r rs ih =>
    unfold mergeLoop at h
    rw [covers_cons, covers_cons]
    split at h
    · rename_i hc
      have := ih _ h
      rw [covers_cons] at this
      rcases this with h1 | h1
      · rcases covers1_mergeInto_adj l r p hc h1 with h2 | h2
        · exact Or.inl h2
        · exact Or.inr (Or.inl h2)
      · exact Or.inr (Or.inr h1)
    · rw [covers_cons] at h
      rcases h with h | h
      · exact Or.inl h
      · have := ih _ h
        rw [covers_cons] at this
        exact Or.inr this

theorem mergeLoop_noClose (close) (hcb : CloseB close) (l : Chunk) (rs : List Chunk) :
    NoClose close (mergeLoop close l rs) := by
  induction rs generalizing l with
  | nil => trivial
  | cons r rs ih =>
    unfold mergeLoop
    split
    · exact ih _
    · rename_i hc
      obtain ⟨hd, tl, e, hb⟩ := mergeLoop_head close r rs
      have := ih r
      rw [e] at this ⊢
      refine ⟨?_, this⟩
      rw [hcb l hd r hb]
      simpa using hc

theorem mergeLoop_id_of_noClose (close) (l : Chunk) (rs : List Chunk) (h : NoClose close (l :: rs)) :
    mergeLoop close l rs = l :: rs := by
  induction rs generalizing l with
  | nil => rfl
  | cons r rs ih =>
    unfold mergeLoop
    have h1 : close l r = false := h.1
    simp [h1, ih r h.2]

theorem mergeLoop_idem (close) (hcb : CloseB close) (l : Chunk) (rs : List Chunk) :
    ∀ hd tl, mergeLoop close l rs = hd :: tl → mergeLoop close hd tl = hd :: tl := by
  intro hd tl e
  apply mergeLoop_id_of_noClose
  rw [← e]
  exact mergeLoop_noClose close hcb l rs

theorem wrap64_id (x : Int) (h1 : -(2 ^ 63) ≤ x) (h2 : x < 2 ^ 63) : wrap64 x = x := by
  unfold wrap64; omega

/-- every End in the output of the merge loop is the End of some input chunk -/
theorem mergeLoop_ends (close) (l : Chunk) (rs : List Chunk) :
    ∀ x, x ∈ mergeLoop close l rs → ∃ y, y ∈ l :: rs ∧ x.e = y.e := by
  induction rs generalizing l with
  | nil => intro x hx; simp [mergeLoop] at hx; exact ⟨l, by simp, by rw [hx]⟩
  | cons r rs ih =>
    intro x hx
    unfold mergeLoop at hx
    split at hx
    · obtain ⟨y, hy, e⟩ := ih _ x hx
      rcases List.mem_cons.1 hy with hy | hy
      · subst hy
        unfold mergeInto at e
        simp only at e
        split at e
        · exact ⟨l, by simp, e⟩
        · exact ⟨r, by simp, e⟩
      · exact ⟨y, by simp [hy], e⟩
    · rcases List.mem_cons.1 hx with hx | hx
      · exact ⟨l, by simp, by rw [hx]⟩
      · obtain ⟨y, hy, e⟩ := ih _ x hx
        exact ⟨y, List.mem_cons_of_mem _ hy, e⟩

/-- every Begin in the output of the merge loop is the Begin of some input chunk -/
theorem mergeLoop_begins (close) (l : Chunk) (rs : List Chunk) :
    ∀ x, x ∈ mergeLoop close l rs → ∃ y, y ∈ l :: rs ∧ x.b = y.b := by
  induction rs generalizing l with
  | nil => intro x hx; simp [mergeLoop] at hx; exact ⟨l, by simp, by rw [hx]⟩
  | cons r rs ih =>
    intro x hx
    unfold mergeLoop at hx
    split at hx
    · obtain ⟨y, hy, e⟩ := ih _ x hx
      rcases List.mem_cons.1 hy with hy | hy
      · subst hy
        exact ⟨l, by simp, e⟩
      · exact ⟨y, by simp [hy], e⟩
    · rcases List.mem_cons.1 hx with hx | hx
      · exact ⟨l, by simp, by rw [hx]⟩
      · obtain ⟨y, hy, e⟩ := ih _ x hx
        exact ⟨y, List.mem_cons_of_mem _ hy, e⟩

theorem noClose_congr (c1 c2 : Chunk → Chunk → Bool) (P : Chunk → Prop)
    (h : ∀ a b, P a → P b → c1 a b = c2 a b) :
    ∀ L : List Chunk, (∀ x, x ∈ L → P x) → NoClose c1 L → NoClose c2 L
  | [], _, _ => trivial
  | [_], _, _ => trivial
  | a :: b :: rest, hall, hn => by
    refine ⟨?_, noClose_congr c1 c2 P h (b :: rest) (fun x hx => hall x (List.mem_cons_of_mem _ hx)) hn.2⟩
    rw [← h a b (hall a (by simp)) (hall b (by simp))]; exact hn.1

theorem maxEnd_ge (right : Offset) (cs : List Chunk) :
    vOff right ≤ vOff (maxEnd right cs) ∧ ∀ c, c ∈ cs → vOff c.e ≤ vOff (maxEnd right cs) := by
  induction cs generalizing right with
  | nil => exact ⟨Int.le_refl _, fun c hc => by cases hc⟩
  | cons c cs ih =>
    unfold maxEnd
    split
    · have := ih c.e
      refine ⟨by omega, ?_⟩
      intro x hx
      cases hx with
      | head => exact this.1
      | tail _ hm => exact this.2 x hm
    · have := ih right
      refine ⟨this.1, ?_⟩
      intro x hx
      cases hx with
      | head => omega
      | tail _ hm => exact this.2 x hm

/-- the squashed end is one of the input ends (so the result is the enclosing chunk, not a wider one) -/
theorem maxEnd_mem (right : Offset) (cs : List Chunk) :
    maxEnd right cs = right ∨ ∃ c, c ∈ cs ∧ maxEnd right cs = c.e := by
  induction cs generalizing right with
  | nil => exact Or.inl rfl
  | cons c cs ih =>
    unfold maxEnd
    split
    · rcases ih c.e with h | ⟨x, hx, hxe⟩
      · exact Or.inr ⟨c, List.mem_cons_self, h⟩
      · exact Or.inr ⟨x, List.mem_cons_of_mem _ hx, hxe⟩
    · rcases ih right with h | ⟨x, hx, hxe⟩
      · exact Or.inl h
      · exact Or.inr ⟨x, List.mem_cons_of_mem _ hx, hxe⟩

end Hts.Model.Merge
