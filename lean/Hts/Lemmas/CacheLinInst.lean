/-
Instances of `lock_linearizable` for the caches of bgzf/cache:

* LRU, FIFO: every method is `c.mu.Lock()/RLock(); body; Unlock()`; the sequential specification is the
  model's operation (`LCache.call`), the body is taken as one step;
* Random: same, the specification is the relation "for some choice of victims the model allows";
* StatsRecorder: `Get`/`Put`/`Stats`/`Reset` under the recorder's own mutex, with the bodies split into their
  real small steps (`Gets++`; inner `Get`; `Misses++`): the counters and the inner cache change at different
  moments, atomicity comes from the lock.  `StatsRecorder.Peek` goes straight to the inner cache without the
  recorder's mutex and is not part of this instance.

`cache.Free(n, c)` is a sequence of five separate lock acquisitions (`Cap`, `Len`, `Drop`, `Cap`, `Len`) and is
not an atomic operation of the cache; it is not an operation of these objects.
-/
import Hts.Lemmas.CacheLin
import Hts.Lemmas.CacheHist
import Hts.Spec.CacheContract
namespace Hts.Spec.Lin
open Hts.Model.Cache Hts.Spec.CacheContract

/-- the methods of `cache.Cache` -/
inductive Call
  | put (id : Nat)
  | get (k : Int)
  | peek (k : Int)
  | len
  | cap
  | drop (n : Int)
  | resize (n : Int)
deriving DecidableEq, Repr

inductive CRet
  | put (r : PutRes)
  | get (r : Option Nat)
  | peek (b : Bool) (n : Int)
  | int (n : Int)
  | unit
  | stats (s : Stats)
deriving DecidableEq, Repr

def Call.isRead : Call → Bool
  | .peek _ => true
  | .len => true
  | .cap => true
  | _ => false

/-- sequential behaviour of LRU / FIFO -/
def LCache.call (kind : Kind) (h : Heap) (c : LCache) : Call → LCache × CRet
  | .put id => let (c', r) := c.put h id; (c', .put r)
  | .get k => let (c', r) := c.get kind h k; (c', .get r)
  | .peek k => let (b, n) := c.peek h k; (c, .peek b n)
  | .len => (c, .int c.len)
  | .cap => (c, .int c.cap)
  | .drop n => (c.drop n, .unit)
  | .resize n => (c.resize n, .unit)

def lObj (kind : Kind) (h : Heap) : Obj where
  σ := LCache
  Op := Call
  Ret := CRet
  Loc := Unit
  spec s op r s' := LCache.call kind h s op = (s', r)
  isRead := Call.isRead
  init _ := ()
  more _ _ _ _ _ := False
  done op _ s r s' := LCache.call kind h s op = (s', r)

theorem lObj_laws (kind : Kind) (h : Heap) : Laws (lObj kind h) where
  body_implements op s r s' b := by
    cases b with
    | last d => exact d
    | next m _ => exact m.elim
  read_more op l s l' s' _ m := m.elim
  read_done op l s r s' hr d := by
    cases op <;> simp [lObj, Call.isRead] at hr <;> simp only [lObj, LCache.call] at d <;>
      exact (Prod.mk.inj d).1.symm

/-- every concurrent history of an LRU (`kind = .lru`) or FIFO cache is linearizable w.r.t. `LCache.call` -/
theorem lcache_linearizable (kind : Kind) (h : Heap) (n : Int) {g : G (lObj kind h)}
    {w : List (Ev (lObj kind h))} (r : Reach (lObj kind h) (LCache.new n) g w) :
    Linearizable (lObj kind h) (LCache.new n) (visible (lObj kind h) w) :=
  lock_linearizable (lObj kind h) (lObj_laws kind h) (LCache.new n) r

/-- sequential behaviour of Random: `choice` = the victims the implementation picked -/
def RCache.call (h : Heap) (c : RCache) (choice : List Nat) : Call → Option (RCache × CRet)
  | .put id => (c.put h id choice.head?).map (fun (c', r) => (c', .put r))
  | .get k => let (c', r) := c.get k; some (c', .get r)
  | .peek k => let (b, n) := c.peek h k; some (c, .peek b n)
  | .len => some (c, .int c.len)
  | .cap => some (c, .int c.cap)
  | .drop n => (c.drop h n choice).map (fun c' => (c', .unit))
  | .resize n => (c.resize h n choice).map (fun c' => (c', .unit))

def rObj (h : Heap) : Obj where
  σ := RCache
  Op := Call
  Ret := CRet
  Loc := Unit
  spec s op r s' := ∃ choice, RCache.call h s choice op = some (s', r)
  isRead := Call.isRead
  init _ := ()
  more _ _ _ _ _ := False
  done op _ s r s' := ∃ choice, RCache.call h s choice op = some (s', r)

theorem rObj_laws (h : Heap) : Laws (rObj h) where
  body_implements op s r s' b := by
    cases b with
    | last d => exact d
    | next m _ => exact m.elim
  read_more op l s l' s' _ m := m.elim
  read_done op l s r s' hr d := by
    obtain ⟨ch, d⟩ := d
    cases op <;> simp [rObj, Call.isRead] at hr <;> simp only [RCache.call, Option.some.injEq] at d <;>
      exact (Prod.mk.inj d).1.symm

theorem rcache_linearizable (h : Heap) (n : Int) {g : G (rObj h)} {w : List (Ev (rObj h))}
    (r : Reach (rObj h) (RCache.new n) g w) :
    Linearizable (rObj h) (RCache.new n) (visible (rObj h) w) :=
  lock_linearizable (rObj h) (rObj_laws h) (RCache.new n) r

/-! ### StatsRecorder: bodies with several small steps -/

inductive RecCall
  | get (k : Int)
  | put (id : Nat)
  | stats
  | reset
deriving DecidableEq, Repr

/-- progress of a recorder body -/
inductive RecLoc
  | start
  | counted
  | gotG (r : Option Nat)
  | gotP (r : PutRes)

def recObj {σ : Type} (o : CacheOps σ) (h : Heap) : Obj where
  σ := σ × Stats
  Op := RecCall
  Ret := CRet
  Loc := RecLoc
  spec s op r s' :=
    match op with
    | .get k => (recorderOps o).get h s k = (s', match r with | .get x => x | _ => none) ∧ ∃ x, r = .get x
    | .put id => ∃ hint x, (recorderOps o).put h s id hint = some (s', x) ∧ r = .put x
    | .stats => s' = s ∧ r = .stats s.2
    | .reset => s' = (s.1, {}) ∧ r = .unit
  isRead op := match op with | .stats => true | _ => false
  init _ := .start
  more op l s l' s' :=
    match op, l, l' with
    -- s.stats.Gets++
    | .get _, .start, .counted => s' = (s.1, { s.2 with gets := s.2.gets + 1 })
    -- blk := s.Cache.Get(base)
    | .get k, .counted, .gotG r => (o.get h s.1 k).2 = r ∧ s' = ((o.get h s.1 k).1, s.2)
    -- s.stats.Puts++
    | .put _, .start, .counted => s' = (s.1, { s.2 with puts := s.2.puts + 1 })
    -- blk, retained := s.Cache.Put(b)
    | .put id, .counted, .gotP r => ∃ hint c', o.put h s.1 id hint = some (c', r) ∧ s' = (c', s.2)
    | _, _, _ => False
  done op l s r s' :=
    match op, l with
    -- if blk == nil { s.stats.Misses++ }; return blk
    | .get _, .gotG x => r = .get x ∧
        s' = (s.1, match x with | none => { s.2 with misses := s.2.misses + 1 } | some _ => s.2)
    -- if retained { Retains++; if blk != nil { Evictions++ } }; return
    | .put _, .gotP x => r = .put x ∧
        s' = (s.1, match x with
          | .kept none => { s.2 with retains := s.2.retains + 1 }
          | .kept (some _) => { s.2 with retains := s.2.retains + 1, evictions := s.2.evictions + 1 }
          | _ => s.2)
    | .stats, .start => r = .stats s.2 ∧ s' = s
    | .reset, .start => r = .unit ∧ s' = (s.1, {})
    | _, _ => False

theorem recObj_laws {σ : Type} (o : CacheOps σ) (h : Heap) : Laws (recObj o h) where
  body_implements op s r s' b := by
    cases op with
    | get k =>
      -- start -more-> counted -more-> gotG x -done-> result
      rcases b.inv with d | ⟨l1, s1, m1, b1⟩
      · simp [recObj] at d
      cases l1 <;> simp [recObj] at m1
      rcases b1.inv with d | ⟨l2, s2, m2, b2⟩
      · simp [recObj] at d
      cases l2 <;> simp [recObj] at m2
      rename_i x
      rcases b2.inv with d | ⟨l3, s3, m3, _⟩
      · simp [recObj] at d
        obtain ⟨hr, hs'⟩ := d
        obtain ⟨hx, hs2⟩ := m2
        subst hr hs' hs2 m1 hx
        simp only [recObj, recorderOps, Stats.onGet]
        refine ⟨?_, _, rfl⟩
        cases hg : (o.get h s.1 k).2 <;> simp
      · cases l3 <;> simp [recObj] at m3
    | put id =>
      rcases b.inv with d | ⟨l1, s1, m1, b1⟩
      · simp [recObj] at d
      cases l1 <;> simp [recObj] at m1
      rcases b1.inv with d | ⟨l2, s2, m2, b2⟩
      · simp [recObj] at d
      cases l2 <;> simp [recObj] at m2
      rename_i x
      rcases b2.inv with d | ⟨l3, s3, m3, _⟩
      · simp [recObj] at d
        obtain ⟨hr, hs'⟩ := d
        obtain ⟨hint, c', hp, hs2⟩ := m2
        subst hr hs' hs2 m1
        simp only [recObj, recorderOps]
        refine ⟨hint, x, ?_, rfl⟩
        simp only [hp, Option.map_some, Stats.onPut]
        cases x with
        | kept ev => cases ev <;> rfl
        | refused => rfl
        | panic => rfl
      · cases l3 <;> simp [recObj] at m3
    | stats =>
      rcases b.inv with d | ⟨l1, s1, m1, _⟩
      · simp [recObj] at d; exact ⟨d.2, d.1⟩
      · cases l1 <;> simp [recObj] at m1
    | reset =>
      rcases b.inv with d | ⟨l1, s1, m1, _⟩
      · simp [recObj] at d; exact ⟨d.2, d.1⟩
      · cases l1 <;> simp [recObj] at m1
  read_more op l s l' s' hr m := by
    cases op <;> simp [recObj] at hr
    cases l <;> cases l' <;> simp [recObj] at m
  read_done op l s r s' hr d := by
    cases op <;> simp [recObj] at hr
    cases l <;> simp [recObj] at d
    exact d.2

/-- `Get`, `Put`, `Stats`, `Reset` of a StatsRecorder are linearizable w.r.t. `recorderOps`, whatever the
interleaving of their small steps with other threads' invocations and responses -/
theorem recorder_linearizable {σ : Type} (o : CacheOps σ) (h : Heap) (c0 : σ) {g : G (recObj o h)}
    {w : List (Ev (recObj o h))} (r : Reach (recObj o h) (c0, {}) g w) :
    Linearizable (recObj o h) (c0, {}) (visible (recObj o h) w) :=
  lock_linearizable (recObj o h) (recObj_laws o h) (c0, {}) r

end Hts.Spec.Lin
