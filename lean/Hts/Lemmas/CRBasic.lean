/-
ChunkReader proofs, part 1: position of a chunk end relative to the reader (`FinLoc`), `Seek` on a split file.
-/
import Hts.Lemmas.ReaderProps
import Hts.Model.ChunkReader
namespace Hts.Model.Bgzf
open Hts.Spec.Flat

/-- If one split point lies at a smaller compressed offset than another, it lies before it. -/
theorem split_lt {pre pre' post post' : File} {m m' : Member}
    (hwf : WF (pre ++ m :: post)) (he : pre ++ m :: post = pre' ++ m' :: post')
    (hc : csum pre < csum pre') : ∃ mid, pre' = pre ++ m :: mid := by
  induction pre generalizing pre' with
  | nil =>
    cases pre' with
    | nil => simp [csum] at hc
    | cons a pre' =>
      simp only [List.nil_append, List.cons_append, List.cons.injEq] at he
      exact ⟨pre', by rw [he.1]; rfl⟩
  | cons a pre ih =>
    cases pre' with
    | nil => simp [csum] at hc
    | cons a' pre' =>
      simp only [List.cons_append, List.cons.injEq] at he
      have hw : WF (pre ++ m :: post) := (WF.cons hwf).2.2
      simp only [csum, he.1] at hc
      obtain ⟨mid, hmid⟩ := ih hw he.2 (by omega)
      exact ⟨mid, by rw [he.1, hmid]; rfl⟩

/-- `Seek` to a valid target, on the split file: the reader stands at the target, `LastChunk` is `(o, o)`. -/
theorem seek_at {F : File} (hwf : WF F) {r : Reader} {s : State} (h : Sim F r s) (o : Offset) (p : Nat)
    (hs : seekTarget (layoutOf F) o = some p) :
    (r.seek o).2 = none ∧ (r.seek o).1.lastChunk = ⟨o, o⟩ ∧ (r.seek o).1.blocked = r.blocked ∧
    ∃ pre m post, At F (r.seek o).1 pre m post o.block ∧ o = ⟨csum pre, o.block⟩ ∧ p = flatLen pre + o.block := by
  obtain ⟨pre', m', post', hF, ho, hb, hp⟩ := seekTarget_some F o p hwf hs
  have hlen : m'.data.length < 65536 := (WF.mid (hF ▸ hwf)).2
  have hmod : o.block % 65536 = o.block := Nat.mod_eq_of_lt (by omega)
  have hwpre : WF pre' := (hF ▸ hwf : WF (pre' ++ m' :: post')).append_left
  have hmem : memberAt F o.file = .ok m' := by
    rw [ho, hF]; simp only []
    rw [memberAt_split pre' (m' :: post') hwpre, memberAt_zero_cons]
  obtain ⟨hfile, hblk, hlast, hpos⟩ := h
  have hofile : o.file = csum pre' := by rw [ho]
  by_cases hne : o.file ≠ r.cur.base
  · have hseek : r.seek o = (({ r with cur := ⟨o.file, m'.csize, m'.data, o.block, ⟨o.file, o.block⟩⟩, err := none, lastChunk := ⟨o, o⟩ } : Reader), none) := by
      simp [Reader.seek, hne, Block.load, hfile, hmem, Block.seek, hmod]
    rw [hseek]
    exact ⟨rfl, rfl, rfl, pre', m', post', ⟨hfile, hF, by simp [hofile], hb, rfl⟩, ho, hp⟩
  · have heq : o.file = r.cur.base := by omega
    rcases hpos with ⟨pre, m, post, k, hat, _⟩ | ⟨heof, _⟩
    · have hd : r.cur.hasData = true := by
        have := (WF.mid (hat.split ▸ hwf)).1
        rw [hat.cur]; simp [Block.hasData]; omega
      have hseek : r.seek o = (({ r with cur := r.cur.seek o.block, err := none, lastChunk := ⟨o, o⟩ } : Reader), none) := by
        simp [Reader.seek, heq, hd]
      rw [hseek]
      have hcs : csum pre = csum pre' := by
        have := hat.cur; rw [this] at heq; simp at heq; omega
      have hu := split_unique (hat.split ▸ hwf) (hat.split.symm.trans hF) hcs
      obtain ⟨rfl, rfl, rfl⟩ := hu
      refine ⟨rfl, rfl, rfl, pre, m, post, ⟨hfile, hF, ?_, hb, rfl⟩, ho, hp⟩
      simp [Block.seek, hat.cur, hmod]
    · exfalso
      have := heof.base
      have hlt := csum_lt_of_split pre' post' m' (hF ▸ hwf)
      rw [← hF] at hlt; omega

/-- An `At` state is a representation of a flat state. -/
theorem At.sim {F : File} {r : Reader} {pre : File} {m : Member} {post : File} {k : Nat}
    (h : At F r pre m post k) : Sim F r ⟨flatLen pre + k, r.blocked, r.lastChunk⟩ :=
  ⟨h.file, rfl, rfl, Or.inl ⟨pre, m, post, k, h, rfl⟩⟩

/-- Where an offset `E` with `toLogical E = q` lies relative to the split `pre ++ m :: post`. -/
inductive FinLoc (F pre : File) (m : Member) (post : File) (E : Offset) (q : Nat) : Prop where
  | here (h1 : E.file = csum pre) (h2 : E.block ≤ m.data.length) (h3 : q = flatLen pre + E.block)
  | later (mid : File) (mE : Member) (postE : File) (h0 : post = mid ++ mE :: postE)
      (h1 : E.file = csum (pre ++ m :: mid)) (h2 : E.block ≤ mE.data.length)
      (h3 : q = flatLen (pre ++ m :: mid) + E.block)
  | fileEnd (h1 : E.file = csum F) (h2 : E.block = 0) (h3 : q = flatLen F)
  | earlier (preE : File) (mE : Member) (mid : File) (h0 : pre = preE ++ mE :: mid)
      (h1 : E.file = csum preE) (h2 : E.block ≤ mE.data.length) (h3 : q = flatLen preE + E.block)

theorem finLoc {F pre post : File} {m : Member} (hwf : WF F) (hF : F = pre ++ m :: post)
    {E : Offset} {q : Nat} (h : toLogical (layoutOf F) E = some q) : FinLoc F pre m post E q := by
  unfold toLogical at h
  cases hst : seekTarget (layoutOf F) E with
  | none =>
    simp [hst] at h
    exact .fileEnd h.1.1 h.1.2 h.2.symm
  | some p =>
    simp only [hst, Option.some.injEq] at h
    subst h
    obtain ⟨preE, mE, postE, hFE, hE, hb, hp⟩ := seekTarget_some F E p hwf hst
    have hfile : E.file = csum preE := by rw [hE]
    rcases Nat.lt_trichotomy (csum preE) (csum pre) with hlt | heq | hgt
    · obtain ⟨mid, hmid⟩ := split_lt (hFE ▸ hwf) (hFE.symm.trans hF) hlt
      exact .earlier preE mE mid hmid hfile hb hp
    · obtain ⟨rfl, rfl, rfl⟩ := split_unique (hFE ▸ hwf) (hFE.symm.trans hF) heq
      exact .here hfile hb hp
    · obtain ⟨mid, hmid⟩ := split_lt (hF ▸ hwf) (hF.symm.trans hFE) hgt
      have hpost : post = mid ++ mE :: postE := by
        have := hF.symm.trans hFE
        rw [hmid] at this
        simp only [List.append_assoc, List.cons_append] at this
        exact List.cons.inj (List.append_cancel_left this) |>.2
      exact .later mid mE postE hpost (by rw [hfile, hmid]) hb (by rw [hp, hmid])

end Hts.Model.Bgzf
