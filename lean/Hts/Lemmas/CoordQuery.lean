/-
Queries outside the comfortable range (repairs C04-5, C04-6): the limits put before the bin loops of
`internal.OverlappingBinsFor` and `csi.reg2bins`, and termination of the `uint32` loops of
`csi.reg2bins` (Go's `for i := b; i <= e; i++` never exits when `e = 2^32-1`).
-/
import Hts.Lemmas.Coord

namespace Hts.Model.Coord
open Hts.Spec.Coord

/-- inside the indexable range every `for i := b; i <= e; i++` of `csi.reg2bins` exits: the loops with
Go's semantics return what the list model returns -/
theorem reg2binsLoopGo_some (b e ms d : Nat) (hd : d ≤ 10) (hbe : b ≤ e) (he : e < 2 ^ (ms + 3 * d)) :
    ∀ n level, level + n = d + 1 →
      reg2binsLoopGo b e n level ((ms + 3 * (d - level) : Nat) : Int) (levelOffset level) =
        some (reg2binsLoop b e n level ((ms + 3 * (d - level) : Nat) : Int) (levelOffset level)) := by
  intro n
  induction n with
  | zero => intro level _; rfl
  | succ n ih =>
    intro level hn
    unfold reg2binsLoopGo reg2binsLoop
    have hl : level ≤ d := by omega
    simp only [Int.toNat_natCast, int_shr_nat]
    have hlo1 := levelOffset_lt (level + 1) (by omega)
    have hsucc := levelOffset_succ level
    have hes : e >>> (ms + 3 * (d - level)) < 2 ^ (3 * level) := by
      apply shr_lt
      have : 3 * level + (ms + 3 * (d - level)) = ms + 3 * d := by omega
      rw [this]; exact he
    rw [← pow8_eq] at hes
    have hbs := shift_mono hbe (ms + 3 * (d - level))
    generalize hx : b >>> (ms + 3 * (d - level)) = x at *
    generalize hy : e >>> (ms + 3 * (d - level)) = y at *
    rw [u32_nat _ (by omega), u32_nat _ (by omega)]
    have m1 : (levelOffset level + x) % 4294967296 = levelOffset level + x := Nat.mod_eq_of_lt (by omega)
    have m2 : (levelOffset level + y) % 4294967296 = levelOffset level + y := Nat.mod_eq_of_lt (by omega)
    rw [m1, m2]
    have hgo : goRangeIncl (levelOffset level + x) (levelOffset level + y) =
        some (rangeIncl (levelOffset level + x) (levelOffset level + y)) := by
      unfold goRangeIncl
      rw [if_neg (by omega)]
    rw [hgo]
    simp only
    rw [shl1u32_eq level (by omega)]
    have m3 : (levelOffset level + 8 ^ level) % 4294967296 = levelOffset (level + 1) := by
      rw [← hsucc]; exact Nat.mod_eq_of_lt hlo1
    rw [m3]
    cases n with
    | zero => rfl
    | succ n =>
      have : ((ms + 3 * (d - level) : Nat) : Int) - 3 = ((ms + 3 * (d - (level + 1)) : Nat) : Int) := by omega
      rw [this, ih (level + 1) (by omega)]
      rfl

/-- the clamped query of `csi.reg2bins`, when not empty, lies inside the indexable range -/
theorem csiClamp_range (beg end_ : Int) (s : Nat) (hs : s ≤ 62)
    (h : ¬ csiClampBeg beg ≥ csiClampEnd end_ s) :
    0 ≤ csiClampBeg beg ∧ csiClampBeg beg < csiClampEnd end_ s ∧ csiClampEnd end_ s ≤ (2 : Int) ^ s := by
  unfold csiClampBeg csiClampEnd at *
  have hp : (0 : Int) < (2 : Int) ^ s := Int.pow_pos (by decide)
  split at h <;> split at h <;> (try split) <;> (try split) <;> omega

/-- **`csi.reg2bins` returns for every query**: for every `beg`, `end` (negative, empty, reversed, beyond the
range) and every geometry with `minShift + 3·depth ≤ 62`, `depth ≤ 10`, no loop of the repaired function runs
for ever, and the result is the list model's -/
theorem reg2binsGo_total (beg end_ : Int) (ms d : Nat) (hd : d ≤ 10) (hs : ms + 3 * d ≤ 62) :
    reg2binsGo beg end_ ms d = some (reg2bins beg end_ ms d) := by
  unfold reg2binsGo reg2bins
  have e3 : ms + d * 3 = ms + 3 * d := by omega
  simp only
  split
  · rfl
  · rename_i h
    obtain ⟨h0, h1, h2⟩ := csiClamp_range beg end_ (ms + d * 3) (by omega) h
    generalize csiClampBeg beg = b at *
    generalize csiClampEnd end_ (ms + d * 3) = e at *
    unfold reg2binsCoreGo reg2binsCore
    have hb : ((b.toNat : Nat) : Int) = b := by omega
    have he : e - 1 = (((e - 1).toNat : Nat) : Int) := by omega
    have hpow : ((2 ^ (ms + 3 * d) : Nat) : Int) = (2 : Int) ^ (ms + 3 * d) := by rw [Int.natCast_pow]; rfl
    rw [← hb, he]
    have := reg2binsLoopGo_some b.toNat (e - 1).toNat ms d hd (by omega)
      (by rw [e3] at h2; omega) (d + 1) 0 (by omega)
    simp only [Nat.sub_zero] at this
    have l0 : levelOffset 0 = 0 := by decide
    rw [l0] at this
    rw [e3]
    exact this

/-- for every query, `csi.reg2bins` lists the specification's bins of the query cut to the indexable
range `[0, 2^(minShift+3·depth))` (nothing for an empty cut) -/
theorem reg2bins_any_query (beg end_ : Int) (ms d : Nat) (hd : d ≤ 10) (hs : ms + 3 * d ≤ 62) :
    reg2bins beg end_ ms d =
      if csiClampBeg beg ≥ csiClampEnd end_ (ms + d * 3) then []
      else Hts.Spec.Coord.reg2bins (csiClampBeg beg).toNat (csiClampEnd end_ (ms + d * 3)).toNat ms d := by
  have e3 : ms + d * 3 = ms + 3 * d := by omega
  by_cases h : csiClampBeg beg ≥ csiClampEnd end_ (ms + d * 3)
  · rw [if_pos h]; unfold reg2bins; simp only; rw [if_pos h]
  · rw [if_neg h]
    obtain ⟨h0, h1, h2⟩ := csiClamp_range beg end_ (ms + d * 3) (by omega) h
    have hr : reg2bins beg end_ ms d = reg2bins (csiClampBeg beg) (csiClampEnd end_ (ms + d * 3)) ms d := by
      have i1 : csiClampBeg (csiClampBeg beg) = csiClampBeg beg := by
        unfold csiClampBeg; split <;> simp
      have i2 : csiClampEnd (csiClampEnd end_ (ms + d * 3)) (ms + d * 3) = csiClampEnd end_ (ms + d * 3) := by
        unfold csiClampEnd; split
        · rename_i hh; rw [if_neg (by omega)]
        · rfl
      unfold reg2bins
      simp only [i1, i2]
    rw [hr]
    generalize csiClampBeg beg = b at *
    generalize csiClampEnd end_ (ms + d * 3) = e at *
    have hpow : ((2 ^ (ms + 3 * d) : Nat) : Int) = (2 : Int) ^ (ms + 3 * d) := by rw [Int.natCast_pow]; rfl
    have := reg2bins_spec b.toNat e.toNat ms d hd (by omega) (by rw [e3] at h2; omega)
    have hb : ((b.toNat : Nat) : Int) = b := by omega
    have he : ((e.toNat : Nat) : Int) = e := by omega
    rw [hb, he] at this
    exact this

end Hts.Model.Coord
