/-
The Merger model merging by sort order: one `Read` pops a minimal head and re-fills it; invariants of
the loop that reads the merger to its end.
-/
import Hts.Lemmas.MergerOrder
namespace Hts.Model.Merger

/-- the records `rs` of source `i` as the merger returns them: tagged with the source and re-linked -/
def tagged (links : Option LinkFn) (i : Nat) (rs : List Rec) : List (Nat × Rec) :=
  rs.map fun r => (i, relink links i r)

/-- everything a source in the heap will still contribute, in its order -/
def Live.pending (links : Option LinkFn) (x : Live) : List (Nat × Rec) :=
  (x.id, x.head) :: tagged links x.id x.src.rest

def heapPending (links : Option LinkFn) (heap : List Live) : List (Nat × Rec) :=
  heap.flatMap (Live.pending links)

/-- `drain` specialised to the sorted mode -/
def drainS (H : Heap) (links : Option LinkFn) (less : Less) :
    Nat → List Live → Option Nat → List (Nat × Rec) × Option Term
  | 0, _, _ => ([], none)
  | n + 1, heap, err =>
    match sortedRead H links less heap err with
    | (.got id r, st) =>
      let (o, f) := drainS H links less n st.1 st.2
      ((id, r) :: o, f)
    | (.fin t, _) => ([], some t)

theorem drain_sorted (H : Heap) (links : Option LinkFn) (less : Less) :
    ∀ n heap err, drain H n ⟨links, .sorted less heap err⟩ = drainS H links less n heap err
  | 0, _, _ => rfl
  | n + 1, heap, err => by
    unfold drain drainS Merger.read
    simp only
    cases h : sortedRead H links less heap err with
    | mk o st =>
      cases o with
      | got id r => simp only [drain_sorted H links less n]
      | fin t => rfl

/-- what one successful `Read` does to the heap and the kept error -/
inductive StepFacts (links : Option LinkFn) (x : Live) (rest : List Live) (err : Option Nat) :
    List Live → Option Nat → Prop
  | refill (r : Rec) (rs : List Rec) (h : x.src.rest = r :: rs) :
      StepFacts links x rest err
        ({ id := x.id, head := relink links x.id r, src := { x.src with rest := rs } } :: rest) err
  | endEof (h : x.src.rest = []) (ht : x.src.term = .eof) : StepFacts links x rest err rest err
  | endErr (e : Nat) (h : x.src.rest = []) (ht : x.src.term = .err e) :
      StepFacts links x rest err rest (match err with | none => some e | some _ => err)

theorem sortedRead_nil (H : Heap) (links : Option LinkFn) (less : Less) (err : Option Nat) :
    sortedRead H links less [] err = (.fin (errTerm err), ([], err)) := by
  unfold sortedRead
  rw [H.pop_nil]

theorem sortedRead_cons (H : Heap) (links : Option LinkFn) (less : Less) (heap : List Live) (err : Option Nat)
    (hne : heap ≠ []) :
    ∃ x rest heap' err', H.pop (heapLess less) heap = some (x, rest) ∧ (x :: rest).Perm heap ∧
      StepFacts links x rest err heap' err' ∧
      sortedRead H links less heap err = (.got x.id x.head, (heap', err')) := by
  obtain ⟨x, rest, hp, hperm⟩ := H.pop_perm (heapLess less) heap hne
  unfold sortedRead
  rw [hp]
  simp only
  cases hr : x.src.rest with
  | nil =>
    have : x.src.read = .stop x.src.term x.src.afterStop := by unfold Src.read; rw [hr]
    rw [this]
    cases ht : x.src.term with
    | eof => exact ⟨x, rest, rest, err, rfl, hperm, .endEof hr ht, rfl⟩
    | err e => exact ⟨x, rest, rest, _, rfl, hperm, .endErr e hr ht, rfl⟩
  | cons r rs =>
    have : x.src.read = .got r { x.src with rest := rs } := by unfold Src.read; rw [hr]
    rw [this]
    exact ⟨x, rest, _, err, rfl, hperm, .refill r rs hr, rfl⟩

theorem drainS_nil (H : Heap) (links : Option LinkFn) (less : Less) (n : Nat) (err : Option Nat) :
    drainS H links less (n + 1) [] err = ([], some (errTerm err)) := by
  unfold drainS
  rw [sortedRead_nil]

theorem drainS_cons (H : Heap) (links : Option LinkFn) (less : Less) (n : Nat) (heap : List Live) (err : Option Nat)
    (hne : heap ≠ []) :
    ∃ x rest heap' err', H.pop (heapLess less) heap = some (x, rest) ∧ (x :: rest).Perm heap ∧
      StepFacts links x rest err heap' err' ∧
      drainS H links less (n + 1) heap err =
        ((x.id, x.head) :: (drainS H links less n heap' err').1, (drainS H links less n heap' err').2) := by
  obtain ⟨x, rest, heap', err', hp, hperm, hs, hr⟩ := sortedRead_cons H links less heap err hne
  refine ⟨x, rest, heap', err', hp, hperm, hs, ?_⟩
  conv => lhs; unfold drainS
  rw [hr]

theorem pending_step {links : Option LinkFn} {x : Live} {rest heap' : List Live} {err err' : Option Nat}
    (hs : StepFacts links x rest err heap' err') :
    heapPending links (x :: rest) = (x.id, x.head) :: heapPending links heap' := by
  cases hs with
  | refill r rs h => simp [heapPending, Live.pending, tagged, h]
  | endEof h ht => simp [heapPending, Live.pending, tagged, h]
  | endErr e h ht => simp [heapPending, Live.pending, tagged, h]

theorem pending_perm {links : Option LinkFn} {x : Live} {rest heap heap' : List Live} {err err' : Option Nat}
    (hperm : (x :: rest).Perm heap) (hs : StepFacts links x rest err heap' err') :
    ((x.id, x.head) :: heapPending links heap').Perm (heapPending links heap) := by
  rw [← pending_step hs]
  exact List.Perm.flatMap_right _ hperm

theorem pending_length {links : Option LinkFn} {x : Live} {rest heap heap' : List Live} {err err' : Option Nat}
    (hperm : (x :: rest).Perm heap) (hs : StepFacts links x rest err heap' err') :
    (heapPending links heap).length = (heapPending links heap').length + 1 := by
  rw [← (pending_perm hperm hs).length_eq]
  rfl

/-! ### the output is a permutation of what was pending, and the loop ends -/

theorem drainS_perm (H : Heap) (links : Option LinkFn) (less : Less) :
    ∀ n heap err, (heapPending links heap).length < n →
      (drainS H links less n heap err).1.Perm (heapPending links heap) ∧
      ∃ t, (drainS H links less n heap err).2 = some t
  | 0, _, _, h => by omega
  | n + 1, heap, err, h => by
    cases heap with
    | nil => rw [drainS_nil]; exact ⟨List.Perm.refl _, _, rfl⟩
    | cons y ys =>
      obtain ⟨x, rest, heap', err', _, hperm, hs, hd⟩ := drainS_cons H links less n (y :: ys) err (by simp)
      rw [hd]
      have hl := pending_length hperm hs
      obtain ⟨ih, t, ht⟩ := drainS_perm H links less n heap' err' (by omega)
      exact ⟨(List.Perm.cons _ ih).trans (pending_perm hperm hs), t, ht⟩

/-- more calls than needed change nothing -/
theorem drainS_mono (H : Heap) (links : Option LinkFn) (less : Less) :
    ∀ n m heap err, (heapPending links heap).length < n → n ≤ m →
      drainS H links less m heap err = drainS H links less n heap err
  | 0, _, _, _, h, _ => by omega
  | n + 1, 0, _, _, _, h => by omega
  | n + 1, m + 1, heap, err, h, hnm => by
    cases heap with
    | nil => rw [drainS_nil, drainS_nil]
    | cons y ys =>
      obtain ⟨x, rest, heap', err', hp, hperm, hs, hd⟩ := drainS_cons H links less n (y :: ys) err (by simp)
      obtain ⟨x2, rest2, heap2, err2, hp2, _, hs2, hd2⟩ := drainS_cons H links less m (y :: ys) err (by simp)
      rw [hp] at hp2
      simp only [Option.some.injEq, Prod.mk.injEq] at hp2
      obtain ⟨rfl, rfl⟩ := hp2
      have hl := pending_length hperm hs
      have heq : heap2 = heap' ∧ err2 = err' := by
        cases hs with
        | refill r rs h =>
          cases hs2 with
          | refill r2 rs2 h2 => rw [h] at h2; simp only [List.cons.injEq] at h2; obtain ⟨rfl, rfl⟩ := h2; exact ⟨rfl, rfl⟩
          | endEof h2 _ => rw [h] at h2; cases h2
          | endErr _ h2 _ => rw [h] at h2; cases h2
        | endEof h ht =>
          cases hs2 with
          | refill r2 rs2 h2 => rw [h] at h2; cases h2
          | endEof h2 _ => exact ⟨rfl, rfl⟩
          | endErr _ h2 ht2 => rw [ht] at ht2; cases ht2
        | endErr e h ht =>
          cases hs2 with
          | refill r2 rs2 h2 => rw [h] at h2; cases h2
          | endEof h2 ht2 => rw [ht] at ht2; cases ht2
          | endErr e2 h2 ht2 => rw [ht] at ht2; cases ht2; exact ⟨rfl, rfl⟩
      obtain ⟨rfl, rfl⟩ := heq
      rw [hd, hd2, drainS_mono H links less n m heap2 err2 (by omega) (by omega)]

/-! ### every source's records come out in the source's order -/

theorem mem_pending_id {links : Option LinkFn} {y : Live} {p : Nat × Rec} (h : p ∈ y.pending links) : p.1 = y.id := by
  unfold Live.pending tagged at h
  simp only [List.mem_cons, List.mem_map] at h
  rcases h with rfl | ⟨r, _, rfl⟩ <;> rfl

theorem drainS_mem (H : Heap) (links : Option LinkFn) (less : Less) (n : Nat) (heap : List Live) (err : Option Nat)
    (hn : (heapPending links heap).length < n) (p : Nat × Rec) :
    p ∈ (drainS H links less n heap err).1 ↔ ∃ y, y ∈ heap ∧ p ∈ y.pending links := by
  rw [(drainS_perm H links less n heap err hn).1.mem_iff]
  exact List.mem_flatMap

theorem filter_pending_self (links : Option LinkFn) (y : Live) :
    (y.pending links).filter (fun p => p.1 == y.id) = y.pending links := by
  rw [List.filter_eq_self]
  intro p hp
  simp [mem_pending_id hp]

theorem drainS_stable (H : Heap) (links : Option LinkFn) (less : Less) :
    ∀ n heap err, (heapPending links heap).length < n → (heap.map (·.id)).Nodup →
      ∀ y, y ∈ heap → (drainS H links less n heap err).1.filter (fun p => p.1 == y.id) = y.pending links
  | 0, _, _, h, _ => by omega
  | n + 1, heap, err, h, hnd => by
    cases heap with
    | nil => intro y hy; cases hy
    | cons z zs =>
      obtain ⟨x, rest, heap', err', _, hperm, hs, hd⟩ := drainS_cons H links less n (z :: zs) err (by simp)
      have hl := pending_length hperm hs
      have hn' : (heapPending links heap').length < n := by omega
      have hnd2 : ((x :: rest).map (·.id)).Nodup := (hperm.map (·.id)).nodup_iff.2 hnd
      simp only [List.map_cons, List.nodup_cons, List.mem_map, not_exists, not_and] at hnd2
      have ih := drainS_stable H links less n heap' err' hn'
      intro y hy
      rw [hd]
      have hy' : y ∈ x :: rest := hperm.mem_iff.2 hy
      -- outputs of the remaining run carrying the id of `x` when `x` is exhausted: none
      have hnone : heap' = rest → (drainS H links less n heap' err').1.filter (fun p => p.1 == x.id) = [] := by
        intro he
        rw [List.filter_eq_nil_iff]
        intro p hp
        obtain ⟨w, hw, hpw⟩ := (drainS_mem H links less n heap' err' hn' p).1 hp
        rw [he] at hw
        have := hnd2.1 w hw
        rw [mem_pending_id hpw]
        simpa using this
      cases hy' with
      | head =>
        simp only [List.filter_cons, beq_self_eq_true, if_true]
        cases hs with
        | refill r rs h =>
          have := ih (by simpa using hnd2) _ List.mem_cons_self
          simp only at this
          rw [this]
          simp [Live.pending, tagged, h]
        | endEof h ht => rw [hnone rfl]; simp [Live.pending, tagged, h]
        | endErr e h ht => rw [hnone rfl]; simp [Live.pending, tagged, h]
      | tail _ hyr =>
        have hne : (x.id == y.id) = false := by
          have := hnd2.1 y hyr
          simpa using fun h => this h.symm
        simp only [List.filter_cons, hne, Bool.false_eq_true, if_false]
        cases hs with
        | refill r rs h => exact ih (by simpa using hnd2) y (List.mem_cons_of_mem _ hyr)
        | endEof h ht => exact ih hnd2.2 y hyr
        | endErr e h ht => exact ih hnd2.2 y hyr

/-! ### sorted sources give a sorted output -/

/-- sorted: no element is below an earlier one -/
def SortedBy {α : Type} (lt : α → α → Bool) (l : List α) : Prop :=
  l.Pairwise fun a b => lt b a = false

theorem drainS_sorted (H : Heap) (links : Option LinkFn) (less : Less) (sw : StrictWeak less) :
    ∀ n heap err, (heapPending links heap).length < n →
      (∀ y, y ∈ heap → SortedBy (pairLess less) (y.pending links)) →
      SortedBy (pairLess less) (drainS H links less n heap err).1
  | 0, _, _, h, _ => by omega
  | n + 1, heap, err, h, hsrt => by
    cases heap with
    | nil => rw [drainS_nil]; exact List.Pairwise.nil
    | cons z zs =>
      obtain ⟨x, rest, heap', err', hp, hperm, hs, hd⟩ := drainS_cons H links less n (z :: zs) err (by simp)
      have hl := pending_length hperm hs
      have hn' : (heapPending links heap').length < n := by omega
      rw [hd]
      have hswp := pairLess_strictWeak less sw
      have hmin := H.pop_min _ _ _ _ (heapLess_strictWeak less sw) hp
      have hxs : SortedBy (pairLess less) (x.pending links) := hsrt x (hperm.mem_iff.1 List.mem_cons_self)
      have hrest : ∀ y, y ∈ rest → SortedBy (pairLess less) (y.pending links) :=
        fun y hy => hsrt y (hperm.mem_iff.1 (List.mem_cons_of_mem _ hy))
      -- an element pending in a source of `rest` is not below the popped head
      have hfromRest : ∀ y, y ∈ rest → ∀ p, p ∈ y.pending links → pairLess less p (x.id, x.head) = false := by
        intro y hy p hp
        have h1 : pairLess less (y.id, y.head) (x.id, x.head) = false := hmin y hy
        unfold Live.pending at hp
        cases hp with
        | head => exact h1
        | tail _ hpt =>
          have h2 : pairLess less p (y.id, y.head) = false := by
            have := hrest y hy
            unfold SortedBy Live.pending at this
            exact (List.pairwise_cons.1 this).1 p hpt
          exact hswp.negTrans _ _ _ h2 h1
      unfold SortedBy
      refine List.pairwise_cons.2 ⟨?_, ?_⟩
      · intro p hp
        obtain ⟨w, hw, hpw⟩ := (drainS_mem H links less n heap' err' hn' p).1 hp
        cases hs with
        | refill r rs h =>
          cases hw with
          | head =>
            unfold SortedBy Live.pending at hxs
            refine (List.pairwise_cons.1 hxs).1 p ?_
            simpa [Live.pending, tagged, h] using hpw
          | tail _ hw => exact hfromRest w hw p hpw
        | endEof h ht => exact hfromRest w hw p hpw
        | endErr e h ht => exact hfromRest w hw p hpw
      · refine drainS_sorted H links less sw n heap' err' hn' ?_
        intro y hy
        cases hs with
        | refill r rs h =>
          cases hy with
          | head =>
            unfold SortedBy Live.pending at hxs
            have := (List.pairwise_cons.1 hxs).2
            simpa [SortedBy, Live.pending, tagged, h] using this
          | tail _ hy => exact hrest y hy
        | endEof h ht => exact hrest y hy
        | endErr e h ht => exact hrest y hy

/-! ### how the merged stream ends -/

theorem drainS_fin_eof (H : Heap) (links : Option LinkFn) (less : Less) :
    ∀ n heap err, (heapPending links heap).length < n →
      (drainS H links less n heap err).2 = some .eof → err = none ∧ ∀ y, y ∈ heap → y.src.term = .eof
  | 0, _, _, h, _ => by omega
  | n + 1, heap, err, h, hf => by
    cases heap with
    | nil =>
      rw [drainS_nil] at hf
      cases err with
      | none => exact ⟨rfl, fun y hy => by cases hy⟩
      | some e => simp [errTerm] at hf
    | cons z zs =>
      obtain ⟨x, rest, heap', err', _, hperm, hs, hd⟩ := drainS_cons H links less n (z :: zs) err (by simp)
      have hl := pending_length hperm hs
      rw [hd] at hf
      obtain ⟨he, hall⟩ := drainS_fin_eof H links less n heap' err' (by omega) hf
      cases hs with
      | refill r rs h =>
        refine ⟨he, fun y hy => ?_⟩
        cases hperm.mem_iff.2 hy with
        | head =>
          have h' := hall _ (List.mem_cons_self
            (a := ({ id := x.id, head := relink links x.id r, src := { x.src with rest := rs } } : Live)) (l := rest))
          exact h'
        | tail _ hy => exact hall y (List.mem_cons_of_mem _ hy)
      | endEof h ht =>
        refine ⟨he, fun y hy => ?_⟩
        cases hperm.mem_iff.2 hy with
        | head => exact ht
        | tail _ hy => exact hall y hy
      | endErr e h ht => cases err <;> simp at he

theorem drainS_fin_err (H : Heap) (links : Option LinkFn) (less : Less) :
    ∀ n heap err e, (heapPending links heap).length < n →
      (drainS H links less n heap err).2 = some (.err e) → err = some e ∨ ∃ y, y ∈ heap ∧ y.src.term = .err e
  | 0, _, _, _, h, _ => by omega
  | n + 1, heap, err, e, h, hf => by
    cases heap with
    | nil =>
      rw [drainS_nil] at hf
      cases err with
      | none => simp [errTerm] at hf
      | some e' => simp [errTerm] at hf; exact Or.inl (by rw [hf])
    | cons z zs =>
      obtain ⟨x, rest, heap', err', _, hperm, hs, hd⟩ := drainS_cons H links less n (z :: zs) err (by simp)
      have hl := pending_length hperm hs
      rw [hd] at hf
      have hx : x ∈ z :: zs := hperm.mem_iff.1 List.mem_cons_self
      have hr : ∀ y, y ∈ rest → y ∈ z :: zs := fun y hy => hperm.mem_iff.1 (List.mem_cons_of_mem _ hy)
      rcases drainS_fin_err H links less n heap' err' e (by omega) hf with he | ⟨y, hy, hyt⟩
      · cases hs with
        | refill r rs h => exact Or.inl he
        | endEof h ht => exact Or.inl he
        | endErr e0 h ht =>
          cases err with
          | none => simp at he; exact Or.inr ⟨x, hx, by rw [ht, he]⟩
          | some e1 => exact Or.inl he
      · cases hs with
        | refill r rs h =>
          cases hy with
          | head => exact Or.inr ⟨x, hx, hyt⟩
          | tail _ hy => exact Or.inr ⟨y, hr y hy, hyt⟩
        | endEof h ht => exact Or.inr ⟨y, hr y hy, hyt⟩
        | endErr e0 h ht => exact Or.inr ⟨y, hr y hy, hyt⟩

end Hts.Model.Merger
