/-
Lemmas for the BGZF framing sites (C11).  Core Lean only.
-/
import Hts.Lemmas.Decoders
import Hts.Model.DecodersBgzf
namespace Hts.Model.Decoders
open Outcome (ok err)
open Hts.Model.BgzfBytes (findSub bgzfExtraPrefix MaxBlockSize)

/-- the explicit-indexing version computes exactly C10's `expectedMemberSize` — and never panics -/
theorem expectedMemberSizeIdx_eq (extra : Bytes) :
    expectedMemberSizeIdx extra = ok (Hts.Model.BgzfBytes.expectedMemberSize (some extra)) := by
  unfold expectedMemberSizeIdx Hts.Model.BgzfBytes.expectedMemberSize
  simp only
  cases hf : findSub bgzfExtraPrefix extra with
  | none => rfl
  | some i =>
    simp only
    split
    · rename_i hle
      have hd : (extra.drop (i + 4)).length ≤ 1 := by simp only [List.length_drop]; omega
      match hdrop : extra.drop (i + 4) with
      | [] => rfl
      | [_] => rfl
      | a :: b :: t => rw [hdrop] at hd; simp only [List.length_cons] at hd; omega
    · rename_i hgt
      have h4 : i + 4 < extra.length := by omega
      have h5 : i + 5 < extra.length := by omega
      rw [index_of_lt _ extra (i + 4) h4, index_of_lt _ extra (i + 5) h5]
      have hdrop : extra.drop (i + 4) = extra[i + 4] :: extra[i + 5] :: extra.drop (i + 6) := by
        rw [List.drop_eq_getElem_cons h4]
        congr 1
        exact List.drop_eq_getElem_cons h5
      rw [hdrop]

/-- the block size announced by a BGZF extra field is at most `MaxBlockSize` = 0x10000 -/
theorem expectedMemberSize_le (extra : Option Bytes) (bs : Nat)
    (h : Hts.Model.BgzfBytes.expectedMemberSize extra = some bs) : bs ≤ MaxBlockSize := by
  unfold Hts.Model.BgzfBytes.expectedMemberSize at h
  split at h
  · cases h
  · split at h
    · cases h
    · split at h
      · rename_i lo hi _ _
        cases h
        have h1 := UInt8.toNat_lt lo
        have h2 := UInt8.toNat_lt hi
        unfold MaxBlockSize
        omega
      · cases h

/-- `r.data[:n]` of `readLimited` is inside the `[MaxBlockSize]byte` array for every block size an extra
field can announce -/
theorem readLimitedIdx_total (extra : Option Bytes) (blockSize skipped : Nat)
    (h : Hts.Model.BgzfBytes.expectedMemberSize extra = some blockSize) :
    (readLimitedIdx blockSize skipped).isPanic = false := by
  have hle := expectedMemberSize_le extra blockSize h
  unfold readLimitedIdx
  split
  · rfl
  · rw [sliceTo_of_le _ _ _ (by simp only [List.length_replicate]; omega)]
    rfl

end Hts.Model.Decoders
