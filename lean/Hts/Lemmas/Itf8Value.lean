/-
`decode` of the ITF-8 / LTF-8 models returns the value the arithmetic specification assigns to the
announced bytes — for EVERY input (canonical or overlong), not only for outputs of `encode`.
Kernel-checked only: byte facts by evaluation over all 256 bytes, OR/shift chains by `or_step`.
-/
import Hts.Model.Itf8
import Hts.Model.Ltf8
import Hts.Spec.Itf8
import Hts.Lemmas.Itf8
set_option maxHeartbeats 1000000
set_option linter.unusedSimpArgs false
open Hts.Lemmas Hts.Lemmas.Kernel

namespace Hts.Model.Itf8

theorem width_is_spec : ∀ b0 : Byte, width b0 = (Hts.Spec.Itf8.width b0.toNat : Nat) :=
  byte_forall _ (by decide +kernel)

theorem w1_facts : ∀ x : Byte, width x = 1 → x.toNat < 0x80 := byte_forall _ (by decide +kernel)
theorem w2_facts : ∀ x : Byte, width x = 2 →
    0x80 ≤ x.toNat ∧ x.toNat < 0xc0 ∧ (x &&& 0x3f#8).toNat = x.toNat - 0x80 ∧ (x &&& 0x3f#8).toNat < 2 ^ 6 :=
  byte_forall _ (by decide +kernel)
theorem w3_facts : ∀ x : Byte, width x = 3 →
    0xc0 ≤ x.toNat ∧ x.toNat < 0xe0 ∧ (x &&& 0x1f#8).toNat = x.toNat - 0xc0 ∧ (x &&& 0x1f#8).toNat < 2 ^ 5 :=
  byte_forall _ (by decide +kernel)
theorem w4_facts : ∀ x : Byte, width x = 4 →
    0xe0 ≤ x.toNat ∧ x.toNat < 0xf0 ∧ (x &&& 0x0f#8).toNat = x.toNat - 0xe0 ∧ (x &&& 0x0f#8).toNat < 2 ^ 4 :=
  byte_forall _ (by decide +kernel)
theorem w5_facts : ∀ x : Byte, width x = 5 →
    0xf0 ≤ x.toNat ∧ x.toNat < 0x100 ∧ (x &&& 0x0f#8).toNat = x.toNat - 0xf0 ∧ (x &&& 0x0f#8).toNat < 2 ^ 4 :=
  byte_forall _ (by decide +kernel)
theorem nib_facts : ∀ x : Byte, (x &&& 0x0f#8).toNat = x.toNat % 16 ∧ (x &&& 0x0f#8).toNat < 2 ^ 4 :=
  byte_forall _ (by decide +kernel)

theorem value_1 (b0 : Nat) (h2 : b0 < 0x80) : Hts.Spec.Itf8.value [b0] = some b0 := if_pos h2
theorem value_2 (b0 b1 : Nat) (h1 : 0x80 ≤ b0) (h2 : b0 < 0xc0) :
    Hts.Spec.Itf8.value [b0, b1] = some ((b0 - 0x80) * 2 ^ 8 + b1) := if_pos ⟨h1, h2⟩
theorem value_3 (b0 b1 b2 : Nat) (h1 : 0xc0 ≤ b0) (h2 : b0 < 0xe0) :
    Hts.Spec.Itf8.value [b0, b1, b2] = some ((b0 - 0xc0) * 2 ^ 16 + b1 * 2 ^ 8 + b2) := if_pos ⟨h1, h2⟩
theorem value_4 (b0 b1 b2 b3 : Nat) (h1 : 0xe0 ≤ b0) (h2 : b0 < 0xf0) :
    Hts.Spec.Itf8.value [b0, b1, b2, b3] = some ((b0 - 0xe0) * 2 ^ 24 + b1 * 2 ^ 16 + b2 * 2 ^ 8 + b3) :=
  if_pos ⟨h1, h2⟩
theorem value_5 (b0 b1 b2 b3 b4 : Nat) (h1 : 0xf0 ≤ b0) (h2 : b0 < 0x100) :
    Hts.Spec.Itf8.value [b0, b1, b2, b3, b4]
      = some ((b0 - 0xf0) * 2 ^ 28 + b1 * 2 ^ 20 + b2 * 2 ^ 12 + b3 * 2 ^ 4 + b4 % 16) := if_pos ⟨h1, h2⟩

open Itf8K in
/-- the value `decode` returns is the specification's value of the announced bytes -/
theorem decode_is_spec (b0 : Byte) (t : List Byte) (h : width b0 ≤ ((t.length + 1 : Nat) : Int)) :
    Hts.Spec.Itf8.value (((b0 :: t).take (width b0).toNat).map BitVec.toNat)
      = some (decode (b0 :: t)).1.toNat := by
  rw [← decode_take b0 t h]
  have hr := width_range b0
  have hcases : width b0 = 1 ∨ width b0 = 2 ∨ width b0 = 3 ∨ width b0 = 4 ∨ width b0 = 5 := by omega
  rcases hcases with hw | hw | hw | hw | hw
  · have f := w1_facts b0 hw
    have e : (b0 :: t).take (width b0).toNat = [b0] := by simp [hw]
    rw [e, decode_1 b0 hw]
    simp only [List.map, z_toNat]
    exact value_1 _ f
  · rcases t with _ | ⟨b1, rest⟩
    · simp [hw] at h
    obtain ⟨f1, f2, f3, f4⟩ := w2_facts b0 hw
    have hb1 := b1.isLt
    have e : (b0 :: b1 :: rest).take (width b0).toNat = [b0, b1] := by simp [hw]
    rw [e, decode_2 b0 b1 hw]
    simp only [List.map]
    rw [value_2 _ _ f1 f2, val_2 _ _ (by rw [z_toNat]; omega) (by rw [z_toNat]; omega), z_toNat, z_toNat, f3]
    exact congrArg some (by omega)
  · rcases t with _ | ⟨b1, _ | ⟨b2, rest⟩⟩
    · simp [hw] at h
    · simp [hw] at h
    obtain ⟨f1, f2, f3, f4⟩ := w3_facts b0 hw
    have hb1 := b1.isLt; have hb2 := b2.isLt
    have e : (b0 :: b1 :: b2 :: rest).take (width b0).toNat = [b0, b1, b2] := by simp [hw]
    rw [e, decode_3 b0 b1 b2 hw]
    simp only [List.map]
    rw [value_3 _ _ _ f1 f2, val_3 _ _ _ (by rw [z_toNat]; omega) (by rw [z_toNat]; omega) (by rw [z_toNat]; omega),
      z_toNat, z_toNat, z_toNat, f3]
    exact congrArg some (by omega)
  · rcases t with _ | ⟨b1, _ | ⟨b2, _ | ⟨b3, rest⟩⟩⟩
    · simp [hw] at h
    · simp [hw] at h
    · simp [hw] at h
    obtain ⟨f1, f2, f3, f4⟩ := w4_facts b0 hw
    have hb1 := b1.isLt; have hb2 := b2.isLt; have hb3 := b3.isLt
    have e : (b0 :: b1 :: b2 :: b3 :: rest).take (width b0).toNat = [b0, b1, b2, b3] := by simp [hw]
    rw [e, decode_4 b0 b1 b2 b3 hw]
    simp only [List.map]
    rw [value_4 _ _ _ _ f1 f2, val_4 _ _ _ _ (by rw [z_toNat]; omega) (by rw [z_toNat]; omega) (by rw [z_toNat]; omega)
      (by rw [z_toNat]; omega), z_toNat, z_toNat, z_toNat, z_toNat, f3]
    exact congrArg some (by omega)
  · rcases t with _ | ⟨b1, _ | ⟨b2, _ | ⟨b3, _ | ⟨b4, rest⟩⟩⟩⟩
    · simp [hw] at h
    · simp [hw] at h
    · simp [hw] at h
    · simp [hw] at h
    obtain ⟨f1, f2, f3, f4⟩ := w5_facts b0 hw
    obtain ⟨n1, n2⟩ := nib_facts b4
    have hb1 := b1.isLt; have hb2 := b2.isLt; have hb3 := b3.isLt
    have e : (b0 :: b1 :: b2 :: b3 :: b4 :: rest).take (width b0).toNat = [b0, b1, b2, b3, b4] := by simp [hw]
    rw [e, decode_5 b0 b1 b2 b3 b4 hw]
    simp only [List.map]
    rw [value_5 _ _ _ _ _ f1 f2, val_5 _ _ _ _ _ (by rw [z_toNat]; omega) (by rw [z_toNat]; omega) (by rw [z_toNat]; omega)
      (by rw [z_toNat]; omega) (by rw [z_toNat]; omega), z_toNat, z_toNat, z_toNat, z_toNat, z_toNat, f3, n1]
    exact congrArg some (by omega)

end Hts.Model.Itf8

namespace Hts.Model.Ltf8

theorem width_is_spec : ∀ b0 : Byte, width b0 = (Hts.Spec.Ltf8.width b0.toNat : Nat) :=
  byte_forall _ (by decide +kernel)

theorem w1_facts : ∀ x : Byte, width x = 1 →
    Hts.Spec.Ltf8.width x.toNat = 1 ∧ 0 ≤ x.toNat ∧ x.toNat - 0 = x.toNat :=
  byte_forall _ (by decide +kernel)
theorem w2_facts : ∀ x : Byte, width x = 2 →
    Hts.Spec.Ltf8.width x.toNat = 2 ∧ 128 ≤ x.toNat ∧ (x &&& 0x3f#8).toNat = x.toNat - 128 ∧ (x &&& 0x3f#8).toNat < 2 ^ 6 :=
  byte_forall _ (by decide +kernel)
theorem w3_facts : ∀ x : Byte, width x = 3 →
    Hts.Spec.Ltf8.width x.toNat = 3 ∧ 192 ≤ x.toNat ∧ (x &&& 0x1f#8).toNat = x.toNat - 192 ∧ (x &&& 0x1f#8).toNat < 2 ^ 5 :=
  byte_forall _ (by decide +kernel)
theorem w4_facts : ∀ x : Byte, width x = 4 →
    Hts.Spec.Ltf8.width x.toNat = 4 ∧ 224 ≤ x.toNat ∧ (x &&& 0xf#8).toNat = x.toNat - 224 ∧ (x &&& 0xf#8).toNat < 2 ^ 4 :=
  byte_forall _ (by decide +kernel)
theorem w5_facts : ∀ x : Byte, width x = 5 →
    Hts.Spec.Ltf8.width x.toNat = 5 ∧ 240 ≤ x.toNat ∧ (x &&& 0x7#8).toNat = x.toNat - 240 ∧ (x &&& 0x7#8).toNat < 2 ^ 3 :=
  byte_forall _ (by decide +kernel)
theorem w6_facts : ∀ x : Byte, width x = 6 →
    Hts.Spec.Ltf8.width x.toNat = 6 ∧ 248 ≤ x.toNat ∧ (x &&& 0x3#8).toNat = x.toNat - 248 ∧ (x &&& 0x3#8).toNat < 2 ^ 2 :=
  byte_forall _ (by decide +kernel)
theorem w7_facts : ∀ x : Byte, width x = 7 →
    Hts.Spec.Ltf8.width x.toNat = 7 ∧ 252 ≤ x.toNat ∧ (x &&& 0x1#8).toNat = x.toNat - 252 ∧ (x &&& 0x1#8).toNat < 2 ^ 1 :=
  byte_forall _ (by decide +kernel)
theorem w8_facts : ∀ x : Byte, width x = 8 →
    Hts.Spec.Ltf8.width x.toNat = 8 ∧ 254 ≤ x.toNat ∧ x.toNat - 254 = 0 :=
  byte_forall _ (by decide +kernel)
theorem w9_facts : ∀ x : Byte, width x = 9 →
    Hts.Spec.Ltf8.width x.toNat = 9 ∧ 255 ≤ x.toNat ∧ x.toNat - 255 = 0 :=
  byte_forall _ (by decide +kernel)
theorem value_1 (b0 : Nat) (hw : Hts.Spec.Ltf8.width b0 = 1) :
    Hts.Spec.Ltf8.value [b0] = some ((b0 - 0) * 2 ^ 0) := by
  simp only [Hts.Spec.Ltf8.value, hw, List.length_cons, List.length_nil, Nat.reduceAdd, if_true, Hts.Spec.Ltf8.lead,
    Hts.Spec.beVal, Nat.reduceSub, Nat.reducePow, Nat.mul_one, Nat.add_zero, Nat.pow_zero] <;>
  exact congrArg some (by omega)
theorem value_2 (b0 b1 : Nat) (hw : Hts.Spec.Ltf8.width b0 = 2) :
    Hts.Spec.Ltf8.value [b0, b1] = some ((b0 - 128) * 2 ^ 8 + b1 * 2 ^ 0) := by
  simp only [Hts.Spec.Ltf8.value, hw, List.length_cons, List.length_nil, Nat.reduceAdd, if_true, Hts.Spec.Ltf8.lead,
    Hts.Spec.beVal, Nat.reduceSub, Nat.reducePow, Nat.mul_one, Nat.add_zero, Nat.pow_zero] <;>
  exact congrArg some (by omega)
theorem value_3 (b0 b1 b2 : Nat) (hw : Hts.Spec.Ltf8.width b0 = 3) :
    Hts.Spec.Ltf8.value [b0, b1, b2] = some ((b0 - 192) * 2 ^ 16 + b1 * 2 ^ 8 + b2 * 2 ^ 0) := by
  simp only [Hts.Spec.Ltf8.value, hw, List.length_cons, List.length_nil, Nat.reduceAdd, if_true, Hts.Spec.Ltf8.lead,
    Hts.Spec.beVal, Nat.reduceSub, Nat.reducePow, Nat.mul_one, Nat.add_zero, Nat.pow_zero] <;>
  exact congrArg some (by omega)
theorem value_4 (b0 b1 b2 b3 : Nat) (hw : Hts.Spec.Ltf8.width b0 = 4) :
    Hts.Spec.Ltf8.value [b0, b1, b2, b3] = some ((b0 - 224) * 2 ^ 24 + b1 * 2 ^ 16 + b2 * 2 ^ 8 + b3 * 2 ^ 0) := by
  simp only [Hts.Spec.Ltf8.value, hw, List.length_cons, List.length_nil, Nat.reduceAdd, if_true, Hts.Spec.Ltf8.lead,
    Hts.Spec.beVal, Nat.reduceSub, Nat.reducePow, Nat.mul_one, Nat.add_zero, Nat.pow_zero] <;>
  exact congrArg some (by omega)
theorem value_5 (b0 b1 b2 b3 b4 : Nat) (hw : Hts.Spec.Ltf8.width b0 = 5) :
    Hts.Spec.Ltf8.value [b0, b1, b2, b3, b4] = some ((b0 - 240) * 2 ^ 32 + b1 * 2 ^ 24 + b2 * 2 ^ 16 + b3 * 2 ^ 8 + b4 * 2 ^ 0) := by
  simp only [Hts.Spec.Ltf8.value, hw, List.length_cons, List.length_nil, Nat.reduceAdd, if_true, Hts.Spec.Ltf8.lead,
    Hts.Spec.beVal, Nat.reduceSub, Nat.reducePow, Nat.mul_one, Nat.add_zero, Nat.pow_zero] <;>
  exact congrArg some (by omega)
theorem value_6 (b0 b1 b2 b3 b4 b5 : Nat) (hw : Hts.Spec.Ltf8.width b0 = 6) :
    Hts.Spec.Ltf8.value [b0, b1, b2, b3, b4, b5] = some ((b0 - 248) * 2 ^ 40 + b1 * 2 ^ 32 + b2 * 2 ^ 24 + b3 * 2 ^ 16 + b4 * 2 ^ 8 + b5 * 2 ^ 0) := by
  simp only [Hts.Spec.Ltf8.value, hw, List.length_cons, List.length_nil, Nat.reduceAdd, if_true, Hts.Spec.Ltf8.lead,
    Hts.Spec.beVal, Nat.reduceSub, Nat.reducePow, Nat.mul_one, Nat.add_zero, Nat.pow_zero] <;>
  exact congrArg some (by omega)
theorem value_7 (b0 b1 b2 b3 b4 b5 b6 : Nat) (hw : Hts.Spec.Ltf8.width b0 = 7) :
    Hts.Spec.Ltf8.value [b0, b1, b2, b3, b4, b5, b6] = some ((b0 - 252) * 2 ^ 48 + b1 * 2 ^ 40 + b2 * 2 ^ 32 + b3 * 2 ^ 24 + b4 * 2 ^ 16 + b5 * 2 ^ 8 + b6 * 2 ^ 0) := by
  simp only [Hts.Spec.Ltf8.value, hw, List.length_cons, List.length_nil, Nat.reduceAdd, if_true, Hts.Spec.Ltf8.lead,
    Hts.Spec.beVal, Nat.reduceSub, Nat.reducePow, Nat.mul_one, Nat.add_zero, Nat.pow_zero] <;>
  exact congrArg some (by omega)
theorem value_8 (b0 b1 b2 b3 b4 b5 b6 b7 : Nat) (hw : Hts.Spec.Ltf8.width b0 = 8) :
    Hts.Spec.Ltf8.value [b0, b1, b2, b3, b4, b5, b6, b7] = some ((b0 - 254) * 2 ^ 56 + b1 * 2 ^ 48 + b2 * 2 ^ 40 + b3 * 2 ^ 32 + b4 * 2 ^ 24 + b5 * 2 ^ 16 + b6 * 2 ^ 8 + b7 * 2 ^ 0) := by
  simp only [Hts.Spec.Ltf8.value, hw, List.length_cons, List.length_nil, Nat.reduceAdd, if_true, Hts.Spec.Ltf8.lead,
    Hts.Spec.beVal, Nat.reduceSub, Nat.reducePow, Nat.mul_one, Nat.add_zero, Nat.pow_zero] <;>
  exact congrArg some (by omega)
theorem value_9 (b0 b1 b2 b3 b4 b5 b6 b7 b8 : Nat) (hw : Hts.Spec.Ltf8.width b0 = 9) :
    Hts.Spec.Ltf8.value [b0, b1, b2, b3, b4, b5, b6, b7, b8] = some ((b0 - 255) * 2 ^ 64 + b1 * 2 ^ 56 + b2 * 2 ^ 48 + b3 * 2 ^ 40 + b4 * 2 ^ 32 + b5 * 2 ^ 24 + b6 * 2 ^ 16 + b7 * 2 ^ 8 + b8 * 2 ^ 0) := by
  simp only [Hts.Spec.Ltf8.value, hw, List.length_cons, List.length_nil, Nat.reduceAdd, if_true, Hts.Spec.Ltf8.lead,
    Hts.Spec.beVal, Nat.reduceSub, Nat.reducePow, Nat.mul_one, Nat.add_zero, Nat.pow_zero] <;>
  exact congrArg some (by omega)

open Ltf8K in
/-- the value `decode` returns is the specification's value of the announced bytes -/
theorem decode_is_spec (b0 : Byte) (t : List Byte) (h : width b0 ≤ ((t.length + 1 : Nat) : Int)) :
    Hts.Spec.Ltf8.value (((b0 :: t).take (width b0).toNat).map BitVec.toNat)
      = some (decode (b0 :: t)).1.toNat := by
  rw [← decode_take b0 t h]
  have hr := width_range b0
  have hcases : width b0 = 1 ∨ width b0 = 2 ∨ width b0 = 3 ∨ width b0 = 4 ∨ width b0 = 5 ∨ width b0 = 6 ∨
      width b0 = 7 ∨ width b0 = 8 ∨ width b0 = 9 := by omega
  rcases hcases with hw | hw | hw | hw | hw | hw | hw | hw | hw
  · obtain ⟨f1, f2, f3⟩ := w1_facts b0 hw
    have e : (b0 :: t).take (width b0).toNat = [b0] := by simp [hw]
    rw [e, decode_1 b0 hw]
    simp only [List.map, z_toNat]
    rw [value_1 _ f1]
    exact congrArg some (by omega)
  · rcases t with _ | ⟨b1, rest⟩
    · simp [hw] at h
    obtain ⟨f1, f2, f3, f4⟩ := w2_facts b0 hw
    have hb1 := b1.isLt
    have e : (b0 :: b1 :: rest).take (width b0).toNat = [b0, b1] := by simp [hw]
    rw [e, decode_2 b0 b1 hw]
    simp only [List.map]
    rw [value_2 _ _ f1, val_2 _ _ (by rw [z_toNat]; omega) (by rw [z_toNat]; omega), z_toNat, z_toNat, f3]
    exact congrArg some (by omega)
  · rcases t with _ | ⟨b1, _ | ⟨b2, rest⟩⟩
    · simp [hw] at h
    · simp [hw] at h
    obtain ⟨f1, f2, f3, f4⟩ := w3_facts b0 hw
    have hb1 := b1.isLt; have hb2 := b2.isLt
    have e : (b0 :: b1 :: b2 :: rest).take (width b0).toNat = [b0, b1, b2] := by simp [hw]
    rw [e, decode_3 b0 b1 b2 hw]
    simp only [List.map]
    rw [value_3 _ _ _ f1, val_3 _ _ _ (by rw [z_toNat]; omega) (by rw [z_toNat]; omega) (by rw [z_toNat]; omega), z_toNat, z_toNat, z_toNat, f3]
    exact congrArg some (by omega)
  · rcases t with _ | ⟨b1, _ | ⟨b2, _ | ⟨b3, rest⟩⟩⟩
    · simp [hw] at h
    · simp [hw] at h
    · simp [hw] at h
    obtain ⟨f1, f2, f3, f4⟩ := w4_facts b0 hw
    have hb1 := b1.isLt; have hb2 := b2.isLt; have hb3 := b3.isLt
    have e : (b0 :: b1 :: b2 :: b3 :: rest).take (width b0).toNat = [b0, b1, b2, b3] := by simp [hw]
    rw [e, decode_4 b0 b1 b2 b3 hw]
    simp only [List.map]
    rw [value_4 _ _ _ _ f1, val_4 _ _ _ _ (by rw [z_toNat]; omega) (by rw [z_toNat]; omega) (by rw [z_toNat]; omega) (by rw [z_toNat]; omega), z_toNat, z_toNat, z_toNat, z_toNat, f3]
    exact congrArg some (by omega)
  · rcases t with _ | ⟨b1, _ | ⟨b2, _ | ⟨b3, _ | ⟨b4, rest⟩⟩⟩⟩
    · simp [hw] at h
    · simp [hw] at h
    · simp [hw] at h
    · simp [hw] at h
    obtain ⟨f1, f2, f3, f4⟩ := w5_facts b0 hw
    have hb1 := b1.isLt; have hb2 := b2.isLt; have hb3 := b3.isLt; have hb4 := b4.isLt
    have e : (b0 :: b1 :: b2 :: b3 :: b4 :: rest).take (width b0).toNat = [b0, b1, b2, b3, b4] := by simp [hw]
    rw [e, decode_5 b0 b1 b2 b3 b4 hw]
    simp only [List.map]
    rw [value_5 _ _ _ _ _ f1, val_5 _ _ _ _ _ (by rw [z_toNat]; omega) (by rw [z_toNat]; omega) (by rw [z_toNat]; omega) (by rw [z_toNat]; omega) (by rw [z_toNat]; omega), z_toNat, z_toNat, z_toNat, z_toNat, z_toNat, f3]
    exact congrArg some (by omega)
  · rcases t with _ | ⟨b1, _ | ⟨b2, _ | ⟨b3, _ | ⟨b4, _ | ⟨b5, rest⟩⟩⟩⟩⟩
    · simp [hw] at h
    · simp [hw] at h
    · simp [hw] at h
    · simp [hw] at h
    · simp [hw] at h
    obtain ⟨f1, f2, f3, f4⟩ := w6_facts b0 hw
    have hb1 := b1.isLt; have hb2 := b2.isLt; have hb3 := b3.isLt; have hb4 := b4.isLt; have hb5 := b5.isLt
    have e : (b0 :: b1 :: b2 :: b3 :: b4 :: b5 :: rest).take (width b0).toNat = [b0, b1, b2, b3, b4, b5] := by simp [hw]
    rw [e, decode_6 b0 b1 b2 b3 b4 b5 hw]
    simp only [List.map]
    rw [value_6 _ _ _ _ _ _ f1, val_6 _ _ _ _ _ _ (by rw [z_toNat]; omega) (by rw [z_toNat]; omega) (by rw [z_toNat]; omega) (by rw [z_toNat]; omega) (by rw [z_toNat]; omega) (by rw [z_toNat]; omega), z_toNat, z_toNat, z_toNat, z_toNat, z_toNat, z_toNat, f3]
    exact congrArg some (by omega)
  · rcases t with _ | ⟨b1, _ | ⟨b2, _ | ⟨b3, _ | ⟨b4, _ | ⟨b5, _ | ⟨b6, rest⟩⟩⟩⟩⟩⟩
    · simp [hw] at h
    · simp [hw] at h
    · simp [hw] at h
    · simp [hw] at h
    · simp [hw] at h
    · simp [hw] at h
    obtain ⟨f1, f2, f3, f4⟩ := w7_facts b0 hw
    have hb1 := b1.isLt; have hb2 := b2.isLt; have hb3 := b3.isLt; have hb4 := b4.isLt; have hb5 := b5.isLt; have hb6 := b6.isLt
    have e : (b0 :: b1 :: b2 :: b3 :: b4 :: b5 :: b6 :: rest).take (width b0).toNat = [b0, b1, b2, b3, b4, b5, b6] := by simp [hw]
    rw [e, decode_7 b0 b1 b2 b3 b4 b5 b6 hw]
    simp only [List.map]
    rw [value_7 _ _ _ _ _ _ _ f1, val_7 _ _ _ _ _ _ _ (by rw [z_toNat]; omega) (by rw [z_toNat]; omega) (by rw [z_toNat]; omega) (by rw [z_toNat]; omega) (by rw [z_toNat]; omega) (by rw [z_toNat]; omega) (by rw [z_toNat]; omega), z_toNat, z_toNat, z_toNat, z_toNat, z_toNat, z_toNat, z_toNat, f3]
    exact congrArg some (by omega)
  · rcases t with _ | ⟨b1, _ | ⟨b2, _ | ⟨b3, _ | ⟨b4, _ | ⟨b5, _ | ⟨b6, _ | ⟨b7, rest⟩⟩⟩⟩⟩⟩⟩
    · simp [hw] at h
    · simp [hw] at h
    · simp [hw] at h
    · simp [hw] at h
    · simp [hw] at h
    · simp [hw] at h
    · simp [hw] at h
    obtain ⟨f1, f2, f3⟩ := w8_facts b0 hw
    have hb1 := b1.isLt; have hb2 := b2.isLt; have hb3 := b3.isLt; have hb4 := b4.isLt; have hb5 := b5.isLt; have hb6 := b6.isLt; have hb7 := b7.isLt
    have e : (b0 :: b1 :: b2 :: b3 :: b4 :: b5 :: b6 :: b7 :: rest).take (width b0).toNat = [b0, b1, b2, b3, b4, b5, b6, b7] := by simp [hw]
    rw [e, decode_8 b0 b1 b2 b3 b4 b5 b6 b7 hw]
    simp only [List.map]
    rw [value_8 _ _ _ _ _ _ _ _ f1, val_8 _ _ _ _ _ _ _ (by rw [z_toNat]; omega) (by rw [z_toNat]; omega) (by rw [z_toNat]; omega) (by rw [z_toNat]; omega) (by rw [z_toNat]; omega) (by rw [z_toNat]; omega) (by rw [z_toNat]; omega), z_toNat, z_toNat, z_toNat, z_toNat, z_toNat, z_toNat, z_toNat]
    exact congrArg some (by omega)
  · rcases t with _ | ⟨b1, _ | ⟨b2, _ | ⟨b3, _ | ⟨b4, _ | ⟨b5, _ | ⟨b6, _ | ⟨b7, _ | ⟨b8, rest⟩⟩⟩⟩⟩⟩⟩⟩
    · simp [hw] at h
    · simp [hw] at h
    · simp [hw] at h
    · simp [hw] at h
    · simp [hw] at h
    · simp [hw] at h
    · simp [hw] at h
    · simp [hw] at h
    obtain ⟨f1, f2, f3⟩ := w9_facts b0 hw
    have hb1 := b1.isLt; have hb2 := b2.isLt; have hb3 := b3.isLt; have hb4 := b4.isLt; have hb5 := b5.isLt; have hb6 := b6.isLt; have hb7 := b7.isLt; have hb8 := b8.isLt
    have e : (b0 :: b1 :: b2 :: b3 :: b4 :: b5 :: b6 :: b7 :: b8 :: rest).take (width b0).toNat = [b0, b1, b2, b3, b4, b5, b6, b7, b8] := by simp [hw]
    rw [e, decode_9 b0 b1 b2 b3 b4 b5 b6 b7 b8 hw]
    simp only [List.map]
    rw [value_9 _ _ _ _ _ _ _ _ _ f1, val_9 _ _ _ _ _ _ _ _ (by rw [z_toNat]; omega) (by rw [z_toNat]; omega) (by rw [z_toNat]; omega) (by rw [z_toNat]; omega) (by rw [z_toNat]; omega) (by rw [z_toNat]; omega) (by rw [z_toNat]; omega) (by rw [z_toNat]; omega), z_toNat, z_toNat, z_toNat, z_toNat, z_toNat, z_toNat, z_toNat, z_toNat]
    exact congrArg some (by omega)

end Hts.Model.Ltf8
