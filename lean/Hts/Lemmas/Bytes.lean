/-
Helper lemmas about single bytes, proved by kernel evaluation over all 256 values.
-/
namespace Hts.Lemmas

theorem byte_forall (p : BitVec 8 → Prop) (h : ∀ n : Fin 256, p (BitVec.ofFin n)) : ∀ x, p x :=
  fun x => by simpa using h x.toFin

theorem ult_iff32 (v : BitVec 32) (k : Nat) (hk : k < 2 ^ 32) :
    v.ult (BitVec.ofNat 32 k) = decide (v.toNat < k) := by
  simp [BitVec.ult, Nat.mod_eq_of_lt hk]

theorem ult_iff64 (v : BitVec 64) (k : Nat) (hk : k < 2 ^ 64) :
    v.ult (BitVec.ofNat 64 k) = decide (v.toNat < k) := by
  simp [BitVec.ult, Nat.mod_eq_of_lt hk]

theorem mask_or_3f : ∀ x : BitVec 8, (x &&& 0x3f#8 ||| 0x80#8).toNat = 0x80 + x.toNat % 64 :=
  byte_forall _ (by decide +kernel)
theorem mask_or_1f : ∀ x : BitVec 8, (x &&& 0x1f#8 ||| 0xc0#8).toNat = 0xc0 + x.toNat % 32 :=
  byte_forall _ (by decide +kernel)
theorem mask_or_0f : ∀ x : BitVec 8, (x &&& 0x0f#8 ||| 0xe0#8).toNat = 0xe0 + x.toNat % 16 :=
  byte_forall _ (by decide +kernel)
theorem mask_or_07 : ∀ x : BitVec 8, (x &&& 0x07#8 ||| 0xf0#8).toNat = 0xf0 + x.toNat % 8 :=
  byte_forall _ (by decide +kernel)
theorem mask_or_03 : ∀ x : BitVec 8, (x &&& 0x03#8 ||| 0xf8#8).toNat = 0xf8 + x.toNat % 4 :=
  byte_forall _ (by decide +kernel)
theorem mask_or_01 : ∀ x : BitVec 8, (x &&& 0x01#8 ||| 0xfc#8).toNat = 0xfc + x.toNat % 2 :=
  byte_forall _ (by decide +kernel)
theorem or_f0 : ∀ x : BitVec 8, x.toNat < 16 → (x ||| 0xf0#8).toNat = 0xf0 + x.toNat :=
  byte_forall _ (by decide +kernel)

end Hts.Lemmas
