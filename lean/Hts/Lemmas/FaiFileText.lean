/-
C19 helper lemmas, part 7: the index of a well-formed file is representable in the .fai text form and
already ordered by start.
-/
import Hts.Lemmas.FaiLayout
import Hts.Lemmas.FaiText
set_option linter.unusedVariables false
set_option linter.unusedSimpArgs false
namespace Hts.Lemmas.Fai
open Hts.Model.Fai
open Hts.Spec.Fasta (isGraphic isBase isDescByte isBlankByte Rec Eol Entry seqLines terminate blankLines
  entriesFrom recsWf namesDistinct descOK)

theorem body_length_aux (w : Nat) (eol : Bytes) (fin : Bool) (hw : 1 ≤ w) (n : Nat) :
    ∀ (bs : Bytes), bs.length ≤ n → bs ≠ [] →
      bs.length ≤ (body w eol fin bs).length ∧
      (bs.take w).length + (if bs.length ≤ w ∧ fin = false then 0 else eol.length) ≤ (body w eol fin bs).length := by
  induction n with
  | zero =>
    intro bs hn hne
    exact absurd (List.eq_nil_of_length_eq_zero (Nat.le_zero.mp hn)) hne
  | succ n ih =>
    intro bs hn hne
    by_cases hlen : bs.length ≤ w
    · rw [body_single w eol fin bs hne hlen]
      have : (bs.take w).length = bs.length := by rw [List.length_take]; omega
      rw [this]
      cases fin <;> simp [hlen]
    · have hlen' : w < bs.length := by omega
      have hdne : bs.drop w ≠ [] := by
        intro h'
        have := congrArg List.length h'
        rw [List.length_drop, List.length_nil] at this; omega
      have := (ih (bs.drop w) (by rw [List.length_drop]; omega) hdne).1
      rw [body_multi w eol fin bs hw hlen']
      simp only [List.length_append, List.length_take, List.length_drop] at this ⊢
      simp only [hlen, false_and, if_false]
      omega

/-- every field of the true entry is bounded by the end offset of the record -/
theorem entry_bounds (r : Rec) (last : Bool) (h : RecOK r last) (o : Nat) :
    o < (r.entry o).start ∧ (r.entry o).start ≤ o + r.render.length ∧
    (r.entry o).length ≤ r.render.length ∧ (r.entry o).basesPerLine ≤ r.render.length ∧
    (r.entry o).bytesPerLine ≤ r.render.length := by
  by_cases hb : r.bases = []
  · have hlines : r.lines = [r.headerLine] := by simp [Rec.lines, hb, seqLines_nil]
    have hrender : r.render = (r.headerLine ++ (if r.finalNewline = true then r.eol.bytes else [])) ++
        (blankLines r.blanksAfter).flatten := by
      unfold Rec.render Rec.fileLines
      rw [hlines]
      simp [terminate, ite_append]
    rw [hrender]
    simp only [Rec.entry, hb, List.length_nil, List.take_nil, true_and, if_true, List.length_append,
      Rec.headerLine, List.length_cons]
    cases r.finalNewline <;> simp <;> omega
  · have hsl := seqLines_ne_nil r.width r.bases hb
    have hrender : r.render = (r.headerLine ++ r.eol.bytes) ++
        (body r.width r.eol.bytes r.finalNewline r.bases ++ (blankLines r.blanksAfter).flatten) := by
      unfold Rec.render Rec.fileLines body
      have : r.lines = r.headerLine :: seqLines r.width r.bases := rfl
      rw [this, terminate_cons_ne _ _ _ _ hsl]
      simp
    have hbl := body_length_aux r.width r.eol.bytes r.finalNewline h.width r.bases.length r.bases
      (Nat.le_refl _) hb
    rw [hrender]
    simp only [Rec.entry, hb, false_and, if_false, List.length_append, Rec.headerLine, List.length_cons,
      decide_eq_true_eq, List.length_take] at hbl ⊢
    omega

theorem entries_bounds (recs : List Rec) (hwf : recsWf recs = true) :
    ∀ o, (∀ e ∈ entriesFrom o recs, o < e.start ∧
        e.start ≤ o + (recs.map Rec.render).flatten.length ∧
        e.length ≤ (recs.map Rec.render).flatten.length ∧
        e.basesPerLine ≤ (recs.map Rec.render).flatten.length ∧
        e.bytesPerLine ≤ (recs.map Rec.render).flatten.length) ∧
      (entriesFrom o recs).Pairwise (fun a b => a.start < b.start) := by
  induction recs with
  | nil => intro o; simp [entriesFrom]
  | cons r rs ih =>
    intro o
    obtain ⟨last, hok⟩ := recOK_of_mem (r :: rs) hwf r List.mem_cons_self
    have hrs : recsWf rs = true := by
      cases rs with
      | nil => rfl
      | cons r' rs' =>
        simp only [recsWf, Bool.and_eq_true] at hwf
        exact hwf.2
    obtain ⟨b1, b2, b3, b4, b5⟩ := entry_bounds r last hok o
    obtain ⟨ih1, ih2⟩ := ih hrs (o + r.render.length)
    simp only [entriesFrom, List.map_cons, List.flatten_cons, List.length_append, List.mem_cons,
      List.pairwise_cons]
    refine ⟨?_, ?_, ih2⟩
    · intro e he
      rcases he with rfl | he
      · omega
      · have := ih1 e he
        omega
    · intro e he
      have := ih1 e he
      omega

/-! ### the records of a well-formed file pass `ReadFrom`'s validation (`Record.isValid`) -/

/-- `isValid` from facts about the natural-number fields -/
theorem isValid_of_nat (R : Record) (h1 : R.basesPerLine ≤ R.bytesPerLine)
    (h2 : R.basesPerLine = 0 → R.length = 0)
    (h3 : R.start + R.basesPerLine + R.length / R.basesPerLine * R.bytesPerLine < 2 ^ 63) :
    R.toRaw.isValid = true := by
  unfold RawRecord.isValid Record.toRaw
  have hneg : ¬ ((R.length : Int) < 0 ∨ (R.start : Int) < 0 ∨ (R.basesPerLine : Int) < 0 ∨
      (R.bytesPerLine : Int) < (R.basesPerLine : Int)) := by omega
  simp only [hneg, if_false]
  by_cases hb : R.basesPerLine = 0
  · have : (R.basesPerLine : Int) = 0 := by omega
    have hl : (R.length : Int) = 0 := by have := h2 hb; omega
    simp [this, hl]
  · have hb' : ¬ ((R.basesPerLine : Int) = 0) := by omega
    simp only [hb', if_false, decide_eq_true_eq]
    have hnn : (0 : Int) ≤ maxInt64 - (R.start : Int) - (R.basesPerLine : Int) := by
      unfold maxInt64; omega
    rw [Int.natCast_tdiv_eq_ediv, Int.tdiv_eq_ediv_of_nonneg hnn]
    apply Int.le_ediv_of_mul_le (by omega)
    have h3' : ((R.start + R.basesPerLine + R.length / R.basesPerLine * R.bytesPerLine : Nat) : Int) <
        ((2 ^ 63 : Nat) : Int) := Int.ofNat_lt.mpr h3
    simp only [Int.natCast_add, Int.natCast_mul, Int.natCast_ediv] at h3'
    unfold maxInt64
    have e : ((2 ^ 63 : Nat) : Int) = 2 ^ 63 := by decide
    rw [e] at h3'
    omega

/-- the full lines of the body: `(length / width)` lines of `width + eol` bytes fit in the body plus one
terminator -/
theorem body_lines_aux (w : Nat) (eol : Bytes) (fin : Bool) (hw : 1 ≤ w) (n : Nat) :
    ∀ (bs : Bytes), bs.length ≤ n → bs ≠ [] →
      bs.length / w * (w + eol.length) ≤ (body w eol fin bs).length + eol.length := by
  induction n with
  | zero =>
    intro bs hn hne
    exact absurd (List.eq_nil_of_length_eq_zero (Nat.le_zero.mp hn)) hne
  | succ n ih =>
    intro bs hn hne
    by_cases hlen : bs.length ≤ w
    · rw [body_single w eol fin bs hne hlen]
      by_cases heq : bs.length = w
      · rw [heq, Nat.div_self (by omega), Nat.one_mul, List.length_append, heq]; omega
      · rw [Nat.div_eq_of_lt (by omega)]; omega
    · have hlen' : w < bs.length := by omega
      have hdne : bs.drop w ≠ [] := by
        intro h'
        have := congrArg List.length h'
        rw [List.length_drop, List.length_nil] at this; omega
      have := ih (bs.drop w) (by rw [List.length_drop]; omega) hdne
      rw [body_multi w eol fin bs hw hlen']
      have hL : bs.length = (bs.drop w).length + w := by rw [List.length_drop]; omega
      have htl : (bs.take w).length = w := by rw [List.length_take]; omega
      rw [hL, Nat.add_div_right _ (by omega), Nat.add_mul, Nat.one_mul]
      simp only [List.length_append, htl]
      omega

theorem entry_valid_bound (r : Rec) (last : Bool) (h : RecOK r last) (o : Nat) :
    (r.entry o).basesPerLine ≤ (r.entry o).bytesPerLine ∧
    ((r.entry o).basesPerLine = 0 → (r.entry o).length = 0) ∧
    (r.entry o).start + (r.entry o).basesPerLine +
      (r.entry o).length / (r.entry o).basesPerLine * (r.entry o).bytesPerLine ≤ o + 2 * r.render.length + 2 := by
  obtain ⟨b1, b2, b3, b4, b5⟩ := entry_bounds r last h o
  by_cases hb : r.bases = []
  · simp only [Rec.entry, hb, List.length_nil, List.take_nil, if_true, Nat.le_refl, true_and, Nat.zero_div,
      Nat.zero_mul, Nat.add_zero, implies_true]
    simp only [Rec.entry, hb, List.length_nil, true_and] at b2
    omega
  · have hsl := seqLines_ne_nil r.width r.bases hb
    have hrender : r.render = (r.headerLine ++ r.eol.bytes) ++
        (body r.width r.eol.bytes r.finalNewline r.bases ++ (blankLines r.blanksAfter).flatten) := by
      unfold Rec.render Rec.fileLines body
      have : r.lines = r.headerLine :: seqLines r.width r.bases := rfl
      rw [this, terminate_cons_ne _ _ _ _ hsl]
      simp
    have hbl := body_length_aux r.width r.eol.bytes r.finalNewline h.width r.bases.length r.bases
      (Nat.le_refl _) hb
    have hlines := body_lines_aux r.width r.eol.bytes r.finalNewline h.width r.bases.length r.bases
      (Nat.le_refl _) hb
    have hLpos : 1 ≤ r.bases.length := by
      cases hbs : r.bases with
      | nil => exact absurd hbs hb
      | cons x xs => simp
    have he2 : r.eol.bytes.length ≤ 2 := by cases r.eol <;> decide
    have hw := h.width
    clear b1 b2 b3 b4 b5
    have hrl : r.render.length = r.headerLine.length + r.eol.bytes.length +
        ((body r.width r.eol.bytes r.finalNewline r.bases).length + (blankLines r.blanksAfter).flatten.length) := by
      rw [hrender]; simp only [List.length_append]
    simp only [Rec.entry, hb, false_and, if_false, List.length_take, decide_eq_true_eq] at hbl ⊢
    refine ⟨by omega, by omega, ?_⟩
    by_cases hlen : r.bases.length ≤ r.width
    · -- one line: BasesPerLine = length, one line of BytesPerLine bytes = the body
      have hm : min r.width r.bases.length = r.bases.length := by omega
      rw [hm] at hbl ⊢
      rw [Nat.div_self (by omega), Nat.one_mul]
      omega
    · have hm : min r.width r.bases.length = r.width := by omega
      rw [hm] at hbl ⊢
      simp only [hlen, false_and, if_false] at hbl ⊢
      omega

theorem entries_valid_bound (recs : List Rec) (hwf : recsWf recs = true) :
    ∀ o, ∀ e ∈ entriesFrom o recs, e.basesPerLine ≤ e.bytesPerLine ∧ (e.basesPerLine = 0 → e.length = 0) ∧
      e.start + e.basesPerLine + e.length / e.basesPerLine * e.bytesPerLine ≤
        2 * (o + (recs.map Rec.render).flatten.length) + 2 := by
  induction recs with
  | nil => intro o e he; simp [entriesFrom] at he
  | cons r rs ih =>
    intro o e he
    obtain ⟨last, hok⟩ := recOK_of_mem (r :: rs) hwf r List.mem_cons_self
    have hrs : recsWf rs = true := by
      cases rs with
      | nil => rfl
      | cons r' rs' =>
        simp only [recsWf, Bool.and_eq_true] at hwf
        exact hwf.2
    simp only [entriesFrom, List.mem_cons] at he
    simp only [List.map_cons, List.flatten_cons, List.length_append]
    rcases he with rfl | he
    · obtain ⟨v1, v2, v3⟩ := entry_valid_bound r last hok o
      exact ⟨v1, v2, by omega⟩
    · obtain ⟨v1, v2, v3⟩ := ih hrs (o + r.render.length) e he
      exact ⟨v1, v2, by omega⟩

theorem entries_names (o : Nat) (recs : List Rec) :
    (entriesFrom o recs).map (·.name) = recs.map (·.name) := by
  induction recs generalizing o with
  | nil => rfl
  | cons r rs ih => simp [entriesFrom, Rec.entry, ih]

theorem nodup_of_namesDistinct (recs : List Rec) (h : namesDistinct recs = true) :
    (recs.map (·.name)).Nodup := by
  induction recs with
  | nil => simp
  | cons r rs ih =>
    simp only [namesDistinct, Bool.and_eq_true, Bool.not_eq_true', List.any_eq_false, beq_iff_eq] at h
    simp only [List.map_cons, List.nodup_cons, List.mem_map, not_exists, not_and]
    exact ⟨fun x hx e => h.1 x hx e, ih h.2⟩

theorem nameOK_of_graphic (name : Bytes) (h : ∀ b ∈ name, isGraphic b = true) (hq : DQ ∉ name) :
    NameOK name := by
  refine ⟨?_, ?_, hq⟩
  · intro hm
    have := h _ hm
    revert this; decide
  · intro hm
    have := h _ hm
    revert this; decide

/-- the index of a well-formed file satisfies the conditions of the text round trip and is in start order -/
theorem file_indexOK (f : Hts.Spec.Fasta.File) (h : f.WF) (hq : ∀ r ∈ f.recs, DQ ∉ r.name)
    (hsz : 2 * f.render.length + 2 < 2 ^ 63) :
    IndexOK (f.entries.map ofEntry) ∧ sortByStart (f.entries.map ofEntry) = f.entries.map ofEntry := by
  obtain ⟨_, hwf, hdist, _⟩ := h
  obtain ⟨hb, hp⟩ := entries_bounds f.recs hwf f.leading.length
  have hrl : f.render.length = f.leading.length + (f.recs.map Rec.render).flatten.length := by
    simp [Hts.Spec.Fasta.File.render]
  have hlen : f.leading.length + (f.recs.map Rec.render).flatten.length < 2 ^ 63 := by omega
  have hv := entries_valid_bound f.recs hwf f.leading.length
  refine ⟨⟨?_, ?_, ?_, ?_⟩, ?_⟩
  · have : (f.entries.map ofEntry).map (·.name) = f.recs.map (·.name) := by
      rw [List.map_map]
      have : ((fun x : Record => x.name) ∘ ofEntry) = (fun e : Entry => e.name) := rfl
      rw [this]
      exact entries_names _ f.recs
    rw [this]
    exact nodup_of_namesDistinct _ hdist
  · intro R hR
    simp only [List.mem_map] at hR
    obtain ⟨e, he, rfl⟩ := hR
    -- e.name is the name of some record
    have hn : e.name ∈ f.recs.map (·.name) := by
      rw [← entries_names f.leading.length f.recs]
      exact List.mem_map.mpr ⟨e, he, rfl⟩
    obtain ⟨r, hr, hre⟩ := List.mem_map.mp hn
    obtain ⟨last, hok⟩ := recOK_of_mem f.recs hwf r hr
    have : (ofEntry e).name = r.name := hre.symm
    rw [this]
    exact nameOK_of_graphic r.name hok.name_g (hq r hr)
  · intro R hR
    simp only [List.mem_map] at hR
    obtain ⟨e, he, rfl⟩ := hR
    have := hb e he
    simp only [Small, ofEntry]
    omega
  · intro R hR
    simp only [List.mem_map] at hR
    obtain ⟨e, he, rfl⟩ := hR
    obtain ⟨v1, v2, v3⟩ := hv e he
    exact isValid_of_nat (ofEntry e) v1 v2 (by simp only [ofEntry]; omega)
  · apply sortByStart_sorted
    rw [List.pairwise_map]
    exact hp

end Hts.Lemmas.Fai
