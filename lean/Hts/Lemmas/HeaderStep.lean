/-
C07 helper lemmas, part 7: every operation of a history keeps the invariant of the world.
-/
import Hts.Lemmas.HeaderMerge
namespace Hts.Model.Header

theorem kinv_mergeAdd (hn : Nat) : ∀ (xs : List (Obj RefD)) (k : KW RefD) (p : Nat), KInv k →
    KInv (mergeAdd k p hn xs).1 ∧ (mergeAdd k p hn xs).1.tabs.length = k.tabs.length := by
  intro xs
  induction xs with
  | nil => intro k p hk; exact ⟨hk, rfl⟩
  | cons x xs ih =>
    intro k p hk
    rw [mergeAdd]
    dsimp only
    have h1 := kinv_addReference (kinv_alloc hk { x with owner := none, id := -1, dat := freshUri p x.dat } rfl) hn
      (k.alloc { x with owner := none, id := -1, dat := freshUri p x.dat }).2
    have h2 := addReference_tabs_len (k.alloc { x with owner := none, id := -1, dat := freshUri p x.dat }).1 hn
      (k.alloc { x with owner := none, id := -1, dat := freshUri p x.dat }).2
    generalize addReference _ hn _ = res at h1 h2
    obtain ⟨k2, r⟩ := res
    cases r
    case ok =>
      dsimp only
      obtain ⟨a, b⟩ := ih k2 (p + 1) h1
      exact ⟨a, by rw [b, h2]; rfl⟩
    all_goals exact ⟨h1, by rw [h2]; rfl⟩

theorem kinv_mergeSources (hn : Nat) : ∀ (ss : List Nat) (k : KW RefD) (p : Nat), KInv k →
    KInv (mergeSources k p hn ss).1 ∧ (mergeSources k p hn ss).1.tabs.length = k.tabs.length := by
  intro ss
  induction ss with
  | nil => intro k p hk; exact ⟨hk, rfl⟩
  | cons s ss ih =>
    intro k p hk
    rw [mergeSources]
    obtain ⟨h1, h2⟩ := kinv_mergeAdd hn (objsOf k s) k p hk
    generalize mergeAdd k p hn (objsOf k s) = res at h1 h2
    obtain ⟨k1, p1, r⟩ := res
    cases r
    case ok =>
      dsimp only
      obtain ⟨a, b⟩ := ih k1 p1 h1
      exact ⟨a, by rw [b, h2]⟩
    all_goals exact ⟨h1, h2⟩

theorem winv_setRefs {w : World} (hw : WInv w) (k : KW RefD) (p : Nat) (hk : KInv k)
    (hl : k.tabs.length = w.refs.tabs.length) : WInv { w with refs := k, nextUri := p } :=
  ⟨hk, hw.rgs, hw.pgs, by simp only; rw [hl]; exact hw.lr, hw.lg, hw.lp⟩

theorem winv_mergeInit {w : World} (hw : WInv w) (s0 : Nat) : WInv (mergeInit w s0) := by
  unfold mergeInit
  dsimp only
  split
  · exact winv_setHdr (winv_cloneHeader hw s0) _ _
  · exact winv_cloneHeader hw s0

theorem winv_mergeHeaders {w : World} (hw : WInv w) (srcs : List Nat) : WInv (mergeHeaders w srcs).1 := by
  unfold mergeHeaders
  split
  · next s0 s1 ss =>
    dsimp only
    have h2 := winv_mergeInit hw s0
    generalize mergeInit w s0 = w2 at h2
    obtain ⟨a, b⟩ := kinv_mergeSources w.hdrs.length (s1 :: ss) w2.refs w2.nextUri h2.refs
    generalize mergeSources w2.refs w2.nextUri w.hdrs.length (s1 :: ss) = res at a b
    obtain ⟨k, p, r⟩ := res
    have h3 := winv_setRefs h2 k p a b
    cases r
    case ok =>
      dsimp only
      split
      · exact h3
      · exact winv_markDead h3 _
    all_goals exact winv_markDead h3 _
  · exact winv_pushHeader hw _

theorem winv_refs {w : World} (hw : WInv w) (k : KW RefD) (hk : KInv k) (hl : k.tabs.length = w.refs.tabs.length) :
    WInv { w with refs := k } := ⟨hk, hw.rgs, hw.pgs, by simp only; rw [hl]; exact hw.lr, hw.lg, hw.lp⟩
theorem winv_rgs {w : World} (hw : WInv w) (k : KW RgD) (hk : KInv k) (hl : k.tabs.length = w.rgs.tabs.length) :
    WInv { w with rgs := k } := ⟨hw.refs, hk, hw.pgs, hw.lr, by simp only; rw [hl]; exact hw.lg, hw.lp⟩
theorem winv_pgs {w : World} (hw : WInv w) (k : KW PgD) (hk : KInv k) (hl : k.tabs.length = w.pgs.tabs.length) :
    WInv { w with pgs := k } := ⟨hw.refs, hw.rgs, hk, hw.lr, hw.lg, by simp only; rw [hl]; exact hw.lp⟩

theorem winv_pools {w : World} (hw : WInv w) (a b c : List (Option Nat)) (p : Nat) :
    WInv { w with rpool := a, gpool := b, ppool := c, nextUri := p } :=
  ⟨hw.refs, hw.rgs, hw.pgs, hw.lr, hw.lg, hw.lp⟩

theorem winv_empty : WInv {} := ⟨kinv_empty, kinv_empty, kinv_empty, rfl, rfl, rfl⟩

/-- every operation keeps the invariant -/
theorem winv_step (E : Ext) {w : World} (hw : WInv w) (op : Op) : WInv (step E w op).w := by
  cases op with
  | h0 => exact winv_pushHeader hw _
  | hd text ps =>
    simp only [step]; split
    · exact winv_newHeader E hw _ _
    · exact winv_pushHeader hw _
  | pa text => exact winv_unmarshalText E (winv_pushHeader hw _) _ _
  | de b => exact winv_decodeBinary E (winv_pushHeader hw _) _ _
  | um h text =>
    simp only [step]; split
    · exact winv_unmarshalText E hw _ _
    · exact hw
  | co h c =>
    simp only [step]; split
    · exact winv_setHdr hw _ _
    · exact hw
  | sh h v so go =>
    simp only [step]; split
    · exact winv_setHdr hw _ _
    · exact hw
  | hs h t v =>
    simp only [step]; split
    · exact winv_setHdr hw _ _
    · exact hw
  | nr name d =>
    exact winv_pools (winv_refs hw _ (kinv_alloc hw.refs _ rfl) rfl) _ _ _ _
  | ng name d =>
    exact winv_pools (winv_rgs hw _ (kinv_alloc hw.rgs _ rfl) rfl) _ _ _ _
  | np name d =>
    exact winv_pools (winv_pgs hw _ (kinv_alloc hw.pgs _ rfl) rfl) _ _ _ _
  | ar h p =>
    simp only [step]; split
    · exact winv_refs hw _ (kinv_addReference hw.refs _ _) (addReference_tabs_len _ _ _)
    · exact hw
  | rr h p =>
    simp only [step]; split
    · exact winv_refs hw _ (kinv_remove hw.refs _ _) (remove_tabs_len _ _ _)
    · exact hw
  | sr p n =>
    simp only [step]; split
    · exact winv_refs hw _ (kinv_setName hw.refs _ _) (setName_tabs_len _ _ _)
    · exact hw
  | gr h i =>
    simp only [step]; split <;> exact winv_pools hw _ _ _ _
  | cr p =>
    simp only [step]; split
    · exact winv_pools (winv_refs hw _ (kinv_cloneObj hw.refs _ _) (cloneObj_tabs_len _ _ _)) _ _ _ _
    · exact winv_pools hw _ _ _ _
  | ag h p =>
    simp only [step]; split
    · exact winv_rgs hw _ (kinv_addUniq hw.rgs _ _) (addUniq_tabs_len _ _ _)
    · exact hw
  | rg h p =>
    simp only [step]; split
    · exact winv_rgs hw _ (kinv_remove hw.rgs _ _) (remove_tabs_len _ _ _)
    · exact hw
  | sg p n =>
    simp only [step]; split
    · exact winv_rgs hw _ (kinv_setName hw.rgs _ _) (setName_tabs_len _ _ _)
    · exact hw
  | gg h i =>
    simp only [step]; split <;> exact winv_pools hw _ _ _ _
  | cg p =>
    simp only [step]; split
    · exact winv_pools (winv_rgs hw _ (kinv_cloneObj hw.rgs _ _) (cloneObj_tabs_len _ _ _)) _ _ _ _
    · exact winv_pools hw _ _ _ _
  | ap h p =>
    simp only [step]; split
    · exact winv_pgs hw _ (kinv_addUniq hw.pgs _ _) (addUniq_tabs_len _ _ _)
    · exact hw
  | rp h p =>
    simp only [step]; split
    · exact winv_pgs hw _ (kinv_remove hw.pgs _ _) (remove_tabs_len _ _ _)
    · exact hw
  | sp p n =>
    simp only [step]; split
    · exact winv_pgs hw _ (kinv_setName hw.pgs _ _) (setName_tabs_len _ _ _)
    · exact hw
  | gp h i =>
    simp only [step]; split <;> exact winv_pools hw _ _ _ _
  | cp p =>
    simp only [step]; split
    · exact winv_pools (winv_pgs hw _ (kinv_cloneObj hw.pgs _ _) (cloneObj_tabs_len _ _ _)) _ _ _ _
    · exact winv_pools hw _ _ _ _
  | cl h =>
    simp only [step]; split
    · exact winv_cloneHeader hw _
    · exact winv_pushHeader hw _
  | mg hs =>
    simp only [step]; split
    · exact winv_mergeHeaders hw _
    · exact winv_pushHeader hw _

theorem winv_run (E : Ext) : ∀ (ops : List Op) (w : World), WInv w → WInv (run E w ops) := by
  intro ops
  induction ops with
  | nil => intro w hw; exact hw
  | cons op ops ih => intro w hw; exact ih _ (winv_step E hw op)

end Hts.Model.Header
