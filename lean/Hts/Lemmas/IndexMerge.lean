/-
Merge strategies for Hts.Model.Index: the strategies are C17's models (Hts.Model.Merge) carried over to
integer offsets; their enclosure law (Hts.Lemmas.MergeEnc) is transported by `encLaw_lift`, so every
provided strategy returns, for a list sorted by begin, a list in which every input chunk is enclosed by
some chunk (`EncLaw`);
and `MergeChunks s` keeps what completeness needs (`IdxCover`) for every strategy with that law.
-/
import Hts.Lemmas.IndexChunks
import Hts.Lemmas.MergeEnc
namespace Hts.Model.Index

theorem coveredBy_trans {cs : List Chunk} {c p : Chunk} (h : coveredBy cs c) (hp : c.encloses p) :
    coveredBy cs p := by
  obtain ⟨x, hx, h1, h2⟩ := h
  exact ⟨x, hx, by unfold Chunk.encloses at *; omega⟩

/-- the law a merge strategy has to satisfy: on a list sorted by begin no input chunk is lost -/
def EncLaw (s : List Chunk → List Chunk) : Prop :=
  ∀ cs, SortedB cs → ∀ c, c ∈ cs → coveredBy (s cs) c

theorem encLaw_id : EncLaw id := fun _ _ c hc => ⟨c, hc, Int.le_refl _, Int.le_refl _⟩

namespace Local
open Hts.Model.Merge in
theorem vOff_toOff (v : Int) : Hts.Model.Merge.vOff (toOff v) = v := by
  unfold Hts.Model.Merge.vOff toOff
  simp only
  omega

theorem ofM_toM (c : Chunk) : ofM (toM c) = c := by
  unfold ofM toM
  simp [vOff_toOff]

/-- begin-sortedness carries over to C17's chain form -/
theorem sortedB_map_toM : ∀ cs : List Chunk, SortedB cs → Hts.Model.Merge.SortedB (cs.map toM) := by
  intro cs
  induction cs with
  | nil => intro _; trivial
  | cons a as ih =>
    intro h
    have h' := List.pairwise_cons.1 h
    cases as with
    | nil => trivial
    | cons b bs =>
      refine ⟨?_, ih h'.2⟩
      show Hts.Model.Merge.vOff (toOff a.b) ≤ Hts.Model.Merge.vOff (toOff b.b)
      rw [vOff_toOff, vOff_toOff]
      exact h'.1 b List.mem_cons_self

/-- THE BRIDGE: the enclosure law of C17's model (Hts.Lemmas.MergeEnc) gives `EncLaw` for the strategy
carried over to integer offsets -/
theorem encLaw_lift (s : List Hts.Model.Merge.Chunk → List Hts.Model.Merge.Chunk)
    (hs : ∀ ms, Hts.Model.Merge.SortedB ms → ∀ m, m ∈ ms → Hts.Model.Merge.enclosedBy (s ms) m) :
    EncLaw (lift s) := by
  intro cs hsorted c hc
  obtain ⟨m', hm', h1, h2⟩ := hs (cs.map toM) (sortedB_map_toM cs hsorted) (toM c) (List.mem_map.2 ⟨c, hc, rfl⟩)
  refine ⟨ofM m', List.mem_map.2 ⟨m', hm', rfl⟩, ?_⟩
  unfold Chunk.encloses ofM
  simp only [toM, vOff_toOff] at h1 h2
  exact ⟨h1, h2⟩

theorem encLaw_adjacent : EncLaw adjacent := encLaw_lift _ Hts.Model.Merge.adjacent_enc
theorem encLaw_compressor (near : Int) : EncLaw (compressor near) :=
  encLaw_lift _ (Hts.Model.Merge.compressor_enc near)
theorem encLaw_squash : EncLaw squash := encLaw_lift _ Hts.Model.Merge.squash_enc

end Local

/-! ### `MergeChunks` keeps completeness -/

theorem mergeChunks_cover (s : List Chunk → List Chunk) (hs : EncLaw s) (i : Index) (hist : List Rec)
    (cov : IdxCover i hist) : IdxCover (mergeChunks s i) hist := by
  refine { flag := cov.flag, ridLt := ?_, refCover := ?_ }
  · intro a ha
    have := cov.ridLt a ha
    simpa [mergeChunks] using this
  · intro j ref' hj
    simp only [mergeChunks, List.getElem?_map] at hj
    cases href : i.refs[j]? with
    | none => rw [href] at hj; cases hj
    | some ref =>
      rw [href] at hj
      simp only [Option.map_some, Option.some.injEq] at hj
      subst hj
      have c := cov.refCover j ref href
      refine { bins := ?_, nodup := ?_, tilesLen := c.tilesLen, tilesLe := c.tilesLe }
      · intro r hr
        obtain ⟨bn, h1, h2, x, hx, hxe⟩ := c.bins r hr
        refine ⟨{ bn with chunks := s (sortChunks bn.chunks) }, List.mem_map.2 ⟨bn, h1, rfl⟩, h2, ?_⟩
        exact coveredBy_trans (hs _ (sortChunks_sorted _) x (mem_sortChunks.2 hx)) hxe
      · simp only [List.map_map]
        exact c.nodup

end Hts.Model.Index
