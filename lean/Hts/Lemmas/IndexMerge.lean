/-
Merge strategies on the integer-offset chunks of Hts.Model.Index: every provided strategy returns,
for a list sorted by begin, a list in which every input chunk is enclosed by some chunk (`EncLaw`);
and `MergeChunks s` keeps what completeness needs (`IdxCover`) for every strategy with that law.
-/
import Hts.Lemmas.IndexChunks
namespace Hts.Model.Index

theorem coveredBy_trans {cs : List Chunk} {c p : Chunk} (h : coveredBy cs c) (hp : c.encloses p) :
    coveredBy cs p := by
  obtain ⟨x, hx, h1, h2⟩ := h
  exact ⟨x, hx, by unfold Chunk.encloses at *; omega⟩

/-- the law a merge strategy has to satisfy: on a list sorted by begin no input chunk is lost -/
def EncLaw (s : List Chunk → List Chunk) : Prop :=
  ∀ cs, SortedB cs → ∀ c, c ∈ cs → coveredBy (s cs) c

theorem encLaw_id : EncLaw id := fun _ _ c hc => ⟨c, hc, Int.le_refl _, Int.le_refl _⟩

namespace Local

theorem mergeAux_enc (close : Chunk → Chunk → Bool) : ∀ (rest : List Chunk) (cur : Chunk),
    (∀ x, x ∈ rest → cur.b ≤ x.b) → SortedB rest →
    ∀ p, (cur.encloses p ∨ ∃ x, x ∈ rest ∧ x.encloses p) → coveredBy (mergeAux close cur rest) p := by
  intro rest
  induction rest with
  | nil =>
    intro cur _ _ p hp
    rcases hp with hp | ⟨x, hx, _⟩
    · exact ⟨cur, by simp [mergeAux], hp⟩
    · cases hx
  | cons r rest ih =>
    intro cur hcur hs p hp
    have hs' := List.pairwise_cons.1 hs
    unfold mergeAux
    split
    · apply ih
      · intro x hx; exact hcur x (List.mem_cons_of_mem _ hx)
      · exact hs'.2
      · have hrb := hcur r List.mem_cons_self
        rcases hp with hp | ⟨x, hx, hxp⟩
        · left
          unfold Chunk.encloses at *
          simp only
          split <;> omega
        · rcases List.mem_cons.1 hx with rfl | hx
          · left
            unfold Chunk.encloses at *
            simp only
            split <;> omega
          · right; exact ⟨x, hx, hxp⟩
    · rcases hp with hp | ⟨x, hx, hxp⟩
      · exact ⟨cur, List.mem_cons_self, hp⟩
      · have := ih r (fun y hy => hs'.1 y hy) hs'.2 p
          (by
            rcases List.mem_cons.1 hx with rfl | hx
            · left; exact hxp
            · right; exact ⟨x, hx, hxp⟩)
        obtain ⟨y, hy, hyp⟩ := this
        exact ⟨y, List.mem_cons_of_mem _ hy, hyp⟩

theorem encLaw_adjacent : EncLaw adjacent := by
  intro cs hs c hc
  cases cs with
  | nil => cases hc
  | cons x xs =>
    have hs' := List.pairwise_cons.1 hs
    unfold adjacent
    apply mergeAux_enc _ xs x (fun y hy => hs'.1 y hy) hs'.2
    rcases List.mem_cons.1 hc with rfl | hc
    · left; exact ⟨Int.le_refl _, Int.le_refl _⟩
    · right; exact ⟨c, hc, Int.le_refl _, Int.le_refl _⟩

theorem encLaw_compressor (near : Int) : EncLaw (compressor near) := by
  intro cs hs c hc
  cases cs with
  | nil => cases hc
  | cons x xs =>
    have hs' := List.pairwise_cons.1 hs
    unfold compressor
    apply mergeAux_enc _ xs x (fun y hy => hs'.1 y hy) hs'.2
    rcases List.mem_cons.1 hc with rfl | hc
    · left; exact ⟨Int.le_refl _, Int.le_refl _⟩
    · right; exact ⟨c, hc, Int.le_refl _, Int.le_refl _⟩

theorem foldl_max_ge (xs : List Chunk) (e0 : Int) :
    e0 ≤ xs.foldl (fun r c => if c.e > r then c.e else r) e0 ∧
      ∀ c, c ∈ xs → c.e ≤ xs.foldl (fun r c => if c.e > r then c.e else r) e0 := by
  induction xs generalizing e0 with
  | nil => exact ⟨Int.le_refl _, by intro c hc; cases hc⟩
  | cons x xs ih =>
    simp only [List.foldl_cons]
    by_cases hx : x.e > e0
    · simp only [hx, if_true]
      obtain ⟨h1, h2⟩ := ih x.e
      refine ⟨by omega, ?_⟩
      intro c hc
      rcases List.mem_cons.1 hc with rfl | hc
      · exact h1
      · exact h2 c hc
    · simp only [hx, if_false]
      obtain ⟨h1, h2⟩ := ih e0
      refine ⟨h1, ?_⟩
      intro c hc
      rcases List.mem_cons.1 hc with rfl | hc
      · omega
      · exact h2 c hc

theorem encLaw_squash : EncLaw squash := by
  intro cs hs c hc
  cases cs with
  | nil => cases hc
  | cons x xs =>
    have hs' := List.pairwise_cons.1 hs
    obtain ⟨h1, h2⟩ := foldl_max_ge xs x.e
    refine ⟨⟨x.b, xs.foldl (fun r c => if c.e > r then c.e else r) x.e⟩, List.mem_singleton.2 rfl, ?_⟩
    unfold Chunk.encloses
    simp only
    rcases List.mem_cons.1 hc with rfl | hc
    · exact ⟨Int.le_refl _, h1⟩
    · exact ⟨hs'.1 c hc, h2 c hc⟩

end Local

/-! ### `MergeChunks` keeps completeness -/

theorem mergeChunks_cover (s : List Chunk → List Chunk) (hs : EncLaw s) (i : Index) (hist : List Rec)
    (cov : IdxCover i hist) : IdxCover (mergeChunks s i) hist := by
  refine { flag := cov.flag, ridLt := ?_, refCover := ?_ }
  · intro a ha
    have := cov.ridLt a ha
    simpa [mergeChunks] using this
  · intro j ref' hj
    simp only [mergeChunks, List.getElem?_map] at hj
    cases href : i.refs[j]? with
    | none => rw [href] at hj; cases hj
    | some ref =>
      rw [href] at hj
      simp only [Option.map_some, Option.some.injEq] at hj
      subst hj
      have c := cov.refCover j ref href
      refine { bins := ?_, nodup := ?_, tilesLen := c.tilesLen, tilesLe := c.tilesLe }
      · intro r hr
        obtain ⟨bn, h1, h2, x, hx, hxe⟩ := c.bins r hr
        refine ⟨{ bn with chunks := s (sortChunks bn.chunks) }, List.mem_map.2 ⟨bn, h1, rfl⟩, h2, ?_⟩
        exact coveredBy_trans (hs _ (sortChunks_sorted _) x (mem_sortChunks.2 hx)) hxe
      · simp only [List.map_map]
        exact c.nodup

end Hts.Model.Index
