/-
Read-ahead protocol: every consumer step preserves `Inv` (receiving in `nextBlock` never overruns the loop bound).
-/
import Hts.Lemmas.ReaderLTSWorker
namespace Hts.Model.ReadAhead

variable {cfg : Cfg} {s t : State} {ev : Option Ev}

theorem expect_recv_match {e i e' : Nat} {b : Blk} (hm : Mono cfg.chain) (hx : Expect cfg s e i)
    (hst : stream s = .blk b :: stream t) (hc : t.control = s.control)
    (hn : t.worker.natural = s.worker.natural) (hwf : WFBlk cfg.chain b) (hb : b.base = some e)
    (hg : b.next = some e') : Expect cfg t e' 0 := by
  obtain ⟨old, new, d, T, hs, hctl, hadv, hbound⟩ := hx
  have hch : cfg.chain e = some e' := by
    simp only [WFBlk, hb] at hwf
    rcases hwf with h | h
    · rw [← h, hg]
    · rw [hg] at h; cases h
  cases old with
  | nil =>
    simp only [List.nil_append] at hs
    rw [hst] at hs
    cases hcs : s.control with
    | some v => simp only [hcs] at hctl; rw [hctl.1] at hs; cases hs
    | none =>
      simp only [hcs] at hctl
      rw [← hs] at hctl
      simp only [ChainFrom] at hctl
      obtain ⟨hbT, _, hrest⟩ := hctl
      refine ⟨[], stream t, 0, b.next, rfl, ?_, by simp [adv, hg], by simp; omega⟩
      rw [hc, hcs, hn]; exact hrest
  | cons a old' =>
    rw [hst] at hs
    simp only [List.cons_append, List.cons.injEq] at hs
    obtain ⟨rfl, hs⟩ := hs
    refine ⟨old', new, d + 1, T, hs, by rw [hc, hn]; exact hctl, ?_, by simp at hbound ⊢; omega⟩
    rw [adv_succ, hadv]; simpa using hch

theorem expect_recv_skip {e i : Nat} {b : Blk} (hm : Mono cfg.chain) (hx : Expect cfg s e i)
    (hst : stream s = .blk b :: stream t) (hc : t.control = s.control)
    (hn : t.worker.natural = s.worker.natural) (hwf : WFBlk cfg.chain b) (hb : b.base ≠ some e)
    (hg : b.next ≠ none) : Expect cfg t e (i + 1) ∧ i + 2 ≤ cfg.rd := by
  obtain ⟨old, new, d, T, hs, hctl, hadv, hbound⟩ := hx
  cases old with
  | nil =>
    simp only [List.nil_append] at hs
    rw [hst] at hs
    cases hcs : s.control with
    | some v => simp only [hcs] at hctl; rw [hctl.1] at hs; cases hs
    | none =>
      simp only [hcs] at hctl
      rw [← hs] at hctl
      simp only [ChainFrom] at hctl
      obtain ⟨hbT, _, hrest⟩ := hctl
      cases d with
      | zero => simp only [adv] at hadv; rw [hadv] at hbT; exact absurd hbT hb
      | succ d' =>
        cases hT : T with
        | none => rw [hT, adv_none] at hadv; cases hadv
        | some tt =>
          rw [hT] at hadv hbT
          simp only [adv] at hadv
          have hnx : b.next = cfg.chain tt := by
            simp only [WFBlk, hbT] at hwf
            rcases hwf with h | h
            · exact h
            · exact absurd h hg
          refine ⟨⟨[], stream t, d', b.next, rfl, ?_, by rw [hnx]; exact hadv, by simp at hbound ⊢; omega⟩,
            by simp at hbound; omega⟩
          rw [hc, hcs, hn]; exact hrest
  | cons a old' =>
    rw [hst] at hs
    simp only [List.cons_append, List.cons.injEq] at hs
    obtain ⟨rfl, hs⟩ := hs
    exact ⟨⟨old', new, d, T, hs, by rw [hc, hn]; exact hctl, hadv, by simp at hbound ⊢; omega⟩,
      by simp at hbound; omega⟩

theorem stream_length_le (s : State) : (stream s).length ≤ s.working.length + s.worker.holds := by
  simp only [stream, List.length_append, List.length_map]
  cases s.worker <;> simp [Worker.committed, Worker.holds]

/-- An expectation only depends on the stream, `control` and what the worker reads next. -/
theorem expect_congr {e i : Nat} (hx : Expect cfg s e i) (hst : stream t = stream s)
    (hc : t.control = s.control) (hn : t.worker.natural = s.worker.natural) : Expect cfg t e i := by
  obtain ⟨old, new, d, T, hs, hctl, hadv, hbound⟩ := hx
  exact ⟨old, new, d, T, by rw [hst]; exact hs, by rw [hc, hn]; exact hctl, hadv, hbound⟩

/-- The redirect just sent makes everything in flight old. -/
theorem expect_after_send {e : Nat} (hcount : (stream t).length + 1 ≤ cfg.rd)
    (hc : t.control = some (some e)) : Expect cfg t e 0 :=
  ⟨stream t, [], 0, some e, by simp, by simp [hc], rfl, by simpa using hcount⟩

theorem api_inv {c f : Bool} (hi : Inv cfg s) (h : apiStep cfg s c f = some (ev, t)) : Inv cfg t := by
  have hcount := hi.count
  unfold apiStep at h
  cases hc : s.cons with
  | idle =>
    simp only [hc] at h hcount
    have hx := hi.expIdle (Or.inl hc)
    have hnc := not_closing_flags hi (by simp [Closing, hc])
    by_cases hcf : f = true
    · simp [hcf] at h
    · simp only [hcf, if_false, Bool.false_eq_true] at h
      cases hs : s.script with
      | nil => simp [hs] at h
      | cons op rest =>
        simp only [hs] at h
        cases op with
        | nexts =>
          by_cases hch : c = true
          · simp only [hch, if_true, Option.some.injEq, Prod.mk.injEq] at h
            obtain ⟨-, rfl⟩ := h
            refine ⟨hi.rd2, hi.mono, by simpa [hc, Cons.holds] using hcount, hi.wfCur, hi.wfWorking, hi.wfPush,
              by simpa [Closing, hc] using hi.ctl, by simpa [hc] using hi.wt, hi.exited, by simp [hc],
              ?_, by simp [hc], by simp [hc], by simp [hc], by simp [hc]⟩
            intro _ e he
            exact expect_congr (hx e he) rfl rfl rfl
          · simp only [hch, if_false, Bool.false_eq_true] at h
            cases hn : s.cur.next with
            | none => simp [hn] at h
            | some e =>
              simp only [hn, Option.some.injEq, Prod.mk.injEq] at h
              obtain ⟨-, rfl⟩ := h
              refine ⟨hi.rd2, hi.mono, by simpa [Cons.holds] using hcount, hi.wfCur, hi.wfWorking, hi.wfPush,
                by simpa [Closing, hc] using hi.ctl, by simpa [hc] using hi.wt, hi.exited, by simp,
                by simp, ?_, by simp, by simp, by simp⟩
              intro e' i' he
              simp only [Cons.scan.injEq] at he
              obtain ⟨rfl, rfl⟩ := he
              exact expect_congr (hx e hn) rfl rfl rfl
        | next =>
          by_cases hch : c = true
          · simp [hch] at h
          simp only [hch, if_false, Bool.false_eq_true] at h
          cases hn : s.cur.next with
          | some e =>
            simp only [hn, Option.some.injEq, Prod.mk.injEq] at h
            obtain ⟨-, rfl⟩ := h
            refine ⟨hi.rd2, hi.mono, by simpa [Cons.holds] using hcount, hi.wfCur, hi.wfWorking, hi.wfPush,
              by simpa [Closing, hc] using hi.ctl, by simpa [hc] using hi.wt, hi.exited, by simp,
              by simp, ?_, by simp, by simp, by simp⟩
            intro e' i' he
            simp only [Cons.scan.injEq] at he
            obtain ⟨rfl, rfl⟩ := he
            exact expect_congr (hx e hn) rfl rfl rfl
          | none =>
            simp only [hn, Option.some.injEq, Prod.mk.injEq] at h
            obtain ⟨-, rfl⟩ := h
            refine ⟨hi.rd2, hi.mono, by simpa [Cons.holds] using hcount, hi.wfCur, hi.wfWorking, hi.wfPush,
              by simpa [Closing, hc] using hi.ctl, by simpa [hc] using hi.wt, hi.exited, by simp,
              ?_, by simp, by simp, by simp, by simp⟩
            intro _ e he; simp only at he; rw [hn] at he; cases he
        | seek off =>
          by_cases hch : c = true
          · simp [hch] at h
          simp only [hch, if_false, Bool.false_eq_true] at h
          by_cases hfast : s.cur.base = some off ∧ good s.cur = true
          · simp only [hfast, and_self, if_true, Option.some.injEq, Prod.mk.injEq] at h
            obtain ⟨-, rfl⟩ := h
            refine ⟨hi.rd2, hi.mono, by simpa [Cons.holds] using hcount, hi.wfCur, hi.wfWorking, hi.wfPush,
              by simpa [Closing, hc] using hi.ctl, by simpa [hc] using hi.wt, hi.exited, by simp,
              ?_, by simp, by simp, by simp, by simp⟩
            intro _ e he
            exact expect_congr (hx e he) rfl rfl rfl
          · simp only [hfast, if_false, Option.some.injEq, Prod.mk.injEq] at h
            obtain ⟨-, rfl⟩ := h
            exact ⟨hi.rd2, hi.mono, by simpa [Cons.holds] using hcount, hi.wfCur, hi.wfWorking, hi.wfPush,
              by simpa [Closing, hc] using hi.ctl, by simpa [hc] using hi.wt, hi.exited, by simp,
              by simp, by simp, by simp, by simp, by simp⟩
        | close =>
          by_cases hch : c = true
          · simp [hch] at h
          simp only [hch, if_false, Bool.false_eq_true] at h
          simp only [Option.some.injEq, Prod.mk.injEq] at h
          obtain ⟨-, rfl⟩ := h
          exact ⟨hi.rd2, hi.mono, by simpa [Cons.holds] using hcount, hi.wfCur, hi.wfWorking, hi.wfPush,
            by simp [Closing], by simpa [hc] using hi.wt, by simp, by simp,
            by simp, by simp, by simp, by simp, by simp⟩
        | note id =>
          by_cases hch : c = true
          · simp [hch] at h
          simp only [hch, if_false, Bool.false_eq_true] at h
          simp only [Option.some.injEq, Prod.mk.injEq] at h
          obtain ⟨-, rfl⟩ := h
          refine ⟨hi.rd2, hi.mono, by simpa [hc, Cons.holds] using hcount, hi.wfCur, hi.wfWorking, hi.wfPush,
            by simpa [Closing, hc] using hi.ctl, by simpa [hc] using hi.wt, hi.exited, by simp [hc],
            ?_, by simp [hc], by simp [hc], by simp [hc], by simp [hc]⟩
          intro _ e he
          exact expect_congr (hx e he) rfl rfl rfl
  | scan e i =>
    simp only [hc] at h hcount
    have hx := hi.expScan e i hc
    have hnc := not_closing_flags hi (by simp [Closing, hc])
    by_cases hcf : (c || f) = true
    · simp [hcf] at h
    · simp only [hcf, if_false, Bool.false_eq_true] at h
      cases hw : s.working with
      | nil => simp [hw] at h
      | cons b rest =>
        simp only [hw] at h hcount
        have hwfb : WFBlk cfg.chain b := hi.wfWorking b (by simp [hw])
        have hwfr : ∀ b' ∈ rest, WFBlk cfg.chain b' := fun b' hb' => hi.wfWorking b' (by simp [hw, hb'])
        by_cases hm : b.base = some e
        · -- the block asked for
          simp only [hm, if_true, Option.some.injEq, Prod.mk.injEq] at h
          obtain ⟨-, rfl⟩ := h
          refine ⟨hi.rd2, hi.mono, by simp [Cons.holds] at hcount ⊢; omega, hwfb, hwfr, hi.wfPush,
            by simpa [Closing, hc] using hi.ctl, by simpa [hc] using hi.wt, hi.exited, by simp,
            ?_, by simp, by simp, by simp, by simp⟩
          intro _ e' he'
          exact expect_recv_match hi.mono hx (by simp [stream, hw]) rfl rfl hwfb hm he'
        · simp only [hm, if_false] at h
          by_cases herr : b.next = none
          · simp only [herr, if_true, Option.some.injEq, Prod.mk.injEq] at h
            obtain ⟨-, rfl⟩ := h
            exact ⟨hi.rd2, hi.mono, by simp [Cons.holds] at hcount ⊢; omega, hi.wfCur, hwfr, hi.wfPush,
              by simpa [Closing, hc] using hi.ctl, by simpa [hc] using hi.wt, hi.exited, by simp,
              by simp, by simp, by simp, by simp, by simp⟩
          · simp only [herr, if_false] at h
            -- a stale block: the loop has room for it
            have hsk := expect_recv_skip (t := { s with working := rest, waiting := s.waiting + 1, cons := .scan e (i + 1) })
              hi.mono hx (by simp [stream, hw]) rfl rfl hwfb hm herr
            have hne : ¬ (i + 1 = cfg.rd) := by omega
            simp only [hne, if_false, Option.some.injEq, Prod.mk.injEq] at h
            obtain ⟨-, rfl⟩ := h
            refine ⟨hi.rd2, hi.mono, by simp [Cons.holds] at hcount ⊢; omega, hi.wfCur, hwfr, hi.wfPush,
              by simpa [Closing, hc] using hi.ctl, by simpa [hc] using hi.wt, hi.exited, by simp,
              by simp, ?_, by simp, by simp, by simp⟩
            intro e' i' he
            simp only [Cons.scan.injEq] at he
            obtain ⟨rfl, rfl⟩ := he
            exact hsk.1
  | fetch e =>
    simp only [hc] at h hcount
    by_cases hcf : c = true
    · simp [hcf] at h
    · simp only [hcf, if_false, Bool.false_eq_true] at h
      cases hl : doLoad cfg s (some e) f with
      | none => simp [hl] at h
      | some r =>
        obtain ⟨b, hd, ev'⟩ := r
        simp only [hl, Option.some.injEq, Prod.mk.injEq] at h
        obtain ⟨-, rfl⟩ := h
        have ⟨hb, hwf⟩ := doLoad_spec hl
        exact ⟨hi.rd2, hi.mono, by simpa [Cons.holds] using hcount, hwf, hi.wfWorking, hi.wfPush,
          by simpa [Closing, hc] using hi.ctl, by simpa [hc] using hi.wt, hi.exited, by simp,
          by simp, by simp, by simp [hb], by simp, by simp⟩
  | sync off =>
    simp only [hc] at h hcount
    by_cases hcf : c = true
    · simp [hcf] at h
    · simp only [hcf, if_false, Bool.false_eq_true] at h
      cases hl : doLoad cfg s (some off) f with
      | none => simp [hl] at h
      | some r =>
        obtain ⟨b, hd, ev'⟩ := r
        simp only [hl, Option.some.injEq, Prod.mk.injEq] at h
        obtain ⟨-, rfl⟩ := h
        have ⟨hb, hwf⟩ := doLoad_spec hl
        exact ⟨hi.rd2, hi.mono, by simpa [Cons.holds] using hcount, hwf, hi.wfWorking, hi.wfPush,
          by simpa [Closing, hc] using hi.ctl, by simpa [hc] using hi.wt, hi.exited, by simp,
          by simp, by simp, by simp [hb], by simp, by simp⟩
  | sel off =>
    simp only [hc] at h hcount
    by_cases hf : f = true
    · simp [hf] at h
    · simp only [hf, if_false, Bool.false_eq_true] at h
      by_cases hch : c = true
      · simp only [hch, if_true] at h
        cases hw : s.working with
        | nil => simp [hw] at h
        | cons b rest =>
          simp only [hw] at h hcount
          have hwfb : WFBlk cfg.chain b := hi.wfWorking b (by simp [hw])
          have hwfr : ∀ b' ∈ rest, WFBlk cfg.chain b' := fun b' hb' => hi.wfWorking b' (by simp [hw, hb'])
          by_cases hm : good b = true ∧ b.base = some off
          · simp only [hm, and_self, if_true, Option.some.injEq, Prod.mk.injEq] at h
            obtain ⟨-, rfl⟩ := h
            exact ⟨hi.rd2, hi.mono, by simp [Cons.holds] at hcount ⊢; omega, hwfb, hwfr, hi.wfPush,
              by simpa [Closing, hc] using hi.ctl, by simpa [hc] using hi.wt, hi.exited, by simp,
              by simp, by simp, by simp [hm.2], by simp, by simp⟩
          · simp only [hm, if_false, Option.some.injEq, Prod.mk.injEq] at h
            obtain ⟨-, rfl⟩ := h
            exact ⟨hi.rd2, hi.mono, by simp [Cons.holds] at hcount ⊢; omega, hi.wfCur, hwfr, hi.wfPush,
              by simpa [Closing, hc] using hi.ctl, by simpa [hc] using hi.wt, hi.exited, by simp,
              by simp, by simp, by simp, by simp, by simp⟩
      · simp only [hch, if_false, Bool.false_eq_true] at h
        by_cases hwt : 0 < s.waiting
        · simp only [hwt, if_true, Option.some.injEq, Prod.mk.injEq] at h
          obtain ⟨-, rfl⟩ := h
          exact ⟨hi.rd2, hi.mono, by simp [Cons.holds] at hcount ⊢; omega, hi.wfCur, hi.wfWorking, hi.wfPush,
            by simpa [Closing, hc] using hi.ctl, by simpa [hc] using hi.wt, hi.exited, by simp,
            by simp, by simp, by simp, by simp, by simp⟩
        · simp [hwt] at h
  | drain w =>
    simp only [hc] at h hcount
    have hd := hi.atDrain w hc
    by_cases hcf : (c || f) = true
    · simp [hcf] at h
    · simp only [hcf, if_false, Bool.false_eq_true, Option.some.injEq, Prod.mk.injEq] at h
      obtain ⟨-, rfl⟩ := h
      exact ⟨hi.rd2, hi.mono, by simpa [Cons.holds] using hcount, hi.wfCur, hi.wfWorking, hi.wfPush,
        by simpa [Closing, hc] using hi.ctl, by simpa [hc] using hi.wt, hi.exited, by simp,
        by simp, by simp, by simp, by simp [hd], by simp⟩
  | send w =>
    simp only [hc] at h hcount
    have hd := hi.atSend w hc
    by_cases hcf : (c || f) = true
    · simp [hcf] at h
    · simp only [hcf, if_false, Bool.false_eq_true, hd.2, Option.some.injEq, Prod.mk.injEq] at h
      obtain ⟨-, rfl⟩ := h
      refine ⟨hi.rd2, hi.mono, by simp [Cons.holds] at hcount ⊢; omega, hi.wfCur, hi.wfWorking, hi.wfPush,
        by simpa [Closing, hc] using hi.ctl, by simpa [hc] using hi.wt, hi.exited, by simp,
        ?_, by simp, by simp, by simp, by simp⟩
      intro _ e he
      simp only at he
      apply expect_after_send
      · have := stream_length_le s
        simp only [stream] at this ⊢
        simp [Cons.holds] at hcount; omega
      · simp [he]
  | ret ok =>
    simp only [hc] at h hcount
    have hx := hi.expIdle (Or.inr ⟨ok, hc⟩)
    by_cases hcf : (c || f) = true
    · simp [hcf] at h
    · simp only [hcf, if_false, Bool.false_eq_true, Option.some.injEq, Prod.mk.injEq] at h
      obtain ⟨-, rfl⟩ := h
      refine ⟨hi.rd2, hi.mono, by simpa [Cons.holds] using hcount, hi.wfCur, hi.wfWorking, hi.wfPush,
        by simpa [Closing, hc] using hi.ctl, by simpa [hc] using hi.wt, hi.exited, by simp,
        ?_, by simp, by simp, by simp, by simp⟩
      intro _ e he
      exact expect_congr (hx e he) rfl rfl rfl
  | closeW =>
    simp only [hc] at h hcount
    by_cases hcf : (c || f) = true
    · simp [hcf] at h
    · simp only [hcf, if_false, Bool.false_eq_true, Option.some.injEq, Prod.mk.injEq] at h
      obtain ⟨-, rfl⟩ := h
      exact ⟨hi.rd2, hi.mono, by simpa [Cons.holds] using hcount, hi.wfCur, hi.wfWorking, hi.wfPush,
        by simpa [Closing, hc] using hi.ctl, by simp, hi.exited, by simp,
        by simp, by simp, by simp, by simp, by simp⟩
  | join =>
    simp only [hc] at h hcount
    by_cases hcf : (c || f) = true
    · simp [hcf] at h
    · simp only [hcf, if_false, Bool.false_eq_true] at h
      cases hw : s.worker with
      | exited hh =>
        simp only [hw, Option.some.injEq, Prod.mk.injEq] at h
        obtain ⟨-, rfl⟩ := h
        exact ⟨hi.rd2, hi.mono, by rw [hw] at hcount; simpa [Cons.holds] using hcount, hi.wfCur,
          hi.wfWorking, by simp, by simpa [Closing, hc] using hi.ctl, by simpa [hc] using hi.wt,
          fun _ _ => hi.exited hh hw, by simp, by simp, by simp, by simp, by simp, by simp⟩
      | _ => simp [hw] at h
  | closed => simp [hc] at h
  | panicked => simp [hc] at h

end Hts.Model.ReadAhead
