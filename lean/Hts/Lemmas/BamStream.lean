/-
Stream level of the BAM codec: a written record is read back from the front of any stream (length-prefix lemma +
record lemma), the concatenation of written records is read back in order and ends with io.EOF (induction over the
record list), and the fuel of the two model loops is sufficient (`Fault.fuel` is never returned).
-/
import Hts.Lemmas.BamRecord
namespace Hts.Model.Bam

/-- what `Read` is expected to return for a written record `r` under each Omit mode -/
def expected (om : Omit) (r : Record) : Record :=
  match om with
  | .none => norm r
  | .aux => omitAux (norm r)
  | .all => omitAll r

/-- one record: written by `Writer.Write`, then read by `Reader.Read` from the front of any stream -/
theorem readRecord_encodeRecord (om : Omit) {n : Nat} {r : Record} (h : WF n r) :
    ∃ bs, encodeRecord r = .ok bs ∧ 4 < bs.length ∧
      ∀ rest, readRecord om n (bs ++ rest) = .record (expected om r) rest := by
  obtain ⟨bin, _, he⟩ := encodeRecord_ok h
  refine ⟨_, he, ?_, ?_⟩
  · have := bodyOf_length bin (encAuxAll r.aux) r
    simp only [List.length_append, putI32_length]; omega
  · intro rest
    have hl := recLen_eq h bin
    have hlt := recLen_lt h
    have hpos : 0 < (bodyOf bin (encAuxAll r.aux) r).length := by
      rw [bodyOf_length]; omega
    rw [hl] at hlt ⊢
    rw [List.append_assoc, readRecord_frame om n _ rest hpos hlt, decodeBody_bodyOf om n r bin h]
    cases om <;> rfl

/-- the concatenation of the frames of well-formed records -/
theorem encodeAll_ok {n : Nat} (rs : List Record) (h : ∀ r ∈ rs, WF n r) : ∃ s, encodeAll rs = .ok s := by
  induction rs with
  | nil => exact ⟨[], rfl⟩
  | cons r rs ih =>
    obtain ⟨bs, hb, _, _⟩ := readRecord_encodeRecord .none (h r (by simp))
    obtain ⟨s, hs⟩ := ih (fun x hx => h x (by simp [hx]))
    exact ⟨bs ++ s, by simp [encodeAll, hb, hs]⟩

/-- stream round trip for any sufficient fuel -/
theorem readAllFuel_encodeAll (om : Omit) {n : Nat} (rs : List Record) (h : ∀ r ∈ rs, WF n r) :
    ∀ s, encodeAll rs = .ok s → ∀ fuel, rs.length < fuel →
      readAllFuel fuel om n s = (rs.map (expected om), none) := by
  induction rs with
  | nil =>
    intro s hs fuel hf
    simp only [encodeAll, Except.ok.injEq] at hs
    subst hs
    match fuel, hf with
    | f + 1, _ => simp [readAllFuel, readRecord]
  | cons r rs ih =>
    intro s hs fuel hf
    obtain ⟨bs, hb, _, hr⟩ := readRecord_encodeRecord om (h r (by simp))
    obtain ⟨s', hs'⟩ := encodeAll_ok rs (fun x hx => h x (by simp [hx]))
    simp only [encodeAll, hb, hs', Except.ok.injEq] at hs
    subst hs
    match fuel, hf with
    | f + 1, hf =>
      simp only [readAllFuel, hr s', ih (fun x hx => h x (by simp [hx])) s' hs' f (by simpa using hf), List.map_cons]

theorem encodeAll_length_ge {n : Nat} (rs : List Record) (h : ∀ r ∈ rs, WF n r) :
    ∀ s, encodeAll rs = .ok s → rs.length ≤ s.length := by
  induction rs with
  | nil => intro s _; simp
  | cons r rs ih =>
    intro s hs
    obtain ⟨bs, hb, hl, _⟩ := readRecord_encodeRecord .none (h r (by simp))
    obtain ⟨s', hs'⟩ := encodeAll_ok rs (fun x hx => h x (by simp [hx]))
    simp only [encodeAll, hb, hs', Except.ok.injEq] at hs
    subst hs
    have := ih (fun x hx => h x (by simp [hx])) s' hs'
    simp only [List.length_cons, List.length_append]; omega

/-- STREAM ROUND TRIP: reading the concatenation of the written records returns them in order, then io.EOF -/
theorem readAll_encodeAll (om : Omit) {n : Nat} (rs : List Record) (h : ∀ r ∈ rs, WF n r) :
    ∃ s, encodeAll rs = .ok s ∧ readAll om n s = (rs.map (expected om), none) := by
  obtain ⟨s, hs⟩ := encodeAll_ok rs h
  refine ⟨s, hs, ?_⟩
  have := encodeAll_length_ge rs h s hs
  exact readAllFuel_encodeAll om rs h s hs _ (by omega)


theorem isElemType_jumps {t : Byte} (h : isElemType t = true) : 1 ≤ jumps t := by
  simp only [isElemType, Bool.or_eq_true, beq_iff_eq] at h
  rcases h with (((((rfl | rfl) | rfl) | rfl) | rfl) | rfl) | rfl <;> decide

/-- the fuel of the `parseAux` loop is sufficient: every turn consumes at least one byte -/
theorem parseAuxFuel_ne_fuel : ∀ (fuel : Nat) (rest : List Byte) (acc : List (List Byte)),
    rest.length < fuel → parseAuxFuel fuel rest acc ≠ .error .fuel := by
  intro fuel
  induction fuel with
  | zero => intro rest acc h; omega
  | succ f ih =>
    intro rest acc h
    unfold parseAuxFuel
    split
    · rename_i t0 t1 t v
      simp only [List.length_cons] at h
      simp only []
      split
      · split
        · simp
        · apply ih; simp only [List.length_drop, List.length_cons]; omega
      · split
        · split
          · split
            · simp
            · split
              · simp
              · apply ih; simp only [List.length_drop, List.length_cons]; omega
          · split
            · rename_i sub n0 n1 n2 n3 tl
              split
              · simp
              · rename_i he
                split
                · simp
                · rename_i hj
                  apply ih
                  have he' : isElemType sub = true := by simpa using he
                  have h1 := isElemType_jumps he'
                  have h0 : 0 ≤ (getU32 n0 n1 n2 n3 : Int) * jumps sub :=
                    Int.mul_nonneg (by omega) (by omega)
                  simp only [List.length_drop, List.length_cons] at h ⊢
                  generalize (getU32 n0 n1 n2 n3 : Int) * jumps sub = k at *
                  omega
            · simp
        · simp
    · simp

theorem parseAux_ne_fuel (aux : List Byte) : parseAux aux ≠ .error .fuel :=
  parseAuxFuel_ne_fuel _ aux [] (by omega)


theorem linkRefs_ne_fuel (n : Nat) (a b : Int) (r : Record) : linkRefs n a b r ≠ .error .fuel := by
  unfold linkRefs
  repeat' split
  all_goals simp

theorem finish_ne_fuel (n : Nat) (a b : Int) (bf : Buf) (r : Record) : finish n a b bf r ≠ .error .fuel := by
  unfold finish
  split
  · simp
  · exact linkRefs_ne_fuel _ _ _ _

theorem decodeBody_ne_fuel (om : Omit) (n : Nat) (body : List Byte) : decodeBody om n body ≠ .error .fuel := by
  unfold decodeBody
  simp only []
  split
  · simp
  · split
    · exact finish_ne_fuel _ _ _ _ _
    · split
      · simp
      · split
        · exact finish_ne_fuel _ _ _ _ _
        · split
          · rename_i hp
            intro hc; cases hc
            exact parseAux_ne_fuel _ hp
          · exact finish_ne_fuel _ _ _ _ _

theorem readRecord_ne_fuel (om : Omit) (n : Nat) (s : List Byte) : readRecord om n s ≠ .fault .fuel := by
  unfold readRecord
  split
  · simp
  · simp only []
    split
    · simp
    · split
      · simp
      · split
        · simp
        · split
          · rename_i hp
            intro hc; cases hc
            exact decodeBody_ne_fuel _ _ _ hp
          · simp
  · simp

/-- every record read leaves a strictly shorter stream -/
theorem readRecord_rest_lt (om : Omit) (n : Nat) (s : List Byte) (r : Record) (rest : List Byte)
    (h : readRecord om n s = .record r rest) : rest.length < s.length := by
  unfold readRecord at h
  split at h
  · cases h
  · simp only [] at h
    split at h
    · cases h
    · split at h
      · cases h
      · split at h
        · cases h
        · split at h
          · cases h
          · cases h
            simp only [List.length_drop, List.length_cons]; omega
  · cases h

/-- the fuel of the record loop is sufficient -/
theorem readAllFuel_ne_fuel (om : Omit) (n : Nat) : ∀ (fuel : Nat) (s : List Byte), s.length < fuel →
    (readAllFuel fuel om n s).2 ≠ some .fuel := by
  intro fuel
  induction fuel with
  | zero => intro s h; omega
  | succ f ih =>
    intro s h
    unfold readAllFuel
    split
    · simp
    · rename_i flt hf
      simp only [ne_eq, Option.some.injEq]
      intro hc; subst hc
      exact readRecord_ne_fuel om n s hf
    · rename_i r rest hr
      have := readRecord_rest_lt om n s r rest hr
      exact ih rest (by omega)

theorem readAll_ne_fuel (om : Omit) (n : Nat) (s : List Byte) : (readAll om n s).2 ≠ some .fuel :=
  readAllFuel_ne_fuel om n _ s (by omega)

end Hts.Model.Bam

/-! ### the whole file: header (an external codec, C07) followed by the records -/
namespace Hts.Model.Bam

/-- The binary header codec as a parameter bundled with the law assumed of it (C07 proves it for the real one):
decoding an encoded header in front of any data returns the header and leaves the data. `nrefs` is the length of the
reference list that `Ref`/`MateRef` ids index into. -/
structure HeaderCodec (H : Type) where
  encode : H → List Byte
  decode : List Byte → Option (H × List Byte)
  nrefs : H → Nat
  decode_encode : ∀ (h : H) (rest : List Byte), decode (encode h ++ rest) = some (h, rest)

/-- `NewWriter(h)`, `Write` for every record, under the BGZF layer -/
def writeFile {H : Type} (hc : HeaderCodec H) (h : H) (rs : List Record) : Except Fault (List Byte) :=
  match encodeAll rs with
  | .error f => .error f
  | .ok s => .ok (hc.encode h ++ s)

/-- `NewReader`, `Omit(om)`, `Read` until it fails: the header, the records, how it ended (`none` = io.EOF) -/
def readFile {H : Type} (hc : HeaderCodec H) (om : Omit) (bytes : List Byte) :
    Option (H × List Record × Option Fault) :=
  match hc.decode bytes with
  | none => none
  | some (h, rest) => some (h, readAll om (hc.nrefs h) rest)

theorem readFile_writeFile {H : Type} (hc : HeaderCodec H) (om : Omit) (h : H) (rs : List Record)
    (hwf : ∀ r ∈ rs, WF (hc.nrefs h) r) :
    ∃ bytes, writeFile hc h rs = .ok bytes ∧
      readFile hc om bytes = some (h, rs.map (expected om), none) := by
  obtain ⟨s, hs, hr⟩ := readAll_encodeAll om rs hwf
  exact ⟨hc.encode h ++ s, by simp [writeFile, hs], by simp [readFile, hc.decode_encode, hr]⟩

/-- The BGZF layer as a parameter bundled with the law assumed of it (C01 proves it for the real one): for every
write concurrency `wc` and read concurrency `rd`, reading what was written gives back the bytes written, whatever
the way they were cut into `Write` calls and blocks. -/
structure BgzfCodec where
  write : (wc : Nat) → List Byte → List Byte
  read : (rd : Nat) → List Byte → Option (List Byte)
  read_write : ∀ (wc rd : Nat) (bs : List Byte), read rd (write wc bs) = some bs

theorem readFile_writeFile_bgzf {H : Type} (bg : BgzfCodec) (hc : HeaderCodec H) (om : Omit) (wc rd : Nat) (h : H)
    (rs : List Record) (hwf : ∀ r ∈ rs, WF (hc.nrefs h) r) :
    ∃ bytes, writeFile hc h rs = .ok bytes ∧
      (bg.read rd (bg.write wc bytes)).bind (readFile hc om) = some (h, rs.map (expected om), none) := by
  obtain ⟨bytes, hw, hr⟩ := readFile_writeFile hc om h rs hwf
  exact ⟨bytes, hw, by simp [bg.read_write, hr]⟩

end Hts.Model.Bam
