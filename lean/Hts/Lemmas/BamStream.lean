/-
Stream level of the BAM codec: a written record is read back from the front of any stream (length-prefix lemma +
record lemma), the concatenation of written records is read back in order and ends with io.EOF (induction over the
record list), and the fuel of the two model loops is sufficient (`Fault.fuel` is never returned).
-/
import Hts.Lemmas.BamRecord
namespace Hts.Model.Bam

/-- what `Read` is expected to return for a written record `r` under each Omit mode -/
def expected (om : Omit) (r : Record) : Record :=
  match om with
  | .none => norm r
  | .aux => omitAux (norm r)
  | .all => omitAll r

/-- one record: written by `Writer.Write`, then read by `Reader.Read` from the front of any stream -/
theorem readRecord_encodeRecord (om : Omit) {n : Nat} {r : Record} (h : WF n r) :
    ∃ bs, encodeRecord r = .ok bs ∧ 4 < bs.length ∧
      ∀ rest, readRecord om n (bs ++ rest) = .record (expected om r) rest := by
  obtain ⟨bin, _, he⟩ := encodeRecord_ok h
  refine ⟨_, he, ?_, ?_⟩
  · have := bodyOf_length bin (encAuxAll r.aux) r
    simp only [List.length_append, putI32_length]; omega
  · intro rest
    have hl := recLen_eq h bin
    have hlt := recLen_lt h
    have hpos : 0 < (bodyOf bin (encAuxAll r.aux) r).length := by
      rw [bodyOf_length]; omega
    rw [hl] at hlt ⊢
    rw [List.append_assoc, readRecord_frame om n _ rest hpos hlt, decodeBody_bodyOf om n r bin h]
    cases om <;> rfl

/-- the concatenation of the frames of well-formed records -/
theorem encodeAll_ok {n : Nat} (rs : List Record) (h : ∀ r ∈ rs, WF n r) : ∃ s, encodeAll rs = .ok s := by
  induction rs with
  | nil => exact ⟨[], rfl⟩
  | cons r rs ih =>
    obtain ⟨bs, hb, _, _⟩ := readRecord_encodeRecord .none (h r (by simp))
    obtain ⟨s, hs⟩ := ih (fun x hx => h x (by simp [hx]))
    exact ⟨bs ++ s, by simp [encodeAll, hb, hs]⟩

/-- stream round trip for any sufficient fuel -/
theorem readAllFuel_encodeAll (om : Omit) {n : Nat} (rs : List Record) (h : ∀ r ∈ rs, WF n r) :
    ∀ s, encodeAll rs = .ok s → ∀ fuel, rs.length < fuel →
      readAllFuel fuel om n s = (rs.map (expected om), none) := by
  induction rs with
  | nil =>
    intro s hs fuel hf
    simp only [encodeAll, Except.ok.injEq] at hs
    subst hs
    match fuel, hf with
    | f + 1, _ => simp [readAllFuel, readRecord]
  | cons r rs ih =>
    intro s hs fuel hf
    obtain ⟨bs, hb, _, hr⟩ := readRecord_encodeRecord om (h r (by simp))
    obtain ⟨s', hs'⟩ := encodeAll_ok rs (fun x hx => h x (by simp [hx]))
    simp only [encodeAll, hb, hs', Except.ok.injEq] at hs
    subst hs
    match fuel, hf with
    | f + 1, hf =>
      simp only [readAllFuel, hr s', ih (fun x hx => h x (by simp [hx])) s' hs' f (by simpa using hf), List.map_cons]

theorem encodeAll_length_ge {n : Nat} (rs : List Record) (h : ∀ r ∈ rs, WF n r) :
    ∀ s, encodeAll rs = .ok s → rs.length ≤ s.length := by
  induction rs with
  | nil => intro s _; simp
  | cons r rs ih =>
    intro s hs
    obtain ⟨bs, hb, hl, _⟩ := readRecord_encodeRecord .none (h r (by simp))
    obtain ⟨s', hs'⟩ := encodeAll_ok rs (fun x hx => h x (by simp [hx]))
    simp only [encodeAll, hb, hs', Except.ok.injEq] at hs
    subst hs
    have := ih (fun x hx => h x (by simp [hx])) s' hs'
    simp only [List.length_cons, List.length_append]; omega

/-- STREAM ROUND TRIP: reading the concatenation of the written records returns them in order, then io.EOF -/
theorem readAll_encodeAll (om : Omit) {n : Nat} (rs : List Record) (h : ∀ r ∈ rs, WF n r) :
    ∃ s, encodeAll rs = .ok s ∧ readAll om n s = (rs.map (expected om), none) := by
  obtain ⟨s, hs⟩ := encodeAll_ok rs h
  refine ⟨s, hs, ?_⟩
  have := encodeAll_length_ge rs h s hs
  exact readAllFuel_encodeAll om rs h s hs _ (by omega)


theorem isElemType_jumps {t : Byte} (h : isElemType t = true) : 1 ≤ jumps t := by
  simp only [isElemType, Bool.or_eq_true, beq_iff_eq] at h
  rcases h with (((((rfl | rfl) | rfl) | rfl) | rfl) | rfl) | rfl <;> decide

/-- the fuel of the `parseAux` loop is sufficient: every turn consumes at least one byte -/
theorem parseAuxFuel_ne_fuel : ∀ (fuel : Nat) (rest : List Byte) (acc : List (List Byte)),
    rest.length < fuel → parseAuxFuel fuel rest acc ≠ .error .fuel := by
  intro fuel
  induction fuel with
  | zero => intro rest acc h; omega
  | succ f ih =>
    intro rest acc h
    unfold parseAuxFuel
    split
    · rename_i t0 t1 t v
      simp only [List.length_cons] at h
      simp only []
      split
      · split
        · simp
        · apply ih; simp only [List.length_drop, List.length_cons]; omega
      · split
        · split
          · split
            · simp
            · split
              · simp
              · split
                · split
                  · rename_i hd
                    intro hc; cases hc
                    rcases decodeHex_err _ _ hd with h' | h' <;> cases h'
                  · apply ih; simp only [List.length_drop, List.length_cons]; omega
                · apply ih; simp only [List.length_drop, List.length_cons]; omega
          · split
            · rename_i sub n0 n1 n2 n3 tl
              split
              · simp
              · rename_i he
                split
                · simp
                · rename_i hj
                  apply ih
                  have he' : isElemType sub = true := by simpa using he
                  have h1 := isElemType_jumps he'
                  have h0 : 0 ≤ (getU32 n0 n1 n2 n3 : Int) * jumps sub :=
                    Int.mul_nonneg (by omega) (by omega)
                  simp only [List.length_drop, List.length_cons] at h ⊢
                  generalize (getU32 n0 n1 n2 n3 : Int) * jumps sub = k at *
                  omega
            · simp
        · simp
    · simp

theorem parseAux_ne_fuel (aux : List Byte) : parseAux aux ≠ .error .fuel :=
  parseAuxFuel_ne_fuel _ aux [] (by omega)


theorem linkRefs_ne_fuel (n : Nat) (a b : Int) (r : Record) : linkRefs n a b r ≠ .error .fuel := by
  unfold linkRefs
  repeat' split
  all_goals simp

theorem finish_ne_fuel (n : Nat) (a b : Int) (bf : Buf) (r : Record) : finish n a b bf r ≠ .error .fuel := by
  unfold finish
  split
  · simp
  · exact linkRefs_ne_fuel _ _ _ _

theorem decodeBody_ne_fuel (om : Omit) (n : Nat) (body : List Byte) : decodeBody om n body ≠ .error .fuel := by
  unfold decodeBody
  simp only []
  split
  · simp
  · split
    · exact finish_ne_fuel _ _ _ _ _
    · split
      · simp
      · split
        · exact finish_ne_fuel _ _ _ _ _
        · split
          · rename_i hp
            intro hc; cases hc
            exact parseAux_ne_fuel _ hp
          · exact finish_ne_fuel _ _ _ _ _

theorem readRecord_ne_fuel (om : Omit) (n : Nat) (s : List Byte) : readRecord om n s ≠ .fault .fuel := by
  unfold readRecord
  split
  · simp
  · simp only []
    split
    · simp
    · split
      · simp
      · split
        · simp
        · split
          · rename_i hp
            intro hc; cases hc
            exact decodeBody_ne_fuel _ _ _ hp
          · simp
  · simp

/-- every record read leaves a strictly shorter stream -/
theorem readRecord_rest_lt (om : Omit) (n : Nat) (s : List Byte) (r : Record) (rest : List Byte)
    (h : readRecord om n s = .record r rest) : rest.length < s.length := by
  unfold readRecord at h
  split at h
  · cases h
  · simp only [] at h
    split at h
    · cases h
    · split at h
      · cases h
      · split at h
        · cases h
        · split at h
          · cases h
          · cases h
            simp only [List.length_drop, List.length_cons]; omega
  · cases h

/-- the fuel of the record loop is sufficient -/
theorem readAllFuel_ne_fuel (om : Omit) (n : Nat) : ∀ (fuel : Nat) (s : List Byte), s.length < fuel →
    (readAllFuel fuel om n s).2 ≠ some .fuel := by
  intro fuel
  induction fuel with
  | zero => intro s h; omega
  | succ f ih =>
    intro s h
    unfold readAllFuel
    split
    · simp
    · rename_i flt hf
      simp only [ne_eq, Option.some.injEq]
      intro hc; subst hc
      exact readRecord_ne_fuel om n s hf
    · rename_i r rest hr
      have := readRecord_rest_lt om n s r rest hr
      exact ih rest (by omega)

theorem readAll_ne_fuel (om : Omit) (n : Nat) (s : List Byte) : (readAll om n s).2 ≠ some .fuel :=
  readAllFuel_ne_fuel om n _ s (by omega)

end Hts.Model.Bam

/-! ### the whole file: the header section followed by the records

The binary header (C07) is not modelled here.  What the file theorems need of it is stated as a HYPOTHESIS about the
one header at hand, not as a law for all headers: `HeaderFramed decode bytes hd` — on the header's bytes followed by
any data the header decoder returns `hd` and leaves exactly that data.  (C07 proves, in its own model and for API-built
headers with canonical URIs, that decoding the encoded header gives a header with the same exposed values; that the
decoder stops exactly at the end of the header section is not proved anywhere — `DecodeBinary` reads the counted
fields and nothing more, checked by the C05 correspondence on every generated file.) -/
namespace Hts.Model.Bam

/-- on `bytes` followed by any data the header decoder returns `hd` and leaves the data -/
def HeaderFramed {H : Type} (decode : List Byte → Option (H × List Byte)) (bytes : List Byte) (hd : H) : Prop :=
  ∀ rest : List Byte, decode (bytes ++ rest) = some (hd, rest)

/-- `NewWriter(h)`, `Write` for every record: the bytes under the BGZF layer, given the header section's bytes -/
def writeFile (hdrBytes : List Byte) (rs : List Record) : Except Fault (List Byte) :=
  match encodeAll rs with
  | .error f => .error f
  | .ok s => .ok (hdrBytes ++ s)

/-- `NewReader`, `Omit(om)`, `Read` until it fails: the header, the records, how it ended (`none` = io.EOF) -/
def readFile {H : Type} (decode : List Byte → Option (H × List Byte)) (nrefs : H → Nat) (om : Omit)
    (bytes : List Byte) : Option (H × List Record × Option Fault) :=
  match decode bytes with
  | none => none
  | some (h, rest) => some (h, readAll om (nrefs h) rest)

theorem readFile_writeFile {H : Type} (decode : List Byte → Option (H × List Byte)) (nrefs : H → Nat)
    (hdrBytes : List Byte) (hd : H) (hf : HeaderFramed decode hdrBytes hd) (om : Omit) (rs : List Record)
    (hwf : ∀ r ∈ rs, WF (nrefs hd) r) :
    ∃ bytes, writeFile hdrBytes rs = .ok bytes ∧
      readFile decode nrefs om bytes = some (hd, rs.map (expected om), none) := by
  obtain ⟨s, hs, hr⟩ := readAll_encodeAll om rs hwf
  exact ⟨hdrBytes ++ s, by simp [writeFile, hs], by simp [readFile, hf s, hr]⟩

end Hts.Model.Bam
