/-
C19 helper lemmas, part 5: in the rendering of a well-formed record the bases of one line are contiguous
at `position`, i.e. the true entry is `Good` for the file.
-/
import Hts.Lemmas.FaiIndex
import Hts.Lemmas.FaiRead
set_option linter.unusedVariables false
set_option linter.unusedSimpArgs false
namespace Hts.Lemmas.Fai
open Hts.Model.Fai
open Hts.Spec.Fasta (isGraphic isBase isDescByte isBlankByte Rec Eol Entry seqLines terminate blankLines
  entriesFrom recsWf namesDistinct descOK)

/-- the sequence lines of a record as bytes -/
def body (w : Nat) (eol : Bytes) (fin : Bool) (bs : Bytes) : Bytes :=
  (terminate eol fin (seqLines w bs)).flatten

theorem body_single (w : Nat) (eol : Bytes) (fin : Bool) (bs : Bytes) (hne : bs ≠ []) (h : bs.length ≤ w) :
    body w eol fin bs = bs ++ (if fin = true then eol else []) := by
  unfold body
  rw [seqLines_single w bs hne h]
  simp [terminate, ite_append]

theorem body_multi (w : Nat) (eol : Bytes) (fin : Bool) (bs : Bytes) (hw : 1 ≤ w) (h : w < bs.length) :
    body w eol fin bs = (bs.take w ++ eol) ++ body w eol fin (bs.drop w) := by
  unfold body
  rw [seqLines_multi w bs hw h]
  have hdne : bs.drop w ≠ [] := by
    intro h'
    have := congrArg List.length h'
    rw [List.length_drop, List.length_nil] at this; omega
  rw [terminate_cons_ne _ _ _ _ (seqLines_ne_nil w _ hdne)]
  simp

theorem body_slice_aux (w : Nat) (eol : Bytes) (fin : Bool) (hw : 1 ≤ w) (n : Nat) :
    ∀ (bs : Bytes) (p m : Nat), bs.length ≤ n → 1 ≤ m → p + m ≤ bs.length →
      m ≤ (if p / w = bs.length / w then bs.length - p else w - p % w) →
      ((body w eol fin bs).drop (p / w * (w + eol.length) + p % w)).take m = (bs.drop p).take m := by
  induction n with
  | zero => intro bs p m hn hm hpm; omega
  | succ n ih =>
    intro bs p m hn hm hpm hle
    have hne : bs ≠ [] := by
      intro h; rw [h] at hpm; simp at hpm; omega
    by_cases hlen : bs.length ≤ w
    · -- a single line: position p is offset p
      have hp : p < w := by omega
      rw [body_single w eol fin bs hne hlen, Nat.div_eq_of_lt hp, Nat.mod_eq_of_lt hp]
      simp only [Nat.zero_mul, Nat.zero_add]
      rw [List.drop_append_of_le_length (by omega), List.take_append_of_le_length (by rw [List.length_drop]; omega)]
    · have hlen' : w < bs.length := by omega
      rw [body_multi w eol fin bs hw hlen']
      have htl : (bs.take w).length = w := by rw [List.length_take]; omega
      by_cases hp : p < w
      · -- inside the first line
        have hq : 1 ≤ bs.length / w := Nat.div_pos (by omega) (by omega)
        rw [Nat.div_eq_of_lt hp, Nat.mod_eq_of_lt hp] at hle ⊢
        have hne0 : ¬ (0 = bs.length / w) := by omega
        simp only [hne0, if_false] at hle
        simp only [Nat.zero_mul, Nat.zero_add, List.append_assoc]
        rw [List.drop_append_of_le_length (by omega),
          List.take_append_of_le_length (by rw [List.length_drop, htl]; omega),
          List.drop_take, List.take_take]
        congr 1
        omega
      · -- a later line: shift by one line
        obtain ⟨p', rfl⟩ : ∃ p', p = p' + w := ⟨p - w, by omega⟩
        have hw0 : 0 < w := by omega
        have hL : bs.length = (bs.drop w).length + w := by rw [List.length_drop]; omega
        rw [Nat.add_div_right _ hw0, Nat.add_mod_right] at hle ⊢
        rw [hL, Nat.add_div_right _ hw0] at hle
        have hpos : (p' / w + 1) * (w + eol.length) + p' % w =
            (bs.take w ++ eol).length + (p' / w * (w + eol.length) + p' % w) := by
          rw [Nat.add_mul, Nat.one_mul, List.length_append, htl]; omega
        rw [hpos, List.drop_append, List.drop_eq_nil_of_le (by omega), List.nil_append]
        have : (bs.take w ++ eol).length + (p' / w * (w + eol.length) + p' % w) - (bs.take w ++ eol).length =
            p' / w * (w + eol.length) + p' % w := by omega
        rw [this, ih (bs.drop w) p' m (by omega) hm (by omega)]
        · rw [List.drop_drop, Nat.add_comm]
        · have e1 : (p' / w + 1 = (bs.drop w).length / w + 1) ↔ (p' / w = (bs.drop w).length / w) := by omega
          simp only [e1] at hle
          have e2 : (bs.drop w).length + w - (p' + w) = (bs.drop w).length - p' := by omega
          rw [e2] at hle
          exact hle

theorem take_drop_append (a b : Bytes) (x n : Nat) (h : ((a.drop x).take n).length = n) :
    ((a ++ b).drop x).take n = (a.drop x).take n := by
  rw [List.length_take, List.length_drop] at h
  by_cases hn : n = 0
  · simp [hn]
  · rw [List.drop_append_of_le_length (by omega), List.take_append_of_le_length (by rw [List.length_drop]; omega)]

/-- The true entry of a well-formed record is a good layout for any file that contains the record's
rendering at the offset the entry was computed for. -/
theorem good_rec (r : Rec) (last : Bool) (h : RecOK r last) (A C : Bytes) :
    Good (A ++ r.render ++ C) (ofEntry (r.entry A.length)) r.bases := by
  have hw := h.width
  have hepos := eol_length_pos r.eol
  by_cases hb : r.bases = []
  · refine ⟨by simp [ofEntry, Rec.entry], fun h' => absurd hb h', by simp [ofEntry, Rec.entry, hb], ?_⟩
    intro p n hpn _
    rw [hb] at hpn ⊢
    simp only [List.length_nil] at hpn
    have : n = 0 := by omega
    simp [this, readAt]
  · -- render = (header ++ eol) ++ body ++ blanks
    have hsl := seqLines_ne_nil r.width r.bases hb
    have hrender : r.render = (r.headerLine ++ r.eol.bytes) ++
        (body r.width r.eol.bytes r.finalNewline r.bases ++ (blankLines r.blanksAfter).flatten) := by
      unfold Rec.render Rec.fileLines body
      have : r.lines = r.headerLine :: seqLines r.width r.bases := rfl
      rw [this, terminate_cons_ne _ _ _ _ hsl]
      simp
    have hLpos : 1 ≤ r.bases.length := by
      cases hbs : r.bases with
      | nil => exact absurd hbs hb
      | cons x xs => simp
    refine ⟨by simp [ofEntry, Rec.entry], ?_, ?_, ?_⟩
    · intro _
      simp only [ofEntry, Rec.entry, List.length_take]; omega
    · simp only [ofEntry, Rec.entry, hb, if_false]; omega
    · intro p n hpn hle
      by_cases hn : n = 0
      · simp [hn, readAt]
      have hn1 : 1 ≤ n := by omega
      -- the offset inside the body and the bound on n, in terms of the line width
      have key : (ofEntry (r.entry A.length)).position p =
            (A ++ (r.headerLine ++ r.eol.bytes)).length +
              (p / r.width * (r.width + r.eol.bytes.length) + p % r.width) ∧
          n ≤ (if p / r.width = r.bases.length / r.width then r.bases.length - p else r.width - p % r.width) := by
        simp only [Record.position, Record.endOfLineOffset, ofEntry, Rec.entry, hb, if_false, false_and,
          List.length_take, decide_eq_true_eq, List.length_append] at hle ⊢
        by_cases hlen : r.bases.length ≤ r.width
        · -- single line: BasesPerLine = length
          have hm : min r.width r.bases.length = r.bases.length := by omega
          rw [hm] at hle ⊢
          have hz : ¬ (r.bases.length = 0) := by omega
          simp only [hz, if_false]
          have hp : p < r.bases.length := by omega
          have hpw : p < r.width := by omega
          rw [Nat.div_eq_of_lt hp, Nat.mod_eq_of_lt hp] at hle ⊢
          rw [Nat.div_self (by omega)] at hle
          simp only [Nat.zero_ne_one, if_false] at hle
          rw [Nat.div_eq_of_lt hpw, Nat.mod_eq_of_lt hpw]
          refine ⟨by omega, ?_⟩
          by_cases heq : r.bases.length = r.width
          · rw [heq, Nat.div_self (by omega)]
            simp only [Nat.zero_ne_one, if_false]; omega
          · rw [Nat.div_eq_of_lt (by omega)]
            simp only [if_true]; exact hle
        · have hm : min r.width r.bases.length = r.width := by omega
          rw [hm] at hle ⊢
          have hz : ¬ (r.width = 0) := by omega
          simp only [hz, if_false]
          simp only [hlen, false_and, if_false] at hle ⊢
          exact ⟨by omega, hle⟩
      obtain ⟨kpos, kle⟩ := key
      have hsl := body_slice_aux r.width r.eol.bytes r.finalNewline hw r.bases.length r.bases p n
        (Nat.le_refl _) hn1 hpn kle
      unfold readAt
      rw [kpos, hrender]
      have hF : A ++ (r.headerLine ++ r.eol.bytes ++
            (body r.width r.eol.bytes r.finalNewline r.bases ++ (blankLines r.blanksAfter).flatten)) ++ C =
          (A ++ (r.headerLine ++ r.eol.bytes)) ++
            (body r.width r.eol.bytes r.finalNewline r.bases ++ ((blankLines r.blanksAfter).flatten ++ C)) := by
        simp
      rw [hF, List.drop_append, List.drop_eq_nil_of_le (by omega), List.nil_append]
      have : (A ++ (r.headerLine ++ r.eol.bytes)).length +
          (p / r.width * (r.width + r.eol.bytes.length) + p % r.width) -
          (A ++ (r.headerLine ++ r.eol.bytes)).length =
          p / r.width * (r.width + r.eol.bytes.length) + p % r.width := by omega
      rw [this, take_drop_append _ _ _ _ (by rw [hsl, List.length_take, List.length_drop]; omega), hsl]

/-! ### a record inside its file -/

theorem entriesFrom_append (o : Nat) (a b : List Rec) :
    entriesFrom o (a ++ b) = entriesFrom o a ++ entriesFrom (o + (a.map Rec.render).flatten.length) b := by
  induction a generalizing o with
  | nil => simp [entriesFrom]
  | cons x xs ih =>
    simp only [List.cons_append, entriesFrom, ih, List.map_cons, List.flatten_cons, List.length_append,
      Nat.add_assoc]

theorem names_ne_of_distinct (pre : List Rec) (r : Rec) (post : List Rec)
    (h : namesDistinct (pre ++ r :: post) = true) : ∀ x ∈ pre, x.name ≠ r.name := by
  induction pre with
  | nil => intro x hx; simp at hx
  | cons y ys ih =>
    simp only [List.cons_append, namesDistinct, Bool.and_eq_true, Bool.not_eq_true', List.any_eq_false,
      beq_iff_eq] at h
    intro x hx
    rcases List.mem_cons.mp hx with rfl | hx
    · intro heq
      exact h.1 r (by simp) heq.symm
    · exact ih h.2 x hx

theorem lookup_entries (o : Nat) (pre : List Rec) (r : Rec) (post : List Rec)
    (h : namesDistinct (pre ++ r :: post) = true) :
    Index.lookup ((entriesFrom o (pre ++ r :: post)).map ofEntry) r.name =
      some (ofEntry (r.entry (o + (pre.map Rec.render).flatten.length))) := by
  have hne := names_ne_of_distinct pre r post h
  rw [entriesFrom_append]
  simp only [entriesFrom, List.map_append, List.map_cons, Index.lookup]
  rw [List.find?_append]
  have hnone : List.find? (fun x => x.name == r.name) ((entriesFrom o pre).map ofEntry) = none := by
    clear h
    induction pre generalizing o with
    | nil => rfl
    | cons y ys ih =>
      have hy : ¬ (y.name = r.name) := hne y List.mem_cons_self
      simp only [entriesFrom, List.map_cons, List.find?_cons]
      have : ((ofEntry (y.entry o)).name == r.name) = false := by
        simp only [ofEntry, Rec.entry, beq_eq_false_iff_ne]; exact hy
      rw [this]
      exact ih _ (fun x hx => hne x (List.mem_cons_of_mem _ hx))
  rw [hnone]
  simp [ofEntry, Rec.entry]

/-- Everything the read theorems need about one record of a well-formed file. -/
theorem record_in_file (f : Hts.Spec.Fasta.File) (h : f.WF) (r : Rec) (hr : r ∈ f.recs) :
    ∃ R, Index.lookup (f.entries.map ofEntry) r.name = some R ∧ Good f.render R r.bases ∧
      R.name = r.name ∧ ∃ pre post, f.recs = pre ++ r :: post ∧
        R = ofEntry (r.entry (f.leading.length + (pre.map Rec.render).flatten.length)) := by
  obtain ⟨_, hwf, hdist, _⟩ := h
  obtain ⟨pre, post, hsplit⟩ := List.append_of_mem hr
  obtain ⟨last, hok⟩ := recOK_of_mem f.recs hwf r hr
  refine ⟨ofEntry (r.entry (f.leading.length + (pre.map Rec.render).flatten.length)), ?_, ?_, rfl, pre, post,
    hsplit, rfl⟩
  · have := lookup_entries f.leading.length pre r post (by rw [← hsplit]; exact hdist)
    simp only [Hts.Spec.Fasta.File.entries, hsplit]
    exact this
  · have := good_rec r last hok (f.leading ++ (pre.map Rec.render).flatten) (post.map Rec.render).flatten
    simp only [Hts.Spec.Fasta.File.render, hsplit, List.map_append, List.map_cons, List.flatten_append,
      List.flatten_cons]
    simpa [List.length_append] using this
