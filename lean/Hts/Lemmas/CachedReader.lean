/-
The cached reader refines the uncached reader (rd = 1), for every cache that satisfies the contract:
invariant `Inv` (= `cache_inv` of C03) and simulation `Sim`, preserved by every call.
Code variant: `Cfg.noStale` (repair C03-1 `clearOnRebase` or repair C09-2 `failReset`, or both); `peekGuard` arbitrary.
-/
import Hts.Model.CachedReader
import Hts.Lemmas.CacheContract
namespace Hts.Model.CachedReader
open Hts.Model.Cache Hts.Spec.CacheContract

variable {σ : Type}

/-- members have a positive size (so the next member starts strictly after this one) -/
def FileOK (f : File) : Prop := ∀ m ∈ f, 0 < m.size

/-- the block holds the member that starts at `k` -/
def Good (f : File) (k : Int) (b : RBlk) : Prop :=
  b.base = k ∧ b.hasData = true ∧ b.offFile = k ∧
    ∃ m, f.find k = some m ∧ b.data = m.data ∧ b.hsize = m.size

/-- two caches share no block -/
def Disj (o : CacheOps σ) (p q : σ) : Prop := ∀ e ∈ o.held p, ∀ e' ∈ o.held q, e.id ≠ e'.id

theorem Disj.symm {o : CacheOps σ} {p q : σ} (h : Disj o p q) : Disj o q p :=
  fun e he e' he' hh => h e' he' e he hh.symm

/-- a cache, attached or not, holds only allocated, intact blocks other than the current one, each once -/
structure CacheOK (o : CacheOps σ) (wf : σ → Prop) (f : File) (r : Reader σ) (c : σ) : Prop where
  wf : wf c
  ents : ∀ e ∈ o.held c, e.id < r.fresh ∧ r.cur ≠ some e.id ∧ Good f e.key (r.heap e.id)
  ids : ∀ a ∈ o.held c, ∀ b ∈ o.held c, a.id = b.id → a = b

/-- the caches that have been detached (`Reader.parked`) stay intact and share no block with each other or
with the attached cache -/
structure ParkedOK (o : CacheOps σ) (wf : σ → Prop) (f : File) (r : Reader σ) : Prop where
  ok : ∀ p ∈ r.parked, CacheOK o wf f r p
  act : ∀ c, r.cache = some c → ∀ p ∈ r.parked, Disj o c p
  pw : r.parked.Pairwise (Disj o)

/-- the detached caches are untouched by a step that only writes the current block or a new block -/
theorem ParkedOK.frame {o : CacheOps σ} {wf : σ → Prop} {f : File} {r R : Reader σ} (pk : ParkedOK o wf f r)
    (hp : R.parked = r.parked) (hf : r.fresh ≤ R.fresh)
    (hcur : ∀ p ∈ r.parked, ∀ e ∈ o.held p, R.cur ≠ some e.id)
    (hheap : ∀ p ∈ r.parked, ∀ e ∈ o.held p, R.heap e.id = r.heap e.id)
    (hact : ∀ c, R.cache = some c → ∀ p ∈ r.parked, Disj o c p) : ParkedOK o wf f R := by
  refine ⟨?_, ?_, ?_⟩
  · intro p hp'
    rw [hp] at hp'
    obtain ⟨w, ents, ids⟩ := pk.ok p hp'
    refine ⟨w, ?_, ids⟩
    intro e he
    obtain ⟨a1, _, a3⟩ := ents e he
    exact ⟨by omega, hcur p hp' e he, by rw [hheap p hp' e he]; exact a3⟩
  · intro c hc p hp'; rw [hp] at hp'; exact hact c hc p hp'
  · rw [hp]; exact pk.pw

theorem ParkedOK.congr {o : CacheOps σ} {wf : σ → Prop} {f : File} {r : Reader σ} (pk : ParkedOK o wf f r)
    (R : Reader σ) (h1 : R.heap = r.heap) (h2 : R.fresh = r.fresh) (h3 : R.cur = r.cur)
    (h4 : R.cache = r.cache) (h5 : R.parked = r.parked) : ParkedOK o wf f R :=
  pk.frame h5 (by omega) (fun p hp e he => by rw [h3]; exact ((pk.ok p hp).ents e he).2.1)
    (fun p hp e he => by rw [h1]) (fun c hc p hp => pk.act c (by rw [← h4]; exact hc) p hp)

/-- `cache_inv`: what holds of a reader and its cache after every history -/
structure Inv (o : CacheOps σ) (wf : σ → Prop) (f : File) (r : Reader σ) : Prop where
  cur_lt : ∀ id, r.cur = some id → id < r.fresh
  /-- a current block that claims to hold data holds the member of its base -/
  cur_good : ∀ id, r.cur = some id → (r.heap id).hasData = true → Good f (r.heap id).base (r.heap id)
  cache_wf : ∀ c, r.cache = some c → wf c
  /-- every cache entry (k, id): the block exists, is not the current block, and holds member k -/
  held : ∀ c, r.cache = some c → ∀ e ∈ o.held c,
    e.id < r.fresh ∧ r.cur ≠ some e.id ∧ Good f e.key (r.heap e.id)
  /-- block identities in the cache are pairwise distinct -/
  ids : ∀ c, r.cache = some c → ∀ a ∈ o.held c, ∀ b ∈ o.held c, a.id = b.id → a = b
  /-- the same holds of every cache that was attached earlier and may be attached again -/
  parked : ParkedOK o wf f r

theorem Inv.congr {o : CacheOps σ} {wf : σ → Prop} {f : File} {r : Reader σ} (i : Inv o wf f r)
    (R : Reader σ) (h1 : R.heap = r.heap) (h2 : R.fresh = r.fresh) (h3 : R.cur = r.cur)
    (h4 : R.cache = r.cache) (h5 : R.parked = r.parked := by rfl) : Inv o wf f R := by
  refine ⟨?_, ?_, ?_, ?_, ?_, i.parked.congr R h1 h2 h3 h4 h5⟩
  · intro id hid; rw [h2]; exact i.cur_lt id (by rw [← h3]; exact hid)
  · intro id hid hd; rw [h1] at hd ⊢; exact i.cur_good id (by rw [← h3]; exact hid) hd
  · intro c hc; exact i.cache_wf c (by rw [← h4]; exact hc)
  · intro c hc e he
    obtain ⟨a1, a2, a3⟩ := i.held c (by rw [← h4]; exact hc) e he
    exact ⟨by rw [h2]; exact a1, by rw [h3]; exact a2, by rw [h1]; exact a3⟩
  · intro c hc; exact i.ids c (by rw [← h4]; exact hc)

/-- the two current blocks look the same to the reader -/
def BlkEq (a b : RBlk) : Prop :=
  a.offFile = b.offFile ∧ a.offBlock = b.offBlock ∧ a.hasData = b.hasData ∧
    (a.hasData = true → a.base = b.base ∧ a.data = b.data ∧ a.pos = b.pos ∧ a.hsize = b.hsize)

theorem BlkEq.refl (a : RBlk) : BlkEq a a := ⟨rfl, rfl, rfl, fun _ => ⟨rfl, rfl, rfl, rfl⟩⟩

/-- … and report the same position -/
theorem BlkEq.txOffset {a b : RBlk} (h : BlkEq a b) : a.txOffset = b.txOffset := by
  obtain ⟨h1, h2, h3, h4⟩ := h
  by_cases hd : a.hasData = true
  · obtain ⟨h5, h6, h7, h8⟩ := h4 hd
    cases a; cases b
    simp only at h1 h2 h3 h5 h6 h7 h8
    subst h1 h2 h3 h5 h6 h7 h8
    rfl
  · have hd' : a.hasData = false := by simpa using hd
    have hb : b.hasData = false := by rw [← h3]; exact hd'
    simp [RBlk.txOffset, hd', hb, h1, h2]

/-- everything but the caches agrees -/
structure Sim (C U : Reader σ) : Prop where
  err : C.err = U.err
  cb : C.chunkBegin = U.chunkBegin
  ce : C.chunkEnd = U.chunkEnd
  blocked : C.blocked = U.blocked
  ucache : U.cache = none
  cur : ∃ c u, C.cur = some c ∧ U.cur = some u ∧ BlkEq (C.heap c) (U.heap u)
  /-- no pending error ⇒ the current block holds data -/
  live : C.err = .none → ∀ c, C.cur = some c → (C.heap c).hasData = true

/-! ### cachePut -/

theorem cachePut_fields {o : CacheOps σ} {r r2 : Reader σ} {c c2 : σ} {b back : Option Nat} {ret : Bool}
    (h : cachePut o r c b = .ok (r2, c2, back, ret)) :
    r2.heap = r.heap ∧ r2.fresh = r.fresh ∧ r2.cur = r.cur ∧ r2.err = r.err ∧
    r2.chunkBegin = r.chunkBegin ∧ r2.chunkEnd = r.chunkEnd ∧ r2.blocked = r.blocked ∧ r2.cache = r.cache ∧
    r2.parked = r.parked := by
  unfold cachePut at h
  cases b with
  | none => simp at h; obtain ⟨h1, _⟩ := h; subst h1; simp
  | some id =>
    simp only at h
    split at h
    · simp at h; obtain ⟨h1, _⟩ := h; subst h1; simp
    · split at h
      · cases h
      · simp at h; obtain ⟨h1, _⟩ := h; subst h1; simp
      · simp at h; obtain ⟨h1, _⟩ := h; subst h1; simp
      · simp at h; obtain ⟨h1, _⟩ := h; subst h1; simp
      · cases h

/-- what `cachePut` does to the cache: nothing, or one `Put` of a block that has data -/
theorem cachePut_cache {o : CacheOps σ} {r r2 : Reader σ} {c c2 : σ} {b back : Option Nat} {ret : Bool}
    (h : cachePut o r c b = .ok (r2, c2, back, ret)) :
    (ret = false ∧ back = b ∧ (c2 = c ∨ ∃ id hint, b = some id ∧ (r.heap id).hasData = true ∧
        o.put r.hview c id hint = some (c2, .refused))) ∨
    (ret = true ∧ ∃ id hint ev, b = some id ∧ (r.heap id).hasData = true ∧
        o.put r.hview c id hint = some (c2, .kept ev)) := by
  unfold cachePut at h
  cases b with
  | none => simp at h; obtain ⟨_, h2, h3, h4⟩ := h; subst h2 h3 h4; exact Or.inl ⟨rfl, rfl, Or.inl rfl⟩
  | some id =>
    simp only at h
    split at h
    · simp at h; obtain ⟨_, h2, h3, h4⟩ := h; subst h2 h3 h4; exact Or.inl ⟨rfl, rfl, Or.inl rfl⟩
    · rename_i hd
      have hd' : (r.heap id).hasData = true := by simpa using hd
      split at h
      · cases h
      · rename_i c' hp
        simp at h; obtain ⟨_, h2, h3, h4⟩ := h; subst h2 h3 h4
        exact Or.inl ⟨rfl, rfl, Or.inr ⟨id, _, rfl, hd', hp⟩⟩
      · rename_i c' hp
        simp at h; obtain ⟨_, h2, h3, h4⟩ := h; subst h2 h3 h4
        exact Or.inr ⟨rfl, id, _, none, rfl, hd', hp⟩
      · rename_i c' v hp
        simp at h; obtain ⟨_, h2, h3, h4⟩ := h; subst h2 h3 h4
        exact Or.inr ⟨rfl, id, _, some v, rfl, hd', hp⟩
      · cases h

/-- one `Put` of a block that is not in the cache keeps any per-entry property that also holds of the new entry,
keeps identities distinct, and adds no key other than the block's base -/
theorem put_preserves {o : CacheOps σ} {wf : σ → Prop} (ct : Contract o wf) {h : Heap} {c c2 : σ}
    {id : Nat} {hint : Option Nat} {res : PutRes} (P : Entry → Prop)
    (hw : wf c) (hp : o.put h c id hint = some (c2, res))
    (hP : ∀ e ∈ o.held c, P e) (hnew : P ⟨(h id).base, id⟩)
    (hnot : ∀ e ∈ o.held c, e.id ≠ id)
    (hids : ∀ a ∈ o.held c, ∀ b ∈ o.held c, a.id = b.id → a = b) :
    wf c2 ∧ (∀ e ∈ o.held c2, P e) ∧
    (∀ a ∈ o.held c2, ∀ b ∈ o.held c2, a.id = b.id → a = b) ∧
    (∀ k, (∀ e ∈ o.held c, e.key ≠ k) → (h id).base ≠ k → ∀ e ∈ o.held c2, e.key ≠ k) ∧
    (∀ e ∈ o.held c2, e ∈ o.held c ∨ e = ⟨(h id).base, id⟩) := by
  have hw2 := ct.put_wf _ _ _ _ _ _ hw hp
  cases res with
  | refused =>
    have hh := ct.put_refused _ _ _ _ _ hw hp
    rw [hh]
    exact ⟨hw2, hP, hids, fun k hk _ => hk, fun e he => Or.inl he⟩
  | panic => exact absurd hp (ct.put_no_panic _ _ _ _ _ hw)
  | kept ev =>
    obtain ⟨_, hk⟩ := ct.put_kept _ _ _ _ _ _ hw hp
    have hmem : ∀ e ∈ o.held c2, e = ⟨(h id).base, id⟩ ∨ e ∈ o.held c := by
      intro e he
      cases ev with
      | none => exact (hk e).1 he
      | some v =>
        obtain ⟨kv, _, hk⟩ := hk
        rcases (hk e).1 he with h1 | h1
        · exact Or.inl h1
        · exact Or.inr h1.1
    refine ⟨hw2, ?_, ?_, ?_, ?_⟩
    · intro e he
      rcases hmem e he with h1 | h1
      · rw [h1]; exact hnew
      · exact hP e h1
    · intro a ha b hb hab
      rcases hmem a ha with h1 | h1 <;> rcases hmem b hb with h2 | h2
      · rw [h1, h2]
      · exact absurd (by rw [← hab, h1]) (hnot b h2)
      · exact absurd (by rw [hab, h2]) (hnot a h1)
      · exact hids a h1 b h2 hab
    · intro k hk' hne e he
      rcases hmem e he with h1 | h1
      · rw [h1]; exact hne
      · exact hk' e h1
    · intro e he
      rcases hmem e he with h1 | h1
      · exact Or.inr h1
      · exact Or.inl h1

theorem Good.seek0 {f : File} {k : Int} {b : RBlk} (g : Good f k b) :
    Good f k { b with pos := 0, offBlock := 0 } := g

theorem setB_same (r : Reader σ) (id : Nat) (b : RBlk) : (r.setB id b).heap id = b := by
  simp [Reader.setB]

theorem setB_other (r : Reader σ) {id j : Nat} (b : RBlk) (h : j ≠ id) : (r.setB id b).heap j = r.heap j := by
  simp [Reader.setB, h]

theorem recycle_cases (cfg : Cfg) (o : CacheOps σ) (r2 : Reader σ) (c2 : σ) (ret : Bool) (back : Option Nat) :
    recycle cfg o r2 c2 ret back = none ∨ (ret = false ∧ recycle cfg o r2 c2 ret back = back) := by
  unfold recycle
  cases ret with
  | true => exact Or.inl rfl
  | false =>
    cases back with
    | none => exact Or.inl rfl
    | some id =>
      simp only [Bool.false_eq_true, if_false]
      split
      · exact Or.inl rfl
      · exact Or.inr ⟨trivial, rfl⟩

@[simp] theorem markLent_heap (r : Reader σ) (b : Bool) (id : Nat) : (markLent r b id).heap = r.heap := by
  unfold markLent; split <;> rfl
@[simp] theorem markLent_fresh (r : Reader σ) (b : Bool) (id : Nat) : (markLent r b id).fresh = r.fresh := by
  unfold markLent; split <;> rfl
@[simp] theorem markLent_cur (r : Reader σ) (b : Bool) (id : Nat) : (markLent r b id).cur = r.cur := by
  unfold markLent; split <;> rfl
@[simp] theorem markLent_err (r : Reader σ) (b : Bool) (id : Nat) : (markLent r b id).err = r.err := by
  unfold markLent; split <;> rfl
@[simp] theorem markLent_cb (r : Reader σ) (b : Bool) (id : Nat) :
    (markLent r b id).chunkBegin = r.chunkBegin := by unfold markLent; split <;> rfl
@[simp] theorem markLent_ce (r : Reader σ) (b : Bool) (id : Nat) :
    (markLent r b id).chunkEnd = r.chunkEnd := by unfold markLent; split <;> rfl
@[simp] theorem markLent_blocked (r : Reader σ) (b : Bool) (id : Nat) :
    (markLent r b id).blocked = r.blocked := by unfold markLent; split <;> rfl
@[simp] theorem markLent_cache (r : Reader σ) (b : Bool) (id : Nat) : (markLent r b id).cache = r.cache := by
  unfold markLent; split <;> rfl
@[simp] theorem markLent_parked (r : Reader σ) (b : Bool) (id : Nat) : (markLent r b id).parked = r.parked := by
  unfold markLent; split <;> rfl
theorem markLent_hview (r : Reader σ) (b : Bool) (id : Nat) : (markLent r b id).hview = r.hview := by
  unfold markLent; split <;> rfl

/-- `cacheSwap(k)` when the current block is not a data-holding block of base `k` -/
theorem cacheSwap_spec {o : CacheOps σ} {wf : σ → Prop} (ct : Contract o wf) {cfg : Cfg} {f : File}
    {r r1 : Reader σ} {k : Int} {hit : Bool} (inv : Inv o wf f r)
    (hk : ∀ id, r.cur = some id → (r.heap id).hasData = true → (r.heap id).base ≠ k)
    (h : cacheSwap cfg o r k = .ok (r1, hit)) :
    r1.err = r.err ∧ r1.chunkBegin = r.chunkBegin ∧ r1.chunkEnd = r.chunkEnd ∧ r1.blocked = r.blocked ∧
    r1.fresh = r.fresh ∧ (r.cache = none → hit = false ∧ r1.cache = none) ∧ Inv o wf f r1 ∧
    (hit = true → ∃ id, r1.cur = some id ∧ Good f k (r1.heap id) ∧ (r1.heap id).pos = 0 ∧
        (r1.heap id).offBlock = 0) ∧
    (hit = false → r1.heap = r.heap ∧ (r1.cur = none ∨ r1.cur = r.cur) ∧
        ∀ c1, r1.cache = some c1 → ∀ e ∈ o.held c1, e.key ≠ k) := by
  unfold cacheSwap at h
  cases hc : r.cache with
  | none =>
    simp only [hc] at h
    split at h
    · simp only [Except.ok.injEq, Prod.mk.injEq] at h
      obtain ⟨h1, h2⟩ := h
      subst h1 h2
      refine ⟨rfl, rfl, rfl, rfl, rfl, fun _ => ⟨rfl, rfl⟩, ?_, fun h0 => Bool.noConfusion h0,
        fun _ => ⟨rfl, Or.inl rfl, fun c1 h1 => by cases h1⟩⟩
      refine ⟨?_, ?_, ?_, ?_, ?_, ?_⟩
      · intro j hj; cases hj
      · intro j hj; cases hj
      · intro c' hc'; cases hc'
      · intro c' hc'; cases hc'
      · intro c' hc'; cases hc'
      · exact inv.parked.frame rfl (Nat.le_refl _) (fun _ _ _ _ => by simp) (fun _ _ _ _ => rfl)
          (fun c' hc' => by cases hc')
    · simp only [Except.ok.injEq, Prod.mk.injEq] at h
      obtain ⟨h1, h2⟩ := h
      subst h1 h2
      exact ⟨rfl, rfl, rfl, rfl, rfl, fun _ => ⟨rfl, hc⟩, inv, fun h0 => Bool.noConfusion h0,
        fun _ => ⟨rfl, Or.inr rfl, fun c1 h1 => by rw [hc] at h1; cases h1⟩⟩
  | some c =>
    simp only [hc] at h
    have hwf := inv.cache_wf c hc
    have g6 : ∀ (R : Reader σ) (b : Bool), (some c = none → b = false ∧ R.cache = none) := by
      intro R b h0; cases h0
    split at h
    · rename_i c1 id hg
      have hwf1 : wf c1 := by have := ct.get_wf r.hview c k hwf; rw [hg] at this; exact this
      obtain ⟨hmem, hheld1⟩ := ct.get_hit _ _ _ _ _ hwf hg
      obtain ⟨hid_lt, hid_cur, hid_good⟩ := inv.held c hc _ hmem
      simp only at hid_lt hid_cur hid_good
      -- the block handed over gets seek(0)
      generalize hbl : (cfg.lentGuard && (o.peek r.hview c1 k).1) = bl at h
      cases hp : cachePut o (markLent (r.setB id { r.heap id with pos := 0, offBlock := 0 }) bl id) c1
          (markLent (r.setB id { r.heap id with pos := 0, offBlock := 0 }) bl id).cur with
      | error e => rw [hp] at h; cases h
      | ok v =>
        obtain ⟨r2, c2, back, ret⟩ := v
        rw [hp] at h
        simp only [Except.ok.injEq, Prod.mk.injEq] at h
        obtain ⟨h1, h2⟩ := h
        subst h1 h2
        obtain ⟨fh, ff, fc, fe, fcb, fce, fbl, fca, fpk⟩ := cachePut_fields hp
        simp only [markLent_heap, markLent_fresh, markLent_cur, markLent_err, markLent_cb, markLent_ce,
          markLent_blocked, markLent_cache, markLent_parked] at fh ff fc fe fcb fce fbl fca fpk
        have hheap : ∀ j, j ≠ id → r2.heap j = r.heap j := by
          intro j hj; rw [fh]; exact setB_other _ _ hj
        have hheap_id : r2.heap id = { r.heap id with pos := 0, offBlock := 0 } := by
          rw [fh]; exact setB_same _ _ _
        -- facts about entries of c1
        have hP1 : ∀ e ∈ o.held c1, e.id < r.fresh ∧ e.id ≠ id ∧ Good f e.key (r.heap e.id) := by
          intro e he
          obtain ⟨he0, hne⟩ := (hheld1 e).1 he
          obtain ⟨a1, _, a3⟩ := inv.held c hc e he0
          refine ⟨a1, fun hid => hne ?_, a3⟩
          exact inv.ids c hc e he0 _ hmem hid
        have hids1 : ∀ a ∈ o.held c1, ∀ b ∈ o.held c1, a.id = b.id → a = b := by
          intro a ha b hb
          exact inv.ids c hc a ((hheld1 a).1 ha).1 b ((hheld1 b).1 hb).1
        -- one Put of the old current block (if it happened)
        have hputcase : ∀ cid hint res, r.cur = some cid →
            ((markLent (r.setB id { r.heap id with pos := 0, offBlock := 0 }) bl id).heap cid).hasData = true →
            o.put (markLent (r.setB id { r.heap id with pos := 0, offBlock := 0 }) bl id).hview c1 cid hint =
              some (c2, res) →
            wf c2 ∧ (∀ e ∈ o.held c2, e.id < r.fresh ∧ e.id ≠ id ∧ Good f e.key (r.heap e.id)) ∧
              (∀ a ∈ o.held c2, ∀ b ∈ o.held c2, a.id = b.id → a = b) ∧
              (∀ e ∈ o.held c2, e ∈ o.held c1 ∨ r.cur = some e.id) := by
          intro cid hint res hcur hd hput
          have hne : cid ≠ id := fun hh => hid_cur (hh ▸ hcur)
          have hd' : (r.heap cid).hasData = true := by
            rw [markLent_heap, setB_other _ _ hne] at hd; exact hd
          have hbase : ((markLent (r.setB id { r.heap id with pos := 0, offBlock := 0 }) bl id).hview cid).base
              = (r.heap cid).base := by
            rw [markLent_hview]
            simp [Reader.hview, RBlk.view, setB_other _ _ hne]
          have := put_preserves ct (fun e => e.id < r.fresh ∧ e.id ≠ id ∧ Good f e.key (r.heap e.id))
            hwf1 hput hP1
            ⟨inv.cur_lt cid hcur, hne, by rw [hbase]; exact inv.cur_good cid hcur hd'⟩
            (fun e he hh => (inv.held c hc e ((hheld1 e).1 he).1).2.1 (hh ▸ hcur)) hids1
          refine ⟨this.1, this.2.1, this.2.2.1, fun e he => ?_⟩
          rcases this.2.2.2.2 e he with h1 | h1
          · exact Or.inl h1
          · exact Or.inr (by rw [h1]; exact hcur)
        have hc2 : wf c2 ∧ (∀ e ∈ o.held c2, e.id < r.fresh ∧ e.id ≠ id ∧ Good f e.key (r.heap e.id)) ∧
            (∀ a ∈ o.held c2, ∀ b ∈ o.held c2, a.id = b.id → a = b) ∧
            (∀ e ∈ o.held c2, e ∈ o.held c1 ∨ r.cur = some e.id) := by
          rcases cachePut_cache hp with ⟨_, _, hcc⟩ | ⟨_, cid, hint, ev, hb, hd, hput⟩
          · rcases hcc with hcc | ⟨cid, hint, hb, hd, hput⟩
            · rw [hcc]; exact ⟨hwf1, hP1, hids1, fun e he => Or.inl he⟩
            · exact hputcase cid hint _ (by simpa [Reader.setB] using hb) hd hput
          · exact hputcase cid hint _ (by simpa [Reader.setB] using hb) hd hput
        have hnp : ∀ e ∈ o.held c2, ∀ p ∈ r.parked, ∀ e' ∈ o.held p, e.id ≠ e'.id := by
          intro e he p hp e' he'
          rcases hc2.2.2.2 e he with h1 | h1
          · exact inv.parked.act c hc p hp e ((hheld1 e).1 h1).1 e' he'
          · intro hh; exact ((inv.parked.ok p hp).ents e' he').2.1 (by rw [h1, hh])
        have g7 : Inv o wf f { r2 with cache := some c2, cur := some id } := by
          refine ⟨?_, ?_, ?_, ?_, ?_, ?_⟩
          rotate_left 5
          · refine inv.parked.frame fpk (by rw [ff]; exact Nat.le_refl _) ?_ ?_ ?_
            · intro p hp e' he' hh
              simp only [Option.some.injEq] at hh
              exact inv.parked.act c hc p hp _ hmem e' he' hh
            · intro p hp e' he'
              have hne : e'.id ≠ id := fun hh => inv.parked.act c hc p hp _ hmem e' he' hh.symm
              exact hheap _ hne
            · intro c' hc' p hp e he e' he'
              simp only [Option.some.injEq] at hc'; subst hc'
              exact hnp e he p hp e' he'
          · intro j hj; simp only [Option.some.injEq] at hj; subst hj; simp only; rw [ff]; exact hid_lt
          · intro j hj _
            simp only [Option.some.injEq] at hj; subst hj
            simp only
            rw [hheap_id]
            have := hid_good.seek0
            rw [← hid_good.1] at this
            exact this
          · intro c' hc'; simp only [Option.some.injEq] at hc'; subst hc'; exact hc2.1
          · intro c' hc' e he
            simp only [Option.some.injEq] at hc'; subst hc'
            obtain ⟨a1, a2, a3⟩ := hc2.2.1 e he
            refine ⟨by simp only; rw [ff]; exact a1,
              fun hh => a2 (by simp only [Option.some.injEq] at hh; exact hh.symm), ?_⟩
            simp only; rw [hheap _ a2]; exact a3
          · intro c' hc'; simp only [Option.some.injEq] at hc'; subst hc'; exact hc2.2.2.1
        have g8 : true = true → ∃ j, ({ r2 with cache := some c2, cur := some id } : Reader σ).cur = some j ∧
            Good f k (({ r2 with cache := some c2, cur := some id } : Reader σ).heap j) ∧
            (({ r2 with cache := some c2, cur := some id } : Reader σ).heap j).pos = 0 ∧
            (({ r2 with cache := some c2, cur := some id } : Reader σ).heap j).offBlock = 0 := by
          intro _
          refine ⟨id, rfl, ?_, ?_, ?_⟩
          · simp only; rw [hheap_id]; exact hid_good.seek0
          · simp only; rw [hheap_id]
          · simp only; rw [hheap_id]
        exact ⟨fe, fcb, fce, fbl, ff, g6 _ _, g7, g8, fun h0 => Bool.noConfusion h0⟩
    · rename_i c1 hg
      have hwf1 : wf c1 := by have := ct.get_wf r.hview c k hwf; rw [hg] at this; exact this
      obtain ⟨hheld1, hnokey⟩ := ct.get_miss _ _ _ _ hwf hg
      cases hp : cachePut o r c1 r.cur with
      | error e => rw [hp] at h; cases h
      | ok v =>
        obtain ⟨r2, c2, back, ret⟩ := v
        rw [hp] at h
        simp only [Except.ok.injEq, Prod.mk.injEq] at h
        obtain ⟨h1, h2⟩ := h
        subst h1 h2
        obtain ⟨fh, ff, fc, fe, fcb, fce, fbl, fca, fpk⟩ := cachePut_fields hp
        have hP1 : ∀ e ∈ o.held c1, e.id < r.fresh ∧ r.cur ≠ some e.id ∧ Good f e.key (r.heap e.id) := by
          intro e he; rw [hheld1] at he; exact inv.held c hc e he
        have hids1 : ∀ a ∈ o.held c1, ∀ b ∈ o.held c1, a.id = b.id → a = b := by
          rw [hheld1]; exact inv.ids c hc
        have hnokey1 : ∀ e ∈ o.held c1, e.key ≠ k := by rw [hheld1]; exact hnokey
        -- the block kept for the next decompression, and the cache after cachePut
        have hboth : (recycle cfg o r2 c2 ret back = none ∨ recycle cfg o r2 c2 ret back = r.cur) ∧
            wf c2 ∧
            (∀ e ∈ o.held c2, e.id < r.fresh ∧ recycle cfg o r2 c2 ret back ≠ some e.id ∧
              Good f e.key (r.heap e.id)) ∧
            (∀ a ∈ o.held c2, ∀ b ∈ o.held c2, a.id = b.id → a = b) ∧ (∀ e ∈ o.held c2, e.key ≠ k) := by
          rcases cachePut_cache hp with ⟨hret, hback, hcc⟩ | ⟨hret, cid, hint, ev, hb, hd, hput⟩
          · -- not retained: the block handed back is the current block
            rcases hcc with hcc | ⟨cid, hint, hb, hd, hput⟩
            · subst hcc
              have hcurR : recycle cfg o r2 c2 ret back = none ∨ recycle cfg o r2 c2 ret back = r.cur := by
                rcases recycle_cases cfg o r2 c2 ret back with h0 | ⟨_, h0⟩
                · exact Or.inl h0
                · exact Or.inr (by rw [h0, hback])
              have hne : ∀ e ∈ o.held c2, recycle cfg o r2 c2 ret back ≠ some e.id := by
                intro e he
                rcases hcurR with h0 | h0
                · rw [h0]; simp
                · rw [h0]; exact (hP1 e he).2.1
              exact ⟨hcurR, hwf1, fun e he => ⟨(hP1 e he).1, hne e he, (hP1 e he).2.2⟩, hids1, hnokey1⟩
            · have hcurR : recycle cfg o r2 c2 ret back = none ∨ recycle cfg o r2 c2 ret back = r.cur := by
                rcases recycle_cases cfg o r2 c2 ret back with h0 | ⟨_, h0⟩
                · exact Or.inl h0
                · exact Or.inr (by rw [h0, hback])
              have hne : ∀ e ∈ o.held c1, recycle cfg o r2 c2 ret back ≠ some e.id := by
                intro e he
                rcases hcurR with h0 | h0
                · rw [h0]; simp
                · rw [h0]; exact (hP1 e he).2.1
              have hh := ct.put_refused _ _ _ _ _ hwf1 hput
              have hw2 := ct.put_wf _ _ _ _ _ _ hwf1 hput
              rw [hh]
              exact ⟨hcurR, hw2, fun e he => ⟨(hP1 e he).1, hne e he, (hP1 e he).2.2⟩, hids1, hnokey1⟩
          · -- retained: the reader gives the block away, the next block will be a fresh one
            subst hret
            have hcur : r.cur = some cid := hb
            have hrec : recycle cfg o r2 c2 true back = none := rfl
            have hpres := put_preserves ct (fun e => e.id < r.fresh ∧ Good f e.key (r.heap e.id))
              hwf1 hput (fun e he => ⟨(hP1 e he).1, (hP1 e he).2.2⟩)
              ⟨inv.cur_lt cid hcur, inv.cur_good cid hcur hd⟩
              (fun e he hh => (hP1 e he).2.1 (hh ▸ hcur)) hids1
            refine ⟨Or.inl hrec, hpres.1, ?_, hpres.2.2.1, hpres.2.2.2.1 k hnokey1 (hk cid hcur hd)⟩
            intro e he
            exact ⟨(hpres.2.1 e he).1, by rw [hrec]; simp, (hpres.2.1 e he).2⟩
        obtain ⟨hcurR, hw2, hP2, hids2, hnokey2⟩ := hboth
        have horigin : ∀ e ∈ o.held c2, e ∈ o.held c1 ∨ r.cur = some e.id := by
          rcases cachePut_cache hp with ⟨_, _, hcc⟩ | ⟨_, cid, hint, ev, hb, hd, hput⟩
          · rcases hcc with hcc | ⟨cid, hint, hb, hd, hput⟩
            · rw [hcc]; exact fun e he => Or.inl he
            · rw [ct.put_refused _ _ _ _ _ hwf1 hput]; exact fun e he => Or.inl he
          · have hcur : r.cur = some cid := hb
            have := put_preserves ct (fun _ => True) hwf1 hput (fun _ _ => trivial) trivial
              (fun e he hh => (hP1 e he).2.1 (hh ▸ hcur)) hids1
            intro e he
            rcases this.2.2.2.2 e he with h1 | h1
            · exact Or.inl h1
            · exact Or.inr (by rw [h1]; exact hcur)
        have g7 : Inv o wf f { r2 with cache := some c2, cur := recycle cfg o r2 c2 ret back } := by
          refine ⟨?_, ?_, ?_, ?_, ?_, ?_⟩
          rotate_left 5
          · refine inv.parked.frame fpk (by rw [ff]; exact Nat.le_refl _) ?_ ?_ ?_
            · intro p hp e' he'
              simp only
              rcases hcurR with h0 | h0
              · rw [h0]; simp
              · rw [h0]; exact ((inv.parked.ok p hp).ents e' he').2.1
            · intro p hp e' he'; simp only; rw [fh]
            · intro c' hc' p hp e he e' he'
              simp only [Option.some.injEq] at hc'; subst hc'
              rcases horigin e he with h1 | h1
              · rw [hheld1] at h1; exact inv.parked.act c hc p hp e h1 e' he'
              · intro hh; exact ((inv.parked.ok p hp).ents e' he').2.1 (by rw [h1, hh])
          · intro j hj
            simp only at hj
            rcases hcurR with h0 | h0
            · rw [h0] at hj; cases hj
            · rw [h0] at hj; simp only; rw [ff]; exact inv.cur_lt j hj
          · intro j hj hd
            simp only at hj hd
            rcases hcurR with h0 | h0
            · rw [h0] at hj; cases hj
            · rw [h0] at hj; simp only; rw [fh] at hd ⊢; exact inv.cur_good j hj hd
          · intro c' hc'; simp only [Option.some.injEq] at hc'; subst hc'; exact hw2
          · intro c' hc' e he
            simp only [Option.some.injEq] at hc'; subst hc'
            obtain ⟨a1, a2, a3⟩ := hP2 e he
            exact ⟨by simp only; rw [ff]; exact a1, a2, by simp only; rw [fh]; exact a3⟩
          · intro c' hc'; simp only [Option.some.injEq] at hc'; subst hc'; exact hids2
        refine ⟨fe, fcb, fce, fbl, ff, g6 _ _, g7, fun h0 => Bool.noConfusion h0, fun _ => ⟨fh, hcurR, ?_⟩⟩
        intro c' hc'; simp only [Option.some.injEq] at hc'; subst hc'; exact hnokey2

/-! ### nextBlockAt -/

/-- the block after (trying to) load the member at `off` -/
def Loaded (f : File) (off : Int) (b : RBlk) (e : Err) : Prop :=
  b.offFile = off ∧ b.offBlock = 0 ∧
    match f.find off with
    | some _ => e = .none ∧ Good f off b ∧ b.pos = 0
    | none => e = (if off ≥ f.len then .eof else .other) ∧ b.hasData = false

theorem Loaded.blkEq {f : File} {off : Int} {a b : RBlk} {e e' : Err}
    (ha : Loaded f off a e) (hb : Loaded f off b e') : e = e' ∧ BlkEq a b := by
  obtain ⟨a1, a2, a3⟩ := ha
  obtain ⟨b1, b2, b3⟩ := hb
  cases hm : f.find off with
  | none =>
    rw [hm] at a3 b3
    simp only at a3 b3
    refine ⟨by rw [a3.1, b3.1], by rw [a1, b1], by rw [a2, b2], by rw [a3.2, b3.2], ?_⟩
    intro hd; rw [a3.2] at hd; cases hd
  | some m =>
    rw [hm] at a3 b3
    simp only at a3 b3
    obtain ⟨ae, ⟨ag1, ag2, ag3, m1, hm1, ad, ah⟩, ap⟩ := a3
    obtain ⟨be, ⟨bg1, bg2, bg3, m2, hm2, bd, bh⟩, bp⟩ := b3
    have : m1 = m2 := by rw [hm1] at hm2; exact Option.some.inj hm2
    subst this
    refine ⟨by rw [ae, be], by rw [a1, b1], by rw [a2, b2], by rw [ag2, bg2], ?_⟩
    intro _
    exact ⟨by rw [ag1, bg1], by rw [ad, bd], by rw [ap, bp], by rw [ah, bh]⟩

theorem peekSkip_miss {o : CacheOps σ} {wf : σ → Prop} (ct : Contract o wf) {h : Heap} {c : σ} (hw : wf c)
    {off : Int} (hk : ∀ e ∈ o.held c, e.key ≠ off) (fuel : Nat) :
    peekSkip o h c (fuel + 1) off = .ok off := by
  unfold peekSkip
  cases hp : o.peek h c off with
  | mk b nx =>
    cases b with
    | false => simp
    | true =>
      obtain ⟨id, hm, _⟩ := ct.peek_hit _ _ _ _ hw hp
      exact absurd rfl (hk _ hm)

theorem lazyBlock_spec {o : CacheOps σ} {wf : σ → Prop} {f : File} {r : Reader σ} (inv : Inv o wf f r) :
    ∃ r' id, lazyBlock r = (r', id) ∧ r'.cur = some id ∧ id < r'.fresh ∧ r.fresh ≤ r'.fresh ∧
      (∀ c, r.cache = some c → ∀ e ∈ o.held c, e.id ≠ id) ∧
      (∀ j, j ≠ id → r'.heap j = r.heap j) ∧
      r'.cache = r.cache ∧ r'.err = r.err ∧ r'.chunkBegin = r.chunkBegin ∧ r'.chunkEnd = r.chunkEnd ∧
      r'.blocked = r.blocked ∧ r'.lent = r.lent ∧ r'.parked = r.parked ∧
      (∀ p ∈ r.parked, ∀ e ∈ o.held p, e.id ≠ id) := by
  unfold lazyBlock
  cases hcur : r.cur with
  | some id =>
    refine ⟨r, id, rfl, hcur, inv.cur_lt id hcur, Nat.le_refl _, ?_, fun _ _ => rfl, rfl, rfl, rfl, rfl, rfl, rfl,
      rfl, ?_⟩
    · intro c hc e he hh
      exact (inv.held c hc e he).2.1 (by rw [hcur, hh])
    · intro p hp e he hh
      exact ((inv.parked.ok p hp).ents e he).2.1 (by rw [hcur, hh])
  | none =>
    refine ⟨_, r.fresh, rfl, rfl, by simp [Reader.setB], by simp [Reader.setB], ?_, ?_, rfl, rfl, rfl, rfl, rfl, rfl,
      rfl, ?_⟩
    · intro c hc e he hh
      have := (inv.held c hc e he).1
      omega
    · intro j hj; simp [Reader.setB, hj]
    · intro p hp e he hh
      have := ((inv.parked.ok p hp).ents e he).1
      omega

theorem rebase_facts (cfg : Cfg) (b : RBlk) (off : Int) :
    (rebase cfg b off).base = off ∧ (rebase cfg b off).offFile = off ∧ (rebase cfg b off).offBlock = 0 := by
  unfold rebase
  split <;> simp

theorem failedBlk_facts (cfg : Cfg) (hcfg : cfg.noStale) (b : RBlk) (off : Int) :
    (failedBlk cfg (rebase cfg b off) off).offFile = off ∧ (failedBlk cfg (rebase cfg b off) off).offBlock = 0 ∧
    (failedBlk cfg (rebase cfg b off) off).hasData = false := by
  unfold failedBlk
  cases hf : cfg.failReset with
  | true => simp
  | false =>
    have hc : cfg.clearOnRebase = true := by
      rcases hcfg with h | h
      · exact h
      · rw [hf] at h; cases h
    simp [rebase, hc]

/-- the decompression step proper (variant with repair C03-1): the current block becomes `Loaded`, the
invariant is kept, nothing else changes -/
theorem loadAt_spec {o : CacheOps σ} {wf : σ → Prop} {cfg : Cfg}
    (hcfg : cfg.noStale) {f : File} {r : Reader σ} (off : Int) (inv : Inv o wf f r) :
    ∃ id, (loadAt cfg f r off).1.cur = some id ∧
      Loaded f off ((loadAt cfg f r off).1.heap id) (loadAt cfg f r off).2 ∧
      Inv o wf f (loadAt cfg f r off).1 ∧ (loadAt cfg f r off).1.err = r.err ∧
      (loadAt cfg f r off).1.chunkBegin = r.chunkBegin ∧ (loadAt cfg f r off).1.chunkEnd = r.chunkEnd ∧
      (loadAt cfg f r off).1.blocked = r.blocked ∧ (loadAt cfg f r off).1.cache = r.cache ∧
      (loadAt cfg f r off).1.lent = r.lent := by
  obtain ⟨r', id, hl, hcur, hlt, hfresh, hnot, hheap, hca, he, hcb, hce, hbl, hle, hpk, hnotp⟩ := lazyBlock_spec inv
  obtain ⟨rb1, rb2, rb3⟩ := rebase_facts cfg (r'.heap id) off
  obtain ⟨fb2, fb3, fb4⟩ := failedBlk_facts cfg hcfg (r'.heap id) off
  have hinv : ∀ (b : RBlk), ((b.hasData = true) → Good f b.base b) → Inv o wf f (r'.setB id b) := by
    intro b hb
    refine ⟨?_, ?_, ?_, ?_, ?_, ?_⟩
    rotate_left 5
    · refine inv.parked.frame hpk hfresh ?_ ?_ ?_
      · intro p hp e he hh
        simp only [Reader.setB, hcur, Option.some.injEq] at hh
        exact hnotp p hp e he hh.symm
      · intro p hp e he
        rw [setB_other _ _ (hnotp p hp e he), hheap _ (hnotp p hp e he)]
      · intro c hc p hp
        exact inv.parked.act c (by rw [← hca]; exact hc) p hp
    · intro j hj
      have : j = id := by simp only [Reader.setB] at hj; rw [hcur] at hj; exact (Option.some.inj hj).symm
      subst this; exact hlt
    · intro j hj hd
      have : j = id := by simp only [Reader.setB] at hj; rw [hcur] at hj; exact (Option.some.inj hj).symm
      subst this
      rw [setB_same] at hd ⊢
      exact hb hd
    · intro c hc; exact inv.cache_wf c (by rw [← hca]; exact hc)
    · intro c hc e he'
      have hc' : r.cache = some c := by rw [← hca]; exact hc
      obtain ⟨a1, _, a3⟩ := inv.held c hc' e he'
      have hne := hnot c hc' e he'
      refine ⟨by simp only [Reader.setB]; omega, ?_, ?_⟩
      · simp only [Reader.setB, hcur, ne_eq, Option.some.injEq]
        exact fun hh => hne hh.symm
      · rw [setB_other _ _ hne, hheap _ hne]; exact a3
    · intro c hc; exact inv.ids c (by rw [← hca]; exact hc)
  unfold loadAt
  rw [hl]
  simp only
  cases hm : f.find off with
  | some m =>
    simp only
    refine ⟨id, by simp [Reader.setB, hcur], ?_, ?_, by simp [Reader.setB, he], by simp [Reader.setB, hcb],
      by simp [Reader.setB, hce], by simp [Reader.setB, hbl], by simp [Reader.setB, hca], by simp [Reader.setB, hle]⟩
    · rw [setB_same]
      refine ⟨rb2, rb3, ?_⟩
      rw [hm]
      exact ⟨rfl, ⟨rb1, rfl, rb2, m, hm, rfl, rfl⟩, rfl⟩
    · apply hinv
      intro _
      exact ⟨rfl, rfl, by simp only [rb1, rb2], m, by simp only [rb1]; exact hm, rfl, rfl⟩
  | none =>
    simp only
    refine ⟨id, by simp [Reader.setB, hcur], ?_, ?_, by simp [Reader.setB, he], by simp [Reader.setB, hcb],
      by simp [Reader.setB, hce], by simp [Reader.setB, hbl], by simp [Reader.setB, hca], by simp [Reader.setB, hle]⟩
    · rw [setB_same]
      refine ⟨fb2, fb3, ?_⟩
      rw [hm]
      exact ⟨rfl, fb4⟩
    · apply hinv
      intro hd; rw [fb4] at hd; cases hd

theorem skipCached_miss {o : CacheOps σ} {wf : σ → Prop} (ct : Contract o wf) {f : File} {r : Reader σ}
    {off : Int} (inv : Inv o wf f r) (hk : ∀ c, r.cache = some c → ∀ e ∈ o.held c, e.key ≠ off) :
    skipCached o r off = .ok off := by
  unfold skipCached
  cases hc : r.cache with
  | none => rfl
  | some c => exact peekSkip_miss ct (inv.cache_wf c hc) (hk c hc) _

/-- `nextBlockAt(off)` when the cache holds no block for `off` -/
theorem nextBlockAt_eq {o : CacheOps σ} {wf : σ → Prop} (ct : Contract o wf) {cfg : Cfg} {f : File}
    {r : Reader σ} {off : Int} (inv : Inv o wf f r)
    (hk : ∀ c, r.cache = some c → ∀ e ∈ o.held c, e.key ≠ off) :
    nextBlockAt cfg o f r off = .ok (loadAt cfg f r off) := by
  unfold nextBlockAt
  rw [skipCached_miss ct inv hk]

/-! ### fetch -/

theorem cachePut_error {o : CacheOps σ} {wf : σ → Prop} (ct : Contract o wf) {r : Reader σ} {c : σ}
    {b : Option Nat} {e : Fault} (hw : wf c) (h : cachePut o r c b = .error e) : e = .badHint := by
  unfold cachePut at h
  cases b with
  | none => simp at h
  | some id =>
    simp only at h
    split at h
    · cases h
    · split at h
      · cases h; rfl
      · cases h
      · cases h
      · cases h
      · rename_i c' hp
        exact absurd hp (ct.put_no_panic _ _ _ _ _ hw)

theorem cacheSwap_error {o : CacheOps σ} {wf : σ → Prop} (ct : Contract o wf) {cfg : Cfg} {f : File}
    {r : Reader σ} {k : Int} {e : Fault} (inv : Inv o wf f r) (h : cacheSwap cfg o r k = .error e) :
    e = .badHint := by
  unfold cacheSwap at h
  cases hc : r.cache with
  | none => simp only [hc] at h; split at h <;> cases h
  | some c =>
    simp only [hc] at h
    have hwf := inv.cache_wf c hc
    split at h
    · rename_i c1 id hg
      have hwf1 : wf c1 := by have := ct.get_wf r.hview c k hwf; rw [hg] at this; exact this
      split at h
      · rename_i e' hp
        cases h
        exact cachePut_error ct hwf1 hp
      · cases h
    · rename_i c1 hg
      have hwf1 : wf c1 := by have := ct.get_wf r.hview c k hwf; rw [hg] at this; exact this
      split at h
      · rename_i e' hp
        cases h
        exact cachePut_error ct hwf1 hp
      · cases h

/-- without a cache (and no block on loan) `fetch` is the decompression step -/
theorem fetch_uncached (cfg : Cfg) (o : CacheOps σ) (f : File) {r : Reader σ} (k : Int) (hc : r.cache = none)
    (hl : r.lent = none) : fetch cfg o f r k = .ok (loadAt cfg f r k) := by
  have hcond : (cfg.lentGuard && r.cur.isSome && r.lent == r.cur) = false := by
    rw [hl]
    cases r.cur <;> simp
  unfold fetch cacheSwap
  simp only [hc, hcond, Bool.false_eq_true, if_false]
  unfold nextBlockAt skipCached
  simp only [hc]

/-- `fetch(k)` (cacheSwap, else nextBlockAt) when the current block is not a data-holding block of base `k`:
it fails only on a rejected hint, and otherwise the current block is `Loaded f k` -/
theorem fetch_spec {o : CacheOps σ} {wf : σ → Prop} (ct : Contract o wf) {cfg : Cfg}
    (hcfg : cfg.noStale) {f : File} {r : Reader σ} {k : Int} (inv : Inv o wf f r)
    (hk : ∀ id, r.cur = some id → (r.heap id).hasData = true → (r.heap id).base ≠ k) :
    match fetch cfg o f r k with
    | .error e => e = .badHint
    | .ok (r1, e) => ∃ id, r1.cur = some id ∧ Loaded f k (r1.heap id) e ∧ Inv o wf f r1 ∧ r1.err = r.err ∧
        r1.chunkBegin = r.chunkBegin ∧ r1.chunkEnd = r.chunkEnd ∧ r1.blocked = r.blocked := by
  unfold fetch
  cases hs : cacheSwap cfg o r k with
  | error e => exact cacheSwap_error ct inv hs
  | ok v =>
    obtain ⟨r1, hit⟩ := v
    obtain ⟨fe, fcb, fce, fbl, _, _, inv1, hhit, hmiss⟩ := cacheSwap_spec ct inv hk hs
    cases hit with
    | true =>
      simp only
      obtain ⟨id, hcur, hgood, hpos, hob⟩ := hhit rfl
      refine ⟨id, hcur, ?_, inv1, fe, fcb, fce, fbl⟩
      obtain ⟨g1, g2, g3, m, hm, gd, gh⟩ := hgood
      refine ⟨g3, hob, ?_⟩
      rw [hm]
      exact ⟨rfl, ⟨g1, g2, g3, m, hm, gd, gh⟩, hpos⟩
    | false =>
      simp only
      obtain ⟨_, _, hnokey⟩ := hmiss rfl
      rw [nextBlockAt_eq ct inv1 hnokey]
      obtain ⟨id, hcur, hl, inv2, e2, cb2, ce2, bl2, _, _⟩ := loadAt_spec (cfg := cfg) hcfg k inv1
      exact ⟨id, hcur, hl, inv2, e2.trans fe, cb2.trans fcb, ce2.trans fce, bl2.trans fbl⟩

/-! ### simulation -/

/-- results of the cached and the uncached run correspond: both succeed with related values, or both stop
with the same fault; a cached run may also stop because the recorded victim was rejected -/
def ExRel {α β : Type} (R : α → β → Prop) : Except Fault α → Except Fault β → Prop
  | .error .badHint, _ => True
  | .ok a, .ok b => R a b
  | .error e, .error e' => e = e'
  | _, _ => False

/-- the part of the simulation that does not mention `err` -/
structure W (o : CacheOps σ) (wf : σ → Prop) (f : File) (C U : Reader σ) : Prop where
  invC : Inv o wf f C
  invU : Inv o wf f U
  /-- the uncached reader has no cache and no block on loan -/
  ucache : U.cache = none ∧ U.lent = none
  cb : C.chunkBegin = U.chunkBegin
  ce : C.chunkEnd = U.chunkEnd
  blocked : C.blocked = U.blocked
  cur : ∃ c u, C.cur = some c ∧ U.cur = some u ∧ BlkEq (C.heap c) (U.heap u)

theorem find_mem {f : File} {k : Int} {m : Member} (h : f.find k = some m) : m ∈ f ∧ m.base = k := by
  unfold File.find at h
  exact ⟨List.mem_of_find?_eq_some h, by have := List.find?_some h; simpa using this⟩

theorem Good.next_ne {f : File} (hf : FileOK f) {k : Int} {b : RBlk} (g : Good f k b) : b.next ≠ b.base := by
  obtain ⟨_, _, _, m, hm, _, hs⟩ := g
  have := hf m (find_mem hm).1
  unfold RBlk.next
  rw [hs]
  split <;> omega

theorem BlkEq.next {a b : RBlk} (h : BlkEq a b) (hd : a.hasData = true) : a.next = b.next := by
  obtain ⟨_, _, _, h4⟩ := h
  obtain ⟨h5, _, _, h8⟩ := h4 hd
  unfold RBlk.next
  rw [h5, h8]

theorem BlkEq.len {a b : RBlk} (h : BlkEq a b) : a.len = b.len := by
  obtain ⟨_, _, h3, h4⟩ := h
  unfold RBlk.len
  cases hd : a.hasData with
  | false => rw [← h3, hd]; rfl
  | true =>
    obtain ⟨_, h6, h7, _⟩ := h4 hd
    rw [← h3, hd, h6, h7]

/-- the relation after `fetch`: same error, related readers, and success exactly when the block has data -/
def FetchRel (o : CacheOps σ) (wf : σ → Prop) (f : File) (C U : Reader σ) :
    Reader σ × Err → Reader σ × Err → Prop :=
  fun p q => p.2 = q.2 ∧ W o wf f p.1 q.1 ∧ p.1.err = C.err ∧ q.1.err = U.err ∧
    (∀ c, p.1.cur = some c → ((p.1.heap c).hasData = true ↔ p.2 = .none))

theorem fetch_sim {o : CacheOps σ} {wf : σ → Prop} (ct : Contract o wf) {cfg : Cfg}
    (hcfg : cfg.noStale) {f : File} {C U : Reader σ} {k : Int} (w : W o wf f C U)
    (hkC : ∀ id, C.cur = some id → (C.heap id).hasData = true → (C.heap id).base ≠ k) :
    ExRel (FetchRel o wf f C U) (fetch cfg o f C k) (fetch cfg o f U k) := by
  have hC := fetch_spec ct hcfg w.invC hkC
  rw [fetch_uncached cfg o f k w.ucache.1 w.ucache.2]
  obtain ⟨uid, ucur, ul, uinv, ue, ucb, uce, ubl, uca, ule⟩ := loadAt_spec (cfg := cfg) hcfg k w.invU
  cases hfc : fetch cfg o f C k with
  | error e =>
    rw [hfc] at hC
    simp only at hC
    subst hC
    trivial
  | ok v =>
    obtain ⟨C1, e⟩ := v
    rw [hfc] at hC
    simp only at hC
    obtain ⟨cid, ccur, cl, cinv, ce', ccb, cce, cbl⟩ := hC
    obtain ⟨hee, hbe⟩ := cl.blkEq ul
    refine ⟨hee, ⟨cinv, uinv, ⟨by rw [uca]; exact w.ucache.1, by rw [ule]; exact w.ucache.2⟩, by rw [ccb, ucb]; exact w.cb,
      by rw [cce, uce]; exact w.ce, by rw [cbl, ubl]; exact w.blocked, cid, uid, ccur, ucur, hbe⟩, ce', ue, ?_⟩
    intro c hc
    have : c = cid := by rw [ccur] at hc; exact (Option.some.inj hc).symm
    subst this
    obtain ⟨_, _, l3⟩ := cl
    cases hm : f.find k with
    | some m => rw [hm] at l3; simp only at l3; exact ⟨fun _ => l3.1, fun _ => l3.2.1.2.1⟩
    | none =>
      rw [hm] at l3
      simp only at l3
      constructor
      · intro hd; rw [l3.2] at hd; cases hd
      · intro he; rw [l3.1] at he; split at he <;> cases he

theorem nextBlock_sim {o : CacheOps σ} {wf : σ → Prop} (ct : Contract o wf) {cfg : Cfg}
    (hcfg : cfg.noStale) {f : File} (hf : FileOK f) {C U : Reader σ} (w : W o wf f C U)
    (live : ∀ c, C.cur = some c → (C.heap c).hasData = true) :
    ExRel (FetchRel o wf f C U) (nextBlock cfg o f C) (nextBlock cfg o f U) := by
  obtain ⟨c, u, hc, hu, hb⟩ := w.cur
  unfold nextBlock
  rw [hc, hu]
  simp only
  rw [← hb.next (live c hc)]
  apply fetch_sim ct hcfg w
  intro id hid hd
  have : id = c := by rw [hc] at hid; exact (Option.some.inj hid).symm
  subst this
  exact ((w.invC.cur_good id hc hd).next_ne hf).symm

theorem ExRel.cases {α β : Type} {R : α → β → Prop} {x : Except Fault α} {y : Except Fault β}
    (h : ExRel R x y) :
    x = .error .badHint ∨ (∃ a b, x = .ok a ∧ y = .ok b ∧ R a b) ∨ (∃ e, x = .error e ∧ y = .error e) := by
  cases x with
  | error e =>
    cases e with
    | badHint => exact Or.inl rfl
    | hang => cases y with
      | error e' => simp only [ExRel] at h; subst h; exact Or.inr (Or.inr ⟨_, rfl, rfl⟩)
      | ok b => simp [ExRel] at h
    | panic => cases y with
      | error e' => simp only [ExRel] at h; subst h; exact Or.inr (Or.inr ⟨_, rfl, rfl⟩)
      | ok b => simp [ExRel] at h
  | ok a =>
    cases y with
    | error e' => simp [ExRel] at h
    | ok b => exact Or.inr (Or.inl ⟨a, b, rfl, rfl, h⟩)

theorem ExRel.badHint {α β : Type} {R : α → β → Prop} (y : Except Fault β) :
    ExRel R (.error .badHint : Except Fault α) y := by
  simp [ExRel]

theorem ExRel.same {α β : Type} {R : α → β → Prop} (e : Fault) :
    ExRel R (.error e : Except Fault α) (.error e : Except Fault β) := by
  cases e <;> simp [ExRel]

theorem Inv.setErr {o : CacheOps σ} {wf : σ → Prop} {f : File} {r : Reader σ} (i : Inv o wf f r) (e : Err) :
    Inv o wf f { r with err := e } :=
  ⟨i.cur_lt, i.cur_good, i.cache_wf, i.held, i.ids, i.parked.congr _ rfl rfl rfl rfl rfl⟩

theorem W.setErr {o : CacheOps σ} {wf : σ → Prop} {f : File} {C U : Reader σ} (w : W o wf f C U) (e e' : Err) :
    W o wf f { C with err := e } { U with err := e' } :=
  ⟨w.invC.setErr e, w.invU.setErr e', w.ucache, w.cb, w.ce, w.blocked, w.cur⟩

/-- the simulation relation between the cached and the uncached reader -/
structure S (o : CacheOps σ) (wf : σ → Prop) (f : File) (C U : Reader σ) : Prop where
  w : W o wf f C U
  err : C.err = U.err
  /-- no pending error ⇒ the current block holds data -/
  live : C.err = .none → ∀ c, C.cur = some c → (C.heap c).hasData = true

theorem skipEmpty_sim {o : CacheOps σ} {wf : σ → Prop} (ct : Contract o wf) {cfg : Cfg}
    (hcfg : cfg.noStale) {f : File} (hf : FileOK f) (fuel : Nat) {C U : Reader σ}
    (s : S o wf f C U) (he : C.err = .none) :
    ExRel (S o wf f) (skipEmpty cfg o f fuel C) (skipEmpty cfg o f fuel U) := by
  induction fuel generalizing C U with
  | zero => unfold skipEmpty; exact ExRel.same _
  | succ fuel ih =>
    obtain ⟨c, u, hc, hu, hb⟩ := s.w.cur
    unfold skipEmpty
    rw [hc, hu]
    simp only
    rw [← hb.len]
    by_cases hl : (C.heap c).len = 0
    · simp only [hl, if_true]
      have hn := nextBlock_sim ct hcfg hf s.w (s.live he)
      rcases hn.cases with h1 | ⟨a, b, h1, h2, hr⟩ | ⟨e, h1, h2⟩
      · rw [h1]; exact ExRel.badHint _
      · rw [h1, h2]
        obtain ⟨C1, e1⟩ := a
        obtain ⟨U1, e2⟩ := b
        obtain ⟨hee, w1, _, _, hiff⟩ := hr
        simp only at hee hiff w1 ⊢
        subst hee
        by_cases hen : e1 = .none
        · simp only [hen, if_true]
          apply ih
          · exact ⟨w1.setErr _ _, rfl, fun _ c' hc' => (hiff c' hc').2 hen⟩
          · rfl
        · simp only [hen, if_false]
          exact ⟨w1.setErr _ _, rfl, fun h0 => absurd h0 hen⟩
      · rw [h1, h2]; exact ExRel.same _
    · simp only [hl, if_false]
      exact s

/-- reading from (or seeking inside) the current block keeps the invariant -/
theorem Inv.advance {o : CacheOps σ} {wf : σ → Prop} {f : File} {r : Reader σ} (i : Inv o wf f r) {id : Nat}
    (hc : r.cur = some id) (p q : Nat) (u : Bool) :
    Inv o wf f (r.setB id { r.heap id with pos := p, offBlock := q, used := u }) := by
  refine ⟨i.cur_lt, ?_, i.cache_wf, ?_, i.ids, ?_⟩
  · intro j hj hd
    have : j = id := by simp only [Reader.setB] at hj; rw [hc] at hj; exact (Option.some.inj hj).symm
    subst this
    rw [setB_same] at hd ⊢
    exact i.cur_good j hc hd
  · intro c hcache e he
    obtain ⟨a1, a2, a3⟩ := i.held c hcache e he
    have hne : e.id ≠ id := fun hh => a2 (by rw [hc, hh])
    refine ⟨a1, a2, ?_⟩
    rw [setB_other _ _ hne]; exact a3
  · refine i.parked.frame rfl (Nat.le_refl _) (fun p' hp e he => ((i.parked.ok p' hp).ents e he).2.1) ?_
      (fun c hcache p' hp => i.parked.act c hcache p' hp)
    intro p' hp e he
    have hne : e.id ≠ id := fun hh => ((i.parked.ok p' hp).ents e he).2.1 (by rw [hc, hh])
    exact setB_other _ _ hne

theorem BlkEq.advance {a b : RBlk} (h : BlkEq a b) (hd : a.hasData = true) (k : Nat) (u u' : Bool) :
    BlkEq { a with pos := a.pos + k, offBlock := (a.offBlock + k) % 65536, used := u }
      { b with pos := b.pos + k, offBlock := (b.offBlock + k) % 65536, used := u' } := by
  obtain ⟨h1, h2, h3, h4⟩ := h
  obtain ⟨h5, h6, h7, h8⟩ := h4 hd
  exact ⟨h1, by simp only; rw [h2], h3, fun _ => ⟨h5, h6, by simp only; rw [h7], h8⟩⟩

/-- results of the copy loop correspond -/
def LoopRel (o : CacheOps σ) (wf : σ → Prop) (f : File) :
    Reader σ × List Nat × Bool → Reader σ × List Nat × Bool → Prop :=
  fun p q => p.2.1 = q.2.1 ∧ p.2.2 = q.2.2 ∧ S o wf f p.1 q.1 ∧ (p.2.2 = true → p.1.err = .none)

theorem readLoop_sim {o : CacheOps σ} {wf : σ → Prop} (ct : Contract o wf) {cfg : Cfg}
    (hcfg : cfg.noStale) {f : File} (hf : FileOK f) (fuel : Nat) {C U : Reader σ}
    (s : S o wf f C U) (want : Nat) (acc : List Nat) :
    ExRel (LoopRel o wf f) (readLoop cfg o f fuel C want acc) (readLoop cfg o f fuel U want acc) := by
  induction fuel generalizing C U want acc with
  | zero => unfold readLoop; exact ExRel.same _
  | succ fuel ih =>
    obtain ⟨c, u, hc, hu, hb⟩ := s.w.cur
    unfold readLoop
    rw [← s.err]
    by_cases hstop : (want = 0 || C.err ≠ .none) = true
    · simp only [hstop, if_true]
      exact ⟨rfl, rfl, s, fun h0 => Bool.noConfusion h0⟩
    · simp only [hstop, if_false]
      have herr : C.err = .none := by
        simp only [Bool.or_eq_true, decide_eq_true_eq, not_or, ne_eq, Decidable.not_not] at hstop
        exact hstop.2
      rw [hc, hu]
      simp only
      have hd : (C.heap c).hasData = true := s.live herr c hc
      have hdu : (U.heap u).hasData = true := by rw [← hb.2.2.1]; exact hd
      have hnd : (!(C.heap c).hasData) = false := by rw [hd]; rfl
      have hndu : (!(U.heap u).hasData) = false := by rw [hdu]; rfl
      simp only [hnd, hndu, Bool.false_eq_true, if_false]
      rw [← hb.len]
      by_cases hl : (C.heap c).len = 0
      · simp only [hl, if_true]
        rw [← s.w.blocked]
        by_cases hbl : C.blocked = true
        · simp only [hbl, if_true]
          exact ⟨rfl, rfl, s, fun _ => herr⟩
        · simp only [hbl, if_false]
          have hn := nextBlock_sim ct hcfg hf s.w (fun c' hc' => by
            have : c' = c := by rw [hc] at hc'; exact (Option.some.inj hc').symm
            subst this; exact hd)
          rcases hn.cases with h1 | ⟨a, b, h1, h2, hr⟩ | ⟨e, h1, h2⟩
          · rw [h1]; exact ExRel.badHint _
          · rw [h1, h2]
            obtain ⟨C1, e1⟩ := a
            obtain ⟨U1, e2⟩ := b
            obtain ⟨hee, w1, _, _, hiff⟩ := hr
            simp only at hee hiff w1 ⊢
            subst hee
            apply ih
            exact ⟨w1.setErr _ _, rfl, fun h0 c' hc' => (hiff c' hc').2 h0⟩
          · rw [h1, h2]; exact ExRel.same _
      · simp only [hl, if_false]
        obtain ⟨_, hdat, hpos, _⟩ := hb.2.2.2 hd
        have hbytes : List.take (min want (C.heap c).len) (List.drop (C.heap c).pos (C.heap c).data) =
            List.take (min want (C.heap c).len) (List.drop (U.heap u).pos (U.heap u).data) := by
          rw [hdat, hpos]
        rw [hbytes]
        apply ih
        refine ⟨⟨s.w.invC.advance hc _ _ _, s.w.invU.advance hu _ _ _, s.w.ucache, s.w.cb, s.w.ce, s.w.blocked,
          c, u, by simp [Reader.setB, hc], by simp [Reader.setB, hu], ?_⟩, s.err, ?_⟩
        · rw [setB_same, setB_same]
          exact hb.advance hd (min want (C.heap c).len) true true
        · intro _ c' hc'
          have : c' = c := by simp only [Reader.setB] at hc'; rw [hc] at hc'; exact (Option.some.inj hc').symm
          subst this
          rw [setB_same]; exact hd

theorem Inv.setFields {o : CacheOps σ} {wf : σ → Prop} {f : File} {r : Reader σ} (i : Inv o wf f r)
    (e : Err) (cb ce : Int × Nat) (bl : Bool) :
    Inv o wf f { r with err := e, chunkBegin := cb, chunkEnd := ce, blocked := bl } :=
  ⟨i.cur_lt, i.cur_good, i.cache_wf, i.held, i.ids, i.parked.congr _ rfl rfl rfl rfl rfl⟩

theorem W.curOffset {o : CacheOps σ} {wf : σ → Prop} {f : File} {C U : Reader σ} (w : W o wf f C U) :
    curOffset C = curOffset U := by
  obtain ⟨c, u, hc, hu, hb⟩ := w.cur
  unfold CachedReader.curOffset
  rw [hc, hu]
  exact hb.txOffset

/-- updating the bookkeeping fields in the same way on both sides keeps the weak relation -/
theorem W.setFields {o : CacheOps σ} {wf : σ → Prop} {f : File} {C U : Reader σ} (w : W o wf f C U)
    (e e' : Err) (cb ce : Int × Nat) (bl : Bool) :
    W o wf f { C with err := e, chunkBegin := cb, chunkEnd := ce, blocked := bl }
      { U with err := e', chunkBegin := cb, chunkEnd := ce, blocked := bl } :=
  ⟨w.invC.setFields _ _ _ _, w.invU.setFields _ _ _ _, w.ucache, rfl, rfl, rfl, w.cur⟩

/-- what the caller sees of `Read`/`ReadByte`: bytes and error class, and the readers stay related -/
def OutRel (o : CacheOps σ) (wf : σ → Prop) (f : File) :
    Reader σ × List Nat × ErrClass → Reader σ × List Nat × ErrClass → Prop :=
  fun p q => p.2.1 = q.2.1 ∧ p.2.2 = q.2.2 ∧ S o wf f p.1 q.1

theorem read_sim {o : CacheOps σ} {wf : σ → Prop} (ct : Contract o wf) {cfg : Cfg}
    (hcfg : cfg.noStale) {f : File} (hf : FileOK f) {C U : Reader σ} (s : S o wf f C U) (n : Nat) :
    ExRel (OutRel o wf f) (read cfg o f C n) (read cfg o f U n) := by
  unfold read
  by_cases he : C.err = .none
  · have heU : U.err = .none := by rw [← s.err]; exact he
    have hne : ¬ (C.err ≠ .none) := fun h => h he
    have hneU : ¬ (U.err ≠ .none) := fun h => h heU
    simp only [hne, hneU, if_false]
    have h1 := skipEmpty_sim ct hcfg hf (fuelFor f 0) s he
    rcases h1.cases with e1 | ⟨C1, U1, e1, e2, s1⟩ | ⟨e, e1, e2⟩
    · rw [e1]; exact ExRel.badHint _
    · rw [e1, e2]
      simp only
      by_cases he1 : C1.err = .none
      · have he1U : U1.err = .none := by rw [← s1.err]; exact he1
        have hne1 : ¬ (C1.err ≠ .none) := fun h => h he1
        have hne1U : ¬ (U1.err ≠ .none) := fun h => h he1U
        simp only [hne1, hne1U, if_false]
        rw [← s1.w.curOffset]
        have s2 : S o wf f { C1 with chunkBegin := curOffset C1 } { U1 with chunkBegin := curOffset C1 } := by
          have := s1.w.setFields C1.err U1.err (curOffset C1) C1.chunkEnd C1.blocked
          refine ⟨⟨this.invC, ?_, s1.w.ucache, rfl, s1.w.ce, s1.w.blocked, s1.w.cur⟩, s1.err, s1.live⟩
          exact s1.w.invU.congr _ rfl rfl rfl rfl
        have h2 := readLoop_sim ct hcfg hf (fuelFor f n) s2 n []
        rcases h2.cases with e3 | ⟨a, b, e3, e4, r3⟩ | ⟨e, e3, e4⟩
        · rw [e3]; exact ExRel.badHint _
        · rw [e3, e4]
          obtain ⟨C3, bs, fl⟩ := a
          obtain ⟨U3, bs', fl'⟩ := b
          obtain ⟨hbs, hfl, s3, hflerr⟩ := r3
          simp only at hbs hfl s3 hflerr
          subst hbs hfl
          cases fl with
          | true =>
            simp only
            rw [← s3.w.curOffset]
            refine ⟨rfl, rfl, ⟨?_, rfl, ?_⟩⟩
            · have := s3.w.setFields .none .none C3.chunkBegin (curOffset C3) C3.blocked
              exact ⟨this.invC, s3.w.invU.congr _ rfl rfl rfl rfl, s3.w.ucache, s3.w.cb, rfl, s3.w.blocked, s3.w.cur⟩
            · intro _; exact s3.live (hflerr rfl)
          | false =>
            simp only
            rw [← s3.w.curOffset]
            refine ⟨rfl, by simp only; rw [s3.err], ⟨?_, s3.err, s3.live⟩⟩
            have := s3.w.setFields C3.err U3.err C3.chunkBegin (curOffset C3) C3.blocked
            exact ⟨this.invC, s3.w.invU.congr _ rfl rfl rfl rfl, s3.w.ucache, s3.w.cb, rfl, s3.w.blocked, s3.w.cur⟩
        · rw [e3, e4]; exact ExRel.same _
      · have hne1 : C1.err ≠ .none := he1
        have hne1U : U1.err ≠ .none := by rw [← s1.err]; exact he1
        rw [if_pos hne1, if_pos hne1U]
        exact ⟨rfl, by simp only; rw [s1.err], s1⟩
    · rw [e1, e2]; exact ExRel.same _
  · have hne : C.err ≠ .none := he
    have hneU : U.err ≠ .none := by rw [← s.err]; exact he
    rw [if_pos hne, if_pos hneU]
    exact ⟨rfl, by simp only; rw [s.err], s⟩

theorem byteFin_sim {o : CacheOps σ} {wf : σ → Prop} {f : File} {C U : Reader σ} (s : S o wf f C U)
    (he : C.err = .none) : ExRel (OutRel o wf f) (byteFin C) (byteFin U) := by
  obtain ⟨c, u, hc, hu, hb⟩ := s.w.cur
  have hd := s.live he c hc
  obtain ⟨hbase, hdat, hpos, hsz⟩ := hb.2.2.2 hd
  unfold byteFin
  rw [hc, hu]
  simp only
  have hh : (List.drop (U.heap u).pos (U.heap u).data).head? =
      (List.drop (C.heap c).pos (C.heap c).data).head? := by rw [hdat, hpos]
  rw [hh]
  cases (List.drop (C.heap c).pos (C.heap c).data).head? with
  | none => exact ExRel.same _
  | some x =>
    simp only
    refine ⟨rfl, rfl, ⟨⟨?_, ?_, s.w.ucache, ?_, ?_, s.w.blocked, c, u, ?_, ?_, ?_⟩, s.err, ?_⟩⟩
    · exact (s.w.invC.advance hc ((C.heap c).pos + 1) (((C.heap c).offBlock + 1) % 65536) true).congr _ rfl rfl rfl rfl
    · exact (s.w.invU.advance hu ((U.heap u).pos + 1) (((U.heap u).offBlock + 1) % 65536) true).congr _ rfl rfl rfl rfl
    · exact hb.txOffset
    · exact (hb.advance hd 1 true true).txOffset
    · simp [Reader.setB, hc]
    · simp [Reader.setB, hu]
    · simp only [setB_same]
      exact hb.advance hd 1 true true
    · intro _ c' hc'
      have : c' = c := by
        simp only [Reader.setB] at hc'; rw [hc] at hc'; exact (Option.some.inj hc').symm
      subst this
      simp only [setB_same]; exact hd

theorem readByte_sim {o : CacheOps σ} {wf : σ → Prop} (ct : Contract o wf) {cfg : Cfg}
    (hcfg : cfg.noStale) {f : File} (hf : FileOK f) {C U : Reader σ} (s : S o wf f C U) :
    ExRel (OutRel o wf f) (readByte cfg o f C) (readByte cfg o f U) := by
  unfold readByte
  by_cases he : C.err = .none
  · have heU : U.err = .none := by rw [← s.err]; exact he
    have hne : ¬ (C.err ≠ .none) := fun h => h he
    have hneU : ¬ (U.err ≠ .none) := fun h => h heU
    rw [if_neg hne, if_neg hneU]
    have h1 := skipEmpty_sim ct hcfg hf (fuelFor f 0) s he
    rcases h1.cases with e1 | ⟨C1, U1, e1, e2, s1⟩ | ⟨e, e1, e2⟩
    · rw [e1]; exact ExRel.badHint _
    · rw [e1, e2]
      simp only
      by_cases he1 : C1.err = .none
      · have he1U : U1.err = .none := by rw [← s1.err]; exact he1
        have hne1 : ¬ (C1.err ≠ .none) := fun h => h he1
        have hne1U : ¬ (U1.err ≠ .none) := fun h => h he1U
        rw [if_neg hne1, if_neg hne1U]
        exact byteFin_sim s1 he1
      · have hne1 : C1.err ≠ .none := he1
        have hne1U : U1.err ≠ .none := by rw [← s1.err]; exact he1
        rw [if_pos hne1, if_pos hne1U]
        exact ⟨rfl, by simp only; rw [s1.err], s1⟩
    · rw [e1, e2]; exact ExRel.same _
  · have hne : C.err ≠ .none := he
    have hneU : U.err ≠ .none := by rw [← s.err]; exact he
    rw [if_pos hne, if_pos hneU]
    exact ⟨rfl, by simp only; rw [s.err], s⟩

/-- what the caller sees of `Seek` -/
def SeekRel (o : CacheOps σ) (wf : σ → Prop) (f : File) :
    Reader σ × ErrClass → Reader σ × ErrClass → Prop :=
  fun p q => p.2 = q.2 ∧ S o wf f p.1 q.1

theorem seekFin_sim {o : CacheOps σ} {wf : σ → Prop} {f : File} {C U : Reader σ} (w : W o wf f C U)
    (file : Int) (blk : Nat) :
    ExRel (SeekRel o wf f) (seekFin C file blk) (seekFin U file blk) := by
  obtain ⟨c, u, hc, hu, hb⟩ := w.cur
  unfold seekFin
  rw [hc, hu]
  simp only
  by_cases hd : (C.heap c).hasData = true
  · have hdu : (U.heap u).hasData = true := by rw [← hb.2.2.1]; exact hd
    have hn : ¬ ((!(C.heap c).hasData) = true) := by rw [hd]; simp
    have hnu : ¬ ((!(U.heap u).hasData) = true) := by rw [hdu]; simp
    rw [if_neg hn, if_neg hnu]
    refine ⟨rfl, ⟨⟨?_, ?_, w.ucache, rfl, rfl, w.blocked, c, u, ?_, ?_, ?_⟩, rfl, ?_⟩⟩
    · exact (w.invC.advance hc blk (blk % 65536) (C.heap c).used).congr _ rfl rfl rfl rfl
    · exact (w.invU.advance hu blk (blk % 65536) (U.heap u).used).congr _ rfl rfl rfl rfl
    · simp [Reader.setB, hc]
    · simp [Reader.setB, hu]
    · simp only [setB_same]
      obtain ⟨h1, h2, h3, h4⟩ := hb
      obtain ⟨h5, h6, h7, h8⟩ := h4 hd
      exact ⟨h1, rfl, h3, fun _ => ⟨h5, h6, rfl, h8⟩⟩
    · intro _ c' hc'
      have : c' = c := by simp only [Reader.setB] at hc'; rw [hc] at hc'; exact (Option.some.inj hc').symm
      subst this
      simp only [setB_same]; exact hd
  · have hdf : (C.heap c).hasData = false := by simpa using hd
    have hduf : (U.heap u).hasData = false := by rw [← hb.2.2.1]; exact hdf
    have hn : (!(C.heap c).hasData) = true := by rw [hdf]; rfl
    have hnu : (!(U.heap u).hasData) = true := by rw [hduf]; rfl
    rw [if_pos hn, if_pos hnu]
    exact ExRel.same _

theorem seek_sim {o : CacheOps σ} {wf : σ → Prop} (ct : Contract o wf) {cfg : Cfg}
    (hcfg : cfg.noStale) {f : File} {C U : Reader σ} (s : S o wf f C U) (file : Int) (blk : Nat) :
    ExRel (SeekRel o wf f) (seek cfg o f C file blk) (seek cfg o f U file blk) := by
  obtain ⟨c, u, hc, hu, hb⟩ := s.w.cur
  unfold seek
  rw [hc, hu]
  simp only
  have hcond : (decide (file ≠ (C.heap c).base) || !(C.heap c).hasData) =
      (decide (file ≠ (U.heap u).base) || !(U.heap u).hasData) := by
    rw [← hb.2.2.1]
    cases hd : (C.heap c).hasData with
    | false => simp
    | true => rw [(hb.2.2.2 hd).1]
  rw [← hcond]
  by_cases hcnd : (decide (file ≠ (C.heap c).base) || !(C.heap c).hasData) = true
  · rw [if_pos hcnd, if_pos hcnd]
    have hk : ∀ id, C.cur = some id → (C.heap id).hasData = true → (C.heap id).base ≠ file := by
      intro id hid hd
      have : id = c := by rw [hc] at hid; exact (Option.some.inj hid).symm
      subst this
      simp only [hd, Bool.not_true, Bool.or_false, decide_eq_true_eq] at hcnd
      exact fun h => hcnd h.symm
    have hf := fetch_sim ct hcfg s.w hk
    rcases hf.cases with e1 | ⟨a, b, e1, e2, r1⟩ | ⟨e, e1, e2⟩
    · rw [e1]; exact ExRel.badHint _
    · rw [e1, e2]
      obtain ⟨C1, ec⟩ := a
      obtain ⟨U1, eu⟩ := b
      obtain ⟨hee, w1, _, _, _⟩ := r1
      simp only at hee w1 ⊢
      subst hee
      by_cases hen : ec = .none
      · rw [if_pos hen, if_pos hen]
        exact seekFin_sim (w1.setErr .none .none) file blk
      · rw [if_neg hen, if_neg hen]
        exact ⟨rfl, ⟨w1.setErr _ _, rfl, fun h0 => absurd h0 hen⟩⟩
    · rw [e1, e2]; exact ExRel.same _
  · rw [if_neg hcnd, if_neg hcnd]
    exact seekFin_sim s.w file blk

/-! ### whole histories -/

/-- in a pairwise-related list (symmetric relation) the element at `i` is related to all others -/
theorem pairwise_getElem_eraseIdx {α : Type} {R : α → α → Prop} (hs : ∀ a b, R a b → R b a) :
    ∀ (l : List α) (i : Nat) (c p : α), l.Pairwise R → l[i]? = some c → p ∈ l.eraseIdx i → R c p
  | [], _, _, _, _, h, _ => by simp at h
  | a :: t, 0, c, p, hp, h, hm => by
    simp only [List.getElem?_cons_zero, Option.some.injEq] at h
    subst h
    simp only [List.eraseIdx_cons_zero] at hm
    exact (List.pairwise_cons.1 hp).1 p hm
  | a :: t, i + 1, c, p, hp, h, hm => by
    simp only [List.getElem?_cons_succ] at h
    simp only [List.eraseIdx_cons_succ, List.mem_cons] at hm
    rcases hm with hm | hm
    · subst hm
      exact hs _ _ ((List.pairwise_cons.1 hp).1 c (List.mem_of_getElem? h))
    · exact pairwise_getElem_eraseIdx hs t i c p (List.pairwise_cons.1 hp).2 h hm

/-- the attached cache satisfies `CacheOK` -/
theorem Inv.activeOK {o : CacheOps σ} {wf : σ → Prop} {f : File} {r : Reader σ} (i : Inv o wf f r)
    {c : σ} (hc : r.cache = some c) : CacheOK o wf f r c :=
  ⟨i.cache_wf c hc, i.held c hc, i.ids c hc⟩

/-- `SetCache`: any cache that is `CacheOK` may become the attached one, any such caches the detached ones,
as long as no two of them share a block -/
theorem Inv.attach {o : CacheOps σ} {wf : σ → Prop} {f : File} {r : Reader σ} (i : Inv o wf f r)
    (cnew : Option σ) (pk : List σ) (hints : List Int)
    (h1 : ∀ c, cnew = some c → CacheOK o wf f r c) (h2 : ∀ p ∈ pk, CacheOK o wf f r p)
    (h3 : ∀ c, cnew = some c → ∀ p ∈ pk, Disj o c p) (h4 : pk.Pairwise (Disj o)) :
    Inv o wf f { r with cache := cnew, hints := hints, parked := pk } := by
  refine ⟨i.cur_lt, i.cur_good, fun c hc => (h1 c hc).wf, fun c hc => (h1 c hc).ents,
    fun c hc => (h1 c hc).ids, ⟨?_, h3, h4⟩⟩
  intro p hp
  obtain ⟨w, e, d⟩ := h2 p hp
  exact ⟨w, e, d⟩

/-- detaching: the caches detached so far plus the one that was attached -/
theorem Inv.parked_with_active {o : CacheOps σ} {wf : σ → Prop} {f : File} {r : Reader σ} (i : Inv o wf f r)
    (l : List σ) (hl : ∀ p ∈ l, p ∈ r.parked) (hpw : l.Pairwise (Disj o)) :
    (∀ p ∈ l ++ r.cache.toList, CacheOK o wf f r p) ∧ (l ++ r.cache.toList).Pairwise (Disj o) := by
  constructor
  · intro p hp
    rcases List.mem_append.1 hp with h | h
    · exact i.parked.ok p (hl p h)
    · cases hc : r.cache with
      | none => rw [hc] at h; simp at h
      | some c => rw [hc] at h; simp at h; subst h; exact i.activeOK hc
  · refine List.pairwise_append.2 ⟨hpw, ?_, ?_⟩
    · cases r.cache <;> simp
    · intro p hp q hq
      cases hc : r.cache with
      | none => rw [hc] at hq; simp at hq
      | some c => rw [hc] at hq; simp at hq; subst hq; exact (i.parked.act _ hc p (hl p hp)).symm

/-- `SetCache` attaches a new (empty, well-formed) cache, or none; `reattach` a cache that was attached
before, with what it holds -/
def OpOK (o : CacheOps σ) (wf : σ → Prop) : Op σ → Prop
  | .setCache (some c) _ => wf c ∧ o.held c = []
  | _ => True

def StepRel (o : CacheOps σ) (wf : σ → Prop) (f : File) : Reader σ × Out → Reader σ × Out → Prop :=
  fun p q => p.2 = q.2 ∧ S o wf f p.1 q.1

theorem step_sim {o : CacheOps σ} {wf : σ → Prop} (ct : Contract o wf) {cfg : Cfg}
    (hcfg : cfg.noStale) {f : File} (hf : FileOK f) {C U : Reader σ} (s : S o wf f C U)
    (op : Op σ) (ok : OpOK o wf op) :
    ExRel (StepRel o wf f) (step cfg o f C op) (step cfg o f U op.uncached) := by
  cases op with
  | seek file blk =>
    simp only [step, Op.uncached]
    have h := seek_sim ct hcfg s file blk
    rcases h.cases with e1 | ⟨a, b, e1, e2, r1⟩ | ⟨e, e1, e2⟩
    · rw [e1]; exact ExRel.badHint _
    · rw [e1, e2]
      obtain ⟨C1, ec⟩ := a
      obtain ⟨U1, eu⟩ := b
      obtain ⟨hee, s1⟩ := r1
      simp only at hee s1 ⊢
      subst hee
      exact ⟨by simp only [s1.w.cb, s1.w.ce], s1⟩
    · rw [e1, e2]; exact ExRel.same _
  | read n =>
    simp only [step, Op.uncached]
    have h := read_sim ct hcfg hf s n
    rcases h.cases with e1 | ⟨a, b, e1, e2, r1⟩ | ⟨e, e1, e2⟩
    · rw [e1]; exact ExRel.badHint _
    · rw [e1, e2]
      obtain ⟨C1, bs, ec⟩ := a
      obtain ⟨U1, bs', eu⟩ := b
      obtain ⟨hbs, hee, s1⟩ := r1
      simp only at hbs hee s1 ⊢
      subst hbs hee
      exact ⟨by simp only [s1.w.cb, s1.w.ce], s1⟩
    · rw [e1, e2]; exact ExRel.same _
  | readByte =>
    simp only [step, Op.uncached]
    have h := readByte_sim ct hcfg hf s
    rcases h.cases with e1 | ⟨a, b, e1, e2, r1⟩ | ⟨e, e1, e2⟩
    · rw [e1]; exact ExRel.badHint _
    · rw [e1, e2]
      obtain ⟨C1, bs, ec⟩ := a
      obtain ⟨U1, bs', eu⟩ := b
      obtain ⟨hbs, hee, s1⟩ := r1
      simp only at hbs hee s1 ⊢
      subst hbs hee
      exact ⟨by simp only [s1.w.cb, s1.w.ce], s1⟩
    · rw [e1, e2]; exact ExRel.same _
  | setCache c hints =>
    simp only [step, Op.uncached]
    have hU : U.parked ++ U.cache.toList = U.parked := by rw [s.w.ucache.1]; simp
    obtain ⟨pa, pb⟩ := s.w.invC.parked_with_active C.parked (fun _ h => h) s.w.invC.parked.pw
    obtain ⟨ua, ub⟩ := s.w.invU.parked_with_active U.parked (fun _ h => h) s.w.invU.parked.pw
    refine ⟨by simp only [s.w.cb, s.w.ce], ⟨⟨?_, ?_, ⟨rfl, s.w.ucache.2⟩, s.w.cb, s.w.ce, s.w.blocked, s.w.cur⟩,
      s.err, s.live⟩⟩
    · refine s.w.invC.attach c _ hints ?_ pa ?_ pb
      · intro c' hc'
        subst hc'
        refine ⟨ok.1, ?_, ?_⟩
        · intro e he; rw [ok.2] at he; cases he
        · intro a ha; rw [ok.2] at ha; cases ha
      · intro c' hc' p hp e he
        subst hc'
        rw [ok.2] at he; cases he
    · exact s.w.invU.attach none _ [] (fun c' hc' => by cases hc') ua (fun c' hc' => by cases hc') ub
  | reattach i hints =>
    simp only [step, Op.uncached]
    obtain ⟨ua, ub⟩ := s.w.invU.parked_with_active U.parked (fun _ h => h) s.w.invU.parked.pw
    have hUinv := s.w.invU.attach none _ [] (fun c' hc' => by cases hc') ua (fun c' hc' => by cases hc') ub
    cases hget : C.parked[i]? with
    | none =>
      simp only
      obtain ⟨pa, pb⟩ := s.w.invC.parked_with_active C.parked (fun _ h => h) s.w.invC.parked.pw
      refine ⟨by simp only [s.w.cb, s.w.ce], ⟨⟨?_, hUinv, ⟨rfl, s.w.ucache.2⟩, s.w.cb, s.w.ce, s.w.blocked,
        s.w.cur⟩, s.err, s.live⟩⟩
      exact s.w.invC.attach none _ hints (fun c' hc' => by cases hc') pa (fun c' hc' => by cases hc') pb
    | some c =>
      simp only
      have hcm : c ∈ C.parked := List.mem_of_getElem? hget
      obtain ⟨pa, pb⟩ := s.w.invC.parked_with_active (C.parked.eraseIdx i)
        (fun _ h => List.mem_of_mem_eraseIdx h)
        (List.Pairwise.sublist (List.eraseIdx_sublist _ _) s.w.invC.parked.pw)
      refine ⟨by simp only [s.w.cb, s.w.ce], ⟨⟨?_, hUinv, ⟨rfl, s.w.ucache.2⟩, s.w.cb, s.w.ce, s.w.blocked,
        s.w.cur⟩, s.err, s.live⟩⟩
      refine s.w.invC.attach (some c) _ hints ?_ pa ?_ pb
      · intro c' hc'
        simp only [Option.some.injEq] at hc'; subst hc'
        exact s.w.invC.parked.ok _ hcm
      · intro c' hc' p hp
        simp only [Option.some.injEq] at hc'; subst hc'
        rcases List.mem_append.1 hp with h | h
        · exact pairwise_getElem_eraseIdx (fun _ _ h => Disj.symm h) _ _ _ _ s.w.invC.parked.pw hget h
        · cases hcc : C.cache with
          | none => rw [hcc] at h; simp at h
          | some a => rw [hcc] at h; simp at h; subst h; exact (s.w.invC.parked.act _ hcc _ hcm).symm
  | setBlocked b =>
    simp only [step, Op.uncached]
    refine ⟨by simp only [s.w.cb, s.w.ce], ⟨⟨?_, ?_, s.w.ucache, s.w.cb, s.w.ce, rfl, s.w.cur⟩, s.err, s.live⟩⟩
    · exact s.w.invC.congr _ rfl rfl rfl rfl
    · exact s.w.invU.congr _ rfl rfl rfl rfl

def RunRel (o : CacheOps σ) (wf : σ → Prop) (f : File) :
    Reader σ × List Out → Reader σ × List Out → Prop :=
  fun p q => p.2 = q.2 ∧ S o wf f p.1 q.1

theorem run_sim {o : CacheOps σ} {wf : σ → Prop} (ct : Contract o wf) {cfg : Cfg}
    (hcfg : cfg.noStale) {f : File} (hf : FileOK f) (ops : List (Op σ))
    (ok : ∀ op ∈ ops, OpOK o wf op) {C U : Reader σ} (s : S o wf f C U) :
    ExRel (RunRel o wf f) (run cfg o f C ops) (run cfg o f U (ops.map Op.uncached)) := by
  induction ops generalizing C U with
  | nil => exact ⟨rfl, s⟩
  | cons op rest ih =>
    simp only [List.map_cons, run]
    have h := step_sim ct hcfg hf s op (ok op (by simp))
    rcases h.cases with e1 | ⟨a, b, e1, e2, r1⟩ | ⟨e, e1, e2⟩
    · rw [e1]; exact ExRel.badHint _
    · rw [e1, e2]
      obtain ⟨C1, o1⟩ := a
      obtain ⟨U1, o2⟩ := b
      obtain ⟨hoo, s1⟩ := r1
      simp only at hoo s1 ⊢
      subst hoo
      have h2 := ih (fun op' h' => ok op' (by simp [h'])) s1
      rcases h2.cases with e3 | ⟨a2, b2, e3, e4, r2⟩ | ⟨e, e3, e4⟩
      · rw [e3]; exact ExRel.badHint _
      · rw [e3, e4]
        obtain ⟨C2, os1⟩ := a2
        obtain ⟨U2, os2⟩ := b2
        obtain ⟨hos, s2⟩ := r2
        simp only at hos s2 ⊢
        subst hos
        exact ⟨rfl, s2⟩
      · rw [e3, e4]; exact ExRel.same _
    · rw [e1, e2]; exact ExRel.same _

/-- the reader right after a successful `NewReader` is related to itself -/
theorem newReader_S {o : CacheOps σ} {wf : σ → Prop} {cfg : Cfg} (hcfg : cfg.noStale)
    {f : File} {r : Reader σ} (h : newReader o cfg f = .ok (r, .none)) : S o wf f r r := by
  unfold newReader nextBlockAt skipCached at h
  simp only [Except.ok.injEq] at h
  have inv0 : Inv o wf f (⟨fun _ => {}, 0, none, .none, (0, 0), (0, 0), false, none, [], none, []⟩ : Reader σ) := by
    refine ⟨?_, ?_, ?_, ?_, ?_, ⟨?_, ?_, List.Pairwise.nil⟩⟩ <;> (intro x hx; simp at hx)
  obtain ⟨id, hcur, hl, inv1, he, _, _, _, hca, hle⟩ := loadAt_spec (cfg := cfg) hcfg 0 inv0
  rw [h] at hcur hl inv1 he hca hle
  simp only at hcur hl inv1 he hca hle
  refine ⟨⟨inv1, inv1, ⟨hca, hle⟩, rfl, rfl, rfl, id, id, hcur, hcur, BlkEq.refl _⟩, rfl, ?_⟩
  intro _ c hc
  have : c = id := by rw [hcur] at hc; exact (Option.some.inj hc).symm
  subst this
  obtain ⟨_, _, l3⟩ := hl
  cases hm : f.find 0 with
  | some m => rw [hm] at l3; exact l3.2.1.2.1
  | none => rw [hm] at l3; simp only at l3; have := l3.1; split at this <;> cases this

end Hts.Model.CachedReader
