/-
What `tabix.ReadFrom` establishes: every tabix index it returns is well-formed (`TWF`).
-/
import Hts.Lemmas.IndexIOTabix
import Hts.Lemmas.IndexIORead
namespace Hts.Model.IndexIO
open Hts.Model.Index Hts.Model.Tabix

theorem splitNul_noNul : ∀ (bs : Bytes) (w : Bytes), w ∈ splitNul bs → ∀ b, b ∈ w → b ≠ 0 := by
  intro bs
  induction bs with
  | nil => intro w hw b hb; simp [splitNul] at hw; subst hw; cases hb
  | cons x xs ih =>
    intro w hw b hb
    unfold splitNul at hw
    split at hw
    · rcases List.mem_cons.1 hw with rfl | hw
      · cases hb
      · exact ih w hw b hb
    · rename_i hx
      cases hs : splitNul xs with
      | nil => exact absurd hs (splitNul_ne_nil xs)
      | cons w0 ws =>
        rw [hs] at hw ih
        simp only at hw
        rcases List.mem_cons.1 hw with rfl | hw
        · rcases List.mem_cons.1 hb with rfl | hb
          · exact hx
          · exact ih w0 List.mem_cons_self b hb
        · exact ih w (List.mem_cons_of_mem _ hw) b hb

/-- joining what was split gives the bytes back (with the final NUL) -/
theorem nameBlock_splitNul : ∀ bs : Bytes, nameBlock (splitNul bs) = bs ++ [0] := by
  intro bs
  induction bs with
  | nil => simp [splitNul, nameBlock]
  | cons x xs ih =>
    unfold splitNul
    split
    · rename_i hx
      subst hx
      simp only [nameBlock, List.flatMap_cons, List.nil_append, List.cons_append]
      have := ih; unfold nameBlock at this; rw [this]
    · cases hs : splitNul xs with
      | nil => exact absurd hs (splitNul_ne_nil xs)
      | cons w0 ws =>
        rw [hs] at ih
        simp only [nameBlock, List.flatMap_cons, List.cons_append] at ih ⊢
        rw [ih]

theorem rBytes_spec {n : Nat} {bs a rest : Bytes} (h : rBytes n bs = .ok (a, rest)) : a.length = n := by
  unfold rBytes at h
  split at h
  · cases h
  · simp only [Except.ok.injEq, Prod.mk.injEq] at h
    obtain ⟨rfl, _⟩ := h
    rw [List.length_take]; omega

theorem rTabixHeader_spec {bs : Bytes} {h : Header} {names : List Name} {rest : Bytes}
    (hr : rTabixHeader bs = .ok ((h, names), rest)) : HeaderOK h names := by
  unfold rTabixHeader at hr
  split at hr
  · cases hr
  · rename_i fmt r1 h1
    split at hr
    · cases hr
    · rename_i nc r2 h2
      split at hr
      · cases hr
      · rename_i bc r3 h3
        split at hr
        · cases hr
        · rename_i ec r4 h4
          split at hr
          · cases hr
          · rename_i mc r5 h5
            split at hr
            · cases hr
            · rename_i sk r6 h6
              split at hr
              · cases hr
              · rename_i n r7 h7
                split at hr
                · cases hr
                · rename_i hn0
                  split at hr
                  · -- an empty name block: no names
                    simp only [Except.ok.injEq, Prod.mk.injEq] at hr
                    obtain ⟨⟨rfl, rfl⟩, _⟩ := hr
                    exact
                      { format := by simp only; omega
                        nameCol := rI32_spec h2
                        begCol := rI32_spec h3
                        endCol := rI32_spec h4
                        metaChar := rI32_spec h5
                        skip := rI32_spec h6
                        namesLen := by simp [nameBlock]
                        noNul := by intro nm hnm; cases hnm }
                  · split at hr
                    · cases hr
                    · rename_i nb r8 h8
                      split at hr
                      · cases hr
                      · rename_i l hl
                        split at hr
                        · cases hr
                        · rename_i hl0
                          simp only [Except.ok.injEq, Prod.mk.injEq] at hr
                          obtain ⟨⟨rfl, rfl⟩, _⟩ := hr
                          have hnb := rBytes_spec h8
                          have hn := (rI32_spec h7).2
                          have hlast : nb = nb.dropLast ++ [0] := by
                            have hne : nb ≠ [] := by intro he; rw [he] at hl; cases hl
                            have := List.dropLast_concat_getLast hne
                            have hl' : nb.getLast hne = l := by
                              have := List.getLast?_eq_some_getLast hne
                              rw [this] at hl; simpa using hl
                            have hl0' : l = 0 := by simpa using hl0
                            rw [hl', hl0'] at this
                            exact this.symm
                          refine
                            { format := by simp only; omega
                              nameCol := rI32_spec h2
                              begCol := rI32_spec h3
                              endCol := rI32_spec h4
                              metaChar := rI32_spec h5
                              skip := rI32_spec h6
                              namesLen := ?_
                              noNul := fun nm hnm => splitNul_noNul _ nm hnm }
                          rw [nameBlock_splitNul, ← hlast, hnb]
                          omega

/-- `tabix.ReadFrom`: whatever bytes it accepts, the index it returns is well-formed -/
theorem readTabix_wf {bs : Bytes} {t : TIndex} (h : readTabix bs = .ok t) : TWF t := by
  unfold readTabix at h
  split at h
  · cases h
  · split at h
    · cases h
    · split at h
      · cases h
      · rename_i n r2 h2
        split at h
        · cases h
        · rename_i hd names r3 h3
          split at h
          · cases h
          · rename_i hcount
            split at h
            · cases h
            · rename_i i0 h4
              simp only [Except.ok.injEq] at h
              subst h
              obtain ⟨hwf, hl⟩ := rIndex_wf (rI32_spec h2).2 h4
              refine { idx := hwf, hdr := rTabixHeader_spec h3, count := ?_ }
              simp only
              have : (names.length : Int) = n := by simpa using hcount
              omega

end Hts.Model.IndexIO
