/-
ChunkReader proofs, part 3: helpers for one `Read` (progress measure, moving to the next chunk).
-/
import Hts.Lemmas.CRInv
namespace Hts.Model.Bgzf
open Hts.Spec.Flat

/-- Progress measure of a ChunkReader state. -/
def mu (F : File) (xs : List CSpec) (rem pos : Nat) : Nat :=
  xs.length * (F.length + 2) + rem + (todo F xs pos).length

/-- The end of `Read`: the chunk is finished, move to the next one (or report `io.EOF`). -/
theorem finish_chunk {F : File} (hwf : WF F) {r' : Reader} {pre : File} {m : Member} {post : File} {k : Nat}
    (hat : At F r' pre m post k) (hb : r'.blocked = true) (xs : List CSpec)
    (hv : ∀ y ∈ xs, y.Valid F) (ho : Ordered xs) (out : List UInt8) :
    (xs = [] → ChunkReader.nextChunk r' (xs.map (·.c)) out = (⟨r', []⟩, out, some .eof)) ∧
    (∀ y ys, xs = y :: ys → ∃ r'' rem', ChunkReader.nextChunk r' (xs.map (·.c)) out =
        (⟨r'', xs.map (·.c)⟩, out, none) ∧ CRInv F r'' xs y.p rem' ∧ rem' < F.length) := by
  refine ⟨fun h => by subst h; rfl, fun y ys hxs => ?_⟩
  subst hxs
  have hvy := hv y (by simp)
  have ⟨k1, k2, k3, pre', m', post', k4, k5, k6⟩ := seek_at hwf hat.sim y.c.bgn y.p hvy.bgn
  rcases hsk : r'.seek y.c.bgn with ⟨r1, e⟩
  rw [hsk] at k1 k2 k3 k4
  simp only at k1 k2 k3 k4
  subst k1
  refine ⟨r1, post'.length, by simp [ChunkReader.nextChunk, hsk], ⟨hv, ho, k3.trans hb, ⟨pre', m', post', _, k4, k6, by rw [k2]; exact k5, rfl⟩, ?_⟩, ?_⟩
  · intro w rest'' hw
    simp only [List.cons.injEq] at hw
    rw [← hw.1]; exact ⟨Nat.le_refl _, hvy.le⟩
  · rw [k4.split]; simp; omega

/-- What one `Read` must achieve. -/
structure StepOK (F : File) (xs0 : List CSpec) (pos rem n : Nat)
    (res : ChunkReader × List UInt8 × Option Err) : Prop where
  ok : res.2.2 = none → ∃ xs' pos' rem', res.1.chunks = xs'.map (·.c) ∧ CRInv F res.1.r xs' pos' rem' ∧
        todo F xs0 pos = res.2.1 ++ todo F xs' pos' ∧ (0 < n → mu F xs' rem' pos' < mu F xs0 rem pos)
  err : ∀ e, res.2.2 = some e → e = .eof ∧ todo F xs0 pos = res.2.1

/-- Bytes handed out inside the first chunk, the chunk going on. -/
theorem todo_step {F pre post : File} {m : Member} (hF : F = pre ++ m :: post) (x : CSpec) (xs : List CSpec)
    (k a : Nat) (ha : k + a ≤ m.data.length) (hq : flatLen pre + k + a ≤ x.q) :
    todo F (x :: xs) (flatLen pre + k) = (m.data.drop k).take a ++ todo F (x :: xs) (flatLen pre + k + a) := by
  simp only [todo]
  rw [slice_prefix_at hF k a x.q ha hq, List.append_assoc]

/-- Same, the chunk being finished by these bytes. -/
theorem todo_done {F pre post : File} {m : Member} (hF : F = pre ++ m :: post) (x : CSpec) (xs : List CSpec)
    (k a : Nat) (ha : k + a ≤ m.data.length) (hq : flatLen pre + k + a = x.q) :
    todo F (x :: xs) (flatLen pre + k) = (m.data.drop k).take a ++ expected F xs := by
  rw [todo_step hF x xs k a ha (by omega)]
  simp [todo, hq, slice_self]

theorem mu_next {F : File} (x : CSpec) (xs : List CSpec) (rem rem' pos pos' : Nat) (out : List UInt8)
    (hrem : rem' < F.length) (htodo : todo F (x :: xs) pos = out ++ todo F xs pos') :
    mu F xs rem' pos' < mu F (x :: xs) rem pos := by
  simp only [mu, htodo, List.length_cons, List.length_append]
  have : (xs.length + 1) * (F.length + 2) = xs.length * (F.length + 2) + (F.length + 2) := by
    rw [Nat.add_mul]; omega
  omega

end Hts.Model.Bgzf
