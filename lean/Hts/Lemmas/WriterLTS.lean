/-
Writer LTS: the inductive invariant `Inv` of the repaired protocol, `inv_init`, `inv_step`.
-/
import Hts.Model.WriterLTS
namespace Hts.Model.WriterLTS

/-- split a hypothesis `h : xxxStep cfg s = some (e, t)` (already unfolded) into its branches -/
macro "step_cases" h:ident : tactic =>
  `(tactic| (repeat' (split at $h:ident)) <;>
      first
        | (cases $h:ident; done)
        | (simp only [Option.some.injEq, Prod.mk.injEq] at $h:ident; obtain ⟨h1, h2⟩ := $h:ident; subst h1 h2)
        | skip)

/-! ### auxiliary state functions -/

/-- compressors held by the emitter goroutine -/
def emHolds : EmPc → Nat
  | .recv => 0
  | .done => 0
  | _ => 1

/-- the emitter's compressor is still counted in `qwg` -/
def emPend : EmPc → Nat
  | .hold _ => 1
  | .failed _ => 1
  | .rel _ => 1
  | _ => 0

def emUnwritten : EmPc → List Item
  | .hold it => [it]
  | _ => []

/-- submitted blocks not yet handed to the underlying writer, in emission order -/
def unwritten (s : State) : List Item := emUnwritten s.em ++ s.queue

def emFailed : EmPc → Bool
  | .failed _ => true
  | .latch _ => true
  | _ => false

/-- an underlying write has failed (latched or about to be latched): nothing more will be written -/
def wedged (s : State) : Bool := s.err || emFailed s.em

def apiNoActive : ApiPc → Bool
  | .wTake _ => true
  | .cTake => true
  | .cComp => true
  | _ => false

/-- Close has queued its block un-compressed and not yet compressed it -/
def apiHolding : ApiPc → Bool
  | .cTake => true
  | .cComp => true
  | _ => false

def apiAfterClose : ApiPc → Bool
  | .idle => true
  | .retClosed => true
  | .wtChk => true
  | .wtBlock => true
  | .cJoin => true
  | .cEof => true
  | .cRet => true
  | _ => false

def apiNeedsClosed : ApiPc → Bool
  | .cJoin => true
  | .cEof => true
  | .cRet => true
  | _ => false

def apiDropped : ApiPc → Bool
  | .cComp => true
  | _ => false

/-- the compressor Close takes from `waiting` and drops -/
def dropped (s : State) : Nat := if s.closed || apiDropped s.api then 1 else 0

def activeCount (s : State) : Nat := if s.active.isSome then 1 else 0

def isHeld (it : Item) : Bool := it.st == .held

/-- `holding = false`: no item is `held`; `holding = true`: exactly the last one is -/
def heldOK (holding : Bool) : List Item → Bool
  | [] => !holding
  | [it] => isHeld it == holding
  | it :: it' :: rest => !isHeld it && heldOK holding (it' :: rest)

/-- which call a program counter belongs to -/
def pcOp : ApiPc → Op → Prop
  | .idle, _ => True
  | .retClosed, op => (∃ k, op = .write k) ∨ (∃ b, op = .flush b)
  | .wLoop _, op => ∃ k, op = .write k
  | .wSub _, op => ∃ k, op = .write k
  | .wTake _, op => ∃ k, op = .write k
  | .fChk _, op => ∃ b, op = .flush b
  | .fSwap, op => ∃ b, op = .flush b
  | .fRet, op => ∃ b, op = .flush b
  | .wtChk, op => op = .wait
  | .wtBlock, op => op = .wait
  | _, op => op = .close

structure Inv (cfg : Cfg) (s : State) : Prop where
  pref : s.out = List.range s.out.length
  le : s.out.length ≤ s.submitted
  order : wedged s = false →
    (unwritten s).map (·.blk) = List.range' s.out.length (unwritten s).length ∧
    s.out.length + (unwritten s).length = s.submitted
  pend : s.pending = s.queue.length + emPend s.em
  cons : s.waiting.length + s.queue.length + emHolds s.em + activeCount s + dropped s = cfg.n
  act : s.active.isSome = !(apiNoActive s.api || s.closed)
  held : heldOK (apiHolding s.api) (unwritten s) = true
  closedApi : s.closed = true → apiAfterClose s.api = true
  needsClosed : apiNeedsClosed s.api = true → s.closed = true
  emDone : s.em = .done → s.closed = true ∧ s.queue = []
  joined : s.closed = true → s.api ≠ .cJoin → s.em = .done
  eofOK : s.closed = true → s.err = false → s.api ≠ .cJoin → s.api ≠ .cEof → s.eof = true
  rep : ∀ it, s.em ≠ .latch it ∧ s.em ≠ .pushx it
  cur : pcOp s.api s.cur
  eofClosed : s.eof = true → s.closed = true

theorem Cfg.n_ge_two (cfg : Cfg) : 2 ≤ cfg.n := by
  unfold Cfg.n; split <;> omega

/-! ### list lemmas -/

theorem heldOK_cons_not {b : Bool} {it : Item} {l : List Item} (h : heldOK b (it :: l) = true) (hl : l ≠ []) :
    isHeld it = false ∧ heldOK b l = true := by
  cases l with
  | nil => exact absurd rfl hl
  | cons a l => simpa [heldOK] using h

theorem heldOK_false_head {it : Item} {l : List Item} (h : heldOK false (it :: l) = true) : isHeld it = false := by
  cases l with
  | nil => simpa [heldOK] using h
  | cons a l => exact (heldOK_cons_not h (by simp)).1

theorem heldOK_tail {b : Bool} {it : Item} {l : List Item} (h : heldOK b (it :: l) = true) (hn : isHeld it = false) :
    heldOK b l = true := by
  cases l with
  | nil =>
    simp only [heldOK, hn] at h
    cases b <;> simp_all [heldOK]
  | cons a l => exact (heldOK_cons_not h (by simp)).2

theorem heldOK_true_head {it : Item} {l : List Item} (h : heldOK true (it :: l) = true) (hh : isHeld it = true) :
    l = [] := by
  cases l with
  | nil => rfl
  | cons a l => have := (heldOK_cons_not h (by simp)).1; simp_all

theorem heldOK_append_false {l : List Item} {it : Item} (h : heldOK false l = true) (hn : isHeld it = false) :
    heldOK false (l ++ [it]) = true := by
  induction l with
  | nil => simp [heldOK, hn]
  | cons a l ih =>
    have ha := heldOK_false_head h
    have ht := heldOK_tail h ha
    cases l with
    | nil => simp [heldOK, ha, hn]
    | cons c l =>
      have := ih ht
      simp only [List.cons_append] at this ⊢
      simp [heldOK, ha, this]

theorem heldOK_append_true {l : List Item} {it : Item} (h : heldOK false l = true) (hn : isHeld it = true) :
    heldOK true (l ++ [it]) = true := by
  induction l with
  | nil => simp [heldOK, hn]
  | cons a l ih =>
    have ha := heldOK_false_head h
    have ht := heldOK_tail h ha
    cases l with
    | nil => simp [heldOK, ha, hn]
    | cons c l =>
      have := ih ht
      simp only [List.cons_append] at this ⊢
      simp [heldOK, ha, this]

theorem isHeld_unhold (it : Item) : isHeld (unhold it) = false := by
  unfold unhold isHeld
  split <;> simp_all

theorem unhold_blk (it : Item) : (unhold it).blk = it.blk := by
  unfold unhold; split <;> rfl

theorem heldOK_map_unhold (l : List Item) : heldOK false (l.map unhold) = true := by
  induction l with
  | nil => rfl
  | cons a l ih =>
    cases l with
    | nil => simp [heldOK, isHeld_unhold]
    | cons c l =>
      simp only [List.map_cons] at ih ⊢
      simp [heldOK, isHeld_unhold, ih]

theorem heldOK_congr {b : Bool} : ∀ {l l' : List Item}, l.map isHeld = l'.map isHeld → heldOK b l = heldOK b l'
  | [], [], _ => rfl
  | [], _ :: _, h => by simp at h
  | _ :: _, [], h => by simp at h
  | [a], [a'], h => by simp at h; simp [heldOK, h]
  | [_], _ :: _ :: _, h => by simp at h
  | _ :: _ :: _, [_], h => by simp at h
  | a :: c :: l, a' :: c' :: l', h => by
    simp only [List.map_cons, List.cons.injEq] at h
    have ih : heldOK b (c :: l) = heldOK b (c' :: l') := heldOK_congr (by simp [h.2.1, h.2.2])
    simp [heldOK, h.1, ih]

theorem unwritten_unhold (s : State) :
    emUnwritten (unholdEm s.em) ++ s.queue.map unhold = (unwritten s).map unhold := by
  unfold unwritten
  cases s.em <;> simp [unholdEm, emUnwritten]

theorem finishAt_spec : ∀ {i : Nat} {q q' : List Item}, finishAt i q = some q' →
    q'.length = q.length ∧ q'.map (·.blk) = q.map (·.blk) ∧ q'.map isHeld = q.map isHeld ∧
    ∃ a it b, q = a ++ it :: b ∧ it.st = .compressing ∧ q' = a ++ { it with st := .flushed } :: b
  | _, [], _, h => by simp [finishAt] at h
  | 0, it :: q, q', h => by
    simp only [finishAt] at h
    split at h
    · rename_i hc
      cases h
      refine ⟨rfl, rfl, ?_, [], it, q, rfl, hc, rfl⟩
      simp only [isHeld, hc, List.map_cons]; rfl
    · cases h
  | i + 1, it :: q, q', h => by
    simp only [finishAt, Option.map_eq_some_iff] at h
    obtain ⟨q1, h1, rfl⟩ := h
    obtain ⟨hl, hb, hh, a, x, b, rfl, hc, rfl⟩ := finishAt_spec h1
    refine ⟨by simp [hl], by simp [hb], by simpa using hh, it :: a, x, b, rfl, hc, rfl⟩

/-! ### decomposition of `next` -/

theorem next_cases {cfg : Cfg} {s t : State} {l : Label} {e : Option Ev} {P : Prop}
    (h : next cfg s l = some (e, t))
    (hapi : apiStep cfg s = some (e, t) → P)
    (hem : emStep cfg s = some (e, t) → P)
    (hq : ∀ i q, finishAt i s.queue = some q → e = none → t = { s with queue := q } → P)
    (he : ∀ it, s.em = .hold it → it.st = .compressing → e = none →
      t = { s with em := .hold { it with st := .flushed } } → P) : P := by
  cases l with
  | api => exact hapi h
  | em => exact hem h
  | finQ i =>
    simp only [next, Option.map_eq_some_iff] at h
    obtain ⟨q, hq', h2⟩ := h
    simp only [Prod.mk.injEq] at h2
    exact hq i q hq' h2.1.symm h2.2.symm
  | finE =>
    simp only [next] at h
    split at h
    · rename_i it hem'
      split at h
      · rename_i hc
        simp only [Option.some.injEq, Prod.mk.injEq] at h
        exact he it hem' hc h.1.symm h.2.symm
      · cases h
    · cases h

end Hts.Model.WriterLTS
