/-
Round trip of the CSI serialisation (versions 1 and 2, auxiliary bytes, per-bin left offset and
record count, pseudo-bin number derived from the depth).
-/
import Hts.Lemmas.IndexIO
import Hts.Lemmas.IndexCsi
namespace Hts.Model.IndexIO
open Hts.Model.Index Hts.Model.Csi

/-- the bin as the reader sees it: version 1 does not store the record count -/
def normCBin (version : Nat) (b : CBin) : CBin := { b with records := if version = 2 then b.records else 0 }

structure CRefBounds (version binLimit : Nat) (r : CRef) : Prop where
  nb : r.bins.length + (if r.stats.isSome then 1 else 0) ≤ binLimit + 1
  nb31 : r.bins.length + (if r.stats.isSome then 1 else 0) < 2147483648
  bins : ∀ b, b ∈ r.bins → b.bin < 4294967296 ∧ b.bin ≠ binLimit + 1 ∧ OffOK b.left ∧
    b.records < 18446744073709551616 ∧ b.chunks.length < 2147483648 ∧ ∀ c, c ∈ b.chunks → OffOK c.b ∧ OffOK c.e
  stats : ∀ s, r.stats = some s →
    OffOK s.chunk.b ∧ OffOK s.chunk.e ∧ s.mapped < 18446744073709551616 ∧ s.unmapped < 18446744073709551616

structure CRefSorted (r : CRef) : Prop where
  bins : r.bins.Pairwise (fun a b => leCBin a b = true)
  chunks : ∀ b, b ∈ r.bins → b.chunks.Pairwise (fun a b => leChunk a b = true)

/-- a CSI index the format can represent, with a truthful flag -/
structure CWF (i : CIndex) : Prop where
  version : i.version = 1 ∨ i.version = 2
  minShift : i.minShift < 2147483648
  geom : i.minShift + 3 * i.depth ≤ 62
  aux : i.aux.length < 2147483648
  nrefs : i.refs.length < 2147483648
  bounds : ∀ r, r ∈ i.refs → CRefBounds i.version (csiBinLimit i.depth) r
  flag : i.isSorted = true → ∀ r, r ∈ i.refs → CRefSorted r
  um : ∀ n, i.unmapped = some n → n < 18446744073709551616

theorem csortRef_sorted (r : CRef) : CRefSorted (Csi.sortRef r) :=
  { bins := by
      show ((r.bins.mergeSort leCBin).map _).Pairwise _
      rw [List.pairwise_map]
      exact (List.pairwise_mergeSort leCBin_trans leCBin_total r.bins).imp (by intro a b h; exact h)
    chunks := by
      intro b hb
      obtain ⟨b0, _, rfl⟩ := List.mem_map.1 hb
      exact List.pairwise_mergeSort leChunk_trans leChunk_total _ }

theorem csortRef_bounds (v bl : Nat) (r : CRef) (h : CRefBounds v bl r) : CRefBounds v bl (Csi.sortRef r) :=
  { nb := by
      show ((r.bins.mergeSort leCBin).map _).length + (if r.stats.isSome then 1 else 0) ≤ _
      rw [List.length_map, (List.mergeSort_perm r.bins leCBin).length_eq]; exact h.nb
    nb31 := by
      show ((r.bins.mergeSort leCBin).map _).length + (if r.stats.isSome then 1 else 0) < _
      rw [List.length_map, (List.mergeSort_perm r.bins leCBin).length_eq]; exact h.nb31
    bins := by
      intro b hb
      obtain ⟨b0, hb0, rfl⟩ := List.mem_map.1 hb
      have hb0' := (List.mergeSort_perm r.bins leCBin).mem_iff.1 hb0
      obtain ⟨h1, h2, h3, h4, h5, h6⟩ := h.bins b0 hb0'
      refine ⟨h1, h2, h3, h4, ?_, ?_⟩
      · show (sortChunks b0.chunks).length < _
        unfold sortChunks; rw [(List.mergeSort_perm _ _).length_eq]; exact h5
      · intro c hc; exact h6 c (mem_sortChunks.1 hc)
    stats := h.stats }

theorem csort_refs_ok (i : CIndex) (h : CWF i) :
    ∀ r, r ∈ (Csi.sort i).refs → CRefBounds i.version (csiBinLimit i.depth) r ∧ CRefSorted r := by
  intro r hr
  unfold Csi.sort at hr
  split at hr
  · rename_i hf; exact ⟨h.bounds r hr, h.flag hf r hr⟩
  · obtain ⟨r0, hr0, rfl⟩ := List.mem_map.1 hr
    exact ⟨csortRef_bounds _ _ r0 (h.bounds r0 hr0), csortRef_sorted r0⟩

theorem wChunks_eq (cs : List Chunk) : wChunks cs = i32 (cs.length : Int) ++ cs.flatMap wChunk := rfl

theorem rCBinLoop_bins (version dummy : Nat) (hv : version = 1 ∨ version = 2) :
    ∀ (bins : List CBin) (k : Nat) (acc : List CBin) (st : Option Stats) (tail : Bytes),
    (∀ b, b ∈ bins → b.bin < 4294967296 ∧ b.bin ≠ dummy ∧ OffOK b.left ∧ b.records < 18446744073709551616 ∧
      b.chunks.length < 2147483648 ∧ (∀ c, c ∈ b.chunks → OffOK c.b ∧ OffOK c.e) ∧
      b.chunks.Pairwise (fun a b => leChunk a b = true)) →
    rCBinLoop version dummy (bins.length + k) acc st (bins.flatMap (wCBin version) ++ tail) =
      rCBinLoop version dummy k ((bins.map (normCBin version)).reverse ++ acc) st tail := by
  intro bins
  induction bins with
  | nil => intro k acc st tail _; simp
  | cons b bs ih =>
    intro k acc st tail h
    obtain ⟨h1, h2, h3, h4, h5, h6, h7⟩ := h b List.mem_cons_self
    have hlen : (b :: bs).length + k = (bs.length + k) + 1 := by simp; omega
    rw [hlen]
    conv => lhs; unfold rCBinLoop
    rcases hv with hv | hv
    · subst hv
      have hbytes : (b :: bs).flatMap (wCBin 1) ++ tail =
          le32 b.bin ++ (i64 b.left ++ (i32 (b.chunks.length : Int) ++ (b.chunks.flatMap wChunk ++
            (bs.flatMap (wCBin 1) ++ tail)))) := by
        simp [wCBin, wChunks_eq, List.append_assoc]
      rw [hbytes, rU32_le32 _ h1]
      simp only
      rw [rOff_i64 _ h3]
      simp only [show ¬ ((1 : Nat) = 2) by decide, if_false]
      rw [rI32_i32 _ (by omega) (by omega)]
      simp only [h2, if_false]
      rw [rChunks_wChunks _ h5 h6 h7]
      simp only
      rw [ih k _ st tail (fun x hx => h x (List.mem_cons_of_mem _ hx))]
      simp [normCBin]
    · subst hv
      have hbytes : (b :: bs).flatMap (wCBin 2) ++ tail =
          le32 b.bin ++ (i64 b.left ++ (le64 b.records ++ (i32 (b.chunks.length : Int) ++ (b.chunks.flatMap wChunk ++
            (bs.flatMap (wCBin 2) ++ tail))))) := by
        simp [wCBin, wChunks_eq, List.append_assoc]
      rw [hbytes, rU32_le32 _ h1]
      simp only
      rw [rOff_i64 _ h3]
      simp only [if_true]
      rw [rU64_le64 _ h4]
      simp only
      rw [rI32_i32 _ (by omega) (by omega)]
      simp only [h2, if_false]
      rw [rChunks_wChunks _ h5 h6 h7]
      simp only
      rw [ih k _ st tail (fun x hx => h x (List.mem_cons_of_mem _ hx))]
      simp [normCBin]

theorem rCBinLoop_stats (version dummy : Nat) (hv : version = 1 ∨ version = 2) (hd : dummy < 4294967296) (s : Stats)
    (h : OffOK s.chunk.b ∧ OffOK s.chunk.e ∧ s.mapped < 18446744073709551616 ∧ s.unmapped < 18446744073709551616)
    (acc : List CBin) (st : Option Stats) (rest : Bytes) :
    rCBinLoop version dummy 1 acc st (wCStats version dummy s ++ rest) = .ok ((acc.reverse, some s), rest) := by
  unfold rCBinLoop wCStats
  have z64 : OffOK 0 := by unfold OffOK; omega
  have hz : le32 0 ++ le32 0 = i64 0 := by decide
  have hz' : le32 0 ++ le32 0 = le64 0 := by decide
  rcases hv with hv | hv
  · subst hv
    simp only [if_true]
    have : le32 dummy ++ le32 0 ++ le32 0 ++ le32 2 ++ wStatsBody s ++ rest =
        le32 dummy ++ (i64 0 ++ (le32 2 ++ (wStatsBody s ++ rest))) := by
      rw [← hz]; simp [List.append_assoc]
    rw [this, rU32_le32 _ hd]
    simp only
    rw [rOff_i64 _ z64]
    simp only [show ¬ ((1 : Nat) = 2) by decide, if_false]
    rw [rI32_le32 2 (by decide)]
    simp only [if_true]
    have h2 : ¬ ((2 : Nat) : Int) ≠ 2 := by simp
    simp only [h2, if_false]
    rw [rStatsBody_w s h]
    simp [rCBinLoop]
  · subst hv
    simp only [show ¬ ((2 : Nat) = 1) by decide, if_false, if_true]
    have : le32 dummy ++ le32 0 ++ le32 0 ++ le32 0 ++ le32 0 ++ le32 2 ++ wStatsBody s ++ rest =
        le32 dummy ++ (i64 0 ++ (le64 0 ++ (le32 2 ++ (wStatsBody s ++ rest)))) := by
      rw [← hz, ← hz']; simp [List.append_assoc]
    rw [this, rU32_le32 _ hd]
    simp only
    rw [rOff_i64 _ z64]
    simp only [if_true]
    rw [rU64_le64 0 (by decide)]
    simp only
    rw [rI32_le32 2 (by decide)]
    simp only [if_true]
    have h2 : ¬ ((2 : Nat) : Int) ≠ 2 := by simp
    simp only [h2, if_false]
    rw [rStatsBody_w s h]
    simp [rCBinLoop]

theorem normCBin_sorted (version : Nat) (bins : List CBin) (h : bins.Pairwise (fun a b => leCBin a b = true)) :
    (bins.map (normCBin version)).Pairwise (fun a b => leCBin a b = true) := by
  rw [List.pairwise_map]
  exact h.imp (by intro a b hab; exact hab)

theorem rCBins_wCBins (version binLimit : Nat) (hv : version = 1 ∨ version = 2) (hbl : binLimit + 1 < 4294967296)
    (r : CRef) (hb : CRefBounds version binLimit r) (hs : CRefSorted r) (rest : Bytes) :
    rCBins version binLimit (wCBins version (binLimit + 1) r.bins r.stats ++ rest) =
      .ok ((r.bins.map (normCBin version), r.stats), rest) := by
  have hbins : ∀ b, b ∈ r.bins → b.bin < 4294967296 ∧ b.bin ≠ binLimit + 1 ∧ OffOK b.left ∧
      b.records < 18446744073709551616 ∧ b.chunks.length < 2147483648 ∧
      (∀ c, c ∈ b.chunks → OffOK c.b ∧ OffOK c.e) ∧ b.chunks.Pairwise (fun a b => leChunk a b = true) := by
    intro b hbm
    obtain ⟨h1, h2, h3, h4, h5, h6⟩ := hb.bins b hbm
    exact ⟨h1, h2, h3, h4, h5, h6, hs.chunks b hbm⟩
  have hnb := hb.nb
  have hnb31 := hb.nb31
  unfold rCBins wCBins
  cases hst : r.stats with
  | some s =>
    simp only [hst, Option.isSome_some, if_true] at hnb hnb31
    simp only
    have : i32 ((r.bins.length : Int) + 1) ++ r.bins.flatMap (wCBin version) ++ wCStats version (binLimit + 1) s ++ rest =
        i32 ((r.bins.length : Int) + 1) ++ (r.bins.flatMap (wCBin version) ++ (wCStats version (binLimit + 1) s ++ rest)) := by
      simp [List.append_assoc]
    rw [this, rI32_i32 _ (by omega) (by omega)]
    have h0 : ¬ ((r.bins.length : Int) + 1 = 0) := by omega
    have h1 : ¬ ((r.bins.length : Int) + 1 < 0) := by omega
    have hn : ((r.bins.length : Int) + 1).toNat = r.bins.length + 1 := by omega
    have h2 : ¬ (r.bins.length + 1 > binLimit + 1) := by omega
    simp only [h0, h1, hn, h2, if_false]
    rw [rCBinLoop_bins version (binLimit + 1) hv r.bins 1 [] none _ hbins]
    rw [rCBinLoop_stats version (binLimit + 1) hv hbl s (hb.stats s hst)]
    simp only [List.append_nil, List.reverse_reverse]
    rw [List.mergeSort_of_pairwise (normCBin_sorted version r.bins hs.bins)]
  | none =>
    simp only [hst, Option.isSome_none, Bool.false_eq_true, if_false, Nat.add_zero] at hnb hnb31
    simp only
    have : i32 (r.bins.length : Int) ++ r.bins.flatMap (wCBin version) ++ rest =
        i32 (r.bins.length : Int) ++ (r.bins.flatMap (wCBin version) ++ rest) := by simp [List.append_assoc]
    rw [this, rI32_i32 _ (by omega) (by omega)]
    cases hbl' : r.bins with
    | nil => simp
    | cons b bs =>
      rw [← hbl']
      have h0 : ¬ ((r.bins.length : Int) = 0) := by rw [hbl']; simp; omega
      have h1 : ¬ ((r.bins.length : Int) < 0) := by omega
      have h2 : ¬ (r.bins.length > binLimit + 1) := by omega
      simp only [h0, h1, Int.toNat_natCast, h2, if_false]
      have := rCBinLoop_bins version (binLimit + 1) hv r.bins 0 [] none rest hbins
      simp only [Nat.add_zero] at this
      rw [this]
      simp only [rCBinLoop, List.append_nil, List.reverse_reverse]
      rw [List.mergeSort_of_pairwise (normCBin_sorted version r.bins hs.bins)]

theorem csiBinLimit_lt (d : Nat) (h : d ≤ 20) : csiBinLimit d + 1 < 4294967296 := by
  unfold csiBinLimit
  have : d = 0 ∨ d = 1 ∨ d = 2 ∨ d = 3 ∨ d = 4 ∨ d = 5 ∨ d = 6 ∨ d = 7 ∨ d = 8 ∨ d = 9 ∨ d = 10 ∨ d = 11 ∨
      d = 12 ∨ d = 13 ∨ d = 14 ∨ d = 15 ∨ d = 16 ∨ d = 17 ∨ d = 18 ∨ d = 19 ∨ d = 20 := by omega
  rcases this with h | h | h | h | h | h | h | h | h | h | h | h | h | h | h | h | h | h | h | h | h <;>
    subst h <;> decide

theorem rAux_w (aux rest : Bytes) (h : aux.length < 2147483648) :
    rAux (aux.length : Int) (aux ++ rest) = .ok (aux, rest) := by
  unfold rAux
  by_cases hpos : (aux.length : Int) > 0
  · simp only [hpos, if_true, Int.toNat_natCast]
    exact rBytes_append' _ _
  · have : aux = [] := by
      have : aux.length = 0 := by omega
      exact List.eq_nil_of_length_eq_zero this
    subst this
    simp

theorem rCRefs_w (version binLimit : Nat) (hv : version = 1 ∨ version = 2) (hbl : binLimit + 1 < 4294967296)
    (refs : List CRef) (hok : ∀ r, r ∈ refs → CRefBounds version binLimit r ∧ CRefSorted r) (rest : Bytes) :
    rCRefs version binLimit (refs.length : Int)
        (refs.flatMap (fun r => wCBins version (binLimit + 1) r.bins r.stats) ++ rest) =
      .ok (refs.map (fun r => { r with bins := r.bins.map (normCBin version) }), rest) := by
  unfold rCRefs
  split
  · rename_i h0
    have : refs = [] := by
      have : refs.length = 0 := by omega
      exact List.eq_nil_of_length_eq_zero this
    subst this; simp
  · exact counted_map_flatMap (rCRef version binLimit)
      (fun r : CRef => wCBins version (binLimit + 1) r.bins r.stats)
      (fun r : CRef => ({ r with bins := r.bins.map (normCBin version) } : CRef)) refs rest
      (by
        intro r hr rest'
        unfold rCRef
        rw [rCBins_wCBins version binLimit hv hbl r (hok r hr).1 (hok r hr).2])

/-- `read_write` for CSI (both versions, any auxiliary bytes) -/
theorem readCsi_writeCsi (i : CIndex) (h : CWF i) : readCsi (writeCsi i) = .ok (normCsi i) := by
  unfold readCsi writeCsi
  have hlen : (Csi.sort i).refs.length = i.refs.length := by
    unfold Csi.sort; split <;> simp
  have hrefs := csort_refs_ok i h
  have hblt := csiBinLimit_lt i.depth (by have := h.geom; omega)
  have hv8 : (UInt8.ofNat i.version).toNat = i.version := by
    rcases h.version with hv | hv <;> rw [hv] <;> decide
  simp only [List.append_assoc]
  have hm : ∀ X : Bytes, rBytes 3 (csiMagic ++ X) = .ok (csiMagic, X) := by
    intro X; simp [rBytes, csiMagic]
  rw [hm]
  simp only [ne_eq, not_true_eq_false, if_false, List.singleton_append, hv8]
  have hvv : ¬ (¬ i.version = 1 ∧ ¬ i.version = 2) := by
    rcases h.version with hv | hv <;> simp [hv]
  simp only [hvv, if_false]
  have hms := h.minShift
  have hg0 := h.geom
  rw [rI32_i32 _ (by omega) (by omega)]
  simp only [show ¬ ((i.minShift : Int) < 0) by omega, if_false]
  rw [rI32_i32 _ (by omega) (by omega)]
  have hg := h.geom
  simp only [show ¬ ((i.depth : Int) < 0) by omega, show ¬ ((i.minShift : Int) + (i.depth : Int) * 3 > 62) by omega,
    if_false]
  have haux := h.aux
  rw [rI32_i32 _ (by omega) (by omega)]
  simp only
  rw [rAux_w _ _ haux]
  simp only
  have hn := h.nrefs
  rw [rI32_i32 _ (by omega) (by omega)]
  simp only [Int.toNat_natCast]
  rw [← hlen, rCRefs_w i.version (csiBinLimit i.depth) h.version hblt (Csi.sort i).refs hrefs]
  simp only
  rw [rUnmapped_w _ h.um]
  rfl

end Hts.Model.IndexIO

namespace Hts.Model.IndexIO
open Hts.Model.Index Hts.Model.Csi

theorem wCBin_normCBin (version : Nat) (b : CBin) : wCBin version (normCBin version b) = wCBin version b := by
  unfold wCBin normCBin
  by_cases hv : version = 2 <;> simp [hv]

theorem csort_normCsi (i : CIndex) : Csi.sort (normCsi i) = normCsi i := by simp [Csi.sort, normCsi]

/-- `write_norm` for CSI -/
theorem writeCsi_norm (i : CIndex) : writeCsi (normCsi i) = writeCsi i := by
  unfold writeCsi
  simp only
  rw [csort_normCsi]
  have hrefs : (normCsi i).refs.flatMap (fun r => wCBins (normCsi i).version (csiBinLimit (normCsi i).depth + 1) r.bins r.stats)
      = (Csi.sort i).refs.flatMap (fun r => wCBins i.version (csiBinLimit i.depth + 1) r.bins r.stats) := by
    show ((Csi.sort i).refs.map _).flatMap _ = _
    rw [List.flatMap_map]
    congr 1
    funext r
    show wCBins i.version (csiBinLimit i.depth + 1) (r.bins.map (normCBin i.version)) r.stats = _
    unfold wCBins
    have hb : (r.bins.map (normCBin i.version)).flatMap (wCBin i.version) = r.bins.flatMap (wCBin i.version) := by
      rw [List.flatMap_map]; congr 1; funext b; exact wCBin_normCBin _ b
    cases r.stats <;> simp only [hb, List.length_map]
  have hlen : (normCsi i).refs.length = i.refs.length := by
    show ((Csi.sort i).refs.map _).length = _
    rw [List.length_map]; unfold Csi.sort; split <;> simp
  rw [hrefs, hlen]
  rfl

theorem findBin_map (f : CBin → CBin) (hf : ∀ b, (f b).bin = b.bin) (bins : List CBin) (b : Nat) :
    Csi.findBin (bins.map f) b = (Csi.findBin bins b).map f := by
  unfold Csi.findBin
  have : (bins.map f).find? (fun x => decide (x.bin ≥ b)) = (bins.find? (fun x => decide (x.bin ≥ b))).map f := by
    induction bins with
    | nil => rfl
    | cons x xs ih =>
      simp only [List.map_cons, List.find?_cons, hf]
      split <;> simp [ih]
  rw [this]
  cases bins.find? (fun x => decide (x.bin ≥ b)) with
  | none => rfl
  | some x => simp only [Option.map_some, hf]; split <;> rfl

/-- `chunks_norm` for CSI -/
theorem csi_chunks_norm (binsOf : Int → Int → Nat → Nat → List Nat) (adj : List Chunk → List Chunk)
    (i : CIndex) (rid beg stop : Int) :
    Csi.chunks binsOf adj (normCsi i) rid beg stop = Csi.chunks binsOf adj i rid beg stop := by
  unfold Csi.chunks
  rw [csort_normCsi]
  have hlen : (normCsi i).refs.length = i.refs.length := by
    show ((Csi.sort i).refs.map _).length = _
    rw [List.length_map]; unfold Csi.sort; split <;> simp
  rw [hlen]
  split
  · rfl
  · have hr : (normCsi i).refs = (Csi.sort i).refs.map (fun r : CRef =>
        ({ r with bins := r.bins.map (normCBin i.version) } : CRef)) := rfl
    rw [hr, List.getElem?_map]
    cases (Csi.sort i).refs[rid.toNat]? with
    | none => rfl
    | some ref =>
      simp only [Option.map_some]
      show adj (sortChunks (Csi.candidates ⟨ref.bins.map (normCBin i.version), ref.stats⟩ _)) = _
      congr 2
      unfold Csi.candidates
      congr 1
      funext b
      simp only
      rw [findBin_map (normCBin i.version) (fun _ => rfl)]
      cases Csi.findBin ref.bins b <;> rfl

end Hts.Model.IndexIO
