/-
C07 helper lemmas, part 1: name tables, the invariant `KInv` of one kind (references / read groups /
programs) and its frame lemmas; allocation, new table, data update.
-/
import Hts.Model.Header
namespace Hts.Model.Header
variable {α : Type}

theorem lookup_erase (m : Seen) (n n' : Bytes) :
    lookup (erase m n) n' = if n = n' then none else lookup m n' := by
  induction m with
  | nil => simp [erase, lookup]
  | cons p m ih =>
    obtain ⟨k, v⟩ := p
    by_cases hk : k = n
    · subst hk; simp only [erase, if_true, ih, lookup]; split <;> simp_all
    · simp only [erase, hk, if_false, lookup, ih]; split <;> split <;> simp_all

theorem lookup_insert (m : Seen) (n n' : Bytes) (v : Int) :
    lookup (insert m n v) n' = if n = n' then some v else lookup m n' := by
  simp only [insert, lookup, lookup_erase]; split <;> simp_all

theorem get_lt {β : Type} {l : List β} {i : Nat} {b : β} (h : l[i]? = some b) : i < l.length := by
  rcases Nat.lt_or_ge i l.length with h' | h'
  · exact h'
  · rw [List.getElem?_eq_none h'] at h; cases h

theorem set_get {β : Type} (l : List β) (i j : Nat) (a b : β) (h : l[i]? = some b) :
    (l.set i a)[j]? = if i = j then some a else l[j]? := by
  rw [List.getElem?_set]; simp [get_lt h]

theorem snoc_get {β : Type} (l : List β) (a : β) (i : Nat) :
    (l ++ [a])[i]? = if i < l.length then l[i]? else if i = l.length then some a else none := by
  rw [List.getElem?_append]
  split
  · rfl
  · split
    · subst_vars; simp
    · rw [List.getElem?_eq_none]; simp; omega

theorem append_get_some {β : Type} {l : List β} {i : Nat} {b : β} (l' : List β) (h : l[i]? = some b) :
    (l ++ l')[i]? = some b := by
  rw [List.getElem?_append_left (get_lt h)]; exact h

theorem idx_some {β : Type} {l : List β} {i : Int} {b : β} (h : idx l i = some b) :
    0 ≤ i ∧ l[i.toNat]? = some b := by
  unfold idx at h
  split at h
  · cases h
  · exact ⟨by omega, h⟩

theorem idx_nat {β : Type} (l : List β) (i : Nat) : idx l (i : Int) = l[i]? := by
  unfold idx; split
  · omega
  · simp

/-- the invariant of one header's table of one kind -/
structure TabInv (heap : List (Obj α)) (h : Nat) (t : Tab) : Prop where
  /-- every listed item is owned by the header and its id is its index -/
  own : ∀ (i o : Nat), t.items[i]? = some o → ∃ x, heap[o]? = some x ∧ x.owner = some h ∧ x.id = (i : Int)
  /-- the name table maps the name of item i to i … -/
  known : ∀ (i o : Nat) (x : Obj α), t.items[i]? = some o → heap[o]? = some x →
    lookup t.seen x.name = some (i : Int)
  /-- … and holds nothing else -/
  only : ∀ (n : Bytes) (v : Int), lookup t.seen n = some v →
    ∃ (i o : Nat) (x : Obj α), t.items[i]? = some o ∧ heap[o]? = some x ∧ x.name = n ∧ v = (i : Int)

/-- the invariant of all headers and objects of one kind -/
structure KInv (k : KW α) : Prop where
  tab : ∀ (h : Nat) (t : Tab), k.tabs[h]? = some t → TabInv k.heap h t
  /-- an object that names an owner is listed by that owner at its id -/
  obj : ∀ (o : Nat) (x : Obj α) (h : Nat), k.heap[o]? = some x → x.owner = some h →
    ∃ (t : Tab) (i : Nat), k.tabs[h]? = some t ∧ x.id = (i : Int) ∧ t.items[i]? = some o

namespace TabInv
variable {heap : List (Obj α)} {h : Nat} {t : Tab}

theorem listed (T : TabInv heap h t) {i o : Nat} {x : Obj α} (hi : t.items[i]? = some o)
    (hx : heap[o]? = some x) : x.owner = some h ∧ x.id = (i : Int) := by
  obtain ⟨x', hx', ho, hid⟩ := T.own i o hi
  rw [hx] at hx'; cases hx'; exact ⟨ho, hid⟩

theorem inj (T : TabInv heap h t) {i j o : Nat} (hi : t.items[i]? = some o) (hj : t.items[j]? = some o) :
    i = j := by
  obtain ⟨x, hx, _, hid⟩ := T.own i o hi
  have := (T.listed hj hx).2
  omega

theorem name_inj (T : TabInv heap h t) {i j o o' : Nat} {x x' : Obj α} (hi : t.items[i]? = some o)
    (hj : t.items[j]? = some o') (hx : heap[o]? = some x) (hx' : heap[o']? = some x')
    (hn : x.name = x'.name) : i = j := by
  have a := T.known i o x hi hx
  have b := T.known j o' x' hj hx'
  rw [hn, b] at a
  simp at a; omega

/-- the table only depends on the objects it lists -/
theorem frame (T : TabInv heap h t) (heap' : List (Obj α))
    (hf : ∀ (i o : Nat), t.items[i]? = some o → heap'[o]? = heap[o]?) : TabInv heap' h t := by
  constructor
  · intro i o hi
    rw [hf i o hi]; exact T.own i o hi
  · intro i o x hi hx
    rw [hf i o hi] at hx; exact T.known i o x hi hx
  · intro n v hv
    obtain ⟨i, o, x, hi, hx, hn, hv'⟩ := T.only n v hv
    exact ⟨i, o, x, hi, by rw [hf i o hi]; exact hx, hn, hv'⟩

/-- the name found in the table is the name of the item at that index -/
theorem lookup_item (T : TabInv heap h t) {n : Bytes} {v : Int} {eo : Nat}
    (hl : lookup t.seen n = some v) (he : idx t.items v = some eo) :
    ∃ (i : Nat) (er : Obj α), v = (i : Int) ∧ t.items[i]? = some eo ∧ heap[eo]? = some er ∧ er.name = n ∧
      er.owner = some h ∧ er.id = (i : Int) := by
  obtain ⟨i, o, x, hi, hx, hn, hv⟩ := T.only n v hl
  subst hv
  rw [idx_nat, hi] at he; cases he
  have := T.listed hi hx
  exact ⟨i, x, rfl, hi, hx, hn, this.1, this.2⟩

/-- a found name always has an item (no index out of range) -/
theorem lookup_idx (T : TabInv heap h t) {n : Bytes} {v : Int} (hl : lookup t.seen n = some v) :
    ∃ eo, idx t.items v = some eo := by
  obtain ⟨i, o, x, hi, _, _, hv⟩ := T.only n v hl
  subst hv; exact ⟨o, by rw [idx_nat]; exact hi⟩

end TabInv

namespace KInv
variable {k : KW α}

/-- an object without owner is listed nowhere -/
theorem free_unlisted (hk : KInv k) {o : Nat} {x : Obj α} (hx : k.heap[o]? = some x) (hf : x.owner = none)
    {h i : Nat} {t : Tab} (ht : k.tabs[h]? = some t) : t.items[i]? ≠ some o := by
  intro hi
  have := ((hk.tab h t ht).listed hi hx).1
  rw [hf] at this; cases this

/-- an object is only listed by its owner -/
theorem listed_owner (hk : KInv k) {o : Nat} {x : Obj α} (hx : k.heap[o]? = some x) {h h' i : Nat} {t : Tab}
    (ho : x.owner = some h) (ht : k.tabs[h']? = some t) (hi : t.items[i]? = some o) : h' = h := by
  have := ((hk.tab h' t ht).listed hi hx).1
  rw [ho] at this; cases this; rfl

end KInv

/-- owner, id and name of an object -/
def skel (x : Obj α) : Option Nat × Int × Bytes := (x.owner, x.id, x.name)

/-- only the kind-specific data of objects changes -/
theorem kinv_congr {k k' : KW α} (hk : KInv k) (ht : k'.tabs = k.tabs)
    (hh : ∀ (o : Nat), (k'.heap[o]?).map skel = (k.heap[o]?).map skel) :
    KInv k' := by
  have get : ∀ {o : Nat} {x' : Obj α}, k'.heap[o]? = some x' →
      ∃ x, k.heap[o]? = some x ∧ x.owner = x'.owner ∧ x.id = x'.id ∧ x.name = x'.name := by
    intro o x' hx'
    have := hh o; rw [hx'] at this
    cases hx : k.heap[o]? with
    | none => rw [hx] at this; cases this
    | some x => rw [hx] at this; simp [skel] at this; exact ⟨x, rfl, this.1.symm, this.2.1.symm, this.2.2.symm⟩
  have get' : ∀ {o : Nat} {x : Obj α}, k.heap[o]? = some x →
      ∃ x', k'.heap[o]? = some x' ∧ x.owner = x'.owner ∧ x.id = x'.id ∧ x.name = x'.name := by
    intro o x hx
    have := hh o; rw [hx] at this
    cases hx' : k'.heap[o]? with
    | none => rw [hx'] at this; cases this
    | some x' => rw [hx'] at this; simp [skel] at this; exact ⟨x', rfl, this.1.symm, this.2.1.symm, this.2.2.symm⟩
  constructor
  · intro h t hth
    rw [ht] at hth
    have T := hk.tab h t hth
    constructor
    · intro i o hi
      obtain ⟨x, hx, ho, hid⟩ := T.own i o hi
      obtain ⟨x', hx', e1, e2, _⟩ := get' hx
      exact ⟨x', hx', e1 ▸ ho, e2 ▸ hid⟩
    · intro i o x' hi hx'
      obtain ⟨x, hx, _, _, e3⟩ := get hx'
      rw [← e3]; exact T.known i o x hi hx
    · intro n v hv
      obtain ⟨i, o, x, hi, hx, hn, hv'⟩ := T.only n v hv
      obtain ⟨x', hx', _, _, e3⟩ := get' hx
      exact ⟨i, o, x', hi, hx', e3 ▸ hn, hv'⟩
  · intro o x' h hx' ho
    obtain ⟨x, hx, e1, e2, _⟩ := get hx'
    obtain ⟨t, i, hth, hid, hi⟩ := hk.obj o x h hx (e1 ▸ ho)
    exact ⟨t, i, by rw [ht]; exact hth, e2 ▸ hid, hi⟩

theorem kinv_empty : KInv (⟨[], []⟩ : KW α) := by
  constructor
  · intro h t ht; simp at ht
  · intro o x h hx; simp at hx

theorem kinv_alloc {k : KW α} (hk : KInv k) (x : Obj α) (hf : x.owner = none) : KInv (k.alloc x).1 := by
  simp only [KW.alloc]
  constructor
  · intro h t ht
    refine (hk.tab h t ht).frame _ ?_
    intro i o hi
    obtain ⟨y, hy, _⟩ := (hk.tab h t ht).own i o hi
    rw [append_get_some _ hy, hy]
  · intro o y h hy ho
    simp only [snoc_get] at hy
    split at hy
    · exact hk.obj o y h hy ho
    · split at hy
      · cases hy; rw [hf] at ho; cases ho
      · cases hy

theorem alloc_heap (k : KW α) (x : Obj α) : (k.alloc x).1.heap[(k.alloc x).2]? = some x := by
  simp [KW.alloc]

theorem alloc_old (k : KW α) (x : Obj α) {o : Nat} {y : Obj α} (hy : k.heap[o]? = some y) :
    (k.alloc x).1.heap[o]? = some y := by
  simp only [KW.alloc]; exact append_get_some _ hy

theorem alloc_tabs (k : KW α) (x : Obj α) : (k.alloc x).1.tabs = k.tabs := rfl

theorem kinv_newTab {k : KW α} (hk : KInv k) : KInv k.newTab := by
  simp only [KW.newTab]
  constructor
  · intro h t ht
    simp only [snoc_get] at ht
    split at ht
    · exact hk.tab h t ht
    · split at ht
      · cases ht
        constructor
        · intro i o hi; simp at hi
        · intro i o x hi; simp at hi
        · intro n v hv; simp [lookup] at hv
      · cases ht
  · intro o x h hx ho
    obtain ⟨t, i, ht, hid, hi⟩ := hk.obj o x h hx ho
    exact ⟨t, i, append_get_some _ ht, hid, hi⟩

theorem kinv_setDat {k : KW α} (hk : KInv k) (o : Nat) (f : α → α) : KInv (k.setDat o f) := by
  unfold KW.setDat
  split
  · next x hx =>
    refine kinv_congr hk rfl ?_
    intro o'
    simp only [set_get _ _ _ _ _ hx]
    split
    · subst_vars; simp [hx, skel]
    · rfl
  · exact hk

end Hts.Model.Header
