/-
The cram stream readers return exactly the decoded number and consume exactly the announced bytes.
(Generated once by a script, then committed: this file is source.)  Core only, kernel-checked.
-/
import Hts.Model.CramStream
import Hts.Lemmas.Itf8
set_option maxHeartbeats 1000000
namespace Hts.Lemmas.CramStream

namespace Itf8S
open Hts.Model Hts.Model.CramStream

theorem width_pos (b0 : BitVec 8) : 1 ≤ (Itf8.width b0).toNat ∧ ((Itf8.width b0).toNat : Int) = Itf8.width b0 := by
  have := Itf8.width_range b0
  omega

/-- with at least the announced number of bytes available the stream reader returns the decoded value of
exactly that prefix and leaves the rest: it never consumes beyond the announced width and the
"failed to decode" branch is unreachable -/
theorem stream_consumes (b0 : BitVec 8) (t : List (BitVec 8))
    (h : Itf8.width b0 ≤ ((t.length + 1 : Nat) : Int)) :
    itf8 (b0 :: t) =
      .ok ((Itf8.decode ((b0 :: t).take (Itf8.width b0).toNat)).1, (b0 :: t).drop (Itf8.width b0).toNat) := by
  have hr := Itf8.width_range b0
  obtain ⟨hn1, hfail1⟩ := Itf8.decode_fail_iff b0 []
  unfold itf8 readFull
  simp only [List.length_cons, List.take_succ_cons, List.take_zero, List.drop_succ_cons, List.drop_zero]
  simp only [show (1 : Nat) ≠ 0 by omega, if_false, show ¬ (t.length + 1 = 0) by omega,
    show ¬ (t.length + 1 < 1) by omega]
  by_cases hw1 : Itf8.width b0 = 1
  · -- one byte is the whole number
    have hok : (Itf8.decode [b0]).2.2 = true := by
      cases hb : (Itf8.decode [b0]).2.2 with
      | true => rfl
      | false => have := hfail1.mp hb; simp at this; omega
    have e1 : (Itf8.width b0).toNat = 1 := by omega
    simp only [hok, if_true, e1, List.take_succ_cons, List.take_zero, List.drop_succ_cons, List.drop_zero]
  · have hnok : (Itf8.decode [b0]).2.2 = false := hfail1.mpr (by simp; omega)
    simp only [hnok, Bool.false_eq_true, if_false, hn1]
    have hk : (Itf8.width b0).toNat - 1 ≠ 0 := by omega
    have hlen : ¬ (t.length = 0) := by omega
    have hlen2 : ¬ (t.length < (Itf8.width b0).toNat - 1) := by omega
    simp only [hk, if_false, hlen, hlen2]
    have htake : (b0 :: t).take (Itf8.width b0).toNat = [b0] ++ t.take ((Itf8.width b0).toNat - 1) := by
      obtain ⟨m, hm⟩ : ∃ m, (Itf8.width b0).toNat = m + 1 := ⟨(Itf8.width b0).toNat - 1, by omega⟩
      rw [hm]; simp
    have hdrop : (b0 :: t).drop (Itf8.width b0).toNat = t.drop ((Itf8.width b0).toNat - 1) := by
      obtain ⟨m, hm⟩ : ∃ m, (Itf8.width b0).toNat = m + 1 := ⟨(Itf8.width b0).toNat - 1, by omega⟩
      rw [hm]; simp
    rw [htake, hdrop]
    have hok2 : (Itf8.decode ([b0] ++ t.take ((Itf8.width b0).toNat - 1))).2.2 = true := by
      have hiff := (Itf8.decode_fail_iff b0 (t.take ((Itf8.width b0).toNat - 1))).2
      cases hb : (Itf8.decode ([b0] ++ t.take ((Itf8.width b0).toNat - 1))).2.2 with
      | true => rfl
      | false =>
        have h2 := hiff.mp hb
        simp only [List.length_take] at h2
        omega
    simp only [hok2, if_true]

/-- fewer bytes than announced: an error, never a value -/
theorem stream_short (b0 : BitVec 8) (t : List (BitVec 8))
    (h : ((t.length + 1 : Nat) : Int) < Itf8.width b0) : ∃ e, itf8 (b0 :: t) = .error e := by
  have hr := Itf8.width_range b0
  obtain ⟨hn1, hfail1⟩ := Itf8.decode_fail_iff b0 []
  have hnok : (Itf8.decode [b0]).2.2 = false := hfail1.mpr (by simp; omega)
  unfold itf8 readFull
  simp only [List.length_cons, List.take_succ_cons, List.take_zero, List.drop_succ_cons, List.drop_zero]
  simp only [show (1 : Nat) ≠ 0 by omega, if_false, show ¬ (t.length + 1 = 0) by omega,
    show ¬ (t.length + 1 < 1) by omega]
  simp only [hnok, Bool.false_eq_true, if_false, hn1]
  have hk : (Itf8.width b0).toNat - 1 ≠ 0 := by omega
  simp only [hk, if_false]
  by_cases hl : t.length = 0
  · simp only [hl, if_true]; exact ⟨_, rfl⟩
  · have : t.length < (Itf8.width b0).toNat - 1 := by omega
    simp only [hl, if_false, this, if_true]; exact ⟨_, rfl⟩

theorem stream_empty : itf8 [] = .error .eof := rfl

/-- reading an encoded number followed by anything returns the number and leaves exactly the rest -/
theorem stream_roundtrip (v : BitVec 32) (rest : List (BitVec 8)) :
    itf8 (Itf8.encode v ++ rest) = .ok (v, rest) := by
  have hne : Itf8.encode v ≠ [] := by
    intro h
    have := Itf8.encode_length v
    rw [h] at this
    have hl : 1 ≤ Itf8.len v := by unfold Itf8.len; (repeat' split) <;> omega
    simp at this; omega
  obtain ⟨b0, t, ht⟩ : ∃ b0 t, Itf8.encode v = b0 :: t := by
    cases h : Itf8.encode v with
    | nil => exact absurd h hne
    | cons a t => exact ⟨a, t, rfl⟩
  have hd := Itf8.decode_encode v
  have hl := Itf8.encode_length v
  rw [ht] at hd hl
  have hw := (Itf8.decode_fail_iff b0 t).1
  rw [hd] at hw
  simp only at hw
  have hwn : (Itf8.width b0).toNat = (b0 :: t).length := by rw [← hw, ← hl]; simp
  rw [ht, List.cons_append]
  rw [stream_consumes b0 (t ++ rest) (by rw [← hw, ← hl]; simp; omega)]
  rw [hwn, ← List.cons_append, List.take_left, List.drop_left, hd]

end Itf8S

namespace Ltf8S
open Hts.Model Hts.Model.CramStream

theorem width_pos (b0 : BitVec 8) : 1 ≤ (Ltf8.width b0).toNat ∧ ((Ltf8.width b0).toNat : Int) = Ltf8.width b0 := by
  have := Ltf8.width_range b0
  omega

/-- with at least the announced number of bytes available the stream reader returns the decoded value of
exactly that prefix and leaves the rest: it never consumes beyond the announced width and the
"failed to decode" branch is unreachable -/
theorem stream_consumes (b0 : BitVec 8) (t : List (BitVec 8))
    (h : Ltf8.width b0 ≤ ((t.length + 1 : Nat) : Int)) :
    ltf8 (b0 :: t) =
      .ok ((Ltf8.decode ((b0 :: t).take (Ltf8.width b0).toNat)).1, (b0 :: t).drop (Ltf8.width b0).toNat) := by
  have hr := Ltf8.width_range b0
  obtain ⟨hn1, hfail1⟩ := Ltf8.decode_fail_iff b0 []
  unfold ltf8 readFull
  simp only [List.length_cons, List.take_succ_cons, List.take_zero, List.drop_succ_cons, List.drop_zero]
  simp only [show (1 : Nat) ≠ 0 by omega, if_false, show ¬ (t.length + 1 = 0) by omega,
    show ¬ (t.length + 1 < 1) by omega]
  by_cases hw1 : Ltf8.width b0 = 1
  · -- one byte is the whole number
    have hok : (Ltf8.decode [b0]).2.2 = true := by
      cases hb : (Ltf8.decode [b0]).2.2 with
      | true => rfl
      | false => have := hfail1.mp hb; simp at this; omega
    have e1 : (Ltf8.width b0).toNat = 1 := by omega
    simp only [hok, if_true, e1, List.take_succ_cons, List.take_zero, List.drop_succ_cons, List.drop_zero]
  · have hnok : (Ltf8.decode [b0]).2.2 = false := hfail1.mpr (by simp; omega)
    simp only [hnok, Bool.false_eq_true, if_false, hn1]
    have hk : (Ltf8.width b0).toNat - 1 ≠ 0 := by omega
    have hlen : ¬ (t.length = 0) := by omega
    have hlen2 : ¬ (t.length < (Ltf8.width b0).toNat - 1) := by omega
    simp only [hk, if_false, hlen, hlen2]
    have htake : (b0 :: t).take (Ltf8.width b0).toNat = [b0] ++ t.take ((Ltf8.width b0).toNat - 1) := by
      obtain ⟨m, hm⟩ : ∃ m, (Ltf8.width b0).toNat = m + 1 := ⟨(Ltf8.width b0).toNat - 1, by omega⟩
      rw [hm]; simp
    have hdrop : (b0 :: t).drop (Ltf8.width b0).toNat = t.drop ((Ltf8.width b0).toNat - 1) := by
      obtain ⟨m, hm⟩ : ∃ m, (Ltf8.width b0).toNat = m + 1 := ⟨(Ltf8.width b0).toNat - 1, by omega⟩
      rw [hm]; simp
    rw [htake, hdrop]
    have hok2 : (Ltf8.decode ([b0] ++ t.take ((Ltf8.width b0).toNat - 1))).2.2 = true := by
      have hiff := (Ltf8.decode_fail_iff b0 (t.take ((Ltf8.width b0).toNat - 1))).2
      cases hb : (Ltf8.decode ([b0] ++ t.take ((Ltf8.width b0).toNat - 1))).2.2 with
      | true => rfl
      | false =>
        have h2 := hiff.mp hb
        simp only [List.length_take] at h2
        omega
    simp only [hok2, if_true]

/-- fewer bytes than announced: an error, never a value -/
theorem stream_short (b0 : BitVec 8) (t : List (BitVec 8))
    (h : ((t.length + 1 : Nat) : Int) < Ltf8.width b0) : ∃ e, ltf8 (b0 :: t) = .error e := by
  have hr := Ltf8.width_range b0
  obtain ⟨hn1, hfail1⟩ := Ltf8.decode_fail_iff b0 []
  have hnok : (Ltf8.decode [b0]).2.2 = false := hfail1.mpr (by simp; omega)
  unfold ltf8 readFull
  simp only [List.length_cons, List.take_succ_cons, List.take_zero, List.drop_succ_cons, List.drop_zero]
  simp only [show (1 : Nat) ≠ 0 by omega, if_false, show ¬ (t.length + 1 = 0) by omega,
    show ¬ (t.length + 1 < 1) by omega]
  simp only [hnok, Bool.false_eq_true, if_false, hn1]
  have hk : (Ltf8.width b0).toNat - 1 ≠ 0 := by omega
  simp only [hk, if_false]
  by_cases hl : t.length = 0
  · simp only [hl, if_true]; exact ⟨_, rfl⟩
  · have : t.length < (Ltf8.width b0).toNat - 1 := by omega
    simp only [hl, if_false, this, if_true]; exact ⟨_, rfl⟩

theorem stream_empty : ltf8 [] = .error .eof := rfl

/-- reading an encoded number followed by anything returns the number and leaves exactly the rest -/
theorem stream_roundtrip (v : BitVec 64) (rest : List (BitVec 8)) :
    ltf8 (Ltf8.encode v ++ rest) = .ok (v, rest) := by
  have hne : Ltf8.encode v ≠ [] := by
    intro h
    have := Ltf8.encode_length v
    rw [h] at this
    have hl : 1 ≤ Ltf8.len v := by unfold Ltf8.len; (repeat' split) <;> omega
    simp at this; omega
  obtain ⟨b0, t, ht⟩ : ∃ b0 t, Ltf8.encode v = b0 :: t := by
    cases h : Ltf8.encode v with
    | nil => exact absurd h hne
    | cons a t => exact ⟨a, t, rfl⟩
  have hd := Ltf8.decode_encode v
  have hl := Ltf8.encode_length v
  rw [ht] at hd hl
  have hw := (Ltf8.decode_fail_iff b0 t).1
  rw [hd] at hw
  simp only at hw
  have hwn : (Ltf8.width b0).toNat = (b0 :: t).length := by rw [← hw, ← hl]; simp
  rw [ht, List.cons_append]
  rw [stream_consumes b0 (t ++ rest) (by rw [← hw, ← hl]; simp; omega)]
  rw [hwn, ← List.cons_append, List.take_left, List.drop_left, hd]

end Ltf8S

end Hts.Lemmas.CramStream
