/-
What the readers establish: every index returned by `internal.ReadIndex` / `bam.ReadIndex` is
well-formed (`WF`): values are in the ranges the format stores, bins/chunks/tiles are sorted, the flag
says sorted.  Hence a previously read index can be written and read back (Hts.Lemmas.IndexIO).
-/
import Hts.Lemmas.IndexIO
namespace Hts.Model.IndexIO
open Hts.Model.Index

theorem rU32_spec {bs : Bytes} {n : Nat} {rest : Bytes} (h : rU32 bs = .ok (n, rest)) : n < 4294967296 := by
  unfold rU32 at h
  split at h
  · rename_i b0 b1 b2 b3 r
    simp only [Except.ok.injEq, Prod.mk.injEq] at h
    have := b0.toNat_lt; have := b1.toNat_lt; have := b2.toNat_lt; have := b3.toNat_lt
    omega
  · cases h

theorem rI32_spec {bs : Bytes} {x : Int} {rest : Bytes} (h : rI32 bs = .ok (x, rest)) :
    -2147483648 ≤ x ∧ x < 2147483648 := by
  unfold rI32 at h
  split at h
  · rename_i n r hn
    simp only [Except.ok.injEq, Prod.mk.injEq] at h
    have := rU32_spec hn
    obtain ⟨rfl, _⟩ := h
    unfold signed32
    split <;> omega
  · cases h

theorem rU64_spec {bs : Bytes} {n : Nat} {rest : Bytes} (h : rU64 bs = .ok (n, rest)) : n < 18446744073709551616 := by
  unfold rU64 at h
  split at h
  · rename_i lo r1 h1
    split at h
    · rename_i hi r2 h2
      simp only [Except.ok.injEq, Prod.mk.injEq] at h
      have := rU32_spec h1
      have := rU32_spec h2
      omega
    · cases h
  · cases h

theorem rOff_spec {bs : Bytes} {x : Int} {rest : Bytes} (h : rOff bs = .ok (x, rest)) : OffOK x := by
  unfold rOff at h
  split at h
  · rename_i n r hn
    simp only [Except.ok.injEq, Prod.mk.injEq] at h
    have := rU64_spec hn
    obtain ⟨rfl, _⟩ := h
    unfold OffOK signed64
    split <;> omega
  · cases h

theorem rep_spec {α : Type} (p : P α) (Q : α → Prop)
    (hp : ∀ bs a rest, p bs = .ok (a, rest) → Q a) :
    ∀ (n : Nat) (bs : Bytes) (xs : List α) (rest : Bytes), rep p n bs = .ok (xs, rest) →
      xs.length = n ∧ ∀ x, x ∈ xs → Q x := by
  intro n
  induction n with
  | zero =>
    intro bs xs rest h
    simp only [rep, Except.ok.injEq, Prod.mk.injEq] at h
    obtain ⟨rfl, _⟩ := h
    exact ⟨rfl, by intro x hx; cases hx⟩
  | succ n ih =>
    intro bs xs rest h
    unfold rep at h
    split at h
    · rename_i a r1 h1
      split at h
      · rename_i as r2 h2
        simp only [Except.ok.injEq, Prod.mk.injEq] at h
        obtain ⟨rfl, _⟩ := h
        obtain ⟨hl, hq⟩ := ih r1 as r2 h2
        refine ⟨by simp [hl], ?_⟩
        intro x hx
        rcases List.mem_cons.1 hx with rfl | hx
        · exact hp _ _ _ h1
        · exact hq x hx
      · cases h
    · cases h

theorem counted_spec {α : Type} (p : P α) (Q : α → Prop)
    (hp : ∀ bs a rest, p bs = .ok (a, rest) → Q a) (n : Int) (bs : Bytes) (xs : List α) (rest : Bytes)
    (h : counted n p bs = .ok (xs, rest)) : 0 ≤ n ∧ (xs.length : Int) = n ∧ ∀ x, x ∈ xs → Q x := by
  unfold counted at h
  split at h
  · cases h
  · obtain ⟨hl, hq⟩ := rep_spec p Q hp _ _ _ _ h
    exact ⟨by omega, by omega, hq⟩

theorem rChunk_spec {bs : Bytes} {c : Chunk} {rest : Bytes} (h : rChunk bs = .ok (c, rest)) :
    OffOK c.b ∧ OffOK c.e := by
  unfold rChunk at h
  split at h
  · rename_i b r1 h1
    split at h
    · rename_i e r2 h2
      simp only [Except.ok.injEq, Prod.mk.injEq] at h
      obtain ⟨rfl, _⟩ := h
      exact ⟨rOff_spec h1, rOff_spec h2⟩
    · cases h
  · cases h

theorem rChunks_spec {n : Int} (hn : n < 2147483648) {bs : Bytes} {cs : List Chunk} {rest : Bytes}
    (h : rChunks n bs = .ok (cs, rest)) :
    cs.length < 2147483648 ∧ (∀ c, c ∈ cs → OffOK c.b ∧ OffOK c.e) ∧ cs.Pairwise (fun a b => leChunk a b = true) := by
  unfold rChunks at h
  split at h
  · simp only [Except.ok.injEq, Prod.mk.injEq] at h
    obtain ⟨rfl, _⟩ := h
    exact ⟨by simp, (by intro c hc; cases hc), List.Pairwise.nil⟩
  · split at h
    · rename_i cs0 r1 h1
      simp only [Except.ok.injEq, Prod.mk.injEq] at h
      obtain ⟨rfl, _⟩ := h
      obtain ⟨_, hl, hq⟩ := counted_spec rChunk (fun c => OffOK c.b ∧ OffOK c.e)
        (fun _ _ _ hh => rChunk_spec hh) _ _ _ _ h1
      refine ⟨?_, ?_, List.pairwise_mergeSort leChunk_trans leChunk_total _⟩
      · unfold sortChunks; rw [(List.mergeSort_perm _ _).length_eq]; omega
      · intro c hc; exact hq c (mem_sortChunks.1 hc)
    · cases h

theorem rStatsBody_spec {bs : Bytes} {s : Stats} {rest : Bytes} (h : rStatsBody bs = .ok (s, rest)) :
    OffOK s.chunk.b ∧ OffOK s.chunk.e ∧ s.mapped < 18446744073709551616 ∧ s.unmapped < 18446744073709551616 := by
  unfold rStatsBody at h
  split at h
  · rename_i c r1 h1
    split at h
    · rename_i m r2 h2
      split at h
      · rename_i u r3 h3
        simp only [Except.ok.injEq, Prod.mk.injEq] at h
        obtain ⟨rfl, _⟩ := h
        exact ⟨(rChunk_spec h1).1, (rChunk_spec h1).2, rU64_spec h2, rU64_spec h3⟩
      · cases h
    · cases h
  · cases h

/-- a bin as the reader leaves it -/
def BinRead (dummy : Nat) (b : Bin) : Prop :=
  b.bin < 4294967296 ∧ b.bin ≠ dummy ∧ b.chunks.length < 2147483648 ∧
    (∀ c, c ∈ b.chunks → OffOK c.b ∧ OffOK c.e) ∧ b.chunks.Pairwise (fun a b => leChunk a b = true)

def StatsRead (s : Stats) : Prop :=
  OffOK s.chunk.b ∧ OffOK s.chunk.e ∧ s.mapped < 18446744073709551616 ∧ s.unmapped < 18446744073709551616

theorem rBinLoop_spec (dummy : Nat) : ∀ (k : Nat) (acc : List Bin) (st : Option Stats) (bs : Bytes)
    (bins : List Bin) (st' : Option Stats) (rest : Bytes),
    rBinLoop dummy k acc st bs = .ok ((bins, st'), rest) →
    (∀ b, b ∈ acc → BinRead dummy b) → (∀ s, st = some s → StatsRead s) →
    (∀ b, b ∈ bins → BinRead dummy b) ∧ (∀ s, st' = some s → StatsRead s) ∧
      bins.length + (if st'.isSome then 1 else 0) ≤ acc.length + (if st.isSome then 1 else 0) + k := by
  intro k
  induction k with
  | zero =>
    intro acc st bs bins st' rest h hacc hst
    simp only [rBinLoop, Except.ok.injEq, Prod.mk.injEq] at h
    obtain ⟨⟨rfl, rfl⟩, _⟩ := h
    exact ⟨fun b hb => hacc b (List.mem_reverse.1 hb), hst, by simp⟩
  | succ k ih =>
    intro acc st bs bins st' rest h hacc hst
    unfold rBinLoop at h
    split at h
    · cases h
    · rename_i bin r1 h1
      split at h
      · cases h
      · rename_i n r2 h2
        split at h
        · split at h
          · cases h
          · split at h
            · cases h
            · rename_i s r3 h3
              obtain ⟨g1, g2, g3⟩ := ih acc (some s) r3 bins st' rest h hacc
                (by intro s' hs'; cases hs'; exact rStatsBody_spec h3)
              refine ⟨g1, g2, ?_⟩
              simp only [Option.isSome_some, if_true] at g3
              omega
        · rename_i hne
          split at h
          · cases h
          · rename_i cs r3 h3
            have hn := (rI32_spec h2).2
            obtain ⟨c1, c2, c3⟩ := rChunks_spec hn h3
            obtain ⟨g1, g2, g3⟩ := ih (⟨bin, cs⟩ :: acc) st r3 bins st' rest h
              (by
                intro b hb
                rcases List.mem_cons.1 hb with rfl | hb
                · exact ⟨rU32_spec h1, hne, c1, c2, c3⟩
                · exact hacc b hb)
              hst
            refine ⟨g1, g2, ?_⟩
            simp only [List.length_cons] at g3
            omega

theorem rBins_spec {bs : Bytes} {bins : List Bin} {st : Option Stats} {rest : Bytes}
    (h : rBins bs = .ok ((bins, st), rest)) :
    (∀ b, b ∈ bins → BinRead statsDummyBin b) ∧ (∀ s, st = some s → StatsRead s) ∧
      bins.length + (if st.isSome then 1 else 0) < 2147483648 ∧ bins.Pairwise (fun a b => leBin a b = true) := by
  unfold rBins at h
  split at h
  · cases h
  · rename_i n r1 h1
    split at h
    · simp only [Except.ok.injEq, Prod.mk.injEq] at h
      obtain ⟨⟨rfl, rfl⟩, _⟩ := h
      exact ⟨(by intro b hb; cases hb), (by intro s hs; cases hs), by simp, List.Pairwise.nil⟩
    · split at h
      · cases h
      · split at h
        · cases h
        · rename_i bins0 st0 r2 h2
          simp only [Except.ok.injEq, Prod.mk.injEq] at h
          obtain ⟨⟨rfl, rfl⟩, _⟩ := h
          obtain ⟨g1, g2, g3⟩ := rBinLoop_spec statsDummyBin _ [] none r1 bins0 _ r2 h2
            (by intro b hb; cases hb) (by intro s hs; cases hs)
          have hn := (rI32_spec h1).2
          refine ⟨?_, g2, ?_, List.pairwise_mergeSort leBin_trans leBin_total _⟩
          · intro b hb
            exact g1 b ((List.mergeSort_perm bins0 leBin).mem_iff.1 hb)
          · rw [(List.mergeSort_perm bins0 leBin).length_eq]
            simp only [List.length_nil, Option.isSome_none, Bool.false_eq_true, if_false] at g3
            omega

theorem rIntervals_spec {bs : Bytes} {ivs : List Int} {rest : Bytes} (h : rIntervals bs = .ok (ivs, rest)) :
    ivs.length < 2147483648 ∧ (∀ v, v ∈ ivs → OffOK v) ∧ ivs.Pairwise (fun a b => leOff a b = true) := by
  unfold rIntervals at h
  split at h
  · cases h
  · rename_i n r1 h1
    split at h
    · simp only [Except.ok.injEq, Prod.mk.injEq] at h
      obtain ⟨rfl, _⟩ := h
      exact ⟨by simp, (by intro v hv; cases hv), List.Pairwise.nil⟩
    · split at h
      · rename_i os r2 h2
        simp only [Except.ok.injEq, Prod.mk.injEq] at h
        obtain ⟨rfl, _⟩ := h
        obtain ⟨_, hl, hq⟩ := counted_spec rOff OffOK (fun _ _ _ hh => rOff_spec hh) _ _ _ _ h2
        have hn := (rI32_spec h1).2
        refine ⟨?_, ?_, List.pairwise_mergeSort leOff_trans leOff_total _⟩
        · rw [(List.mergeSort_perm _ _).length_eq]; omega
        · intro v hv; exact hq v ((List.mergeSort_perm os leOff).mem_iff.1 hv)
      · cases h

theorem rRef_spec {bs : Bytes} {r : RefIndex} {rest : Bytes} (h : rRef bs = .ok (r, rest)) :
    RefBounds r ∧ RefSorted r := by
  unfold rRef at h
  split at h
  · cases h
  · rename_i bins st r1 h1
    split at h
    · cases h
    · rename_i ivs r2 h2
      simp only [Except.ok.injEq, Prod.mk.injEq] at h
      obtain ⟨rfl, _⟩ := h
      obtain ⟨b1, b2, b3, b4⟩ := rBins_spec h1
      obtain ⟨i1, i2, i3⟩ := rIntervals_spec h2
      exact ⟨{ nb := b3
               bins := fun b hb => ⟨(b1 b hb).1, (b1 b hb).2.1, (b1 b hb).2.2.1, (b1 b hb).2.2.2.1⟩
               stats := b2
               ivlen := i1
               ivs := i2 },
             { bins := b4, chunks := fun b hb => (b1 b hb).2.2.2.2, ivs := i3 }⟩

/-- every index returned by `internal.ReadIndex` is well-formed -/
theorem rIndex_wf {n : Int} (hn : n < 2147483648) {bs : Bytes} {i : Index} (h : rIndex n bs = .ok i) :
    WF i ∧ (i.refs.length : Int) = n := by
  unfold rIndex at h
  split at h
  · cases h
  · rename_i refs r1 h1
    split at h
    · cases h
    · rename_i um hum
      simp only [Except.ok.injEq] at h
      subst h
      obtain ⟨_, hl, hq⟩ := counted_spec rRef (fun r => RefBounds r ∧ RefSorted r)
        (fun _ _ _ hh => rRef_spec hh) _ _ _ _ h1
      refine ⟨{ nrefs := by simp only; omega
                bounds := fun r hr => (hq r hr).1
                flag := fun _ r hr => (hq r hr).2
                um := ?_ }, hl⟩
      intro m hm
      simp only at hm
      subst hm
      unfold rUnmapped at hum
      split at hum
      · cases hum
      · split at hum
        · rename_i k r2 h2
          simp only [Except.ok.injEq, Option.some.injEq] at hum
          subst hum
          exact rU64_spec h2
        · cases hum

/-- `bam.ReadIndex`: whatever bytes it accepts, the index it returns is well-formed -/
theorem readBai_wf {bs : Bytes} {i : Index} (h : readBai bs = .ok i) : WF i := by
  unfold readBai at h
  split at h
  · cases h
  · rename_i m r1 _
    split at h
    · cases h
    · split at h
      · cases h
      · rename_i n r2 h2
        exact (rIndex_wf (rI32_spec h2).2 h).1

end Hts.Model.IndexIO
