/-
Audit M-7: the uncached baseline of C03 (`Hts.Model.CachedReader` with `cache = none`) and the reader model
of C02 (`Hts.Model.Bgzf.Reader`, which C02 proves refines the flat-file specification) are two
independently written models of the same Go code.  They are NOT related by a general theorem; this file pins
their agreement by kernel evaluation on ALL histories up to length 3 over an alphabet of Read / ReadByte /
Seek (member starts, offsets inside a member, the end of the file, an offset that is no member start) /
Blocked on two files (three data members without EOF marker; data, empty member, data, EOF marker):
bytes, error class and LastChunk of every call coincide.  Beyond that bound the two models are tied
only through the Go reader (each is compared with it by its own harness).
-/
import Hts.Model.CachedReader
import Hts.Model.BgzfReader
namespace Hts.Model.CachedReader.VsC02
open Hts.Model.Cache Hts.Spec.CacheContract Hts.Model.CachedReader

/-- the uncached run of the C03 model from `NewReader` -/
def outputs03 (f : File) (ops : List (Op LCache)) : Except Fault (List Out) :=
  match newReader lruOps Cfg.repaired f with
  | .error e => .error e
  | .ok (r, e) =>
    if e ≠ .none then .ok []
    else match run Cfg.repaired lruOps f r ops with
      | .error e => .error e
      | .ok (_, outs) => .ok outs

/-- the C02 file of a C03 file -/
def toB (f : File) : Hts.Model.Bgzf.File := f.map (fun m => ⟨m.data.map UInt8.ofNat, m.size.toNat⟩)

inductive UOp | read (n : Nat) | readByte | seek (file blk : Nat) | setBlocked (b : Bool)
deriving DecidableEq, Repr

def UOp.c03 : UOp → Op LCache
  | .read n => .read n | .readByte => .readByte | .seek f b => .seek f b | .setBlocked b => .setBlocked b
def UOp.c02 : UOp → Hts.Spec.Flat.Op
  | .read n => .read n | .readByte => .readByte | .seek f b => .seek ⟨f, b⟩ | .setBlocked b => .setBlocked b

abbrev Obs := List Nat × ErrClass × (Int × Nat) × (Int × Nat)

def obs03 (o : Out) : Obs := (o.bytes, o.err, o.chunk.1, o.chunk.2)

def cls : Option Hts.Model.Bgzf.Err → Option ErrClass
  | none => some .ok | some .eof => some .eof | some .other => some .err | some .unexpectedEOF => some .err
  | _ => none

def obs02 (isByte : Bool) (p : Hts.Model.Bgzf.Out × Hts.Model.Bgzf.Reader) : Option Obs :=
  (cls p.1.err).map (fun e =>
    ((if isByte && e != .ok then [] else p.1.bytes.map UInt8.toNat), e,
      ((p.2.lastChunk.bgn.file : Int), p.2.lastChunk.bgn.block), ((p.2.lastChunk.fin.file : Int), p.2.lastChunk.fin.block)))

def run03 (f : File) (ops : List UOp) : Option (List Obs) :=
  match outputs03 f (ops.map UOp.c03) with
  | .ok outs => some (outs.map obs03)
  | .error _ => none

def run02 (f : File) (ops : List UOp) : Option (List Obs) :=
  match Hts.Model.Bgzf.Reader.new (toB f) with
  | .ok r => ((r.run (ops.map UOp.c02)).zip ops).mapM (fun (p, op) => obs02 (op == .readByte) p)
  | .error _ => none

def alphabet : List UOp :=
  [.read 1, .read 4, .read 7, .readByte, .seek 0 0, .seek 35 2, .seek 70 0, .seek 70 4, .seek 106 0, .seek 10 0, .setBlocked true, .setBlocked false]


def fileA : File := [⟨0, 35, [65, 65, 65, 65, 65, 65]⟩, ⟨35, 35, [66, 66, 66, 66, 66, 66]⟩, ⟨70, 36, [67, 67, 67, 67]⟩]
def fileB : File := [⟨0, 30, [1, 2]⟩, ⟨30, 28, []⟩, ⟨58, 30, [3, 4, 5]⟩, ⟨88, 28, []⟩]

def alphabetB : List UOp :=
  [.read 1, .read 4, .readByte, .seek 0 1, .seek 30 0, .seek 58 2, .seek 88 0, .seek 116 0, .seek 5 0,
   .setBlocked true, .setBlocked false]

def histsOver (al : List UOp) : Nat → List (List UOp)
  | 0 => [[]]
  | n + 1 => (histsOver al n).flatMap (fun h => al.map (fun a => a :: h))

def agreeOver (al : List UOp) (f : File) (n : Nat) : Bool :=
  (histsOver al n).all (fun h => run03 f h == run02 f h && (run03 f h).isSome)

theorem agree_fileA : agreeOver alphabet fileA 3 = true := by decide +kernel
theorem agree_fileB : agreeOver alphabetB fileB 3 = true := by decide +kernel

end Hts.Model.CachedReader.VsC02
