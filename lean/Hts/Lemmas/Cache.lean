/-
Basic facts about the cache model: key look-up, well-formedness (capacity ≥ 1, keys pairwise distinct),
`Len ≤ Cap`, refusal of unused blocks, post-conditions of Drop / Resize / Free.
-/
import Hts.Model.Cache
namespace Hts.Model.Cache

/-- the table has one node per key -/
def KeysNodup (items : List Entry) : Prop := items.Pairwise (fun a b => a.key ≠ b.key)

theorem hasKey_false {items : List Entry} {k : Int} :
    hasKey items k = false ↔ ∀ e ∈ items, e.key ≠ k := by
  simp [hasKey]

theorem hasKey_true {items : List Entry} {k : Int} :
    hasKey items k = true ↔ ∃ e ∈ items, e.key = k := by
  simp [hasKey]

theorem lookup_some {items : List Entry} {k : Int} {e : Entry} (h : lookup items k = some e) :
    e ∈ items ∧ e.key = k := by
  unfold lookup at h
  have h1 := List.mem_of_find?_eq_some h
  have h2 := List.find?_some h
  simp at h2
  exact ⟨h1, h2⟩

theorem lookup_none {items : List Entry} {k : Int} (h : lookup items k = none) :
    ∀ e ∈ items, e.key ≠ k := by
  unfold lookup at h
  simpa using h

theorem lookup_of_mem {items : List Entry} (hn : KeysNodup items) {e : Entry} (he : e ∈ items) :
    lookup items e.key = some e := by
  induction items with
  | nil => cases he
  | cons a t ih =>
    unfold lookup
    rw [List.find?_cons]
    by_cases hk : a.key = e.key
    · have : (a.key == e.key) = true := by simp [hk]
      rw [this]
      rcases List.mem_cons.1 he with h | h
      · rw [h]
      · exact absurd hk ((List.pairwise_cons.1 hn).1 e h)
    · have : (a.key == e.key) = false := by simp [hk]
      rw [this]
      rcases List.mem_cons.1 he with h | h
      · exact absurd (by rw [h]) hk
      · exact ih (List.pairwise_cons.1 hn).2 h

theorem mem_removeKey {items : List Entry} {k : Int} {e : Entry} :
    e ∈ removeKey items k ↔ e ∈ items ∧ e.key ≠ k := by
  simp [removeKey]

theorem removeKey_length_le (items : List Entry) (k : Int) : (removeKey items k).length ≤ items.length :=
  List.length_filter_le _ _

theorem removeKey_length_lt {items : List Entry} {k : Int} {e : Entry} (he : e ∈ items) (hk : e.key = k) :
    (removeKey items k).length < items.length := by
  unfold removeKey
  apply List.length_filter_lt_length_iff_exists.2
  exact ⟨e, he, by simp [hk]⟩

theorem KeysNodup.sublist {a b : List Entry} (h : KeysNodup b) (s : List.Sublist a b) : KeysNodup a :=
  List.Pairwise.sublist s h

theorem KeysNodup.removeKey {items : List Entry} (h : KeysNodup items) (k : Int) :
    KeysNodup (removeKey items k) :=
  h.sublist List.filter_sublist

theorem KeysNodup.dropLast {items : List Entry} (h : KeysNodup items) : KeysNodup items.dropLast :=
  h.sublist (List.dropLast_sublist _)

theorem KeysNodup.take {items : List Entry} (h : KeysNodup items) (n : Nat) : KeysNodup (items.take n) :=
  h.sublist (List.take_sublist _ _)

theorem KeysNodup.filter {items : List Entry} (h : KeysNodup items) (p : Entry → Bool) :
    KeysNodup (items.filter p) :=
  h.sublist List.filter_sublist

theorem KeysNodup.cons {items : List Entry} (h : KeysNodup items) {e : Entry}
    (hk : hasKey items e.key = false) : KeysNodup (e :: items) := by
  refine List.pairwise_cons.2 ⟨?_, h⟩
  intro a ha heq
  exact (hasKey_false.1 hk) a ha heq.symm

theorem KeysNodup.snoc {items : List Entry} (h : KeysNodup items) {e : Entry}
    (hk : hasKey items e.key = false) : KeysNodup (items ++ [e]) := by
  refine List.pairwise_append.2 ⟨h, List.pairwise_singleton _ _, ?_⟩
  intro a ha b hb
  simp at hb
  subst hb
  exact (hasKey_false.1 hk) a ha

theorem dropBack_sublist (items : List Entry) (n : Int) : List.Sublist (dropBack items n) items := by
  unfold dropBack
  split
  · exact List.Sublist.refl _
  · exact List.take_sublist _ _

theorem dropBack_length (items : List Entry) (n : Int) :
    ((dropBack items n).length : Int) = items.length - min (max n 0) items.length := by
  unfold dropBack
  split
  · omega
  · simp [List.length_take]; omega

theorem hasKey_sublist {a b : List Entry} (s : List.Sublist a b) {k : Int} (h : hasKey b k = false) :
    hasKey a k = false := by
  rw [hasKey_false] at *
  intro e he
  exact h e (s.subset he)

/-! ### LRU / FIFO: well-formedness and `Len ≤ Cap` -/

namespace LCache

/-- capacity at least 1, at most `cap` blocks, one node per key -/
structure WF (c : LCache) : Prop where
  cap_pos : 1 ≤ c.cap
  len_le : (c.items.length : Int) ≤ c.cap
  nodup : KeysNodup c.items

theorem wf_new {n : Int} (h : 1 ≤ n) : (new n).WF := ⟨h, by simp [new]; omega, List.Pairwise.nil⟩

theorem put_wf {h : Heap} {c : LCache} (w : c.WF) (id : Nat) : (c.put h id).1.WF := by
  unfold put
  simp only
  split
  · exact w
  · rename_i hk
    have hk' : hasKey c.items (h id).base = false := by simpa using hk
    split
    · rename_i hfull
      split
      · exact w
      · cases hl : c.items.getLast? with
        | none => exact w
        | some d =>
          simp only
          refine ⟨w.cap_pos, ?_, ?_⟩
          · have : c.items ≠ [] := by intro h0; simp [h0] at hl
            simp [List.length_dropLast]
            have : c.items.length ≠ 0 := by simpa using this
            omega
          · exact KeysNodup.cons w.nodup.dropLast
              (hasKey_sublist (List.dropLast_sublist _) hk')
    · rename_i hnf
      have hlt : (c.items.length : Int) < c.cap := by have := w.len_le; omega
      split
      · exact ⟨w.cap_pos, by simp; omega, KeysNodup.cons w.nodup hk'⟩
      · exact ⟨w.cap_pos, by simp; omega, KeysNodup.snoc w.nodup hk'⟩

theorem put_no_panic {h : Heap} {c : LCache} (w : c.WF) (id : Nat) : (c.put h id).2 ≠ .panic := by
  unfold put
  simp only
  split
  · simp
  · split
    · rename_i hfull
      split
      · simp
      · cases hl : c.items.getLast? with
        | none =>
          have : c.items = [] := by simpa using hl
          have h1 := w.cap_pos
          simp [this] at hfull
          omega
        | some d => simp
    · split <;> simp

theorem get_wf {kind : Kind} {h : Heap} {c : LCache} (w : c.WF) (k : Int) : (c.get kind h k).1.WF := by
  unfold get
  split
  · exact w
  · split
    · exact w
    · exact ⟨w.cap_pos, by have := removeKey_length_le c.items k; have := w.len_le; simp only; omega,
        w.nodup.removeKey k⟩

theorem drop_wf {c : LCache} (w : c.WF) (n : Int) : (c.drop n).WF := by
  refine ⟨w.cap_pos, ?_, w.nodup.sublist (dropBack_sublist _ _)⟩
  have := dropBack_length c.items n
  have := w.len_le
  simp only [drop]
  omega

theorem resize_wf {c : LCache} (w : c.WF) {n : Int} (hn : 1 ≤ n) : (c.resize n).WF := by
  unfold resize
  split
  · refine ⟨hn, ?_, w.nodup.sublist (dropBack_sublist _ _)⟩
    have := dropBack_length c.items (c.items.length - n)
    simp only
    omega
  · exact ⟨hn, by simp only; omega, w.nodup⟩

theorem free_wf {c : LCache} (w : c.WF) (n : Int) : (c.free n).1.WF := by
  unfold free
  simp only
  split
  · exact w
  · exact drop_wf w _

/-- a full cache refuses an unused block and is unchanged -/
theorem full_refuses_unused (h : Heap) (c : LCache) (id : Nat)
    (hfull : c.len = c.cap) (hu : (h id).used = false) : c.put h id = (c, .refused) := by
  unfold put
  simp only [len] at hfull
  simp [hfull, hu]

/-- `Drop(n)`: capacity unchanged, exactly `min n len` blocks leave (none for `n ≤ 0`) -/
theorem drop_post (c : LCache) (n : Int) :
    (c.drop n).cap = c.cap ∧ (c.drop n).len = c.len - min (max n 0) c.len := by
  simp only [drop, len]
  exact ⟨trivial, dropBack_length _ _⟩

/-- `Resize(n)`: capacity is `n`, and the cache holds `min len n` blocks (for `n ≥ 0`) -/
theorem resize_post (c : LCache) (n : Int) (hn : 0 ≤ n) :
    (c.resize n).cap = n ∧ (c.resize n).len = min c.len n := by
  unfold resize
  split
  · refine ⟨rfl, ?_⟩
    have := dropBack_length c.items (c.items.length - n)
    simp only [len]
    omega
  · exact ⟨rfl, by simp only [len]; omega⟩

/-- `Free(n, c)` on a well-formed cache: succeeds exactly when `n ≤ cap`, never changes the capacity,
leaves at least `n` free slots on success, and drops no more blocks than needed -/
theorem free_post {c : LCache} (w : c.WF) (n : Int) :
    (c.free n).1.cap = c.cap ∧
    ((c.free n).2 = true ↔ n ≤ c.cap) ∧
    ((c.free n).2 = true → n ≤ (c.free n).1.cap - (c.free n).1.len) ∧
    (c.free n).1.len = c.len - min (max (n - (c.cap - c.len)) 0) c.len := by
  have hl := w.len_le
  by_cases h1 : n ≤ c.cap - c.len
  · have : c.free n = (c, true) := by unfold free; simp only; rw [if_pos h1]
    rw [this]
    simp only [len] at *
    refine ⟨trivial, ?_, ?_, ?_⟩
    · simp; omega
    · intro _; omega
    · omega
  · have : c.free n = (c.drop (n - (c.cap - c.len)),
        decide ((c.drop (n - (c.cap - c.len))).cap - (c.drop (n - (c.cap - c.len))).len ≥ n)) := by
      unfold free; simp only; rw [if_neg h1]
    rw [this]
    have hd := (drop_post c (n - (c.cap - c.len))).2
    have hc := (drop_post c (n - (c.cap - c.len))).1
    have hl' : c.len ≤ c.cap := hl
    have h0 : 0 ≤ c.len := by simp [len]
    generalize (c.drop (n - (c.cap - c.len))) = c' at *
    generalize c.len = L at *
    generalize c'.len = L' at *
    refine ⟨hc, ?_, ?_, hd⟩
    · simp only [decide_eq_true_eq]; omega
    · simp only [decide_eq_true_eq]; omega

end LCache

/-! ### Random -/

namespace RCache

structure WF (c : RCache) : Prop where
  cap_pos : 1 ≤ c.cap
  len_le : (c.items.length : Int) ≤ c.cap
  nodup : KeysNodup c.items

theorem wf_new {n : Int} (h : 1 ≤ n) : (new n).WF := ⟨h, by simp [new]; omega, List.Pairwise.nil⟩

theorem put_wf {h : Heap} {c c' : RCache} (w : c.WF) {id : Nat} {hint : Option Nat} {r : PutRes}
    (hp : c.put h id hint = some (c', r)) : c'.WF := by
  unfold put at hp
  simp only at hp
  split at hp
  · cases hp; exact w
  · rename_i hk
    have hk' : hasKey c.items (h id).base = false := by simpa using hk
    split at hp
    · rename_i hfull
      split at hp
      · cases hp; exact w
      · split at hp
        · rename_i he
          have : c.items = [] := by simpa using he
          have := w.cap_pos
          simp_all
          omega
        · split at hp
          · cases hp
          · split at hp
            · cases hp
            · rename_i v e hf
              split at hp
              · cases hp
              · cases hp
                have hmem := List.mem_of_find?_eq_some hf
                refine ⟨w.cap_pos, ?_, ?_⟩
                · have := removeKey_length_lt hmem rfl
                  simp only [List.length_cons]
                  omega
                · exact KeysNodup.cons (w.nodup.removeKey _)
                    (hasKey_sublist List.filter_sublist hk')
    · rename_i hnf
      cases hp
      have := w.len_le
      exact ⟨w.cap_pos, by simp only [List.length_cons]; omega, KeysNodup.cons w.nodup hk'⟩

theorem put_no_panic {h : Heap} {c c' : RCache} {id : Nat} {hint : Option Nat}
    : c.put h id hint ≠ some (c', .panic) := by
  unfold put
  simp only
  intro hp
  repeat' split at hp
  all_goals simp_all

theorem get_wf {c : RCache} (w : c.WF) (k : Int) : (c.get k).1.WF := by
  unfold get
  split
  · exact w
  · exact ⟨w.cap_pos, by have := removeKey_length_le c.items k; have := w.len_le; simp only; omega,
      w.nodup.removeKey k⟩

theorem full_refuses_unused (h : Heap) (c : RCache) (id : Nat) (hint : Option Nat)
    (hfull : c.len = c.cap) (hu : (h id).used = false) : c.put h id hint = some (c, .refused) := by
  unfold put
  simp only [len] at hfull
  simp [hfull, hu]

end RCache

end Hts.Model.Cache
