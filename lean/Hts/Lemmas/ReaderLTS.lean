/-
Invariant of the read-ahead protocol (Model/ReaderLTS.lean) on paths without `Seek`: the blocks in flight
are consecutive members of the file starting at the base the consumer expects; decompressors are conserved.
-/
import Hts.Model.ReaderLTS
namespace Hts.Model.ReadAhead

/-- `bs` are consecutive blocks of the file starting at base `e`, and `nx` is what follows them. -/
def IsChain (chain : Chain) : Option Nat → List Blk → Option Nat → Prop
  | e, [], nx => nx = e
  | e, b :: bs, nx => e = some b.base ∧ b.next = chain b.base ∧ IsChain chain b.next bs nx

theorem isChain_append {chain : Chain} {e : Option Nat} {bs : List Blk} {v : Nat}
    (h : IsChain chain e bs (some v)) : IsChain chain e (bs ++ [⟨v, chain v⟩]) (chain v) := by
  induction bs generalizing e with
  | nil => simp only [IsChain] at h; subst h; exact ⟨rfl, rfl, rfl⟩
  | cons b bs ih => exact ⟨h.1, h.2.1, ih h.2.2⟩

/-- Invariant of the protocol as long as no `Seek` is made. -/
structure Inv (chain : Chain) (rd : Nat) (s : St) : Prop where
  rd_eq : s.rd = rd
  control : s.control = none
  chain_ : IsChain chain s.cur.next (pipeline s) (wnext s)
  count : s.waiting + s.working.length + held s = rd
  cons : s.cons = .idle ∨ ∃ i, s.cons = .scan i ∧ i = 0 ∧ s.cur.next ≠ none

def noSeek (l : Label) : Bool := !l.isSeek

theorem inv_init (chain : Chain) (rd : Nat) : Inv chain rd (init chain rd) :=
  ⟨rfl, rfl, rfl, by simp [init, held], Or.inl rfl⟩

theorem inv_step {chain : Chain} {rd : Nat} {s t : St} {l : Label} (h : Inv chain rd s)
    (hl : noSeek l = true) (hs : Step chain s l t) : Inv chain rd t := by
  obtain ⟨hrd, hctl, hch, hcnt, hcons⟩ := h
  cases hs with
  | wTake nx h1 h2 =>
    refine ⟨hrd, hctl, ?_, ?_, hcons⟩
    · simpa [pipeline, wnext, h1, Worker.pending, Worker.next] using hch
    · simp only [held, h1] at hcnt ⊢; omega
  | wRedirect nx v h1 h2 => rw [hctl] at h2; cases h2
  | wRead b h1 h2 =>
    refine ⟨hrd, hctl, ?_, ?_, hcons⟩
    · simp only [pipeline, wnext, h1, Worker.pending, Worker.next, List.append_nil] at hch ⊢
      exact isChain_append hch
    · simp only [held, h1] at hcnt ⊢; omega
  | wPush b h1 h2 =>
    refine ⟨hrd, hctl, ?_, ?_, hcons⟩
    · simpa [pipeline, wnext, h1, Worker.pending, Worker.next] using hch
    · simp only [held, h1, List.length_append, List.length_singleton] at hcnt ⊢; omega
  | cNext e h1 h2 =>
    refine ⟨hrd, hctl, hch, ?_, Or.inr ⟨0, rfl, rfl, by rw [h2]; simp⟩⟩
    simp only [held, h1] at hcnt ⊢; omega
  | cRecv i b rest h1 h2 h3 =>
    -- the first block received is the expected one
    have hb : s.cur.next = some b.base ∧ b.next = chain b.base ∧
        IsChain chain b.next (rest ++ s.worker.pending) (wnext s) := by
      simpa [pipeline, h2, IsChain] using hch
    simp only [hb.1, if_true]
    refine ⟨hrd, hctl, ?_, ?_, Or.inl rfl⟩
    · simpa [pipeline, wnext] using hb.2.2
    · simp only [held, h1, h2, List.length_cons] at hcnt ⊢; omega
  | cSeekFast h1 => simp [noSeek, Label.isSeek] at hl
  | cSeekWaiting off h1 h2 => simp [noSeek, Label.isSeek] at hl
  | cSeekWorking off b rest h1 h2 => simp [noSeek, Label.isSeek] at hl
  | cSeekMatchSend h1 h2 => simp [noSeek, Label.isSeek] at hl
  | cSeekSync off h1 => simp [noSeek, Label.isSeek] at hl
  | cSeekSend h1 h2 => simp [noSeek, Label.isSeek] at hl

theorem inv_reach {chain : Chain} {rd : Nat} {s : St} (h : Reach chain rd noSeek s) : Inv chain rd s := by
  induction h with
  | init => exact inv_init chain rd
  | step s t l _ hl hs ih => exact inv_step ih hl hs

/-- While the consumer waits in `nextBlock`, some thread can move. -/
theorem scan_can_step {chain : Chain} {rd : Nat} (hrd : 1 ≤ rd) {s : St} (h : Inv chain rd s) (i : Nat)
    (hc : s.cons = .scan i) : ∃ l t, noSeek l = true ∧ Step chain s l t := by
  obtain ⟨hrd', hctl, hch, hcnt, hcons⟩ := h
  rcases hcons with hidle | ⟨j, hj, hj0, hne⟩
  · rw [hc] at hidle; cases hidle
  · cases hw : s.working with
    | cons b rest =>
      refine ⟨.cRecv, _, rfl, Step.cRecv s j b rest hj hw ?_⟩
      rw [hw] at hcnt; simp at hcnt; omega
    | nil =>
      cases hwk : s.worker with
      | idle nx =>
        refine ⟨.wTake, _, rfl, Step.wTake s nx hwk ?_⟩
        simp only [held, hwk, hj, hw, List.length_nil] at hcnt; omega
      | «have» nx =>
        cases nx with
        | some b => exact ⟨.wRead, _, rfl, Step.wRead s b hwk hctl⟩
        | none =>
          exfalso
          simp only [pipeline, hw, hwk, Worker.pending, wnext, Worker.next, List.append_nil, IsChain] at hch
          exact hne hch.symm
      | push b =>
        refine ⟨.wPush, _, rfl, Step.wPush s b hwk ?_⟩
        rw [hw]; simp; omega

end Hts.Model.ReadAhead
