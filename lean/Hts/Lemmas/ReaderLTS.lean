/-
Read-ahead protocol (Model/ReaderLTS.lean): blocks as results of loads, positions along the file, chains.
-/
import Hts.Model.ReaderLTS
namespace Hts.Model.ReadAhead

/-- split a hypothesis `h : xxxStep … = some (e, t)` (already unfolded) into its branches -/
macro "step_cases" h:ident : tactic =>
  `(tactic| (repeat' (split at $h:ident)) <;>
      first
        | (cases $h:ident; done)
        | (simp only [Option.some.injEq, Prod.mk.injEq] at $h:ident; obtain ⟨h1, h2⟩ := $h:ident; subst h1 h2)
        | skip)

/-- A block is what a load at its base can return: the member there, or a failure. -/
def WFBlk (chain : Chain) (b : Blk) : Prop :=
  match b.base with
  | some t => b.next = chain t ∨ b.next = none
  | none => b.next = none

/-- `d` members further along the file. -/
def adv (chain : Chain) : Nat → Option Nat → Option Nat
  | 0, T => T
  | d + 1, T => match T with
    | some t => adv chain d (chain t)
    | none => none

/-- Member sizes are positive: the next base is larger. -/
def Mono (chain : Chain) : Prop := ∀ b b', chain b = some b' → b < b'

theorem adv_none (chain : Chain) (d : Nat) : adv chain d none = none := by
  cases d <;> rfl

theorem adv_succ (chain : Chain) (d : Nat) (T : Option Nat) :
    adv chain (d + 1) T = (adv chain d T).bind chain := by
  induction d generalizing T with
  | zero => cases T <;> rfl
  | succ d ih =>
    cases T with
    | none => simp [adv]
    | some t => simp only [adv] at ih ⊢; exact ih (chain t)

theorem adv_ge {chain : Chain} (hm : Mono chain) : ∀ (d t e : Nat), adv chain d (some t) = some e →
    t ≤ e ∧ (0 < d → t < e) := by
  intro d
  induction d with
  | zero => intro t e h; simp [adv] at h; omega
  | succ d ih =>
    intro t e h
    simp only [adv] at h
    cases hc : chain t with
    | none => rw [hc, adv_none] at h; cases h
    | some t' =>
      rw [hc] at h
      have := ih t' e h
      have := hm t t' hc
      omega

/-- `new` is a run of consecutive members starting at `T`; a failed load ends it; `wn` is what the worker
reads after it.  The last element may be a load the worker is committed to. -/
def ChainFrom (chain : Chain) : Option Nat → List Slot → Option Nat → Prop
  | T, [], wn => wn = T
  | T, .blk b :: rest, wn => b.base = T ∧ WFBlk chain b ∧ ChainFrom chain b.next rest wn
  | T, [.tgt x], _ => x = T
  | _, .tgt _ :: _ :: _, _ => False

theorem chainFrom_append_tgt {chain : Chain} {T : Option Nat} {new : List Slot} {x : Option Nat}
    (h : ChainFrom chain T new x) (hl : ∀ y, Slot.tgt y ∉ new) (wn : Option Nat) :
    ChainFrom chain T (new ++ [.tgt x]) wn := by
  induction new generalizing T with
  | nil => simp only [ChainFrom] at h; subst h; simp [ChainFrom]
  | cons a rest ih =>
    cases a with
    | blk b =>
      simp only [ChainFrom, List.cons_append] at h ⊢
      exact ⟨h.1, h.2.1, ih h.2.2 (fun y hy => hl y (by simp [hy]))⟩
    | tgt y => exact absurd (by simp) (hl y)

theorem chainFrom_load {chain : Chain} {T : Option Nat} {pre : List Slot} {x : Option Nat} {b : Blk}
    {wn : Option Nat} (h : ChainFrom chain T (pre ++ [.tgt x]) wn) (hb : b.base = x) (hw : WFBlk chain b) :
    ChainFrom chain T (pre ++ [.blk b]) b.next := by
  induction pre generalizing T with
  | nil => simp only [List.nil_append, ChainFrom] at h ⊢; exact ⟨hb.trans h, hw, trivial⟩
  | cons a rest ih =>
    cases a with
    | blk c =>
      simp only [ChainFrom, List.cons_append] at h ⊢
      exact ⟨h.1, h.2.1, ih h.2.2⟩
    | tgt y =>
      cases rest with
      | nil => simp [ChainFrom] at h
      | cons r rs => simp [ChainFrom] at h

end Hts.Model.ReadAhead
