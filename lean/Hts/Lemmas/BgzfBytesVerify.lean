/-
Lemmas for C10: on EVERY byte string, data is delivered only for members whose gzip trailer was
verified (CRC-32 and ISIZE of what was inflated), and the framed member is exactly the BSIZE+1 bytes
the header announces.
-/
import Hts.Model.BgzfBytes
namespace Hts.Lemmas.BgzfBytes
open Hts.Model.BgzfBytes

/-! ### readHeader never reports a clean end on non-empty input -/

theorem readString_ne_eof (i : Nat) (s : Bytes) : readString i s ≠ .error .eof := by
  induction s generalizing i with
  | nil => unfold readString; split <;> simp
  | cons b t ih =>
    unfold readString
    split
    · simp
    · split
      · simp
      · exact ih (i + 1)

theorem readOptString_ne_eof (p : Bool) (s : Bytes) : readOptString p s ≠ .error .eof := by
  unfold readOptString
  split
  · have := readString_ne_eof 0 s
    split <;> simp_all
  · simp

theorem readExtra_ne_eof (flg : UInt8) (s : Bytes) : readExtra flg s ≠ .error .eof := by
  unfold readExtra
  split
  · split
    · split <;> simp
    · simp
  · simp

theorem readHdrCrc_ne_eof (crc : Bytes → Nat) (flg : UInt8) (s : Bytes) (n : Nat) :
    readHdrCrc crc flg s n ≠ .error .eof := by
  unfold readHdrCrc
  split
  · split
    · split <;> simp
    · simp
  · simp

theorem readHeader_eof_iff (crc : Bytes → Nat) (s : Bytes) : readHeader crc s = .error .eof ↔ s = [] := by
  constructor
  · intro h
    unfold readHeader at h
    split at h
    · rfl
    · exfalso
      split at h
      · simp at h
      · split at h
        · rename_i e he
          exact readExtra_ne_eof _ _ (by rw [he]; injection h with h; rw [h])
        · split at h
          · rename_i e he
            exact readOptString_ne_eof _ _ (by rw [he]; injection h with h; rw [h])
          · split at h
            · rename_i e he
              exact readOptString_ne_eof _ _ (by rw [he]; injection h with h; rw [h])
            · split at h
              · rename_i e he
                exact readHdrCrc_ne_eof _ _ _ _ (by rw [he]; injection h with h; rw [h])
              · simp at h
    · simp at h
  · rintro rfl; simp [readHeader]

/-! ### what "the gzip reader reached its verified end" means -/

/-- `TrailerOk c buf payload used`: the deflate decoder decoded `payload` from the first `used` bytes
of `buf`, and the eight bytes that follow are the CRC-32 of `payload` and its length mod 2^32. -/
structure TrailerOk (c : Codec) (buf payload : Bytes) (used : Nat) : Prop where
  inflated : c.inflate buf = .ok payload used
  present : 8 ≤ (buf.drop used).length
  crc : leNat ((buf.drop used).take 4) = c.crc32 payload
  isize : leNat (((buf.drop used).drop 4).take 4) = payload.length % 4294967296

/-- `Verified c buf data`: `buf` is one gzip member body (deflate data + trailer) — or, as
compress/gzip in multistream mode accepts, several members each with its own header — and `data` is
what they decode to, every one with its trailer verified, with nothing left over. -/
inductive Verified (c : Codec) : Bytes → Bytes → Prop where
  | single {buf payload : Bytes} {used : Nat} :
      TrailerOk c buf payload used → (buf.drop used).length = 8 → Verified c buf payload
  | multi {buf payload more : Bytes} {used hl : Nat} {hdr : GzHeader} :
      TrailerOk c buf payload used →
      readHeader c.crc32 ((buf.drop used).drop 8) = .ok (hdr, hl) →
      Verified c (((buf.drop used).drop 8).drop hl) more →
      Verified c buf (payload ++ more)

theorem gzBody_ok_verified (c : Codec) (buf data : Bytes) (ne : Bool) (h : gzBody c buf = .ok (data, ne)) :
    Verified c buf data := by
  generalize hn : buf.length = n
  induction n using Nat.strongRecOn generalizing buf data ne with
  | ind n ih =>
    rw [gzBody] at h
    split at h
    · simp at h
    · rename_i payload used hinf
      split at h
      · simp at h
      · rename_i h8
        split at h
        · simp at h
        · rename_i hck
          have hck' : leNat ((buf.drop used).take 4) = c.crc32 payload ∧
              leNat (((buf.drop used).drop 4).take 4) = payload.length % 4294967296 := by
            constructor
            · apply Classical.byContradiction; intro hc; exact hck (Or.inl hc)
            · apply Classical.byContradiction; intro hc; exact hck (Or.inr hc)
          have tr : TrailerOk c buf payload used := ⟨hinf, by omega, hck'.1, hck'.2⟩
          split at h
          · rename_i heof
            have hnil := (readHeader_eof_iff _ _).1 heof
            injection h with h
            injection h with h _
            subst h
            refine Verified.single tr ?_
            have : ((buf.drop used).drop 8).length = 0 := by rw [hnil]; rfl
            simp only [List.length_drop] at this h8 ⊢
            omega
          · simp at h
          · rename_i hdr hl hh
            split at h
            · simp at h
            · rename_i p2 ne2 hrec
              injection h with h
              injection h with h _
              subst h
              have hlt : (((buf.drop used).drop 8).drop hl).length < n := by
                simp only [List.length_drop] at h8 ⊢
                omega
              exact Verified.multi tr hh (ih _ hlt _ _ _ hrec rfl)

/-! ### the block buffer: `readToEOF` -/

/-- With the probe byte counted (repaired), `readToEOF` succeeds only with everything the gzip reader
delivered up to its verified end, and only if that fits the block. -/
theorem readToEOF_ok {q : Quirks} (hq : q.dummyReadCountIgnored = false)
    {r : Except (Err × Nat) (Bytes × Bool)} {p : Bytes} (h : readToEOF q r = .ok p) :
    ∃ ne, r = .ok (p, ne) ∧ p.length ≤ MaxBlockSize := by
  unfold readToEOF at h
  split at h
  · rename_i data ne
    split at h
    · rename_i hle
      injection h with h
      subst h
      exact ⟨ne, rfl, hle⟩
    · simp [hq] at h
  · split at h
    · simp at h
    · split at h <;> simp at h

/-- `readToEOF` reports `io.EOF` as an error only if the gzip reader did (which it never does). -/
theorem readToEOF_error_eof {q : Quirks} {r : Except (Err × Nat) (Bytes × Bool)}
    (h : readToEOF q r = .error .eof) : ∃ n, r = .error (.eof, n) := by
  unfold readToEOF at h
  split at h
  · split at h
    · simp at h
    · split at h <;> simp at h
  · rename_i e produced
    split at h
    · injection h with h
      subst h
      exact ⟨produced, rfl⟩
    · split at h
      · injection h with h
        subst h
        exact ⟨produced, rfl⟩
      · simp at h

/-! ### what `readMember` frames is exactly the BSIZE+1 bytes the header announces -/

theorem readMember_ok_split (q : Quirks) (c : Codec) (s : Bytes) (f : Framed) (h : readMember q c s = .ok f) :
    ∃ hl, readHeader c.crc32 s = .ok (f.hdr, hl) ∧
      expectedMemberSize f.hdr.extra = some (hl + f.body.length) ∧
      0 < f.body.length ∧
      s = s.take hl ++ (f.body ++ f.rest) := by
  unfold readMember at h
  split at h
  · simp at h
  · rename_i hd skipped hh
    split at h
    · simp at h
    · rename_i blockSize hbs
      split at h
      · simp at h
      · split at h
        · simp at h
        · rename_i hne hlt
          split at h
          · rename_i hav
            injection h with h
            subst h
            simp only [List.length_drop, List.length_take] at hav ⊢
            refine ⟨skipped, hh, ?_, ?_, ?_⟩
            · rw [hbs]; congr 1; omega
            · omega
            · rw [List.take_append_drop, List.take_append_drop]
          · split at h <;> simp at h

theorem readMember_rest_lt (q : Quirks) (c : Codec) (s : Bytes) (f : Framed) (h : readMember q c s = .ok f) :
    f.rest.length < s.length := by
  obtain ⟨hl, _, _, hpos, hs⟩ := readMember_ok_split q c s f h
  have := congrArg List.length hs
  simp only [List.length_append] at this
  omega

/-- whatever `readBlock` returns, it framed a member by BSIZE and continues right after it (every variant) -/
theorem readBlock_ok_framed (q : Quirks) (c : Codec) (s payload rest : Bytes)
    (h : readBlock q c s = .ok (payload, rest)) :
    ∃ f, readMember q c s = .ok f ∧ f.rest = rest ∧ readToEOF q (gzBody c f.body) = .ok payload := by
  unfold readBlock at h
  split at h
  · simp at h
  · rename_i f hf
    split at h
    · simp at h
    · rename_i p hp
      injection h with h
      injection h with h1 h2
      subst h1; subst h2
      exact ⟨f, hf, rfl, hp⟩

/-- **Data only after verification**, one block (probe byte counted, i.e. fix C10-4 applied): `readBlock`
succeeds only if the framed member body passed the gzip reader's trailer verification, and what it
returns is exactly, and all of, what was verified. -/
theorem readBlock_ok_verified (q : Quirks) (hq : q.dummyReadCountIgnored = false) (c : Codec)
    (s payload rest : Bytes) (h : readBlock q c s = .ok (payload, rest)) :
    ∃ f, readMember q c s = .ok f ∧ f.rest = rest ∧ Verified c f.body payload ∧ payload.length ≤ MaxBlockSize := by
  obtain ⟨f, hf, hr, hp⟩ := readBlock_ok_framed q c s payload rest h
  obtain ⟨ne, hg, hfit⟩ := readToEOF_ok hq hp
  exact ⟨f, hf, hr, gzBody_ok_verified c _ _ ne hg, hfit⟩

/-- the dead branch of `readAll` is dead -/
theorem readBlock_rest_lt (q : Quirks) (c : Codec) (s payload rest : Bytes)
    (h : readBlock q c s = .ok (payload, rest)) : rest.length < s.length := by
  obtain ⟨f, hf, hr, _⟩ := readBlock_ok_framed q c s payload rest h
  rw [← hr]; exact readMember_rest_lt q c s f hf

/-- `Delivered q c s blocks e`: reading `s` framed and verified exactly the members `blocks`
(in order, back to back from the start of `s`), and stopped with `e` at what follows them. -/
inductive Delivered (q : Quirks) (c : Codec) : Bytes → List (Framed × Bytes) → Err → Prop where
  | stop {s : Bytes} {e : Err} : readBlock q c s = .error e → Delivered q c s [] e
  | block {s payload : Bytes} {f : Framed} {bs : List (Framed × Bytes)} {e : Err} :
      readMember q c s = .ok f → Verified c f.body payload → payload.length ≤ MaxBlockSize →
      Delivered q c f.rest bs e → Delivered q c s ((f, payload) :: bs) e

/-- **Data only after verification**, whole stream, for EVERY byte string and every reader variant that
counts the probe byte: all data `readAll` returns is the concatenation of payloads of members it framed
by BSIZE and whose gzip trailers were verified. -/
theorem readAll_delivered (q : Quirks) (hq : q.dummyReadCountIgnored = false) (c : Codec) (s : Bytes) :
    ∃ blocks, Delivered q c s blocks (readAll q c s).2 ∧
      (readAll q c s).1 = (blocks.map (·.2)).flatten := by
  generalize hn : s.length = n
  induction n using Nat.strongRecOn generalizing s with
  | ind n ih =>
    rw [readAll]
    split
    · rename_i e he
      exact ⟨[], Delivered.stop he, by simp⟩
    · rename_i payload rest hb
      have hlt := readBlock_rest_lt q c s payload rest hb
      obtain ⟨f, hf, hr, hv, hfit⟩ := readBlock_ok_verified q hq c s payload rest hb
      simp only [hlt, dite_true]
      obtain ⟨bs, hd, hdata⟩ := ih rest.length (by omega) rest rfl
      refine ⟨(f, payload) :: bs, Delivered.block hf hv hfit (by rw [hr]; exact hd), ?_⟩
      simp [hdata]

/-- `readAll` without its dead branch (the `unreachable` result is never produced by `readAll` itself). -/
theorem readAll_eq (q : Quirks) (c : Codec) (s : Bytes) :
    readAll q c s =
      match readBlock q c s with
      | .error e => ([], e)
      | .ok (payload, rest) => (payload ++ (readAll q c rest).1, (readAll q c rest).2) := by
  rw [readAll]
  split
  · rename_i e he
    rw [he]
  · rename_i payload rest hb
    rw [hb]
    simp only [readBlock_rest_lt q c s payload rest hb, dite_true]

/-! ### the repaired reader reports a clean end only at the true end of the input -/

theorem gzBody_ne_eof (c : Codec) (buf : Bytes) (k : Nat) : gzBody c buf ≠ .error (.eof, k) := by
  generalize hn : buf.length = n
  induction n using Nat.strongRecOn generalizing buf k with
  | ind n ih =>
    intro h
    rw [gzBody] at h
    split at h
    · simp at h
    · rename_i payload used hinf
      split at h
      · simp at h
      · rename_i h8
        split at h
        · simp at h
        · split at h
          · simp at h
          · rename_i e hne hh
            injection h with h
            injection h with h _
            exact hne (by rw [h])
          · rename_i hdr hl hh
            split at h
            · rename_i e k2 hrec
              injection h with h
              injection h with h _
              have hlt : (((buf.drop used).drop 8).drop hl).length < n := by
                simp only [List.length_drop] at h8 ⊢
                omega
              exact ih _ hlt _ k2 rfl (by rw [hrec, h])
            · simp at h

theorem readMember_repaired_eof (c : Codec) (s : Bytes) (h : readMember .repaired c s = .error .eof) : s = [] := by
  unfold readMember at h
  split at h
  · rename_i e he
    injection h with h
    subst h
    exact (readHeader_eof_iff _ _).1 he
  · split at h
    · simp at h
    · split at h
      · simp [Quirks.repaired] at h
      · split at h
        · simp at h
        · split at h
          · simp at h
          · split at h <;> simp [Quirks.repaired] at h

theorem readBlock_repaired_eof (c : Codec) (s : Bytes) (h : readBlock .repaired c s = .error .eof) : s = [] := by
  unfold readBlock at h
  split at h
  · rename_i e he
    injection h with h
    subst h
    exact readMember_repaired_eof c s he
  · split at h
    · rename_i e he
      injection h with h
      subst h
      obtain ⟨k, hk⟩ := readToEOF_error_eof he
      exact absurd hk (gzBody_ne_eof c _ k)
    · simp at h

/-- the whole input is a sequence of members, each framed by its BSIZE and verified -/
inductive FullyFramed (c : Codec) : Bytes → Bytes → Prop where
  | nil : FullyFramed c [] []
  | cons {s payload data : Bytes} {f : Framed} :
      readMember .repaired c s = .ok f → Verified c f.body payload → payload.length ≤ MaxBlockSize →
      FullyFramed c f.rest data → FullyFramed c s (payload ++ data)

/-- For EVERY byte string: if the repaired reader ends cleanly, the entire input — to its last byte —
was consumed as back-to-back members, each framed by its own BSIZE and each passing CRC-32/ISIZE
verification, and the data returned is exactly theirs. -/
theorem clean_end_fully_framed (c : Codec) (s : Bytes) (h : (readAll .repaired c s).2 = .eof) :
    FullyFramed c s (readAll .repaired c s).1 := by
  generalize hn : s.length = n
  induction n using Nat.strongRecOn generalizing s with
  | ind n ih =>
    rw [readAll_eq] at h ⊢
    split at h
    · rename_i e he
      simp only at h
      subst h
      have := readBlock_repaired_eof c s he
      subst this
      exact FullyFramed.nil
    · rename_i payload rest hb
      have hlt := readBlock_rest_lt .repaired c s payload rest hb
      obtain ⟨f, hf, hr, hv, hfit⟩ := readBlock_ok_verified .repaired rfl c s payload rest hb
      simp only at h ⊢
      subst hr
      exact FullyFramed.cons hf hv hfit (ih _ (by omega) _ h rfl)

end Hts.Lemmas.BgzfBytes
