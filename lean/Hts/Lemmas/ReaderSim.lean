/-
Refinement relation between the reader model and the flat specification, and its preservation by `read`.
-/
import Hts.Lemmas.ReaderCanon
namespace Hts.Model.Bgzf
open Hts.Spec.Flat

/-- The concrete reader `r` represents the state `s` of the flat model of `F`. -/
structure Sim (F : File) (r : Reader) (s : State) : Prop where
  file : r.file = F
  blocked : r.blocked = s.blocked
  last : r.lastChunk = s.last
  pos : (∃ pre m post k, At F r pre m post k ∧ s.pos = flatLen pre + k) ∨ (AtEOF F r ∧ s.pos = flatLen F)

theorem flatLen_split (pre post : File) (m : Member) :
    flatLen (pre ++ m :: post) = flatLen pre + m.data.length + flatLen post := by
  simp [flatLen]; omega

def errOf (eof : Bool) : Option Err := if eof then some .eof else none

theorem flat_read_eof (F : FlatFile) (s : State) (n : Nat) (h : total F.layout ≤ s.pos) :
    Hts.Spec.Flat.read F s n = ⟨[], true, s⟩ := by
  simp [Hts.Spec.Flat.read, h]

theorem flat_read_data (F : FlatFile) (s : State) (n : Nat) (h : s.pos < total F.layout) :
    Hts.Spec.Flat.read F s n =
      ⟨(F.bytes.drop s.pos).take (min n (if s.blocked then blockRem F.layout s.pos else total F.layout - s.pos)),
       decide ((if s.blocked then blockRem F.layout s.pos else total F.layout - s.pos) < n),
       { s with pos := s.pos + min n (if s.blocked then blockRem F.layout s.pos else total F.layout - s.pos),
                last := ⟨offBefore F.layout s.pos,
                  if n = 0 then offBefore F.layout s.pos
                  else if (if s.blocked then blockRem F.layout s.pos else total F.layout - s.pos) < n ∧ !s.blocked
                    then ⟨fileLen F.layout, 0⟩
                  else offAfter F.layout (s.pos + min n (if s.blocked then blockRem F.layout s.pos else total F.layout - s.pos))⟩ }⟩ := by
  have : ¬ (total F.layout ≤ s.pos) := by omega
  simp [Hts.Spec.Flat.read, this]

theorem read_skip_idem {F : File} (hwf : WF F) {r : Reader} {pre m post k}
    (h : At F (r.skipEmpty r.skipFuel) pre m post k) (hk : k < m.data.length) (he : r.err = none)
    (_hfr : Frame r (r.skipEmpty r.skipFuel)) (n : Nat) :
    r.read n = (r.skipEmpty r.skipFuel).read n := by
  have hlen : (r.skipEmpty r.skipFuel).file.length = pre.length + (post.length + 1) := by
    rw [h.file, h.split]; simp
  have hfuel : post.length < (r.skipEmpty r.skipFuel).skipFuel := by
    show post.length < (r.skipEmpty r.skipFuel).file.length + 1; omega
  have hsk := (skipEmpty_at hwf post pre m k _ _ h hfuel).1 hk
  rw [read_skip_ok r n he h.err, read_skip_ok _ n h.err (by rw [hsk]; exact h.err), hsk]

theorem sim_read {F : File} (hwf : WF F) {r : Reader} {s : State} (h : Sim F r s) (n : Nat) :
    (r.read n).2.1 = (Hts.Spec.Flat.read (flatOf F) s n).bytes ∧
    (r.read n).2.2 = errOf (Hts.Spec.Flat.read (flatOf F) s n).eof ∧
    Sim F (r.read n).1 (Hts.Spec.Flat.read (flatOf F) s n).st := by
  obtain ⟨hfile, hblk, hlast, hpos⟩ := h
  rcases hpos with ⟨pre, m, post, k, hat, hp⟩ | ⟨heof, hp⟩
  · -- a position inside the file
    have ⟨hfr, hcan⟩ := skip_canon hwf hat
    rcases hcan with ⟨pre1, m1, post1, k1, hat1, hk1, hp1, hav1⟩ | ⟨heof1, hpe, have1⟩
    · rw [read_skip_idem hwf hat1 hk1 hat.err hfr n]
      have hF := hat1.split
      have hlt : s.pos < total (flatOf F).layout := by
        simp only [flatOf, total_layoutOf]; rw [hF, flatLen_split]; omega
      rw [flat_read_data _ _ _ hlt]
      have hpos1 : s.pos = flatLen pre1 + k1 := by omega
      have hob : offBefore (flatOf F).layout s.pos = ⟨csum pre1, k1⟩ := by
        simp only [flatOf]; rw [hF, hpos1]; exact offBefore_split pre1 post1 m1 k1 hk1
      have hdrop : (flatOf F).bytes.drop s.pos = m1.data.drop k1 ++ flatBytes post1 := by
        simp only [flatOf]; rw [hF, hpos1]; exact flatBytes_drop_split pre1 post1 m1 k1 (by omega)
      have hb1 : (r.skipEmpty r.skipFuel).blocked = s.blocked := hfr.2.2.trans hblk
      cases hsb : s.blocked
      · -- unblocked mode
        rw [hsb] at hb1
        obtain ⟨r', heq, hb', hf', hbg', h0, hok, heofc⟩ := read_unblocked_canon hwf hat1 hk1 hb1 n
        have hal : total (flatOf F).layout - s.pos = (m1.data.drop k1 ++ flatBytes post1).length := by
          simp only [flatOf, total_layoutOf]; rw [hF, flatLen_split]; simp; omega
        rw [heq]
        simp only [Bool.false_eq_true, if_false, hob, hdrop, hal, Bool.not_false, and_true]
        generalize hav : m1.data.drop k1 ++ flatBytes post1 = avail at *
        have htl : flatLen F = s.pos + avail.length := by
          have := hal; simp only [flatOf, total_layoutOf] at this hlt; omega
        refine ⟨by rw [List.take_eq_take_iff]; simp, by simp [errOf], hf', hb', ?_, ?_⟩
        · -- LastChunk
          have hlc : r'.lastChunk = ⟨r'.lastChunk.bgn, r'.lastChunk.fin⟩ := rfl
          rw [hlc, hbg']
          by_cases hn : n = 0
          · simp [hn, (h0 hn).2]
          · simp only [hn, if_false]
            by_cases hlt2 : avail.length < n
            · simp [hlt2, (heofc hlt2).2, flatOf]
            · simp only [hlt2, if_false]
              obtain ⟨pre', m', post', k', hat', hpos', hk', hfin'⟩ := hok (by omega) (by omega)
              rw [hfin']
              have hmin : min n avail.length = n := by omega
              have : s.pos + min n avail.length = flatLen pre' + k' := by omega
              simp only [flatOf]
              rw [this, hat'.split, offAfter_split pre' post' m' k' hk' hat'.le]
        · -- position
          by_cases hlt2 : avail.length < n
          · exact Or.inr ⟨(heofc hlt2).1, by simp only []; omega⟩
          · by_cases hn : n = 0
            · exact Or.inl ⟨pre1, m1, post1, k1, (h0 hn).1, by simp only [hn]; omega⟩
            · obtain ⟨pre', m', post', k', hat', hpos', hk', hfin'⟩ := hok (by omega) (by omega)
              exact Or.inl ⟨pre', m', post', k', hat', by simp only []; omega⟩
      · -- Blocked mode
        rw [hsb] at hb1
        obtain ⟨r', heq, hat', hb', hl'⟩ := read_blocked_canon hwf hat1 hk1 hb1 n
        have hbr : blockRem (flatOf F).layout s.pos = m1.data.length - k1 := by
          simp only [flatOf]; rw [hF, hpos1]; exact blockRem_split pre1 post1 m1 k1 hk1
        rw [heq]
        simp only [if_true, hbr, hob, hdrop, Bool.not_true, Bool.false_eq_true, and_false, if_false]
        have hoa : ∀ x, 0 < x → k1 + x ≤ m1.data.length →
            offAfter (flatOf F).layout (s.pos + x) = ⟨csum pre1, k1 + x⟩ := by
          intro x hx0 hx
          simp only [flatOf]; rw [hF, hpos1, Nat.add_assoc]
          exact offAfter_split pre1 post1 m1 (k1 + x) (by omega) hx
        refine ⟨?_, by simp [errOf], hat'.file, hb', ?_, Or.inl ⟨pre1, m1, post1, _, hat', by simp only []; omega⟩⟩
        · rw [List.take_append]
          have h0 : min n (m1.data.length - k1) - (m1.data.drop k1).length = 0 := by simp; omega
          rw [h0, List.take_zero, List.append_nil, List.take_eq_take_iff]; simp
        · rw [hl']
          by_cases hn : n = 0
          · simp [hn]
          · simp only [hn, if_false]
            rw [hoa _ (by omega) (by omega)]
    · -- only empty members follow: the data has ended
      have he1 : (r.skipEmpty r.skipFuel).err = some .eof := heof1.err
      rw [read_skip_err r n .eof hat.err he1]
      have htot : total (flatOf F).layout ≤ s.pos := by simp [flatOf]; omega
      rw [flat_read_eof _ _ _ htot]
      exact ⟨rfl, rfl, heof1.file, hfr.2.2.trans hblk, hfr.2.1.trans hlast, Or.inr ⟨heof1, by show s.pos = flatLen F; omega⟩⟩
  · -- sticky EOF
    rw [read_err r n .eof heof.err]
    have htot : total (flatOf F).layout ≤ s.pos := by simp [flatOf]; omega
    rw [flat_read_eof _ _ _ htot]
    exact ⟨rfl, rfl, hfile, hblk, hlast, Or.inr ⟨heof, hp⟩⟩

end Hts.Model.Bgzf
