/-
C07 helper lemmas, part 12: one serialised line parses back to the item it was written from.
-/
import Hts.Lemmas.HeaderText2
namespace Hts.Model.Header

/-- a header line without its line feed -/
def lineB (rec : String) (ts : Tags) : Bytes := str rec ++ ts.flatMap fieldBytes

theorem line_eq (rec : String) (ts : Tags) : line rec ts = lineB rec ts ++ [10] := rfl

theorem clean_no9 {s : Bytes} (h : Clean s) : 9 ∉ s := fun hc => (h 9 hc).1 rfl
theorem clean_no10 {s : Bytes} (h : Clean s) : 10 ∉ s := fun hc => (h 10 hc).2.1 rfl
theorem clean_no13 {s : Bytes} (h : Clean s) : 13 ∉ s := fun hc => (h 13 hc).2.2 rfl

def CleanTags (ts : Tags) : Prop := ∀ tv ∈ ts, CleanTag tv.1 ∧ Clean tv.2

theorem fieldOf_no (c : Nat) (hc : c = 9 ∨ c = 10 ∨ c = 13) {tv : Tag × Bytes} (h : CleanTag tv.1 ∧ Clean tv.2) :
    c ∉ fieldOf tv := by
  intro hm
  simp only [fieldOf, List.mem_cons] at hm
  obtain ⟨⟨⟨a1, a2, a3⟩, b1, b2, b3⟩, hv⟩ := h
  have := hv c
  rcases hc with rfl | rfl | rfl <;> rcases hm with e | e | e | e <;> first | omega | (exact absurd rfl (this e).1) | (exact absurd rfl (this e).2.1) | (exact absurd rfl (this e).2.2)

theorem lineB_split (rec : String) (hrec : 9 ∉ str rec) (ts : Tags) (hc : CleanTags ts) :
    splitOn 9 (lineB rec ts) = str rec :: ts.map fieldOf :=
  splitOn_fields _ hrec ts (fun tv h => fieldOf_no 9 (Or.inl rfl) (hc tv h))

theorem lineB_no (c : Nat) (hc : c = 10 ∨ c = 13) (rec : String) (hrec : c ∉ str rec) (ts : Tags) (h : CleanTags ts) :
    c ∉ lineB rec ts := by
  intro hm
  simp only [lineB, List.mem_append, List.mem_flatMap] at hm
  rcases hm with hm | ⟨tv, htv, hm⟩
  · exact hrec hm
  · rw [fieldBytes_eq] at hm
    rcases List.mem_cons.1 hm with e | hm
    · rcases hc with rfl | rfl <;> cases e
    · exact fieldOf_no c (Or.inr hc) (h tv htv) hm

theorem dropCR_id {l : Bytes} (h : 13 ∉ l) : dropCR l = l := by
  unfold dropCR
  split
  · next hl => exact absurd (List.mem_of_getLast? hl) h
  · rfl

theorem cleanTags_append {a b : Tags} (ha : CleanTags a) (hb : CleanTags b) : CleanTags (a ++ b) := by
  intro tv h; rcases List.mem_append.1 h with h | h
  · exact ha tv h
  · exact hb tv h

theorem cleanTags_opt (t : String) (v : Bytes) (ht : CleanTag (TAG t)) (hv : Clean v) : CleanTags (opt t v) := by
  unfold opt; split
  · intro tv h; cases h
  · intro tv h; simp only [List.mem_singleton] at h; subst h; exact ⟨ht, hv⟩

theorem cleanTags_one (t : Tag) (v : Bytes) (ht : CleanTag t) (hv : Clean v) : CleanTags [(t, v)] := by
  intro tv h; simp only [List.mem_singleton] at h; subst h; exact ⟨ht, hv⟩

theorem cleanTags_nil : CleanTags [] := fun _ h => by cases h

theorem refTags_clean {E : Ext} {name : Bytes} {d : RefD} (wf : WFRef E name d) : CleanTags (refTags name d) := by
  unfold refTags
  refine cleanTags_append (cleanTags_append (cleanTags_append (cleanTags_append (cleanTags_append ?_ ?_) ?_) ?_) ?_) wf.other.clean
  · exact cleanTags_append (cleanTags_one _ _ (by decide) wf.name) (cleanTags_one _ _ (by decide) (dec_clean _))
  · split
    · exact cleanTags_nil
    · exact cleanTags_one _ _ (by decide) (hexEnc_clean _)
  · exact cleanTags_opt _ _ (by decide) wf.asm
  · exact cleanTags_opt _ _ (by decide) wf.sp
  · cases hu : d.uri with
    | none => exact cleanTags_nil
    | some pu => obtain ⟨p, u⟩ := pu; exact cleanTags_one _ _ (by decide) (wf.uri p u hu).1

theorem rgTags_clean {E : Ext} {name : Bytes} {d : RgD} (wf : WFRg E name d) : CleanTags (rgTags name d) := by
  unfold rgTags
  have hdt : Clean d.dt := by
    rcases wf.dt with e | ⟨h, _⟩
    · rw [e]; intro c hc; cases hc
    · exact h
  refine cleanTags_append (cleanTags_append (cleanTags_append (cleanTags_append (cleanTags_append (cleanTags_append
    (cleanTags_append (cleanTags_append (cleanTags_append (cleanTags_append (cleanTags_append (cleanTags_append
    ?_ ?_) ?_) ?_) ?_) ?_) ?_) ?_) ?_) ?_) ?_) ?_) wf.other.clean
  · exact cleanTags_one _ _ (by decide) wf.name
  · exact cleanTags_opt _ _ (by decide) wf.cn
  · exact cleanTags_opt _ _ (by decide) wf.ds
  · exact cleanTags_opt _ _ (by decide) hdt
  · exact cleanTags_opt _ _ (by decide) wf.fo
  · exact cleanTags_opt _ _ (by decide) wf.ks
  · exact cleanTags_opt _ _ (by decide) wf.lb
  · exact cleanTags_opt _ _ (by decide) wf.pg
  · split
    · exact cleanTags_nil
    · exact cleanTags_one _ _ (by decide) (dec_clean _)
  · exact cleanTags_opt _ _ (by decide) wf.pl
  · exact cleanTags_opt _ _ (by decide) wf.pu
  · exact cleanTags_opt _ _ (by decide) wf.sm

theorem pgTags_clean {name : Bytes} {d : PgD} (wf : WFPg name d) : CleanTags (pgTags name d) := by
  unfold pgTags
  refine cleanTags_append (cleanTags_append (cleanTags_append (cleanTags_append (cleanTags_append ?_ ?_) ?_) ?_) ?_) wf.other.clean
  · exact cleanTags_one _ _ (by decide) wf.name
  · exact cleanTags_opt _ _ (by decide) wf.pn
  · exact cleanTags_opt _ _ (by decide) wf.cl
  · exact cleanTags_opt _ _ (by decide) wf.pp
  · exact cleanTags_opt _ _ (by decide) wf.vn

/-! ### tags of a line are distinct -/

theorem opt_sub (t : String) (v : Bytes) : ((opt t v).map (·.1)).Sublist [TAG t] := by
  unfold opt; split
  · exact List.nil_sublist _
  · exact List.Sublist.refl _

theorem nodup_known_other {known : List Tag} {ts : Tags} (hk : known.Nodup) (wf : WFOther known ts) :
    (known ++ ts.map (·.1)).Nodup := by
  rw [List.nodup_append]
  refine ⟨hk, wf.nodup, ?_⟩
  intro a ha b hb e
  obtain ⟨tv, htv, rfl⟩ := List.mem_map.1 hb
  exact wf.unknown tv htv (e ▸ ha)

theorem refTags_nodup {E : Ext} {name : Bytes} {d : RefD} (wf : WFRef E name d) :
    ((refTags name d).map (·.1)).Nodup := by
  refine List.Nodup.sublist ?_ (nodup_known_other (known := knownRef) (by decide) wf.other)
  unfold refTags
  simp only [List.map_append]
  refine List.Sublist.append ?_ (List.Sublist.refl _)
  show List.Sublist _ ([TAG "SN", TAG "LN"] ++ [TAG "M5"] ++ [TAG "AS"] ++ [TAG "SP"] ++ [TAG "UR"])
  refine List.Sublist.append (List.Sublist.append (List.Sublist.append (List.Sublist.append (List.Sublist.refl _) ?_) (opt_sub _ _)) (opt_sub _ _)) ?_
  · split
    · exact List.nil_sublist _
    · exact List.Sublist.refl _
  · cases d.uri with
    | none => exact List.nil_sublist _
    | some pu => exact List.Sublist.refl _

theorem rgTags_nodup {E : Ext} {name : Bytes} {d : RgD} (wf : WFRg E name d) :
    ((rgTags name d).map (·.1)).Nodup := by
  refine List.Nodup.sublist ?_ (nodup_known_other (known := knownRg) (by decide) wf.other)
  unfold rgTags
  simp only [List.map_append]
  refine List.Sublist.append ?_ (List.Sublist.refl _)
  show List.Sublist _ ([TAG "ID"] ++ [TAG "CN"] ++ [TAG "DS"] ++ [TAG "DT"] ++ [TAG "FO"] ++ [TAG "KS"] ++ [TAG "LB"] ++
    [TAG "PG"] ++ [TAG "PI"] ++ [TAG "PL"] ++ [TAG "PU"] ++ [TAG "SM"])
  refine List.Sublist.append (List.Sublist.append (List.Sublist.append (List.Sublist.append (List.Sublist.append
    (List.Sublist.append (List.Sublist.append (List.Sublist.append (List.Sublist.append (List.Sublist.append
    (List.Sublist.append (List.Sublist.refl _) (opt_sub _ _)) (opt_sub _ _)) (opt_sub _ _)) (opt_sub _ _)) (opt_sub _ _))
    (opt_sub _ _)) (opt_sub _ _)) ?_) (opt_sub _ _)) (opt_sub _ _)) (opt_sub _ _)
  split
  · exact List.nil_sublist _
  · exact List.Sublist.refl _

theorem pgTags_nodup {name : Bytes} {d : PgD} (wf : WFPg name d) : ((pgTags name d).map (·.1)).Nodup := by
  refine List.Nodup.sublist ?_ (nodup_known_other (known := knownPg) (by decide) wf.other)
  unfold pgTags
  simp only [List.map_append]
  refine List.Sublist.append ?_ (List.Sublist.refl _)
  show List.Sublist _ ([TAG "ID"] ++ [TAG "PN"] ++ [TAG "CL"] ++ [TAG "PP"] ++ [TAG "VN"])
  exact List.Sublist.append (List.Sublist.append (List.Sublist.append (List.Sublist.append (List.Sublist.refl _)
    (opt_sub _ _)) (opt_sub _ _)) (opt_sub _ _)) (opt_sub _ _)

/-! ### installing a parsed item -/

theorem filterMap_length_all {β γ : Type} (f : β → Option γ) : ∀ (l : List β), (∀ a ∈ l, (f a).isSome = true) →
    (l.filterMap f).length = l.length := by
  intro l
  induction l with
  | nil => intro _; rfl
  | cons a l ih =>
    intro h
    have ha := h a List.mem_cons_self
    cases hfa : f a with
    | none => simp [hfa] at ha
    | some b => simp [List.filterMap_cons, hfa, ih (fun a' h' => h a' (List.mem_cons_of_mem _ h'))]

theorem items_length {α : Type} {k : KW α} {h : Nat} {t : Tab} (ht : k.tabs[h]? = some t) (T : TabInv k.heap h t) :
    (items k h).length = t.items.length := by
  unfold items; simp only [ht]
  apply filterMap_length_all
  intro o ho
  obtain ⟨j, hj⟩ := List.mem_iff_getElem?.1 ho
  obtain ⟨x, hx, _⟩ := T.own j o hj
  simp [hx]

/-- allocating a new item and appending it to header `h` -/
def install {α : Type} (k : KW α) (h : Nat) (name : Bytes) (d : α) : KW α :=
  (k.alloc { owner := none, id := -1, name := name, dat := d }).1.addNewU h
    (k.alloc { owner := none, id := -1, name := name, dat := d }).2

theorem items_install {α : Type} {k : KW α} (hk : KInv k) {h : Nat} {t : Tab} (ht : k.tabs[h]? = some t)
    (name : Bytes) (d : α) :
    items (install k h name d) h = items k h ++ [(((items k h).length : Int), name, d)] := by
  have T := hk.tab h t ht
  have hx : (k.alloc { owner := none, id := -1, name := name, dat := d }).1.heap[k.heap.length]? =
      some { owner := none, id := -1, name := name, dat := d } := alloc_heap k _
  have ht1 : (k.alloc { owner := none, id := -1, name := name, dat := d }).1.tabs[h]? = some t := ht
  rw [items_length ht T]
  unfold items install
  have e2 : (k.alloc { owner := none, id := -1, name := name, dat := d }).2 = k.heap.length := rfl
  rw [e2, addNewU_tabs hx ht1, if_pos rfl, ht]
  simp only [List.filterMap_append]
  congr 1
  · apply filterMap_congr'
    intro o ho
    obtain ⟨j, hj⟩ := List.mem_iff_getElem?.1 ho
    obtain ⟨y, hy, _⟩ := T.own j o hj
    have hne : k.heap.length ≠ o := by have := get_lt hy; omega
    rw [addNewU_heap hx ht1, if_neg hne]
    show ((k.heap ++ [_])[o]?).map _ = _
    rw [append_get_some _ hy, hy]
  · simp only [List.filterMap_cons, List.filterMap_nil]
    rw [addNewU_heap hx ht1, if_pos rfl]
    rfl

theorem lookup_none_of_names {α : Type} {k : KW α} {h : Nat} {t : Tab} (ht : k.tabs[h]? = some t)
    (T : TabInv k.heap h t) {n : Bytes} (hn : n ∉ (items k h).map (fun x => x.2.1)) : lookup t.seen n = none := by
  cases hl : lookup t.seen n with
  | none => rfl
  | some v =>
    obtain ⟨i, o, x, hi, hx, hxn, _⟩ := T.only n v hl
    exfalso; apply hn
    have := (items_get ht T i (x.id, x.name, x.dat)).2 ⟨o, x, hi, hx, rfl⟩
    exact List.mem_map.2 ⟨_, List.mem_iff_getElem?.2 ⟨i, this⟩, hxn⟩

end Hts.Model.Header
