/-
The bridge SamText.Record <-> Bam.Record: reading the memory form back gives the record (`ofBam_toBam`), the memory
form of an expressible record within the BAM ranges is well-formed for the BAM codec (`wf_toBam`).  Core only.
-/
import Hts.Model.SamBam
import Hts.Model.SamTextSpec
import Hts.Lemmas.BamBytes
import Hts.Lemmas.BamWF
import Hts.Lemmas.SamAux
import Hts.Lemmas.SamRecord
namespace Hts.Model.SamBam
open Hts.Model.SamText
open Hts.Model.Coord (CigarOp)
open Hts.Model.Bam (Byte byteOf putU16 putU32 getU16 getU32 byteOf_toNat getU16_put getU32_put WF auxOK auxSize inInt32 elemWidth)
open Hts.Spec.SamLine (QNameChar PrintOrSpace TagOK isAlpha isAlnum)

theorem u8_b8 (x : UInt8) : u8 (b8 x) = x := rfl
theorem b8_u8 (x : Byte) : b8 (u8 x) = x := rfl

theorem map_u8_b8 (l : List UInt8) : (l.map b8).map u8 = l := by
  induction l with
  | nil => rfl
  | cons x l ih => simp [ih, u8_b8]

theorem cigarOfWord_cigarWord (co : CigarOp) (ht : co.typ < 16) (hl : co.len < 268435456) :
    cigarOfWord (cigarWord co) = co := by
  obtain ⟨t, l⟩ := co
  simp only at ht hl
  unfold cigarOfWord cigarWord Bam.cigarType Bam.cigarLen
  have : (BitVec.ofNat 32 (l * 16 + t)).toNat = l * 16 + t := by
    rw [BitVec.toNat_ofNat]; omega
  simp only [this, CigarOp.mk.injEq]
  constructor <;> omega

theorem codes_packCodes : ∀ (s : List (Fin 16)), Bam.codes s.length (packCodes s) = some (s.map (·.val))
  | [] => rfl
  | [a] => by
    simp only [packCodes, List.length_singleton, Bam.codes, byteOf_toNat, List.map_cons, List.map_nil]
    have := a.isLt; congr 2; omega
  | a :: b :: rest => by
    simp only [packCodes, List.length_cons, Bam.codes, codes_packCodes rest, Option.map_some, byteOf_toNat,
      List.map_cons]
    have := a.isLt; have := b.isLt
    congr 2
    · omega
    · congr 1; omega

theorem map_ofNat_val (s : List (Fin 16)) : (s.map (·.val)).map (Fin.ofNat 16) = s := by
  induction s with
  | nil => rfl
  | cons x s ih =>
    simp only [List.map_cons, ih]
    congr 1
    apply Fin.ext; simp [Fin.ofNat, Nat.mod_eq_of_lt x.isLt]

theorem refOf_ref (h : Header) (x : Option Ref) (hx : OptRefIn h x) : refOf h (x.map (·.id.toNat)) = some x := by
  cases x with
  | none => rfl
  | some x => simp [refOf, hx.2]

/-! ### aux fields -/

theorem readInt_intBytes (ty : IntTy) (v : Int) (h : ty.lo ≤ v ∧ v ≤ ty.hi) : readInt ty (intBytes ty v) = some v := by
  cases ty <;> simp only [IntTy.lo, IntTy.hi] at h <;>
    simp only [intBytes, intBits, IntTy.bits, putU16, putU32, readInt, byteOf_toNat, getU16_put, getU32_put, sgnOf,
      IntTy.signed, Bool.true_and, Bool.false_and, Bool.false_eq_true, if_false, decide_eq_true_eq] <;>
    (try split) <;> congr 1 <;> omega

theorem intBytes_length (ty : IntTy) (v : Int) : (intBytes ty v).length = width ty := by
  cases ty <;> simp [intBytes, width, IntTy.bits, putU16, putU32]

theorem readInts_flatMap (ty : IntTy) (vs : List Int) (h : ∀ v ∈ vs, ty.lo ≤ v ∧ v ≤ ty.hi) :
    readInts ty vs.length (vs.flatMap (intBytes ty)) = some vs := by
  induction vs with
  | nil => rfl
  | cons v vs ih =>
    simp only [List.length_cons, List.flatMap_cons, readInts]
    rw [List.take_left' (intBytes_length ty v), List.drop_left' (intBytes_length ty v),
      readInt_intBytes ty v (h v List.mem_cons_self), ih (fun x hx => h x (List.mem_cons_of_mem _ hx))]

theorem u32_roundtrip (b : UInt32) :
    UInt32.ofNat (getU32 (byteOf b.toNat) (byteOf (b.toNat / 256)) (byteOf (b.toNat / 65536)) (byteOf (b.toNat / 16777216))) = b := by
  rw [getU32_put, Nat.mod_eq_of_lt b.toNat_lt]; simp

theorem readFloats_flatMap (bs : List UInt32) :
    readFloats bs.length (bs.flatMap fun b => putU32 b.toNat) = some bs := by
  induction bs with
  | nil => rfl
  | cons b bs ih =>
    simp only [List.length_cons, List.flatMap_cons, putU32, List.cons_append, List.nil_append, readFloats]
    have := ih
    simp only [putU32] at this
    rw [this, u32_roundtrip]
    rfl

theorem u8_comp_b8 : u8 ∘ b8 = id := rfl

theorem letter_facts (ty : IntTy) : b8 ty.letter ≠ 65#8 ∧ b8 ty.letter ≠ 102#8 ∧ b8 ty.letter ≠ 90#8 ∧
    b8 ty.letter ≠ 72#8 ∧ b8 ty.letter ≠ 66#8 ∧ IntTy.ofLetter ty.letter = some ty := by
  cases ty <;> decide

/-- the arrays of an aux field are short enough for their 32-bit count -/
def AuxCountOK (a : Aux) : Prop :=
  match a.val with
  | .ints _ vs => vs.length < 4294967296
  | .floats bs => bs.length < 4294967296
  | _ => True

theorem count_roundtrip (n : Nat) (h : n < 4294967296) :
    getU32 (byteOf n) (byteOf (n / 256)) (byteOf (n / 65536)) (byteOf (n / 16777216)) = n := by
  rw [getU32_put, Nat.mod_eq_of_lt h]

/-- `Aux.Tag/Type/Value` of the raw aux of a decoded field give the field back -/
theorem auxOfRaw_auxRaw (a : Aux) (h : AuxRep a) (hc : AuxCountOK a) : auxOfRaw (auxRaw a) = some a := by
  obtain ⟨t0, t1, v⟩ := a
  unfold AuxRep at h
  unfold AuxCountOK at hc
  unfold auxRaw
  cases v with
  | char c => simp [auxOfRaw, u8_b8]
  | int ty w =>
    simp only at h
    obtain ⟨l1, l2, l3, l4, l5, l6⟩ := letter_facts ty
    simp [auxOfRaw, l1, l2, l3, l4, l5, l6, readInt_intBytes ty w h, u8_b8]
  | float b =>
    simp only [List.cons_append, List.nil_append, putU32, auxOfRaw, u32_roundtrip, u8_b8]
    simp
  | text s => simp [auxOfRaw, u8_comp_b8, u8_b8]
  | hex s => simp [auxOfRaw, u8_comp_b8, u8_b8]
  | ints ty vs =>
    simp only at h hc
    obtain ⟨l1, l2, l3, l4, l5, l6⟩ := letter_facts ty
    simp [auxOfRaw, putU32, l2, l6, count_roundtrip vs.length hc, readInts_flatMap ty vs h, u8_b8]
  | floats bs =>
    simp only at hc
    have hf := readFloats_flatMap bs
    simp only [putU32] at hf
    simp [auxOfRaw, putU32, count_roundtrip bs.length hc, hf, u8_b8]

/-! ### the record -/

/-- representation invariants of a decoded record (what Go's types guarantee): CIGAR operations are 4-bit
types with 28-bit lengths, aux integers lie in their type, `A` is ASCII, arrays fit a 32-bit count -/
def RepOK (r : Record) : Prop :=
  (∀ co ∈ r.cigar, co.typ < 16 ∧ co.len < 268435456) ∧ ∀ a ∈ r.aux, AuxRep a ∧ AuxCountOK a

theorem mapM_auxOfRaw (l : List Aux) (h : ∀ a ∈ l, AuxRep a ∧ AuxCountOK a) :
    (l.map auxRaw).mapM auxOfRaw = some l :=
  mapM_map_some auxRaw auxOfRaw l (fun a ha => auxOfRaw_auxRaw a (h a ha).1 (h a ha).2)

theorem map_cigar (l : List CigarOp) (hl : ∀ co ∈ l, co.typ < 16 ∧ co.len < 268435456) :
    (l.map cigarWord).map cigarOfWord = l := by
  induction l with
  | nil => rfl
  | cons co l ih =>
    simp only [List.map_cons, cigarOfWord_cigarWord co (hl co List.mem_cons_self).1 (hl co List.mem_cons_self).2,
      ih (fun x hx => hl x (List.mem_cons_of_mem _ hx))]

/-- reading the memory form of a record back, against its header, gives the record -/
theorem ofBam_toBam (h : Header) (r : Record) (hr : OptRefIn h r.ref) (hm : OptRefIn h r.mateRef) (hrep : RepOK r) :
    ofBam h (toBam r) = some r := by
  unfold ofBam toBam
  simp only [refOf_ref h r.ref hr, refOf_ref h r.mateRef hm, codes_packCodes, mapM_auxOfRaw r.aux hrep.2,
    map_ofNat_val, map_u8_b8, map_cigar r.cigar hrep.1, u8_b8]
  have hq : (r.qual.map (fun q => q.map b8)).map (fun q => q.map u8) = r.qual := by
    cases r.qual with
    | none => rfl
    | some q => simp only [Option.map_some, map_u8_b8]
  rw [hq]

/-- `norm` of the two models correspond: absent qualities are the 0xff run in both -/
theorem norm_toBam (r : Record) : Bam.norm (toBam r) = toBam (norm r) := by
  unfold Bam.norm Bam.qualBytes toBam norm
  cases hq : r.qual with
  | none => simp [b8]
  | some q => simp

/-! ### well-formedness for the BAM codec -/

/-- what the BAM format can hold of a record, beyond `Expressible`: 32-bit POS/PNEXT/TLEN, at most 65535 CIGAR
operations, 32-bit array counts, a block size below 2^31, fewer than 2^31 references -/
def BamRange (h : Header) (r : Record) : Prop :=
  h.refs.length < 2147483648 ∧ inInt32 r.pos ∧ inInt32 r.matePos ∧ inInt32 r.tempLen ∧ r.cigar.length ≤ 65535 ∧
  (∀ a ∈ r.aux, AuxCountOK a) ∧
  32 + r.name.length + 1 + r.cigar.length * 4 + (r.seq.length + 1) / 2 + r.seq.length + auxSize (r.aux.map auxRaw)
    < 2147483648

theorem packCodes_length : ∀ s : List (Fin 16), (packCodes s).length = (s.length + 1) / 2
  | [] => rfl
  | [_] => by simp [packCodes]
  | _ :: _ :: rest => by simp only [packCodes, List.length_cons, packCodes_length rest]; omega

theorem b8_ne_zero (c : UInt8) (h : c ≠ 0) : b8 c ≠ 0#8 := by
  intro e; apply h
  have : u8 (b8 c) = u8 0#8 := by rw [e]
  rw [u8_b8] at this; exact this

theorem not_mem_map_b8 (s : Bytes) (h : (0 : UInt8) ∉ s) : (0#8 : Byte) ∉ s.map b8 := by
  intro hm
  simp only [List.mem_map] at hm
  obtain ⟨c, hc, he⟩ := hm
  have : c ≠ 0 := fun e => h (e ▸ hc)
  exact b8_ne_zero c this he

theorem ge_ne_zero (c : UInt8) (h : 32 ≤ c) : c ≠ 0 := by
  intro e; subst e; revert h; decide

theorem flatMap_length_const {α} (f : α → List Byte) (w : Nat) (l : List α) (h : ∀ x, (f x).length = w) :
    (l.flatMap f).length = l.length * w := by
  induction l with
  | nil => simp
  | cons x l ih => simp [List.flatMap_cons, h x, ih, Nat.succ_mul, Nat.add_comm]

theorem elemWidth_letter (ty : IntTy) : elemWidth (b8 ty.letter) = some (width ty) := by
  cases ty <;> rfl

/-- the raw aux of an expressible field is one the BAM codec can hold (an `H` value may hold any bytes: it is
written as hex digits) -/
theorem auxOK_auxRaw (a : Aux) (h : AuxOK a) (hc : AuxCountOK a) :
    auxOK (auxRaw a) = true := by
  obtain ⟨t0, t1, v⟩ := a
  obtain ⟨htag, hv⟩ := h
  have ht0 : t0 ≠ 0 := by
    unfold TagOK isAlpha at htag
    rcases htag.1 with h | h
    · exact ge_ne_zero _ (UInt8.le_trans (by decide) h.1)
    · exact ge_ne_zero _ (UInt8.le_trans (by decide) h.1)
  have ht1 : t1 ≠ 0 := by
    unfold TagOK isAlnum isAlpha at htag
    rcases htag.2 with (h | h) | h
    · exact ge_ne_zero _ (UInt8.le_trans (by decide) h.1)
    · exact ge_ne_zero _ (UInt8.le_trans (by decide) h.1)
    · exact ge_ne_zero _ (UInt8.le_trans (by decide) h.1)
  unfold AuxCountOK at hc
  unfold auxRaw
  cases v with
  | char c => simp [auxOK]
  | int ty w =>
    obtain ⟨l1, l2, l3, l4, l5, _⟩ := letter_facts ty
    simp [auxOK, l1, l3, l4, l5, elemWidth_letter, intBytes_length]
  | float b => simp [auxOK, elemWidth, putU32]
  | text s =>
    simp only at hv
    have hs : (0 : UInt8) ∉ s := fun hm => ge_ne_zero 0 (hv 0 hm).1 rfl
    have := not_mem_map_b8 s hs
    simp [auxOK, this, Ne.symm (b8_ne_zero t0 ht0), Ne.symm (b8_ne_zero t1 ht1)]
  | hex s => simp [auxOK, b8_ne_zero t0 ht0, b8_ne_zero t1 ht1]
  | ints ty vs =>
    simp only at hc
    obtain ⟨l1, l2, l3, l4, l5, _⟩ := letter_facts ty
    simp [auxOK, putU32, elemWidth_letter, count_roundtrip vs.length hc,
      flatMap_length_const (intBytes ty) (width ty) vs (intBytes_length ty)]
  | floats bs =>
    simp only at hc
    have := flatMap_length_const (fun b : UInt32 => putU32 b.toNat) 4 bs (fun _ => rfl)
    simp only [putU32] at this
    simp [auxOK, putU32, elemWidth, count_roundtrip bs.length hc, this]

/-- the memory form of an expressible record within the BAM ranges is well-formed for the BAM codec -/
theorem wf_toBam (h : Header) (r : Record) (he : Expressible h r) (hb : BamRange h r) :
    WF h.refs.length (toBam r) := by
  obtain ⟨hname, href, hmate, _, _, hqual, haux⟩ := he
  obtain ⟨hn, hp, hmp, htl, hcl, hcnt, hsize⟩ := hb
  have refLt : ∀ (x : Option Ref), OptRefIn h x → ∀ i, x.map (·.id.toNat) = some i → i < h.refs.length := by
    intro x hx i hi
    cases x with
    | none => simp at hi
    | some x =>
      simp only [Option.map_some, Option.some.injEq] at hi
      subst hi
      have := hx.2
      unfold Header.refAt at this
      cases hg : h.refs[x.id.toNat]? with
      | none => rw [hg] at this; simp at this
      | some p => exact (List.getElem?_eq_some_iff.mp hg).1
  refine { nrefs_ok := hn, name_len := ?_, name_nonul := ?_, ref_ok := refLt r.ref href,
           mate_ok := refLt r.mateRef hmate, pos_ok := hp, matePos_ok := hmp, tempLen_ok := htl,
           cigar_count := ?_, seq_len := packCodes_length r.seq, qual_len := ?_, aux_ok := ?_, size_ok := ?_ }
  · simpa [toBam] using ⟨hname.1, hname.2.1⟩
  · apply not_mem_map_b8
    intro hm
    have := hname.2.2 0 hm
    revert this; decide
  · simpa [toBam] using hcl
  · intro q hq
    unfold QualOK at hqual
    simp only [toBam] at hq ⊢
    cases hr : r.qual with
    | none => rw [hr] at hq; simp at hq
    | some q0 =>
      rw [hr] at hq hqual
      simp only [Option.map_some, Option.some.injEq] at hq
      subst hq
      simpa using hqual.1
  · intro a ha
    simp only [toBam, List.mem_map] at ha
    obtain ⟨a0, ha0, rfl⟩ := ha
    exact auxOK_auxRaw a0 (haux a0 ha0) (hcnt a0 ha0)
  · simpa [toBam, packCodes_length] using hsize

end Hts.Model.SamBam
