/-
`Reader.read` from a byte position (`k < len`) in Blocked and in unblocked mode: exact results.
-/
import Hts.Lemmas.ReaderRead
namespace Hts.Model.Bgzf
open Hts.Spec.Flat

/-- `Read` in Blocked mode from a byte position (`k < len`): at most the rest of the member. -/
theorem read_blocked_canon {F : File} (hwf : WF F) {r : Reader} {pre : File} {m : Member} {post : File}
    {k : Nat} (h : At F r pre m post k) (hk : k < m.data.length) (hb : r.blocked = true) (n : Nat) :
    ∃ r', r.read n = (r', (m.data.drop k).take n, if m.data.length - k < n then some .eof else none) ∧
      At F r' pre m post (k + min n (m.data.length - k)) ∧ r'.blocked = true ∧
      r'.lastChunk = ⟨⟨csum pre, k⟩, ⟨csum pre, k + min n (m.data.length - k)⟩⟩ := by
  have hfuel : post.length < r.skipFuel := by
    simp only [Reader.skipFuel, h.file, h.split, List.length_append, List.length_cons]; omega
  have hsk : r.skipEmpty r.skipFuel = r := (skipEmpty_at hwf post pre m k r r.skipFuel h hfuel).1 hk
  rw [read_skip_ok r n h.err (by rw [hsk]; exact h.err), hsk]
  generalize hr2 : ({ r with lastChunk := ⟨r.cur.tx, r.lastChunk.fin⟩ } : Reader) = r2
  have h2 : At F r2 pre m post k := by subst hr2; exact ⟨h.file, h.split, h.cur, h.le, h.err⟩
  have hb2 : r2.blocked = true := by subst hr2; exact hb
  have hl2 : r2.lastChunk.bgn = ⟨csum pre, k⟩ := by subst hr2; simp [h.cur]
  have hf2 : r2.file = r.file := by subst hr2; rfl
  rw [← hf2]
  by_cases hn : n = 0
  · subst hn
    refine ⟨r2.setEnd, by simp [readLoop_zero, h2.err], by simpa using h2.setEnd, hb2, ?_⟩
    simp [Reader.setEnd, hl2, h2.cur]
  · have hn0 : 0 < n := by omega
    by_cases hle : k + n ≤ m.data.length
    · have hmin : min n (m.data.length - k) = n := by omega
      have : ¬ (m.data.length - k < n) := by omega
      rw [show 2 * r2.file.length + 3 = (2 * r2.file.length + 1) + 2 by omega,
        readLoop_within hwf h2 n _ hn0 hle, hmin]
      refine ⟨(r2.adv n).setEnd, by simp [this], (h2.adv n hle).setEnd, hb2, ?_⟩
      simp [Reader.setEnd, Reader.adv, hl2, h2.cur]
    · have hmin : min n (m.data.length - k) = m.data.length - k := by omega
      have hlt : m.data.length - k < n := by omega
      rw [show 2 * r2.file.length + 3 = (2 * r2.file.length + 1) + 1 + 1 by omega,
        readLoop_step hwf h2 hk n _ hn0, hmin]
      have h3 : At F (r2.adv (m.data.length - k)) pre m post m.data.length := by
        have := h2.adv (m.data.length - k) (by omega)
        rwa [show k + (m.data.length - k) = m.data.length by omega] at this
      simp only [readLoop_end_blocked h3 hb2 (n - (m.data.length - k)) _ (by omega)]
      refine ⟨(r2.adv (m.data.length - k)).setEnd, ?_, ?_, hb2, ?_⟩
      · have : List.take n (List.drop k m.data) = List.drop k m.data :=
          List.take_of_length_le (by simp; omega)
        simp [hlt, this]
      · rw [show k + (m.data.length - k) = m.data.length by omega]; exact h3.setEnd
      · simp [Reader.setEnd, Reader.adv, hl2, h2.cur]

/-- `Read` in unblocked mode from a byte position (`k < len`). -/
theorem read_unblocked_canon {F : File} (hwf : WF F) {r : Reader} {pre : File} {m : Member} {post : File}
    {k : Nat} (h : At F r pre m post k) (hk : k < m.data.length) (hb : r.blocked = false) (n : Nat) :
    ∃ r', r.read n = (r', (m.data.drop k ++ flatBytes post).take n,
        if (m.data.drop k ++ flatBytes post).length < n then some .eof else none) ∧
      r'.blocked = false ∧ r'.file = F ∧ r'.lastChunk.bgn = ⟨csum pre, k⟩ ∧
      (n = 0 → At F r' pre m post k ∧ r'.lastChunk.fin = ⟨csum pre, k⟩) ∧
      (0 < n → n ≤ (m.data.drop k ++ flatBytes post).length →
        ∃ pre' m' post' k', At F r' pre' m' post' k' ∧ flatLen pre' + k' = flatLen pre + k + n ∧ 0 < k' ∧
          r'.lastChunk.fin = ⟨csum pre', k'⟩) ∧
      ((m.data.drop k ++ flatBytes post).length < n → AtEOF F r' ∧ r'.lastChunk.fin = ⟨csum F, 0⟩) := by
  have hfuel : post.length < r.skipFuel := by
    simp only [Reader.skipFuel, h.file, h.split, List.length_append, List.length_cons]; omega
  have hsk : r.skipEmpty r.skipFuel = r := (skipEmpty_at hwf post pre m k r r.skipFuel h hfuel).1 hk
  rw [read_skip_ok r n h.err (by rw [hsk]; exact h.err), hsk]
  generalize hr2 : ({ r with lastChunk := ⟨r.cur.tx, r.lastChunk.fin⟩ } : Reader) = r2
  have h2 : At F r2 pre m post k := by subst hr2; exact ⟨h.file, h.split, h.cur, h.le, h.err⟩
  have hb2 : r2.blocked = false := by subst hr2; exact hb
  have hl2 : r2.lastChunk.bgn = ⟨csum pre, k⟩ := by subst hr2; simp [h.cur]
  have hf2 : r2.file = r.file := by subst hr2; rfl
  have hflen : r.file.length = pre.length + 1 + post.length := by
    rw [h.file, h.split]; simp; omega
  rw [← hf2] at hflen ⊢
  have hal : (m.data.drop k ++ flatBytes post).length = m.data.length - k + flatLen post := by simp
  by_cases hn : n = 0
  · subst hn
    refine ⟨r2.setEnd, by simp [readLoop_zero, h2.err], hb2, h2.file, hl2, fun _ => ⟨h2.setEnd, ?_⟩,
      fun h0 => absurd h0 (by omega), fun hlt => absurd hlt (by omega)⟩
    simp [Reader.setEnd, h2.cur]
  · have hn0 : 0 < n := by omega
    by_cases hle : k + n ≤ m.data.length
    · have : ¬ ((m.data.drop k ++ flatBytes post).length < n) := by rw [hal]; omega
      rw [show 2 * r2.file.length + 3 = (2 * r2.file.length + 1) + 2 by omega,
        readLoop_within hwf h2 n _ hn0 hle]
      refine ⟨(r2.adv n).setEnd, ?_, hb2, h2.file, hl2, fun h0 => absurd h0 hn, fun _ _ => ?_,
        fun hlt => absurd hlt this⟩
      · have ht : List.take n (List.drop k m.data ++ flatBytes post) = List.take n (List.drop k m.data) := by
          rw [List.take_append]; simp; omega
        have hif : ¬ (m.data.length - k + flatLen post < n) := by omega
        simp [ht, hif]
      · exact ⟨pre, m, post, k + n, (h2.adv n hle).setEnd, by omega, by omega, by simp [Reader.setEnd, Reader.adv, h2.cur]⟩
    · have hmin : min n (m.data.length - k) = m.data.length - k := by omega
      rw [show 2 * r2.file.length + 3 = (2 * r2.file.length + 2) + 1 by omega,
        readLoop_step hwf h2 hk n _ hn0, hmin]
      have h3 : At F (r2.adv (m.data.length - k)) pre m post m.data.length := by
        have := h2.adv (m.data.length - k) (by omega)
        rwa [show k + (m.data.length - k) = m.data.length by omega] at this
      have hres := readLoop_unblocked_end hwf post pre m (r2.adv (m.data.length - k))
        (n - (m.data.length - k)) (2 * r2.file.length + 2) h3 hb2 (by omega) (by omega)
      have hpre := LoopRes.prepend (r := r2) (r2 := r2.adv (m.data.length - k)) (p := flatLen pre + k)
        (m.data.drop k) (by simpa [show flatLen pre + k + (m.data.length - k) = flatLen pre + m.data.length by omega] using hres)
        ⟨rfl, rfl, rfl⟩
      have hn2 : (m.data.drop k).length + (n - (m.data.length - k)) = n := by simp; omega
      rw [hn2] at hpre
      have ht : List.take n (List.drop k m.data) = List.drop k m.data :=
        List.take_of_length_le (by simp; omega)
      simp only [ht]
      refine ⟨_, ?_, hpre.frame.1.trans hb2, hpre.frame.2.1.trans h2.file, hpre.frame.2.2.trans hl2,
        fun h0 => absurd h0 hn, fun _ hle' => ?_, fun hlt => (hpre.eof hlt).2⟩
      · have hb := hpre.bytes
        simp only at hb
        by_cases hlt : (m.data.drop k ++ flatBytes post).length < n
        · simp only [hlt, if_true]
          rw [← (hpre.eof hlt).1, ← hb]
        · simp only [hlt, if_false]
          rw [← (hpre.ok (by omega)).1, ← hb]
      · obtain ⟨_, pre', m', post', k', hat, hpos, hk', hfin⟩ := hpre.ok hle'
        exact ⟨pre', m', post', k', hat, hpos, hk', hfin⟩

end Hts.Model.Bgzf
