/-
C19 helper lemmas, part 4: the `Seq.Read` loop returns the requested bases, for any record whose layout
is `Good` for the file (the bases of one line are contiguous at `position`).
-/
import Hts.Model.Fai
set_option linter.unusedVariables false
set_option linter.unusedSimpArgs false
namespace Hts.Lemmas.Fai
open Hts.Model.Fai

/-- The layout facts the read loop relies on. `B` are the bases of the record described by `R` in file `F`. -/
structure Good (F : Bytes) (R : Record) (B : Bytes) : Prop where
  len : R.length = B.length
  bpl_pos : B ≠ [] → 0 < R.basesPerLine
  bpl_le : R.basesPerLine ≤ R.bytesPerLine
  slice : ∀ p n, p + n ≤ B.length → n ≤ R.endOfLineOffset p →
    readAt F (R.position p) n = (B.drop p).take n

theorem position_of_pos (R : Record) (p : Nat) (h : 0 < R.basesPerLine) :
    R.position p = R.start + (p / R.basesPerLine * R.bytesPerLine + p % R.basesPerLine) := by
  unfold Record.position
  rw [if_neg (by omega)]

/-- line arithmetic of `position` / `endOfLineOffset` -/
theorem line_arith (w W cur stop L : Nat) (hw : 0 < w) (hwW : w ≤ W) (h1 : cur < stop) (h2 : stop ≤ L) :
    (cur / w * W + cur % w) < (stop / w * W + stop % w) ∧
    min (if cur / w = L / w then L - cur else w - cur % w)
        ((stop / w * W + stop % w) - (cur / w * W + cur % w)) =
      min (if cur / w = L / w then L - cur else w - cur % w) (stop - cur) ∧
    1 ≤ (if cur / w = L / w then L - cur else w - cur % w) ∧
    cur + (if cur / w = L / w then L - cur else w - cur % w) ≤ L := by
  have ec := Nat.div_add_mod cur w
  have es := Nat.div_add_mod stop w
  have eL := Nat.div_add_mod L w
  have mc := Nat.mod_lt cur hw
  have ms := Nat.mod_lt stop hw
  have mL := Nat.mod_lt L hw
  have qcs : cur / w ≤ stop / w := Nat.div_le_div_right (Nat.le_of_lt h1)
  have qsL : stop / w ≤ L / w := Nat.div_le_div_right h2
  generalize cur / w = qc at *
  generalize stop / w = qs at *
  generalize L / w = qL at *
  generalize cur % w = rc at *
  generalize stop % w = rs at *
  generalize L % w = rL at *
  have step1 : ∀ a b : Nat, a < b → w * a + w ≤ w * b ∧ a * W + W ≤ b * W := by
    intro a b hab
    have h1 := Nat.mul_le_mul_left w (show a + 1 ≤ b from hab)
    have h2 := Nat.mul_le_mul_right W (show a + 1 ≤ b from hab)
    rw [Nat.mul_add, Nat.mul_one] at h1
    rw [Nat.add_mul, Nat.one_mul] at h2
    exact ⟨h1, h2⟩
  by_cases hcs : qc = qs
  · subst hcs
    by_cases hcL : qc = qL
    · subst hcL
      simp only [if_true]
      omega
    · have := step1 qc qL (by omega)
      simp only [hcL, if_false]
      omega
  · have hs := step1 qc qs (by omega)
    by_cases hcL : qc = qL
    · subst hcL
      simp only [if_true]
      omega
    · have := step1 qc qL (by omega)
      simp only [hcL, if_false]
      omega

theorem readLoop_spec (F : Bytes) (R : Record) (B : Bytes) (g : Good F R B) (stop : Nat)
    (hstop : stop ≤ B.length) :
    ∀ (n cur k : Nat) (acc : Bytes), stop - cur ≤ n → cur ≤ stop → 1 ≤ k →
      readLoop F R (R.position stop) stop cur k acc =
        ⟨acc ++ (B.drop cur).take (min k (stop - cur)),
         if k ≤ stop - cur then .nil else .eof,
         cur + min k (stop - cur)⟩ := by
  unfold readLoop
  intro n
  induction n with
  | zero =>
    intro cur k acc hn hcs hk
    have : ¬ cur < stop := by omega
    rw [readLoopG, dif_neg this]
    have e : stop - cur = 0 := by omega
    have hk' : ¬ k ≤ 0 := by omega
    simp [e, hk']
  | succ n ih =>
    intro cur k acc hn hcs hk
    by_cases hlt : cur < stop
    · have hBne : B ≠ [] := by
        intro h; rw [h] at hstop; simp at hstop; omega
      have hw := g.bpl_pos hBne
      have hL : stop ≤ R.length := by rw [g.len]; exact hstop
      obtain ⟨a1, a2, a3, a4⟩ := line_arith R.basesPerLine R.bytesPerLine cur stop R.length hw g.bpl_le hlt hL
      have hpos : ¬ (R.position stop ≤ R.position cur) := by
        rw [position_of_pos R _ hw, position_of_pos R _ hw]; omega
      have heol : R.endOfLineOffset cur =
          (if cur / R.basesPerLine = R.length / R.basesPerLine then R.length - cur
           else R.basesPerLine - cur % R.basesPerLine) := rfl
      have hsub : R.position stop - R.position cur =
          (stop / R.basesPerLine * R.bytesPerLine + stop % R.basesPerLine) -
          (cur / R.basesPerLine * R.bytesPerLine + cur % R.basesPerLine) := by
        rw [position_of_pos R _ hw, position_of_pos R _ hw]; omega
      -- the number of bytes asked from ReadAt
      have hwant : min (min (R.endOfLineOffset cur) (R.position stop - R.position cur)) k =
          min (min (R.endOfLineOffset cur) (stop - cur)) k := by
        rw [hsub, heol, a2]
      rw [← heol] at a3 a4
      generalize hE : R.endOfLineOffset cur = E at *
      have hgot : readAt F (R.position cur) (min (min E (stop - cur)) k) =
          (B.drop cur).take (min (min E (stop - cur)) k) := by
        apply g.slice
        · rw [g.len] at a4; omega
        · rw [hE]; omega
      have hgl : ((B.drop cur).take (min (min E (stop - cur)) k)).length = min (min E (stop - cur)) k := by
        rw [List.length_take, List.length_drop]; rw [g.len] at a4; omega
      rw [readLoopG, dif_pos hlt]
      simp only [hpos, if_false, hE, hwant]
      have hw0 : ¬ (min (min E (stop - cur)) k = 0) := by omega
      rw [dif_neg hw0, hgot]
      simp only [hgl, Nat.lt_irrefl, dite_false]
      by_cases hk0 : k - min (min E (stop - cur)) k = 0
      · simp only [hk0, if_true]
        have hmin : min k (stop - cur) = min (min E (stop - cur)) k := by omega
        have hle : k ≤ stop - cur := by omega
        rw [hmin]; simp only [hle, if_true]
      · simp only [hk0, if_false]
        rw [ih _ _ _ (by omega) (by omega) (by omega)]
        have hsplit : min k (stop - cur) = min (min E (stop - cur)) k +
            min (k - min (min E (stop - cur)) k) (stop - (cur + min (min E (stop - cur)) k)) := by omega
        rw [hsplit, List.take_add, List.drop_drop, List.append_assoc]
        have hiff : (k - min (min E (stop - cur)) k ≤ stop - (cur + min (min E (stop - cur)) k)) ↔
            (k ≤ stop - cur) := by omega
        simp only [hiff, ← hsplit, Nat.add_assoc]
    · have e : stop - cur = 0 := by omega
      rw [readLoopG, dif_neg hlt]
      have hk' : ¬ k ≤ 0 := by omega
      simp [e, hk']

/-- One `Read` call with a buffer of `k` bytes returns the next `min k (stop - cur)` bases; the error is
`nil` when the buffer was filled and `io.EOF` otherwise. -/
theorem read_spec (F : Bytes) (R : Record) (B : Bytes) (g : Good F R B) (s : Seq) (hs : s.rcd = R)
    (h1 : s.cur ≤ s.stop) (h2 : s.stop ≤ B.length) (k : Nat) :
    s.read F k = ⟨(B.drop s.cur).take (min k (s.stop - s.cur)),
                  if k ≤ s.stop - s.cur then .nil else .eof,
                  s.cur + min k (s.stop - s.cur)⟩ := by
  unfold Seq.read
  by_cases hk : k = 0
  · simp [hk]
  · simp only [hk, if_false]
    by_cases hc : s.stop ≤ s.cur
    · have e : s.stop - s.cur = 0 := by omega
      have hk' : ¬ k ≤ 0 := by omega
      simp [hc, e, hk']
    · simp only [hc, if_false]
      have hBne : B ≠ [] := by
        intro h; rw [h] at h2; simp at h2; omega
      have hw := g.bpl_pos hBne
      rw [hs]
      have : ¬ (R.basesPerLine = 0) := by omega
      simp only [this, if_false]
      rw [readLoop_spec F R B g s.stop h2 (s.stop - s.cur) s.cur k [] (Nat.le_refl _) h1 (by omega)]
      simp

/-- what a run of `Read` calls must return, stated without the model: each call takes the next `k` bases
while at least `k` remain; the first call that cannot be filled returns the rest together with io.EOF. -/
def expectedCalls (B : Bytes) (stop : Nat) : Nat → List Nat → List (Bytes × RdErr)
  | _, [] => []
  | cur, k :: ks =>
    if k ≤ stop - cur then ((B.drop cur).take k, .nil) :: expectedCalls B stop (cur + k) ks
    else [((B.drop cur).take (stop - cur), .eof)]

theorem readCalls_spec (F : Bytes) (R : Record) (B : Bytes) (g : Good F R B) (start stop : Nat)
    (h2 : stop ≤ B.length) (ks : List Nat) :
    ∀ cur, cur ≤ stop → readCalls F ⟨R, cur, start, stop⟩ ks = expectedCalls B stop cur ks := by
  induction ks with
  | nil => intro cur _; rfl
  | cons k ks ih =>
    intro cur hc
    have hr := read_spec F R B g ⟨R, cur, start, stop⟩ rfl hc h2 k
    simp only at hr
    simp only [readCalls, expectedCalls, hr]
    by_cases hk : k ≤ stop - cur
    · have hm : min k (stop - cur) = k := by omega
      simp only [hk, if_true, hm]
      rw [ih (cur + k) (by omega)]
    · have hm : min k (stop - cur) = stop - cur := by omega
      simp only [hk, if_false, hm]

/-- the bytes delivered by a run of calls are the next `min (stop-cur) (sum of sizes)` bases -/
theorem expectedCalls_data (B : Bytes) (stop : Nat) (ks : List Nat) :
    ∀ cur, ((expectedCalls B stop cur ks).map (·.1)).flatten = (B.drop cur).take (min (stop - cur) ks.sum) := by
  induction ks with
  | nil => intro cur; simp [expectedCalls]
  | cons k ks ih =>
    intro cur
    simp only [expectedCalls]
    by_cases hk : k ≤ stop - cur
    · simp only [hk, if_true, List.map_cons, List.flatten_cons, ih, List.sum_cons]
      have : min (stop - cur) (k + ks.sum) = k + min (stop - (cur + k)) ks.sum := by omega
      rw [this, List.take_add, List.drop_drop]
    · simp only [hk, if_false, List.map_cons, List.map_nil, List.flatten_cons, List.flatten_nil,
        List.append_nil, List.sum_cons]
      have : min (stop - cur) (k + ks.sum) = stop - cur := by omega
      rw [this]

/-- with enough buffer space the run ends with io.EOF, and every earlier call returned nil -/
theorem expectedCalls_eof (B : Bytes) (stop : Nat) (ks : List Nat) :
    ∀ cur, stop - cur < ks.sum →
      ∃ pre d, expectedCalls B stop cur ks = pre ++ [(d, .eof)] ∧ ∀ r ∈ pre, r.2 = .nil := by
  induction ks with
  | nil => intro cur h; simp at h
  | cons k ks ih =>
    intro cur h
    simp only [expectedCalls]
    by_cases hk : k ≤ stop - cur
    · simp only [hk, if_true]
      obtain ⟨pre, d, h1, h2⟩ := ih (cur + k) (by simp only [List.sum_cons] at h; omega)
      refine ⟨((B.drop cur).take k, .nil) :: pre, d, by rw [h1]; rfl, ?_⟩
      intro r hr
      rcases List.mem_cons.mp hr with rfl | hr
      · rfl
      · exact h2 r hr
    · simp only [hk, if_false]
      exact ⟨[], _, rfl, by simp⟩

/-- without enough buffer space no call reports an error -/
theorem expectedCalls_nil (B : Bytes) (stop : Nat) (ks : List Nat) :
    ∀ cur, ks.sum ≤ stop - cur → ∀ r ∈ expectedCalls B stop cur ks, r.2 = .nil := by
  induction ks with
  | nil => intro cur _ r hr; simp [expectedCalls] at hr
  | cons k ks ih =>
    intro cur h r hr
    simp only [List.sum_cons] at h
    have hk : k ≤ stop - cur := by omega
    simp only [expectedCalls, hk, if_true, List.mem_cons] at hr
    rcases hr with rfl | hr
    · rfl
    · exact ih (cur + k) (by omega) r hr

theorem readLoopG_lt (file : Bytes) (pos eol : Nat → Nat) (endPos stop cur k : Nat) (acc : Bytes)
    (h : cur < stop) :
    readLoopG file pos eol endPos stop cur k acc =
      if endPos ≤ pos cur then ⟨acc, .badLayout, cur⟩
      else
        if min (min (eol cur) (endPos - pos cur)) k = 0 then ⟨acc, .badLayout, cur⟩
        else
          if (readAt file (pos cur) (min (min (eol cur) (endPos - pos cur)) k)).length <
              min (min (eol cur) (endPos - pos cur)) k then
            ⟨acc ++ readAt file (pos cur) (min (min (eol cur) (endPos - pos cur)) k), .eof,
              cur + (readAt file (pos cur) (min (min (eol cur) (endPos - pos cur)) k)).length⟩
          else if k - (readAt file (pos cur) (min (min (eol cur) (endPos - pos cur)) k)).length = 0 then
            ⟨acc ++ readAt file (pos cur) (min (min (eol cur) (endPos - pos cur)) k), .nil,
              cur + (readAt file (pos cur) (min (min (eol cur) (endPos - pos cur)) k)).length⟩
          else readLoopG file pos eol endPos stop
            (cur + (readAt file (pos cur) (min (min (eol cur) (endPos - pos cur)) k)).length)
            (k - (readAt file (pos cur) (min (min (eol cur) (endPos - pos cur)) k)).length)
            (acc ++ readAt file (pos cur) (min (min (eol cur) (endPos - pos cur)) k)) := by
  rw [readLoopG, dif_pos h]
  rfl

theorem readLoopG_ge (file : Bytes) (pos eol : Nat → Nat) (endPos stop cur k : Nat) (acc : Bytes)
    (h : ¬ cur < stop) : readLoopG file pos eol endPos stop cur k acc = ⟨acc, .eof, cur⟩ := by
  rw [readLoopG, dif_neg h]

/-- The loop looks at `pos` and `eol` only at cursors below `stop`: two pairs of functions that agree there
give the same run.  (This is the guard under which the regenerated `endOfLineOffset`/`position` are tied to the
model: `Hts.Tie.C19.tie_readLoop`.) -/
theorem readLoopG_congr (file : Bytes) (pos eol pos' eol' : Nat → Nat) (endPos stop : Nat)
    (h : ∀ p, p < stop → pos p = pos' p ∧ eol p = eol' p) :
    ∀ (n cur k : Nat) (acc : Bytes), stop - cur ≤ n →
      readLoopG file pos eol endPos stop cur k acc = readLoopG file pos' eol' endPos stop cur k acc := by
  intro n
  induction n with
  | zero =>
    intro cur k acc hn
    have : ¬ cur < stop := by omega
    rw [readLoopG_ge _ _ _ _ _ _ _ _ this, readLoopG_ge _ _ _ _ _ _ _ _ this]
  | succ n ih =>
    intro cur k acc hn
    by_cases hlt : cur < stop
    · obtain ⟨h1, h2⟩ := h cur hlt
      rw [readLoopG_lt _ pos eol _ _ _ _ _ hlt, readLoopG_lt _ pos' eol' _ _ _ _ _ hlt, ← h1, ← h2]
      by_cases hp : endPos ≤ pos cur
      · simp only [hp, if_true]
      · simp only [hp, if_false]
        by_cases hw : min (min (eol cur) (endPos - pos cur)) k = 0
        · simp only [hw, if_true]
        · simp only [hw, if_false]
          by_cases hg : (readAt file (pos cur) (min (min (eol cur) (endPos - pos cur)) k)).length <
              min (min (eol cur) (endPos - pos cur)) k
          · simp only [hg, if_true]
          · simp only [hg, if_false]
            by_cases hk : k - (readAt file (pos cur) (min (min (eol cur) (endPos - pos cur)) k)).length = 0
            · simp only [hk, if_true]
            · simp only [hk, if_false]
              apply ih
              have : 0 < (readAt file (pos cur) (min (min (eol cur) (endPos - pos cur)) k)).length := by omega
              omega
    · rw [readLoopG_ge _ _ _ _ _ _ _ _ hlt, readLoopG_ge _ _ _ _ _ _ _ _ hlt]
