/-
The reader model on a split file ("zipper"): exact results of `nextBlock`, `skipEmpty`, `readLoop`,
`read`, `readByte` and `seek` from a state that stands at offset `k` of member `m`.
-/
import Hts.Lemmas.ReaderBasic
namespace Hts.Model.Bgzf
open Hts.Spec.Flat

/-- `r` stands at offset `k` of member `m` of the file `F = pre ++ m :: post`, without a pending error. -/
structure At (F : File) (r : Reader) (pre : File) (m : Member) (post : File) (k : Nat) : Prop where
  file : r.file = F
  split : F = pre ++ m :: post
  cur : r.cur = ⟨csum pre, m.csize, m.data, k, ⟨csum pre, k⟩⟩
  le : k ≤ m.data.length
  err : r.err = none

/-- `r` has run into the end of the file: sticky `io.EOF`, the (stale) current block re-based at the
file length. -/
structure AtEOF (F : File) (r : Reader) : Prop where
  file : r.file = F
  err : r.err = some .eof
  base : r.cur.base = csum F
  tx : r.cur.tx = ⟨csum F, 0⟩

/-- `r'` differs from `r` at most in the current block and the error. -/
def Frame (r r' : Reader) : Prop :=
  r'.file = r.file ∧ r'.lastChunk = r.lastChunk ∧ r'.blocked = r.blocked

theorem Frame.refl (r : Reader) : Frame r r := ⟨rfl, rfl, rfl⟩

theorem nextBlock_nil {F : File} {r : Reader} {pre : File} {m : Member} {k : Nat}
    (hwf : WF F) (h : At F r pre m [] k) :
    r.nextBlock = ({ r with cur := Block.failed (csum F) }, some .eof) := by
  obtain ⟨hf, hs, hc, _, _⟩ := h
  have hw : WF (pre ++ [m]) := by rw [hs] at hwf; simpa using hwf
  have hm : memberAt r.file (r.cur.nextBase) = .eof := by
    rw [hf, hs, hc]
    have := memberAt_split (pre ++ [m]) [] hw
    simp only [List.append_assoc, List.cons_append, List.nil_append, csum_append, csum] at this
    simpa [Block.nextBase, memberAt_zero_nil] using this
  simp only [Reader.nextBlock, Block.load, hm]
  rw [hc]; simp [Block.nextBase, hs, csum]

theorem nextBlock_cons {F : File} {r : Reader} {pre : File} {m m' : Member} {post : File} {k : Nat}
    (hwf : WF F) (h : At F r pre m (m' :: post) k) :
    r.nextBlock = ({ r with cur := ⟨csum (pre ++ [m]), m'.csize, m'.data, 0, ⟨csum (pre ++ [m]), 0⟩⟩ }, none) := by
  obtain ⟨hf, hs, hc, _, _⟩ := h
  have hw : WF (pre ++ [m]) := by
    rw [hs] at hwf
    have : pre ++ m :: m' :: post = (pre ++ [m]) ++ (m' :: post) := by simp
    rw [this] at hwf; exact hwf.append_left
  have hm : memberAt r.file (r.cur.nextBase) = .ok m' := by
    rw [hf, hs, hc]
    have := memberAt_split (pre ++ [m]) (m' :: post) hw
    simp only [List.append_assoc, List.cons_append, List.nil_append, csum_append, csum] at this
    simpa [Block.nextBase, memberAt_zero_cons] using this
  simp only [Reader.nextBlock, Block.load, hm]
  rw [hc]; simp [Block.nextBase, csum]

/-- Result of the empty-block skipping loop. -/
theorem skipEmpty_at {F : File} (hwf : WF F) :
    ∀ (post pre : File) (m : Member) (k : Nat) (r : Reader) (fuel : Nat),
      At F r pre m post k → post.length < fuel →
      (k < m.data.length → r.skipEmpty fuel = r) ∧
      (k = m.data.length →
        Frame r (r.skipEmpty fuel) ∧
        ((∃ es m' post', post = es ++ m' :: post' ∧ (∀ e ∈ es, e.data = []) ∧ 0 < m'.data.length ∧
            At F (r.skipEmpty fuel) (pre ++ m :: es) m' post' 0) ∨
         ((∀ e ∈ post, e.data = []) ∧ AtEOF F (r.skipEmpty fuel)))) := by
  intro post
  induction post with
  | nil =>
    intro pre m k r fuel h hfuel
    obtain ⟨fuel, rfl⟩ : ∃ f, fuel = f + 1 := ⟨fuel - 1, by simp at hfuel; omega⟩
    have hc := h.cur
    refine ⟨fun hk => ?_, fun hk => ?_⟩
    · have : r.cur.len ≠ 0 := by rw [hc]; simp [Block.len]; omega
      simp [Reader.skipEmpty, this]
    · have hl : r.cur.len = 0 := by rw [hc]; simp [Block.len]; omega
      simp only [Reader.skipEmpty, hl, if_true, nextBlock_nil hwf h]
      refine ⟨⟨rfl, rfl, rfl⟩, Or.inr ⟨by simp, ⟨h.file, rfl, rfl, rfl⟩⟩⟩
  | cons m' post ih =>
    intro pre m k r fuel h hfuel
    obtain ⟨fuel, rfl⟩ : ∃ f, fuel = f + 1 := ⟨fuel - 1, by simp at hfuel; omega⟩
    have hc := h.cur
    refine ⟨fun hk => ?_, fun hk => ?_⟩
    · have : r.cur.len ≠ 0 := by rw [hc]; simp [Block.len]; omega
      simp [Reader.skipEmpty, this]
    · have hl : r.cur.len = 0 := by rw [hc]; simp [Block.len]; omega
      -- the state after loading m'
      let r1 : Reader := { r with cur := ⟨csum (pre ++ [m]), m'.csize, m'.data, 0, ⟨csum (pre ++ [m]), 0⟩⟩, err := none }
      have key : r.skipEmpty (fuel + 1) = r1.skipEmpty fuel := by
        simp only [Reader.skipEmpty, hl, if_true, nextBlock_cons hwf h, r1]
      rw [key]
      have h1 : At F r1 (pre ++ [m]) m' post 0 :=
        ⟨h.file, by rw [h.split]; simp, rfl, Nat.zero_le _, rfl⟩
      have hfuel1 : post.length < fuel := by simp at hfuel; omega
      have ⟨ihA, ihB⟩ := ih (pre ++ [m]) m' 0 r1 fuel h1 hfuel1
      by_cases hm' : 0 < m'.data.length
      · rw [ihA hm']
        refine ⟨⟨rfl, rfl, rfl⟩, Or.inl ⟨[], m', post, by simp, by simp, hm', ?_⟩⟩
        simpa using h1
      · have hz : 0 = m'.data.length := by omega
        have ⟨hfr, hres⟩ := ihB hz
        refine ⟨⟨hfr.1, hfr.2.1, hfr.2.2⟩, ?_⟩
        rcases hres with ⟨es, m'', post', hp, hes, hm'', hat⟩ | ⟨hall, heof⟩
        · refine Or.inl ⟨m' :: es, m'', post', by simp [hp], ?_, hm'', ?_⟩
          · intro e he
            rcases List.mem_cons.mp he with rfl | he
            · exact List.length_eq_zero_iff.mp hz.symm
            · exact hes e he
          · have hat' := hat
            simp only [List.append_assoc, List.cons_append, List.nil_append] at hat'
            exact hat'
        · refine Or.inr ⟨?_, heof⟩
          intro e he
          rcases List.mem_cons.mp he with rfl | he
          · exact List.length_eq_zero_iff.mp hz.symm
          · exact hall e he

end Hts.Model.Bgzf
