/-
`csi.Index` (model: Hts.Model.Csi): invariants of Add over coordinate-sorted input and completeness of
Chunks.  Same structure as Hts.Lemmas.IndexAdd/IndexAddAll/IndexChunks, without the tile array and
with the per-bin left offset (`loffset`) that `Chunks` prunes with.
-/
import Hts.Lemmas.IndexMerge
import Hts.Model.Csi
namespace Hts.Model.Csi
open Hts.Model.Index

/-- well-formed CSI record for the geometry (minShift, depth) -/
structure CRecOK (ms d : Nat) (r : CRec) : Prop where
  vstart : validPos ms d r.start = true
  vstop : validPos ms d r.stop = true
  rid : r.placed = true → 0 ≤ r.rid
  pos : r.placed = true → 0 ≤ r.start ∧ r.start < r.stop
  cb : 0 ≤ r.chunk.b
  ce : r.chunk.b < r.chunk.e

def CRecLe (a r : CRec) : Prop :=
  a.rid ≤ r.rid ∧ (a.rid = r.rid → a.start ≤ r.start) ∧ a.chunk.e ≤ r.chunk.b

/-- `SortedInput` for CSI -/
structure CSortedInput (ms d : Nat) (recs : List CRec) : Prop where
  ok : ∀ r, r ∈ recs → CRecOK ms d r
  sorted : (recs.filter (·.placed)).Pairwise CRecLe

theorem cRecOK_iff (ms d : Nat) (r : CRec) : CRecOK ms d r ↔
    (validPos ms d r.start = true ∧ validPos ms d r.stop = true ∧ (r.placed = true → 0 ≤ r.rid) ∧
      (r.placed = true → 0 ≤ r.start ∧ r.start < r.stop) ∧ 0 ≤ r.chunk.b ∧ r.chunk.b < r.chunk.e) :=
  ⟨fun h => ⟨h.vstart, h.vstop, h.rid, h.pos, h.cb, h.ce⟩,
   fun ⟨a, b, c, d, e, f⟩ => ⟨a, b, c, d, e, f⟩⟩
instance (ms d : Nat) (r : CRec) : Decidable (CRecOK ms d r) := decidable_of_iff _ (cRecOK_iff ms d r).symm
instance (a r : CRec) : Decidable (CRecLe a r) := by unfold CRecLe; infer_instance
theorem cSortedInput_iff (ms d : Nat) (recs : List CRec) : CSortedInput ms d recs ↔
    ((∀ r, r ∈ recs → CRecOK ms d r) ∧ (recs.filter (·.placed)).Pairwise CRecLe) :=
  ⟨fun h => ⟨h.ok, h.sorted⟩, fun ⟨a, b⟩ => ⟨a, b⟩⟩
instance (ms d : Nat) (recs : List CRec) : Decidable (CSortedInput ms d recs) :=
  decidable_of_iff _ (cSortedInput_iff ms d recs).symm

/-! ### bins -/

theorem addBin_spec (bins : List CBin) (bin : Nat) (c : Chunk)
    (h : ∀ bn, bn ∈ bins → ∀ x, x ∈ bn.chunks → x.e ≤ c.b) :
    (∃ bn, bn ∈ (addBin bins bin c).1 ∧ bn.bin = bin ∧ c ∈ bn.chunks ∧
        (bn.left = c.b ∨ ∃ old, old ∈ bins ∧ bn.left = old.left)) ∧
    (∀ bn, bn ∈ bins → ∃ bn', bn' ∈ (addBin bins bin c).1 ∧ bn'.bin = bn.bin ∧ bn'.left = bn.left ∧
        ∀ x, x ∈ bn.chunks → x ∈ bn'.chunks) ∧
    (∀ bn', bn' ∈ (addBin bins bin c).1 →
      (∃ bn, bn ∈ bins ∧ bn'.bin = bn.bin ∧ bn'.left = bn.left ∧ ∀ x, x ∈ bn'.chunks → x ∈ bn.chunks ∨ x = c) ∨
      (bn'.left = c.b ∧ bn'.chunks = [c])) := by
  induction bins with
  | nil =>
    refine ⟨⟨⟨bin, c.b, 1, [c]⟩, by simp [addBin], rfl, by simp, Or.inl rfl⟩, by simp, ?_⟩
    intro bn' hb
    right
    have : bn' = ⟨bin, c.b, 1, [c]⟩ := by simpa [addBin] using hb
    subst this; exact ⟨rfl, rfl⟩
  | cons b bs ih =>
    have hb := h b List.mem_cons_self
    have hbs : ∀ bn, bn ∈ bs → ∀ x, x ∈ bn.chunks → x.e ≤ c.b :=
      fun bn hbn => h bn (List.mem_cons_of_mem _ hbn)
    by_cases heq : b.bin = bin
    · subst heq
      simp only [addBin, if_true]
      rw [extendChunks_append _ _ hb]
      refine ⟨⟨⟨b.bin, b.left, b.records + 1, b.chunks ++ [c]⟩, List.mem_cons_self, rfl, by simp,
        Or.inr ⟨b, List.mem_cons_self, rfl⟩⟩, ?_, ?_⟩
      · intro bn hbn
        rcases List.mem_cons.1 hbn with rfl | hbn
        · exact ⟨⟨bn.bin, bn.left, bn.records + 1, bn.chunks ++ [c]⟩, List.mem_cons_self, rfl, rfl,
            fun x hx => by simp [hx]⟩
        · exact ⟨bn, List.mem_cons_of_mem _ hbn, rfl, rfl, fun x hx => hx⟩
      · intro bn' hbn'
        rcases List.mem_cons.1 hbn' with rfl | hbn'
        · left
          refine ⟨b, List.mem_cons_self, rfl, rfl, ?_⟩
          intro x hx
          simp only [List.mem_append, List.mem_singleton] at hx
          exact hx
        · left; exact ⟨bn', List.mem_cons_of_mem _ hbn', rfl, rfl, fun x hx => Or.inl hx⟩
    · obtain ⟨⟨bn0, hbn0, hbin0, hc0, hl0⟩, ih2, ih3⟩ := ih hbs
      simp only [addBin, heq, if_false]
      refine ⟨⟨bn0, List.mem_cons_of_mem _ hbn0, hbin0, hc0, ?_⟩, ?_, ?_⟩
      · rcases hl0 with hl0 | ⟨old, ho, hl⟩
        · exact Or.inl hl0
        · exact Or.inr ⟨old, List.mem_cons_of_mem _ ho, hl⟩
      · intro bn hbn
        rcases List.mem_cons.1 hbn with rfl | hbn
        · exact ⟨bn, List.mem_cons_self, rfl, rfl, fun x hx => hx⟩
        · obtain ⟨bn', h1, h2, h3, h4⟩ := ih2 bn hbn
          exact ⟨bn', List.mem_cons_of_mem _ h1, h2, h3, h4⟩
      · intro bn' hbn'
        rcases List.mem_cons.1 hbn' with rfl | hbn'
        · left; exact ⟨bn', List.mem_cons_self, rfl, rfl, fun x hx => Or.inl hx⟩
        · rcases ih3 bn' hbn' with ⟨bn, h1, h2, h3, h4⟩ | h
          · left; exact ⟨bn, List.mem_cons_of_mem _ h1, h2, h3, h4⟩
          · right; exact h

theorem extendChunks_length_le (cs : List Chunk) (c : Chunk) : (extendChunks cs c).length ≤ cs.length + 1 := by
  induction cs with
  | nil => simp [extendChunks]
  | cons x xs ih =>
    unfold extendChunks
    split
    · simp
    · simp only [List.length_cons]; omega

/-- sizes after `addBin`: every bin is an old one with at most one more chunk and record, or the new one -/
theorem addBin_sizes (bins : List CBin) (bin : Nat) (c : Chunk) :
    ∀ bn', bn' ∈ (addBin bins bin c).1 →
      (∃ bn, bn ∈ bins ∧ bn'.bin = bn.bin ∧ bn'.left = bn.left ∧ bn'.chunks.length ≤ bn.chunks.length + 1 ∧
        bn'.records ≤ bn.records + 1) ∨ bn' = ⟨bin, c.b, 1, [c]⟩ := by
  induction bins with
  | nil => intro bn' hb; right; simpa [addBin] using hb
  | cons b bs ih =>
    intro bn' hbn'
    by_cases heq : b.bin = bin
    · subst heq
      simp only [addBin, if_true] at hbn'
      rcases List.mem_cons.1 hbn' with rfl | hbn'
      · left
        exact ⟨b, List.mem_cons_self, rfl, rfl, extendChunks_length_le _ _, Nat.le_refl _⟩
      · left; exact ⟨bn', List.mem_cons_of_mem _ hbn', rfl, rfl, by omega, by omega⟩
    · simp only [addBin, heq, if_false] at hbn'
      rcases List.mem_cons.1 hbn' with rfl | hbn'
      · left; exact ⟨bn', List.mem_cons_self, rfl, rfl, by omega, by omega⟩
      · rcases ih bn' hbn' with ⟨bn, h1, h2, h3, h4, h5⟩ | h
        · left; exact ⟨bn, List.mem_cons_of_mem _ h1, h2, h3, h4, h5⟩
        · right; exact h

theorem addBin_nums (bins : List CBin) (bin : Nat) (c : Chunk) :
    ((addBin bins bin c).1.map (·.bin) = bins.map (·.bin) ∧ bin ∈ bins.map (·.bin)) ∨
    ((addBin bins bin c).1.map (·.bin) = bins.map (·.bin) ++ [bin] ∧ bin ∉ bins.map (·.bin)) := by
  induction bins with
  | nil => right; simp [addBin]
  | cons b bs ih =>
    by_cases heq : b.bin = bin
    · left; simp [addBin, heq]
    · simp only [addBin, heq, if_false, List.map_cons]
      rcases ih with ⟨h1, h2⟩ | ⟨h1, h2⟩
      · left; exact ⟨by rw [h1], List.mem_cons_of_mem _ h2⟩
      · right
        refine ⟨by rw [h1]; rfl, ?_⟩
        intro hm
        rcases List.mem_cons.1 hm with h | h
        · exact heq h.symm
        · exact h2 h

theorem addBin_nodup (bins : List CBin) (bin : Nat) (c : Chunk) (h : (bins.map (·.bin)).Nodup) :
    ((addBin bins bin c).1.map (·.bin)).Nodup := by
  rcases addBin_nums bins bin c with ⟨h1, _⟩ | ⟨h1, h2⟩
  · rw [h1]; exact h
  · rw [h1, List.nodup_append]
    refine ⟨h, by simp, ?_⟩
    intro a ha b hb
    simp only [List.mem_singleton] at hb
    subst hb
    intro hab; subst hab; exact h2 ha

/-! ### one reference -/

/-- the statistics `Add` accumulates over the records of one reference (`h` newest first) -/
def statsOfC : List CRec → Option Stats
  | [] => none
  | r :: older => some (addStats (statsOfC older) r.chunk r.mapped)

/-- what a CSI reference index knows about its records; `bf` is the bin of a record -/
structure CRefInv (bf : CRec → Nat) (ref : CRef) (h : List CRec) : Prop where
  bins : ∀ r, r ∈ h → ∃ bn, bn ∈ ref.bins ∧ bn.bin = bf r ∧ r.chunk ∈ bn.chunks ∧ bn.left < r.chunk.e
  stored : ∀ bn, bn ∈ ref.bins → ∀ x, x ∈ bn.chunks → ∃ a, a ∈ h ∧ x = a.chunk
  leftLe : ∀ bn, bn ∈ ref.bins → ∃ a, a ∈ h ∧ bn.left ≤ a.chunk.b
  nodup : (ref.bins.map (·.bin)).Nodup
  stats : ref.stats = statsOfC h
  /-- sizes: at most one bin, one chunk and one counted record per added record; the left offset and
  the bin number of every bin come from a record -/
  binsLen : ref.bins.length ≤ h.length
  binRec : ∀ bn, bn ∈ ref.bins → ∃ a, a ∈ h ∧ bf a = bn.bin ∧ ∃ a', a' ∈ h ∧ bn.left = a'.chunk.b
  chunksLen : ∀ bn, bn ∈ ref.bins → bn.chunks.length ≤ h.length ∧ bn.records ≤ h.length

theorem cRefInv_empty (bf : CRec → Nat) : CRefInv bf emptyRef [] :=
  { bins := by intro r hr; cases hr
    stored := by intro bn hb; cases hb
    leftLe := by intro bn hb; cases hb
    nodup := List.nodup_nil
    stats := rfl
    binsLen := Nat.le_refl _
    binRec := by intro bn hb; cases hb
    chunksLen := by intro bn hb; cases hb }

theorem cRefInv_step (bf : CRec → Nat) (ms d : Nat) (ref : CRef) (h : List CRec) (last : Int) (r : CRec)
    (inv : CRefInv bf ref h) (hok : CRecOK ms d r) (hall : ∀ a, a ∈ h → CRecOK ms d a)
    (hle : ∀ a, a ∈ h → a.chunk.e ≤ r.chunk.b) (hlast : last ≤ r.start) :
    (addRef ref last (bf r) r).2.2.2 = .ok ∧ (addRef ref last (bf r) r).2.1 = r.start ∧
      CRefInv bf (addRef ref last (bf r) r).1 (r :: h) := by
  have hnot : ¬ r.start < last := by omega
  have hends : ∀ bn, bn ∈ ref.bins → ∀ x, x ∈ bn.chunks → x.e ≤ r.chunk.b := by
    intro bn hbn x hx
    obtain ⟨a, ha, hxa⟩ := inv.stored bn hbn x hx
    rw [hxa]; exact hle a ha
  obtain ⟨⟨bn0, hbn0, hbin0, hc0, hl0⟩, keep, origin⟩ := addBin_spec ref.bins (bf r) r.chunk hends
  unfold addRef
  simp only [hnot, if_false]
  refine ⟨by trivial, by trivial, ?_⟩
  have hce := hok.ce
  have sizes := addBin_sizes ref.bins (bf r) r.chunk
  refine { bins := ?_, stored := ?_, leftLe := ?_, nodup := addBin_nodup _ _ _ inv.nodup,
           stats := (by simp only [statsOfC, inv.stats]), binsLen := ?_, binRec := ?_, chunksLen := ?_ }
  rotate_left 3
  · -- binsLen
    have hl : (addBin ref.bins (bf r) r.chunk).1.length = ((addBin ref.bins (bf r) r.chunk).1.map (·.bin)).length := by
      rw [List.length_map]
    have hl0 : ref.bins.length = (ref.bins.map (·.bin)).length := by rw [List.length_map]
    have := inv.binsLen
    simp only [List.length_cons]
    rcases addBin_nums ref.bins (bf r) r.chunk with ⟨h1, _⟩ | ⟨h1, _⟩
    · rw [hl, h1, ← hl0]; omega
    · rw [hl, h1, List.length_append, ← hl0]; simp; omega
  · -- binRec
    intro bn' hbn'
    rcases sizes bn' hbn' with ⟨bn, h1, h2, h3, _, _⟩ | h
    · obtain ⟨a, ha, hab, a', ha', hl⟩ := inv.binRec bn h1
      exact ⟨a, List.mem_cons_of_mem _ ha, by rw [hab, h2], a', List.mem_cons_of_mem _ ha', by rw [h3, hl]⟩
    · subst h; exact ⟨r, List.mem_cons_self, rfl, r, List.mem_cons_self, rfl⟩
  · -- chunksLen
    intro bn' hbn'
    simp only [List.length_cons]
    rcases sizes bn' hbn' with ⟨bn, h1, _, _, h4, h5⟩ | h
    · have := inv.chunksLen bn h1; omega
    · subst h; simp
  · intro a ha
    rcases List.mem_cons.1 ha with rfl | ha
    · refine ⟨bn0, hbn0, hbin0, hc0, ?_⟩
      rcases hl0 with hl0 | ⟨old, ho, hl⟩
      · omega
      · obtain ⟨b, hb, hbl⟩ := inv.leftLe old ho
        have := hle b hb
        have := (hall b hb).ce
        omega
    · obtain ⟨bn, h1, h2, h3, h4⟩ := inv.bins a ha
      obtain ⟨bn', h1', h2', h3', h4'⟩ := keep bn h1
      exact ⟨bn', h1', by rw [h2', h2], h4' _ h3, by omega⟩
  · intro bn' hbn' x hx
    rcases origin bn' hbn' with ⟨bn, h1, _, _, h4⟩ | ⟨_, h2⟩
    · rcases h4 x hx with hx' | hxc
      · obtain ⟨a, ha, hxa⟩ := inv.stored bn h1 x hx'
        exact ⟨a, List.mem_cons_of_mem _ ha, hxa⟩
      · exact ⟨r, List.mem_cons_self, hxc⟩
    · rw [h2] at hx
      simp only [List.mem_singleton] at hx
      exact ⟨r, List.mem_cons_self, hx⟩
  · intro bn' hbn'
    rcases origin bn' hbn' with ⟨bn, h1, _, h3, _⟩ | ⟨h1, _⟩
    · obtain ⟨a, ha, hal⟩ := inv.leftLe bn h1
      exact ⟨a, List.mem_cons_of_mem _ ha, by omega⟩
    · exact ⟨r, List.mem_cons_self, by omega⟩

/-! ### the whole index -/

def onRef (hist : List CRec) (j : Nat) : List CRec := hist.filter (fun a => decide (a.rid = (j : Int)))

structure CIdxInv (bf : CRec → Nat) (i : CIndex) (hist : List CRec) : Prop where
  flag : i.isSorted = false
  len0 : hist = [] → i.refs = []
  last : ∀ a rest, hist = a :: rest → (i.refs.length : Int) = a.rid + 1 ∧ i.lastRecord = a.start
  ridLt : ∀ a, a ∈ hist → 0 ≤ a.rid ∧ a.rid < (i.refs.length : Int)
  refInv : ∀ j ref, i.refs[j]? = some ref → CRefInv bf ref (onRef hist j)

def padded (refs : List CRef) (rid : Nat) : List CRef :=
  if decide (rid ≥ refs.length) then refs ++ List.replicate (rid + 1 - refs.length) emptyRef else refs

theorem padded_get (refs : List CRef) (rid j : Nat) (ref : CRef)
    (h : (padded refs rid)[j]? = some ref) :
    (j < refs.length ∧ refs[j]? = some ref) ∨ (refs.length ≤ j ∧ j ≤ rid ∧ ref = emptyRef) := by
  unfold padded at h
  split at h
  · rw [List.getElem?_append] at h
    split at h
    · left; exact ⟨by assumption, h⟩
    · rw [List.getElem?_replicate] at h
      split at h
      · right; exact ⟨by omega, by omega, by simpa using h.symm⟩
      · cases h
  · left
    have : j < refs.length := by
      rcases Nat.lt_or_ge j refs.length with h' | h'
      · exact h'
      · rw [List.getElem?_eq_none h'] at h; cases h
    exact ⟨this, h⟩

theorem padded_length (refs : List CRef) (rid : Nat) :
    (padded refs rid).length = max refs.length (rid + 1) := by
  unfold padded
  split
  · rename_i h; simp only [decide_eq_true_eq] at h
    simp only [List.length_append, List.length_replicate]; omega
  · rename_i h; simp only [decide_eq_true_eq] at h; omega

theorem onRef_cons_eq (hist : List CRec) (r : CRec) (j : Nat) (h : r.rid = (j : Int)) :
    onRef (r :: hist) j = r :: onRef hist j := by
  simp [onRef, h]

theorem onRef_cons_ne (hist : List CRec) (r : CRec) (j : Nat) (h : r.rid ≠ (j : Int)) :
    onRef (r :: hist) j = onRef hist j := by
  simp [onRef, h]

theorem onRef_nil_of_ge (bf : CRec → Nat) (i : CIndex) (hist : List CRec) (inv : CIdxInv bf i hist) (j : Nat)
    (hj : i.refs.length ≤ j) : onRef hist j = [] := by
  unfold onRef
  rw [List.filter_eq_nil_iff]
  intro a ha
  have := (inv.ridLt a ha).2
  simp only [decide_eq_true_eq]
  omega

theorem mem_onRef {hist : List CRec} {j : Nat} {a : CRec} (h : a ∈ onRef hist j) :
    a ∈ hist ∧ a.rid = (j : Int) := by
  unfold onRef at h
  rw [List.mem_filter] at h
  exact ⟨h.1, by simpa using h.2⟩

theorem add_unplaced (binOf : Int → Int → Nat → Nat → Nat) (i : CIndex) (r : CRec)
    (hok : CRecOK i.minShift i.depth r) (hp : r.placed = false) :
    (add binOf i r).2 = .ok ∧ (add binOf i r).1.refs = i.refs ∧ (add binOf i r).1.isSorted = i.isSorted ∧
      (add binOf i r).1.lastRecord = i.lastRecord ∧ (add binOf i r).1.minShift = i.minShift ∧
      (add binOf i r).1.depth = i.depth ∧
      (add binOf i r).1.unmapped = some (umCount i.unmapped + 1) := by
  unfold add
  simp [hok.vstart, hok.vstop, hp]

theorem add_placed (binOf : Int → Int → Nat → Nat → Nat) (i : CIndex) (hist : List CRec) (r : CRec)
    (inv : CIdxInv (fun x => binOf x.start x.stop i.minShift i.depth) i hist)
    (hok : CRecOK i.minShift i.depth r) (hp : r.placed = true) (hle : ∀ a, a ∈ hist → CRecLe a r) :
    ∃ ref0 last0, (padded i.refs r.rid.toNat)[r.rid.toNat]? = some ref0 ∧
      CRefInv (fun x => binOf x.start x.stop i.minShift i.depth) ref0 (onRef hist r.rid.toNat) ∧ last0 ≤ r.start ∧
      add binOf i r =
        ({ i with refs := (padded i.refs r.rid.toNat).set r.rid.toNat
                    (addRef ref0 last0 (binOf r.start r.stop i.minShift i.depth) r).1,
                  unmapped := some (umCount i.unmapped),
                  isSorted := i.isSorted && (addRef ref0 last0 (binOf r.start r.stop i.minShift i.depth) r).2.2.1,
                  lastRecord := (addRef ref0 last0 (binOf r.start r.stop i.minShift i.depth) r).2.1 },
         (addRef ref0 last0 (binOf r.start r.stop i.minShift i.depth) r).2.2.2) := by
  have hrid := hok.rid hp
  have hpos := hok.pos hp
  have h1 : ¬ r.rid < (i.refs.length : Int) - 1 := by
    cases hist with
    | nil => rw [inv.len0 rfl]; simp; omega
    | cons a rest =>
      have := (inv.last a rest rfl).1
      have := (hle a List.mem_cons_self).1
      omega
  have h2 : ¬ r.rid < 0 := by omega
  by_cases hg : r.rid.toNat ≥ i.refs.length
  · have hget : (padded i.refs r.rid.toNat)[r.rid.toNat]? = some emptyRef := by
      unfold padded
      simp only [hg, decide_true, if_true]
      rw [List.getElem?_append_right hg, List.getElem?_replicate]
      simp; omega
    refine ⟨emptyRef, 0, hget, ?_, hpos.1, ?_⟩
    · rw [onRef_nil_of_ge _ i hist inv _ hg]; exact cRefInv_empty _
    · unfold add
      simp only [hok.vstart, hok.vstop, hp, h1, h2, Bool.and_self, Bool.not_true, Bool.false_eq_true,
        if_false]
      have hp' : (if decide (r.rid.toNat ≥ i.refs.length) = true then
            i.refs ++ List.replicate (r.rid.toNat + 1 - i.refs.length) emptyRef else i.refs)
          = padded i.refs r.rid.toNat := rfl
      rw [hp', hget]
      simp [hg]
  · have hlt : r.rid.toNat < i.refs.length := by omega
    obtain ⟨ref, href⟩ : ∃ ref, i.refs[r.rid.toNat]? = some ref :=
      ⟨i.refs[r.rid.toNat], (List.getElem?_eq_some_iff).2 ⟨hlt, rfl⟩⟩
    have hpad : padded i.refs r.rid.toNat = i.refs := by
      unfold padded; simp [hg]
    have hlast : i.lastRecord ≤ r.start := by
      cases hist with
      | nil => have := inv.len0 rfl; rw [this] at hlt; simp at hlt
      | cons a rest =>
        obtain ⟨hl, hs⟩ := inv.last a rest rfl
        have hle' := hle a List.mem_cons_self
        rw [hs]
        exact hle'.2.1 (by omega)
    refine ⟨ref, i.lastRecord, by rw [hpad]; exact href, inv.refInv _ _ href, hlast, ?_⟩
    unfold add
    simp only [hok.vstart, hok.vstop, hp, h1, h2, Bool.and_self, Bool.not_true, Bool.false_eq_true,
      if_false]
    have hp' : (if decide (r.rid.toNat ≥ i.refs.length) = true then
          i.refs ++ List.replicate (r.rid.toNat + 1 - i.refs.length) emptyRef else i.refs)
        = padded i.refs r.rid.toNat := rfl
    rw [hp', hpad, href]
    simp [hg]

theorem cIdxInv_step (binOf : Int → Int → Nat → Nat → Nat) (i : CIndex) (hist : List CRec) (r : CRec)
    (inv : CIdxInv (fun x => binOf x.start x.stop i.minShift i.depth) i hist)
    (hok : CRecOK i.minShift i.depth r)
    (hall : ∀ a, a ∈ hist → CRecOK i.minShift i.depth a) (hp : r.placed = true)
    (hle : ∀ a, a ∈ hist → CRecLe a r) :
    (add binOf i r).2 = .ok ∧ (add binOf i r).1.minShift = i.minShift ∧ (add binOf i r).1.depth = i.depth ∧
      CIdxInv (fun x => binOf x.start x.stop i.minShift i.depth) (add binOf i r).1 (r :: hist) := by
  obtain ⟨ref0, last0, hget, hinv0, hlast0, hadd⟩ := add_placed binOf i hist r inv hok hp hle
  have hrid := hok.rid hp
  have hstep := cRefInv_step (fun x => binOf x.start x.stop i.minShift i.depth) i.minShift i.depth ref0
    (onRef hist r.rid.toNat) last0 r hinv0 hok
    (fun a ha => hall a (mem_onRef ha).1)
    (fun a ha => (hle a (mem_onRef ha).1).2.2) hlast0
  obtain ⟨hres, hlastr, hnew⟩ := hstep
  rw [hadd]
  refine ⟨hres, rfl, rfl, ?_⟩
  have hlenpad := padded_length i.refs r.rid.toNat
  have hlen_le : i.refs.length ≤ r.rid.toNat + 1 := by
    cases hist with
    | nil => rw [inv.len0 rfl]; simp
    | cons a rest =>
      have := (inv.last a rest rfl).1
      have := (hle a List.mem_cons_self).1
      omega
  have hlen : ((padded i.refs r.rid.toNat).set r.rid.toNat
      (addRef ref0 last0 (binOf r.start r.stop i.minShift i.depth) r).1).length = r.rid.toNat + 1 := by
    rw [List.length_set, hlenpad]; omega
  refine { flag := ?_, len0 := (by intro h; cases h), last := ?_, ridLt := ?_, refInv := ?_ }
  · simp [inv.flag]
  · intro a rest h
    cases h
    simp only
    rw [hlen]
    exact ⟨by omega, hlastr⟩
  · intro a ha
    simp only
    rw [hlen]
    rcases List.mem_cons.1 ha with rfl | ha
    · omega
    · have := inv.ridLt a ha; omega
  · intro j ref hj
    simp only at hj
    rw [List.getElem?_set] at hj
    by_cases hjr : r.rid.toNat = j
    · subst hjr
      simp only [if_true] at hj
      split at hj
      · cases hj
        rw [onRef_cons_eq _ _ _ (by omega)]
        exact hnew
      · cases hj
    · simp only [hjr, if_false] at hj
      rw [onRef_cons_ne _ _ _ (by omega)]
      rcases padded_get _ _ _ _ hj with ⟨_, h⟩ | ⟨h1, _, h3⟩
      · exact inv.refInv j ref h
      · rw [h3, onRef_nil_of_ge _ i hist inv j h1]; exact cRefInv_empty _

/-- `add_never_fails` and the invariant for CSI, by induction over the sequence -/
theorem addAll_inv (binOf : Int → Int → Nat → Nat → Nat) (ms d : Nat) : ∀ (recs : List CRec) (i : CIndex)
    (hist : List CRec), i.minShift = ms → i.depth = d →
    CIdxInv (fun x => binOf x.start x.stop ms d) i hist → (∀ a, a ∈ hist → CRecOK ms d a) →
    (∀ r, r ∈ recs → CRecOK ms d r) →
    (recs.filter (·.placed)).Pairwise CRecLe →
    (∀ a, a ∈ hist → ∀ r, r ∈ recs → r.placed = true → CRecLe a r) →
    allOk (addAll binOf i recs).2 ∧ (addAll binOf i recs).1.minShift = ms ∧ (addAll binOf i recs).1.depth = d ∧
      CIdxInv (fun x => binOf x.start x.stop ms d) (addAll binOf i recs).1
        ((recs.filter (·.placed)).reverse ++ hist) := by
  intro recs
  induction recs with
  | nil =>
    intro i hist hms hd inv _ _ _ _
    exact ⟨(by intro x hx; cases hx), hms, hd, (by simpa [addAll] using inv)⟩
  | cons r rs ih =>
    intro i hist hms hd inv hhist hok hsorted hcross
    subst hms; subst hd
    have hokr := hok r List.mem_cons_self
    have hokrs : ∀ x, x ∈ rs → CRecOK i.minShift i.depth x := fun x hx => hok x (List.mem_cons_of_mem _ hx)
    by_cases hp : r.placed = true
    · obtain ⟨hres, hms', hd', hinv'⟩ := cIdxInv_step binOf i hist r inv hokr hhist hp
        (fun a ha => hcross a ha r List.mem_cons_self hp)
      have hfilter : (r :: rs).filter (·.placed) = r :: rs.filter (·.placed) := by simp [hp]
      rw [hfilter, List.pairwise_cons] at hsorted
      obtain ⟨h1, h2, h3, h4⟩ := ih (add binOf i r).1 (r :: hist) hms' hd' hinv'
        (by intro a ha; rcases List.mem_cons.1 ha with rfl | ha; exact hokr; exact hhist a ha)
        hokrs hsorted.2
        (by
          intro a ha x hx hxp
          rcases List.mem_cons.1 ha with rfl | ha
          · exact hsorted.1 x (List.mem_filter.2 ⟨hx, hxp⟩)
          · exact hcross a ha x (List.mem_cons_of_mem _ hx) hxp)
      refine ⟨?_, h2, h3, ?_⟩
      · intro x hx
        simp only [addAll] at hx
        rcases List.mem_cons.1 hx with rfl | hx
        · exact hres
        · exact h1 x hx
      · simp only [addAll]
        rw [hfilter, List.reverse_cons, List.append_assoc]
        exact h4
    · have hp' : r.placed = false := by simpa using hp
      obtain ⟨hres, hrefs, hflag, hlast, hms', hd', _⟩ := add_unplaced binOf i r hokr hp'
      have hinv' : CIdxInv (fun x => binOf x.start x.stop i.minShift i.depth) (add binOf i r).1 hist :=
        { flag := by rw [hflag]; exact inv.flag
          len0 := by intro h; rw [hrefs]; exact inv.len0 h
          last := by intro a rest h; rw [hrefs, hlast]; exact inv.last a rest h
          ridLt := by intro a ha; rw [hrefs]; exact inv.ridLt a ha
          refInv := by intro j ref hj; rw [hrefs] at hj; exact inv.refInv j ref hj }
      have hfilter : (r :: rs).filter (·.placed) = rs.filter (·.placed) := by simp [hp']
      rw [hfilter] at hsorted
      obtain ⟨h1, h2, h3, h4⟩ := ih (add binOf i r).1 hist hms' hd' hinv' hhist hokrs hsorted
        (fun a ha x hx hxp => hcross a ha x (List.mem_cons_of_mem _ hx) hxp)
      refine ⟨?_, h2, h3, ?_⟩
      · intro x hx
        simp only [addAll] at hx
        rcases List.mem_cons.1 hx with rfl | hx
        · exact hres
        · exact h1 x hx
      · simp only [addAll]
        rw [hfilter]
        exact h4

/-! ### statistics -/

/-- the true statistics of the records of one reference in the order they were added -/
def specStatsC (h : List CRec) : Option Stats :=
  match h.head?, h.getLast? with
  | some first, some last =>
    some ⟨⟨first.chunk.b, last.chunk.e⟩, h.countP (·.mapped), h.countP (fun r => !r.mapped)⟩
  | _, _ => none

theorem statsOfC_spec : ∀ h : List CRec, statsOfC h = specStatsC h.reverse := by
  intro h
  induction h with
  | nil => rfl
  | cons r older ih =>
    simp only [statsOfC, ih, List.reverse_cons]
    cases hrev : older.reverse with
    | nil =>
      cases hm : r.mapped <;> simp [specStatsC, addStats, hm]
    | cons first rest =>
      have hne : first :: rest ≠ [] := by simp
      have hl : (first :: rest).getLast? = some ((first :: rest).getLast hne) := List.getLast?_eq_some_getLast hne
      have hl2 : (first :: (rest ++ [r])).getLast? = some r := by
        rw [← List.cons_append]; exact List.getLast?_concat
      cases hm : r.mapped <;>
        simp [specStatsC, addStats, hm, hl, hl2, List.countP_append, List.countP_cons] <;> omega

theorem add_unmapped (binOf : Int → Int → Nat → Nat → Nat) (i : CIndex) (r : CRec)
    (hv : validPos i.minShift i.depth r.start = true ∧ validPos i.minShift i.depth r.stop = true) :
    (add binOf i r).1.unmapped = some (umCount i.unmapped + (if r.placed then 0 else 1)) ∧
      (add binOf i r).1.minShift = i.minShift ∧ (add binOf i r).1.depth = i.depth := by
  unfold add
  simp only [hv.1, hv.2, Bool.and_self, Bool.not_true, Bool.false_eq_true, if_false]
  cases hp : r.placed
  · simp
  · simp only [Bool.not_true, Bool.false_eq_true, if_false, if_true, Nat.add_zero]
    split
    · exact ⟨rfl, rfl, rfl⟩
    · split
      · exact ⟨rfl, rfl, rfl⟩
      · split <;> exact ⟨rfl, rfl, rfl⟩

theorem addAll_unmapped (binOf : Int → Int → Nat → Nat → Nat) (ms d : Nat) : ∀ (recs : List CRec) (i : CIndex),
    i.minShift = ms → i.depth = d →
    (∀ r, r ∈ recs → validPos ms d r.start = true ∧ validPos ms d r.stop = true) → recs ≠ [] →
    (addAll binOf i recs).1.unmapped = some (umCount i.unmapped + recs.countP (fun r => !r.placed)) := by
  intro recs
  induction recs with
  | nil => intro i _ _ _ h; exact absurd rfl h
  | cons r rs ih =>
    intro i hms hd hv _
    subst hms; subst hd
    obtain ⟨h1, h2, h3⟩ := add_unmapped binOf i r (hv r List.mem_cons_self)
    simp only [addAll]
    cases rs with
    | nil =>
      simp only [addAll, h1, List.countP_cons, List.countP_nil]
      cases r.placed <;> simp
    | cons r2 rs2 =>
      rw [ih (add binOf i r).1 h2 h3 (fun x hx => hv x (List.mem_cons_of_mem _ hx)) (by simp), h1]
      simp only [umCount, List.countP_cons]
      cases r.placed <;> simp <;> omega

/-- `Add` never touches the version and the auxiliary bytes -/
theorem add_fixed (binOf : Int → Int → Nat → Nat → Nat) (i : CIndex) (r : CRec) :
    (add binOf i r).1.version = i.version ∧ (add binOf i r).1.aux = i.aux := by
  unfold add
  split
  · exact ⟨rfl, rfl⟩
  · split
    · exact ⟨rfl, rfl⟩
    · split
      · exact ⟨rfl, rfl⟩
      · simp only
        split
        · exact ⟨rfl, rfl⟩
        · split <;> exact ⟨rfl, rfl⟩

theorem addAll_fixed (binOf : Int → Int → Nat → Nat → Nat) : ∀ (recs : List CRec) (i : CIndex),
    (addAll binOf i recs).1.version = i.version ∧ (addAll binOf i recs).1.aux = i.aux := by
  intro recs
  induction recs with
  | nil => intro i; exact ⟨rfl, rfl⟩
  | cons r rs ih =>
    intro i
    obtain ⟨h1, h2⟩ := ih (add binOf i r).1
    obtain ⟨h3, h4⟩ := add_fixed binOf i r
    simp only [addAll]
    exact ⟨by rw [h1, h3], by rw [h2, h4]⟩

/-! ### completeness of Chunks -/

/-- what completeness needs (kept by MergeChunks) -/
structure CRefCover (bf : CRec → Nat) (ref : CRef) (h : List CRec) : Prop where
  bins : ∀ r, r ∈ h → ∃ bn, bn ∈ ref.bins ∧ bn.bin = bf r ∧ coveredBy bn.chunks r.chunk ∧ bn.left < r.chunk.e
  nodup : (ref.bins.map (·.bin)).Nodup

structure CIdxCover (bf : CRec → Nat) (i : CIndex) (hist : List CRec) : Prop where
  flag : i.isSorted = false
  ridLt : ∀ a, a ∈ hist → 0 ≤ a.rid ∧ a.rid < (i.refs.length : Int)
  refCover : ∀ j ref, i.refs[j]? = some ref → CRefCover bf ref (onRef hist j)

theorem CIdxInv.cover {bf : CRec → Nat} {i : CIndex} {hist : List CRec} (inv : CIdxInv bf i hist) :
    CIdxCover bf i hist :=
  { flag := inv.flag
    ridLt := inv.ridLt
    refCover := fun j ref h =>
      { bins := by
          intro r hr
          obtain ⟨bn, h1, h2, h3, h4⟩ := (inv.refInv j ref h).bins r hr
          exact ⟨bn, h1, h2, ⟨r.chunk, h3, Int.le_refl _, Int.le_refl _⟩, h4⟩
        nodup := (inv.refInv j ref h).nodup } }

theorem leCBin_trans (a b c : CBin) : leCBin a b = true → leCBin b c = true → leCBin a c = true := by
  simp only [leCBin, decide_eq_true_eq]; omega
theorem leCBin_total (a b : CBin) : (leCBin a b || leCBin b a) = true := by
  simp only [leCBin, Bool.or_eq_true, decide_eq_true_eq]; omega

theorem findBin_sorted (L : List CBin) (x : CBin) (hs : L.Pairwise (fun a b => a.bin ≤ b.bin))
    (hn : (L.map (·.bin)).Nodup) (hx : x ∈ L) : findBin L x.bin = some x := by
  unfold findBin
  cases hf : L.find? (fun y => decide (y.bin ≥ x.bin)) with
  | none =>
    rw [List.find?_eq_none] at hf
    exact absurd (by simp) (hf x hx)
  | some y =>
    obtain ⟨hy, as, bs, hL, has⟩ := List.find?_eq_some_iff_append.1 hf
    simp only [decide_eq_true_eq] at hy
    simp only
    rw [hL] at hx hs hn
    have hxy : x = y := by
      rcases List.mem_append.1 hx with h | h
      · have := has x h
        simp at this
      · rcases List.mem_cons.1 h with h | h
        · exact h
        · exfalso
          have hyx : y.bin ≤ x.bin := by
            have := (List.pairwise_append.1 hs).2.1
            exact (List.pairwise_cons.1 this).1 x h
          have heq : y.bin = x.bin := by omega
          rw [List.map_append, List.map_cons] at hn
          have hn2 := (List.nodup_append.1 hn).2.1
          have := (List.nodup_cons.1 hn2).1
          exact this (by rw [heq]; exact List.mem_map.2 ⟨x, h, rfl⟩)
    subst hxy
    simp

theorem sortRef_bins_spec (ref : CRef) (hn : (ref.bins.map (·.bin)).Nodup) (bn : CBin) (hb : bn ∈ ref.bins) :
    findBin (sortRef ref).bins bn.bin = some { bn with chunks := sortChunks bn.chunks } := by
  have hperm := List.mergeSort_perm ref.bins leCBin
  have hsorted : (ref.bins.mergeSort leCBin).Pairwise (fun a b => a.bin ≤ b.bin) :=
    (List.pairwise_mergeSort leCBin_trans leCBin_total ref.bins).imp (by intro a b h; simpa [leCBin] using h)
  let f : CBin → CBin := fun b => { b with chunks := sortChunks b.chunks }
  have hL : (sortRef ref).bins = (ref.bins.mergeSort leCBin).map f := rfl
  rw [hL]
  have hx : f bn ∈ (ref.bins.mergeSort leCBin).map f := List.mem_map.2 ⟨bn, hperm.mem_iff.2 hb, rfl⟩
  exact findBin_sorted ((ref.bins.mergeSort leCBin).map f) (f bn)
    (by rw [List.pairwise_map]; exact hsorted)
    (by
      rw [List.map_map]
      have : ((fun b : CBin => b.bin) ∘ f) = (fun b : CBin => b.bin) := rfl
      rw [this]
      exact (hperm.map _).nodup_iff.2 hn)
    hx

/-- `Chunks` on an index that covers its records -/
theorem chunks_complete_cover (binsOf : Int → Int → Nat → Nat → List Nat) (adj : List Chunk → List Chunk)
    (hadj : EncLaw adj) (bf : CRec → Nat) (i : CIndex) (hist : List CRec) (cov : CIdxCover bf i hist)
    (r : CRec) (hr : r ∈ hist) (beg stop : Int) (hbin : bf r ∈ binsOf beg stop i.minShift i.depth) :
    coveredBy (chunks binsOf adj i r.rid beg stop) r.chunk := by
  obtain ⟨h0, hlt⟩ := cov.ridLt r hr
  have hlt' : r.rid.toNat < i.refs.length := by omega
  obtain ⟨ref, href⟩ : ∃ ref, i.refs[r.rid.toNat]? = some ref :=
    ⟨_, (List.getElem?_eq_some_iff).2 ⟨hlt', rfl⟩⟩
  have hcov := cov.refCover _ _ href
  have hmem : r ∈ onRef hist r.rid.toNat := by
    unfold onRef; rw [List.mem_filter]; exact ⟨hr, by simp; omega⟩
  obtain ⟨bn, hbn, hbb, ⟨c, hc, hc1, hc2⟩, hleft⟩ := hcov.bins r hmem
  have hfind := sortRef_bins_spec ref hcov.nodup bn hbn
  have hsort : (sort i).refs[r.rid.toNat]? = some (sortRef ref) := by
    unfold sort
    simp only [cov.flag, Bool.false_eq_true, if_false, List.getElem?_map, href, Option.map_some]
  unfold chunks
  have hn : ¬ (r.rid < 0 ∨ r.rid ≥ (i.refs.length : Int)) := by omega
  simp only [hn, if_false, hsort]
  have hcand : c ∈ candidates (sortRef ref) (binsOf beg stop i.minShift i.depth) := by
    unfold candidates
    rw [List.mem_flatMap]
    refine ⟨bf r, hbin, ?_⟩
    rw [← hbb, hfind]
    simp only
    rw [List.mem_filter]
    exact ⟨mem_sortChunks.2 hc, by simp only [decide_eq_true_eq]; omega⟩
  exact coveredBy_trans (hadj _ (sortChunks_sorted _) c (mem_sortChunks.2 hcand)) ⟨hc1, hc2⟩

theorem mergeChunks_cover (s : List Chunk → List Chunk) (hs : EncLaw s) (bf : CRec → Nat) (i : CIndex)
    (hist : List CRec) (cov : CIdxCover bf i hist) : CIdxCover bf (mergeChunks s i) hist := by
  refine { flag := cov.flag, ridLt := ?_, refCover := ?_ }
  · intro a ha
    have := cov.ridLt a ha
    simpa [mergeChunks] using this
  · intro j ref' hj
    simp only [mergeChunks, List.getElem?_map] at hj
    cases href : i.refs[j]? with
    | none => rw [href] at hj; cases hj
    | some ref =>
      rw [href] at hj
      simp only [Option.map_some, Option.some.injEq] at hj
      subst hj
      have c := cov.refCover j ref href
      refine { bins := ?_, nodup := ?_ }
      · intro r hr
        obtain ⟨bn, h1, h2, ⟨x, hx, hxe⟩, hl⟩ := c.bins r hr
        refine ⟨{ bn with chunks := s (sortChunks bn.chunks) }, List.mem_map.2 ⟨bn, h1, rfl⟩, h2, ?_, hl⟩
        exact coveredBy_trans (hs _ (sortChunks_sorted _) x (mem_sortChunks.2 hx)) hxe
      · simp only [List.map_map]
        exact c.nodup

end Hts.Model.Csi
