/-
Facts about the flat specification alone (`Hts.Spec.Flat`): the offsets it reports translate back to the
logical positions, and they are ordered like the positions.
-/
import Hts.Spec.FlatFile
namespace Hts.Spec.Flat

/-- Well-formed layout: positive member sizes, block lengths below 2^16. -/
def LWF (L : Layout) : Prop := ∀ b ∈ L, 0 < b.csize ∧ b.len < 65536

theorem LWF.cons {b : BlockInfo} {L : Layout} (h : LWF (b :: L)) : 0 < b.csize ∧ b.len < 65536 ∧ LWF L :=
  ⟨(h b (by simp)).1, (h b (by simp)).2, fun x hx => h x (by simp [hx])⟩

theorem vOffset_shift (o : Offset) (c : Nat) : vOffset (o.shift c) = vOffset o + c * 65536 := by
  simp [vOffset, Offset.shift]; omega

theorem seekTarget_shift (b : BlockInfo) (L : Layout) (o : Offset) (h : 0 < b.csize) :
    seekTarget (b :: L) (o.shift b.csize) = (seekTarget L o).map (· + b.len) := by
  simp only [seekTarget, Offset.shift]
  have h1 : ¬ (o.file + b.csize = 0) := by omega
  have h2 : ¬ (o.file + b.csize < b.csize) := by omega
  simp only [h1, h2, if_false, Nat.add_sub_cancel]

theorem seekTarget_offBefore {L : Layout} (hL : LWF L) {p : Nat} (hp : p < total L) :
    seekTarget L (offBefore L p) = some p := by
  induction L generalizing p with
  | nil => simp [total] at hp
  | cons b L ih =>
    have ⟨hc, _, hL'⟩ := hL.cons
    simp only [offBefore]
    by_cases h : p < b.len
    · simp [h, seekTarget]; omega
    · simp only [h, if_false]
      rw [seekTarget_shift b L _ hc, ih hL' (by simp [total] at hp; omega)]
      simp; omega

theorem seekTarget_offAfter {L : Layout} (hL : LWF L) {q : Nat} (hq0 : 0 < q) (hq : q ≤ total L) :
    seekTarget L (offAfter L q) = some q := by
  induction L generalizing q with
  | nil => simp [total] at hq; omega
  | cons b L ih =>
    have ⟨hc, _, hL'⟩ := hL.cons
    simp only [offAfter]
    by_cases h : q ≤ b.len
    · simp [h, seekTarget]
    · simp only [h, if_false]
      rw [seekTarget_shift b L _ hc, ih hL' (by omega) (by simp [total] at hq; omega)]
      simp; omega

theorem seekTarget_fileLen {L : Layout} (hL : LWF L) : seekTarget L ⟨fileLen L, 0⟩ = none := by
  induction L with
  | nil => simp [seekTarget]
  | cons b L ih =>
    have ⟨hc, _, hL'⟩ := hL.cons
    simp only [seekTarget, fileLen]
    have h1 : ¬ (b.csize + fileLen L = 0) := by omega
    have h2 : ¬ (b.csize + fileLen L < b.csize) := by omega
    simp only [h1, h2, if_false]
    have : b.csize + fileLen L - b.csize = fileLen L := by omega
    rw [this, ih hL']; rfl

theorem toLogical_fileLen {L : Layout} (hL : LWF L) : toLogical L ⟨fileLen L, 0⟩ = some (total L) := by
  simp [toLogical, seekTarget_fileLen hL]

theorem toLogical_of_seekTarget {L : Layout} {o : Offset} {p : Nat} (h : seekTarget L o = some p) :
    toLogical L o = some p := by
  simp [toLogical, h]

theorem blockRem_le (L : Layout) (p : Nat) : blockRem L p ≤ total L - p := by
  induction L generalizing p with
  | nil => simp [blockRem]
  | cons b L ih =>
    simp only [blockRem, total]
    by_cases h : p < b.len
    · simp [h]; omega
    · simp only [h, if_false]
      have := ih (p - b.len); omega

theorem blockRem_pos (L : Layout) (p : Nat) (hp : p < total L) : 0 < blockRem L p := by
  induction L generalizing p with
  | nil => simp [total] at hp
  | cons b L ih =>
    simp only [blockRem]
    by_cases h : p < b.len
    · simp [h]; omega
    · simp only [h, if_false]
      exact ih (p - b.len) (by simp [total] at hp; omega)

/-- The block part of a reported offset stays below 2^16. -/
theorem offBefore_block_lt {L : Layout} (hL : LWF L) (p : Nat) : (offBefore L p).block < 65536 := by
  induction L generalizing p with
  | nil => simp [offBefore]
  | cons b L ih =>
    have ⟨_, hl, hL'⟩ := hL.cons
    simp only [offBefore]
    by_cases h : p < b.len
    · simp [h]; omega
    · simp only [h, if_false, Offset.shift]; exact ih hL' _

theorem offAfter_block_lt {L : Layout} (hL : LWF L) (q : Nat) : (offAfter L q).block < 65536 := by
  induction L generalizing q with
  | nil => simp [offAfter]
  | cons b L ih =>
    have ⟨_, hl, hL'⟩ := hL.cons
    simp only [offAfter]
    by_cases h : q ≤ b.len
    · simp [h]; omega
    · simp only [h, if_false, Offset.shift]; exact ih hL' _

/-- `Begin` of a read at `p` lies strictly before `End` of a read ending at `q > p`. -/
theorem vOffset_before_lt_after {L : Layout} (hL : LWF L) {p q : Nat} (hpq : p < q) (hq : q ≤ total L) :
    vOffset (offBefore L p) < vOffset (offAfter L q) := by
  induction L generalizing p q with
  | nil => simp [total] at hq; omega
  | cons b L ih =>
    have ⟨hc, hl, hL'⟩ := hL.cons
    simp only [offBefore, offAfter]
    by_cases h : p < b.len
    · by_cases h2 : q ≤ b.len
      · simp [h, h2, vOffset]; omega
      · simp only [h, h2, if_true, if_false, vOffset_shift]
        simp [vOffset]; omega
    · have h2 : ¬ (q ≤ b.len) := by omega
      simp only [h, h2, if_false, vOffset_shift]
      have := ih hL' (p := p - b.len) (q := q - b.len) (by omega) (by simp [total] at hq; omega)
      omega

/-- `End` of a read ending at `q` does not lie after `Begin` of a read at `p ≥ q`, even when the first is
`(base, len)` and the second `(next base, 0)`. -/
theorem vOffset_after_le_before {L : Layout} (hL : LWF L) {p q : Nat} (hqp : q ≤ p) (hp : p < total L) :
    vOffset (offAfter L q) ≤ vOffset (offBefore L p) := by
  induction L generalizing p q with
  | nil => simp [total] at hp
  | cons b L ih =>
    have ⟨hc, hl, hL'⟩ := hL.cons
    simp only [offBefore, offAfter]
    by_cases h : p < b.len
    · have h2 : q ≤ b.len := by omega
      simp [h, h2, vOffset]; omega
    · by_cases h2 : q ≤ b.len
      · simp only [h, h2, if_true, if_false, vOffset_shift]
        simp [vOffset]; omega
      · simp only [h, h2, if_false, vOffset_shift]
        have := ih hL' (p := p - b.len) (q := q - b.len) (by omega) (by simp [total] at hp; omega)
        omega

/-- `End` offsets are strictly ordered like the positions they follow. -/
theorem vOffset_after_lt_after {L : Layout} (hL : LWF L) {q1 q2 : Nat} (h1 : q1 < q2) (h2 : q2 ≤ total L) :
    vOffset (offAfter L q1) < vOffset (offAfter L q2) := by
  induction L generalizing q1 q2 with
  | nil => simp [total] at h2; omega
  | cons b L ih =>
    have ⟨hc, hl, hL'⟩ := hL.cons
    simp only [offAfter]
    by_cases h : q1 ≤ b.len
    · by_cases h' : q2 ≤ b.len
      · simp [h, h', vOffset]; omega
      · simp only [h, h', if_true, if_false, vOffset_shift]
        simp [vOffset]; omega
    · have h' : ¬ (q2 ≤ b.len) := by omega
      simp only [h, h', if_false, vOffset_shift]
      have := ih hL' (q1 := q1 - b.len) (q2 := q2 - b.len) (by omega) (by simp [total] at h2; omega)
      omega

/-- A flat file is consistent when the flat copy has the length the layout announces. -/
structure FlatFile.WF (F : FlatFile) : Prop where
  length : F.bytes.length = total F.layout
  layout : LWF F.layout

/-- After a read that returned data or no error, `Begin` and `End` translate to the logical positions
just before and just after the bytes returned, and `Begin` is a valid seek target. -/
theorem read_chunk_translates {F : FlatFile} (hF : F.WF) (s : State) (n : Nat)
    (hok : (read F s n).eof = false ∨ (read F s n).bytes ≠ []) :
    seekTarget F.layout (read F s n).st.last.bgn = some s.pos ∧
    toLogical F.layout (read F s n).st.last.fin = some (s.pos + (read F s n).bytes.length) ∧
    (read F s n).st.pos = s.pos + (read F s n).bytes.length := by
  by_cases hp : total F.layout ≤ s.pos
  · simp [read, hp] at hok
  · have hlt : s.pos < total F.layout := by omega
    simp only [read, hp, if_false]
    generalize hrem : (if s.blocked then blockRem F.layout s.pos else total F.layout - s.pos) = rem
    have hrem_le : rem ≤ total F.layout - s.pos := by
      subst hrem; split
      · exact blockRem_le _ _
      · omega
    have hrem_pos : 0 < rem := by
      subst hrem; split
      · exact blockRem_pos _ _ hlt
      · omega
    have hlen : ((F.bytes.drop s.pos).take (min n rem)).length = min n rem := by
      simp [hF.length]; omega
    rw [hlen]
    refine ⟨seekTarget_offBefore hF.layout hlt, ?_, rfl⟩
    by_cases hn : n = 0
    · simp [hn]; exact toLogical_of_seekTarget (seekTarget_offBefore hF.layout hlt)
    · simp only [hn, if_false]
      by_cases hc : rem < n ∧ (!s.blocked) = true
      · simp only [hc, and_self, if_true]
        have hb : s.blocked = false := by simpa using hc.2
        have : rem = total F.layout - s.pos := by subst hrem; simp [hb]
        have hmin : min n rem = rem := by omega
        rw [hmin, this, toLogical_fileLen hF.layout]; congr 1; omega
      · simp only [hc, if_false]
        exact toLogical_of_seekTarget (seekTarget_offAfter hF.layout (by omega) (by omega))

/-- A short or empty answer comes with `io.EOF`; `io.EOF` is reported exactly at the end of the data, or
when more was asked for than the data (in Blocked mode: the block) still holds. -/
theorem read_eof_iff (F : FlatFile) (s : State) (n : Nat) :
    (read F s n).eof = true ↔
      total F.layout ≤ s.pos ∨
      (if s.blocked then blockRem F.layout s.pos else total F.layout - s.pos) < n := by
  by_cases hp : total F.layout ≤ s.pos
  · simp [read, hp]
  · simp [read, hp]

theorem read_short_eof {F : FlatFile} (hF : F.WF) (s : State) (n : Nat)
    (h : (read F s n).bytes.length < n) : (read F s n).eof = true := by
  by_cases hp : total F.layout ≤ s.pos
  · simp [read, hp]
  · simp only [read, hp, if_false] at h ⊢
    generalize hrem : (if s.blocked then blockRem F.layout s.pos else total F.layout - s.pos) = rem at *
    have hrem_le : rem ≤ total F.layout - s.pos := by
      subst hrem; split
      · exact blockRem_le _ _
      · omega
    have hlen : ((F.bytes.drop s.pos).take (min n rem)).length = min n rem := by
      simp [hF.length]; omega
    rw [hlen] at h
    simp; omega

/-- The bytes of a read are the bytes of the flat copy at the logical position. -/
theorem read_bytes_flat (F : FlatFile) (s : State) (n : Nat) :
    ∃ m, m ≤ n ∧ (read F s n).bytes = (F.bytes.drop s.pos).take m := by
  by_cases hp : total F.layout ≤ s.pos
  · exact ⟨0, Nat.zero_le _, by simp [read, hp]⟩
  · exact ⟨min n (if s.blocked then blockRem F.layout s.pos else total F.layout - s.pos),
      Nat.min_le_left _ _, by simp only [read, hp, if_false]⟩

end Hts.Spec.Flat
