/-
A concrete `Codec` that satisfies every law the theorems assume (including the optional size bound):
the laws are consistent, so the theorems quantified over `Codec` are not vacuous.  It is NOT DEFLATE:
the stream is  1^(n / 4096)  2  le16(n % 4096)  data(n) ; the two bytes 03 00 are an empty stream.
-/
import Hts.Lemmas.BgzfMember
namespace Hts.Model.Member.Toy

def countOnes : List Byte → Nat × List Byte
  | [] => (0, [])
  | b :: t => if b = 1 then ((countOnes t).1 + 1, (countOnes t).2) else (0, b :: t)

def deflate (x : List Byte) : List Byte :=
  List.replicate (x.length / 4096) 1 ++ (2 :: UInt8.ofNat (x.length % 4096 % 256) :: UInt8.ofNat (x.length % 4096 / 256 % 256) :: x)

def inflate (s : List Byte) : Option (List Byte × Nat) :=
  match s with
  | 3 :: 0 :: _ => some ([], 2)
  | _ =>
    match countOnes s with
    | (q, 2 :: r0 :: r1 :: body) =>
      let n := 4096 * q + u16 r0 r1
      if n ≤ body.length then some (body.take n, q + 3 + n) else none
    | _ => none

theorem countOnes_replicate (q : Nat) (t : List Byte) (ht : ∀ b t', t = b :: t' → b ≠ 1) :
    countOnes (List.replicate q 1 ++ t) = (q, t) := by
  induction q with
  | zero =>
    cases t with
    | nil => rfl
    | cons b t' => simp [countOnes, ht b t' rfl]
  | succ q ih => simp [List.replicate_succ, countOnes, ih]

theorem inflate_deflate (x rest : List Byte) : inflate (deflate x ++ rest) = some (x, (deflate x).length) := by
  have hr : x.length % 4096 < 65536 := by omega
  have hco := countOnes_replicate (x.length / 4096)
    (2 :: UInt8.ofNat (x.length % 4096 % 256) :: UInt8.ofNat (x.length % 4096 / 256 % 256) :: (x ++ rest))
    (by intro b t' h; simp at h; rw [← h.1]; decide)
  have hne : ∀ t, deflate x ++ rest ≠ 3 :: 0 :: t := by
    intro t h
    simp only [deflate] at h
    cases hq : x.length / 4096 with
    | zero => rw [hq] at h; simp at h
    | succ q => rw [hq] at h; simp [List.replicate_succ] at h
  unfold inflate
  split
  · rename_i t heq; exact absurd heq (hne t)
  · simp only [deflate, List.append_assoc, List.cons_append] at hco ⊢
    rw [hco]
    simp only [u16_le16 _ hr]
    have hn : 4096 * (x.length / 4096) + x.length % 4096 = x.length := by omega
    simp [hn]
    omega

def codec : Codec :=
  { deflate := deflate, inflate := inflate, crc32 := fun _ => 0, xfl := 0
    inflate_deflate := inflate_deflate
    inflate_marker := fun _ => rfl
    crc32_lt := fun _ => by decide
    crc32_nil := rfl }

theorem bounded : Bounded codec.toCodecFns := by
  intro x
  simp [codec, deflate]
  omega

end Hts.Model.Member.Toy
