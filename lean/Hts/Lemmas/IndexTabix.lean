/-
`tabix.Index` (model: Hts.Model.Tabix): the name table in front of `internal.Index`.
`trace` is the sequence of internal records (with the reference ids the name table assigns) that a
sequence of tabix records turns into; the tabix index is the internal index of the trace, and a placed
record's name maps to the id it was added under.
-/
import Hts.Lemmas.IndexMerge
import Hts.Model.Tabix
namespace Hts.Model.Tabix
open Hts.Model.Index

theorem mapGet_mapSet_self (m : List (Name × Nat)) (k : Name) (v : Nat) : mapGet (mapSet m k v) k = some v := by
  induction m with
  | nil => simp [mapSet, mapGet]
  | cons p m ih =>
    obtain ⟨k', v'⟩ := p
    unfold mapSet
    split
    · simp [mapGet, List.lookup]
    · rename_i hne
      have : (k == k') = false := by simpa using fun h => hne h.symm
      simp only [mapGet, List.lookup, this]
      exact ih

theorem mapGet_mapSet_ne (m : List (Name × Nat)) (k k' : Name) (v : Nat) (h : k' ≠ k) :
    mapGet (mapSet m k v) k' = mapGet m k' := by
  induction m with
  | nil =>
    have : (k' == k) = false := by simpa using h
    simp [mapSet, mapGet, List.lookup, this]
  | cons p m ih =>
    obtain ⟨k0, v0⟩ := p
    unfold mapSet
    split
    · rename_i heq
      subst heq
      have : (k' == k0) = false := by simpa using h
      simp [mapGet, List.lookup, this]
    · by_cases h0 : k' = k0
      · subst h0; simp [mapGet, List.lookup]
      · have : (k' == k0) = false := by simpa using h0
        simp only [mapGet, List.lookup, this]
        exact ih

/-- the reference id `Add` uses for a record: the known id of the name or the next free one -/
def ridOf (t : TIndex) (name : Name) : Nat :=
  match mapGet t.nameMap name with
  | some id => id
  | none => t.names.length

/-- the internal record `tabix.Index.Add` hands to `internal.Index.Add` -/
def traceRec (binOf : Int → Int → Nat) (t : TIndex) (r : TRec) : Rec :=
  { rid := ridOf t r.name, start := r.start, stop := r.stop, bin := binOf r.start r.stop, chunk := r.chunk,
    placed := r.placed, mapped := r.mapped }

def trace (binOf : Int → Int → Nat) : TIndex → List TRec → List Rec
  | _, [] => []
  | t, r :: rs => traceRec binOf t r :: trace binOf (add binOf t r).1 rs

/-- the trace record of the `k`-th record carries its interval, chunk and flags, and the bin
`BinFor(start, end)` -/
theorem trace_get (binOf : Int → Int → Nat) : ∀ (recs : List TRec) (t : TIndex) (k : Nat) (r : TRec),
    recs[k]? = some r → ∃ x, (trace binOf t recs)[k]? = some x ∧ x.start = r.start ∧ x.stop = r.stop ∧
      x.chunk = r.chunk ∧ x.placed = r.placed ∧ x.mapped = r.mapped ∧ x.bin = binOf r.start r.stop := by
  intro recs
  induction recs with
  | nil => intro t k r h; simp at h
  | cons r0 rs ih =>
    intro t k r h
    cases k with
    | zero =>
      simp only [List.getElem?_cons_zero, Option.some.injEq] at h
      subst h
      exact ⟨traceRec binOf t r0, by simp [trace], rfl, rfl, rfl, rfl, rfl, rfl⟩
    | succ k =>
      simp only [List.getElem?_cons_succ] at h
      obtain ⟨x, hx, hrest⟩ := ih (add binOf t r0).1 k r h
      exact ⟨x, by simp only [trace, List.getElem?_cons_succ]; exact hx, hrest⟩

theorem add_idx (binOf : Int → Int → Nat) (t : TIndex) (r : TRec) :
    (add binOf t r).1.idx = (Index.add t.idx (traceRec binOf t r)).1 ∧
      (add binOf t r).2 = (Index.add t.idx (traceRec binOf t r)).2 := by
  unfold add traceRec ridOf
  cases h : mapGet t.nameMap r.name <;> simp only <;> split <;> exact ⟨rfl, rfl⟩

theorem addAll_idx (binOf : Int → Int → Nat) : ∀ (recs : List TRec) (t : TIndex),
    (addAll binOf t recs).1.idx = (Index.addAll t.idx (trace binOf t recs)).1 ∧
      (addAll binOf t recs).2 = (Index.addAll t.idx (trace binOf t recs)).2 := by
  intro recs
  induction recs with
  | nil => intro t; exact ⟨rfl, rfl⟩
  | cons r rs ih =>
    intro t
    obtain ⟨h1, h2⟩ := add_idx binOf t r
    obtain ⟨h3, h4⟩ := ih (add binOf t r).1
    simp only [addAll, trace, Index.addAll]
    rw [← h1]
    exact ⟨h3, by rw [h4, h2]⟩

/-- the name map after one `Add`: lookups of known names do not change; the record's own name maps
to the id it was added under when the internal index then has that reference -/
theorem add_names (binOf : Int → Int → Nat) (t : TIndex) (r : TRec) :
    (∀ n id, mapGet t.nameMap n = some id → mapGet (add binOf t r).1.nameMap n = some id) ∧
    ((Index.add t.idx (traceRec binOf t r)).1.refs.length > ridOf t r.name →
      mapGet (add binOf t r).1.nameMap r.name = some (ridOf t r.name)) := by
  unfold add
  cases h : mapGet t.nameMap r.name with
  | some id =>
    have hr : ridOf t r.name = id := by simp [ridOf, h]
    simp only [Option.isNone_some, Bool.false_and, Bool.false_eq_true, if_false]
    exact ⟨fun n id' hn => hn, fun _ => by rw [hr]; exact h⟩
  | none =>
    have hr : ridOf t r.name = t.names.length := by simp [ridOf, h]
    simp only [Option.isNone_none, Bool.true_and]
    have hx : (Index.add t.idx
        { rid := ((t.names.length : Nat) : Int), start := r.start, stop := r.stop, bin := binOf r.start r.stop,
          chunk := r.chunk, placed := r.placed, mapped := r.mapped }) = Index.add t.idx (traceRec binOf t r) := by
      simp [traceRec, hr]
    rw [hx]
    split
    · rename_i hg
      refine ⟨?_, fun _ => by rw [hr]; exact mapGet_mapSet_self _ _ _⟩
      intro n id hn
      simp only
      rw [mapGet_mapSet_ne _ _ _ _ (by intro he; subst he; rw [h] at hn; cases hn)]
      exact hn
    · rename_i hg
      refine ⟨fun n id hn => hn, ?_⟩
      intro hgt
      simp only [decide_eq_true_eq] at hg
      rw [hr] at hgt
      exact absurd hgt hg

/-- over a whole sequence whose trace is coordinate-sorted: every placed record's name finally maps
to the reference id of its trace record -/
theorem names_final (binOf : Int → Int → Nat) : ∀ (recs : List TRec) (t : TIndex) (hist : List Rec),
    IdxInv t.idx hist → (∀ a, a ∈ hist → RecOK a) → (∀ x, x ∈ trace binOf t recs → RecOK x) →
    ((trace binOf t recs).filter (·.placed)).Pairwise RecLe →
    (∀ a, a ∈ hist → ∀ x, x ∈ trace binOf t recs → x.placed = true → RecLe a x) →
    (∀ n id, mapGet t.nameMap n = some id → mapGet (addAll binOf t recs).1.nameMap n = some id) ∧
    ∀ (k : Nat) (r : TRec) (x : Rec), recs[k]? = some r → (trace binOf t recs)[k]? = some x → r.placed = true →
      mapGet (addAll binOf t recs).1.nameMap r.name = some x.rid.toNat := by
  intro recs
  induction recs with
  | nil =>
    intro t hist _ _ _ _ _
    exact ⟨fun n id h => h, by intro k r x hk; simp at hk⟩
  | cons r rs ih =>
    intro t hist inv hhist hok hsorted hcross
    have hx0 : traceRec binOf t r ∈ trace binOf t (r :: rs) := by simp [trace]
    have hokx := hok _ hx0
    have hokrs : ∀ x, x ∈ trace binOf (add binOf t r).1 rs → RecOK x :=
      fun x hx => hok x (by simp only [trace]; exact List.mem_cons_of_mem _ hx)
    obtain ⟨hstab, hown⟩ := add_names binOf t r
    obtain ⟨hidx, _⟩ := add_idx binOf t r
    by_cases hp : r.placed = true
    · have hpx : (traceRec binOf t r).placed = true := hp
      obtain ⟨_, hinv', _⟩ := idxInv_step t.idx hist (traceRec binOf t r) inv hokx hhist hpx
        (fun a ha => hcross a ha _ hx0 hpx)
      have hfilter : (trace binOf t (r :: rs)).filter (·.placed) =
          traceRec binOf t r :: (trace binOf (add binOf t r).1 rs).filter (·.placed) := by
        simp [trace, hpx]
      rw [hfilter, List.pairwise_cons] at hsorted
      have hlen := (hinv'.last _ _ rfl).1
      have hrid0 := hokx.rid hpx
      have hgt : (Index.add t.idx (traceRec binOf t r)).1.refs.length > ridOf t r.name := by
        have : (traceRec binOf t r).rid = ((ridOf t r.name : Nat) : Int) := rfl
        omega
      have hmine := hown hgt
      obtain ⟨h1, h2⟩ := ih (add binOf t r).1 (traceRec binOf t r :: hist) (by rw [hidx]; exact hinv')
        (by intro a ha; rcases List.mem_cons.1 ha with rfl | ha; exact hokx; exact hhist a ha)
        hokrs hsorted.2
        (by
          intro a ha x hx hxp
          rcases List.mem_cons.1 ha with rfl | ha
          · exact hsorted.1 x (List.mem_filter.2 ⟨hx, hxp⟩)
          · exact hcross a ha x (by simp only [trace]; exact List.mem_cons_of_mem _ hx) hxp)
      refine ⟨fun n id hn => h1 n id (hstab n id hn), ?_⟩
      intro k r' x hk hkx hp'
      cases k with
      | zero =>
        simp only [List.getElem?_cons_zero, Option.some.injEq] at hk
        simp only [trace, List.getElem?_cons_zero, Option.some.injEq] at hkx
        subst hk; subst hkx
        simp only [addAll]
        have : (traceRec binOf t r).rid.toNat = ridOf t r.name := by
          show ((ridOf t r.name : Nat) : Int).toNat = _
          simp
        rw [this]
        exact h1 _ _ hmine
      | succ k =>
        simp only [List.getElem?_cons_succ] at hk
        simp only [trace, List.getElem?_cons_succ] at hkx
        simp only [addAll]
        exact h2 k r' x hk hkx hp'
    · have hp' : r.placed = false := by simpa using hp
      have hpx : (traceRec binOf t r).placed = false := hp'
      obtain ⟨_, hrefs, hflag, hlast, _⟩ := add_unplaced t.idx (traceRec binOf t r) hokx hpx
      have hinv' : IdxInv (add binOf t r).1.idx hist := by
        rw [hidx]
        exact
          { flag := by rw [hflag]; exact inv.flag
            len0 := by intro h; rw [hrefs]; exact inv.len0 h
            last := by intro a rest h; rw [hrefs, hlast]; exact inv.last a rest h
            ridLt := by intro a ha; rw [hrefs]; exact inv.ridLt a ha
            refInv := by intro j ref hj; rw [hrefs] at hj; exact inv.refInv j ref hj }
      have hfilter : (trace binOf t (r :: rs)).filter (·.placed) =
          (trace binOf (add binOf t r).1 rs).filter (·.placed) := by
        simp [trace, hpx]
      rw [hfilter] at hsorted
      obtain ⟨h1, h2⟩ := ih (add binOf t r).1 hist hinv' hhist hokrs hsorted
        (fun a ha x hx hxp => hcross a ha x (by simp only [trace]; exact List.mem_cons_of_mem _ hx) hxp)
      refine ⟨fun n id hn => h1 n id (hstab n id hn), ?_⟩
      intro k r' x hk hkx hp''
      cases k with
      | zero =>
        simp only [List.getElem?_cons_zero, Option.some.injEq] at hk
        subst hk
        rw [hp'] at hp''; cases hp''
      | succ k =>
        simp only [List.getElem?_cons_succ] at hk
        simp only [trace, List.getElem?_cons_succ] at hkx
        simp only [addAll]
        exact h2 k r' x hk hkx hp''

end Hts.Model.Tabix
