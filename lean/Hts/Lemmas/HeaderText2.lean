/-
C07 helper lemmas, part 11: the field loops of the @SQ / @RG / @PG parsers give back what the serialisers wrote.
-/
import Hts.Lemmas.HeaderText1
namespace Hts.Model.Header

def knownRef : List Tag := [TAG "SN", TAG "LN", TAG "M5", TAG "AS", TAG "SP", TAG "UR"]
def knownRg : List Tag :=
  [TAG "ID", TAG "CN", TAG "DS", TAG "DT", TAG "FO", TAG "KS", TAG "LB", TAG "PG", TAG "PI", TAG "PL", TAG "PU", TAG "SM"]
def knownPg : List Tag := [TAG "ID", TAG "PN", TAG "CL", TAG "PP", TAG "VN"]
def knownHd : List Tag := [TAG "VN", TAG "SO", TAG "GO"]

/-- extra tags as the API builds them: distinct, none of the tags the library has a field for, clean -/
structure WFOther (known : List Tag) (ts : Tags) : Prop where
  nodup : (ts.map (·.1)).Nodup
  unknown : ∀ tv ∈ ts, tv.1 ∉ known
  clean : ∀ tv ∈ ts, CleanTag tv.1 ∧ Clean tv.2

structure WFRef (E : Ext) (name : Bytes) (d : RefD) : Prop where
  name : Clean name
  len : validLen d.len = true
  md5 : d.md5 = [] ∨ (d.md5.length = 16 ∧ ∀ b ∈ d.md5, b < 256)
  asm : Clean d.asm
  sp : Clean d.sp
  /-- the URI is in the form the parser produces (http/ftp/file scheme) -/
  uri : ∀ p u, d.uri = some (p, u) → Clean u ∧ E.parseUri u = some u
  other : WFOther knownRef d.other

structure WFRg (E : Ext) (name : Bytes) (d : RgD) : Prop where
  name : Clean name
  cn : Clean d.cn
  ds : Clean d.ds
  /-- the date is a canonical text (what `Format` prints), or absent -/
  dt : d.dt = [] ∨ (Clean d.dt ∧ E.parseDate d.dt = some d.dt)
  fo : Clean d.fo
  ks : Clean d.ks
  lb : Clean d.lb
  pg : Clean d.pg
  pi : validInt32 d.pi = true
  pl : Clean d.pl
  pu : Clean d.pu
  sm : Clean d.sm
  other : WFOther knownRg d.other

structure WFPg (name : Bytes) (d : PgD) : Prop where
  name : Clean name
  pn : Clean d.pn
  cl : Clean d.cl
  pp : Clean d.pp
  vn : Clean d.vn
  other : WFOther knownPg d.other

@[simp] theorem TAG_SN : TAG "SN" = (83, 78) := rfl
@[simp] theorem TAG_LN : TAG "LN" = (76, 78) := rfl
@[simp] theorem TAG_M5 : TAG "M5" = (77, 53) := rfl
@[simp] theorem TAG_AS : TAG "AS" = (65, 83) := rfl
@[simp] theorem TAG_SP : TAG "SP" = (83, 80) := rfl
@[simp] theorem TAG_UR : TAG "UR" = (85, 82) := rfl
@[simp] theorem TAG_ID : TAG "ID" = (73, 68) := rfl
@[simp] theorem TAG_CN : TAG "CN" = (67, 78) := rfl
@[simp] theorem TAG_DS : TAG "DS" = (68, 83) := rfl
@[simp] theorem TAG_DT : TAG "DT" = (68, 84) := rfl
@[simp] theorem TAG_FO : TAG "FO" = (70, 79) := rfl
@[simp] theorem TAG_KS : TAG "KS" = (75, 83) := rfl
@[simp] theorem TAG_LB : TAG "LB" = (76, 66) := rfl
@[simp] theorem TAG_PG : TAG "PG" = (80, 71) := rfl
@[simp] theorem TAG_PI : TAG "PI" = (80, 73) := rfl
@[simp] theorem TAG_PL : TAG "PL" = (80, 76) := rfl
@[simp] theorem TAG_PU : TAG "PU" = (80, 85) := rfl
@[simp] theorem TAG_SM : TAG "SM" = (83, 77) := rfl
@[simp] theorem TAG_PN : TAG "PN" = (80, 78) := rfl
@[simp] theorem TAG_CL : TAG "CL" = (67, 76) := rfl
@[simp] theorem TAG_PP : TAG "PP" = (80, 80) := rfl
@[simp] theorem TAG_VN : TAG "VN" = (86, 78) := rfl
@[simp] theorem TAG_SO : TAG "SO" = (83, 79) := rfl
@[simp] theorem TAG_GO : TAG "GO" = (71, 79) := rfl
@[simp] theorem TAG_HD : TAG "HD" = (72, 68) := rfl
@[simp] theorem TAG_SQ : TAG "SQ" = (83, 81) := rfl
@[simp] theorem TAG_RG : TAG "RG" = (82, 71) := rfl
@[simp] theorem TAG_CO : TAG "CO" = (67, 79) := rfl

theorem loopVal_one {β : Type} (assign : β → Tag → Bytes → PR β) (b b' : β) (t : Tag) (v : Bytes)
    (h : assign b t v = .ok b') : loopVal assign b [(t, v)] = .ok b' := by
  simp [loopVal, h]

/-! ### references -/

theorem ref_other (E : Ext) (p : Nat) : ∀ (ts : Tags) (a : RefV), (∀ tv ∈ ts, tv.1 ∉ knownRef) →
    loopVal (refAssign E p) a ts = .ok { a with d := { a.d with other := a.d.other ++ ts } } := by
  intro ts
  induction ts with
  | nil => intro a _; simp [loopVal]
  | cons tv ts ih =>
    intro a h
    obtain ⟨t, v⟩ := tv
    have ht := h (t, v) List.mem_cons_self
    simp only [knownRef, List.mem_cons, List.not_mem_nil, or_false, not_or] at ht
    obtain ⟨h1, h2, h3, h4, h5, h6⟩ := ht
    simp only [loopVal, refAssign, h1, h2, h3, h4, h5, h6, if_false]
    rw [ih _ (fun tv' h' => h tv' (List.mem_cons_of_mem _ h'))]
    simp

theorem ref_uri_seg (E : Ext) (p : Nat) (name : Bytes) (len : Int) (md5 asm sp : Bytes) (uri : Option (Nat × Bytes))
    (wuri : ∀ q u, uri = some (q, u) → E.parseUri u = some u) :
    loopVal (refAssign E p) { name := name, d := { len := len, md5 := md5, asm := asm, sp := sp }, nok := true, lok := true }
      (uriTags uri) =
      .ok { name := name, d := { len := len, md5 := md5, asm := asm, sp := sp, uri := uri.map fun u => (p, u.2) }, nok := true, lok := true } := by
  cases uri with
  | none => rfl
  | some pu =>
    obtain ⟨q, u⟩ := pu
    apply loopVal_one
    simp [refAssign, wuri q u rfl]

theorem ref_loop (E : Ext) (p : Nat) (name : Bytes) (d : RefD) (wf : WFRef E name d) :
    loopVal (refAssign E p) {} (refTags name d) =
      .ok { name := name, d := { d with uri := d.uri.map fun u => (p, u.2) }, nok := true, lok := true } := by
  obtain ⟨len, md5, asm, sp, uri, other⟩ := d
  have wlen := wf.len
  have wmd5 := wf.md5
  have wuri := wf.uri
  simp only at wlen wmd5 wuri
  unfold refTags
  simp only [loopVal_append]
  -- SN, LN
  have s1 : loopVal (refAssign E p) {} [(TAG "SN", name), (TAG "LN", dec len)] =
      .ok { name := name, d := { len := len }, nok := true, lok := true } := by
    simp [loopVal, refAssign, atoi_dec, wlen]
  rw [s1]; dsimp only
  -- M5
  have s2 : loopVal (refAssign E p) { name := name, d := { len := len }, nok := true, lok := true }
      (if md5 = [] then [] else [(TAG "M5", hexEnc md5)]) =
      .ok { name := name, d := { len := len, md5 := md5 }, nok := true, lok := true } := by
    split
    · next h => subst h; rfl
    · next h =>
      rcases wmd5 with e | ⟨hl, hb⟩
      · exact absurd e h
      · apply loopVal_one
        have := hexDecode16_enc md5 0 [] hb (by omega)
        simp [refAssign, this, hl, hexEnc_length]
  rw [s2]; dsimp only
  -- AS
  have s3 : loopVal (refAssign E p) { name := name, d := { len := len, md5 := md5 }, nok := true, lok := true }
      (opt "AS" asm) = .ok { name := name, d := { len := len, md5 := md5, asm := asm }, nok := true, lok := true } := by
    unfold opt; split
    · next h => subst h; rfl
    · apply loopVal_one; simp [refAssign]
  rw [s3]; dsimp only
  have s4 : loopVal (refAssign E p) { name := name, d := { len := len, md5 := md5, asm := asm }, nok := true, lok := true }
      (opt "SP" sp) = .ok { name := name, d := { len := len, md5 := md5, asm := asm, sp := sp }, nok := true, lok := true } := by
    unfold opt; split
    · next h => subst h; rfl
    · apply loopVal_one; simp [refAssign]
  rw [s4]; dsimp only
  rw [ref_uri_seg E p name len md5 asm sp uri (fun q u h => (wuri q u h).2)]; dsimp only
  rw [ref_other E p other _ wf.other.unknown]
  simp

/-! ### read groups -/

theorem rg_other (E : Ext) (known : Bytes → Bool) : ∀ (ts : Tags) (a : RgV), (∀ tv ∈ ts, tv.1 ∉ knownRg) →
    loopVal (rgAssign E known) a ts = .ok { a with d := { a.d with other := a.d.other ++ ts } } := by
  intro ts
  induction ts with
  | nil => intro a _; simp [loopVal]
  | cons tv ts ih =>
    intro a h
    obtain ⟨t, v⟩ := tv
    have ht := h (t, v) List.mem_cons_self
    simp only [knownRg, List.mem_cons, List.not_mem_nil, or_false, not_or] at ht
    obtain ⟨h1, h2, h3, h4, h5, h6, h7, h8, h9, h10, h11, h12⟩ := ht
    simp only [loopVal, rgAssign, rgSet, h1, h2, h3, h4, h5, h6, h7, h8, h9, h10, h11, h12, if_false]
    rw [ih _ (fun tv' h' => h tv' (List.mem_cons_of_mem _ h'))]
    simp

/-- one optional string field of a read group -/
theorem rg_opt (E : Ext) (known : Bytes → Bool) (a a' : RgV) (t : String) (v : Bytes)
    (hne : TAG t ≠ TAG "ID") (hset : rgSet E a.d (TAG t) v = some a'.d) (hn : a'.name = a.name) (hi : a'.idok = a.idok)
    (hempty : v = [] → a' = a) : loopVal (rgAssign E known) a (opt t v) = .ok a' := by
  unfold opt; split
  · next h => rw [hempty h]; rfl
  · apply loopVal_one
    simp only [rgAssign, hne, if_false, hset]
    congr 1
    cases a'; cases a; simp_all

theorem rg_loop (E : Ext) (known : Bytes → Bool) (name : Bytes) (d : RgD) (wf : WFRg E name d)
    (hk : known name = false) :
    loopVal (rgAssign E known) {} (rgTags name d) = .ok { name := name, d := d, idok := true } := by
  obtain ⟨cn, ds, dt, fo, ks, lb, pg, pi, pl, pu, sm, other⟩ := d
  have wdt := wf.dt
  have wpi := wf.pi
  simp only at wdt wpi
  unfold rgTags
  simp only [loopVal_append]
  have s0 : loopVal (rgAssign E known) {} [(TAG "ID", name)] = .ok { name := name, d := {}, idok := true } := by
    simp [loopVal, rgAssign, hk]
  rw [s0]; dsimp only
  rw [rg_opt E known { name := name, d := {}, idok := true } { name := name, d := { cn := cn }, idok := true } "CN" cn (by decide) (by simp [rgSet]) rfl rfl
    (by intro h; subst h; rfl)]; dsimp only
  rw [rg_opt E known { name := name, d := { cn := cn }, idok := true } { name := name, d := { cn := cn, ds := ds }, idok := true } "DS" ds (by decide) (by simp [rgSet]) rfl rfl
    (by intro h; subst h; rfl)]; dsimp only
  have sdt : loopVal (rgAssign E known) { name := name, d := { cn := cn, ds := ds }, idok := true } (opt "DT" dt) = .ok { name := name, d := { cn := cn, ds := ds, dt := dt }, idok := true } := by
    unfold opt; split
    · next h => subst h; rfl
    · next h =>
      rcases wdt with e | ⟨_, hp⟩
      · exact absurd e h
      · apply loopVal_one; simp [rgAssign, rgSet, hp]
  rw [sdt]; dsimp only
  rw [rg_opt E known { name := name, d := { cn := cn, ds := ds, dt := dt }, idok := true } { name := name, d := { cn := cn, ds := ds, dt := dt, fo := fo }, idok := true } "FO" fo (by decide) (by simp [rgSet]) rfl rfl
    (by intro h; subst h; rfl)]; dsimp only
  rw [rg_opt E known { name := name, d := { cn := cn, ds := ds, dt := dt, fo := fo }, idok := true } { name := name, d := { cn := cn, ds := ds, dt := dt, fo := fo, ks := ks }, idok := true } "KS" ks (by decide) (by simp [rgSet]) rfl rfl
    (by intro h; subst h; rfl)]; dsimp only
  rw [rg_opt E known { name := name, d := { cn := cn, ds := ds, dt := dt, fo := fo, ks := ks }, idok := true } { name := name, d := { cn := cn, ds := ds, dt := dt, fo := fo, ks := ks, lb := lb }, idok := true } "LB" lb (by decide) (by simp [rgSet]) rfl rfl
    (by intro h; subst h; rfl)]; dsimp only
  rw [rg_opt E known { name := name, d := { cn := cn, ds := ds, dt := dt, fo := fo, ks := ks, lb := lb }, idok := true } { name := name, d := { cn := cn, ds := ds, dt := dt, fo := fo, ks := ks, lb := lb, pg := pg }, idok := true } "PG" pg (by decide) (by simp [rgSet]) rfl rfl
    (by intro h; subst h; rfl)]; dsimp only
  have spi : loopVal (rgAssign E known) { name := name, d := { cn := cn, ds := ds, dt := dt, fo := fo, ks := ks, lb := lb, pg := pg }, idok := true } (if pi = 0 then [] else [(TAG "PI", dec pi)]) = .ok { name := name, d := { cn := cn, ds := ds, dt := dt, fo := fo, ks := ks, lb := lb, pg := pg, pi := pi }, idok := true } := by
    split
    · next h => subst h; rfl
    · apply loopVal_one; simp [rgAssign, rgSet, atoi_dec, wpi]
  rw [spi]; dsimp only
  rw [rg_opt E known { name := name, d := { cn := cn, ds := ds, dt := dt, fo := fo, ks := ks, lb := lb, pg := pg, pi := pi }, idok := true } { name := name, d := { cn := cn, ds := ds, dt := dt, fo := fo, ks := ks, lb := lb, pg := pg, pi := pi, pl := pl }, idok := true } "PL" pl (by decide) (by simp [rgSet]) rfl rfl
    (by intro h; subst h; rfl)]; dsimp only
  rw [rg_opt E known { name := name, d := { cn := cn, ds := ds, dt := dt, fo := fo, ks := ks, lb := lb, pg := pg, pi := pi, pl := pl }, idok := true } { name := name, d := { cn := cn, ds := ds, dt := dt, fo := fo, ks := ks, lb := lb, pg := pg, pi := pi, pl := pl, pu := pu }, idok := true } "PU" pu (by decide) (by simp [rgSet]) rfl rfl
    (by intro h; subst h; rfl)]; dsimp only
  rw [rg_opt E known { name := name, d := { cn := cn, ds := ds, dt := dt, fo := fo, ks := ks, lb := lb, pg := pg, pi := pi, pl := pl, pu := pu }, idok := true } { name := name, d := { cn := cn, ds := ds, dt := dt, fo := fo, ks := ks, lb := lb, pg := pg, pi := pi, pl := pl, pu := pu, sm := sm }, idok := true } "SM" sm (by decide) (by simp [rgSet]) rfl rfl
    (by intro h; subst h; rfl)]; dsimp only
  rw [rg_other E known other _ wf.other.unknown]
  simp

/-! ### programs -/

theorem pg_other (known : Bytes → Bool) : ∀ (ts : Tags) (a : PgV), (∀ tv ∈ ts, tv.1 ∉ knownPg) →
    loopVal (pgAssign known) a ts = .ok { a with d := { a.d with other := a.d.other ++ ts } } := by
  intro ts
  induction ts with
  | nil => intro a _; simp [loopVal]
  | cons tv ts ih =>
    intro a h
    obtain ⟨t, v⟩ := tv
    have ht := h (t, v) List.mem_cons_self
    simp only [knownPg, List.mem_cons, List.not_mem_nil, or_false, not_or] at ht
    obtain ⟨h1, h2, h3, h4, h5⟩ := ht
    simp only [loopVal, pgAssign, pgSet, h1, h2, h3, h4, h5, if_false]
    rw [ih _ (fun tv' h' => h tv' (List.mem_cons_of_mem _ h'))]
    simp

theorem pg_opt (known : Bytes → Bool) (a a' : PgV) (t : String) (v : Bytes)
    (hne : TAG t ≠ TAG "ID") (hset : pgSet a.d (TAG t) v = a'.d) (hn : a'.name = a.name) (hi : a'.idok = a.idok)
    (hempty : v = [] → a' = a) : loopVal (pgAssign known) a (opt t v) = .ok a' := by
  unfold opt; split
  · next h => rw [hempty h]; rfl
  · apply loopVal_one
    simp only [pgAssign, hne, if_false, hset]
    congr 1
    cases a'; cases a; simp_all

theorem pg_loop (known : Bytes → Bool) (name : Bytes) (d : PgD) (wf : WFPg name d) (hk : known name = false) :
    loopVal (pgAssign known) {} (pgTags name d) = .ok { name := name, d := d, idok := true } := by
  obtain ⟨pn, cl, pp, vn, other⟩ := d
  unfold pgTags
  simp only [loopVal_append]
  have s0 : loopVal (pgAssign known) {} [(TAG "ID", name)] = .ok { name := name, d := {}, idok := true } := by
    simp [loopVal, pgAssign, hk]
  rw [s0]; dsimp only
  rw [pg_opt known { name := name, d := {}, idok := true } { name := name, d := { pn := pn }, idok := true } "PN" pn (by decide) (by simp [pgSet]) rfl rfl
    (by intro h; subst h; rfl)]; dsimp only
  rw [pg_opt known { name := name, d := { pn := pn }, idok := true } { name := name, d := { pn := pn, cl := cl }, idok := true } "CL" cl (by decide) (by simp [pgSet]) rfl rfl
    (by intro h; subst h; rfl)]; dsimp only
  rw [pg_opt known { name := name, d := { pn := pn, cl := cl }, idok := true } { name := name, d := { pn := pn, cl := cl, pp := pp }, idok := true } "PP" pp (by decide) (by simp [pgSet]) rfl rfl
    (by intro h; subst h; rfl)]; dsimp only
  rw [pg_opt known { name := name, d := { pn := pn, cl := cl, pp := pp }, idok := true } { name := name, d := { pn := pn, cl := cl, pp := pp, vn := vn }, idok := true } "VN" vn (by decide) (by simp [pgSet]) rfl rfl
    (by intro h; subst h; rfl)]; dsimp only
  rw [pg_other known other _ wf.other.unknown]
  simp

end Hts.Model.Header
